/-
  Driver/GrammarCmd.lean — commands over Model/Grammar.lean (property C18).

    eager_parse <ty target> <many box>                      -> ok <diagram> | err <class>
    brute_force <ty target> <many box> <nat k> <nat take>   -> ok <n> <diagram>*
    cfg_generate <ty start> <int max_sentences> <int max_depth> <int max_iter> <bool remove_dup>
                 <many box not_twice> <many box productions> <many (many nat)>
                                                            -> ok <n> <diagram>* | err <class>
    b2r_ty <bty>                                            -> ok <ty>
    rule_sig <rule>                                         -> ok <bty dom> <bty cod> | err type
    b2r_rule <rule>                                         -> ok <diagram> | err <class>
    bd_sig <bd>                                             -> ok <bty dom> <bty cod>
    b2r <bd>                                                -> ok <diagram> | err <class>
    curry_sig <bd inner> <int n> <bool left>                -> ok <bty dom> <bty cod>
    b2r_curry <bd inner> <int n> <bool left>                -> ok <diagram> | err <class>
    cat2ty <raw string | <empty>>                           -> ok <bty> | err <class>
    tree2diagram <bty dom> <tree>                           -> ok <bty dom> <bty cod> | <b2r answer>
                                                               | err <class>   (`tree2diagram(tree, dom=dom)`)
    variant                                                 -> ba=<0|1> curry=<0|1>   (Variant.current)

  Tokens:  bty  ::= <n> bob*           bob ::= a <name> | o <bty> <bty> | u <bty> <bty>
           rule ::= gen <name> <bty dom> <bty cod> | dgen <name> <bty dom> <bty cod>   (`_dagger=True`)
                  | word <name> <bty dom> <bty cod> <bool dagger>      (`Word(name, cod, dom=dom, _dagger=…)`)
                  | fa <bty> <bty> | ba <bty> <bty>
                  | fc|bc|fx|bx <bty> <bty> <bty> <bty>
           tree ::= word <name> <cat> | node <name> <cat> <n> tree*      (cat raw, `<empty>` = '')
           bd   ::= bid <bty> | bsnoc <bd> <int off> <rule> | bcurry <bd> <int off> <bd> <int n> <bool left>
-/
import Driver.Codec
import Model.Grammar

namespace DV.GrammarCmd
open DV DV.Codec

mutual
partial def bob : P BOb := do
  let t ← tok
  match t with
  | "a" => do pure (.atom (← tok))
  | "o" => do let l ← bty; let r ← bty; pure (.over l r)
  | "u" => do let l ← bty; let r ← bty; pure (.under l r)
  | _ => throw s!"bad bob {t}"
partial def bty : P BTy := do
  let n ← nat
  let mut out : Array BOb := #[]
  for _ in [0:n] do
    out := out.push (← bob)
  pure out.toList
end

def rule : P Rule := do
  let t ← tok
  match t with
  | "gen" => do let n ← tok; let d ← bty; let c ← bty; pure (.gen n d c)
  | "dgen" => do let n ← tok; let d ← bty; let c ← bty; pure (.dgen n d c)
  | "word" => do let n ← tok; let d ← bty; let c ← bty; let dg ← bool; pure (mkWord n c d dg)
  | "fa" => do let l ← bty; let r ← bty; pure (.fa l r)
  | "ba" => do let l ← bty; let r ← bty; pure (.ba l r)
  | "fc" => do let a ← bty; let b ← bty; let c ← bty; let d ← bty; pure (.fc a b c d)
  | "bc" => do let a ← bty; let b ← bty; let c ← bty; let d ← bty; pure (.bc a b c d)
  | "fx" => do let a ← bty; let b ← bty; let c ← bty; let d ← bty; pure (.fx a b c d)
  | "bx" => do let a ← bty; let b ← bty; let c ← bty; let d ← bty; pure (.bx a b c d)
  | _ => throw s!"bad rule {t}"

partial def bd : P BD := do
  let t ← tok
  match t with
  | "bid" => do pure (.id (← bty))
  | "bsnoc" => do let d ← bd; let off ← int; let r ← rule; pure (.snoc d off r)
  | "bcurry" => do
    let d ← bd; let off ← int; let inner ← bd; let n ← int; let l ← bool
    pure (.snocCurry d off inner n l)
  | _ => throw s!"bad bd {t}"

def rawStr : P String := do
  let t ← tok
  pure (if t == "<empty>" then "" else t)

partial def tree : P CTree := do
  let t ← tok
  match t with
  | "word" => do let w ← tok; let c ← rawStr; pure (.word w c.toList)
  | "node" => do
    let ty ← tok; let c ← rawStr; let n ← nat
    let mut out : Array CTree := #[]
    for _ in [0:n] do
      out := out.push (← tree)
    pure (.node ty c.toList out.toList)
  | _ => throw s!"bad tree {t}"

mutual
partial def pBOb : BOb → String
  | .atom n => s!"a {n}"
  | .over l r => s!"o {pBTy l} {pBTy r}"
  | .under l r => s!"u {pBTy l} {pBTy r}"
partial def pBTy (t : BTy) : String := pList pBOb t
end

def pDiagrams (ds : List Diagram) : String := "ok " ++ pList pDiagram ds

def run {α} (p : P α) (rest : List String) (k : α → String) : String :=
  match p.run rest with
  | .error m => "bad " ++ m
  | .ok (x, []) => k x
  | .ok (_, _) => "bad trailing tokens"

def cfgArgs : P (CfgParams × List (List Nat)) := do
  let start ← ty
  let ms ← int; let md ← int; let mi ← int; let rd ← bool
  let nt ← many box
  let prods ← many box
  let orc ← many (many nat)
  pure ({ productions := prods, start := start, maxSentences := ms, maxDepth := md, maxIter := mi,
          removeDuplicates := rd, notTwice := nt }, orc)

def handle (cmd : String) (rest : List String) : Option String :=
  let v := Variant.current
  match cmd with
  | "eager_parse" =>
    some <| run (do let t ← ty; let ws ← many box; pure (t, ws)) rest
      (fun (t, ws) => pResult (eagerParse ws t))
  | "brute_force" =>
    some <| run (do let t ← ty; let ws ← many box; let k ← nat; let n ← nat; pure (t, ws, k, n)) rest
      (fun (t, ws, k, n) => pDiagrams ((bruteForce ws t k).take n))
  | "cfg_generate" =>
    some <| run cfgArgs rest (fun (P, orc) =>
      match cfgGenerate P orc with
      | .ok ds => pDiagrams ds
      | .error e => "err " ++ toString e)
  | "b2r_ty" => some <| run bty rest (fun t => "ok " ++ pTy (BTy.img t))
  | "rule_sig" =>
    some <| run rule rest (fun r =>
      if r.check then s!"ok {pBTy r.dom} {pBTy r.cod}" else "err type")
  | "b2r_rule" => some <| run rule rest (fun r => pResult (r.img v))
  | "bd_sig" => some <| run bd rest (fun d => s!"ok {pBTy d.dom} {pBTy (d.cod v)}")
  | "b2r" => some <| run bd rest (fun d => pResult (d.img v))
  | "curry_sig" =>
    some <| run (do let d ← bd; let n ← int; let l ← bool; pure (d, n, l)) rest
      (fun (d, n, l) => s!"ok {pBTy (curryDom v d.dom n l)} {pBTy (curryCod d.dom (d.cod v) n l)}")
  | "b2r_curry" =>
    some <| run (do let d ← bd; let n ← int; let l ← bool; pure (d, n, l)) rest
      (fun (d, n, l) => pResult (BD.curryBoxImg v d n l))
  | "cat2ty" =>
    some <| run rawStr rest (fun c =>
      match cat2ty c.toList with
      | .ok t => "ok " ++ pBTy t
      | .error e => "err " ++ toString e)
  | "tree2diagram" =>
    some <| run (do let dom ← bty; let t ← tree; pure (dom, t)) rest (fun (dom, t) =>
      match t.toBD v dom with
      | .ok d => s!"ok {pBTy d.dom} {pBTy (d.cod v)} | {pResult (d.img v)}"
      | .error e => "err " ++ toString e)
  | "variant" =>
    some s!"ba={if v.baRepaired then 1 else 0} curry={if v.curryRepaired then 1 else 0}"
  | _ => none

end DV.GrammarCmd
