/-
  Driver/CartesianCmd.lean — commands over the cartesian model (Model/Cartesian.lean).

  A diagram request is   <dom> <cod> <nb> (<prim> <bdom> <bcod>)^nb <no> <off>^no <nv> <val>^nv
    prim  : add | swap | copy | discard | scale:K | aff:M:N:S:B | proj:M:I | pack:M | nest:M | ident:M | fail
            | tyc:M:I | const:M:VAL | pick:M:I.I.I  (indices separated by dots, possibly none)
    val   : INT | <letter>INT | ( val , ... )   no spaces; `()` empty tuple, `(7)` the 1-tuple
            typed tokens: f3 = float(3), b1 = True, x0 / N0 / s0 / y0 / l0 / d0 / e0 / z0 = entry 0 of
            the harness's table of other floats / None / str / bytes / list / dict / set / frozenset
  Commands
    ccall <diagram request>     public constructor, then d(*vals)       -> ok <val> | err <class>
    crun  <diagram request>     public constructor, then reference run  -> ok <tuple of wires> | err
    cbox  <prim> <bdom> <bcod> <nv> <val>^nv       Box called directly  -> ok <val> | err <class>
    cswap L R <nv> <val>^nv | ccopy N <nv> ... | cdiscard N <nv> ...    -> ok <val> | err <class>
    cnet swap L R | cnet copy N | cnet discard N   -> ok dom cod nb (bdom bcod off)^nb | err <class>
-/
import Model.Cartesian

namespace DV.CartCmd
open DV DV.Cart

abbrev P := StateT (List String) (Except String)

def tok : P String := do
  match (← get) with
  | [] => throw "unexpected end of line"
  | t :: ts => set ts; pure t

def int : P Int := do
  let t ← tok
  match t.toInt? with
  | some i => pure i
  | none => throw s!"bad int {t}"

def nat : P Nat := do
  let t ← tok
  match t.toNat? with
  | some i => pure i
  | none => throw s!"bad nat {t}"

def many {α} (p : P α) : P (List α) := do
  let n ← nat
  let mut out : Array α := #[]
  for _ in [0:n] do
    out := out.push (← p)
  pure out.toList

def tyOfLetter : Char → Option Cart.Ty
  | 'f' => some .float | 'b' => some .bool | 'x' => some .floatx | 'N' => some .none
  | 's' => some .str | 'y' => some .bytes | 'l' => some .list | 'd' => some .dict
  | 'e' => some .set | 'z' => some .frozenset | _ => none

def letterOfTy : Cart.Ty → String
  | .float => "f" | .bool => "b" | .floatx => "x" | .none => "N" | .str => "s" | .bytes => "y"
  | .list => "l" | .dict => "d" | .set => "e" | .frozenset => "z"

/-- Recursive-descent parser of values over characters, with fuel. -/
def pVal : Nat → List Char → Option (PyVal × List Char)
  | 0, _ => none
  | fuel + 1, '(' :: cs => pItems fuel cs []
  | _ + 1, c :: cs =>
    match tyOfLetter c with
    | some t =>
      let digits := cs.takeWhile (fun c => c.isDigit || c == '-')
      match (String.ofList digits).toInt? with
      | some i => some (.tok t i, cs.drop digits.length)
      | none => none
    | none =>
      let digits := (c :: cs).takeWhile (fun c => c.isDigit || c == '-')
      match (String.ofList digits).toInt? with
      | some i => some (.atom i, (c :: cs).drop digits.length)
      | none => none
  | _ + 1, [] => none
where
  pItems : Nat → List Char → List PyVal → Option (PyVal × List Char)
    | 0, _, _ => none
    | _ + 1, ')' :: cs, acc => some (.tup acc.reverse, cs)
    | fuel + 1, ',' :: cs, acc => pItems fuel cs acc
    | fuel + 1, cs, acc =>
      match pVal fuel cs with
      | some (v, rest) => pItems fuel rest (v :: acc)
      | none => none

def val : P PyVal := do
  let t ← tok
  match pVal (2 * t.length + 2) t.toList with
  | some (v, []) => pure v
  | _ => throw s!"bad value {t}"

partial def showVal : PyVal → String
  | .atom n => toString n
  | .tok t n => letterOfTy t ++ toString n
  | .tup xs => "(" ++ ",".intercalate (xs.map showVal) ++ ")"

def prim : P Prim := do
  let t ← tok
  match t.splitOn ":" with
  | ["add"] => pure .add
  | ["swap"] => pure .swap
  | ["copy"] => pure .copy
  | ["discard"] => pure .discard
  | ["fail"] => pure .fail
  | ["scale", k] =>
    match k.toInt? with
    | some k => pure (.scale k)
    | none => throw s!"bad prim {t}"
  | ["aff", m, n, s, b] =>
    match m.toNat?, n.toNat?, s.toInt? with
    | some m, some n, some s => pure (.affine m n s (b == "1"))
    | _, _, _ => throw s!"bad prim {t}"
  | ["proj", m, i] =>
    match m.toNat?, i.toNat? with
    | some m, some i => pure (.proj m i)
    | _, _ => throw s!"bad prim {t}"
  | ["pack", m] =>
    match m.toNat? with
    | some m => pure (.pack m)
    | none => throw s!"bad prim {t}"
  | ["ident", m] =>
    match m.toNat? with
    | some m => pure (.ident m)
    | none => throw s!"bad prim {t}"
  | ["tyc", m, i] =>
    match m.toNat?, i.toNat? with
    | some m, some i => pure (.tyc m i)
    | _, _ => throw s!"bad prim {t}"
  | ["const", m, v] =>
    match m.toNat?, pVal (2 * v.length + 2) v.toList with
    | some m, some (v, []) => pure (.const m v)
    | _, _ => throw s!"bad prim {t}"
  | ["pick", m, is] =>
    match m.toNat?, ((is.splitOn ".").filter (· ≠ "")).mapM String.toNat? with
    | some m, some is => pure (.pick m is)
    | _, _ => throw s!"bad prim {t}"
  | ["nest", m] =>
    match m.toNat? with
    | some m => pure (.nest m)
    | none => throw s!"bad prim {t}"
  | _ => throw s!"bad prim {t}"

def cbox : P CBox := do
  let p ← prim
  let d ← nat
  let c ← nat
  pure (p.box d c)

structure Request where
  dom : Nat
  cod : Nat
  boxes : List CBox
  offsets : List Int
  vals : List PyVal

def request : P Request := do
  let dom ← nat
  let cod ← nat
  let boxes ← many cbox
  let offsets ← many int
  let vals ← many val
  pure ⟨dom, cod, boxes, offsets, vals⟩

def pRes {α} (sh : α → String) : Except Err α → String
  | .ok v => "ok " ++ sh v
  | .error e => "err " ++ toString e

def showNet (d : CDiagram) : String :=
  " ".intercalate ([toString d.dom, toString d.cod, toString d.boxes.length] ++
    (d.boxes.zip d.offsets).map (fun (b, o) => s!"{b.dom} {b.cod} {o}"))

def runP {α} (p : P α) (rest : List String) (k : α → String) : String :=
  match p.run rest with
  | .error m => "bad " ++ m
  | .ok (a, []) => k a
  | .ok (_, _) => "bad trailing tokens"

def handle (cmd : String) (rest : List String) : Option String :=
  match cmd with
  | "ccall" => some <| runP request rest fun r =>
      pRes showVal ((CDiagram.mk? r.dom r.cod r.boxes r.offsets).bind (·.call r.vals))
  | "crun" => some <| runP request rest fun r =>
      pRes (fun vs => showVal (.tup vs))
        ((CDiagram.mk? r.dom r.cod r.boxes r.offsets).bind (·.run r.vals))
  | "cbox" => some <| runP (do let b ← cbox; let vs ← many val; pure (b, vs)) rest fun (b, vs) =>
      pRes showVal (b.call vs)
  | "cswap" => some <| runP (do let l ← nat; let r ← nat; let vs ← many val; pure (l, r, vs)) rest
      fun (l, r, vs) => pRes showVal ((swapD l r).bind (·.call vs))
  | "ccopy" => some <| runP (do let n ← nat; let vs ← many val; pure (n, vs)) rest
      fun (n, vs) => pRes showVal ((copyD n).bind (·.call vs))
  | "cdiscard" => some <| runP (do let n ← nat; let vs ← many val; pure (n, vs)) rest
      fun (n, vs) => pRes showVal ((discardD n).call vs)
  | "cnet" => some <| runP (do
        let k ← tok
        match k with
        | "swap" => do let l ← nat; let r ← nat; pure (swapD l r)
        | "copy" => do let n ← nat; pure (copyD n)
        | "discard" => do let n ← nat; pure (.ok (discardD n))
        | _ => throw s!"bad net {k}") rest (pRes showNet)
  | _ => none

end DV.CartCmd
