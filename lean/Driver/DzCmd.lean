/-
  Driver/DzCmd.lean — commands over Model/Diagramize.lean.
    dz <boxes sig> <bool hasId> <ty dom> <ty cod> <calls> <nodes ret>
          -> (P <offsets> | NP) (ok <diagram> | err <class>)
             `diagramize(dom, cod, sig, id_factory)(body)`, preceded by the model's planarity
             judgement of the body (`Body.planar`)
    nx2d <expr> <attrs>
          -> ok <diagram> | err <class>     `nx2diagram(diagram2nx(d)[0])` with `node.offset`
             set on box node k to attrs[k] (`A` = left absent, `N` = None, else an integer)
    nxg <nodes> <edges>
          -> ok <diagram> | err <class>     `nx2diagram` on an arbitrary graph
    nxgraph <expr>
          -> ok <nodes> <edges> | err <class>   the graph of `diagram2nx(d)` with node data,
             nodes in insertion order, edges grouped by source in node order (`graph.edges()`)
  call  := <box> <nodes> <optint>
  node  := I <ob> <i> | O <ob> <i> | D <ob> <i> <depth> | C <ob> <i> <depth> | B <box> <depth> <attr>
  edge  := <node> <node>
-/
import Driver.Codec
import Model.Diagramize

namespace DV.DzCmd
open DV DV.Codec DV.Dz

def attr : P OffAttr := do
  let t ← tok
  if t == "A" then pure .absent else if t == "N" then pure .none else
  match t.toInt? with
  | some i => pure (.int i)
  | none => throw s!"bad attr {t}"

def node : P GNode := do
  let t ← tok
  match t with
  | "I" => do let o ← ob; let i ← nat; pure (.input o i)
  | "O" => do let o ← ob; let i ← nat; pure (.output o i)
  | "D" => do let o ← ob; let i ← nat; let d ← nat; pure (.dom o i d)
  | "C" => do let o ← ob; let i ← nat; let d ← nat; pure (.cod o i d)
  | "B" => do let b ← box; let d ← nat; let a ← attr; pure (.box b d a)
  | _ => throw s!"bad node {t}"

def call : P Call := do
  let b ← box; let ins ← many node; let off ← optInt
  pure ⟨b, ins, off⟩

def edge : P (GNode × GNode) := do
  let a ← node; let b ← node; pure (a, b)

def pAttr : OffAttr → String
  | .absent => "A" | .none => "N" | .int k => toString k

def pNode : GNode → String
  | .input o i => s!"I {pOb o} {i}"
  | .output o i => s!"O {pOb o} {i}"
  | .dom o i d => s!"D {pOb o} {i} {d}"
  | .cod o i d => s!"C {pOb o} {i} {d}"
  | .box b d a => s!"B {pBox b} {d} {pAttr a}"

def pRes (r : Except DErr Diagram) : String :=
  match r with
  | .ok d => "ok " ++ pDiagram d
  | .error e => "err " ++ toString e

def pPlanar : Option (List Nat) → String
  | none => "NP"
  | some offs => "P " ++ pList toString offs

def handle (cmd : String) (rest : List String) : Option String :=
  match cmd with
  | "dz" =>
    let p : P (List Box × Bool × Ty × Ty × Body) := do
      let sig ← many box; let hasId ← bool; let dom ← ty; let cod ← ty
      let calls ← many call; let ret ← many node
      pure (sig, hasId, dom, cod, ⟨calls, ret⟩)
    some <| match p.run rest with
      | .error m => "bad " ++ m
      | .ok ((sig, hasId, dom, cod, body), []) =>
        pPlanar (body.planar sig dom cod) ++ " " ++ pRes (diagramize sig hasId dom cod body)
      | .ok (_, _) => "bad trailing tokens"
  | "nx2d" =>
    let p : P (Expr × List OffAttr) := do
      let e ← expr; let as ← many attr; pure (e, as)
    some <| match p.run rest with
      | .error m => "bad " ++ m
      | .ok ((e, as), []) =>
        (match e.eval with
         | .error err => "err " ++ toString err
         | .ok d => pRes (roundTrip d (fun k => as.getD k .absent)))
      | .ok (_, _) => "bad trailing tokens"
  | "nxg" =>
    let p : P NxGraph := do
      let ns ← many node; let es ← many edge; pure ⟨ns, es⟩
    some <| match p.run rest with
      | .error m => "bad " ++ m
      | .ok (g, []) => pRes (nx2diagram g)
      | .ok (_, _) => "bad trailing tokens"
  | "nxgraph" =>
    some <| match expr.run rest with
      | .error m => "bad " ++ m
      | .ok (e, []) =>
        (match e.eval with
         | .error err => "err " ++ toString err
         | .ok d => match Layout.diagram2nx d with
           | .error err => "err " ++ toString err
           | .ok g =>
             let ng := nxGraph d (fun _ => .absent) g
             "ok " ++ pList pNode ng.nodes ++ " "
               ++ pList (fun e => pNode e.1 ++ " " ++ pNode e.2)
                    (ng.nodes.flatMap (fun v => (ng.succ v).map (fun w => (v, w)))))
      | .ok (_, _) => "bad trailing tokens"
  | _ => none

end DV.DzCmd
