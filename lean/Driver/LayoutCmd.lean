/-
  Driver/LayoutCmd.lean — commands over the layout model (Model/Layout.lean).
    layout <expr>   -> ok N <n> (<node> <x> <y>)* E <e> (<node> <node>)* S <k> (<len> <node>*)*
                     | err <class>
    layoutraw <ty dom> <ty cod> <boxes> <offsets>
                    -> the same for a diagram VALUE with these four fields that was not built by
                       the scanning constructor (e.g. `Diagram(dom, cod, boxes, offsets, layers=…)`):
                       exercises the `downgrade()` re-scan of drawing.py:100
  Nodes are printed as `kind:depth:i`, sorted (input, box, dom, cod, output; then depth, i);
  coordinates are exact rationals `num/den` in HALF-units (2·x, 2·y); edges sorted; the scans
  (open wires before box 0, 1, …, after the last box) are printed in scan order.
-/
import Driver.Codec
import Model.Layout

namespace DV.LayoutCmd
open DV DV.Codec DV.Layout

def pRat (q : Rat) : String := s!"{q.num}/{q.den}"

def pPlaced (q : Placed) : String :=
  s!"{q.node.toString} {pRat (2 * q.x)} {pRat ((q.y : Rat) / 2)}"

def edgeLt (a b : Node × Node) : Bool :=
  Node.lt a.1 b.1 || (a.1 == b.1 && Node.lt a.2 b.2)

def pGraph (g : Graph) : String :=
  let nodes := g.nodes.mergeSort (fun a b => !Node.lt b.node a.node)
  let edges := g.edges.mergeSort (fun a b => !edgeLt b a)
  s!"N {pList pPlaced nodes} E {pList (fun e => e.1.toString ++ " " ++ e.2.toString) edges} " ++
  s!"S {pList (fun s => pList Node.toString s) g.scans}"

def handle (cmd : String) (rest : List String) : Option String :=
  match cmd with
  | "layout" =>
    some <| match (expr.run rest) with
      | .error m => "bad " ++ m
      | .ok (e, []) =>
        (match e.eval with
         | .error err => "err " ++ toString err
         | .ok d => match diagram2nx d with
           | .error err => "err " ++ toString err
           | .ok g => "ok " ++ pGraph g)
      | .ok (_, _) => "bad trailing tokens"
  | "layoutraw" =>
    let p : P Diagram := do
      let dom ← ty; let cod ← ty; let bs ← many box; let os ← many int
      pure ⟨dom, cod, bs, os, LArrow.id dom⟩
    some <| match (p.run rest) with
      | .error m => "bad " ++ m
      | .ok (d, []) =>
        (if d.boxes.length ≠ d.offsets.length then "err value"   -- monoidal.py:339-340
         else match diagram2nx d with
          | .error err => "err " ++ toString err
          | .ok g => "ok " ++ pGraph g)
      | .ok (_, _) => "bad trailing tokens"
  | _ => none

end DV.LayoutCmd
