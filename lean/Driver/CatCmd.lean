/-
  Driver/CatCmd.lean — the class `cat` (Model/CatArrow.lean).
    cateval <cexpr>   -> ok <isBox> <ty dom> <ty cod> <n> <box>* | err <class>

  <cexpr> ::= mk <ty dom> <ty cod> <n> <box>*          Arrow(dom, cod, boxes)
            | box <box> | id <ty>
            | thenN <cexpr recv> <n> <cexpr>*          recv.then(*args)
            | dagger <cexpr> | slice <cexpr> <optint> <optint> | slicerev <cexpr> <optint> <optint>
            | getitem <cexpr> <int>
            | functor <nob> (<ty> <ty>)* <nar> (<box> <isBox> <ty> <ty> <n> <box>*)* <cexpr>
  An object is a type token (`Ob('x')` is `1 x 0`); a box is the box token of Driver/Codec.lean and
  stands for the layer with no wires on either side.
-/
import Driver.Codec
import Model.CatArrow

namespace DV.CatCmd
open DV DV.Codec

def layer : P Layer := do let b ← box; pure ⟨[], b, []⟩

def cval : P CVal := do
  let isBox ← bool; let dom ← ty; let cod ← ty; let bs ← many layer
  pure ⟨⟨dom, cod, bs⟩, isBox⟩

def obEntry : P (Ty × Ty) := do let a ← ty; let b ← ty; pure (a, b)
def arEntry : P (Layer × CVal) := do let l ← layer; let v ← cval; pure (l, v)

partial def cexpr : P CExpr := do
  let t ← tok
  match t with
  | "mk" => do let dom ← ty; let cod ← ty; let bs ← many layer; pure (.mk dom cod bs)
  | "box" => do pure (.box (← layer))
  | "id" => do pure (.id (← ty))
  | "thenN" => do
    let r ← cexpr; let n ← nat
    let mut out : Array CExpr := #[]
    for _ in [0:n] do
      out := out.push (← cexpr)
    pure (.thenN r out.toList)
  | "dagger" => do pure (.dagger (← cexpr))
  | "slice" => do let a ← cexpr; let s ← optInt; let e ← optInt; pure (.slice a s e)
  | "slicerev" => do let a ← cexpr; let s ← optInt; let e ← optInt; pure (.sliceRev a s e)
  | "getitem" => do let a ← cexpr; let i ← int; pure (.getItem a i)
  | "functor" => do
    let ob ← many obEntry; let ar ← many arEntry; let a ← cexpr
    pure (.functor ⟨ob, ar⟩ a)
  | _ => throw s!"bad cexpr head {t}"

def pCVal (x : CVal) : String :=
  s!"{if x.isBox then 1 else 0} {pTy x.arrow.dom} {pTy x.arrow.cod} " ++
    pList (fun l => pBox l.box) x.arrow.boxes

def handle (cmd : String) (rest : List String) : Option String :=
  match cmd with
  | "cateval" =>
    some <| match (cexpr.run rest) with
      | .error m => "bad " ++ m
      | .ok (e, []) => match e.eval with
        | .ok x => "ok " ++ pCVal x
        | .error err => "err " ++ toString err
      | .ok (_, _) => "bad trailing tokens"
  | _ => none

end DV.CatCmd
