/-
  Driver/SpidersCmd.lean — command over Model/Spiders.lean.
    spiders <n> (<depth> <spider 0|1> <shape c|r> <colour>)*
        -> ok <k> (<shape> <m> (<depth> <colour>)*)*      calls sorted by shape, nodes by depth
         | err <class>
-/
import Driver.Codec
import Model.Spiders

namespace DV.SpidersCmd
open DV DV.Codec DV.Spiders

def shape : P Shape := do
  let t ← tok
  match t with
  | "c" => pure .circle | "r" => pure .rectangle
  | _ => throw s!"bad shape {t}"

def color : P Color := do
  let t ← tok
  match t with
  | "white" => pure .white | "red" => pure .red | "green" => pure .green
  | "blue" => pure .blue | "yellow" => pure .yellow | "black" => pure .black
  | _ => throw s!"bad colour {t}"

def boxNode : P BoxNode := do
  let d ← nat; let sp ← bool; let s ← shape; let c ← color
  pure ⟨d, sp, s, c⟩

def pShape : Shape → String
  | .circle => "c" | .rectangle => "r"
def pColor : Color → String
  | .white => "white" | .red => "red" | .green => "green"
  | .blue => "blue" | .yellow => "yellow" | .black => "black"

def pCall (c : Call) : String :=
  let ns := c.nodelist.mergeSort (fun a b => a.depth ≤ b.depth)
  s!"{pShape c.shape} {pList (fun n => s!"{n.depth} {pColor n.color}") ns}"

def handle (cmd : String) (rest : List String) : Option String :=
  match cmd with
  | "spiders" =>
    some <| match ((many boxNode).run rest) with
      | .error m => "bad " ++ m
      | .ok (g, []) =>
        (match matSpiders g with
         | .error err => "err " ++ toString err
         | .ok cs => "ok " ++ pList pCall (cs.mergeSort (fun a b => pShape a.shape ≤ pShape b.shape)))
      | .ok (_, _) => "bad trailing tokens"
  | _ => none

end DV.SpidersCmd
