/-
  Driver/FunctorCmd.lean
    functor <nob> (<name> <ty>)* <nar> (<box> <expr>)* <expr d>  -> ok <diagram> | err <class>
    functorty <nob> (<name> <ty>)* <ty>                          -> ok <ty> | err <class>
    functorslice <functor> <expr d> <optint i> <optint j>
        -> <result F(d[i:j])> | <i'> <j'> | <result F(d)[i':j']>      (err <class> if d or an image raises)
           with i' = sum(len(F(b).boxes) for b in d.boxes[:I]), I, J = slice(i, j).indices(len(d))[:2]
    functorsum <functor> <sexpr>                                 -> ok <dom> <cod> <n> <diagram>* | err <class>
-/
import Driver.ReprCmd
import Model.FunctorSum

namespace DV.FunctorCmd
open DV DV.Codec

def obEntry : P (String × Ty) := do let n ← tok; let t ← ty; pure (n, t)
def arEntry : P (Box × Expr) := do let b ← box; let e ← expr; pure (b, e)

def evalImages : List (Box × Expr) → Except Err (List (Box × Diagram))
  | [] => .ok []
  | (b, e) :: rest => match e.eval with
    | .error x => .error x
    | .ok d => match evalImages rest with
      | .error x => .error x
      | .ok ds => .ok ((b, d) :: ds)

def functorP : P (List (String × Ty) × List (Box × Expr)) := do
  let ob ← many obEntry; let ar ← many arEntry; pure (ob, ar)

def sliceAnswer (F : Functor) (d : Diagram) (i j : Option Int) : String :=
  let i' := F.imgIdx d.boxes (pyLo d.boxes.length i)
  let j' := F.imgIdx d.boxes (pyHi d.boxes.length j)
  let lhs := match d.slice i j with
    | .error e => .error e
    | .ok s => F.apply s
  let rhs := match F.apply d with
    | .error e => .error e
    | .ok fd => fd.slice (some (i' : Int)) (some (j' : Int))
  s!"{pResult lhs} | {i'} {j'} | {pResult rhs}"

def handle (cmd : String) (rest : List String) : Option String :=
  match cmd with
  | "functorslice" =>
    some <| match ((do let f ← functorP; let d ← expr; let i ← optInt; let j ← optInt;
                       pure (f, d, i, j)) : P _).run rest with
      | .error m => "bad " ++ m
      | .ok (((ob, ar), d, i, j), _) =>
        match evalImages ar, d.eval with
        | .ok imgs, .ok d0 => sliceAnswer ⟨ob, imgs⟩ d0 i j
        | .error e, _ => "err " ++ toString e
        | _, .error e => "err " ++ toString e
  | "functorsum" =>
    some <| match ((do let f ← functorP; let s ← ReprCmd.sexpr; pure (f, s)) : P _).run rest with
      | .error m => "bad " ++ m
      | .ok (((ob, ar), s), _) =>
        match evalImages ar, s.eval with
        | .ok imgs, .ok s0 => ReprCmd.showE ((⟨ob, imgs⟩ : Functor).applySum s0) ReprCmd.pSum
        | .error e, _ => "err " ++ toString e
        | _, .error e => "err " ++ toString e
  | "functor" =>
    some <| match ((do let ob ← many obEntry; let ar ← many arEntry; let d ← expr; pure (ob, ar, d)) : P _).run rest with
      | .error m => "bad " ++ m
      | .ok ((ob, ar, d), _) =>
        match evalImages ar, d.eval with
        | .ok imgs, .ok d0 => pResult ((⟨ob, imgs⟩ : Functor).apply d0)
        | .error e, _ => "err " ++ toString e
        | _, .error e => "err " ++ toString e
  | "functorty" =>
    some <| match ((do let ob ← many obEntry; let t ← ty; pure (ob, t)) : P _).run rest with
      | .error m => "bad " ++ m
      | .ok ((ob, t), _) =>
        match (⟨ob, []⟩ : Functor).ty t with
        | .ok r => "ok " ++ pTy r
        | .error e => "err " ++ toString e
  | _ => none

end DV.FunctorCmd
