/-
  Driver/FunctorCmd.lean
    functor <nob> (<name> <ty>)* <nar> (<box> <expr>)* <expr d>  -> ok <diagram> | err <class>
    functorty <nob> (<name> <ty>)* <ty>                          -> ok <ty> | err <class>
    functorslice <functor> <expr d> <optint i> <optint j>
        -> <result F(d[i:j])> | <i'> <j'> | <result F(d)[i':j']>      (err <class> if d or an image raises)
           with i' = sum(len(F(b).boxes) for b in d.boxes[:I]), I, J = slice(i, j).indices(len(d))[:2]
    functorsum <functor> <sexpr>                                 -> ok <dom> <cod> <n> <diagram>* | err <class>
    functorimg <nob> (<name> <ty>)* <nar> (<box> <img>)* <expr d>
        -> ok D <diagram> | ok S <dom> <cod> <n> <diagram>* | err <class>     (FunctorS.applyS)
        <img> ::= D <expr> | S <n> <expr>* <ty dom> <ty cod>     (a plain diagram | Sum(terms, dom, cod))
    functorimgop then|tensor <functorimg functor> <expr a> <expr b>
        -> the same format, for F(a) >> F(b) / F(a) @ F(b) computed with DS.then / DS.tensor
-/
import Driver.ReprCmd
import Model.FunctorSumImg

namespace DV.FunctorCmd
open DV DV.Codec

def obEntry : P (String × Ty) := do let n ← tok; let t ← ty; pure (n, t)
def arEntry : P (Box × Expr) := do let b ← box; let e ← expr; pure (b, e)

def evalImages : List (Box × Expr) → Except Err (List (Box × Diagram))
  | [] => .ok []
  | (b, e) :: rest => match e.eval with
    | .error x => .error x
    | .ok d => match evalImages rest with
      | .error x => .error x
      | .ok ds => .ok ((b, d) :: ds)

def functorP : P (List (String × Ty) × List (Box × Expr)) := do
  let ob ← many obEntry; let ar ← many arEntry; pure (ob, ar)

def sliceAnswer (F : Functor) (d : Diagram) (i j : Option Int) : String :=
  let i' := F.imgIdx d.boxes (pyLo d.boxes.length i)
  let j' := F.imgIdx d.boxes (pyHi d.boxes.length j)
  let lhs := match d.slice i j with
    | .error e => .error e
    | .ok s => F.apply s
  let rhs := match F.apply d with
    | .error e => .error e
    | .ok fd => fd.slice (some (i' : Int)) (some (j' : Int))
  s!"{pResult lhs} | {i'} {j'} | {pResult rhs}"

inductive ImgE where
  | plain (e : Expr)
  | sum (ts : List Expr) (dom cod : Ty)

def imgP : P ImgE := do
  let t ← tok
  if t == "D" then do pure (.plain (← expr))
  else if t == "S" then do
    let ts ← many expr; let d ← ty; let c ← ty; pure (.sum ts d c)
  else throw s!"bad img head {t}"

def arImgEntry : P (Box × ImgE) := do let b ← box; let i ← imgP; pure (b, i)

def evalImg : ImgE → Except Err DS
  | .plain e => DS.ofDiag e.eval
  | .sum ts d c =>
    match evalAll ts with
    | .error e => .error e
    | .ok ds => DS.ofSum (Sum.mk? ds (some d) (some c))

def evalImgs : List (Box × ImgE) → Except Err (List (Box × DS))
  | [] => .ok []
  | (b, i) :: rest => match evalImg i with
    | .error x => .error x
    | .ok d => match evalImgs rest with
      | .error x => .error x
      | .ok ds => .ok ((b, d) :: ds)

def pDS (r : Except Err DS) : String :=
  match r with
  | .ok (.diag d) => "ok D " ++ pDiagram d
  | .ok (.sum s) => "ok S " ++ ReprCmd.pSum s
  | .error e => "err " ++ toString e

def functorImgP : P (List (String × Ty) × List (Box × ImgE)) := do
  let ob ← many obEntry; let ar ← many arImgEntry; pure (ob, ar)

def imgOp (op : String) (F : FunctorS) (a b : Diagram) : Except Err DS :=
  match F.applyS a with
  | .error e => .error e
  | .ok fa => match F.applyS b with
    | .error e => .error e
    | .ok fb => if op == "then" then fa.then fb else fa.tensor fb

def handle (cmd : String) (rest : List String) : Option String :=
  match cmd with
  | "functorimg" =>
    some <| match ((do let f ← functorImgP; let d ← expr; pure (f, d)) : P _).run rest with
      | .error m => "bad " ++ m
      | .ok (((ob, ar), d), _) =>
        match evalImgs ar, d.eval with
        | .ok imgs, .ok d0 => pDS ((⟨ob, imgs⟩ : FunctorS).applyS d0)
        | .error e, _ => "err " ++ toString e
        | _, .error e => "err " ++ toString e
  | "functorimgop" =>
    some <| match ((do let op ← tok; let f ← functorImgP; let a ← expr; let b ← expr;
                       pure (op, f, a, b)) : P _).run rest with
      | .error m => "bad " ++ m
      | .ok ((op, (ob, ar), a, b), _) =>
        match evalImgs ar, a.eval, b.eval with
        | .ok imgs, .ok a0, .ok b0 => pDS (imgOp op ⟨ob, imgs⟩ a0 b0)
        | .error e, _, _ => "err " ++ toString e
        | _, .error e, _ => "err " ++ toString e
        | _, _, .error e => "err " ++ toString e
  | "functorslice" =>
    some <| match ((do let f ← functorP; let d ← expr; let i ← optInt; let j ← optInt;
                       pure (f, d, i, j)) : P _).run rest with
      | .error m => "bad " ++ m
      | .ok (((ob, ar), d, i, j), _) =>
        match evalImages ar, d.eval with
        | .ok imgs, .ok d0 => sliceAnswer ⟨ob, imgs⟩ d0 i j
        | .error e, _ => "err " ++ toString e
        | _, .error e => "err " ++ toString e
  | "functorsum" =>
    some <| match ((do let f ← functorP; let s ← ReprCmd.sexpr; pure (f, s)) : P _).run rest with
      | .error m => "bad " ++ m
      | .ok (((ob, ar), s), _) =>
        match evalImages ar, s.eval with
        | .ok imgs, .ok s0 => ReprCmd.showE ((⟨ob, imgs⟩ : Functor).applySum s0) ReprCmd.pSum
        | .error e, _ => "err " ++ toString e
        | _, .error e => "err " ++ toString e
  | "functor" =>
    some <| match ((do let ob ← many obEntry; let ar ← many arEntry; let d ← expr; pure (ob, ar, d)) : P _).run rest with
      | .error m => "bad " ++ m
      | .ok ((ob, ar, d), _) =>
        match evalImages ar, d.eval with
        | .ok imgs, .ok d0 => pResult ((⟨ob, imgs⟩ : Functor).apply d0)
        | .error e, _ => "err " ++ toString e
        | _, .error e => "err " ++ toString e
  | "functorty" =>
    some <| match ((do let ob ← many obEntry; let t ← ty; pure (ob, t)) : P _).run rest with
      | .error m => "bad " ++ m
      | .ok ((ob, t), _) =>
        match (⟨ob, []⟩ : Functor).ty t with
        | .ok r => "ok " ++ pTy r
        | .error e => "err " ++ toString e
  | _ => none

end DV.FunctorCmd
