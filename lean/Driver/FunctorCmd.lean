/-
  Driver/FunctorCmd.lean
    functor <nob> (<name> <ty>)* <nar> (<box> <expr>)* <expr d>  -> ok <diagram> | err <class>
    functorty <nob> (<name> <ty>)* <ty>                          -> ok <ty> | err <class>
-/
import Driver.Codec
import Model.Functor

namespace DV.FunctorCmd
open DV DV.Codec

def obEntry : P (String × Ty) := do let n ← tok; let t ← ty; pure (n, t)
def arEntry : P (Box × Expr) := do let b ← box; let e ← expr; pure (b, e)

def evalImages : List (Box × Expr) → Except Err (List (Box × Diagram))
  | [] => .ok []
  | (b, e) :: rest => match e.eval with
    | .error x => .error x
    | .ok d => match evalImages rest with
      | .error x => .error x
      | .ok ds => .ok ((b, d) :: ds)

def handle (cmd : String) (rest : List String) : Option String :=
  match cmd with
  | "functor" =>
    some <| match ((do let ob ← many obEntry; let ar ← many arEntry; let d ← expr; pure (ob, ar, d)) : P _).run rest with
      | .error m => "bad " ++ m
      | .ok ((ob, ar, d), _) =>
        match evalImages ar, d.eval with
        | .ok imgs, .ok d0 => pResult ((⟨ob, imgs⟩ : Functor).apply d0)
        | .error e, _ => "err " ++ toString e
        | _, .error e => "err " ++ toString e
  | "functorty" =>
    some <| match ((do let ob ← many obEntry; let t ← ty; pure (ob, t)) : P _).run rest with
      | .error m => "bad " ++ m
      | .ok ((ob, t), _) =>
        match (⟨ob, []⟩ : Functor).ty t with
        | .ok r => "ok " ++ pTy r
        | .error e => "err " ++ toString e
  | _ => none

end DV.FunctorCmd
