/-
  Driver/ParamCmd.lean — commands over Model/Param.lean (C14, C15).

  poly      := <nterms> (<coeff> <e0> <e1> <e2>)*            three variables x0 x1 x2
  dims      := <n> <d>*
  pdiagram  := <dims dom> <nlayers> (<dims left> <dims right> <dims box.dom> <dims box.cod>
               <dagger 0|1> <n> poly*)*
    peval <pdiagram>                     -> ok <n> poly*      row-major entries of the evaluation
    pfree <pdiagram>                     -> ok <k> <index>*   free symbols, increasing
    psubseval <i> <poly q> <pdiagram>    -> ok <n> poly*      eval (d.subs(x_i, q))
    pevalsubs <i> <poly q> <pdiagram>    -> ok <n> poly*      (eval d) with x_i := q entrywise
    pgrad <checksFS> <i> <pdiagram>      -> ok <terms> <n> poly*   eval of d.grad(x_i), number of terms
    pjac <checksFS> <k> <i>* <pdiagram>  -> ok <n> poly*      eval of d.jacobian([x_i…])
    psumgrad <sumHasGrad> <checksFS> <i> <k> <pdiagram>*  -> ok <terms> <n> poly*
                                         eval of (d_1 + … + d_k).grad(x_i), number of terms (Model/ParamSum.lean)
    pgrad2 <sumHasGrad> <checksFS> <i> <j> <pdiagram>     -> ok <terms> <n> poly*
                                         eval of d.grad(x_i).grad(x_j), number of terms
  xlayer    := <dims left> <dims right> 0 <dims box.dom> <dims box.cod> <dagger 0|1> <n> poly*      plain box
             | <dims left> <dims right> 1 <dims dom> <dims cod> <n> <coeff>* <nlayers> layer*    bubble: func = Σ coeff_k x^k
  xdiagram  := <dims dom> <nlayers> xlayer*
    xeval <xdiagram>                     -> ok <n> poly*      evaluation of a diagram with bubbles
    xgrad <checksFS> <i> <xdiagram>      -> ok <terms> <n> poly*   eval of d.grad(x_i) (Bubble.grad = chain rule)
    xfree <xdiagram>                     -> ok <k> <index>*   free symbols of a diagram with bubbles (Model/ParamXSyms.lean)
    xsubsfree <i> <poly q> <xdiagram>    -> ok <k> <index>*   free symbols of d.subs(x_i, q)
    xsubseval <i> <poly q> <xdiagram>    -> ok <n> poly*      eval (d.subs(x_i, q)), bubbles rebuilt around inside.subs
  sequences (Model/ParamSeq.lean: the diagram with its redundant copies boxes / offsets / layers):
    psubs2eval <i> <poly q> <j> <poly r> <pdiagram> -> ok <n> poly*   eval (d.subs(x_i,q).subs(x_j,r))
    psliceeval <i> <poly q> <a> <b> <pdiagram>      -> ok <n> poly*   eval (d.subs(x_i,q)[a:b])
    pviews <i> <poly q> <pdiagram>       -> ok <k> (<n> poly*)* <k> (<n> poly*)* <k> <offset>*
                                            data of the boxes of d.subs(x_i,q) read from .boxes, from
                                            .layers, and its offsets
  nested box data (Model/ParamData.lean):
  pdata     := L <poly> | Z <poly> | N <list|tuple|set|frozenset|dict|ndarray> <n> pdata*
    dfree <zeroDItem> <pdata>                  -> ok <k> <index>*   free symbols a box with this data reports
    dsubsfree <zeroDItem> <i> <poly q> <pdata> -> ok <k> <index>*   …after box.subs(x_i, q)
    dsubs <zeroDItem> <i> <poly q> <pdata>     -> ok <n> poly*      entries of the data of box.subs(x_i, q)
    csubs <fixC> <fixD> <fixH> <cls> <hit> <hasData> <hasSyms> <kind> <nin> <nout> <dagger> <mixed 0|1|2>
                                         -> ok <kind> <nin> <nout> <dagger> <mixed> | err exc:AttributeError
-/
import Driver.Codec
import Model.Param
import Model.ParamSeq
import Model.ParamData
import Model.ParamSum
import Model.ParamXSyms

namespace DV.ParamCmd
open DV DV.Codec DV.Param

def NV : Nat := 3

def term : P (Mono × Int) := do
  let c ← int
  let mut es : Array Nat := #[]
  for _ in [0:NV] do
    es := es.push (← nat)
  pure (es.toList, c)

def poly : P Poly := do
  let ts ← many term
  pure (Poly.ofTerms ts)

def dims : P (List Nat) := many nat

def layer : P (PLayer Poly) := do
  let left ← dims
  let right ← dims
  let bdom ← dims
  let bcod ← dims
  let dg ← bool
  let data ← many poly
  pure { left := left, right := right,
         box := { dom := bdom, cod := bcod, dagger := dg, data := data } }

def pdiagram : P PolyDiagram := do
  let dom ← dims
  let layers ← many layer
  pure { dom := dom, layers := layers }

def xlayer : P (XLayer Poly) := do
  let left ← dims
  let right ← dims
  let isBubble ← bool
  if isBubble then
    let bdom ← dims
    let bcod ← dims
    let func ← many int
    let inside ← many layer
    pure { left := left, right := right, box := .bubble bdom bcod func inside }
  else
    let bdom ← dims
    let bcod ← dims
    let dg ← bool
    let data ← many poly
    pure { left := left, right := right,
           box := .plain { dom := bdom, cod := bcod, dagger := dg, data := data } }

def xcod (dom : List Nat) (ls : List (XLayer Poly)) : List Nat :=
  match ls.getLast? with
  | none => dom
  | some l => l.left ++ l.box.cod ++ l.right

def xdiagram : P (List Nat × List (XLayer Poly)) := do
  let dom ← dims
  let layers ← many xlayer
  pure (dom, layers)

def pad (m : Mono) : List Nat := m ++ List.replicate (NV - m.length) 0

def pPoly (p : Poly) : String :=
  String.intercalate " " (toString p.terms.length ::
    p.terms.map (fun t => String.intercalate " " (toString t.2 :: (pad t.1).map toString)))

def pMat (m : Mat Poly) (r c : Nat) : String := pList pPoly (m.toList r c)

def cls : P Cls := do
  let t ← tok
  match t with
  | "tensorBox" => pure .tensorBox | "rotation" => pure .rotation | "scalar" => pure .scalar
  | "mixedScalar" => pure .mixedScalar | "sqrt" => pure .sqrt
  | "classicalGate" => pure .classicalGate | "zxSpider" => pure .zxSpider
  | "zxScalar" => pure .zxScalar
  | _ => throw s!"bad class {t}"

def mixedTok : P (Option Bool) := do
  let t ← tok
  match t with
  | "0" => pure (some false) | "1" => pure (some true) | "2" => pure none
  | _ => throw s!"bad mixed {t}"

def attr : P Attr := do
  let kind ← tok
  let nin ← nat
  let nout ← nat
  let dg ← bool
  let mx ← mixedTok
  pure { kind := kind, nin := nin, nout := nout, dagger := dg, mixed := mx }

def pAttr (a : Attr) : String :=
  s!"{a.kind} {a.nin} {a.nout} {if a.dagger then 1 else 0} " ++
    (match a.mixed with | some false => "0" | some true => "1" | none => "2")

def ctr : P Ctr := do
  let t ← tok
  match t with
  | "list" => pure .list | "tuple" => pure .tuple | "set" => pure .set
  | "frozenset" => pure .frozenset | "dict" => pure .dict | "ndarray" => pure .ndarray
  | _ => throw s!"bad container {t}"

partial def pdata : P (PData Poly) := do
  let t ← tok
  match t with
  | "L" => do pure (.leaf (← poly))
  | "Z" => do pure (.zeroD (← poly))
  | "N" => do
    let c ← ctr
    let kids ← many pdata
    pure (.node c (PForest.ofList kids))
  | _ => throw s!"bad pdata {t}"

def run {α} (p : P α) (rest : List String) (k : α → String) : String :=
  match p.run rest with
  | .error m => "bad " ++ m
  | .ok (a, []) => k a
  | .ok (_, _) => "bad trailing tokens"

def handle (cmd : String) (rest : List String) : Option String :=
  match cmd with
  | "peval" => some <| run pdiagram rest fun d =>
      "ok " ++ pMat d.eval (prod d.dom) (prod d.cod)
  | "pfree" => some <| run pdiagram rest fun d =>
      "ok " ++ pList toString (d.freeSymbols Poly.vars)
  | "psubseval" => some <| run (do let i ← nat; let q ← poly; let d ← pdiagram; pure (i, q, d)) rest
      fun (i, q, d) => "ok " ++ pMat (d.subs i q).eval (prod d.dom) (prod d.cod)
  | "pevalsubs" => some <| run (do let i ← nat; let q ← poly; let d ← pdiagram; pure (i, q, d)) rest
      fun (i, q, d) => "ok " ++ pMat (fun a b => Poly.subst1 i q (d.eval a b)) (prod d.dom) (prod d.cod)
  | "psubs2eval" => some <| run (do
        let i ← nat; let q ← poly; let j ← nat; let r ← poly; let d ← pdiagram; pure (i, q, j, r, d)) rest
      fun (i, q, j, r, d) =>
        match (RDiagram.ofLayers d.dom d.layers).subs (Poly.subst1 i q) >>= RDiagram.subs (Poly.subst1 j r) with
        | .ok s => "ok " ++ pMat s.eval (prod s.dom) (prod s.cod)
        | .error e => s!"err {e}"
  | "psliceeval" => some <| run (do
        let i ← nat; let q ← poly; let a ← nat; let b ← nat; let d ← pdiagram; pure (i, q, a, b, d)) rest
      fun (i, q, a, b, d) =>
        match ((RDiagram.ofLayers d.dom d.layers).subs (Poly.subst1 i q)).map (RDiagram.slice a b) with
        | .ok s => "ok " ++ pMat s.eval (prod s.dom) (prod s.cod)
        | .error e => s!"err {e}"
  | "pviews" => some <| run (do let i ← nat; let q ← poly; let d ← pdiagram; pure (i, q, d)) rest
      fun (i, q, d) =>
        match (RDiagram.ofLayers d.dom d.layers).subs (Poly.subst1 i q) with
        | .ok s => "ok " ++ pList (fun (b : PBox Poly) => pList pPoly b.data) s.boxes ++ " "
            ++ pList (fun (l : PLayer Poly) => pList pPoly l.box.data) s.layers ++ " "
            ++ pList toString s.offsets
        | .error e => s!"err {e}"
  | "pgrad" => some <| run (do let f ← bool; let i ← nat; let d ← pdiagram; pure (f, i, d)) rest
      fun (f, i, d) =>
        let g := d.grad f i
        s!"ok {g.length} " ++ pMat (evalSum g) (prod d.dom) (prod d.cod)
  | "pjac" => some <| run (do let f ← bool; let vs ← many nat; let d ← pdiagram; pure (f, vs, d)) rest
      fun (f, vs, d) =>
        let grads := vs.map (fun v => evalSum (d.grad f v))
        "ok " ++ pMat (jacobianMat (prod d.cod) grads) (prod d.dom) (vs.length * prod d.cod)
  | "psumgrad" => some <| run (do
        let sf ← bool; let f ← bool; let i ← nat; let ds ← many pdiagram; pure (sf, f, i, ds)) rest
      fun (sf, f, i, ds) =>
        match ds with
        | [] => "bad empty sum"
        | d :: _ =>
          let g := polySumGrad sf f i (ds.map (·.layers))
          s!"ok {g.length} " ++ pMat (evalSum g) (prod d.dom) (prod d.cod)
  | "pgrad2" => some <| run (do
        let sf ← bool; let f ← bool; let i ← nat; let j ← nat; let d ← pdiagram; pure (sf, f, i, j, d)) rest
      fun (sf, f, i, j, d) =>
        let g := polyGradTwice sf f i j d.layers
        s!"ok {g.length} " ++ pMat (evalSum g) (prod d.dom) (prod d.cod)
  | "xeval" => some <| run xdiagram rest fun (dom, ls) =>
      "ok " ++ pMat (xevalLayers Poly.const ls) (prod dom) (prod (xcod dom ls))
  | "xgrad" => some <| run (do let f ← bool; let i ← nat; let d ← xdiagram; pure (f, i, d)) rest
      fun (f, i, (dom, ls)) =>
        let g := polyXGrad f i ls
        s!"ok {g.length} " ++ pMat (xevalSum Poly.const g) (prod dom) (prod (xcod dom ls))
  | "xfree" => some <| run xdiagram rest fun (_, ls) =>
      "ok " ++ pList toString (xfreeSymbolsL Poly.vars ls)
  | "xsubsfree" => some <| run (do let i ← nat; let q ← poly; let d ← xdiagram; pure (i, q, d)) rest
      fun (i, q, (_, ls)) =>
        "ok " ++ pList toString (xfreeSymbolsL Poly.vars (ls.map (XLayer.mapData (Poly.subst1 i q))))
  | "xsubseval" => some <| run (do let i ← nat; let q ← poly; let d ← xdiagram; pure (i, q, d)) rest
      fun (i, q, (dom, ls)) =>
        "ok " ++ pMat (xevalLayers Poly.const (ls.map (XLayer.mapData (Poly.subst1 i q))))
          (prod dom) (prod (xcod dom ls))
  | "dfree" => some <| run (do let z ← bool; let d ← pdata; pure (z, d)) rest
      fun (z, d) => "ok " ++ pList toString (d.freeSymbols z Poly.vars)
  | "dsubsfree" => some <| run (do let z ← bool; let i ← nat; let q ← poly; let d ← pdata; pure (z, i, q, d)) rest
      fun (z, i, q, d) =>
        "ok " ++ pList toString ((d.boxSubs z Poly.vars [i] (Poly.subst1 i q)).freeSymbols z Poly.vars)
  | "dsubs" => some <| run (do let z ← bool; let i ← nat; let q ← poly; let d ← pdata; pure (z, i, q, d)) rest
      fun (z, i, q, d) => "ok " ++ pList pPoly (d.boxSubs z Poly.vars [i] (Poly.subst1 i q)).entries
  | "csubs" => some <| run (do
        let c ← bool; let dg ← bool; let h ← bool
        let k ← cls; let hit ← bool; let hasData ← bool; let hasSyms ← bool; let a ← attr
        pure (({ scalarKeepsMixed := c, cgateKeepsDagger := dg, cgateNoDataReturnsSelf := h } : Fixes),
              k, hit, hasData, hasSyms, a)) rest
      fun (fx, k, hit, hasData, hasSyms, a) =>
        match csubs fx k hit hasData hasSyms a with
        | .ok b => "ok " ++ pAttr b
        | .error .attribute => "err exc:AttributeError"
  | _ => none

end DV.ParamCmd
