/-
  Driver/Codec.lean — token codec of the line protocol (prefix notation, every list
  length-prefixed, no token contains a space).
-/
import Model.Expr

namespace DV.Codec
open DV

abbrev P := StateT (List String) (Except String)

def tok : P String := do
  match (← get) with
  | [] => throw "unexpected end of line"
  | t :: ts => set ts; pure t

def int : P Int := do
  let t ← tok
  match t.toInt? with
  | some i => pure i
  | none => throw s!"bad int {t}"

def nat : P Nat := do
  let t ← tok
  match t.toNat? with
  | some i => pure i
  | none => throw s!"bad nat {t}"

def optInt : P (Option Int) := do
  let t ← tok
  if t == "N" then pure none else
  match t.toInt? with
  | some i => pure (some i)
  | none => throw s!"bad optint {t}"

def bool : P Bool := do
  let t ← tok
  if t == "1" then pure true else if t == "0" then pure false else throw s!"bad bool {t}"

def many {α} (p : P α) : P (List α) := do
  let n ← nat
  let mut out : Array α := #[]
  for _ in [0:n] do
    out := out.push (← p)
  pure out.toList

def ob : P Ob := do
  let name ← tok
  let z ← int
  pure ⟨name, z⟩

def ty : P Ty := many ob

def kind : P Kind := do
  let t ← tok
  match t with
  | "g" => pure .gen | "s" => pure .swap | "u" => pure .cup | "a" => pure .cap
  | _ => throw s!"bad kind {t}"

def box : P Box := do
  let k ← kind
  let name ← tok
  let dg ← bool
  let data ← tok
  let dom ← ty
  let cod ← ty
  pure { kind := k, name := name, dom := dom, cod := cod, dagger := dg, data := data }

partial def expr : P Expr := do
  let t ← tok
  match t with
  | "mk" => do
    let dom ← ty; let cod ← ty; let bs ← many box; let os ← many int
    pure (.mk dom cod bs os)
  | "box" => do pure (.box (← box))
  | "id" => do pure (.id (← ty))
  | "then" => do let a ← expr; let b ← expr; pure (.then a b)
  | "tensor" => do let a ← expr; let b ← expr; pure (.tensor a b)
  | "dagger" => do pure (.dagger (← expr))
  | "slice" => do let a ← expr; let s ← optInt; let e ← optInt; pure (.slice a s e)
  | "slicerev" => do let a ← expr; let s ← optInt; let e ← optInt; pure (.sliceRev a s e)
  | "getitem" => do let a ← expr; let i ← int; pure (.getItem a i)
  | "interchange" => do
    let a ← expr; let i ← int; let j ← int; let l ← bool; pure (.interchange a i j l)
  | "normal_form" => do let a ← expr; let l ← bool; pure (.normalForm a l)
  | "swap" => do let l ← ty; let r ← ty; pure (.swap l r)
  | "perm" => do let p ← many int; let d ← ty; pure (.perm p d)
  | "cups" => do let l ← ty; let r ← ty; pure (.cups l r)
  | "caps" => do let l ← ty; let r ← ty; pure (.caps l r)
  | "transpose" => do let a ← expr; let l ← bool; pure (.transpose a l)
  | "thenN" => do
    let r ← expr; let n ← nat
    let mut out : Array Expr := #[]
    for _ in [0:n] do
      out := out.push (← expr)
    pure (.thenN r out.toList)
  | "tensorN" => do
    let r ← expr; let n ← nat
    let mut out : Array Expr := #[]
    for _ in [0:n] do
      out := out.push (← expr)
    pure (.tensorN r out.toList)
  | _ => throw s!"bad expr head {t}"

/-! printing -/

def pOb (x : Ob) : String := s!"{x.name} {x.z}"
def pList {α} (f : α → String) (xs : List α) : String :=
  String.intercalate " " (toString xs.length :: xs.map f)
def pTy (t : Ty) : String := pList pOb t
def pKind : Kind → String
  | .gen => "g" | .swap => "s" | .cup => "u" | .cap => "a"
def pBox (b : Box) : String :=
  s!"{pKind b.kind} {b.name} {if b.dagger then 1 else 0} {b.data} {pTy b.dom} {pTy b.cod}"
def pLayer (l : Layer) : String := s!"{pTy l.left} {pBox l.box} {pTy l.right}"
def pDiagram (d : Diagram) : String :=
  s!"{pTy d.dom} {pTy d.cod} {pList pBox d.boxes} {pList toString d.offsets} " ++
  s!"{pTy d.layers.dom} {pTy d.layers.cod} {pList pLayer d.layers.boxes}"

def pResult (r : Except Err Diagram) : String :=
  match r with
  | .ok d => "ok " ++ pDiagram d
  | .error e => "err " ++ toString e

end DV.Codec
