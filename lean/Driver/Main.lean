/-
  Driver/Main.lean — `dvdriver`: reads one request per line on stdin, prints one answer
  per line on stdout.  Imports the model only (no Mathlib), so it links natively.

  To add a command family: create Driver/<Name>Cmd.lean with
      def handle (cmd : String) (rest : List String) : Option String
  (return `none` for commands you do not own), import it here and add it to `handlers`.
-/
import Driver.CoreCmd
import Driver.RewriteCmd
import Driver.FunctorCmd
import Driver.FoliateCmd
import Driver.CartesianCmd
import Driver.WiresCmd
import Driver.ReprCmd
import Driver.PyzxCmd
import Driver.LayoutCmd
import Driver.ParamCmd
import Driver.GatesCmd
import Driver.GrammarCmd
import Driver.TkCmd
import Driver.TensorCmd
import Driver.CQCmd
import Driver.DzCmd
import Driver.CircuitBoxCmd
import Driver.SpidersCmd
import Driver.SpecialCmd
import Driver.CatCmd
import Driver.TyClassCmd

def handlers : List (String → List String → Option String) :=
  [ DV.CoreCmd.handle
  , DV.RewriteCmd.handle
  , DV.FunctorCmd.handle
  , DV.FoliateCmd.handle
  , DV.CartCmd.handle
  , DV.WiresCmd.handle
  , DV.ReprCmd.handle
  , DV.PyzxCmd.handle
  , DV.LayoutCmd.handle
  , DV.ParamCmd.handle
  , DV.GatesCmd.handle
  , DV.GrammarCmd.handle
  , DV.TkCmd.handle
  , DV.TensorCmd.handle
  , DV.CQCmd.handle
  , DV.DzCmd.handle
  , DV.CircuitBoxCmd.handle
  , DV.SpidersCmd.handle
  , DV.SpecialCmd.handle
  , DV.CatCmd.handle
  , DV.TyClassCmd.handle
  ]

def handle (line : String) : String :=
  let toks := (line.trimAscii.toString.splitOn " ").filter (· ≠ "")
  match toks with
  | [] => "bad empty"
  | "ping" :: _ => "pong"
  | cmd :: rest =>
    match handlers.findSome? (fun h => h cmd rest) with
    | some out => out
    | none => "bad command " ++ cmd

partial def loop (h : IO.FS.Stream) (out : IO.FS.Stream) : IO Unit := do
  let line ← h.getLine
  if line.isEmpty then return ()
  out.putStrLn (handle line)
  out.flush
  loop h out

def main : IO Unit := do
  loop (← IO.getStdin) (← IO.getStdout)
