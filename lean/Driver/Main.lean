/-
  Driver/Main.lean — `dvdriver`: reads one request per line on stdin, prints one answer
  per line on stdout.  Imports the model only (no Mathlib), so it links natively.
-/
import Driver.Codec

open DV DV.Codec

def handle (line : String) : String :=
  let toks := (line.trimAscii.toString.splitOn " ").filter (· ≠ "")
  match toks with
  | [] => "bad empty"
  | cmd :: rest =>
    match cmd with
    | "eval" =>
      match (expr.run rest) with
      | .error m => "bad " ++ m
      | .ok (e, []) => pResult e.eval
      | .ok (_, _) => "bad trailing tokens"
    | "ping" => "pong"
    | _ => "bad command " ++ cmd

partial def loop (h : IO.FS.Stream) (out : IO.FS.Stream) : IO Unit := do
  let line ← h.getLine
  if line.isEmpty then return ()
  out.putStrLn (handle line)
  out.flush
  loop h out

def main : IO Unit := do
  loop (← IO.getStdin) (← IO.getStdout)
