/-
  Driver/TensorCmd.lean — line-protocol commands over the tensor model (Model/Tensor.lean),
  executed at `GaussInt`.

  Token formats (all lists length-prefixed):
    dims    := <n> d₁ … dₙ                      (ints as given to `Dim(...)`)
    nats    := <n> k₁ … kₙ
    data    := <n> re₁ im₁ … reₙ imₙ
    arr     := <shape:nats> <data>
  numpy primitives (`numpy-prims` stream):
    nd.identity n | nd.conj arr | nd.reshape arr nats | nd.transpose arr nats
    nd.moveaxis arr nats nats | nd.tensordot arr arr k | nd.tensordotaxes arr arr nats nats
      -> ok <shape> <data> | err value
  tensor expressions:
    teval <texpr>    texpr := T dims dims data | id dims | swap dims dims | cups dims dims
                            | caps dims dims | then e e | tensor e e | dagger e | transpose e
                            | conj e | add e e | zeros dims dims | spider nin nout dims
                            | thenN e <k> e₁ … e_k | tensorN e <k> e₁ … e_k     (`e.then(e₁, …, e_k)`)
                            | sum <m|t> <0|1> dims dims <n> e₁ … e_n   (`Sum(terms[, dom, cod])` of
                                                  class monoidal.Sum / tensor.Sum; 0 = no types given)
                            | box dims dims | none | int                  (arguments only)
                            | map <double|square|conj|neg|one|zero> e
      -> ok <dom> <cod> <shape> <data>
       | ok sum <m|t> <dom> <cod> <n> (<dom> <cod> <shape> <data>)ⁿ
       | err <class>
  functors:
    feval <functor> <expr>      the single-pass `Functor.__call__` on the diagram `expr`
    flayers <functor> <expr>    the layer-by-layer composite (reference semantics of C09)
    fbox <functor> <box>        `self(box)` on a single box
    fty <functor> <ty>          `self(ty)`
    fsum <functor> <ty> <ty> <n> expr₁ … exprₙ   `self(Sum([d₁ … dₙ], dom, cod))`, the `Sum` branch
                                tensor.py:338-340 (Model/TensorSum.lean, `TFunctor.callSum`)
    fgenuine <expr>             1 iff every Swap/Cup/Cap box of the diagram is genuine (hypothesis
                                of the C09 theorem; WF is guaranteed by C01's `mk?` theorem)
      functor := <n> (name nats)ⁿ <m> (box arrspec)ᵐ     arrspec := A data | S nin nout nats
      expr    := the core expression language (Driver/Codec.lean)
  functors on diagrams with bubbles (Model/TensorBubble.lean):
    bfeval <functor> <bubbles> <expr>    `Functor.__call__` incl. the `Bubble` branch
    bflayers <functor> <bubbles> <expr>  the reference semantics `BFunctor.ref` (layer-by-layer,
                                         a bubble = entrywise image of the composite of its inside)
    bfgood <bubbles> <expr>              1 iff the hypotheses of `functor_eval_eq_layers_bubbles`
                                         hold (`goodTableB`, genuine special boxes of `expr`)
      bubbles := <k> (box efun expr)ᵏ    the boxes of the request that are `Bubble` objects, with
                                         their function and the diagram inside; fuel = k + 1
      efun    := sq | not | conj2 | relu | half | add re im | tab <n> (re im re im)ⁿ re im
-/
import Driver.Codec
import Model.TensorBubble
import Model.TensorNary
import Model.TensorSum

namespace DV.TensorCmd
open DV DV.Codec

abbrev G := GaussInt

def gauss : P G := do
  let re ← int
  let im ← int
  pure ⟨re, im⟩

def nats : P (List Nat) := many nat
def ints : P (List Int) := many int

def arr : P (NDArray G) := do
  let s ← nats
  let d ← many gauss
  pure ⟨s, d.toArray⟩

def pNats (xs : List Nat) : String := pList toString xs
def pData (d : Array G) : String := pList (fun (g : G) => s!"{g.re} {g.im}") d.toList
def pArr (a : NDArray G) : String := s!"{pNats a.shape} {pData a.data}"

def pArrResult (ok : Bool) (a : NDArray G) : String :=
  if ok && decide a.WF then "ok " ++ pArr a else "err value"

def pTensor (t : Tensor G) : String :=
  if decide t.WF then s!"ok {pNats t.dom} {pNats t.cod} {pArr t.arr}" else "err value"

def pTResult : Except Err (Tensor G) → String
  | .ok t => pTensor t
  | .error e => "err " ++ toString e

/-- Tensor expressions. -/
inductive TExpr where
  | lit (dom cod : List Int) (data : List G)
  | id (d : List Int)
  | swap (l r : List Int)
  | cups (l r : List Int)
  | caps (l r : List Int)
  | zeros (l r : List Int)
  | spider (nin nout : Nat) (d : List Int)
  | then (a b : TExpr)
  | tensor (a b : TExpr)
  | add (a b : TExpr)
  | dagger (a : TExpr)
  | transpose (a : TExpr)
  | conj (a : TExpr)
  | thenN (recv : TExpr) (args : List TExpr)
  | tensorN (recv : TExpr) (args : List TExpr)
  | sum (kind : SumKind) (typed : Bool) (dom cod : List Int) (terms : List TExpr)
  | box (dom cod : List Int)
  | junk (isNone : Bool)
  | map (fn : String) (a : TExpr)
  deriving Inhabited

partial def texpr : P TExpr := do
  let t ← tok
  match t with
  | "T" => do let d ← ints; let c ← ints; let x ← many gauss; pure (.lit d c x)
  | "id" => do pure (.id (← ints))
  | "swap" => do let l ← ints; let r ← ints; pure (.swap l r)
  | "cups" => do let l ← ints; let r ← ints; pure (.cups l r)
  | "caps" => do let l ← ints; let r ← ints; pure (.caps l r)
  | "zeros" => do let l ← ints; let r ← ints; pure (.zeros l r)
  | "spider" => do let i ← nat; let o ← nat; let d ← ints; pure (.spider i o d)
  | "then" => do let a ← texpr; let b ← texpr; pure (.then a b)
  | "tensor" => do let a ← texpr; let b ← texpr; pure (.tensor a b)
  | "add" => do let a ← texpr; let b ← texpr; pure (.add a b)
  | "dagger" => do pure (.dagger (← texpr))
  | "transpose" => do pure (.transpose (← texpr))
  | "conj" => do pure (.conj (← texpr))
  | "thenN" => do let r ← texpr; let a ← many texpr; pure (.thenN r a)
  | "tensorN" => do let r ← texpr; let a ← many texpr; pure (.tensorN r a)
  | "sum" => do
    let k ← tok
    let kind ← match k with
      | "m" => pure SumKind.monoidal
      | "t" => pure SumKind.tensor
      | _ => throw s!"bad sum kind {k}"
    let typed ← nat
    let d ← ints; let c ← ints
    let ts ← many texpr
    pure (.sum kind (typed != 0) d c ts)
  | "box" => do let d ← ints; let c ← ints; pure (.box d c)
  | "none" => pure (.junk true)
  | "int" => pure (.junk false)
  | "map" => do let f ← tok; pure (.map f (← texpr))
  | _ => throw s!"bad texpr head {t}"

/-- `Spider(n_in, n_out, dim)` as a tensor, tensor.py:625-639. -/
def spiderTensor (nin nout : Nat) (d : List Nat) : Except Err (Tensor G) :=
  if d.length > 1 then .error .value
  else Tensor.mk? (List.replicate nin d).flatten (List.replicate nout d).flatten
    (Tensor.spiderArray nin nout d)

/-- The functions the harness passes to `Tensor.map` (exact on Gaussian integers). -/
def mapFn : String → Option (G → G)
  | "double" => some (fun x => x + x)
  | "square" => some (fun x => x * x)
  | "conj" => some Conj.conj
  | "neg" => some (fun x => ⟨-x.re, -x.im⟩)
  | "one" => some (fun _ => 1)
  | "zero" => some (fun _ => 0)
  | _ => none

/-- An operand that must be a Tensor (the unary operations and `+` are only sent on Tensors). -/
def asTensor : TVal G → Except Err (Tensor G)
  | .t x => .ok x
  | _ => .error .fuel      -- never sent: printed as `err fuel`, which no real result equals

partial def TExpr.eval : TExpr → Except Err (TVal G)
  | .lit dom cod data => do
    let d ← Dim.mk? dom
    let c ← Dim.mk? cod
    pure (.t (← Tensor.mk? d c ⟨[data.length], data.toArray⟩))
  | .id d => do pure (.t (Tensor.id (← Dim.mk? d)))
  | .swap l r => do pure (.t (Tensor.swap (← Dim.mk? l) (← Dim.mk? r)))
  | .cups l r => do pure (.t (← Tensor.cups (← Dim.mk? l) (← Dim.mk? r)))
  | .caps l r => do pure (.t (← Tensor.caps (← Dim.mk? l) (← Dim.mk? r)))
  | .zeros l r => do pure (.t (Tensor.zeros (← Dim.mk? l) (← Dim.mk? r)))
  | .spider i o d => do pure (.t (← spiderTensor i o (← Dim.mk? d)))
  | .then a b => do TVal.then1 (← a.eval) (← b.eval)
  | .tensor a b => do TVal.tensor1 (← a.eval) (← b.eval)
  | .add a b => do pure (.t (← (← asTensor (← a.eval)).add (← asTensor (← b.eval))))
  | .dagger a => do pure (.t (← asTensor (← a.eval)).dagger)
  | .transpose a => do pure (.t (← asTensor (← a.eval)).transpose)
  | .conj a => do pure (.t (← asTensor (← a.eval)).conjugate)
  | .thenN r args => do
    -- Python evaluates the receiver, then the arguments left to right, then calls
    let x ← r.eval
    let vs ← args.mapM TExpr.eval
    TVal.thenArgs x vs
  | .tensorN r args => do
    let x ← r.eval
    let vs ← args.mapM TExpr.eval
    TVal.tensorArgs x vs
  | .sum kind typed dom cod terms => do
    let vs ← terms.mapM TExpr.eval
    let ts ← vs.mapM asTensor
    if typed then
      let d ← Dim.mk? dom
      let c ← Dim.mk? cod
      pure (.s (← TSum.mk? kind d c ts))
    else pure (.s (← TSum.mkInfer? kind ts))
  | .box dom cod => do pure (.box (← Dim.mk? dom) (← Dim.mk? cod))
  | .junk b => pure (.junk b)
  | .map fn a => do
    match mapFn fn with
    | none => .error .fuel
    | some f => pure (.t ((← asTensor (← a.eval)).map f))

def pTermList (ts : List (Tensor G)) : Option String :=
  if ts.all (fun t => decide t.WF) then
    some (pList (fun (t : Tensor G) => s!"{pNats t.dom} {pNats t.cod} {pArr t.arr}") ts)
  else none

def pVResult : Except Err (TVal G) → String
  | .ok (.t t) => pTensor t
  | .ok (.s S) =>
    match pTermList S.terms with
    | none => "err value"
    | some terms =>
      let k := match S.kind with | .monoidal => "m" | .tensor => "t"
      s!"ok sum {k} {pNats S.dom} {pNats S.cod} {terms}"
  | .ok (.box _ _) => "ok box"
  | .ok (.junk _) => "ok junk"
  | .error e => "err " ++ toString e

/-! functors -/

inductive ArrSpec where
  | lit (data : List G)
  | spider (nin nout : Nat) (d : List Nat)

def arrSpec : P ArrSpec := do
  let t ← tok
  match t with
  | "A" => do pure (.lit (← many gauss))
  | "S" => do let i ← nat; let o ← nat; let d ← nats; pure (.spider i o d)
  | _ => throw s!"bad arrspec {t}"

def ArrSpec.toArr : ArrSpec → NDArray G
  | .lit data => ⟨[data.length], data.toArray⟩
  | .spider i o d => Tensor.spiderArray i o d

def functor : P (TFunctor G) := do
  let obs ← many (do let n ← tok; let d ← nats; pure (n, d))
  let ars ← many (do let b ← box; let a ← arrSpec; pure (b, a.toArr))
  pure {
    ob := fun o => match obs.find? (fun p => p.1 == o.name) with
      | some p => p.2
      | none => [0]      -- unknown object: never sent by the harness
    ar := fun b => match ars.find? (fun p => p.1 == b) with
      | some p => p.2
      | none => ⟨[0], #[]⟩ }

/-! bubbles -/

/-- The entrywise functions the harness can name; the model (`BubbleSpec.func`) takes ANY
    function `R → R`, these are the ones executed at ℤ[i].  Python counterparts in
    harness/tbubblelib.py (`EFUNS`). -/
inductive EFun where
  | sq                                   -- lambda x: x * x
  | notx                                 -- the default: lambda x: int(not x)
  | conj2                                -- lambda x: 2 * numpy.conjugate(x)
  | relu                                 -- lambda x: x if x.real > 0 else 0
  | half                                 -- lambda x: complex(x.real // 2, x.imag // 2) if x else 0
  | add (c : G)                          -- lambda x: x + c
  | table (pairs : List (G × G)) (default : G)   -- lambda x: {..}.get(complex(x), default)

def EFun.eval : EFun → G → G
  | .sq, x => x * x
  | .notx, x => if x = 0 then 1 else 0
  | .conj2, x => ⟨2 * x.re, -(2 * x.im)⟩
  | .relu, x => if x.re > 0 then x else 0
  | .half, x => ⟨Int.fdiv x.re 2, Int.fdiv x.im 2⟩
  | .add c, x => x + c
  | .table pairs dflt, x =>
    match pairs.find? (fun p => p.1 == x) with
    | some p => p.2
    | none => dflt

def efun : P EFun := do
  let t ← tok
  match t with
  | "sq" => pure .sq
  | "not" => pure .notx
  | "conj2" => pure .conj2
  | "relu" => pure .relu
  | "half" => pure .half
  | "add" => do pure (.add (← gauss))
  | "tab" => do
    let ps ← many (do let a ← gauss; let b ← gauss; pure (a, b))
    let d ← gauss
    pure (.table ps d)
  | _ => throw s!"bad efun {t}"

def bubbles : P (List (Box × EFun × Expr)) :=
  many (do let b ← box; let f ← efun; let e ← expr; pure (b, f, e))

/-- Evaluate the insides (core op language); the first failure is the answer. -/
def bubbleTable : List (Box × EFun × Expr) → Except Err (List (Box × BubbleSpec G))
  | [] => .ok []
  | (b, f, e) :: rest =>
    match e.eval with
    | .error er => .error er
    | .ok d => match bubbleTable rest with
      | .error er => .error er
      | .ok tab => .ok ((b, ⟨f.eval, d⟩) :: tab)

def run {α} (p : P α) (rest : List String) (k : α → String) : String :=
  match p.run rest with
  | .error m => "bad " ++ m
  | .ok (x, []) => k x
  | .ok (_, _) => "bad trailing tokens"

def onDiagram (e : Expr) (k : Diagram → Except Err (Tensor G)) : String :=
  match e.eval with
  | .error er => "err " ++ toString er
  | .ok d => pTResult (k d)

def onBubbles (f : TFunctor G) (bs : List (Box × EFun × Expr)) (e : Expr)
    (k : BFunctor G → Nat → Diagram → Except Err (Tensor G)) : String :=
  match bubbleTable bs with
  | .error er => "err " ++ toString er
  | .ok tab => onDiagram e (k (BFunctor.ofTable f tab) (bs.length + 1))

def handle (cmd : String) (rest : List String) : Option String :=
  match cmd with
  | "nd.identity" => some <| run nat rest fun n => pArrResult true (NDArray.identity n)
  | "nd.conj" => some <| run arr rest fun a => pArrResult true a.conj
  | "nd.reshape" => some <| run (do let a ← arr; let s ← nats; pure (a, s)) rest
      fun (a, s) => pArrResult (a.reshapeOk s) (a.reshape s)
  | "nd.transpose" => some <| run (do let a ← arr; let s ← nats; pure (a, s)) rest
      fun (a, s) => pArrResult (NDArray.isPerm a.ndim s) (a.transpose s)
  | "nd.moveaxis" => some <| run (do let a ← arr; let s ← nats; let t ← nats; pure (a, s, t)) rest
      fun (a, s, t) => pArrResult (a.moveaxisOk s t) (a.moveaxis s t)
  | "nd.tensordot" => some <| run (do let a ← arr; let b ← arr; let k ← nat; pure (a, b, k)) rest
      fun (a, b, k) => pArrResult (a.tensordotOk b k) (a.tensordot b k)
  | "nd.tensordotaxes" => some <|
      run (do let a ← arr; let b ← arr; let s ← nats; let t ← nats; pure (a, b, s, t)) rest
      fun (a, b, s, t) => pArrResult (a.tensordotAxesOk b s t) (a.tensordotAxes b s t)
  | "teval" => some <| run texpr rest fun e => pVResult e.eval
  | "feval" => some <| run (do let f ← functor; let e ← expr; pure (f, e)) rest
      fun (f, e) => onDiagram e f.call
  | "flayers" => some <| run (do let f ← functor; let e ← expr; pure (f, e)) rest
      fun (f, e) => onDiagram e f.layerwise
  | "fgenuine" => some <| run expr rest fun e =>
      match e.eval with
      | .error er => "err " ++ toString er
      | .ok d => if d.boxes.all TFunctor.genuineB then "ok 1" else "ok 0"
  | "bfeval" => some <|
      run (do let f ← functor; let bs ← bubbles; let e ← expr; pure (f, bs, e)) rest
      fun (f, bs, e) => onBubbles f bs e (fun F n d => F.call n d)
  | "bflayers" => some <|
      run (do let f ← functor; let bs ← bubbles; let e ← expr; pure (f, bs, e)) rest
      fun (f, bs, e) => onBubbles f bs e (fun F n d => F.ref n d)
  | "bfgood" => some <| run (do let bs ← bubbles; let e ← expr; pure (bs, e)) rest
      fun (bs, e) =>
        match bubbleTable bs, e.eval with
        | .error er, _ => "err " ++ toString er
        | _, .error er => "err " ++ toString er
        | .ok tab, .ok d =>
          if BFunctor.goodTableB tab && d.boxes.all TFunctor.genuineB then "ok 1" else "ok 0"
  | "fbox" => some <| run (do let f ← functor; let b ← box; pure (f, b)) rest
      fun (f, b) => pTResult (f.box b)
  | "fsum" => some <|
      run (do let f ← functor; let a ← ty; let b ← ty; let es ← many expr; pure (f, a, b, es)) rest
      fun (f, a, b, es) =>
        match es.mapM (fun e => e.eval) with
        | .error er => "err " ++ toString er
        | .ok ds => pTResult (f.callSum a b ds)
  | "fty" => some <| run (do let f ← functor; let t ← ty; pure (f, t)) rest
      fun (f, t) => "ok " ++ pNats (f.ty t)
  | _ => none

end DV.TensorCmd
