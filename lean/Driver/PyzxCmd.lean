/-
  Driver/PyzxCmd.lean — commands over the pyzx export/import model (Model/Pyzx.lean).

    zx_export <diagram>            -> ok <graph> simple <0|1> | err <class>
    zx_import <fix> <graphreq>     -> ok <diagram> | err <class>
    zx_roundtrip <fix> <diagram>   -> ok <diagram> | err <class>      (import (export d))

  <diagram>  = dom cod n (K nin nout pnum pden sre sim sexp off)*      K ∈ Z X H S C
  <graph>    = V n (ty pnum pden qubit row)* E m (s t ety)* I k v* O k v* S re im e
               (vertices in creation order, edges as (min, max, type) sorted)
  <graphreq> = n (ty pnum pden)* m (s t ety)* k v* k v*               (edges in insertion order)
  <fix>      = two bits: moveLabel outputSearch (00 = the code in the tree)
-/
import Driver.Codec
import Model.Pyzx

namespace DV.PyzxCmd
open DV DV.Codec DV.Pyzx

def zkind : P ZKind := do
  let t ← tok
  match t with
  | "Z" => pure .Z | "X" => pure .X | "H" => pure .H | "S" => pure .swap | "C" => pure .scalar
  | _ => throw s!"bad zx kind {t}"

def zbox : P ZBox := do
  let k ← zkind; let i ← nat; let o ← nat; let pn ← int; let pd ← nat
  let re ← int; let im ← int; let e ← nat; let off ← nat
  pure { kind := k, nIn := i, nOut := o, phase := ⟨pn, pd⟩, sc := ⟨re, im, e⟩, off := off }

def zdiagram : P ZDiagram := do
  let dom ← nat; let cod ← nat; let bs ← many zbox
  pure ⟨dom, cod, bs⟩

def vtype : P VType := do
  let t ← tok
  match t with
  | "0" => pure .boundary | "1" => pure .Z | "2" => pure .X
  | _ => throw s!"bad vertex type {t}"

def etype : P EType := do
  let t ← tok
  match t with
  | "1" => pure .simple | "2" => pure .hadamard
  | _ => throw s!"bad edge type {t}"

def vertex : P Vertex := do
  let ty ← vtype; let pn ← int; let pd ← nat
  pure { ty := ty, phase := ⟨pn, pd⟩ }

def edge : P Edge := do
  let s ← nat; let t ← nat; let ty ← etype
  pure ⟨s, t, ty⟩

def graphReq : P Graph := do
  let vs ← many vertex; let es ← many edge; let ins ← many nat; let outs ← many nat
  pure { verts := vs, edges := es, inputs := ins, outputs := outs }

def fixFlags : P Fix := do
  let t ← tok
  match t with
  | "00" => pure ⟨false, false⟩ | "10" => pure ⟨true, false⟩
  | "01" => pure ⟨false, true⟩ | "11" => pure ⟨true, true⟩
  | _ => throw s!"bad fix flags {t}"

/-! printing -/

def pZKind : ZKind → String
  | .Z => "Z" | .X => "X" | .H => "H" | .swap => "S" | .scalar => "C"

def pPhase (p : Phase) : String := s!"{p.num} {p.den}"
def pGauss (c : Gauss) : String := s!"{c.re} {c.im} {c.e}"

def pZBox (b : ZBox) : String :=
  s!"{pZKind b.kind} {b.nIn} {b.nOut} {pPhase b.phase} {pGauss b.sc} {b.off}"

def pZDiagram (d : ZDiagram) : String := s!"{d.dom} {d.cod} {pList pZBox d.boxes}"

def pVType : VType → String
  | .boundary => "0" | .Z => "1" | .X => "2"
def pEType : EType → String
  | .simple => "1" | .hadamard => "2"

def pVertex (v : Vertex) : String := s!"{pVType v.ty} {pPhase v.phase} {v.qubit} {v.row}"

def Edge.canon (e : Edge) : Nat × Nat × Nat :=
  (min e.s e.t, max e.s e.t, if e.ty = .simple then 1 else 2)

def tripleLt (a b : Nat × Nat × Nat) : Bool :=
  a.1 < b.1 || (a.1 == b.1 && (a.2.1 < b.2.1 || (a.2.1 == b.2.1 && a.2.2 < b.2.2)))

def insertTriple (x : Nat × Nat × Nat) : List (Nat × Nat × Nat) → List (Nat × Nat × Nat)
  | [] => [x]
  | y :: ys => if tripleLt x y then x :: y :: ys else y :: insertTriple x ys

def sortTriples (xs : List (Nat × Nat × Nat)) : List (Nat × Nat × Nat) :=
  xs.foldl (fun acc x => insertTriple x acc) []

def pTriple (t : Nat × Nat × Nat) : String := s!"{t.1} {t.2.1} {t.2.2}"

def pGraph (g : Graph) : String :=
  s!"V {pList pVertex g.verts} E {pList pTriple (sortTriples (g.edges.map Edge.canon))} " ++
  s!"I {pList toString g.inputs} O {pList toString g.outputs} S {pGauss g.scalar}"

def pZResult (r : Except Err ZDiagram) : String :=
  match r with
  | .ok d => "ok " ++ pZDiagram d
  | .error e => "err " ++ toString e

def handle (cmd : String) (rest : List String) : Option String :=
  match cmd with
  | "zx_export" =>
    some <| match zdiagram.run rest with
      | .error m => "bad " ++ m
      | .ok (d, []) =>
        match toPyzx d with
        | .ok g => s!"ok {pGraph g} simple {if simpleEdges g.edges then 1 else 0}"
        | .error e => "err " ++ toString e
      | .ok (_, _) => "bad trailing tokens"
  | "zx_import" =>
    some <| match ((do let f ← fixFlags; let g ← graphReq; pure (f, g)) : P _).run rest with
      | .error m => "bad " ++ m
      | .ok ((f, g), []) => pZResult (fromPyzxWith f g)
      | .ok (_, _) => "bad trailing tokens"
  | "zx_roundtrip" =>
    some <| match ((do let f ← fixFlags; let d ← zdiagram; pure (f, d)) : P _).run rest with
      | .error m => "bad " ++ m
      | .ok ((f, d), []) =>
        match toPyzx d with
        | .ok g => pZResult (fromPyzxWith f g)
        | .error e => "err " ++ toString e
      | .ok (_, _) => "bad trailing tokens"
  | _ => none

end DV.PyzxCmd
