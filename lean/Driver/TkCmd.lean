/-
  Driver/TkCmd.lean — commands over the to_tk model.

  circuit tokens:  <n> (q|b)*n  <k> (<box> <offset>)*k     with <box> one of
      ket <n> <bit>*n | bits <dagger 0|1> <n> <bit>*n | measure <n> <destructive> <override>
      bra <n> <bit>*n | discard <n> (q|b)*n | swap (q|b) (q|b) | scalar <k> <mixed>
      cgate <name> <nin> <nout> | rot <cls> <num> | gate <name> <arity>
      other <n> (q|b)*n <m> (q|b)*m

    totk <circuit>   -> "ok nq=<n> nb=<n> cmds=<cmd;…> ps=<k:v,…> pp=<dom>><cod>,<box@off,…> scal=<k:m,…> viol=<name@layer|->"
                        | "err <class> viol=<…>"
                        a command is  op[par](q,…|b,…)  in insertion order, par = angle numerator over 16
    mua <k> <unit>*k -> "<offset> <n> <swap offset>*n"     (from_tk.make_units_adjacent)
    tkspec <circuit> -> "ok nq=<n> nb=<n> cmds=<…> ps=<…> cg=<name(v,…);…> bw=<v,…> scal=<…>" | "err <class>"
                        values: r<id> | o<g>.<p>

  tket circuit tokens (what from_tk reads):
      <n_qubits> <n_bits> <scaled 0|1> <k> (<op> <par|N> <m> <qubit>*m <m> <bit>*m)*k
      <p> (<bit> <value>)*p  <pp dom> <pp cod> <j> ((swap | gate <name> <nin> <nout>) <offset>)*j
      par = tket parameter as a numerator over 16 (even)

    fromtk <tket circuit> -> "ok dom=<w…> cod=<w…> boxes=<box@offset;…> <flags>" | "err <class> <flags>"
                        a box is printed with the tokens of the circuit language joined by '_';
                        flags: wf=<TkIn.wellFormed> imp=<TkIn.importable> final=<TkIn.psFinal>
    tkround <scaled> <circuit> -> "ok a=<tkspec fields of the circuit> | b=<tkspec fields of from_tk(to_tk(circuit))>"
                        | "err <stage> <class>"      (the round trip on the model)
-/
import Driver.Codec
import Model.TkImport

namespace DV.TkCmd
open DV DV.Codec DV.Tk

def wire : P W := do
  let t ← tok
  if t == "q" then pure .q else if t == "b" then pure .b else throw s!"bad wire {t}"

def tbox : P TBox := do
  let t ← tok
  match t with
  | "ket" => do pure (.ket (← many nat))
  | "bits" => do let d ← bool; let bs ← many nat; pure (.bits bs d)
  | "measure" => do let n ← nat; let de ← bool; let ov ← bool; pure (.measure n de ov)
  | "bra" => do pure (.bra (← many nat))
  | "discard" => do pure (.discard (← many wire))
  | "swap" => do let l ← wire; let r ← wire; pure (.swap l r)
  | "scalar" => do let k ← nat; let m ← bool; pure (.scalar k m)
  | "cgate" => do let name ← tok; let i ← nat; let o ← nat; pure (.cgate name i o)
  | "rot" => do let cls ← tok; let num ← int; pure (.rot cls num)
  | "gate" => do let name ← tok; let n ← nat; pure (.gate name n)
  | "other" => do let d ← many wire; let c ← many wire; pure (.other d c)
  | _ => throw s!"bad box {t}"

def layer : P (TBox × Nat) := do
  let b ← tbox
  let off ← nat
  pure (b, off)

def circ : P Circ := do
  let dom ← many wire
  let ls ← many layer
  pure ⟨dom, ls⟩

def commas (xs : List String) : String := String.intercalate "," xs

def pCmd (c : Cmd) : String :=
  let par := match c.par with | some p => toString p | none => ""
  s!"{c.op}[{par}]({commas (c.qs.map toString)}|{commas (c.bs.map toString)})"

def pCmds (cs : List Cmd) : String := String.intercalate ";" (cs.map pCmd)
def pPS (ps : PS) : String := commas (ps.map fun e => s!"{e.1}:{e.2}")
def pScal (s : List (Nat × Bool)) : String := commas (s.map fun e => s!"{e.1}:{if e.2 then 1 else 0}")

def pPBox : PBox → String
  | .swap => "swap"
  | .gate name _ _ => name

def pPP (pp : PP) : String :=
  commas (s!"{pp.dom}>{pp.cod}" :: pp.layers.map fun l => s!"{pPBox l.1}@{l.2}")

def pViol : Option (String × Nat) → String
  | none => "-"
  | some (v, i) => s!"{v}@{i}"

def pBV : BV → String
  | .reg r => s!"r{r}"
  | .out g p => s!"o{g}.{p}"

def pCG (c : CG) : String := s!"{c.1}({commas (c.2.map pBV)})"

def pbox : P PBox := do
  let t ← tok
  match t with
  | "swap" => pure .swap
  | "gate" => do let name ← tok; let i ← nat; let o ← nat; pure (.gate name i o)
  | _ => throw s!"bad pbox {t}"

def tcmd : P Cmd := do
  let op ← tok
  let par ← optInt
  let qs ← many nat
  let bs ← many nat
  match par with
  | some p => if p % 2 ≠ 0 then throw s!"odd angle numerator {p}" else pure ⟨op, par, qs, bs⟩
  | none => pure ⟨op, par, qs, bs⟩

def tkin : P TkIn := do
  let nq ← nat
  let nb ← nat
  let scaled ← bool
  let cmds ← many tcmd
  let ps ← many (do let k ← nat; let v ← nat; pure (k, v))
  let dom ← nat
  let cod ← nat
  let ls ← many (do let b ← pbox; let off ← nat; pure (b, off))
  pure ⟨nq, nb, cmds, ps, scaled, ⟨dom, cod, ls⟩⟩

def pW : W → String
  | .q => "q"
  | .b => "b"

def pWs (t : List W) : String := String.join (t.map pW)

def pNats (xs : List Nat) : String := pList toString xs

def b01 (b : Bool) : String := if b then "1" else "0"

/-- A box in the token syntax of the circuit language (`tbox` reads it back). -/
def pTBox : TBox → String
  | .ket bs => s!"ket {pNats bs}"
  | .bits bs d => s!"bits {b01 d} {pNats bs}"
  | .measure n de ov => s!"measure {n} {b01 de} {b01 ov}"
  | .bra bs => s!"bra {pNats bs}"
  | .discard t => s!"discard {pList pW t}"
  | .swap l r => s!"swap {pW l} {pW r}"
  | .scalar k m => s!"scalar {k} {b01 m}"
  | .cgate name i o => s!"cgate {name} {i} {o}"
  | .rot cls num => s!"rot {cls} {num}"
  | .gate name n => s!"gate {name} {n}"
  | .other d c => s!"other {pList pW d} {pList pW c}"

def pLayerT (l : TBox × Nat) : String := (pTBox l.1).replace " " "_" ++ s!"@{l.2}"

def pD (d : D) : String :=
  s!"dom={pWs d.dom} cod={pWs d.cod} boxes={String.intercalate ";" (d.layers.map pLayerT)}"

def pSp (sp : Sp) : String :=
  s!"nq={sp.nq} nb={sp.nb} cmds={pCmds sp.cmds} ps={pPS sp.ps} " ++
  s!"cg={String.intercalate ";" (sp.cg.map pCG)} bw={commas (sp.bw.map pBV)} scal={pScal sp.scal}"

def handle (cmd : String) (rest : List String) : Option String :=
  match cmd with
  | "fromtk" =>
    some <| match tkin.run rest with
      | .error m => "bad " ++ m
      | .ok (_, _ :: _) => "bad trailing tokens"
      | .ok (inp, []) =>
        let flags := s!"wf={b01 inp.wellFormed} imp={b01 inp.importable} final={b01 inp.psFinal}"
        match fromTk inp with
        | .error e => s!"err {e} {flags}"
        | .ok d => s!"ok {pD d} {flags}"
  | "tkround" =>
    some <| match (do let s ← bool; let c ← circ; pure (s, c)).run rest with
      | .error m => "bad " ++ m
      | .ok (_, _ :: _) => "bad trailing tokens"
      | .ok ((scaled, c), []) =>
        match canon c, toTk c with
        | .error e, _ => s!"err canon {e}"
        | _, .error e => s!"err totk {e}"
        | .ok sp, .ok st =>
          match fromTk (st.toIn scaled) with
          | .error e => s!"err fromtk {e}"
          | .ok d =>
            match canon ⟨d.dom, d.layers⟩ with
            | .error e => s!"err recanon {e}"
            | .ok sp' => s!"ok a= {pSp sp} | b= {pSp sp'}"
  | "totk" =>
    some <| match circ.run rest with
      | .error m => "bad " ++ m
      | .ok (c, _ :: _) => s!"bad trailing tokens {c.layers.length}"
      | .ok (c, []) =>
        match toTk c with
        | .error e => s!"err {e} viol={pViol c.firstViolation}"
        | .ok st =>
          s!"ok nq={st.nq} nb={st.nb} cmds={pCmds st.cmds} ps={pPS st.ps} pp={pPP st.pp} " ++
          s!"scal={pScal st.scal} viol={pViol c.firstViolation}"
  | "tkspec" =>
    some <| match circ.run rest with
      | .error m => "bad " ++ m
      | .ok (_, _ :: _) => "bad trailing tokens"
      | .ok (c, []) =>
        match canon c with
        | .error e => s!"err {e}"
        | .ok sp =>
          s!"ok nq={sp.nq} nb={sp.nb} cmds={pCmds sp.cmds} ps={pPS sp.ps} " ++
          s!"cg={String.intercalate ";" (sp.cg.map pCG)} bw={commas (sp.bw.map pBV)} scal={pScal sp.scal}"
  | "mua" =>
    some <| match (many nat).run rest with
      | .error m => "bad " ++ m
      | .ok (qs, _) =>
        let r := makeUnitsAdjacent qs
        s!"{r.1} {pList toString r.2}"
  | _ => none

end DV.TkCmd
