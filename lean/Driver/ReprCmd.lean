/-
  Driver/ReprCmd.lean — commands for C02 (sums) and C03 (equality / printed form).
    repr <expr>            -> ok <repr string> | err <class>      (Diagram.__repr__ of the value)
    reprbox <box>          -> ok <repr string>                    (Box.__repr__)
    reprty <ty>            -> ok <repr string>                    (rigid.Ty.__repr__)
    reprtym <ty>           -> ok <repr string>                    (monoidal.Ty.__repr__)
    reprob <ob>            -> ok <repr string>                    (Ob.__repr__)
    eqv <expr> <expr>      -> ok 0|1 | err <class>                (Diagram.__eq__)
    beqv <box> <expr>      -> ok 0|1 | err <class>                (Box.__eq__ against a diagram)
    seval <sexpr>          -> ok <dom> <cod> <n> <diagram>* | err <class>
    srepr <sexpr>          -> ok <repr string> | err <class>      (Sum.__repr__)
    seqv <sexpr> <sexpr>   -> ok 0|1 | err <class>                (Sum.__eq__)
    dgrepr <ops> <expr>    -> ok <repr string> | err <class>      (the value, then each op of <ops> in
                              turn: g = .downgrade(), d = [::-1]; printed as a monoidal value)
    dgeqv <ops> <expr> <ops> <expr> -> ok 0|1 | err <class>       (Diagram.__eq__ of two derived values)
    dgboxrepr <box>        -> ok <repr string>                    (Box.downgrade().__repr__)
    reprpro <ty>           -> ok <repr string>                    (PRO.__repr__ of a PRO value with these objects)
    proty <n>              -> ok <ty>                              (the objects of PRO(n))
    protensor <m> <n>      -> ok <n> | err <class>                (len(PRO(m) @ PRO(n)), through upgrade)
    proslice <n> <i> <j>   -> ok <n> | err <class>                (len(PRO(n)[i:j]); N = omitted bound)
    proeqv <ty> <ty>       -> ok 0|1                              (monoidal.Ty.__eq__)
  <sexpr> ::= smk <n> <expr>* <optty> <optty> | ssingle <expr> | sadd s s | sthen s s
            | stensor s s | sdagger s          <optty> ::= N | T <ty>
-/
import Driver.Codec
import Model.Repr
import Model.Downgrade
import Model.ReprPRO

namespace DV.ReprCmd
open DV DV.Codec

def optTy : P (Option Ty) := do
  let t ← tok
  if t == "N" then pure none
  else if t == "T" then do pure (some (← ty))
  else throw s!"bad optty {t}"

partial def sexpr : P SExpr := do
  let t ← tok
  match t with
  | "smk" => do
    let ts ← many expr; let d ← optTy; let c ← optTy
    pure (.mk ts d c)
  | "ssingle" => do pure (.single (← expr))
  | "sadd" => do let a ← sexpr; let b ← sexpr; pure (.add a b)
  | "sthen" => do let a ← sexpr; let b ← sexpr; pure (.then a b)
  | "stensor" => do let a ← sexpr; let b ← sexpr; pure (.tensor a b)
  | "sdagger" => do pure (.dagger (← sexpr))
  | _ => throw s!"bad sexpr head {t}"

def pSum (s : Sum) : String := s!"{pTy s.dom} {pTy s.cod} {pList pDiagram s.terms}"

def run {α} (p : P α) (rest : List String) (k : α → String) : String :=
  match p.run rest with
  | .error m => "bad " ++ m
  | .ok (a, []) => k a
  | .ok (_, _) => "bad trailing tokens"

def showE {α} (r : Except Err α) (f : α → String) : String :=
  match r with
  | .ok a => "ok " ++ f a
  | .error e => "err " ++ toString e

def bit (b : Bool) : String := if b then "1" else "0"

def two {α β} (p : P α) (q : P β) : P (α × β) := do
  let a ← p; let b ← q; pure (a, b)

def hops : P (List HOp) := do
  let t ← tok
  t.toList.mapM fun c =>
    if c == 'g' then pure HOp.downgrade else if c == 'd' then pure HOp.dagger
    else throw s!"bad op {c}"

def derived (p : List HOp × Expr) : Except Err Diagram :=
  match p.2.eval with
  | .error e => .error e
  | .ok d => applyOps p.1 d

def optInt : P (Option Int) := do
  let t ← tok
  if t == "N" then pure none
  else match t.toInt? with
    | some i => pure (some i)
    | none => throw s!"bad int {t}"

def handle (cmd : String) (rest : List String) : Option String :=
  match cmd with
  | "repr" => some <| run expr rest fun e => showE e.eval reprDiagram
  | "reprbox" => some <| run box rest fun b => "ok " ++ reprBox b
  | "reprty" => some <| run ty rest fun t => "ok " ++ reprTy t
  | "reprtym" => some <| run ty rest fun t => "ok " ++ reprTyMonoidal t
  | "reprob" => some <| run ob rest fun x => "ok " ++ reprOb x
  | "eqv" => some <| run (two expr expr) rest fun (a, b) =>
      match a.eval with
      | .error e => "err " ++ toString e
      | .ok x => showE b.eval fun y => bit (x.eqv y)
  | "beqv" => some <| run (two box expr) rest fun (b, e) =>
      showE e.eval fun d => bit (b.eqvDiagram d)
  | "seval" => some <| run sexpr rest fun s => showE s.eval pSum
  | "srepr" => some <| run sexpr rest fun s => showE s.eval reprSum
  | "seqv" => some <| run (two sexpr sexpr) rest fun (a, b) =>
      match a.eval with
      | .error e => "err " ++ toString e
      | .ok x => showE b.eval fun y => bit (x.eqv y)
  | "dgrepr" => some <| run (two hops expr) rest fun p => showE (derived p) reprDiagramM
  | "dgeqv" => some <| run (two (two hops expr) (two hops expr)) rest fun (a, b) =>
      match derived a with
      | .error e => "err " ++ toString e
      | .ok x => showE (derived b) fun y => bit (x.eqv y)
  | "dgboxrepr" => some <| run box rest fun b => "ok " ++ reprBoxM b.downgrade
  | "reprpro" => some <| run ty rest fun t => "ok " ++ reprPRO t
  | "proty" => some <| run nat rest fun n => "ok " ++ pTy (proTy n)
  | "protensor" => some <| run (two nat nat) rest fun (m, n) => showE (proTensor m n) toString
  | "proslice" => some <| run (two nat (two optInt optInt)) rest fun (n, i, j) =>
      showE (proSlice n i j) toString
  | "proeqv" => some <| run (two ty ty) rest fun (a, b) => "ok " ++ bit (a == b)
  | _ => none

end DV.ReprCmd
