/-
  Driver/WiresCmd.lean — commands of the C10 model (Model/Wires.lean).
    wireperm <expr>            -> ok <n> w0 … w(n-1)   the output position of every input wire of the
                                                       diagram the model computes for <expr>
                                  notswaps             the model's diagram is not a swap network
                                  err <class>          the model refuses <expr>
    permute <n> p0 … <expr>    -> ok <diagram> | err <class>      `d.permute(*p)`
-/
import Driver.Codec
import Model.Wires

namespace DV.WiresCmd
open DV DV.Codec

def pWires (r : Except Err Diagram) : String :=
  match r with
  | .error e => "err " ++ toString e
  | .ok d => match wirePerm d with
    | none => "notswaps"
    | some w => "ok " ++ pList toString w

def permuteReq : P (List Int × Expr) := do
  let p ← many int
  let e ← expr
  pure (p, e)

def handle (cmd : String) (rest : List String) : Option String :=
  match cmd with
  | "wireperm" =>
    some <| match (expr.run rest) with
      | .error m => "bad " ++ m
      | .ok (e, []) => pWires e.eval
      | .ok (_, _) => "bad trailing tokens"
  | "permute" =>
    some <| match (permuteReq.run rest) with
      | .error m => "bad " ++ m
      | .ok ((p, e), []) => pResult (match e.eval with
          | .error err => .error err
          | .ok d => d.permute p)
      | .ok (_, _) => "bad trailing tokens"
  | _ => none

end DV.WiresCmd
