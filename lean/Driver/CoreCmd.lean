/-
  Driver/CoreCmd.lean — commands over the core diagram model.
    eval <expr>          -> ok <diagram> | err <class>
-/
import Driver.Codec

namespace DV.CoreCmd
open DV DV.Codec

def handle (cmd : String) (rest : List String) : Option String :=
  match cmd with
  | "eval" =>
    some <| match (expr.run rest) with
      | .error m => "bad " ++ m
      | .ok (e, []) => pResult e.eval
      | .ok (_, _) => "bad trailing tokens"
  | _ => none

end DV.CoreCmd
