/-
  Driver/CircuitBoxCmd.lean — commands over Model/CircuitBox.lean.
    circuitbox <spec>   -> ok <dom> <cod> | <spec of the dagger> | <dom of the dagger> <cod of the dagger>
  spec ::= measure n d o | encode n c r | discard <ty> | mixed <ty> | digits dim n dg | ket n | bra n
         | copy | match | swap <ob> <ob> | qgate n <df> | controlled n | rotation n
         | cgate <ty> <ty> <df> | scalar | box <ty> <ty> <df>          (df ::= N | 0 | 1)
-/
import Driver.Codec
import Model.CircuitBox

namespace DV.CircuitBoxCmd
open DV DV.Codec DV.CB

def dflag : P DFlag := do
  let t ← tok
  if t == "N" then pure none else if t == "1" then pure (some true)
  else if t == "0" then pure (some false) else throw s!"bad dflag {t}"

def cbox : P CBox := do
  let t ← tok
  match t with
  | "measure" => do let n ← nat; let d ← bool; let o ← bool; pure (.measure n d o)
  | "encode" => do let n ← nat; let c ← bool; let r ← bool; pure (.encode n c r)
  | "discard" => do pure (.discard (← ty))
  | "mixed" => do pure (.mixedState (← ty))
  | "digits" => do let dim ← nat; let n ← nat; let dg ← bool; pure (.digits dim n dg)
  | "ket" => do pure (.ket (← nat))
  | "bra" => do pure (.bra (← nat))
  | "copy" => pure .copy
  | "match" => pure .match_
  | "swap" => do let l ← ob; let r ← ob; pure (.swap l r)
  | "qgate" => do let n ← nat; let dg ← dflag; pure (.quantumGate n dg)
  | "controlled" => do pure (.controlled (← nat))
  | "rotation" => do pure (.rotation (← nat))
  | "cgate" => do let d ← ty; let c ← ty; let dg ← dflag; pure (.classicalGate d c dg)
  | "scalar" => pure .scalar
  | "box" => do let d ← ty; let c ← ty; let dg ← dflag; pure (.box d c dg)
  | _ => throw s!"bad cbox head {t}"

def pB (b : Bool) : String := if b then "1" else "0"
def pDF : DFlag → String
  | none => "N" | some true => "1" | some false => "0"

def pCBox : CBox → String
  | .measure n d o => s!"measure {n} {pB d} {pB o}"
  | .encode n c r => s!"encode {n} {pB c} {pB r}"
  | .discard t => s!"discard {pTy t}"
  | .mixedState t => s!"mixed {pTy t}"
  | .digits dim n dg => s!"digits {dim} {n} {pB dg}"
  | .ket n => s!"ket {n}"
  | .bra n => s!"bra {n}"
  | .copy => "copy"
  | .match_ => "match"
  | .swap l r => s!"swap {pOb l} {pOb r}"
  | .quantumGate n dg => s!"qgate {n} {pDF dg}"
  | .controlled n => s!"controlled {n}"
  | .rotation n => s!"rotation {n}"
  | .classicalGate d c dg => s!"cgate {pTy d} {pTy c} {pDF dg}"
  | .scalar => "scalar"
  | .box d c dg => s!"box {pTy d} {pTy c} {pDF dg}"

def handle (cmd : String) (rest : List String) : Option String :=
  match cmd with
  | "circuitbox" =>
    some <| match (cbox.run rest) with
      | .error m => "bad " ++ m
      | .ok (b, []) =>
        s!"ok {pTy b.dom} {pTy b.cod} | {pCBox b.dagger} | {pTy b.dagger.dom} {pTy b.dagger.cod}"
      | .ok (_, _) => "bad trailing tokens"
  | _ => none

end DV.CircuitBoxCmd
