/-
  Driver/TyClassCmd.lean — the type-class coercion (Model/TyClass.lean).
    tyclass tensor <ty|pro|dim> <ty> <ty>          -> ok <ty> | err <class>
    tyclass slice  <ty|pro|dim> <ty> <opt> <opt>   -> ok <ty> | err <class>     (opt: INT | N)
-/
import Driver.Codec
import Model.TyClass

namespace DV.TyClassCmd
open DV DV.Codec

def cls : P TyClass := do
  match (← tok) with
  | "ty" => pure .ty | "pro" => pure .pro | "dim" => pure .dim
  | t => throw s!"bad type class {t}"

def pTyResult : Except Err Ty → String
  | .ok t => "ok " ++ pTy t
  | .error e => "err " ++ toString e

def handle (cmd : String) (rest : List String) : Option String :=
  match cmd, rest with
  | "tyclass", "tensor" :: rest =>
    some <| match ((do let c ← cls; let t ← ty; let u ← ty; pure (c, t, u)) : P _).run rest with
      | .error m => "bad " ++ m
      | .ok ((c, t, u), []) => pTyResult (Ty.tensorAs c t u)
      | .ok (_, _) => "bad trailing tokens"
  | "tyclass", "slice" :: rest =>
    some <| match ((do let c ← cls; let t ← ty; let a ← optInt; let b ← optInt; pure (c, t, a, b)) : P _).run rest with
      | .error m => "bad " ++ m
      | .ok ((c, t, a, b), []) => pTyResult (Ty.sliceAs c t a b)
      | .ok (_, _) => "bad trailing tokens"
  | _, _ => none

end DV.TyClassCmd
