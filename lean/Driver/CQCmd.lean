/-
  Driver/CQCmd.lean — commands over the classical-quantum model (Model/CQ.lean), at `D8`.

    cqexpr <expr>                 -> ok <cqty> <cqty> <n> <entries>   | err <class>
    cqeval mixed|auto <circuit>   -> ok cq <cqty> <cqty> <n> <entries>
                                   | ok tensor <dims> <dims> <n> <entries> | err <class>
    cqdouble <circuit>            -> ok cq …   (the doubled map of the pure evaluation)
    cqsplit <circuit>             -> ok cq …   (classical part ⊗ doubled quantum part, Model/CQSplit)
    cqismixed <circuit>           -> ok 0|1
    cqcounts <circuit>            -> ok <n> (<index> <real part>)*        (get_counts)
    cqmeasure 0|1 <circuit>       -> ok <n> <entries>                      (measure(mixed=…))

  Tokens: scalar `a,b,c,d/k` = (a + bζ + cζ² + dζ³)/2^k; every list length-prefixed;
  wire `b2` / `q2`; cqty = <dims classical> <dims quantum>; mat = r c entries.
  Boxes: `N dom cod mat` = not mixed, with an array (the model decides classical / quantum as
  Box.__init__ does); `K` / `P` force the classical / quantum reading.
-/
import Driver.Codec
import Model.CQ
import Model.CQSplit

namespace DV.CQCmd
open DV DV.Codec DV.CQ

def scal : P D8 := do
  let t ← tok
  match t.splitOn "/" with
  | [n, k] =>
    match (n.splitOn ",").map String.toInt?, k.toNat? with
    | [some a, some b, some c, some d], some k => pure (D8.norm ⟨a, b, c, d⟩ k)
    | _, _ => throw s!"bad scalar {t}"
  | _ => throw s!"bad scalar {t}"

def dimsP : P (List Nat) := many nat

def cqty : P CQTy := do
  let c ← dimsP; let q ← dimsP; pure ⟨c, q⟩

def mat : P (Mat D8) := do
  let r ← nat; let c ← nat
  let mut out : Array D8 := #[]
  for _ in [0:r * c] do
    out := out.push (← scal)
  pure (Mat.ofList r c out)

def wire : P Wire := do
  let t ← tok
  match t.toList with
  | 'b' :: ds => match (String.ofList ds).toNat? with
    | some d => pure (.bit d)
    | none => throw s!"bad wire {t}"
  | 'q' :: ds => match (String.ofList ds).toNat? with
    | some d => pure (.qubit d)
    | none => throw s!"bad wire {t}"
  | _ => throw s!"bad wire {t}"

def wty : P WTy := many wire

def cbox : P (CBox D8) := do
  let t ← tok
  match t with
  | "D" => do pure (.discard (← wty))
  | "X" => do pure (.mixedState (← wty))
  | "M" => do let n ← nat; let d ← bool; let o ← bool; pure (.measure n d o)
  | "E" => do let n ← nat; let c ← bool; let r ← bool; pure (.encode n c r)
  | "S" => do let m ← bool; let z ← scal; pure (.scalar m z)
  | "K" => do let d ← wty; let c ← wty; let u ← mat; pure (.classical d c u)
  | "P" => do let d ← wty; let c ← wty; let u ← mat; pure (.quantum d c u)
  | "N" => do
    -- a box that is not mixed: the model decides `classical` as Box.__init__ does
    let d ← wty; let c ← wty; let u ← mat
    match CBox.ofNonMixed d c u with
    | .ok b => pure b
    | .error _ => throw "non-mixed box on bits and qubits (ValueError in Box.__init__)"
  | "A" => do let d ← wty; let c ← wty; let u ← mat; pure (.mixedArr d c u)
  | "W" => do let l ← wty; let r ← wty; pure (.swap l r)
  | _ => throw s!"bad box kind {t}"

def lbox : P (Nat × LBox D8) := do
  let off ← nat; let dg ← bool; let b ← cbox; pure (off, ⟨dg, b⟩)

def circuit : P (Circuit D8) := do
  let dom ← wty; let bs ← many lbox; pure ⟨dom, bs⟩

/-- CQ expressions: the public operations of `CQMap`. -/
inductive CQExpr where
  | id (t : CQTy) | comp (a b : CQExpr) | tensor (a b : CQExpr) | dagger (a : CQExpr)
  | swap (l r : CQTy) | measure (d : List Nat) (destructive : Bool)
  | encode (d : List Nat) (constructive : Bool) | discard (t : CQTy)
  | pure (d c : List Nat) (u : Mat D8) | classical (d c : List Nat) (u : Mat D8)
  | lit (d c : CQTy) (u : Mat D8) | scalar (z : D8)

partial def cqexpr : P CQExpr := do
  let t ← tok
  match t with
  | "id" => do pure (.id (← cqty))
  | "then" => do let a ← cqexpr; let b ← cqexpr; pure (.comp a b)
  | "tensor" => do let a ← cqexpr; let b ← cqexpr; pure (.tensor a b)
  | "dagger" => do pure (.dagger (← cqexpr))
  | "swap" => do let l ← cqty; let r ← cqty; pure (.swap l r)
  | "measure" => do let d ← dimsP; let b ← bool; pure (.measure d b)
  | "encode" => do let d ← dimsP; let b ← bool; pure (.encode d b)
  | "discard" => do pure (.discard (← cqty))
  | "pure" => do let d ← dimsP; let c ← dimsP; let u ← mat; pure (.pure d c u)
  | "classical" => do let d ← dimsP; let c ← dimsP; let u ← mat; pure (.classical d c u)
  | "lit" => do let d ← cqty; let c ← cqty; let u ← mat; pure (.lit d c u)
  | "scalar" => do pure (.scalar (← scal))
  | _ => throw s!"bad cqexpr head {t}"

def CQExpr.eval : CQExpr → Except Err (CQMap D8)
  | .id t => .ok (CQMap.id t)
  | .comp a b => do let x ← a.eval; let y ← b.eval; let r ← x.comp? y; .ok r.memo
  | .tensor a b => do let x ← a.eval; let y ← b.eval; .ok (x.tensor y).memo
  | .dagger a => do let x ← a.eval; .ok x.dagger
  | .swap l r => .ok (CQMap.swap l r)
  | .measure d b => .ok (CQMap.measure d b)
  | .encode d b => .ok (CQMap.encode d b)
  | .discard t => .ok (CQMap.discard t)
  | .pure d c u => .ok (CQMap.pure d c u)
  | .classical d c u => .ok (CQMap.classical d c u)
  | .lit d c u => .ok (CQMap.ofMat d c u)
  | .scalar z => .ok (CQMap.scalar z)

def pDims (d : List Nat) : String := pList toString d
def pCQTy (t : CQTy) : String := s!"{pDims t.c} {pDims t.q}"
def pEntries (xs : List D8) : String := pList toString xs
def pCQ (m : CQMap D8) : String := s!"{pCQTy m.dom} {pCQTy m.cod} {pEntries m.toList}"

def pValue : Value D8 → String
  | .cq m => "cq " ++ pCQ m
  | .tensor d c m => s!"tensor {pDims d} {pDims c} {pEntries m.toList}"

def answer {α} (p : α → String) : Except Err α → String
  | .ok x => "ok " ++ p x
  | .error e => "err " ++ toString e

def run {α} (p : P α) (rest : List String) (k : α → String) : String :=
  match p.run rest with
  | .error m => "bad " ++ m
  | .ok (x, []) => k x
  | .ok (_, _) => "bad trailing tokens"

def handle (cmd : String) (rest : List String) : Option String :=
  match cmd with
  | "cqexpr" => some <| run cqexpr rest fun e => answer pCQ e.eval
  | "cqeval" =>
    match rest with
    | "mixed" :: rest => some <| run circuit rest fun c => answer pValue (c.eval true)
    | "auto" :: rest => some <| run circuit rest fun c => answer pValue (c.eval false)
    | _ => some "bad cqeval mode"
  | "cqdouble" => some <| run circuit rest fun c =>
      "ok cq " ++ pCQ (CQMap.pure (dims c.dom) (dims c.cod) c.evalPure)
  | "cqsplit" => some <| run circuit rest fun c => "ok cq " ++ pCQ c.evalSplit
  | "cqismixed" => some <| run circuit rest fun c => if c.isMixed then "ok 1" else "ok 0"
  | "cqcounts" => some <| run circuit rest fun c =>
      answer (pList fun (p : Nat × D8) => s!"{p.1} {p.2}") c.getCounts
  | "cqmeasure" =>
    match rest with
    | "1" :: rest => some <| run circuit rest fun c => answer pEntries (c.measure true)
    | "0" :: rest => some <| run circuit rest fun c => answer pEntries (c.measure false)
    | _ => some "bad cqmeasure flag"
  | _ => none

end DV.CQCmd
