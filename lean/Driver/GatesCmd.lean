/-
  Driver/GatesCmd.lean — line-protocol commands over Model/Gates.lean (C11, C16).

  Gate grammar (prefix, one token each):
      N <name>                 a gate of the GATES table (SWAP CZ CX H S T X Y Z)
      D <gate>                 <gate>.dagger()
      C <gate>                 Controlled(<gate>)
      R <Rx|Ry|Rz|CU1|CRz|CRx> <n>   rotation of phase n/8 (arrays exact for even n; CU1 any n)
      K <k> b1 … bk            Ket(b1, …, bk)          B <k> b1 … bk   Bra(…)
      W                        SWAP                     S a b c d e     scalar (a+bζ+cζ²+dζ³)/2^e
      Z a b c d e  a' b' c' d' e'   sqrt(z) with z = the first number and the value r of z ** .5 = the second
      Q <name> <nq> <N|0|1> <k> (a b c d e)*k    user-defined QuantumGate(name, nq, array) with `_dagger`
                               None / False / True and its k = 4^nq array entries, row-major
  Matrices are answered as  `ok <rows> <cols> (a b c d e)*`  (row-major, five integers per entry).

      garr <gate>              the `.array` attribute (flag-blind)
      geval <gate>             pure evaluation of the box (tensor.py:356-361)
      tket <name>              the transcribed tket unitary U[out][in]
      ceval <n> <k> (<l> <gate> <r>)*k       circuit evaluation on n input qubits
      cdageval <n> <k> (<l> <gate> <r>)*k    evaluation of the dagger circuit (n = inputs of the ORIGINAL)
      rewire <gate> <a> <b>    gates.rewire(op, a, b).eval()  |  err value
      actson <gate> <n> <a> <b>  the specification matrix "op on qubits a, b of n"
      zxmat <zxbox>            matrix of one ZX generator;  <zxbox> = z n m p | x n m p | h | w | s a b c d e
      zxeval <dom> <k> (<zxbox> <off>)*k     standard interpretation of a boxes/offsets diagram
      zxdag <k> (<zxbox> <off>)*k            -> `ok <k> (<zxbox> <off>)*`  the dagger diagram
      g2zx <fixed 0|1> <gate>  -> `ok <k> (<zxbox> <off>)*` | err index
      c2zx <fixed> <k> (<l> <gate> <r>)*k    -> same, for a circuit
      gevalasis / gevalfixed <gate>   evaluation with F2 present / repaired, whatever the switch says
      switches                 -> `ok f2=0|1 f7=0|1 f17=0|1 f4k=0|1`   positions of the one-line switches
      sqrtexact <gate>         -> `ok 1` iff the gate is not a sqrt box or carries an exact root (r * r = z)
      evalmodes <flag> <selfMixed> <k> b1 … bk   circuit.py:247-253: which functor evaluates each circuit of
                               `self.eval(*others, mixed=flag)`  -> `ok <k+1> (T|C)*`  (T = Tensor, C = CQMap)
      summodes <flag> <k> b1 … bk                `Sum.eval(mixed=flag)` over k terms -> same | `ok zero`
-/
import Driver.Codec
import Model.Gates

namespace DV.GatesCmd
open DV DV.Codec DV.Gates

def cyc : P Cyc8 := do
  let a ← int; let b ← int; let c ← int; let d ← int; let e ← nat
  pure (Cyc8.mk' a b c d e)

def rotKind : P RotKind := do
  let t ← tok
  match t with
  | "Rx" => pure .Rx | "Ry" => pure .Ry | "Rz" => pure .Rz
  | "CU1" => pure .CU1 | "CRz" => pure .CRz | "CRx" => pure .CRx
  | _ => throw s!"bad rotation {t}"

/-- Split a flat row-major list into rows of length `n` (fuel = list length). -/
def chunkAux (n : Nat) : Nat → List Cyc8 → List (List Cyc8)
  | 0, _ => []
  | _, [] => []
  | fuel + 1, xs => xs.take n :: chunkAux n fuel (xs.drop n)

def chunk (n : Nat) (xs : List Cyc8) : List (List Cyc8) :=
  if n = 0 then [] else chunkAux n xs.length xs

partial def gate : P Gate := do
  let t ← tok
  match t with
  | "N" => do
    let n ← tok
    match namedGate n with
    | some g => pure g
    | none => throw s!"unknown gate {n}"
  | "D" => do pure (← gate).dagger
  | "C" => do pure (.ctrl (← gate))
  | "R" => do let k ← rotKind; let n ← int; pure (.rot k n)
  | "K" => do pure (.ket (← many bool))
  | "B" => do pure (.bra (← many bool))
  | "W" => pure .swap
  | "S" => do pure (.scalar (← cyc))
  | "Z" => do let z ← cyc; let r ← cyc; pure (.sqrt z r)
  | "Q" => do
    let name ← tok
    let nq ← nat
    let dgt ← tok
    let dg ← (match dgt with
      | "N" => pure none | "0" => pure (some false) | "1" => pure (some true)
      | _ => throw s!"bad dagger flag {dgt}" : P (Option Bool))
    let ents ← many cyc
    pure (.q ⟨name, nq, chunk (pow2 nq) ents, dg⟩)
  | _ => throw s!"bad gate head {t}"

def layer : P (Nat × Gate × Nat) := do
  let l ← nat; let g ← gate; let r ← nat
  pure (l, g, r)

def zxbox : P ZXBox := do
  let t ← tok
  match t with
  | "z" => do let n ← nat; let m ← nat; let p ← int; pure (.z n m p)
  | "x" => do let n ← nat; let m ← nat; let p ← int; pure (.x n m p)
  | "h" => pure .h
  | "w" => pure .swap
  | "s" => do pure (.scalar (← cyc))
  | _ => throw s!"bad zx box {t}"

def zxlayer : P (ZXBox × Nat) := do
  let b ← zxbox; let o ← nat
  pure (b, o)

def pMat (m : M8) : String :=
  let cols := (m.head?.map List.length).getD 0
  String.intercalate " " (["ok", toString m.length, toString cols] ++ m.flatten.map Cyc8.toTok)

/-- Phases are printed reduced mod 8 (a spider's phase only matters mod one full turn). -/
def pZXBox : ZXBox → String
  | .z n m p => s!"z {n} {m} {p % 8}"
  | .x n m p => s!"x {n} {m} {p % 8}"
  | .h => "h"
  | .swap => "w"
  | .scalar s => s!"s {s.toTok}"

def pZXDiag (d : ZXDiag) : String :=
  "ok " ++ pList (fun (b, o) => s!"{pZXBox b} {o}") d

def pModes (ms : List Bool) : String :=
  "ok " ++ pList (fun m => if m then "C" else "T") ms

def run {α} (p : P α) (rest : List String) (k : α → String) : Option String :=
  some <| match p.run rest with
    | .error m => "bad " ++ m
    | .ok (x, []) => k x
    | .ok (_, _) => "bad trailing tokens"

def handle (cmd : String) (rest : List String) : Option String :=
  match cmd with
  | "garr" => run gate rest fun g => pMat g.array
  | "geval" => run gate rest fun g => pMat g.eval
  | "gevalfixed" => run gate rest fun g => pMat g.evalFixed
  | "gevalasis" => run gate rest fun g => pMat g.evalAsIs
  | "tket" => run tok rest fun n =>
      match tketU n with
      | some m => pMat m
      | none => "err index"
  | "ceval" => run (do let n ← nat; let c ← many layer; pure (n, c)) rest fun (n, c) =>
      pMat (evalCirc n c)
  | "cdageval" => run (do let n ← nat; let c ← many layer; pure (n, c)) rest fun (n, c) =>
      let cod := c.foldl (fun w (_, g, _) => w - g.dom + g.cod) n
      pMat (evalCirc cod (Circ.dagger c))
  | "rewire" => run (do let g ← gate; let a ← nat; let b ← nat; pure (g, a, b)) rest fun (g, a, b) =>
      match rewireMat g.eval a b with
      | .ok m => pMat m
      | .error e => "err " ++ toString e
  | "actson" => run (do let g ← gate; let n ← nat; let a ← nat; let b ← nat; pure (g, n, a, b)) rest
      fun (g, n, a, b) => pMat (actsOn g.eval n a b)
  | "zxmat" => run zxbox rest fun b => pMat (b.sem.mat Cyc8.invSqrt2)
  | "zxeval" => run (do let n ← nat; let d ← many zxlayer; pure (n, d)) rest fun (n, d) =>
      pMat (ZXDiag.eval n d)
  | "zxdag" => run (many zxlayer) rest fun d => pZXDiag (ZXDiag.dagger d)
  | "g2zx" => run (do let f ← bool; let g ← gate; pure (f, g)) rest fun (f, g) =>
      match gate2zx f g with
      | .ok d => pZXDiag d
      | .error e => "err " ++ toString e
  | "c2zx" => run (do let f ← bool; let c ← many layer; pure (f, c)) rest fun (f, c) =>
      match circuit2zx f c with
      | .ok d => pZXDiag d
      | .error e => "err " ++ toString e
  | "switches" => some s!"ok f2={if f2Fixed then 1 else 0} f7={if f7Fixed then 1 else 0} f17={if f17Fixed then 1 else 0} f4k={if f4kFixed then 1 else 0}"
  | "sqrtexact" => run gate rest fun g => s!"ok {if g.sqrtExact then 1 else 0}"
  | "evalmodes" => run (do let f ← bool; let s ← bool; let o ← many bool; pure (f, s, o)) rest fun (f, s, o) =>
      pModes (evalModes f s o)
  | "summodes" => run (do let f ← bool; let t ← many bool; pure (f, t)) rest fun (f, t) =>
      match sumModes f t with
      | some ms => pModes ms
      | none => "ok zero"
  | _ => none

end DV.GatesCmd
