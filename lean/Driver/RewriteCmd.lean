/-
  Driver/RewriteCmd.lean
    rtrace <left:0|1> <expr d> <k> <expr s1> … <expr sk>
        -> "accepted terminal=<0|1>" | "rejected <k>" | "err <class>"
    (every diagram is sent as an `mk`-expression with explicit boxes/offsets; the layers are
     recomputed by the scanning constructor)
    ntrace <left> <fuel> <expr d>  -> "ok <finished 0|1> <k> <diagram>*k"  (the model's own trace)
    nfrepeat <left> <fuel> <expr d> -> "ok fin=<0|1> steps=<k> repeat=<index of the first step == to
        an earlier step | none> input_again=<index of the first step == to the input | none>"
        (what the cache of normal_form sees on the model's trace of <fuel> passes)
    strace / snake : the same two commands for rigid snake removal (rewriting.py:333-443)
-/
import Driver.Codec
import Model.Snake

namespace DV.RewriteCmd
open DV DV.Codec

def evalAll : List Expr → Except Err (List Diagram)
  | [] => .ok []
  | e :: es => match e.eval with
    | .error x => .error x
    | .ok d => match evalAll es with
      | .error x => .error x
      | .ok ds => .ok (d :: ds)

def handle (cmd : String) (rest : List String) : Option String :=
  match cmd with
  | "rtrace" =>
    some <| match ((do let l ← bool; let d ← expr; let ss ← many expr; pure (l, d, ss)) : P _).run rest with
      | .error m => "bad " ++ m
      | .ok ((l, d, ss), _) =>
        match d.eval, evalAll ss with
        | .ok d0, .ok steps =>
          match checkTrace l d0 steps 0 with
          | some k => s!"rejected {k}"
          | none => s!"accepted terminal={if terminal l (lastOr d0 steps) then 1 else 0}"
        | .error e, _ => "err " ++ toString e
        | _, .error e => "err " ++ toString e
  | "ntrace" =>
    some <| match ((do let l ← bool; let f ← nat; let d ← expr; pure (l, f, d)) : P _).run rest with
      | .error m => "bad " ++ m
      | .ok ((l, f, d), _) =>
        match d.eval with
        | .error e => "err " ++ toString e
        | .ok d0 =>
          match normalizeTrace l f d0 [] with
          | .error e => "err " ++ toString e
          | .ok (steps, fin) => s!"ok {if fin then 1 else 0} {pList pDiagram steps}"
  | "nfrepeat" =>
    some <| match ((do let l ← bool; let f ← nat; let d ← expr; pure (l, f, d)) : P _).run rest with
      | .error m => "bad " ++ m
      | .ok ((l, f, d), _) =>
        match d.eval with
        | .error e => "err " ++ toString e
        | .ok d0 =>
          match normalizeTrace l f d0 [] with
          | .error e => "err " ++ toString e
          | .ok (steps, fin) =>
            let rep := match firstRepeat [] steps 0 with | some k => toString k | none => "none"
            let back := match steps.findIdx? (fun s => s.eqv d0) with | some k => toString k | none => "none"
            s!"ok fin={if fin then 1 else 0} steps={steps.length} repeat={rep} input_again={back}"
  | "strace" =>
    some <| match ((do let l ← bool; let d ← expr; let ss ← many expr; pure (l, d, ss)) : P _).run rest with
      | .error m => "bad " ++ m
      | .ok ((l, d, ss), _) =>
        match d.eval, evalAll ss with
        | .ok d0, .ok steps =>
          match checkSnakeTrace l d0 steps 0 with
          | some k => s!"rejected {k}"
          | none =>
            let last := lastOr d0 steps
            s!"accepted terminal={if terminal l last then 1 else 0} snakefree={if last.findSnake.isNone then 1 else 0}"
        | .error e, _ => "err " ++ toString e
        | _, .error e => "err " ++ toString e
  | "snake" =>
    some <| match ((do let l ← bool; let f ← nat; let d ← expr; pure (l, f, d)) : P _).run rest with
      | .error m => "bad " ++ m
      | .ok ((l, f, d), _) =>
        match d.eval with
        | .error e => "err " ++ toString e
        | .ok d0 =>
          match d0.snakeRemoval l f with
          | .error e => "err " ++ toString e
          | .ok (steps, fin) => s!"ok {if fin then 1 else 0} {pList pDiagram steps}"
  | _ => none

end DV.RewriteCmd
