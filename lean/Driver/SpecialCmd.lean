/-
  Driver/SpecialCmd.lean — commands over Model/Special.lean (property C02, box-level dagger of
  the special box subclasses).

    sbox <sbox>      -> ok <ty dom> <ty cod> <sbox of the dagger>

  Tokens:  flag ::= N | 0 | 1
           sbox ::= word <name> <ty cod> <ty dom> <data> <bool> | swap <ob> <ob> | cup <ob> <ob>
                  | cap <ob> <ob> | discard <ty> | mixed <ty> | measure <n> <bool> <bool>
                  | encode <n> <bool> <bool> | digits <many nat> <dim> <bool> | ket <many nat>
                  | bra <many nat> | copy | match | clgate <name> <ty> <ty> <data> <flag>
                  | qgate <name> <n> <data> <flag> | rot <name> <n> <int> | ctrl <name> <data> <flag>
                  | ctrlrot <name> <int> | cbox <name> <ty> <ty> <data> <flag>
                  | scalar <name> <int re> <int im> <bool mixed> | zxscalar <int> <int>
                  | spider <color> <n> <m> <int> | had | tspider <n> <m> <dim>
-/
import Driver.Codec
import Model.Special

namespace DV.SpecialCmd
open DV DV.Codec DV.Special

def flag : P (Option Bool) := do
  let t ← tok
  match t with
  | "N" => pure none | "0" => pure (some false) | "1" => pure (some true)
  | _ => throw s!"bad flag {t}"

def sbox : P SBox := do
  let t ← tok
  match t with
  | "word" => do
    let n ← tok; let c ← ty; let d ← ty; let data ← tok; let dg ← bool; pure (.word n c d data dg)
  | "swap" => do let l ← ob; let r ← ob; pure (.swap l r)
  | "cup" => do let l ← ob; let r ← ob; pure (.cup l r)
  | "cap" => do let l ← ob; let r ← ob; pure (.cap l r)
  | "discard" => do pure (.discard (← ty))
  | "mixed" => do pure (.mixedState (← ty))
  | "measure" => do let n ← nat; let d ← bool; let o ← bool; pure (.measure n d o)
  | "encode" => do let n ← nat; let c ← bool; let r ← bool; pure (.encode n c r)
  | "digits" => do let ds ← many nat; let dim ← nat; let dg ← bool; pure (.digits ds dim dg)
  | "ket" => do pure (.ket (← many nat))
  | "bra" => do pure (.bra (← many nat))
  | "copy" => pure .copy
  | "match" => pure .match_
  | "clgate" => do
    let n ← tok; let d ← ty; let c ← ty; let data ← tok; let f ← flag; pure (.classicalGate n d c data f)
  | "qgate" => do let n ← tok; let k ← nat; let data ← tok; let f ← flag; pure (.quantumGate n k data f)
  | "rot" => do let n ← tok; let k ← nat; let ph ← int; pure (.rotation n k ph)
  | "ctrl" => do let n ← tok; let data ← tok; let f ← flag; pure (.controlledGate n data f)
  | "ctrlrot" => do let n ← tok; let ph ← int; pure (.controlledRot n ph)
  | "cbox" => do
    let n ← tok; let d ← ty; let c ← ty; let data ← tok; let f ← flag; pure (.cbox n d c data f)
  | "scalar" => do let n ← tok; let re ← int; let im ← int; let m ← bool; pure (.scalar n re im m)
  | "zxscalar" => do let re ← int; let im ← int; pure (.zxScalar re im)
  | "spider" => do let c ← tok; let n ← nat; let m ← nat; let ph ← int; pure (.spider c n m ph)
  | "had" => pure .had
  | "tspider" => do let n ← nat; let m ← nat; let d ← nat; pure (.tspider n m d)
  | _ => throw s!"bad sbox {t}"

def pBool (b : Bool) : String := if b then "1" else "0"
def pFlag : Option Bool → String
  | none => "N" | some b => pBool b
def pNats (xs : List Nat) : String := pList toString xs

def pSBox : SBox → String
  | .word n c d data dg => s!"word {n} {pTy c} {pTy d} {data} {pBool dg}"
  | .swap l r => s!"swap {pOb l} {pOb r}"
  | .cup l r => s!"cup {pOb l} {pOb r}"
  | .cap l r => s!"cap {pOb l} {pOb r}"
  | .discard t => s!"discard {pTy t}"
  | .mixedState t => s!"mixed {pTy t}"
  | .measure n d o => s!"measure {n} {pBool d} {pBool o}"
  | .encode n c r => s!"encode {n} {pBool c} {pBool r}"
  | .digits ds dim dg => s!"digits {pNats ds} {dim} {pBool dg}"
  | .ket bs => s!"ket {pNats bs}"
  | .bra bs => s!"bra {pNats bs}"
  | .copy => "copy"
  | .match_ => "match"
  | .classicalGate n d c data f => s!"clgate {n} {pTy d} {pTy c} {data} {pFlag f}"
  | .quantumGate n k data f => s!"qgate {n} {k} {data} {pFlag f}"
  | .rotation n k ph => s!"rot {n} {k} {ph}"
  | .controlledGate n data f => s!"ctrl {n} {data} {pFlag f}"
  | .controlledRot n ph => s!"ctrlrot {n} {ph}"
  | .cbox n d c data f => s!"cbox {n} {pTy d} {pTy c} {data} {pFlag f}"
  | .scalar n re im m => s!"scalar {n} {re} {im} {pBool m}"
  | .zxScalar re im => s!"zxscalar {re} {im}"
  | .spider c n m ph => s!"spider {c} {n} {m} {ph}"
  | .had => "had"
  | .tspider n m d => s!"tspider {n} {m} {d}"

def handle (cmd : String) (rest : List String) : Option String :=
  match cmd with
  | "sbox" =>
    some <| match (sbox.run rest) with
      | .error m => "bad " ++ m
      | .ok (b, []) => s!"ok {pTy b.dom} {pTy b.cod} {pSBox b.dag}"
      | .ok (_, _) => "bad trailing tokens"
  | _ => none

end DV.SpecialCmd
