/-
  Driver/FoliateCmd.lean
    foliate <expr>  -> "ok <k> <diagram>*k <m> <diagram>*m"  (yielded steps, then slices) | err <class>
-/
import Driver.Codec
import Model.Foliate

namespace DV.FoliateCmd
open DV DV.Codec

def handle (cmd : String) (rest : List String) : Option String :=
  match cmd with
  | "foliate" =>
    some <| match (expr.run rest) with
      | .error m => "bad " ++ m
      | .ok (e, _) =>
        match e.eval with
        | .error x => "err " ++ toString x
        | .ok d => match d.foliate with
          | .error x => "err " ++ toString x
          | .ok (steps, slices) => s!"ok {pList pDiagram steps} {pList pDiagram slices}"
  | _ => none

end DV.FoliateCmd
