import sys, random
sys.path.insert(0, '/tmp/ws-c0809/harness')
from common import Driver
from tensorlib import *
rng = random.Random(int(sys.argv[1]) if len(sys.argv) > 1 else 0)
drv = Driver()
bad = 0
N = 600
cases = [prim_case(rng) for _ in range(N)]
ans = ask_many(drv, [c[1] for c in cases])
from collections import Counter
cnt = Counter()
for (op, line, th), m in zip(cases, ans):
    real = real_line(th, canon_arr)
    cnt[op + ":" + real.split()[0]] += 1
    if real != m:
        bad += 1
        if bad < 6:
            print("PRIM DIFF", op, line[:200], "\n real ", real[:200], "\n model", m[:200])
print("prims", N, "bad", bad, dict(cnt))
bad = 0
g = TGen(rng)
cases = []
for _ in range(600):
    e, d, c, b = g.expr(rng.randint(0, 4))
    cases.append(e)
ans = ask_many(drv, ["teval " + tok_texpr(e) for e in cases])
cnt = Counter()
for e, m in zip(cases, ans):
    real = real_line(lambda: run_texpr(e), canon_tensor)
    cnt[real.split()[0] + (":" + real.split()[1] if real.startswith("err") else "")] += 1
    if real != m:
        bad += 1
        if bad < 6:
            print("TEXPR DIFF", e, "\n real ", real[:300], "\n model", m[:300])
print("texpr bad", bad, dict(cnt))
