#check @List.idxOf
#check @List.range'
#check @Array.getD
#check @List.sum
#check @List.flatMap
#check @List.getD
#check @List.zip
#check @List.contains
#check @List.getElem_idxOf
#check @List.idxOf_lt_length_iff
#eval [1,2,3].sum
#eval (#[1,2,3] : Array Nat).getD 5 0
