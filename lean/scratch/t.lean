import Model.Tensor
open DV DV.Tensor
def f0 : Tensor GaussInt := ⟨[2], [3], ⟨[2, 3], #[⟨1, 0⟩, ⟨0, 1⟩, ⟨2, 0⟩, ⟨0, 0⟩, ⟨1, -1⟩, ⟨3, 0⟩]⟩⟩
def g0 : Tensor GaussInt := ⟨[3], [2, 2], ⟨[3, 2, 2],
  #[⟨1, 0⟩, ⟨0, 0⟩, ⟨0, 1⟩, ⟨1, 0⟩, ⟨2, 0⟩, ⟨0, 0⟩, ⟨0, 0⟩, ⟨1, 1⟩, ⟨0, 0⟩, ⟨1, 0⟩, ⟨1, 0⟩, ⟨0, 0⟩]⟩⟩
def s0 : Tensor GaussInt := ⟨[], [], ⟨[1], #[⟨0, 2⟩]⟩⟩
#eval (thenCore f0 g0).entry ([1] ++ [1, 1])
#eval (thenCore f0 g0).entry ([0] ++ [1, 1])
#eval (f0.tensor s0).entry (([0] ++ []) ++ ([1] ++ []))
#eval f0.dagger.entry ([1] ++ [0])
#eval (thenCore f0 g0)
