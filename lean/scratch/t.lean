import Props.C09
open DV DV.C09
#eval (match F0.call d0 with | .ok t => s!"ok {t.dom} {t.cod} {t.arr.data.toList.map (fun g => (g.re, g.im))}" | .error e => s!"err {e}")
#eval (match F0.layerwise d0 with | .ok t => s!"ok {t.dom} {t.cod} {t.arr.data.toList.map (fun g => (g.re, g.im))}" | .error e => s!"err {e}")
set_option maxRecDepth 100000 in
example : (F0.call d0).toOption.isSome = true := by decide +kernel
#print axioms functor_eval_eq_layers_partial
#print axioms functor_eval_eq_layers_atomic
#print axioms call_ofBox
