import Mathlib.Data.List.Sort
open List
#check @List.getD_eq_getElem?_getD
#check @List.range'_append_1
#check @List.range'_append
#check @List.zip_append
#check @List.take_left'
#check @List.getElem_idxOf
example (l : List Nat) (i d : Nat) (h : i < l.length) : l.getD i d = l[i] := by
  simp [List.getD_eq_getElem?_getD, h]
example (p a b : Nat) : List.range' p (a + b) = List.range' p a ++ List.range' (p + a) b := by
  exact?
