import sys, random, time
sys.path.insert(0, '/tmp/ws-c0809/harness')
from common import Driver
from tensorlib import *
rng = random.Random(0)
drv = Driver()
tot=0
for k in range(300):
    if k<150:
        op, line, th = prim_case(rng)
    else:
        g = TGen(rng); e,_,_,_ = g.expr(rng.randint(0,4)); line="teval "+tok_texpr(e); op=str(texpr_ops(e))
    t=time.time()
    m = drv.ask(line)
    dt=time.time()-t
    tot+=dt
    if dt>0.3: print(k, op[:80], len(line), round(dt,2), m[:60], flush=True)
print(tot)
