import sys, random, time
sys.path.insert(0, '/tmp/ws-c0809/harness')
from common import Driver
from tensorlib import *
from collections import Counter
rng = random.Random(int(sys.argv[1]) if len(sys.argv) > 1 else 0)
drv = Driver()
N = int(sys.argv[2]) if len(sys.argv) > 2 else 300
cases = [(rigid_case if k % 2 else tensor_case)(random.Random(rng.getrandbits(64))) for k in range(N)]
t = time.time()
ans = ask_many(drv, [c.line("feval") for c in cases])
ans2 = ask_many(drv, [c.line("flayers") for c in cases])
print("model time", round(time.time() - t, 1))
cnt = Counter(); bad = 0
for c, m, m2 in zip(cases, ans, ans2):
    real = real_line(c.real_eval, canon_tensor)
    cnt[c.family + ":" + " ".join(real.split()[:2] if real.startswith("err") else ["ok"])] += 1
    if real != m or m != m2:
        bad += 1
        if bad < 5:
            print("DIFF", c.family, c.e, c.ob, "\n real  ", real[:300], "\n model ", m[:300], "\n layers", m2[:300])
    if real.startswith("ok"):
        t_ = c.real_eval()
        try:
            ref = c.ref_layers()
        except Exception as ex:
            print("REF EXC", ex, c.e); continue
        if not exact_eq(mat(t_), ref):
            print("ORACLE FAIL", c.family, c.e, c.ob)
print("bad", bad, dict(cnt))
