import Props.C09
open DV.C09
#print axioms eval_invariant_interchange
#print axioms eval_invariant_normal_form
#print axioms tensor_layer_exchange
