import Props.C08
open DV.C08
#print axioms then_matrix
#print axioms tensor_kron
#print axioms swap_natural
#print axioms interchange_law
#print axioms snake_l_single
#print axioms dagger_then
