import Props.C08
import Props.C09
open DV.C08
#print axioms snake_multiwire
#print axioms cups_spec
#print axioms DV.C09.functor_eval_eq_layers
