import Model.Basic
import Model.Diagram
import Model.Expr
