/-
  Proofs/LayoutDiagram.lean — ties the layout model's input (`Shape`) to the core `Diagram`:
  a well-typed diagram has an in-range shape, and the `downgrade()` re-scan at the top of
  `diagram2nx` (drawing.py:100) accepts exactly … every well-typed diagram.
-/
import Proofs.Layout
import Proofs.WFOps

namespace DV.Layout
open DV

/-- The shape read off the layer view. -/
def stepOfLayer (l : Layer) : Step := ⟨l.box.dom.length, l.box.cod.length, l.left.length⟩

theorem stepsOK_of_chain {s c : Ty} {ls : List Layer} (h : Chain s ls c) :
    StepsOK s.length (ls.map stepOfLayer) c.length := by
  induction ls generalizing s with
  | nil => simp only [Chain] at h; subst h; simp [StepsOK]
  | cons l ls ih =>
    obtain ⟨h1, h2⟩ := h
    have := ih h2
    subst h1
    simp only [List.map_cons, StepsOK, stepOfLayer, Layer.dom, Layer.cod, List.length_append] at this ⊢
    refine ⟨by omega, ?_⟩
    have e : l.left.length + l.box.dom.length + l.right.length - l.box.dom.length + l.box.cod.length
        = l.left.length + l.box.cod.length + l.right.length := by omega
    rw [e]; exact this

theorem shapeOf_steps {d : Diagram} (h : d.WF) :
    (shapeOf d).steps = d.layers.boxes.map stepOfLayer := by
  simp only [shapeOf, h.boxes, h.offsets, List.zipWith_map, List.zipWith_self]
  apply List.map_congr_left
  intro l _
  simp [stepOf, stepOfLayer]

/-- A well-typed diagram has all its offsets in range. -/
theorem shapeOf_wf {d : Diagram} (h : d.WF) : (shapeOf d).WF := by
  unfold Shape.WF
  rw [shapeOf_steps h]
  have := stepsOK_of_chain h.chain
  rw [h.ldom, h.lcod] at this
  exact this

theorem shapeOf_congr {d d' : Diagram} (h1 : d'.dom = d.dom) (h2 : d'.cod = d.cod)
    (h3 : d'.boxes = d.boxes) (h4 : d'.offsets = d.offsets) : shapeOf d' = shapeOf d := by
  simp [shapeOf, h1, h2, h3, h4]

/-- Whatever `diagram2nx` returns is the layout of the diagram's own shape, and that shape is
    in range (the `downgrade()` scan refused everything else). -/
theorem diagram2nx_ok {d : Diagram} {g : Graph} (h : diagram2nx d = .ok g) :
    g = layout (shapeOf d) ∧ (shapeOf d).WF := by
  unfold diagram2nx at h
  split at h
  · cases h
  · rename_i d' hd'
    cases h
    obtain ⟨hw, h1, h2, h3, h4⟩ := Diagram.mk?_ok hd'
    rw [← shapeOf_congr h1 h2 h3 h4]
    exact ⟨rfl, shapeOf_wf hw⟩

/-- The scan of the public constructor accepts the layers of a chain. -/
theorem scanLayers_of_chain {acc : LArrow} {ls : List Layer} {c : Ty} (h : Chain acc.cod ls c) :
    ∃ r, scanLayers acc (ls.map (·.box)) (ls.map (fun l => (l.left.length : Int))) = .ok r
      ∧ r.cod = c := by
  induction ls generalizing acc with
  | nil => exact ⟨acc, rfl, h⟩
  | cons l ls ih =>
    obtain ⟨h1, h2⟩ := h
    simp only [List.map_cons, scanLayers]
    have hleft : pySlice acc.cod none (some (l.left.length : Int)) = l.left := by
      rw [pySlice_take, h1]; simp [Layer.dom]
    have hright : pySlice acc.cod (some ((l.left.length : Int) + (l.box.dom.length : Int))) none
        = l.right := by
      have e : ((l.left.length : Int) + (l.box.dom.length : Int))
          = ((l.left.length + l.box.dom.length : Nat) : Int) := by simp
      rw [e, pySlice_drop, h1]; simp [Layer.dom]
    have hthen : acc.thenLayer ⟨l.left, l.box, l.right⟩ = .ok ⟨acc.dom, l.cod, acc.boxes ++ [l]⟩ := by
      have : (⟨l.left, l.box, l.right⟩ : Layer) = l := rfl
      rw [this]
      simp [LArrow.thenLayer, LArrow.then, Layer.arrow, h1]
    rw [hleft, hright]
    simp only [ne_eq, not_true_eq_false, if_false, hthen]
    exact ih (acc := ⟨acc.dom, l.cod, acc.boxes ++ [l]⟩) h2

/-- The re-scan at the top of `diagram2nx` accepts every well-typed diagram. -/
theorem mk?_of_wf {d : Diagram} (h : d.WF) :
    ∃ d', Diagram.mk? d.dom d.cod d.boxes d.offsets = .ok d' := by
  unfold Diagram.mk?
  have hlen : d.boxes.length = d.offsets.length := by rw [h.boxes, h.offsets]; simp
  rw [if_neg (by simpa using hlen)]
  have hc : Chain (LArrow.id d.dom).cod d.layers.boxes d.cod := by
    have := h.chain; unfold LArrow.WF at this; rw [h.ldom, h.lcod] at this; exact this
  obtain ⟨r, hr, hrc⟩ := scanLayers_of_chain hc
  rw [h.boxes, h.offsets, hr]
  simp [LArrow.then, LArrow.id, hrc]

/-- `diagram2nx` succeeds on every well-typed diagram and returns the layout of its shape. -/
theorem diagram2nx_of_wf {d : Diagram} (h : d.WF) : diagram2nx d = .ok (layout (shapeOf d)) := by
  obtain ⟨d', hd'⟩ := mk?_of_wf h
  have : diagram2nx d = .ok (layout (shapeOf d')) := by simp [diagram2nx, hd']
  rw [this]
  obtain ⟨-, h1, h2, h3, h4⟩ := Diagram.mk?_ok hd'
  rw [shapeOf_congr h1 h2 h3 h4]

/-! ### Corollaries in the form the property states them -/

/-- `a` is strictly left of `b` in the graph (both placed). -/
def Graph.Left (g : Graph) (a b : Node) : Prop :=
  ∃ xa xb, g.nodes.x? a = some xa ∧ g.nodes.x? b = some xb ∧ xa < xb

theorem left_of_sep {g : Graph} {a b : Node} (h : g.nodes.sep 1 a b) : g.Left a b := by
  obtain ⟨xa, xb, ha, hb, hab⟩ := h
  exact ⟨xa, xb, ha, hb, by grind⟩

/-- Two different wires that are open at the same height never share a horizontal coordinate
    (they are at least one unit apart): vertical wires cannot cross. -/
theorem layout_no_crossing (sh : Shape) (h : sh.WF) :
    ∀ s ∈ (layout sh).scans, ∀ a ∈ s, ∀ b ∈ s, a ≠ b →
      (layout sh).nodes.sep 1 a b ∨ (layout sh).nodes.sep 1 b a := by
  intro s hs a ha b hb hab
  have hp := List.pairwise_iff_getElem.mp (layout_scans_sorted sh h s hs)
  obtain ⟨i, hi, rfl⟩ := List.mem_iff_getElem.mp ha
  obtain ⟨j, hj, rfl⟩ := List.mem_iff_getElem.mp hb
  rcases Nat.lt_trichotomy i j with hij | hij | hij
  · exact Or.inl (hp i j hi hj hij)
  · subst hij; exact absurd rfl hab
  · exact Or.inr (hp j i hj hi hij)

theorem sep_irrefl {p : Pos} {a : Node} : ¬ p.sep 1 a a := by
  rintro ⟨xa, xb, ha, hb, hab⟩
  rw [ha] at hb; cases hb; grind

/-- The open wires at one height are pairwise different nodes. -/
theorem layout_scans_nodup (sh : Shape) (h : sh.WF) : ∀ s ∈ (layout sh).scans, s.Nodup := by
  intro s hs
  refine (layout_scans_sorted sh h s hs).imp ?_
  intro a b hab e
  subst e; exact sep_irrefl hab

/-- The offset of a box with at least one input can be read back from the graph: it is the
    position, among the open wires at its height, of the source of its first domain edge
    (what `nx2diagram` computes with `scan.index(wire)`, drawing.py:224-227). -/
theorem layout_offset_recoverable (sh : Shape) (h : sh.WF) (k : Nat) (st : Step) (sc : List Node)
    (hst : sh.steps[k]? = some st) (hsc : (layout sh).scans[k]? = some sc) (hm : 0 < st.m) :
    sc.idxOf (follow ((sh.steps.take k).reverse) st.off) = st.off := by
  obtain ⟨hin, -⟩ := layout_box_between sh h k st sc hst hsc
  have hl : st.off < sc.length := by omega
  have hf := scans_follow sh h k sc hsc st.off hl
  rw [List.getElem?_eq_getElem hl] at hf
  rw [← Option.some.inj hf]
  exact (layout_scans_nodup sh h sc (List.mem_of_getElem? hsc)).idxOf_getElem _ hl

/-- All layout clauses of the property, for one graph. -/
structure Faithful (sh : Shape) (g : Graph) : Prop where
  /-- exactly one node per input, box, box port and output -/
  nodes_are : keys g.nodes = allNodes sh
  nodes_distinct : (keys g.nodes).Nodup
  /-- the edges are the wiring (and nothing else, with no repetition) -/
  edges_are : ∀ e, e ∈ g.edges ↔ Wiring sh e
  edges_count : g.edges.length = (sh.steps.map (fun st => 2 * st.m + st.c)).sum + sh.nOut
  /-- `g.scans` are the open wires at each height … -/
  scans_are : ∀ k sc, g.scans[k]? = some sc → ∀ p, p < sc.length →
      sc[p]? = some (follow ((sh.steps.take k).reverse) p)
  scans_count : g.scans.length = sh.steps.length + 1
  /-- … in strictly increasing horizontal order (indeed at least one unit apart) -/
  increasing : ∀ s ∈ g.scans, s.Pairwise (g.nodes.sep 1)
  /-- box centre and ports strictly between the neighbouring wires (at least one unit) -/
  between : ∀ k st sc, sh.steps[k]? = some st → g.scans[k]? = some sc →
      (∀ a ∈ sc.take st.off, ∀ v ∈ stepNodes st k, g.nodes.sep 1 a v)
      ∧ (∀ b ∈ sc.drop (st.off + st.m), ∀ v ∈ stepNodes st k, g.nodes.sep 1 v b)
  /-- wires are vertical -/
  vertical : ∀ e ∈ g.edges, (e.2.kind = .dom ∨ e.2.kind = .output) → g.nodes.eqx e.1 e.2
  /-- every edge points down -/
  down : ∀ e ∈ g.edges, ∃ ya yb, g.nodes.y? e.1 = some ya ∧ g.nodes.y? e.2 = some yb ∧ yb < ya

theorem layout_faithful (sh : Shape) (h : sh.WF) : Faithful sh (layout sh) where
  nodes_are := layout_keys sh
  nodes_distinct := layout_nodup sh h
  edges_are := layout_edges_wiring sh h
  edges_count := layout_edges_length sh
  scans_are := scans_follow sh h
  scans_count := by rw [layout_scans, scansFrom_length]
  increasing := layout_scans_sorted sh h
  between := fun k st sc h1 h2 =>
    ⟨(layout_box_between sh h k st sc h1 h2).2.1, (layout_box_between sh h k st sc h1 h2).2.2.1⟩
  vertical := layout_wires_vertical sh h
  down := layout_edges_down sh h

end DV.Layout
