/-
  Proofs/GaussInt.lean — the scalar type the model is executed at, `DV.GaussInt` (ℤ[i] with the
  `Add Mul Zero One Conj` instances of Model/Tensor.lean), is a commutative star ring.  Hence
  every theorem of Proofs/Tensor*.lean applies verbatim to the arrays the driver computes.
-/
import Model.Tensor
import Mathlib.Algebra.Ring.MinimalAxioms
import Mathlib.Algebra.Star.Basic
import Mathlib.Tactic.Ring

namespace DV
namespace GaussInt

@[ext] theorem ext {a b : GaussInt} (h1 : a.re = b.re) (h2 : a.im = b.im) : a = b := by
  cases a; cases b; simp_all

instance : Neg GaussInt := ⟨fun a => ⟨-a.re, -a.im⟩⟩

@[simp] theorem add_re (a b : GaussInt) : (a + b).re = a.re + b.re := rfl
@[simp] theorem add_im (a b : GaussInt) : (a + b).im = a.im + b.im := rfl
@[simp] theorem mul_re (a b : GaussInt) : (a * b).re = a.re * b.re - a.im * b.im := rfl
@[simp] theorem mul_im (a b : GaussInt) : (a * b).im = a.re * b.im + a.im * b.re := rfl
@[simp] theorem zero_re : (0 : GaussInt).re = 0 := rfl
@[simp] theorem zero_im : (0 : GaussInt).im = 0 := rfl
@[simp] theorem one_re : (1 : GaussInt).re = 1 := rfl
@[simp] theorem one_im : (1 : GaussInt).im = 0 := rfl
@[simp] theorem neg_re (a : GaussInt) : (-a).re = -a.re := rfl
@[simp] theorem neg_im (a : GaussInt) : (-a).im = -a.im := rfl

instance : CommRing GaussInt :=
  CommRing.ofMinimalAxioms
    (by intros; ext <;> simp <;> ring)
    (by intros; ext <;> simp)
    (by intros; ext <;> simp)
    (by intros; ext <;> simp <;> ring)
    (by intros; ext <;> simp <;> ring)
    (by intros; ext <;> simp)
    (by intros; ext <;> simp <;> ring)

instance : StarRing GaussInt where
  star := Conj.conj
  star_involutive a := by ext <;> simp [Conj.conj]
  star_mul a b := by ext <;> simp [Conj.conj] <;> ring
  star_add a b := by ext <;> simp [Conj.conj] <;> ring

/-- The ring structure is built on the model's own operations. -/
example (a b : GaussInt) : a * b = ⟨a.re * b.re - a.im * b.im, a.re * b.im + a.im * b.re⟩ := rfl
example (a : GaussInt) : star a = Conj.conj a := rfl

end GaussInt
end DV
