/-
  Proofs/CQSwap.lean — `CQMap.swap` (cqmap.py:188-193, Model/CQ.lean `CQMap.swap`) is the
  wire-permutation tensor, wire by wire, for classical and quantum parts of ANY lengths and
  dimensions (heterogeneous: `C(Dim(2, 3)) @ Q(Dim(5))` against `Q(Dim(3, 2))`, empty parts, …).

  The model keeps the three blocks (classical, quantum, conjugate quantum copy) of an index of the
  underlying tensor flattened; `flatIdx` is the row-major (numpy C order) flattening of a
  multi-index with one entry per WIRE, `IsIdx ds xs` says that `xs` is such a multi-index over
  the wire dimensions `ds`.  `cq_swap_blocks` reads the model's swap at wire multi-indices,
  `cq_swap_utensor` reads the flattened `array` (the `utensor` of cqmap.py:119-122) at the
  multi-index over `classical @ quantum @ quantum`: the entry is 1 exactly when the output carries,
  in each of the three blocks, the wires of `right` first and then the wires of `left`, each in
  order and with the value it had on the input — and 0 otherwise.
-/
import Proofs.CQ

namespace DV.CQ

set_option linter.unusedSectionVars false

variable {R : Type} [CommRing R] [StarRing R]

/-- Row-major flattening of a multi-index (one entry per wire) over the dimensions `ds`. -/
def flatIdx : List Nat → List Nat → Nat
  | _ :: ds, x :: xs => x * prodL ds + flatIdx ds xs
  | _, _ => 0

/-- `xs` is a multi-index over the wires of dimensions `ds`. -/
def IsIdx : List Nat → List Nat → Prop
  | [], [] => True
  | d :: ds, x :: xs => x < d ∧ IsIdx ds xs
  | _, _ => False

theorem IsIdx.length : ∀ {ds xs : List Nat}, IsIdx ds xs → xs.length = ds.length
  | [], [], _ => rfl
  | _ :: _, _ :: _, h => by simp [IsIdx.length h.2]
  | [], _ :: _, h => h.elim
  | _ :: _, [], h => h.elim

theorem flatIdx_lt : ∀ {ds xs : List Nat}, IsIdx ds xs → flatIdx ds xs < prodL ds
  | [], [], _ => by simp [flatIdx, prodL]
  | d :: ds, x :: xs, h => by
    show x * prodL ds + flatIdx ds xs < d * prodL ds
    exact pair_lt h.1 (flatIdx_lt h.2)
  | [], _ :: _, h => h.elim
  | _ :: _, [], h => h.elim

theorem IsIdx.append : ∀ {ds es xs ys : List Nat}, IsIdx ds xs → IsIdx es ys →
    IsIdx (ds ++ es) (xs ++ ys)
  | [], _, [], _, _, h => h
  | _ :: _, _, _ :: _, _, h, h' => ⟨h.1, IsIdx.append h.2 h'⟩
  | [], _, _ :: _, _, h, _ => h.elim
  | _ :: _, _, [], _, h, _ => h.elim

/-- A multi-index over `ds ++ es` is a multi-index over `ds` followed by one over `es`. -/
theorem IsIdx.split : ∀ {ds es zs : List Nat}, IsIdx (ds ++ es) zs →
    ∃ xs ys, zs = xs ++ ys ∧ IsIdx ds xs ∧ IsIdx es ys
  | [], _, zs, h => ⟨[], zs, rfl, trivial, h⟩
  | _ :: _, _, [], h => h.elim
  | d :: ds, es, z :: zs, h => by
    have h' : z < d ∧ IsIdx (ds ++ es) zs := h
    obtain ⟨xs, ys, rfl, hx, hy⟩ := IsIdx.split h'.2
    exact ⟨z :: xs, ys, rfl, ⟨h'.1, hx⟩, hy⟩

/-- Flattening is compatible with juxtaposition of wires: the left block is the high part. -/
theorem flatIdx_append : ∀ {ds xs : List Nat} (es ys : List Nat), IsIdx ds xs →
    flatIdx (ds ++ es) (xs ++ ys) = flatIdx ds xs * prodL es + flatIdx es ys
  | [], [], es, ys, _ => by simp [flatIdx]
  | d :: ds, x :: xs, es, ys, h => by
    show x * prodL (ds ++ es) + flatIdx (ds ++ es) (xs ++ ys) =
      (x * prodL ds + flatIdx ds xs) * prodL es + flatIdx es ys
    rw [flatIdx_append es ys h.2, prodL_append, Nat.add_mul, Nat.mul_assoc, Nat.add_assoc]
  | [], _ :: _, _, _, h => h.elim
  | _ :: _, [], _, _, h => h.elim

/-- Distinct multi-indices have distinct flat positions. -/
theorem flatIdx_inj : ∀ {ds xs ys : List Nat}, IsIdx ds xs → IsIdx ds ys →
    flatIdx ds xs = flatIdx ds ys → xs = ys
  | [], [], [], _, _, _ => rfl
  | d :: ds, x :: xs, y :: ys, hx, hy, h => by
    have h : x * prodL ds + flatIdx ds xs = y * prodL ds + flatIdx ds ys := h
    have h1 := congrArg (· / prodL ds) h
    have h2 := congrArg (· % prodL ds) h
    simp only [pair_div (flatIdx_lt hx.2), pair_div (flatIdx_lt hy.2),
      pair_mod (flatIdx_lt hx.2), pair_mod (flatIdx_lt hy.2)] at h1 h2
    rw [h1, flatIdx_inj hx.2 hy.2 h2]
  | [], _ :: _, _, h, _, _ => h.elim
  | [], [], _ :: _, _, h, _ => h.elim
  | _ :: _, [], _, h, _, _ => h.elim
  | _ :: _, _ :: _, [], _, h, _ => h.elim

theorem flatIdx_eq_iff {ds xs ys : List Nat} (hx : IsIdx ds xs) (hy : IsIdx ds ys) :
    flatIdx ds xs = flatIdx ds ys ↔ xs = ys :=
  ⟨flatIdx_inj hx hy, fun h => by rw [h]⟩

/-- `Tensor.swap` (tensor.py:231-237, `Mat.swap`) read at a pair of block indices: input
    `(x, y)`, output `(y', x')`. -/
theorem Mat.swap_pair {a b x y x' y' : Nat} (hy : y < b) (hx' : x' < a) :
    (Mat.swap a b : Mat R).f (x * b + y) (y' * a + x') = iv (x = x' ∧ y = y') := by
  show iv ((x * b + y) / b = (y' * a + x') % a ∧ (x * b + y) % b = (y' * a + x') / a) = _
  rw [pair_div hy, pair_mod hy, pair_div hx', pair_mod hx']

/-- One block of the swap at wire multi-indices: the output block `z` (over `es ++ ds`) must be
    the wires of the right type followed by those of the left type. -/
theorem Mat.swap_wires {ds es xs ys zs : List Nat} (hx : IsIdx ds xs) (hy : IsIdx es ys)
    (hz : IsIdx (es ++ ds) zs) :
    (Mat.swap (prodL ds) (prodL es) : Mat R).f (flatIdx (ds ++ es) (xs ++ ys))
      (flatIdx (es ++ ds) zs) = iv (zs = ys ++ xs) := by
  obtain ⟨z1, z2, rfl, h1, h2⟩ := hz.split
  rw [flatIdx_append es ys hx, flatIdx_append ds z2 h1,
    Mat.swap_pair (flatIdx_lt hy) (flatIdx_lt h2)]
  apply iv_congr
  rw [flatIdx_eq_iff hx h2, flatIdx_eq_iff hy h1]
  constructor
  · rintro ⟨rfl, rfl⟩; rfl
  · intro h
    obtain ⟨e1, e2⟩ := List.append_inj h (by rw [h1.length, hy.length])
    exact ⟨e2.symm, e1.symm⟩

namespace CQMap

/-- **cq_swap_blocks**.  `CQMap.swap(l, r)` read at wire multi-indices: on the input the wires of
    `l` then those of `r` in each of the three blocks (classical, quantum, conjugate quantum copy);
    the entry is 1 iff each output block is the wires of `r` followed by the wires of `l`. -/
theorem swap_blocks (l r : CQTy) {xc yc xq yq xp yp zc zq zp : List Nat}
    (hxc : IsIdx l.c xc) (hyc : IsIdx r.c yc) (hxq : IsIdx l.q xq) (hyq : IsIdx r.q yq)
    (hxp : IsIdx l.q xp) (hyp : IsIdx r.q yp)
    (hzc : IsIdx (r.c ++ l.c) zc) (hzq : IsIdx (r.q ++ l.q) zq) (hzp : IsIdx (r.q ++ l.q) zp) :
    (CQMap.swap l r : CQMap R).f
        (flatIdx (l.c ++ r.c) (xc ++ yc)) (flatIdx (l.q ++ r.q) (xq ++ yq))
        (flatIdx (l.q ++ r.q) (xp ++ yp))
        (flatIdx (r.c ++ l.c) zc) (flatIdx (r.q ++ l.q) zq) (flatIdx (r.q ++ l.q) zp) =
      iv (zc = yc ++ xc ∧ zq = yq ++ xq ∧ zp = yp ++ xp) := by
  show (Mat.swap (prodL l.c) (prodL r.c)).f _ _ * (Mat.swap (prodL l.q) (prodL r.q)).f _ _ *
    (Mat.swap (prodL l.q) (prodL r.q)).f _ _ = _
  rw [Mat.swap_wires hxc hyc hzc, Mat.swap_wires hxq hyq hzq, Mat.swap_wires hxp hyp hzp,
    iv_and, iv_and, mul_assoc]

/-- The flattened index of the underlying tensor over `classical @ quantum @ quantum`
    (cqmap.py:128-129) is the model's `flat` of the three block indices. -/
theorem flatIdx_udim (t : CQTy) {ic iq ip : List Nat} (hc : IsIdx t.c ic) (hq : IsIdx t.q iq)
    (_hp : IsIdx t.q ip) :
    flatIdx t.udim (ic ++ iq ++ ip) = flat t.Q (flatIdx t.c ic) (flatIdx t.q iq) (flatIdx t.q ip) := by
  show flatIdx (t.c ++ t.q ++ t.q) (ic ++ iq ++ ip) = _
  rw [flatIdx_append t.q ip (hc.append hq), flatIdx_append t.q iq hc]
  rfl

/-- **cq_swap_utensor**.  The underlying tensor of `CQMap.swap(l, r)` — the `array` numpy holds,
    indexed by one value per wire of `classical @ quantum @ quantum` — is the permutation tensor of
    the block exchange in each of the three blocks. -/
theorem swap_utensor (l r : CQTy) {xc yc xq yq xp yp z : List Nat}
    (hxc : IsIdx l.c xc) (hyc : IsIdx r.c yc) (hxq : IsIdx l.q xq) (hyq : IsIdx r.q yq)
    (hxp : IsIdx l.q xp) (hyp : IsIdx r.q yp) (hz : IsIdx (r.tensor l).udim z) :
    (CQMap.swap l r : CQMap R).toMat.f
        (flatIdx (l.tensor r).udim ((xc ++ yc) ++ (xq ++ yq) ++ (xp ++ yp)))
        (flatIdx (r.tensor l).udim z) =
      iv (z = (yc ++ xc) ++ (yq ++ xq) ++ (yp ++ xp)) := by
  have hz' : IsIdx ((r.c ++ l.c) ++ (r.q ++ l.q) ++ (r.q ++ l.q)) z := hz
  obtain ⟨zcq, zp, rfl, hcq, hzp⟩ := hz'.split
  obtain ⟨zc, zq, rfl, hzc, hzq⟩ := hcq.split
  have hic : IsIdx (l.tensor r).c (xc ++ yc) := hxc.append hyc
  have hiq : IsIdx (l.tensor r).q (xq ++ yq) := hxq.append hyq
  have hip : IsIdx (l.tensor r).q (xp ++ yp) := hxp.append hyp
  have hzc' : IsIdx (r.tensor l).c zc := hzc
  have hzq' : IsIdx (r.tensor l).q zq := hzq
  have hzp' : IsIdx (r.tensor l).q zp := hzp
  rw [flatIdx_udim _ hic hiq hip, flatIdx_udim _ hzc' hzq' hzp']
  have e := toMat_f (CQMap.swap l r : CQMap R)
    (c := flatIdx (l.tensor r).c (xc ++ yc)) (c' := flatIdx (r.tensor l).c zc)
    (flatIdx_lt hiq) (flatIdx_lt hip) (flatIdx_lt hzq') (flatIdx_lt hzp')
  rw [show (CQMap.swap l r : CQMap R).dom = l.tensor r from rfl,
    show (CQMap.swap l r : CQMap R).cod = r.tensor l from rfl] at e
  rw [e]
  show (CQMap.swap l r : CQMap R).f (flatIdx (l.c ++ r.c) _) (flatIdx (l.q ++ r.q) _)
    (flatIdx (l.q ++ r.q) _) (flatIdx (r.c ++ l.c) _) (flatIdx (r.q ++ l.q) _)
    (flatIdx (r.q ++ l.q) _) = _
  rw [swap_blocks l r hxc hyc hxq hyq hxp hyp hzc hzq hzp]
  apply iv_congr
  constructor
  · rintro ⟨rfl, rfl, rfl⟩; rfl
  · intro h
    have hl : (zc ++ zq).length = ((yc ++ xc) ++ (yq ++ xq)).length := by
      simp only [List.length_append, hzc.length, hzq.length, hxc.length, hyc.length,
        hxq.length, hyq.length]
    obtain ⟨e1, e2⟩ := List.append_inj h hl
    have hl2 : zc.length = (yc ++ xc).length := by
      simp only [List.length_append, hzc.length, hxc.length, hyc.length]
    obtain ⟨e3, e4⟩ := List.append_inj e1 hl2
    exact ⟨e3, e4, e2⟩

/-- The size of that tensor: `Π (classical @ quantum @ quantum)` on either side. -/
theorem swap_utensor_shape (l r : CQTy) :
    (CQMap.swap l r : CQMap R).toMat.r = prodL (l.tensor r).udim ∧
    (CQMap.swap l r : CQMap R).toMat.c = prodL (r.tensor l).udim := by
  have h : ∀ t : CQTy, t.size = prodL t.udim := fun t => by
    show prodL t.c * prodL t.q * prodL t.q = prodL (t.c ++ t.q ++ t.q)
    rw [prodL_append, prodL_append]
  exact ⟨h _, h _⟩

end CQMap

end DV.CQ
