/-
  Proofs/Snake.lean — C07: every step of an accepted snake-removal trace is well-typed with the
  input's type, and denotes the same morphism under every rigid functor (a monoidal functor whose
  images of cups and caps satisfy the two snake equations).
-/
import Proofs.Normalize
import Model.Snake

namespace DV

/-! ### Deleting an adjacent pair of layers -/

theorem pySlice_drop_succ2 {α} (xs : List α) (k : Nat) :
    pySlice xs (some ((k : Int) + 1 + 1)) none = xs.drop (k + 2) := by
  have := pySlice_drop xs (k + 2)
  simpa [Int.add_assoc] using this

theorem LArrow.slice_suffix2 {a post : LArrow} {k : Nat} (ha : a.WF) (hk : k + 2 ≤ a.boxes.length)
    (h : a.slice (some ((k : Int) + 1 + 1)) none = .ok post) :
    post.WF ∧ post.cod = a.cod ∧ post.boxes = a.boxes.drop (k + 2) := by
  have e : ((k : Int) + 1 + 1) = ((k + 2 : Nat) : Int) := by omega
  rw [e] at h
  exact LArrow.slice_suffix ha hk (by omega) h

theorem Diagram.removePair_wf {d d' : Diagram} {k : Nat} (hd : d.WF)
    (hk : k + 1 < d.layers.boxes.length)
    (h : d.removePair (k : Int) ((k : Int) + 1) = .ok d') :
    d'.WF ∧ d'.dom = d.dom ∧ d'.cod = d.cod ∧
      d'.layers.boxes = d.layers.boxes.take k ++ d.layers.boxes.drop (k + 2) := by
  unfold Diagram.removePair at h
  split at h
  · rename_i pre post hpre hpost
    split at h
    · cases h
    · rename_i ls hls
      cases h
      obtain ⟨pw, pdom, pboxes⟩ := LArrow.slice_prefix hd.chain (by omega) hpre
      obtain ⟨qw, qcod, qboxes⟩ := LArrow.slice_suffix2 hd.chain (by omega) hpost
      have w := LArrow.then_wf pw qw hls
      obtain ⟨_, rfl⟩ := LArrow.then_ok hls
      refine ⟨⟨?_, ?_, ?_, ?_, w⟩, rfl, rfl, ?_⟩
      · simp [pdom, hd.ldom]
      · simp [qcod, hd.lcod]
      · simp [pboxes, qboxes, hd.boxes, pySlice_take, pySlice_drop_succ2, List.map_take, List.map_drop]
      · simp [pboxes, qboxes, hd.offsets, pySlice_take, pySlice_drop_succ2, List.map_take, List.map_drop]
      · simp [pboxes, qboxes]
  · cases h
  · cases h

/-! ### Rigid functors -/

/-- A rigid functor: a monoidal functor whose images of caps and cups satisfy the snake equations
    (hypotheses of the theorems, not axioms). -/
structure RFunctor {O M : Type} (C : SMC O M) extends MFunctor C where
  /-- `Id(x) @ Cap(y, x) >> Cup(x, y) @ Id(x) = Id(x)` -/
  snake_left : ∀ (capB cupB : Box) (x y : Ob), capB.kind = .cap → cupB.kind = .cup →
    capB.dom = [] → capB.cod = [y, x] → cupB.dom = [x, y] → cupB.cod = [] →
    C.comp (C.tens (C.id ([x].flatMap ob)) (ar capB)) (C.tens (ar cupB) (C.id ([x].flatMap ob)))
      = C.id ([x].flatMap ob)
  /-- `Cap(x, y) @ Id(x) >> Id(x) @ Cup(y, x) = Id(x)` -/
  snake_right : ∀ (capB cupB : Box) (x y : Ob), capB.kind = .cap → cupB.kind = .cup →
    capB.dom = [] → capB.cod = [x, y] → cupB.dom = [y, x] → cupB.cod = [] →
    C.comp (C.tens (ar capB) (C.id ([x].flatMap ob))) (C.tens (C.id ([x].flatMap ob)) (ar cupB))
      = C.id ([x].flatMap ob)

/-- Shapes of the special boxes (what their constructors enforce, rigid.py:338-349, 371-382). -/
def Box.valid (b : Box) : Prop :=
  (b.kind = .cup → b.dom.length = 2 ∧ b.cod = []) ∧ (b.kind = .cap → b.dom = [] ∧ b.cod.length = 2)

section
variable {O M : Type} {C : SMC O M}

/-- `(L ⊗ X ⊗ R) ∘ (L ⊗ Y ⊗ R) = L ⊗ (X ∘ Y) ⊗ R`. -/
theorem SMC.whisker_comp (C : SMC O M) (L R : List O) (X Y : M) (h : C.cod X = C.dom Y) :
    C.comp (C.tens (C.tens (C.id L) X) (C.id R)) (C.tens (C.tens (C.id L) Y) (C.id R)) =
      C.tens (C.tens (C.id L) (C.comp X Y)) (C.id R) := by
  have h1 : C.cod (C.tens (C.id L) X) = C.dom (C.tens (C.id L) Y) := by
    rw [C.cod_tens, C.dom_tens, C.cod_id, C.dom_id, h]
  rw [C.interchange _ _ _ _ h1 (by rw [C.cod_id, C.dom_id]),
      C.interchange _ _ _ _ (by rw [C.cod_id, C.dom_id]) h]
  have e1 : C.comp (C.id L) (C.id L) = C.id L := by
    have := C.id_comp (C.id L); rwa [C.dom_id] at this
  have e2 : C.comp (C.id R) (C.id R) = C.id R := by
    have := C.id_comp (C.id R); rwa [C.dom_id] at this
  rw [e1, e2]

variable (F : RFunctor C)

/-- A cap layer followed by a cup layer joined straight and forming a snake composes to the
    identity, under every rigid functor. -/
theorem RFunctor.yank_left (lb ra : Ty) (capB cupB : Box) (x y : Ob)
    (hk1 : capB.kind = .cap) (hk2 : cupB.kind = .cup) (h1 : capB.dom = []) (h2 : capB.cod = [y, x])
    (h3 : cupB.dom = [x, y]) (h4 : cupB.cod = []) :
    C.comp (F.toMFunctor.layer ⟨lb ++ [x], capB, ra⟩) (F.toMFunctor.layer ⟨lb, cupB, [x] ++ ra⟩) =
      C.id (F.toMFunctor.ty (lb ++ [x] ++ ra)) := by
  have ea : F.toMFunctor.layer ⟨lb ++ [x], capB, ra⟩ =
      C.tens (C.tens (C.id (F.toMFunctor.ty lb)) (C.tens (C.id (F.toMFunctor.ty [x])) (F.ar capB)))
        (C.id (F.toMFunctor.ty ra)) := by
    simp only [MFunctor.layer, MFunctor.ty_append]
    rw [← C.tens_id_id, C.tens_assoc (C.id (F.toMFunctor.ty lb))]
  have eb : F.toMFunctor.layer ⟨lb, cupB, [x] ++ ra⟩ =
      C.tens (C.tens (C.id (F.toMFunctor.ty lb)) (C.tens (F.ar cupB) (C.id (F.toMFunctor.ty [x]))))
        (C.id (F.toMFunctor.ty ra)) := by
    simp only [MFunctor.layer, MFunctor.ty_append]
    rw [← C.tens_id_id (F.toMFunctor.ty [x]), ← C.tens_assoc, ← C.tens_assoc, C.tens_assoc (C.id _) (F.ar cupB)]
  have hty : C.cod (C.tens (C.id (F.toMFunctor.ty [x])) (F.ar capB)) =
      C.dom (C.tens (F.ar cupB) (C.id (F.toMFunctor.ty [x]))) := by
    rw [C.cod_tens, C.dom_tens, C.cod_id, C.dom_id, F.cod_ar, F.dom_ar, h2, h3]
    simp [MFunctor.ty]
  rw [ea, eb, C.whisker_comp _ _ _ _ hty]
  have := F.snake_left capB cupB x y hk1 hk2 h1 h2 h3 h4
  simp only [MFunctor.ty] at this ⊢
  rw [this, C.tens_id_id, C.tens_id_id]
  simp

theorem RFunctor.yank_right (la rb : Ty) (capB cupB : Box) (x y : Ob)
    (hk1 : capB.kind = .cap) (hk2 : cupB.kind = .cup) (h1 : capB.dom = []) (h2 : capB.cod = [x, y])
    (h3 : cupB.dom = [y, x]) (h4 : cupB.cod = []) :
    C.comp (F.toMFunctor.layer ⟨la, capB, [x] ++ rb⟩) (F.toMFunctor.layer ⟨la ++ [x], cupB, rb⟩) =
      C.id (F.toMFunctor.ty (la ++ [x] ++ rb)) := by
  have ea : F.toMFunctor.layer ⟨la, capB, [x] ++ rb⟩ =
      C.tens (C.tens (C.id (F.toMFunctor.ty la)) (C.tens (F.ar capB) (C.id (F.toMFunctor.ty [x]))))
        (C.id (F.toMFunctor.ty rb)) := by
    simp only [MFunctor.layer, MFunctor.ty_append]
    rw [← C.tens_id_id (F.toMFunctor.ty [x]), ← C.tens_assoc, ← C.tens_assoc, C.tens_assoc (C.id _) (F.ar capB)]
  have eb : F.toMFunctor.layer ⟨la ++ [x], cupB, rb⟩ =
      C.tens (C.tens (C.id (F.toMFunctor.ty la)) (C.tens (C.id (F.toMFunctor.ty [x])) (F.ar cupB)))
        (C.id (F.toMFunctor.ty rb)) := by
    simp only [MFunctor.layer, MFunctor.ty_append]
    rw [← C.tens_id_id, C.tens_assoc (C.id (F.toMFunctor.ty la))]
  have hty : C.cod (C.tens (F.ar capB) (C.id (F.toMFunctor.ty [x]))) =
      C.dom (C.tens (C.id (F.toMFunctor.ty [x])) (F.ar cupB)) := by
    rw [C.cod_tens, C.dom_tens, C.cod_id, C.dom_id, F.cod_ar, F.dom_ar, h2, h3]
    simp [MFunctor.ty]
  rw [ea, eb, C.whisker_comp _ _ _ _ hty]
  have := F.snake_right capB cupB x y hk1 hk2 h1 h2 h3 h4
  simp only [MFunctor.ty] at this ⊢
  rw [this, C.tens_id_id, C.tens_id_id]
  simp

end

end DV

namespace DV

/-! ### From the decidable test `yankableAt` to the shape of the two layers -/

theorem length_two {α} {xs : List α} (h : xs.length = 2) : ∃ a b, xs = [a, b] := by
  match xs, h with
  | [a, b], _ => exact ⟨a, b, rfl⟩

theorem length_one {α} {xs : List α} (h : xs.length = 1) : ∃ a, xs = [a] := by
  match xs, h with
  | [a], _ => exact ⟨a, rfl⟩

/-- The two shapes of a yankable pair of layers `a; b`. -/
inductive YankShape (a b : Layer) : Prop
  | left (lb ra : Ty) (x y : Ob) (ha : a = ⟨lb ++ [x], a.box, ra⟩) (hb : b = ⟨lb, b.box, [x] ++ ra⟩)
      (h2 : a.box.cod = [y, x]) (h3 : b.box.dom = [x, y]) : YankShape a b
  | right (la rb : Ty) (x y : Ob) (ha : a = ⟨la, a.box, [x] ++ rb⟩) (hb : b = ⟨la ++ [x], b.box, rb⟩)
      (h2 : a.box.cod = [x, y]) (h3 : b.box.dom = [y, x]) : YankShape a b

theorem yank_shape {a b : Layer} (hc : a.cod = b.dom)
    (hcap : a.box.kind = .cap) (hcup : b.box.kind = .cup) (va : a.box.valid) (vb : b.box.valid)
    (h : ((b.left.length : Int) + 1 = a.left.length ∧ b.box.dom.take 1 = a.box.cod.drop 1) ∨
         ((b.left.length : Int) = a.left.length + 1 ∧ b.box.dom.drop 1 = a.box.cod.take 1)) :
    YankShape a b := by
  obtain ⟨k1, k2, hk⟩ := length_two (va.2 hcap).2
  obtain ⟨c1, c2, hcd⟩ := length_two (vb.1 hcup).1
  cases a with | mk al ab ar =>
  cases b with | mk bl bb br =>
  simp only at hk hcd h hcap hcup
  have hc' : al ++ (ab.cod ++ ar) = bl ++ (bb.dom ++ br) := by
    simpa [Layer.cod, Layer.dom] using hc
  rw [hk, hcd] at hc' h
  rcases h with ⟨hl, ht⟩ | ⟨hl, ht⟩
  · -- left snake
    obtain ⟨s1, s2⟩ := append_split hc'.symm (by omega)
    obtain ⟨z, hz⟩ := length_one (xs := al.drop bl.length) (by simp; omega)
    rw [hz] at s1 s2
    simp at s2 ht
    obtain ⟨rfl, rfl, rfl⟩ := s2
    subst ht
    exact YankShape.left bl ar _ _ (by simp [s1]) (by simp) hk hcd
  · -- right snake
    obtain ⟨s1, s2⟩ := append_split hc' (by omega)
    obtain ⟨z, hz⟩ := length_one (xs := bl.drop al.length) (by simp; omega)
    rw [hz] at s1 s2
    simp at s2 ht
    obtain ⟨rfl, rfl, rfl⟩ := s2
    subst ht
    exact YankShape.right al br _ _ (by simp) (by simp [s1]) hk hcd

section
variable {O M : Type} {C : SMC O M} (F : RFunctor C)

theorem YankShape.sound {a b : Layer} (s : YankShape a b)
    (hcap : a.box.kind = .cap) (hcup : b.box.kind = .cup) (va : a.box.valid) (vb : b.box.valid) :
    C.comp (F.toMFunctor.layer a) (F.toMFunctor.layer b) = C.id (F.toMFunctor.ty a.dom) ∧
    a.dom = b.cod := by
  have d1 := (va.2 hcap).1
  have d2 := (vb.1 hcup).2
  cases s with
  | left lb ra x y ha hb h2 h3 =>
    refine ⟨?_, ?_⟩
    · rw [ha, hb]
      have := F.yank_left lb ra a.box b.box x y hcap hcup d1 h2 h3 d2
      rw [this]; simp [Layer.dom, d1]
    · rw [ha, hb]; simp [Layer.dom, Layer.cod, d1, d2]
  | right la rb x y ha hb h2 h3 =>
    refine ⟨?_, ?_⟩
    · rw [ha, hb]
      have := F.yank_right la rb a.box b.box x y hcap hcup d1 h2 h3 d2
      rw [this]; simp [Layer.dom, d1]
    · rw [ha, hb]; simp [Layer.dom, Layer.cod, d1, d2]

end

end DV

namespace DV

def Diagram.boxesValid (d : Diagram) : Prop := ∀ b ∈ d.boxes, b.valid

/-- What one accepted snake-removal step guarantees (typing part). -/
structure SStepOK (d d' : Diagram) : Prop where
  wf : d'.WF
  dom : d'.dom = d.dom
  cod : d'.cod = d.cod
  valid : d.boxesValid → d'.boxesValid

section
variable {O M : Type} {C : SMC O M} (F : RFunctor C)

theorem yankableAt_spec {d : Diagram} {k : Nat} (hd : d.WF) (hv : d.boxesValid)
    (h : yankableAt d k = true) :
    ∃ a b, d.layers.boxes[k]? = some a ∧ d.layers.boxes[k+1]? = some b ∧
      a.box.kind = .cap ∧ b.box.kind = .cup ∧ a.box.valid ∧ b.box.valid ∧ YankShape a b := by
  unfold yankableAt at h
  split at h
  · rename_i capB cupB capO cupO e0 e1 e2 e3
    have hlen : k + 1 < d.layers.boxes.length := by
      have := (List.getElem?_eq_some_iff.mp e1).1
      rw [hd.boxes] at this; simpa using this
    obtain ⟨a, ea⟩ : ∃ a, d.layers.boxes[k]? = some a := ⟨_, List.getElem?_eq_getElem (by omega)⟩
    obtain ⟨b, eb⟩ : ∃ b, d.layers.boxes[k+1]? = some b := ⟨_, List.getElem?_eq_getElem hlen⟩
    have hA : capB = a.box := by
      have := e0; rw [hd.boxes] at this; simp [ea] at this; exact this.symm
    have hB : cupB = b.box := by
      have := e1; rw [hd.boxes] at this; simp [eb] at this; exact this.symm
    have hAo : capO = a.left.length := by
      have := e2; rw [hd.offsets] at this; simp [ea] at this; exact this.symm
    have hBo : cupO = b.left.length := by
      have := e3; rw [hd.offsets] at this; simp [eb] at this; exact this.symm
    subst hA hB hAo hBo
    simp only [Bool.and_eq_true, Bool.or_eq_true, beq_iff_eq] at h
    obtain ⟨⟨hcap, hcup⟩, hcase⟩ := h
    have va : a.box.valid := hv _ (List.mem_of_getElem? e0)
    have vb : b.box.valid := hv _ (List.mem_of_getElem? e1)
    have hc := chain_adjacent hd.chain ea eb
    refine ⟨a, b, ea, eb, hcap, hcup, va, vb, yank_shape hc hcap hcup va vb ?_⟩
    rcases hcase with ⟨h1, h2⟩ | ⟨h1, h2⟩
    · exact Or.inl ⟨h1, h2⟩
    · exact Or.inr ⟨h1, h2⟩
  · cases h

theorem ystep_ok {d d' : Diagram} (hd : d.WF) (hv : d.boxesValid) (h : ystep d d' = true) :
    SStepOK d d' ∧ F.toMFunctor.eval d' = F.toMFunctor.eval d := by
  unfold ystep at h
  obtain ⟨k, _, hk⟩ := List.any_eq_true.mp h
  simp only [Bool.and_eq_true] at hk
  obtain ⟨hy, hr⟩ := hk
  split at hr
  · rename_i x hx
    have : x = d' := by simpa using hr
    subst this
    obtain ⟨a, b, ea, eb, hcap, hcup, va, vb, shape⟩ := yankableAt_spec hd hv hy
    have hlen : k + 1 < d.layers.boxes.length := (List.getElem?_eq_some_iff.mp eb).1
    have hx' : d.removePair (k : Int) ((k : Int) + 1) = .ok x := by simpa using hx
    obtain ⟨w, hdom, hcod, hboxes⟩ := Diagram.removePair_wf hd hlen hx'
    obtain ⟨hyank, hac⟩ := shape.sound F hcap hcup va vb
    refine ⟨⟨w, hdom, hcod, ?_⟩, ?_⟩
    · intro _ bx hbx
      apply hv
      rw [w.boxes, hboxes] at hbx
      rw [hd.boxes]
      simp only [List.map_append, List.mem_append, List.map_take, List.map_drop] at hbx
      rcases hbx with hbx | hbx
      · exact List.mem_of_mem_take hbx
      · exact List.mem_of_mem_drop hbx
    · -- denotation
      have hsplit := list_split_pair ea eb
      have hchain : Chain d.dom (d.layers.boxes.take k ++ [a, b] ++ d.layers.boxes.drop (k+2)) d.cod := by
        have := hd.chain
        rw [LArrow.WF, hd.ldom, hd.lcod] at this
        rw [← hsplit]; exact this
      obtain ⟨m2, hc1, _⟩ := chain_append.mp hchain
      obtain ⟨m, hpre, hab⟩ := chain_append.mp hc1
      have hma : m = a.dom := hab.1
      obtain ⟨_, hX⟩ := F.toMFunctor.layers_typing hpre
      unfold MFunctor.eval
      rw [hboxes, hdom]
      conv => rhs; rw [hsplit]
      rw [F.toMFunctor.layers_append, F.toMFunctor.layers_append, F.toMFunctor.layers_append]
      congr 1
      simp only [List.foldl_cons, List.foldl_nil]
      rw [C.comp_assoc _ _ _ (by rw [hX, F.toMFunctor.dom_layer, hma])
            (by rw [F.toMFunctor.cod_layer, F.toMFunctor.dom_layer, hab.2.1]),
          hyank, ← hma, ← hX, C.comp_id]
  · cases hr

theorem istep_ok {d d' : Diagram} (hd : d.WF) (h : istep d d' = true) :
    SStepOK d d' ∧ F.toMFunctor.eval d' = F.toMFunctor.eval d := by
  unfold istep at h
  obtain ⟨i, _, hi⟩ := List.any_eq_true.mp h
  obtain ⟨j, _, hj⟩ := List.any_eq_true.mp hi
  simp only [Bool.and_eq_true] at hj
  obtain ⟨_, hr⟩ := hj
  split at hr
  · rename_i x hx
    have : x = d' := by simpa using hr
    subst this
    obtain ⟨w, a, b⟩ := Diagram.interchange_wf hd hx
    have hp := Diagram.interchange_perm hd hx
    exact ⟨⟨w, a, b, fun hv bx hbx => hv bx (hp.mem_iff.mp hbx)⟩,
      Diagram.interchange_sound F.toMFunctor hd hx⟩
  · cases hr

theorem sstep_ok {left : Bool} {d d' : Diagram} (hd : d.WF) (hv : d.boxesValid)
    (h : sstep left d d' = true) :
    SStepOK d d' ∧ F.toMFunctor.eval d' = F.toMFunctor.eval d := by
  unfold sstep at h
  simp only [Bool.or_eq_true] at h
  rcases h with (h | h) | h
  · exact istep_ok F hd h
  · exact ystep_ok F hd hv h
  · have ok := rstep_ok hd h
    exact ⟨⟨ok.wf, ok.dom, ok.cod, fun hv bx hbx => hv bx (ok.perm.mem_iff.mp hbx)⟩,
      ok.exch.sound F.toMFunctor hd⟩

/-- C07 soundness: every diagram of an accepted snake-removal trace (hence every prefix) is
    well-typed, has the input's domain and codomain, and denotes the input's morphism under every
    rigid functor. -/
theorem checkSnakeTrace_ok {left : Bool} {d : Diagram} {steps : List Diagram} {k : Nat}
    (hd : d.WF) (hv : d.boxesValid) (h : checkSnakeTrace left d steps k = none) :
    ∀ s ∈ steps, s.WF ∧ s.dom = d.dom ∧ s.cod = d.cod ∧
      F.toMFunctor.eval s = F.toMFunctor.eval d := by
  induction steps generalizing d k with
  | nil => simp
  | cons s ss ih =>
    simp only [checkSnakeTrace] at h
    split at h
    · rename_i hs
      obtain ⟨ok, e0⟩ := sstep_ok F hd hv hs
      intro t ht
      rcases List.mem_cons.mp ht with rfl | ht
      · exact ⟨ok.wf, ok.dom, ok.cod, e0⟩
      · obtain ⟨a, b, c, e⟩ := ih ok.wf (ok.valid hv) h t ht
        exact ⟨a, b.trans ok.dom, c.trans ok.cod, e.trans e0⟩
    · cases h

end

end DV

namespace DV

/-- `find_snake` is complete over all caps and both legs: when it returns nothing, no cap admits a
    yank on either leg. -/
theorem findSnakeFrom_none {d : Diagram} {fuel start : Nat} (h : findSnakeFrom d fuel start = none) :
    ∀ cap b off, start ≤ cap → cap < start + fuel → d.boxes[cap]? = some b →
      d.offsets[cap]? = some off → b.kind = .cap →
      tryYank d cap b off true = none ∧ tryYank d cap b off false = none := by
  induction fuel generalizing start with
  | zero => intro cap _ _ h1 h2; omega
  | succ fuel ih =>
    intro cap b off h1 h2 hb ho hk
    simp only [findSnakeFrom] at h
    split at h
    · rename_i b0 off0 hb0 ho0
      by_cases hc : cap = start
      · subst hc
        rw [hb] at hb0; rw [ho] at ho0
        cases hb0; cases ho0
        rw [if_pos hk] at h
        split at h
        · cases h
        · rename_i h1'
          split at h
          · cases h
          · rename_i h2'; exact ⟨h1', h2'⟩
      · have hrest : findSnakeFrom d fuel (start + 1) = none := by
          split at h
          · split at h
            · cases h
            · split at h
              · cases h
              · exact h
          · exact h
        exact ih hrest cap b off (by omega) (by omega) hb ho hk
    · rename_i hnone
      -- the lookup at `start` failed, so `start` is out of range; but `cap ≥ start` is in range
      have hlt : cap < d.boxes.length := (List.getElem?_eq_some_iff.mp hb).1
      have hlt2 : cap < d.offsets.length := (List.getElem?_eq_some_iff.mp ho).1
      exfalso
      have hs1 : start < d.boxes.length := by omega
      have hs2 : start < d.offsets.length := by omega
      exact hnone _ _ (List.getElem?_eq_getElem hs1) (List.getElem?_eq_getElem hs2)

end DV
