/-
  Proofs/InterchangeBack.lean — C05: an adjacent interchange can always be taken back.

  After `d.interchangeAdj i left = ok d'` the two exchanged boxes are still free in `d'` (the
  lower one now lies entirely beside the upper one, on the other side), so the opposite request
  `d'.interchangeAdj i left'` succeeds for BOTH preferences: it is never refused with an
  interchanger error and never raises anything else.
-/
import Proofs.Interchange

namespace DV

/-- The exchanged pair of layers sits at positions `i, i+1` of the result. -/
theorem Diagram.interchangeAdj_layers {d d' : Diagram} {i : Nat} {left : Bool} (hd : d.WF)
    (h : d.interchangeAdj i left = .ok d') :
    ∃ l0 l1 y0 y1, d.layers.boxes[i]? = some l0 ∧ d.layers.boxes[i+1]? = some l1 ∧
      d'.layers.boxes[i]? = some y1 ∧ d'.layers.boxes[i+1]? = some y0 ∧
      ExchPair l0 l1 y1 y0 ∧ d'.WF ∧ d'.layers.boxes.length = d.layers.boxes.length ∧
      d'.dom = d.dom ∧ d'.cod = d.cod ∧
      d'.layers.boxes = d.layers.boxes.take i ++ [y1, y0] ++ d.layers.boxes.drop (i + 2) := by
  unfold Diagram.interchangeAdj at h
  split at h
  · rename_i off0 off1 l0 l1 e0 e1 e2 e3
    split at h
    · cases h
    · rename_i o0 o1 y0 y1 hch
      have hlen : i + 1 < d.layers.boxes.length := (List.getElem?_eq_some_iff.mp e3).1
      have ho0 : off0 = l0.left.length := by
        have := hd.offsets
        rw [this] at e0
        simp only [List.getElem?_map, e2, Option.map_some] at e0
        exact (Option.some.inj e0).symm
      have ho1 : off1 = l1.left.length := by
        have := hd.offsets
        rw [this] at e1
        simp only [List.getElem?_map, e3, Option.map_some] at e1
        exact (Option.some.inj e1).symm
      obtain ⟨q0, q1, _, _⟩ := interchangeChoice_offsets ho0 ho1 hch
      obtain ⟨hwf, hdom, hcod, hboxes⟩ := Diagram.splice_wf hd hlen q0 q1 h
      have hadj := chain_adjacent hd.chain e2 e3
      have htake : (d.layers.boxes.take i).length = i := by
        rw [List.length_take]; omega
      refine ⟨l0, l1, y0, y1, e2, e3, ?_, ?_, interchangeChoice_exch hadj ho0 ho1 hch, hwf, ?_,
        hdom, hcod, hboxes⟩
      · rw [hboxes, List.append_assoc, List.getElem?_append_right (by omega), htake]
        simp
      · rw [hboxes, List.append_assoc, List.getElem?_append_right (by omega), htake]
        simp
      · rw [hboxes]
        simp only [List.length_append, List.length_take, List.length_drop, List.length_cons,
          List.length_nil]
        omega
  · cases h

/-- After an adjacent interchange the two boxes are free again (on the other side). -/
theorem Diagram.interchangeAdj_back_free {d d' : Diagram} {i : Nat} {left : Bool} (hd : d.WF)
    (h : d.interchangeAdj i left = .ok d') : freeAt d' i := by
  obtain ⟨l0, l1, y0, y1, _, _, e2, e3, hex, hwf, _, _, _, _⟩ := Diagram.interchangeAdj_layers hd h
  have o0 : d'.offsets[i]? = some (y1.left.length : Int) := by
    rw [hwf.offsets]; simp [e2]
  have o1 : d'.offsets[i+1]? = some (y0.left.length : Int) := by
    rw [hwf.offsets]; simp [e3]
  have b0 : d'.boxes[i]? = some y1.box := by rw [hwf.boxes]; simp [e2]
  have b1 : d'.boxes[i+1]? = some y0.box := by rw [hwf.boxes]; simp [e3]
  refine ⟨_, _, _, _, o0, o1, b0, b1, ?_⟩
  obtain ⟨e, hc | hc⟩ := hex
  · -- the result is `g` first: the upper box `g` lies to the right of the lower box `f`
    simp only [ExchData.fFirst, ExchData.gFirst, Prod.mk.injEq] at hc
    obtain ⟨_, rfl, rfl⟩ := hc
    left
    simp only [List.length_append]
    omega
  · -- the result is `f` first: the upper box `f` lies to the left of the lower box `g`
    simp only [ExchData.fFirst, ExchData.gFirst, Prod.mk.injEq] at hc
    obtain ⟨_, rfl, rfl⟩ := hc
    right
    simp only [List.length_append]
    omega

/-- An adjacent interchange can be taken back with either preference. -/
theorem Diagram.interchangeAdj_back_ok {d d' : Diagram} {i : Nat} {left : Bool} (hd : d.WF)
    (h : d.interchangeAdj i left = .ok d') (left' : Bool) :
    ∃ d'', d'.interchangeAdj i left' = .ok d'' := by
  obtain ⟨l0, l1, y0, y1, _, e1, _, _, _, hwf, hlen, _, _, _⟩ := Diagram.interchangeAdj_layers hd h
  have hi : i + 1 < d'.boxes.length := by
    rw [hwf.boxes, List.length_map, hlen]
    exact (List.getElem?_eq_some_iff.mp e1).1
  exact ((Diagram.interchangeAdj_ok_iff (left := left') hwf hi).1).mpr
    (Diagram.interchangeAdj_back_free hd h)

/-! ### Exact undo -/

/-- A well-typed diagram is determined by its domain, codomain and list of layers. -/
theorem Diagram.WF.ext {d1 d2 : Diagram} (h1 : d1.WF) (h2 : d2.WF) (hdom : d1.dom = d2.dom)
    (hcod : d1.cod = d2.cod) (hl : d1.layers.boxes = d2.layers.boxes) : d1 = d2 := by
  have hb := h1.boxes
  have ho := h1.offsets
  have hld := h1.ldom
  have hlc := h1.lcod
  rw [hl, ← h2.boxes] at hb
  rw [hl, ← h2.offsets] at ho
  rw [hdom, ← h2.ldom] at hld
  rw [hcod, ← h2.lcod] at hlc
  cases d1 with
  | mk dom1 cod1 boxes1 offsets1 layers1 =>
    cases d2 with
    | mk dom2 cod2 boxes2 offsets2 layers2 =>
      cases layers1; cases layers2
      simp only at hdom hcod hl hb ho hld hlc
      subst hdom hcod hl hb ho hld hlc
      rfl

/-- For an exchanged pair there is a preference under which the branch selection, applied to the
    exchanged layers, gives back the original two layers. -/
theorem interchangeChoice_undo {l0 l1 y0 y1 : Layer} (h : ExchPair l0 l1 y1 y0) :
    ∃ left' o0 o1, interchangeChoice left' (y1.left.length : Int) (y0.left.length : Int) y1 y0
      = .ok (o0, o1, l1, l0) := by
  obtain ⟨e, hc | hc⟩ := h
  · -- forward: `f` first became `g` first; back with the default preference (right case)
    simp only [ExchData.fFirst, ExchData.gFirst, Prod.mk.injEq] at hc
    obtain ⟨⟨rfl, rfl⟩, rfl, rfl⟩ := hc
    refine ⟨false, ((e.l ++ e.f.dom ++ e.m).length : Int) - e.f.dom.length + e.f.cod.length,
      (e.l.length : Int), ?_⟩
    unfold interchangeChoice
    simp only [Bool.false_and, Bool.false_eq_true, if_false]
    rw [if_pos (by simp only [List.length_append]; omega)]
    simp only [rightCase]
    have : ((e.l ++ e.f.dom).length : Int) = ((e.l ++ e.f.dom).length : Nat) := rfl
    rw [this, pySlice_drop]
    simp [List.append_assoc]
  · -- forward: `g` first became `f` first; back with the left preference (left case)
    simp only [ExchData.fFirst, ExchData.gFirst, Prod.mk.injEq] at hc
    obtain ⟨⟨rfl, rfl⟩, rfl, rfl⟩ := hc
    refine ⟨true, (e.l.length : Int),
      ((e.l ++ e.f.cod ++ e.m).length : Int) - e.f.cod.length + e.f.dom.length, ?_⟩
    unfold interchangeChoice
    rw [if_pos (by
      simp only [Bool.true_and, decide_eq_true_eq, List.length_append]; omega)]
    simp only [leftCase]
    have : ((e.l ++ e.f.cod).length : Int) = ((e.l ++ e.f.cod).length : Nat) := rfl
    rw [this, pySlice_drop]
    simp [List.append_assoc]

/-- An adjacent interchange is undone exactly by the opposite request under one of the two
    preferences: the receiver comes back field for field (offsets and layers included). -/
theorem Diagram.interchangeAdj_undo {d d' : Diagram} {i : Nat} {left : Bool} (hd : d.WF)
    (h : d.interchangeAdj i left = .ok d') : ∃ left', d'.interchangeAdj i left' = .ok d := by
  obtain ⟨l0, l1, y0, y1, e2, e3, f2, f3, hex, hwf, hlen, hdom, hcod, hboxes⟩ :=
    Diagram.interchangeAdj_layers hd h
  obtain ⟨left', o0, o1, hch⟩ := interchangeChoice_undo hex
  obtain ⟨d'', hd''⟩ := Diagram.interchangeAdj_back_ok hd h left'
  refine ⟨left', ?_⟩
  rw [hd'']
  congr 1
  have p0 : d'.offsets[i]? = some (y1.left.length : Int) := by
    rw [hwf.offsets]; simp [f2]
  have p1 : d'.offsets[i+1]? = some (y0.left.length : Int) := by
    rw [hwf.offsets]; simp [f3]
  have hsp : d'.splice i o0 o1 l1 l0 = .ok d'' := by
    have := hd''
    unfold Diagram.interchangeAdj at this
    simp only [p0, p1, f2, f3, hch] at this
    exact this
  have hlen' : i + 1 < d'.layers.boxes.length := (List.getElem?_eq_some_iff.mp f3).1
  obtain ⟨q0, q1, _, _⟩ := interchangeChoice_offsets rfl rfl hch
  obtain ⟨hwf'', hdom'', hcod'', hboxes''⟩ := Diagram.splice_wf hwf hlen' q0 q1 hsp
  have hi : i + 1 < d.layers.boxes.length := (List.getElem?_eq_some_iff.mp e3).1
  have htake : (d.layers.boxes.take i).length = i := by
    rw [List.length_take]; omega
  apply Diagram.WF.ext hwf'' hd (hdom''.trans hdom) (hcod''.trans hcod)
  rw [hboxes'', hboxes]
  have t1 : (List.take i d.layers.boxes ++ [y1, y0] ++ List.drop (i + 2) d.layers.boxes).take i
      = List.take i d.layers.boxes := by
    rw [List.append_assoc, List.take_append_of_le_length (by omega), List.take_of_length_le (by omega)]
  have t2 : (List.take i d.layers.boxes ++ [y1, y0] ++ List.drop (i + 2) d.layers.boxes).drop (i + 2)
      = List.drop (i + 2) d.layers.boxes := by
    have : i + 2 = (List.take i d.layers.boxes ++ [y1, y0]).length := by
      simp [htake]
    rw [this, List.drop_left]
  rw [t1, t2]
  exact (list_split_pair e2 e3).symm

end DV
