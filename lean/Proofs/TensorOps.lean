/-
  Proofs/TensorOps.lean — entrywise specifications of `Tensor.then/tensor/dagger/id/swap`
  (Model/Tensor.lean, transcribing tensor.py:177-237), for every choice of dimension tuples,
  including the scalar case where the code's arrays have shape `(1,)`.
-/
import Proofs.TensorArray
import Mathlib.Algebra.Star.Basic

namespace DV
open NDArray

/-! ### trailing / leading axes of size one -/

def padShape (m : Nat) : List Nat := List.replicate m 1
def padIdx (m : Nat) : List Nat := List.replicate m 0

@[simp] theorem padShape_length (m : Nat) : (padShape m).length = m := by simp [padShape]
@[simp] theorem padIdx_length (m : Nat) : (padIdx m).length = m := by simp [padIdx]
@[simp] theorem padShape_zero : padShape 0 = [] := rfl
@[simp] theorem padIdx_zero : padIdx 0 = [] := rfl

theorem prod_padShape : ∀ m, prod (padShape m) = 1
  | 0 => rfl
  | m + 1 => by
    have := prod_padShape m
    simp only [padShape] at this
    simp [padShape, List.replicate_succ, prod, this]

theorem inRange_padShape : ∀ m, InRange (padShape m) (padIdx m)
  | 0 => trivial
  | m + 1 => by
    have := inRange_padShape m
    simp only [padShape, padIdx] at this
    simp [padShape, padIdx, List.replicate_succ, this]

theorem flatIdx_padShape : ∀ m, flatIdx (padShape m) (padIdx m) = 0
  | 0 => rfl
  | m + 1 => by
    have := flatIdx_padShape m
    simp only [padShape, padIdx] at this
    simp [padShape, padIdx, List.replicate_succ, flatIdx, this]

/-- Padding a shape with axes of size one (and the index with padIdx) does not move the
    flat position. -/
theorem flatIdx_pad (m n : Nat) {s i : List Nat} (h : i.length = s.length) :
    flatIdx (padShape m ++ s ++ padShape n) (padIdx m ++ i ++ padIdx n) = flatIdx s i := by
  rw [flatIdx_append _ _ (by simp [h]), flatIdx_append _ _ (by simp), prod_padShape, flatIdx_padShape,
    flatIdx_padShape]
  simp

theorem inRange_pad (m n : Nat) {s i : List Nat} (h : InRange s i) :
    InRange (padShape m ++ s ++ padShape n) (padIdx m ++ i ++ padIdx n) :=
  inRange_append (inRange_append (inRange_padShape m) h) (inRange_padShape n)

theorem prod_pad (m n : Nat) (s : List Nat) : prod (padShape m ++ s ++ padShape n) = prod s := by
  simp [prod_append, prod_padShape]

/-- `1` if the tensor is a scalar (its array then has shape `(1,)`), else `0`. -/
def spad (dom cod : List Nat) : Nat := if dom ++ cod = [] then 1 else 0

theorem ashape_eq_padL (dom cod : List Nat) : ashape dom cod = padShape (spad dom cod) ++ (dom ++ cod) := by
  unfold ashape spad
  split <;> simp_all [padShape]

theorem ashape_eq_padR (dom cod : List Nat) : ashape dom cod = (dom ++ cod) ++ padShape (spad dom cod) := by
  unfold ashape spad
  split <;> simp_all [padShape]

namespace Tensor
variable {R : Type}

theorem WF.shape {t : Tensor R} (h : t.WF) : t.arr.shape = ashape t.dom t.cod := h.1

theorem entry_eq_get_padL [Zero R] {t : Tensor R} (h : t.WF) (i : List Nat) :
    t.entry i = t.arr.get (padIdx (spad t.dom t.cod) ++ i) := by
  unfold Tensor.entry NDArray.get
  rw [h.shape, ashape_eq_padL]
  have := flatIdx_append (s := padShape (spad t.dom t.cod)) (i := padIdx (spad t.dom t.cod))
    (t.dom ++ t.cod) i (by simp)
  rw [this, flatIdx_padShape]
  simp

theorem entry_eq_get_padR [Zero R] {t : Tensor R} (h : t.WF) {i : List Nat}
    (hi : i.length = (t.dom ++ t.cod).length) :
    t.entry i = t.arr.get (i ++ padIdx (spad t.dom t.cod)) := by
  unfold Tensor.entry NDArray.get
  rw [h.shape, ashape_eq_padR, flatIdx_append _ _ hi, prod_padShape, flatIdx_padShape]
  simp

/-- Entries of a freshly constructed tensor whose array carries extra axes of size one. -/
theorem entry_mk'_pad [Zero R] (dom cod : List Nat) (a : NDArray R) (m n : Nat)
    (hs : a.shape = padShape m ++ (dom ++ cod) ++ padShape n) {i : List Nat}
    (hi : i.length = (dom ++ cod).length) :
    (mk' dom cod a).entry i = a.get (padIdx m ++ i ++ padIdx n) := by
  unfold Tensor.entry NDArray.get mk' NDArray.reshape
  simp only
  rw [hs, flatIdx_pad m n hi]

theorem prod_ashape (dom cod : List Nat) : prod (ashape dom cod) = prod (dom ++ cod) := by
  rw [ashape_eq_padR, prod_append, prod_padShape, Nat.mul_one]

theorem WF.arr_wf {t : Tensor R} (h : t.WF) : t.arr.WF := by
  unfold NDArray.WF
  rw [h.1, h.2, prod_ashape]

theorem mk'_wf (dom cod : List Nat) (a : NDArray R) (ha : a.WF)
    (hs : prod a.shape = prod (dom ++ cod)) : (mk' dom cod a).WF := by
  refine ⟨rfl, ?_⟩
  simp only [mk', NDArray.reshape]
  rw [ha, hs]

@[simp] theorem mk'_dom (dom cod : List Nat) (a : NDArray R) : (mk' dom cod a).dom = dom := rfl
@[simp] theorem mk'_cod (dom cod : List Nat) (a : NDArray R) : (mk' dom cod a).cod = cod := rfl

/-- Two well-formed tensors with the same type and the same entries are equal. -/
theorem ext_entry [Zero R] {s t : Tensor R} (hs : s.WF) (ht : t.WF) (hd : s.dom = t.dom)
    (hc : s.cod = t.cod)
    (h : ∀ i, InRange (s.dom ++ s.cod) i → s.entry i = t.entry i) : s = t := by
  obtain ⟨sd, sc, ⟨ss, sdata⟩⟩ := s
  obtain ⟨td, tc, ⟨ts, tdata⟩⟩ := t
  simp only at hd hc
  subst hd hc
  have e1 : ss = ts := by
    have a := hs.1
    have b := ht.1
    simp only at a b
    rw [a, b]
  subst e1
  have e2 : sdata = tdata := by
    apply Array.ext
    · rw [hs.2, ht.2]
    · intro k hk1 hk2
      have hk : k < (idxs (sd ++ sc)).length := by
        rw [idxs_length]; have := hs.2; simp only at this; omega
      have hin := mem_idxs.1 (List.getElem_mem hk)
      have hpos : flatIdx (sd ++ sc) (idxs (sd ++ sc))[k] = k := by
        have := map_flatIdx_idxs (sd ++ sc)
        have h2 := congrArg (fun l => l[k]?) this
        simp only [List.getElem?_map, List.getElem?_eq_getElem hk, Option.map_some] at h2
        rw [List.getElem?_range (by rw [idxs_length] at hk; exact hk)] at h2
        exact Option.some.inj h2
      have := h _ hin
      simp only [Tensor.entry, hpos, Array.getD_eq_getD_getElem?, Array.getElem?_eq_getElem hk1,
        Array.getElem?_eq_getElem hk2, Option.getD_some] at this
      exact this
  subst e2
  rfl

end Tensor

/-! ### the list comprehensions of tensor.py as block patterns -/

theorem map_range'_eq {f : Nat → Nat} {s l t : Nat} (h : ∀ j, j < l → f (s + j) = t + j) :
    (List.range' s l).map f = List.range' t l := by
  apply List.ext_getElem
  · simp
  · intro i h1 h2
    simp only [List.length_map, List.length_range'] at h1
    simp [h i h1]

/-- tensor.py:201-204 is the pattern `[A, B, C, D] ↦ [A, C, B, D]`. -/
theorem tensorTarget_eq (a b c d : Nat) :
    Tensor.tensorTarget a b c d = swapTargets 0 a b c d := by
  unfold Tensor.tensorTarget pyRange swapTargets
  have e : a + c + (b + d) - 0 = a + b + c + d := by omega
  rw [e, range'_split4, List.map_append, List.map_append, List.map_append]
  congr 1
  · congr 1
    · congr 1
      · apply map_range'_eq; intro j hj
        have h1 : (0 + j < a ∨ 0 + j ≥ a + b + c) := by omega
        simp only [h1, if_true]
      · apply map_range'_eq; intro j hj
        have h1 : ¬ (0 + a + j < a ∨ 0 + a + j ≥ a + b + c) := by omega
        have h2 : ¬ (0 + a + j ≥ a + b) := by omega
        simp only [h1, h2, if_false]; omega
    · apply map_range'_eq; intro j hj
      have h1 : ¬ (0 + a + b + j < a ∨ 0 + a + b + j ≥ a + b + c) := by omega
      have h2 : 0 + a + b + j ≥ a + b := by omega
      simp only [h1, h2, if_false, if_true]; omega
  · apply map_range'_eq; intro j hj
    have h1 : (0 + a + b + c + j < a ∨ 0 + a + b + c + j ≥ a + b + c) := by omega
    simp only [h1, if_true]

/-- tensor.py:210-211 is the pattern `[A, B] ↦ [B, A]`. -/
theorem daggerTarget_eq (a b : Nat) : Tensor.daggerTarget a b = swapTargets 0 0 a b 0 := by
  unfold Tensor.daggerTarget pyRange swapTargets
  have e : a + b - 0 = a + b := by omega
  rw [e, range'_split, List.map_append]
  simp only [List.range'_zero, List.nil_append, List.append_nil]
  congr 1
  · apply map_range'_eq; intro j hj
    have : 0 + j < a := by omega
    simp only [this, if_true]; omega
  · apply map_range'_eq; intro j hj
    have : ¬ (0 + a + j < a) := by omega
    simp only [this, if_false]; omega

/-- tensor.py:233-235 is the pattern `[L, R, L', R'] ↦ [L, R, R', L']`. -/
theorem swapTarget_eq (l r : Nat) :
    Tensor.swapTarget l r = swapTargets (l + r) 0 l r 0 := by
  unfold Tensor.swapTarget pyRange swapTargets
  have e : 2 * (l + r) - (l + r) = l + r := by omega
  rw [e, range'_split, List.map_append]
  simp only [List.range'_zero, List.nil_append, List.append_nil]
  congr 1
  · apply map_range'_eq; intro j hj
    have : l + r + j < l + r + l := by omega
    simp only [this, if_true]; omega
  · apply map_range'_eq; intro j hj
    have : ¬ (l + r + l + j < l + r + l) := by omega
    simp only [this, if_false]; omega

/-! ### `tensordot` for a contiguous block of contracted axes -/

section
variable {R : Type} [CommSemiring R]

theorem swapOrder_zero_right (p x y : Nat) :
    swapOrder p x y 0 = List.range p ++ List.range' (p + x) y ++ List.range' p x := by
  simp [swapOrder]

theorem isPermOf_range (n : Nat) : IsPermOf n (List.range n) :=
  ⟨by simp, fun p hp => by simpa using hp, fun a ha => by simpa using ha⟩

theorem transpose_range_shape (a : NDArray R) : (a.transpose (List.range a.ndim)).shape = a.shape := by
  rw [transpose_shape]; exact permuteBy_range a.shape

theorem transpose_range_get (a : NDArray R) {y : List Nat} (hy : InRange a.shape y) :
    (a.transpose (List.range a.ndim)).get y = a.get y := by
  have := transpose_get a (isPermOf_range a.ndim) hy
  rw [show a.ndim = y.length from hy.length_eq.symm, permuteBy_range] at this
  rw [show a.ndim = y.length from hy.length_eq.symm]
  exact this

/-- `numpy.tensordot(a, b, (range(|P|, |P|+|C|), range(|C|)))` for `a : P ++ C ++ Q`,
    `b : C ++ D`: the result has axes `P ++ Q ++ D` and contracts the block `C`. -/
theorem tensordotAxes_block (a b : NDArray R) {P C Q D : List Nat}
    (ha : a.shape = P ++ C ++ Q) (hb : b.shape = C ++ D) :
    (tensordotAxes a b (List.range' P.length C.length) (List.range' 0 C.length)).shape
        = P ++ Q ++ D ∧
    ∀ {p q d : List Nat}, InRange P p → InRange Q q → InRange D d →
      (tensordotAxes a b (List.range' P.length C.length) (List.range' 0 C.length)).get
          (p ++ q ++ d)
        = sumOver C (fun j => a.get (p ++ j ++ q) * b.get (j ++ d)) := by
  have hna : a.ndim = P.length + C.length + Q.length := by simp [NDArray.ndim, ha, Nat.add_assoc]
  have hnb : b.ndim = 0 + C.length + D.length := by simp [NDArray.ndim, hb]
  have oa : notin a.ndim (List.range' P.length C.length) ++ List.range' P.length C.length
      = swapOrder P.length C.length Q.length ([] : List Nat).length := by
    unfold notin
    rw [hna, filter_notin_range', List.length_nil, swapOrder_zero_right]
  have ob : List.range' 0 C.length ++ notin b.ndim (List.range' 0 C.length)
      = List.range b.ndim := by
    unfold notin
    rw [hnb, filter_notin_range']
    simp only [List.range_eq_range', List.range'_zero, List.nil_append, Nat.zero_add]
    rw [range'_split 0 C.length D.length, Nat.zero_add]
  have ha' : a.shape = P ++ C ++ Q ++ [] := by simpa using ha
  have hsa : (a.transpose (swapOrder P.length C.length Q.length ([] : List Nat).length)).shape
      = (P ++ Q) ++ C := by
    have := transpose_swapOrder_shape a ha'
    simpa using this
  have hsb : (b.transpose (List.range b.ndim)).shape = C ++ D := by
    rw [transpose_range_shape, hb]
  unfold tensordotAxes
  rw [oa, ob, List.length_range']
  refine ⟨?_, ?_⟩
  · rw [contract_shape _ _ _ hsa hsb rfl]
  · intro p q d hp hq hd
    rw [List.append_assoc p q d, ← List.append_assoc p q d,
      contract_get _ _ _ hsa hsb rfl (inRange_append hp hq) hd]
    apply sumOver_congr
    intro j hj
    have h1 := transpose_swapOrder_get a ha' hp hj hq (q := []) trivial
    simp only [List.append_nil] at h1
    rw [h1, transpose_range_get b (by rw [hb]; exact inRange_append hj hd)]

end

/-! ### entries of `then`, `tensor`, `dagger`, `id`, `swap` -/

namespace Tensor
variable {R : Type} [CommSemiring R]

theorem pyRange_last (n k : Nat) : pyRange (n + k - k) (n + k) = List.range' n k := by
  unfold pyRange
  congr 1 <;> omega

/-- The array of `f >> g`: shape and entries, pads included. -/
theorem tensordot_then (f g : Tensor R) (hf : f.WF) (hg : g.WF) (h : f.cod = g.dom) :
    (NDArray.tensordot f.arr g.arr f.cod.length).shape
        = padShape (spad f.dom f.cod) ++ (f.dom ++ g.cod) ++ padShape (spad g.dom g.cod) ∧
    ∀ {i k : List Nat}, InRange f.dom i → InRange g.cod k →
      (NDArray.tensordot f.arr g.arr f.cod.length).get
          (padIdx (spad f.dom f.cod) ++ (i ++ k) ++ padIdx (spad g.dom g.cod))
        = sumOver f.cod (fun j => f.entry (i ++ j) * g.entry (j ++ k)) := by
  have hsa : f.arr.shape = (padShape (spad f.dom f.cod) ++ f.dom) ++ f.cod ++ [] := by
    rw [hf.shape, ashape_eq_padL]; simp
  have hsb : g.arr.shape = f.cod ++ (g.cod ++ padShape (spad g.dom g.cod)) := by
    rw [hg.shape, ashape_eq_padR, h]; simp
  have hnd : f.arr.ndim = (padShape (spad f.dom f.cod) ++ f.dom).length + f.cod.length := by
    simp [NDArray.ndim, hsa, Nat.add_assoc]
  have := tensordotAxes_block f.arr g.arr hsa hsb
  unfold NDArray.tensordot
  rw [hnd, pyRange_last]
  have e0 : pyRange 0 f.cod.length = List.range' 0 f.cod.length := by simp [pyRange]
  rw [e0]
  refine ⟨by rw [this.1]; simp, ?_⟩
  intro i k hi hk
  have h2 := this.2 (p := padIdx (spad f.dom f.cod) ++ i) (q := []) (d := k ++ padIdx (spad g.dom g.cod))
    (inRange_append (inRange_padShape _) hi) trivial (inRange_append hk (inRange_padShape _))
  simp only [List.append_nil, List.append_assoc] at h2 ⊢
  rw [h2]
  apply sumOver_congr
  intro j hj
  rw [entry_eq_get_padL hf, entry_eq_get_padR hg (by simp [h, hj.length_eq, hk.length_eq])]
  simp [List.append_assoc]

theorem thenCore_wf (f g : Tensor R) (hf : f.WF) (hg : g.WF) (h : f.cod = g.dom) :
    (thenCore f g).WF := by
  apply mk'_wf
  · unfold NDArray.tensordot tensordotAxes contract
    exact ofFn_wf _ _
  · rw [(tensordot_then f g hf hg h).1, prod_pad]

/-- **Composition is matrix multiplication on multi-indices** (tensor.py:177-188). -/
theorem then_entry (f g : Tensor R) (hf : f.WF) (hg : g.WF) (h : f.cod = g.dom)
    {i k : List Nat} (hi : InRange f.dom i) (hk : InRange g.cod k) :
    (thenCore f g).entry (i ++ k)
      = sumOver f.cod (fun j => f.entry (i ++ j) * g.entry (j ++ k)) := by
  unfold thenCore
  rw [entry_mk'_pad _ _ _ _ _ (tensordot_then f g hf hg h).1
    (by simp [hi.length_eq, hk.length_eq])]
  exact (tensordot_then f g hf hg h).2 hi hk

/-! #### moveaxis for the block-exchange pattern -/

theorem moveaxis_blockswap (a : NDArray R) {P W X Y Z Q : List Nat}
    (hs : a.shape = P ++ W ++ X ++ Y ++ Z ++ Q) :
    (a.moveaxis (List.range' P.length (W.length + X.length + Y.length + Z.length))
        (swapTargets P.length W.length X.length Y.length Z.length)).shape
        = (P ++ W) ++ Y ++ X ++ (Z ++ Q) ∧
    ∀ {pw x y zq : List Nat}, InRange (P ++ W) pw → InRange X x → InRange Y y →
      InRange (Z ++ Q) zq →
      (a.moveaxis (List.range' P.length (W.length + X.length + Y.length + Z.length))
        (swapTargets P.length W.length X.length Y.length Z.length)).get (pw ++ y ++ x ++ zq)
        = a.get (pw ++ x ++ y ++ zq) := by
  have hn : a.ndim = P.length + W.length + X.length + Y.length + Z.length + Q.length := by
    simp [NDArray.ndim, hs, Nat.add_assoc]
  have hs' : a.shape = (P ++ W) ++ X ++ Y ++ (Z ++ Q) := by simp [hs, List.append_assoc]
  unfold NDArray.moveaxis
  rw [hn, moveaxisOrder_blockswap]
  have e1 : P.length + W.length = (P ++ W).length := by simp
  have e2 : Z.length + Q.length = (Z ++ Q).length := by simp
  rw [e1, e2]
  exact ⟨transpose_swapOrder_shape a hs', fun hpw hx hy hzq =>
    transpose_swapOrder_get a hs' hpw hx hy hzq⟩

theorem swapOrder_x_zero (p y q : Nat) : swapOrder p 0 y q = List.range (p + y + q) := by
  simp only [swapOrder, List.range'_zero, List.append_nil, Nat.add_zero, List.range_eq_range']
  rw [range'_split 0 (p + y) q, range'_split 0 p y]
  simp

/-- With an empty block `X` the pattern is the identity. -/
theorem moveaxis_blockswap_trivial (a : NDArray R) (y z : Nat) (h : y + z ≤ a.ndim) :
    (a.moveaxis (List.range' 0 (0 + 0 + y + z)) (swapTargets 0 0 0 y z)).shape = a.shape ∧
    ∀ {i : List Nat}, InRange a.shape i →
      (a.moveaxis (List.range' 0 (0 + 0 + y + z)) (swapTargets 0 0 0 y z)).get i = a.get i := by
  have hn : a.ndim = 0 + 0 + 0 + y + z + (a.ndim - y - z) := by omega
  unfold NDArray.moveaxis
  have := moveaxisOrder_blockswap 0 0 0 y z (a.ndim - y - z)
  rw [← hn] at this
  rw [this, swapOrder_x_zero]
  have e : 0 + 0 + y + (z + (a.ndim - y - z)) = a.ndim := by omega
  rw [e]
  exact ⟨transpose_range_shape a, fun hi => transpose_range_get a hi⟩

/-- `tensordot(a, b, 0)`: the outer product. -/
theorem tensordot_zero (a b : NDArray R) :
    (NDArray.tensordot a b 0).shape = a.shape ++ b.shape ∧
    ∀ {x y : List Nat}, InRange a.shape x → InRange b.shape y →
      (NDArray.tensordot a b 0).get (x ++ y) = a.get x * b.get y := by
  have ha : a.shape = a.shape ++ [] ++ [] := by simp
  have hb : b.shape = [] ++ b.shape := by simp
  have := tensordotAxes_block a b (P := a.shape) (C := []) (Q := []) (D := b.shape) ha hb
  unfold NDArray.tensordot
  have e1 : pyRange (a.ndim - 0) a.ndim = List.range' a.shape.length ([] : List Nat).length := by
    simp [pyRange]
  have e2 : pyRange 0 0 = List.range' 0 ([] : List Nat).length := by simp [pyRange]
  rw [e1, e2]
  refine ⟨by rw [this.1]; simp, ?_⟩
  intro x y hx hy
  have h2 := this.2 (p := x) (q := []) (d := y) hx trivial hy
  simp only [List.append_nil, sumOver_nil, List.nil_append] at h2
  exact h2

theorem tensor_pyRange (f g : Tensor R) :
    pyRange 0 ((f.dom ++ g.dom) ++ (f.cod ++ g.cod)).length
      = List.range' 0 (f.dom.length + f.cod.length + g.dom.length + g.cod.length) := by
  unfold pyRange
  congr 1
  simp only [List.length_append]; omega

/-- The array of `f @ g` before the final reshape. -/
theorem tensor_array (f g : Tensor R) (hf : f.WF) (hg : g.WF) :
    ((NDArray.tensordot f.arr g.arr 0).moveaxis
      (pyRange 0 ((f.dom ++ g.dom) ++ (f.cod ++ g.cod)).length)
      (tensorTarget f.dom.length f.cod.length g.dom.length g.cod.length)).shape
      = padShape (spad f.dom f.cod) ++ ((f.dom ++ g.dom) ++ (f.cod ++ g.cod))
          ++ padShape (spad g.dom g.cod) ∧
    ∀ {a b c d : List Nat}, InRange f.dom a → InRange f.cod b → InRange g.dom c →
      InRange g.cod d →
      ((NDArray.tensordot f.arr g.arr 0).moveaxis
        (pyRange 0 ((f.dom ++ g.dom) ++ (f.cod ++ g.cod)).length)
        (tensorTarget f.dom.length f.cod.length g.dom.length g.cod.length)).get
        (padIdx (spad f.dom f.cod) ++ ((a ++ c) ++ (b ++ d)) ++ padIdx (spad g.dom g.cod))
        = f.entry (a ++ b) * g.entry (c ++ d) := by
  rw [tensor_pyRange, tensorTarget_eq]
  have htd := tensordot_zero f.arr g.arr
  have hgs : g.arr.shape = g.dom ++ g.cod ++ padShape (spad g.dom g.cod) := by
    rw [hg.shape, ashape_eq_padR]
  by_cases hsc : f.dom ++ f.cod = []
  · -- `f` is a scalar: its array has shape `[1]`, and the moveaxis is the identity
    have hd : f.dom = [] := (List.append_eq_nil_iff.1 hsc).1
    have hc : f.cod = [] := (List.append_eq_nil_iff.1 hsc).2
    have hsp : spad f.dom f.cod = 1 := by simp [spad, hsc]
    have hfs : f.arr.shape = [1] := by rw [hf.shape]; simp [ashape, hsc]
    have hts : (NDArray.tensordot f.arr g.arr 0).shape
        = [1] ++ (g.dom ++ g.cod ++ padShape (spad g.dom g.cod)) := by
      rw [htd.1, hfs, hgs]
    have hnd : g.dom.length + g.cod.length ≤ (NDArray.tensordot f.arr g.arr 0).ndim := by
      simp [NDArray.ndim, hts]; omega
    have hm := moveaxis_blockswap_trivial (NDArray.tensordot f.arr g.arr 0) g.dom.length
      g.cod.length hnd
    have hsp' : spad [] [] = 1 := rfl
    simp only [hd, hc, hsp', List.length_nil, List.nil_append] at hm ⊢
    refine ⟨by rw [hm.1, hts]; simp [padShape, List.append_assoc], ?_⟩
    intro a b c d ha hb hc' hd'
    have ha' : a = [] := inRange_nil_iff.1 ha
    have hb' : b = [] := inRange_nil_iff.1 hb
    subst ha' hb'
    have hin : InRange (NDArray.tensordot f.arr g.arr 0).shape
        (padIdx 1 ++ (c ++ d) ++ padIdx (spad g.dom g.cod)) := by
      rw [hts]
      have := inRange_pad 1 (spad g.dom g.cod) (inRange_append hc' hd')
      simpa [padShape, List.append_assoc] using this
    simp only [List.nil_append]
    rw [hm.2 hin]
    have hx : InRange f.arr.shape (padIdx 1) := by rw [hfs]; exact inRange_padShape 1
    have hy : InRange g.arr.shape ((c ++ d) ++ padIdx (spad g.dom g.cod)) := by
      rw [hgs]; exact inRange_append (inRange_append hc' hd') (inRange_padShape _)
    have := htd.2 hx hy
    simp only [List.append_assoc] at this ⊢
    rw [this, entry_eq_get_padL hf, entry_eq_get_padR hg (by simp [hc'.length_eq, hd'.length_eq])]
    simp [hsp', hd, hc, List.append_assoc]
  · have hsp : spad f.dom f.cod = 0 := by simp [spad, hsc]
    have hfs : f.arr.shape = f.dom ++ f.cod := by rw [hf.shape]; simp [ashape, hsc]
    have hts : (NDArray.tensordot f.arr g.arr 0).shape
        = [] ++ f.dom ++ f.cod ++ g.dom ++ g.cod ++ padShape (spad g.dom g.cod) := by
      rw [htd.1, hfs, hgs]; simp [List.append_assoc]
    have hm := moveaxis_blockswap (NDArray.tensordot f.arr g.arr 0) hts
    simp only [List.length_nil, List.nil_append] at hm
    have e0 : 0 + f.dom.length + f.cod.length + g.dom.length + g.cod.length
        = f.dom.length + f.cod.length + g.dom.length + g.cod.length := by omega
    simp only [hsp, padShape_zero, padIdx_zero, List.nil_append]
    rw [← e0]
    simp only [Nat.zero_add] at hm ⊢
    refine ⟨by rw [hm.1]; simp [List.append_assoc], ?_⟩
    intro a b c d ha hb hc hd
    have := hm.2 ha hb hc (inRange_append hd (inRange_padShape (spad g.dom g.cod)))
    simp only [List.append_assoc] at this ⊢
    rw [this]
    have hx : InRange f.arr.shape (a ++ b) := by rw [hfs]; exact inRange_append ha hb
    have hy : InRange g.arr.shape ((c ++ d) ++ padIdx (spad g.dom g.cod)) := by
      rw [hgs]; exact inRange_append (inRange_append hc hd) (inRange_padShape _)
    have h2 := htd.2 hx hy
    simp only [List.append_assoc] at h2
    rw [h2, entry_eq_get_padL hf, entry_eq_get_padR hg (by simp [hc.length_eq, hd.length_eq])]
    simp [hsp, List.append_assoc]

theorem tensor_wf (f g : Tensor R) (hf : f.WF) (hg : g.WF) : (f.tensor g).WF := by
  apply mk'_wf
  · unfold NDArray.moveaxis NDArray.transpose
    exact ofFn_wf _ _
  · rw [(tensor_array f g hf hg).1, prod_pad]

/-- **Tensor is the Kronecker product** (tensor.py:190-205): the `target` list realises
    `[A, B, C, D] ↦ [A, C, B, D]` for all block lengths. -/
theorem tensor_entry (f g : Tensor R) (hf : f.WF) (hg : g.WF) {a b c d : List Nat}
    (ha : InRange f.dom a) (hb : InRange f.cod b) (hc : InRange g.dom c) (hd : InRange g.cod d) :
    (f.tensor g).entry ((a ++ c) ++ (b ++ d)) = f.entry (a ++ b) * g.entry (c ++ d) := by
  unfold Tensor.tensor
  rw [entry_mk'_pad _ _ _ _ _ (tensor_array f g hf hg).1
    (by simp [ha.length_eq, hb.length_eq, hc.length_eq, hd.length_eq])]
  exact (tensor_array f g hf hg).2 ha hb hc hd

/-! #### identity -/

theorem id_wf (d : List Nat) : (Tensor.id (R := R) d).WF := by
  apply mk'_wf
  · exact ofFn_wf _ _
  · simp [NDArray.identity, ofFn, prod, prod_append]

/-- **Identities are identity matrices** (tensor.py:214-217). -/
theorem id_entry (d : List Nat) {i j : List Nat} (hi : InRange d i) (hj : InRange d j) :
    (Tensor.id (R := R) d).entry (i ++ j) = if i = j then 1 else 0 := by
  have h1 := flatIdx_lt hi
  have h2 := flatIdx_lt hj
  have hin : InRange [prod d, prod d] [flatIdx d i, flatIdx d j] := by simp [h1, h2]
  have hpos : flatIdx (d ++ d) (i ++ j) = flatIdx [prod d, prod d] [flatIdx d i, flatIdx d j] := by
    rw [flatIdx_append _ _ hi.length_eq]; simp [flatIdx, prod]
  have := ofFn_get (R := R) [prod d, prod d]
    (fun i => if i.getD 0 0 = i.getD 1 0 then 1 else 0) hin
  unfold Tensor.entry Tensor.id mk' NDArray.reshape NDArray.identity
  simp only [hpos]
  unfold NDArray.get at this
  simp only [ofFn] at this ⊢
  rw [this]
  simp only [List.getD_cons_zero, List.getD_cons_succ]
  by_cases h : i = j
  · simp [h]
  · have : flatIdx d i ≠ flatIdx d j := fun e => h (flatIdx_inj hi hj e)
    simp [h, this]

/-! #### dagger -/

end Tensor

/-- Conjugation of a star ring, as the model's `Conj`. -/
instance starConj {R : Type} [Star R] : Conj R := ⟨star⟩

namespace Tensor
variable {R : Type} [CommSemiring R] [StarRing R]

theorem conj_get (a : NDArray R) (i : List Nat) : a.conj.get i = star (a.get i) := by
  unfold NDArray.conj NDArray.get
  simp only [Array.getD_eq_getD_getElem?, Array.getElem?_map]
  cases a.data[flatIdx a.shape i]? <;> simp [Conj.conj]

theorem conj_wf (a : NDArray R) (h : a.WF) : a.conj.WF := by
  simpa [NDArray.WF, NDArray.conj] using h

theorem dagger_pyRange (f : Tensor R) :
    pyRange 0 (f.dom ++ f.cod).length = List.range' 0 (0 + f.dom.length + f.cod.length + 0) := by
  unfold pyRange
  congr 1
  simp

theorem dagger_array (f : Tensor R) (hf : f.WF) :
    (f.arr.moveaxis (pyRange 0 (f.dom ++ f.cod).length)
      (daggerTarget f.dom.length f.cod.length)).shape
      = padShape 0 ++ (f.cod ++ f.dom) ++ padShape (spad f.dom f.cod) ∧
    ∀ {i k : List Nat}, InRange f.dom i → InRange f.cod k →
      (f.arr.moveaxis (pyRange 0 (f.dom ++ f.cod).length)
        (daggerTarget f.dom.length f.cod.length)).get
        (padIdx 0 ++ (k ++ i) ++ padIdx (spad f.dom f.cod)) = f.entry (i ++ k) := by
  have hs : f.arr.shape = [] ++ [] ++ f.dom ++ f.cod ++ [] ++ padShape (spad f.dom f.cod) := by
    rw [hf.shape, ashape_eq_padR]; simp
  have hm := moveaxis_blockswap f.arr hs
  rw [dagger_pyRange, daggerTarget_eq]
  simp only [List.length_nil, List.nil_append, List.append_nil, padShape_zero, padIdx_zero] at hm ⊢
  refine ⟨by rw [hm.1], ?_⟩
  intro i k hi hk
  have := hm.2 (pw := []) trivial hi hk (inRange_padShape (spad f.dom f.cod))
  simp only [List.nil_append] at this
  rw [this, entry_eq_get_padR hf (by simp [hi.length_eq, hk.length_eq])]

theorem dagger_wf (f : Tensor R) (hf : f.WF) : f.dagger.WF := by
  apply mk'_wf
  · apply conj_wf
    unfold NDArray.moveaxis NDArray.transpose
    exact ofFn_wf _ _
  · have : (NDArray.conj (f.arr.moveaxis (pyRange 0 (f.dom ++ f.cod).length)
        (daggerTarget f.dom.length f.cod.length))).shape
        = (f.arr.moveaxis (pyRange 0 (f.dom ++ f.cod).length)
        (daggerTarget f.dom.length f.cod.length)).shape := rfl
    rw [this, (dagger_array f hf).1, prod_pad]

/-- **Dagger is the conjugate transpose** (tensor.py:207-212). -/
theorem dagger_entry (f : Tensor R) (hf : f.WF) {i k : List Nat}
    (hi : InRange f.dom i) (hk : InRange f.cod k) :
    f.dagger.entry (k ++ i) = star (f.entry (i ++ k)) := by
  unfold Tensor.dagger
  have hs : (NDArray.conj (f.arr.moveaxis (pyRange 0 (f.dom ++ f.cod).length)
      (daggerTarget f.dom.length f.cod.length))).shape
      = padShape 0 ++ (f.cod ++ f.dom) ++ padShape (spad f.dom f.cod) := (dagger_array f hf).1
  rw [entry_mk'_pad _ _ _ _ _ hs (by simp [hi.length_eq, hk.length_eq]), conj_get,
    (dagger_array f hf).2 hi hk]

end Tensor

/-! #### swap -/

namespace Tensor
variable {R : Type} [CommSemiring R]

theorem swap_pyRange (l r : List Nat) :
    pyRange (l ++ r).length (2 * (l ++ r).length)
      = List.range' (l ++ r).length (0 + l.length + r.length + 0) := by
  unfold pyRange
  congr 1
  simp; omega

theorem swap_array (l r : List Nat) :
    ((Tensor.id (R := R) (l ++ r)).arr.moveaxis (pyRange (l ++ r).length (2 * (l ++ r).length))
      (swapTarget l.length r.length)).shape
      = padShape 0 ++ ((l ++ r) ++ (r ++ l)) ++ padShape (spad (l ++ r) (l ++ r)) ∧
    ∀ {i j i' j' : List Nat}, InRange l i → InRange r j → InRange r j' → InRange l i' →
      ((Tensor.id (R := R) (l ++ r)).arr.moveaxis (pyRange (l ++ r).length (2 * (l ++ r).length))
        (swapTarget l.length r.length)).get
        (padIdx 0 ++ ((i ++ j) ++ (j' ++ i')) ++ padIdx (spad (l ++ r) (l ++ r)))
        = (Tensor.id (R := R) (l ++ r)).entry ((i ++ j) ++ (i' ++ j')) := by
  have hwf := id_wf (R := R) (l ++ r)
  have hs : (Tensor.id (R := R) (l ++ r)).arr.shape
      = (l ++ r) ++ [] ++ l ++ r ++ [] ++ padShape (spad (l ++ r) (l ++ r)) := by
    rw [hwf.shape, ashape_eq_padR]; simp [Tensor.id, List.append_assoc]
  have hm := moveaxis_blockswap _ hs
  rw [swap_pyRange, swapTarget_eq]
  have e : l.length + r.length = (l ++ r).length := by simp
  rw [e]
  simp only [List.length_nil, List.nil_append, List.append_nil, padShape_zero, padIdx_zero] at hm ⊢
  refine ⟨by rw [hm.1]; simp [List.append_assoc], ?_⟩
  intro i j i' j' hi hj hj' hi'
  have := hm.2 (inRange_append hi hj) hi' hj' (inRange_padShape _)
  simp only [List.append_assoc] at this ⊢
  rw [this]
  have h2 := entry_eq_get_padR hwf (i := (i ++ j) ++ (i' ++ j'))
    (by simp [Tensor.id, hi.length_eq, hj.length_eq, hi'.length_eq, hj'.length_eq])
  simp only [List.append_assoc] at h2
  rw [h2]
  rfl

theorem swap_wf (l r : List Nat) : (Tensor.swap (R := R) l r).WF := by
  apply mk'_wf
  · unfold NDArray.moveaxis NDArray.transpose
    exact ofFn_wf _ _
  · rw [(swap_array l r).1, prod_pad]

/-- **Swaps are the permutation matrices exchanging the two blocks** (tensor.py:230-237). -/
theorem swap_entry (l r : List Nat) {i j j' i' : List Nat}
    (hi : InRange l i) (hj : InRange r j) (hj' : InRange r j') (hi' : InRange l i') :
    (Tensor.swap (R := R) l r).entry ((i ++ j) ++ (j' ++ i'))
      = if i = i' ∧ j = j' then 1 else 0 := by
  unfold Tensor.swap
  rw [entry_mk'_pad _ _ _ _ _ (swap_array l r).1
    (by simp [hi.length_eq, hj.length_eq, hi'.length_eq, hj'.length_eq]),
    (swap_array l r).2 hi hj hj' hi', id_entry _ (inRange_append hi hj) (inRange_append hi' hj')]
  have : i ++ j = i' ++ j' ↔ i = i' ∧ j = j' := by
    constructor
    · intro h
      exact List.append_inj h (by rw [hi.length_eq, hi'.length_eq])
    · rintro ⟨rfl, rfl⟩; rfl
  simp only [this]

end Tensor

end DV
