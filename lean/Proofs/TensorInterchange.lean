/-
  Proofs/TensorInterchange.lean — evaluation is invariant under `Diagram.interchange`
  (rewriting.py:9-78): if the layer-by-layer composite of `d` is defined, the one of
  `d.interchange(i, j, left)` is the same tensor.  Core: `Tensor.layer_exchange`.
-/
import Proofs.TensorFunctor
import Proofs.TensorExchange

namespace DV
namespace TFunctor
open NDArray Tensor

section
variable {R : Type} [CommSemiring R] [StarRing R]

theorem layerFold_append (F : TFunctor R) : ∀ (xs ys : List Layer) (acc : Tensor R),
    F.layerFold acc (xs ++ ys) = match F.layerFold acc xs with
      | .error e => .error e
      | .ok a => F.layerFold a ys
  | [], ys, acc => rfl
  | x :: xs, ys, acc => by
    simp only [List.cons_append, TFunctor.layerFold]
    cases F.layer x with
    | error e => rfl
    | ok t =>
      simp only
      cases acc.then t with
      | error e => rfl
      | ok a => exact layerFold_append F xs ys a

theorem layer_ok (F : TFunctor R) (l : Layer) {t : Tensor R} (h : F.box l.box = .ok t) :
    F.layer l = .ok (layerT (F.ty l.left) (F.ty l.right) t) := by
  unfold TFunctor.layer; rw [h]; rfl

/-- One step of the fold, when it succeeds. -/
theorem layerFold_cons_ok (F : TFunctor R) (acc : Tensor R) (l : Layer) (ls : List Layer)
    {t : Tensor R} (h : F.layerFold acc (l :: ls) = .ok t) :
    ∃ b, F.box l.box = .ok b ∧ acc.cod = (layerT (F.ty l.left) (F.ty l.right) b).dom ∧
      F.layerFold (thenCore acc (layerT (F.ty l.left) (F.ty l.right) b)) ls = .ok t := by
  simp only [TFunctor.layerFold] at h
  cases hb : F.box l.box with
  | error e => rw [TFunctor.layer, hb] at h; cases h
  | ok b =>
    rw [layer_ok F l hb] at h
    simp only at h
    cases ht : acc.then (layerT (F.ty l.left) (F.ty l.right) b) with
    | error e => rw [ht] at h; cases h
    | ok a =>
      rw [ht] at h
      obtain ⟨hc, rfl⟩ := then_eq_ok ht
      exact ⟨b, rfl, hc, h⟩

/-- The fold keeps well-formedness and tracks the type. -/
theorem layerFold_ok_spec (F : TFunctor R) : ∀ (ls : List Layer) (S c : Ty) (acc t : Tensor R),
    Chain S ls c → acc.WF → acc.cod = F.ty S → (∀ l ∈ ls, BoxOK F l.box) →
    F.layerFold acc ls = .ok t → t.WF ∧ t.dom = acc.dom ∧ t.cod = F.ty c
  | [], S, c, acc, t, hch, hw, hc, _, h => by
    have : S = c := hch
    subst this
    cases h
    exact ⟨hw, rfl, hc⟩
  | l :: ls, S, c, acc, t, hch, hw, hc, hbox, h => by
    obtain ⟨hS, hch'⟩ := hch
    obtain ⟨b, hb, hcd, h'⟩ := layerFold_cons_ok F acc l ls h
    obtain ⟨bw, bd, bc⟩ := hbox l (List.mem_cons_self) b hb
    have := layerFold_ok_spec F ls l.cod c _ t hch'
      (thenCore_wf acc _ hw (layerT_wf _ _ b bw) hcd)
      (by rw [thenCore_cod, layerT_cod, bc, ← ty_layer_cod])
      (fun l' hl' => hbox l' (List.mem_cons_of_mem _ hl')) h'
    exact ⟨this.1, this.2.1, this.2.2⟩

/-- Two consecutive layers composed first (associativity). -/
theorem layerFold_two (F : TFunctor R) (acc : Tensor R) (l0 l1 : Layer) (ls : List Layer)
    (f g : Tensor R) (hacc : acc.WF) (hf : f.WF) (hg : g.WF)
    (h0 : F.box l0.box = .ok f) (h1 : F.box l1.box = .ok g)
    (hc0 : acc.cod = (layerT (F.ty l0.left) (F.ty l0.right) f).dom)
    (hc1 : (layerT (F.ty l0.left) (F.ty l0.right) f).cod
      = (layerT (F.ty l1.left) (F.ty l1.right) g).dom) :
    F.layerFold acc (l0 :: l1 :: ls)
      = F.layerFold (thenCore acc (thenCore (layerT (F.ty l0.left) (F.ty l0.right) f)
          (layerT (F.ty l1.left) (F.ty l1.right) g))) ls := by
  simp only [TFunctor.layerFold]
  rw [layer_ok F l0 h0, layer_ok F l1 h1]
  simp only
  rw [then_ok hc0]
  simp only
  rw [then_ok (by rw [thenCore_cod]; exact hc1)]
  simp only
  rw [then_assoc acc _ _ hacc (layerT_wf _ _ f hf) (layerT_wf _ _ g hg) hc0 hc1]

/-- **Exchange of two adjacent layers on disjoint wires leaves the fold unchanged**
    (box `b0` to the left of box `b1`). -/
theorem layerFold_exchange (F : TFunctor R) (acc : Tensor R) (Lt Mt Rt : Ty) (b0 b1 : Box)
    (ls : List Layer) (f g : Tensor R) (hacc : acc.WF)
    (h0 : F.box b0 = .ok f) (h1 : F.box b1 = .ok g) (ok0 : BoxOK F b0) (ok1 : BoxOK F b1)
    (hc : acc.cod = F.ty (Lt ++ b0.dom ++ (Mt ++ b1.dom ++ Rt))) :
    F.layerFold acc (⟨Lt, b0, Mt ++ b1.dom ++ Rt⟩ :: ⟨Lt ++ b0.cod ++ Mt, b1, Rt⟩ :: ls)
      = F.layerFold acc (⟨Lt ++ b0.dom ++ Mt, b1, Rt⟩ :: ⟨Lt, b0, Mt ++ b1.cod ++ Rt⟩ :: ls) := by
  obtain ⟨fw, fd, fc⟩ := ok0 f h0
  obtain ⟨gw, gd, gc⟩ := ok1 g h1
  have t1 : F.ty (Mt ++ b1.dom ++ Rt) = (F.ty Mt ++ g.dom) ++ F.ty Rt := by
    simp [ty_append, gd]
  have t2 : F.ty (Lt ++ b0.cod ++ Mt) = (F.ty Lt ++ f.cod) ++ F.ty Mt := by
    simp [ty_append, fc]
  have t3 : F.ty (Lt ++ b0.dom ++ Mt) = (F.ty Lt ++ f.dom) ++ F.ty Mt := by
    simp [ty_append, fd]
  have t4 : F.ty (Mt ++ b1.cod ++ Rt) = (F.ty Mt ++ g.cod) ++ F.ty Rt := by
    simp [ty_append, gc]
  rw [layerFold_two F acc ⟨Lt, b0, Mt ++ b1.dom ++ Rt⟩ ⟨Lt ++ b0.cod ++ Mt, b1, Rt⟩ ls f g hacc fw gw
      h0 h1 (by rw [hc]; simp [ty_append, fd, gd, List.append_assoc])
      (by simp [ty_append, fc, gd, List.append_assoc]),
    layerFold_two F acc ⟨Lt ++ b0.dom ++ Mt, b1, Rt⟩ ⟨Lt, b0, Mt ++ b1.cod ++ Rt⟩ ls g f hacc gw fw
      h1 h0 (by rw [hc]; simp [ty_append, fd, gd, List.append_assoc])
      (by simp [ty_append, fd, gc, List.append_assoc])]
  simp only
  rw [t1, t2, t3, t4, layer_exchange (F.ty Lt) (F.ty Mt) (F.ty Rt) f g fw gw]

/-! ### the adjacent interchange of rewriting.py:53-78 -/

theorem append_split {α} {A X B Y : List α} (h : A ++ X = B ++ Y) (hl : A.length ≤ B.length) :
    B = A ++ B.drop A.length ∧ X = B.drop A.length ++ Y := by
  have hA : A = B.take A.length := by
    have := congrArg (List.take A.length) h
    rw [List.take_left', List.take_append_of_le_length hl] at this
    · exact this
    · rfl
  have hB : B = A ++ B.drop A.length := by
    conv_lhs => rw [← List.take_append_drop A.length B]
    rw [← hA]
  refine ⟨hB, ?_⟩
  rw [hB, List.append_assoc] at h
  exact List.append_cancel_left h

theorem interchangeChoice_cases {left : Bool} {off0 off1 o0 o1 : Int} {l0 l1 y0 y1 : Layer}
    (h : interchangeChoice left off0 off1 l0 l1 = .ok (o0, o1, y0, y1)) :
    (off1 ≥ off0 + l0.box.cod.length ∧ leftCase off0 off1 l0 l1 = (o0, o1, y0, y1)) ∨
    (off0 ≥ off1 + l1.box.dom.length ∧ rightCase off0 off1 l0 l1 = (o0, o1, y0, y1)) := by
  unfold interchangeChoice at h
  split at h
  · rename_i hc
    simp only [Bool.and_eq_true, decide_eq_true_eq] at hc
    exact Or.inl ⟨hc.2, by cases h; rfl⟩
  · split at h
    · rename_i hc; exact Or.inr ⟨hc, by cases h; rfl⟩
    · split at h
      · rename_i hc; exact Or.inl ⟨hc, by cases h; rfl⟩
      · cases h

theorem getElem?_two_split {α} {xs : List α} {i : Nat} {x y : α}
    (hx : xs[i]? = some x) (hy : xs[i + 1]? = some y) :
    xs = xs.take i ++ (x :: y :: xs.drop (i + 2)) := by
  have h1 := (List.getElem?_eq_some_iff.1 hx)
  have h2 := (List.getElem?_eq_some_iff.1 hy)
  obtain ⟨hi, hxi⟩ := h1
  obtain ⟨hi', hyi⟩ := h2
  conv_lhs => rw [← List.take_append_drop i xs]
  congr 1
  rw [List.drop_eq_getElem_cons hi, hxi, List.drop_eq_getElem_cons (by omega : i + 1 < xs.length), hyi]

/-- The fold over the two exchanged layers, in both cases of rewriting.py:57-73. -/
theorem layerFold_choice (F : TFunctor R) (acc : Tensor R) {left : Bool} {o0 o1 : Int}
    {l0 l1 y0 y1 : Layer} (ls : List Layer) (hacc : acc.WF) (hcod : acc.cod = F.ty l0.dom)
    (hchain : l0.cod = l1.dom) (ok0 : BoxOK F l0.box) (ok1 : BoxOK F l1.box)
    (h : interchangeChoice left (l0.left.length : Int) (l1.left.length : Int) l0 l1
      = .ok (o0, o1, y0, y1))
    {t : Tensor R} (ht : F.layerFold acc (l0 :: l1 :: ls) = .ok t) :
    F.layerFold acc (y1 :: y0 :: ls) = .ok t := by
  obtain ⟨f, hf, _, ht1⟩ := layerFold_cons_ok F acc l0 (l1 :: ls) ht
  obtain ⟨g, hg, _, _⟩ := layerFold_cons_ok F _ l1 ls ht1
  have hch : (l0.left ++ l0.box.cod) ++ l0.right = l1.left ++ (l1.box.dom ++ l1.right) := by
    have := hchain
    simp only [Layer.cod, Layer.dom, List.append_assoc] at this ⊢
    exact this
  rcases interchangeChoice_cases h with ⟨hc, he⟩ | ⟨hc, he⟩
  · -- box0 is to the left of box1
    have hlen : (l0.left ++ l0.box.cod).length ≤ l1.left.length := by
      simp only [List.length_append]; omega
    obtain ⟨e1, e2⟩ := append_split hch hlen
    simp only [leftCase, Prod.mk.injEq] at he
    obtain ⟨_, _, rfl, rfl⟩ := he
    rw [pySlice_drop]
    generalize hM : l1.left.drop (l0.left ++ l0.box.cod).length = Mt at e1 e2
    have hl0 : l0 = ⟨l0.left, l0.box, Mt ++ l1.box.dom ++ l1.right⟩ := by
      cases l0; simp only [Layer.mk.injEq, true_and] at e2 ⊢; rw [e2]; simp
    have hl1 : l1 = ⟨l0.left ++ l0.box.cod ++ Mt, l1.box, l1.right⟩ := by
      cases l1; simp only [Layer.mk.injEq, and_true] at e1 ⊢; exact e1
    rw [hl0, hl1] at ht
    simp only at ht
    rw [← layerFold_exchange F acc l0.left Mt l1.right l0.box l1.box ls f g hacc hf hg ok0 ok1
      (by rw [hcod]; conv_lhs => rw [hl0]
          simp [Layer.dom, List.append_assoc])]
    exact ht
  · -- box0 is to the right of box1
    have hch' : (l1.left ++ l1.box.dom) ++ l1.right = l0.left ++ (l0.box.cod ++ l0.right) := by
      simp only [List.append_assoc] at hch ⊢; exact hch.symm
    have hlen : (l1.left ++ l1.box.dom).length ≤ l0.left.length := by
      simp only [List.length_append]; omega
    obtain ⟨e1, e2⟩ := append_split hch' hlen
    simp only [rightCase, Prod.mk.injEq] at he
    obtain ⟨_, _, rfl, rfl⟩ := he
    rw [pySlice_drop]
    generalize hM : l0.left.drop (l1.left ++ l1.box.dom).length = Mt at e1 e2
    have hl0 : l0 = ⟨l1.left ++ l1.box.dom ++ Mt, l0.box, l0.right⟩ := by
      cases l0; simp only [Layer.mk.injEq, and_true] at e1 ⊢; exact e1
    have hl1 : l1 = ⟨l1.left, l1.box, Mt ++ l0.box.cod ++ l0.right⟩ := by
      cases l1; simp only [Layer.mk.injEq, true_and] at e2 ⊢; rw [e2]; simp
    rw [hl0, hl1] at ht
    simp only at ht
    rw [layerFold_exchange F acc l1.left Mt l0.right l1.box l0.box ls g f hacc hg hf ok1 ok0
      (by rw [hcod]; conv_lhs => rw [hl0]
          simp [Layer.dom, List.append_assoc])]
    exact ht

/-- **One adjacent interchange does not change the evaluation**, and keeps the boxes. -/
theorem layerwise_interchangeAdj (F : TFunctor R) {d d' : Diagram} {i : Nat} {left : Bool}
    (hwf : d.WF) (hbox : ∀ b ∈ d.boxes, BoxOK F b) (h : d.interchangeAdj i left = .ok d') :
    (∀ b ∈ d'.boxes, b ∈ d.boxes) ∧
    ∀ t, F.layerwise d = .ok t → F.layerwise d' = .ok t := by
  unfold Diagram.interchangeAdj at h
  split at h
  · rename_i off0 off1 l0 l1 e0 e1 e2 e3
    split at h
    · cases h
    · rename_i o0 o1 y0 y1 hch
      have hlen : i + 1 < d.layers.boxes.length := (List.getElem?_eq_some_iff.mp e3).1
      have ho0 : off0 = l0.left.length := by
        have := hwf.offsets
        rw [this] at e0
        simp only [List.getElem?_map, e2, Option.map_some] at e0
        exact (Option.some.inj e0).symm
      have ho1 : off1 = l1.left.length := by
        have := hwf.offsets
        rw [this] at e1
        simp only [List.getElem?_map, e3, Option.map_some] at e1
        exact (Option.some.inj e1).symm
      obtain ⟨q0, q1, b0, b1⟩ := interchangeChoice_offsets ho0 ho1 hch
      obtain ⟨w', hdom', _, hboxes'⟩ := Diagram.splice_wf hwf hlen q0 q1 h
      have hsplit := getElem?_two_split e2 e3
      have hmem0 : l0 ∈ d.layers.boxes := List.mem_of_getElem? e2
      have hmem1 : l1 ∈ d.layers.boxes := List.mem_of_getElem? e3
      have hbl : ∀ l ∈ d.layers.boxes, BoxOK F l.box := fun l hl =>
        hbox _ (by rw [hwf.boxes]; exact List.mem_map_of_mem hl)
      refine ⟨?_, ?_⟩
      · -- the boxes are permuted
        intro b hb
        rw [w'.boxes, hboxes'] at hb
        rw [hwf.boxes]
        simp only [List.map_append, List.map_cons, List.map_nil, List.mem_append, List.mem_cons,
          List.mem_map, List.not_mem_nil, or_false] at hb
        rcases hb with (⟨l, hl, rfl⟩ | hb | hb) | ⟨l, hl, rfl⟩
        · exact List.mem_map_of_mem (List.mem_of_mem_take hl)
        · rw [hb, b1]; exact List.mem_map_of_mem hmem1
        · rw [hb, b0]; exact List.mem_map_of_mem hmem0
        · exact List.mem_map_of_mem (List.mem_of_mem_drop hl)
      · intro t ht
        unfold TFunctor.layerwise at ht ⊢
        rw [hdom', hboxes']
        rw [hsplit, layerFold_append] at ht
        rw [List.append_assoc, layerFold_append]
        -- the chain splits at position i
        have hchain : Chain d.dom d.layers.boxes d.cod := by
          have := hwf.chain
          unfold LArrow.WF at this
          rw [hwf.ldom, hwf.lcod] at this
          exact this
        obtain ⟨m, hc1, hc2⟩ := chain_take_drop i hchain
        have hdrop : d.layers.boxes.drop i = l0 :: l1 :: d.layers.boxes.drop (i + 2) := by
          conv_lhs => rw [hsplit]
          rw [List.drop_left' (by simp; omega)]
        rw [hdrop] at hc2
        obtain ⟨hm, hc3⟩ := hc2
        obtain ⟨hcl, _⟩ := hc3
        cases hpre : F.layerFold (Tensor.id (F.ty d.dom)) (d.layers.boxes.take i) with
        | error e => rw [hpre] at ht; cases ht
        | ok a =>
          rw [hpre] at ht
          simp only at ht ⊢
          obtain ⟨aw, _, ac⟩ := layerFold_ok_spec F _ d.dom m _ a hc1 (id_wf _) rfl
            (fun l hl => hbl l (List.mem_of_mem_take hl)) hpre
          rw [ho0, ho1] at hch
          exact layerFold_choice F a _ aw (by rw [ac, hm]) hcl (hbl l0 hmem0) (hbl l1 hmem1) hch ht
  · cases h

/-! ### `interchange(i, j)` and `normal_form` are sequences of adjacent interchanges -/

/-- `d'` is well-typed, has (some of) the boxes of `d`, and evaluates to the same tensor. -/
def Pres (F : TFunctor R) (d d' : Diagram) : Prop :=
  d'.WF ∧ (∀ b ∈ d'.boxes, b ∈ d.boxes) ∧ ∀ t, F.layerwise d = .ok t → F.layerwise d' = .ok t

theorem Pres.refl (F : TFunctor R) {d : Diagram} (hd : d.WF) : Pres F d d :=
  ⟨hd, fun _ h => h, fun _ h => h⟩

theorem Pres.trans {F : TFunctor R} {d d' d'' : Diagram} (h1 : Pres F d d') (h2 : Pres F d' d'') :
    Pres F d d'' :=
  ⟨h2.1, fun b hb => h1.2.1 b (h2.2.1 b hb), fun t ht => h2.2.2 t (h1.2.2 t ht)⟩

theorem pres_interchangeAdj (F : TFunctor R) {d d' : Diagram} {i : Nat} {left : Bool}
    (hwf : d.WF) (hbox : ∀ b ∈ d.boxes, BoxOK F b) (h : d.interchangeAdj i left = .ok d') :
    Pres F d d' :=
  ⟨(Diagram.interchangeAdj_wf hwf h).1, (layerwise_interchangeAdj F hwf hbox h).1,
    (layerwise_interchangeAdj F hwf hbox h).2⟩

theorem pres_interchangeDown (F : TFunctor R) {left : Bool} {n i : Nat} {d d' : Diagram}
    (hd : d.WF) (hbox : ∀ b ∈ d.boxes, BoxOK F b) (h : interchangeDown left n i d = .ok d') :
    Pres F d d' := by
  induction n generalizing i d with
  | zero => simp [interchangeDown] at h; subst h; exact Pres.refl F hd
  | succ n ih =>
    simp only [interchangeDown] at h
    split at h
    · cases h
    · rename_i d1 hd1
      have p1 := pres_interchangeAdj F hd hbox hd1
      exact p1.trans (ih p1.1 (fun b hb => hbox b (p1.2.1 b hb)) h)

theorem pres_interchangeUp (F : TFunctor R) {left : Bool} {n i : Nat} {d d' : Diagram}
    (hd : d.WF) (hbox : ∀ b ∈ d.boxes, BoxOK F b) (h : interchangeUp left n i d = .ok d') :
    Pres F d d' := by
  induction n generalizing i d with
  | zero => simp [interchangeUp] at h; subst h; exact Pres.refl F hd
  | succ n ih =>
    simp only [interchangeUp] at h
    split at h
    · cases h
    · split at h
      · cases h
      · rename_i d1 hd1
        have p1 := pres_interchangeAdj F hd hbox hd1
        exact p1.trans (ih p1.1 (fun b hb => hbox b (p1.2.1 b hb)) h)

/-- **`d.interchange(i, j, left)` evaluates to the same tensor as `d`.** -/
theorem pres_interchange (F : TFunctor R) {d d' : Diagram} {i j : Int} {left : Bool}
    (hd : d.WF) (hbox : ∀ b ∈ d.boxes, BoxOK F b) (h : d.interchange i j left = .ok d') :
    Pres F d d' := by
  unfold Diagram.interchange at h
  split at h
  · cases h
  · split at h
    · cases h; exact Pres.refl F hd
    · split at h
      · exact pres_interchangeUp F hd hbox h
      · exact pres_interchangeDown F hd hbox h

theorem pres_normalizePass (F : TFunctor R) {left : Bool} {n i : Nat} {d d' : Diagram}
    {acc steps : List Diagram} (hd : d.WF) (hbox : ∀ b ∈ d.boxes, BoxOK F b)
    (h : normalizePass left n i d acc = .ok (d', steps)) : Pres F d d' := by
  induction n generalizing i d acc with
  | zero =>
    simp only [normalizePass, Except.ok.injEq, Prod.mk.injEq] at h
    obtain ⟨rfl, _⟩ := h
    exact Pres.refl F hd
  | succ n ih =>
    simp only [normalizePass] at h
    split at h
    · split at h
      · cases h
      · rename_i d1 hd1
        have p1 := pres_interchange F hd hbox hd1
        exact p1.trans (ih p1.1 (fun b hb => hbox b (p1.2.1 b hb)) h)
    · exact ih hd hbox h

theorem pres_normalFormLoop (F : TFunctor R) {left : Bool} {fuel : Nat} {d d' : Diagram}
    {cache : List Diagram} (hd : d.WF) (hbox : ∀ b ∈ d.boxes, BoxOK F b)
    (h : normalFormLoop left fuel d cache = .ok d') : Pres F d d' := by
  induction fuel generalizing d cache with
  | zero => simp [normalFormLoop] at h
  | succ fuel ih =>
    simp only [normalFormLoop] at h
    split at h
    · cases h
    · rename_i d1 steps hpass
      have p1 := pres_normalizePass F hd hbox hpass
      split at h
      · cases h; exact Pres.refl F hd
      · split at h
        · cases h
        · exact p1.trans (ih p1.1 (fun b hb => hbox b (p1.2.1 b hb)) h)

/-- **`d.normal_form(left=…)` evaluates to the same tensor as `d`.** -/
theorem pres_normalForm (F : TFunctor R) {d d' : Diagram} {left : Bool} {fuel : Nat}
    (hd : d.WF) (hbox : ∀ b ∈ d.boxes, BoxOK F b) (h : d.normalForm left fuel = .ok d') :
    Pres F d d' :=
  pres_normalFormLoop F hd hbox h

end
end TFunctor
end DV
