/-
  Proofs/NxEdges.lean — from the edge LIST of a graph to what `nx2diagram` reads of it.
  Both graphs handed to `nx2diagram` (by `diagramize`, by `diagram2nx`) have the edge list
      for each box k:  wire_i → dom k i,  dom k i → box k   (i = 0 … m-1),   box k → cod k i
  followed by edges into output nodes.  `readsAll_of_view` turns that description into `ReadsAll`.
-/
import Proofs.Nx2Diagram

namespace DV.Dz
open DV

/-! ### The canonical edges of one box -/

/-- drawing.py:866-872 / 113-119: the edges of the `dom` ports `i, i+1, …` of box node `bn`. -/
def domEdges (bn : GNode) (k : Nat) : Nat → List Ob → List GNode → List (GNode × GNode)
  | i, o :: os, w :: ws => (w, .dom o i k) :: (.dom o i k, bn) :: domEdges bn k (i + 1) os ws
  | _, _, _ => []

/-- drawing.py:873-877 / 120-128. -/
def codEdges (bn : GNode) (k : Nat) (cod : Ty) : List (GNode × GNode) :=
  (codNodes cod k).map (fun v => (bn, v))

def stepEdges (k : Nat) (b : Box) (a : OffAttr) (ws : List GNode) : List (GNode × GNode) :=
  domEdges (.box b k a) k 0 b.dom ws ++ codEdges (.box b k a) k b.cod

/-- The edges of boxes `k, k+1, …` taking the blocks at `offs` of the open wires. -/
def stepsEdges : List GNode → Nat → List (Box × OffAttr) → List Nat → List (GNode × GNode)
  | scan, k, s :: r, off :: offs =>
    stepEdges k s.1 s.2 ((scan.drop off).take s.1.dom.length)
      ++ stepsEdges (nextOpen scan off s.1.dom.length s.1.cod k) (k + 1) r offs
  | _, _, _, _ => []

/-- The part of `ReadsAll` that does not mention the graph. -/
def PlanarSteps : List GNode → Nat → List (Box × OffAttr) → List Nat → List GNode → Prop
  | scan, _, [], [], fin => scan = fin
  | scan, k, s :: r, off :: offs, fin =>
    off + s.1.dom.length ≤ scan.length
      ∧ ((scan.drop off).take s.1.dom.length).map GNode.obj? = s.1.dom.map some
      ∧ (s.1.dom = [] → s.2.get = some (off : Int))
      ∧ PlanarSteps (nextOpen scan off s.1.dom.length s.1.cod k) (k + 1) r offs fin
  | _, _, _, _, _ => False

/-- The edge neither enters a `dom` port of box `k` nor leaves box node `k`. -/
def Avoids (k : Nat) (e : GNode × GNode) : Prop :=
  (∀ o j, e.2 ≠ .dom o j k) ∧ (∀ b a, e.1 ≠ .box b k a)

/-- `g` shows the edge list `L` to `in_edges` / `out_edges` (equal up to repetitions that a
    filter would not see) and holds the targets of `L` as nodes. -/
structure EdgeView (g : NxGraph) (L : List (GNode × GNode)) : Prop where
  filter : ∀ p : GNode × GNode → Bool, (L.filter p).Nodup → g.edges.filter p = L.filter p
  nodes : ∀ e ∈ L, e.2 ∈ g.nodes

theorem mem_domEdges {bn : GNode} {k : Nat} {os : List Ob} {ws : List GNode} {i0 : Nat}
    {e : GNode × GNode} (h : e ∈ domEdges bn k i0 os ws) :
    (∃ o j w, i0 ≤ j ∧ w ∈ ws ∧ e = (w, .dom o j k)) ∨ (∃ o j, i0 ≤ j ∧ e = (.dom o j k, bn)) := by
  induction os generalizing ws i0 with
  | nil => simp [domEdges] at h
  | cons o os ih =>
    cases ws with
    | nil => simp [domEdges] at h
    | cons w ws =>
      simp only [domEdges, List.mem_cons] at h
      rcases h with rfl | rfl | h
      · exact Or.inl ⟨o, i0, w, Nat.le_refl _, by simp, rfl⟩
      · exact Or.inr ⟨o, i0, Nat.le_refl _, rfl⟩
      · rcases ih h with ⟨o', j, w', hj, hw, rfl⟩ | ⟨o', j, hj, rfl⟩
        · exact Or.inl ⟨o', j, w', by omega, by simp [hw], rfl⟩
        · exact Or.inr ⟨o', j, by omega, rfl⟩

theorem domEdges_filter_tgt {bn : GNode} (hbn : bn.isBox = true) (k : Nat) :
    ∀ (os : List Ob) (ws : List GNode) (i0 j : Nat) (o : Ob) (w : GNode),
      os[j]? = some o → ws[j]? = some w →
      (domEdges bn k i0 os ws).filter (fun e => decide (e.2 = .dom o (i0 + j) k))
        = [(w, .dom o (i0 + j) k)] := by
  intro os
  induction os with
  | nil => intro ws i0 j o w h; simp at h
  | cons o0 os ih =>
    intro ws i0 j o w ho hw
    cases ws with
    | nil => simp at hw
    | cons w0 ws =>
      have hbn' : ∀ o' j', bn ≠ GNode.dom o' j' k := by
        intro o' j' e; rw [e] at hbn; simp [GNode.isBox] at hbn
      cases j with
      | zero =>
        simp only [List.getElem?_cons_zero, Option.some.injEq] at ho hw
        subst ho; subst hw
        have hrest : (domEdges bn k (i0 + 1) os ws).filter
            (fun e => decide (e.2 = GNode.dom o0 (i0 + 0) k)) = [] := by
          rw [List.filter_eq_nil_iff]
          intro e he
          rcases mem_domEdges he with ⟨o', j, w', hj, -, rfl⟩ | ⟨o', j, hj, rfl⟩
          · simp; omega
          · simpa using hbn' _ _
        simp only [domEdges, List.filter_cons, hrest]
        simp [hbn']
      | succ j =>
        simp only [List.getElem?_cons_succ] at ho hw
        have := ih ws (i0 + 1) j o w ho hw
        have e : i0 + 1 + j = i0 + (j + 1) := by omega
        rw [e] at this
        simp only [domEdges, List.filter_cons, this]
        have h1 : ¬ (GNode.dom o0 i0 k = GNode.dom o (i0 + (j + 1)) k) := by
          intro h; injection h with _ h2 _; omega
        simp [h1, hbn']

theorem domEdges_filter_tgt_other {bn : GNode} {k : Nat} {os : List Ob} {ws : List GNode} {i0 : Nat}
    (v : GNode) (hv : v ≠ bn) (hv' : ∀ o j, v ≠ .dom o j k) :
    (domEdges bn k i0 os ws).filter (fun e => decide (e.2 = v)) = [] := by
  rw [List.filter_eq_nil_iff]
  intro e he
  rcases mem_domEdges he with ⟨o', j, w', -, -, rfl⟩ | ⟨o', j, -, rfl⟩
  · simpa using (hv' _ _).symm
  · simpa using hv.symm

theorem domEdges_filter_src {bn : GNode} {k : Nat} {os : List Ob} {ws : List GNode} {i0 : Nat}
    (hbn : bn.isBox = true) (hws : ∀ w ∈ ws, w.isBox = false) :
    (domEdges bn k i0 os ws).filter (fun e => decide (e.1 = bn)) = [] := by
  rw [List.filter_eq_nil_iff]
  intro e he
  rcases mem_domEdges he with ⟨o', j, w', -, hw, rfl⟩ | ⟨o', j, -, rfl⟩
  · have := hws _ hw
    simp only [decide_eq_true_eq]
    intro e; rw [e, hbn] at this; cases this
  · simp only [decide_eq_true_eq]
    intro e; rw [← e] at hbn; simp [GNode.isBox] at hbn

theorem codEdges_filter_src (bn : GNode) (k : Nat) (cod : Ty) :
    (codEdges bn k cod).filter (fun e => decide (e.1 = bn)) = codEdges bn k cod := by
  rw [List.filter_eq_self]
  intro e he
  simp only [codEdges, List.mem_map] at he
  obtain ⟨v, -, rfl⟩ := he
  simp

theorem codEdges_filter_tgt_dom (bn : GNode) (k : Nat) (cod : Ty) (o : Ob) (j k' : Nat) :
    (codEdges bn k cod).filter (fun e => decide (e.2 = .dom o j k')) = [] := by
  rw [List.filter_eq_nil_iff]
  intro e he
  simp only [codEdges, List.mem_map] at he
  obtain ⟨v, hv, rfl⟩ := he
  obtain ⟨o', i, rfl, -⟩ := mem_codNodes hv
  simp

theorem codEdges_nodup (bn : GNode) (k : Nat) (cod : Ty) : (codEdges bn k cod).Nodup := by
  unfold codEdges
  rw [List.Nodup, List.pairwise_map]
  exact (codNodes_nodup cod k).imp (fun h e => h (by injection e))

theorem codEdges_map_snd (bn : GNode) (k : Nat) (cod : Ty) :
    (codEdges bn k cod).map (·.2) = codNodes cod k := by
  simp [codEdges, Function.comp_def]

theorem filter_avoid_tgt {l : List (GNode × GNode)} {k : Nat} (h : ∀ e ∈ l, Avoids k e) (o : Ob)
    (j : Nat) : l.filter (fun e => decide (e.2 = .dom o j k)) = [] := by
  rw [List.filter_eq_nil_iff]
  intro e he
  simpa using (h e he).1 o j

theorem filter_avoid_src {l : List (GNode × GNode)} {k : Nat} (h : ∀ e ∈ l, Avoids k e) (b : Box)
    (a : OffAttr) : l.filter (fun e => decide (e.1 = .box b k a)) = [] := by
  rw [List.filter_eq_nil_iff]
  intro e he
  simpa using (h e he).2 b a

/-! ### One box -/

theorem reads_of_view {g : NxGraph} {pre post : List (GNode × GNode)} {scan : List GNode}
    {k : Nat} {b : Box} {a : OffAttr} {off : Nat}
    (hv : EdgeView g (pre ++ stepEdges k b a ((scan.drop off).take b.dom.length) ++ post))
    (hpre : ∀ e ∈ pre, Avoids k e) (hpost : ∀ e ∈ post, Avoids k e)
    (hrange : off + b.dom.length ≤ scan.length)
    (htypes : ((scan.drop off).take b.dom.length).map GNode.obj? = b.dom.map some)
    (hattr : b.dom = [] → a.get = some (off : Int))
    (hscan : ∀ v ∈ scan, v.isBox = false) : Reads g scan k b a off := by
  have hws : ∀ w ∈ (scan.drop off).take b.dom.length, w.isBox = false := fun w hw =>
    hscan w (List.mem_of_mem_drop (List.mem_of_mem_take hw))
  refine ⟨hrange, htypes, ?_, hattr, ?_⟩
  · intro i o w ho hw
    have hi : i < b.dom.length := by
      rcases Nat.lt_or_ge i b.dom.length with h' | h'
      · exact h'
      · rw [List.getElem?_eq_none h'] at ho; cases ho
    have hw' : ((scan.drop off).take b.dom.length)[i]? = some w := by
      rw [List.getElem?_take_of_lt hi, List.getElem?_drop]; exact hw
    have hf : (pre ++ stepEdges k b a ((scan.drop off).take b.dom.length) ++ post).filter
        (fun e => decide (e.2 = GNode.dom o i k)) = [(w, GNode.dom o i k)] := by
      have := domEdges_filter_tgt (bn := .box b k a) rfl k b.dom _ 0 i o w ho hw'
      simp only [Nat.zero_add] at this
      simp only [List.filter_append, stepEdges, filter_avoid_tgt hpre, filter_avoid_tgt hpost,
        this, codEdges_filter_tgt_dom]
      rfl
    have hmem : GNode.dom o i k ∈ g.nodes := by
      apply hv.nodes (w, GNode.dom o i k)
      have : (w, GNode.dom o i k) ∈ (pre ++ stepEdges k b a ((scan.drop off).take b.dom.length)
          ++ post).filter (fun e => decide (e.2 = GNode.dom o i k)) := by rw [hf]; simp
      exact (List.mem_filter.mp this).1
    unfold NxGraph.inEdges
    rw [if_pos hmem, hv.filter _ (by rw [hf]; simp), hf]
    rfl
  · have hf : (pre ++ stepEdges k b a ((scan.drop off).take b.dom.length) ++ post).filter
        (fun e => decide (e.1 = GNode.box b k a)) = codEdges (.box b k a) k b.cod := by
      simp only [List.filter_append, stepEdges, filter_avoid_src hpre, filter_avoid_src hpost,
        domEdges_filter_src (bn := .box b k a) rfl hws, codEdges_filter_src]
      simp
    unfold NxGraph.succ
    rw [hv.filter _ (by rw [hf]; exact codEdges_nodup _ _ _), hf, codEdges_map_snd]

/-! ### All boxes -/

theorem stepEdges_avoids {k j : Nat} {b : Box} {a : OffAttr} {ws : List GNode}
    (hws : ∀ w ∈ ws, w.isBox = false) (hj : j ≠ k) : ∀ e ∈ stepEdges k b a ws, Avoids j e := by
  intro e he
  simp only [stepEdges, List.mem_append] at he
  rcases he with he | he
  · rcases mem_domEdges he with ⟨o', i, w', -, hw, rfl⟩ | ⟨o', i, -, rfl⟩
    · refine ⟨fun o i' e => ?_, fun b' a' e => ?_⟩
      · injection e with _ _ e3; exact hj e3.symm
      · have := hws _ hw; simp only at e; rw [e] at this; simp [GNode.isBox] at this
    · exact ⟨fun o i' e => (by cases e), fun b' a' e => (by cases e)⟩
  · simp only [codEdges, List.mem_map] at he
    obtain ⟨v, hv, rfl⟩ := he
    obtain ⟨o', i, rfl, -⟩ := mem_codNodes hv
    refine ⟨fun o i' e => (by cases e), fun b' a' e => ?_⟩
    injection e with _ e2 _; exact hj e2.symm

theorem nextOpen_notBox {scan : List GNode} (h : ∀ v ∈ scan, v.isBox = false) (off m : Nat)
    (cod : Ty) (k : Nat) : ∀ v ∈ nextOpen scan off m cod k, v.isBox = false := by
  intro v hv
  unfold nextOpen at hv
  rcases List.mem_append.mp hv with hv | hv
  · rcases List.mem_append.mp hv with hv | hv
    · exact h _ (List.mem_of_mem_take hv)
    · obtain ⟨o, i, rfl, -⟩ := mem_codNodes hv; rfl
  · exact h _ (List.mem_of_mem_drop hv)

theorem stepsEdges_avoids : ∀ (steps : List (Box × OffAttr)) (scan : List GNode) (k : Nat)
    (offs : List Nat), (∀ v ∈ scan, v.isBox = false) →
    ∀ e ∈ stepsEdges scan k steps offs, ∀ j, j < k → Avoids j e := by
  intro steps
  induction steps with
  | nil => intro scan k offs _ e he; simp [stepsEdges] at he
  | cons s r ih =>
    intro scan k offs hs e he j hj
    cases offs with
    | nil => simp [stepsEdges] at he
    | cons off offs =>
      simp only [stepsEdges, List.mem_append] at he
      rcases he with he | he
      · exact stepEdges_avoids (fun w hw => hs w (List.mem_of_mem_drop (List.mem_of_mem_take hw)))
          (by omega) e he
      · exact ih _ (k + 1) offs (nextOpen_notBox hs _ _ _ _) e he j (by omega)

theorem readsAll_of_view (g : NxGraph) :
    ∀ (steps : List (Box × OffAttr)) (scan : List GNode) (k : Nat) (offs : List Nat)
      (fin : List GNode) (pre post : List (GNode × GNode)),
      EdgeView g (pre ++ stepsEdges scan k steps offs ++ post) →
      (∀ e ∈ pre, ∀ j, k ≤ j → Avoids j e) → (∀ e ∈ post, ∀ j, Avoids j e) →
      PlanarSteps scan k steps offs fin → (∀ v ∈ scan, v.isBox = false) →
      ReadsAll g scan k steps offs fin := by
  intro steps
  induction steps with
  | nil =>
    intro scan k offs fin pre post _ _ _ hp _
    cases offs with
    | nil => exact hp
    | cons o offs => exact hp.elim
  | cons s r ih =>
    intro scan k offs fin pre post hv hpre hpost hp hs
    cases offs with
    | nil => exact hp.elim
    | cons off offs =>
      obtain ⟨h1, h2, h3, h4⟩ := hp
      have hws : ∀ w ∈ (scan.drop off).take s.1.dom.length, w.isBox = false := fun w hw =>
        hs w (List.mem_of_mem_drop (List.mem_of_mem_take hw))
      have hns := nextOpen_notBox hs off s.1.dom.length s.1.cod k
      refine ⟨?_, ?_⟩
      · apply reads_of_view (pre := pre)
          (post := stepsEdges (nextOpen scan off s.1.dom.length s.1.cod k) (k + 1) r offs ++ post)
          _ (fun e he => hpre e he k (Nat.le_refl _)) _ h1 h2 h3 hs
        · simpa [stepsEdges, List.append_assoc] using hv
        · intro e he
          rcases List.mem_append.mp he with he | he
          · exact stepsEdges_avoids r _ (k + 1) offs hns e he k (by omega)
          · exact hpost e he k
      · apply ih _ (k + 1) offs fin
          (pre ++ stepEdges k s.1 s.2 ((scan.drop off).take s.1.dom.length)) post _ _ hpost h4 hns
        · simpa [stepsEdges, List.append_assoc] using hv
        · intro e he j hj
          rcases List.mem_append.mp he with he | he
          · exact hpre e he j (by omega)
          · exact stepEdges_avoids hws (by omega) e he

end DV.Dz
