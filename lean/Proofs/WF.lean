/-
  Proofs/WF.lean — well-typedness (`Diagram.WF`) and its preservation by every operation
  of `Model/Diagram.lean`.
-/
import Model.Expr

namespace DV

/-! ### Definitions -/

/-- `Chain s ls c`: reading the layers from type `s`, each layer finds `s = left ++ box.dom ++ right`
    and the reading ends at `c`. -/
def Chain : Ty → List Layer → Ty → Prop
  | s, [], c => s = c
  | s, l :: ls, c => s = l.dom ∧ Chain l.cod ls c

def LArrow.WF (a : LArrow) : Prop := Chain a.dom a.boxes a.cod

/-- The statement of C01 for one diagram value. -/
structure Diagram.WF (d : Diagram) : Prop where
  ldom : d.layers.dom = d.dom
  lcod : d.layers.cod = d.cod
  boxes : d.boxes = d.layers.boxes.map (·.box)
  offsets : d.offsets = d.layers.boxes.map (fun l => (l.left.length : Int))
  chain : d.layers.WF

/-! ### Chain lemmas -/

theorem chain_append {s c : Ty} {xs ys : List Layer} :
    Chain s (xs ++ ys) c ↔ ∃ m, Chain s xs m ∧ Chain m ys c := by
  induction xs generalizing s with
  | nil => simp [Chain]
  | cons x xs ih =>
    simp only [List.cons_append, Chain, ih]
    constructor
    · rintro ⟨h, m, h1, h2⟩; exact ⟨m, ⟨h, h1⟩, h2⟩
    · rintro ⟨m, ⟨h, h1⟩, h2⟩; exact ⟨h, m, h1, h2⟩

theorem chain_single {s c : Ty} {l : Layer} : Chain s [l] c ↔ s = l.dom ∧ l.cod = c := by
  simp [Chain]

theorem chain_unique {s c c' : Ty} {xs : List Layer} (h : Chain s xs c) (h' : Chain s xs c') :
    c = c' := by
  induction xs generalizing s with
  | nil => simp [Chain] at h h'; rw [← h, ← h']
  | cons x xs ih => exact ih h.2 h'.2

theorem chain_drop {s c : Ty} {xs : List Layer} (n : Nat) (h : Chain s xs c) :
    ∃ s', Chain s' (xs.drop n) c := by
  induction n generalizing s xs with
  | zero => exact ⟨s, by simpa using h⟩
  | succ n ih =>
    cases xs with
    | nil => exact ⟨s, by simpa using h⟩
    | cons x xs => simpa using ih h.2

theorem chain_take {s c : Ty} {xs : List Layer} (n : Nat) (h : Chain s xs c) :
    ∃ c', Chain s (xs.take n) c' := by
  induction n generalizing s xs with
  | zero => exact ⟨s, by simp [Chain]⟩
  | succ n ih =>
    cases xs with
    | nil => exact ⟨s, by simp [Chain]⟩
    | cons x xs =>
      obtain ⟨c', hc'⟩ := ih h.2
      exact ⟨c', by simpa [Chain] using ⟨h.1, hc'⟩⟩

theorem chain_take_drop {s c : Ty} {xs : List Layer} (n : Nat) (h : Chain s xs c) :
    ∃ m, Chain s (xs.take n) m ∧ Chain m (xs.drop n) c := by
  have : Chain s (xs.take n ++ xs.drop n) c := by simpa using h
  exact chain_append.mp this

theorem chain_cons_last {s c : Ty} {x : Layer} {xs : List Layer} (h : Chain s (x :: xs) c) :
    s = x.dom ∧ ((x :: xs).getLastD x).cod = c := by
  refine ⟨h.1, ?_⟩
  induction xs generalizing s x with
  | nil => simpa [Chain] using h.2
  | cons y ys ih =>
    have := ih h.2
    simpa [List.getLastD] using this

theorem chain_pySlice {s c : Ty} {xs : List Layer} (a b : Option Int) (h : Chain s xs c) :
    ∃ s' c', Chain s' (pySlice xs a b) c' := by
  unfold pySlice
  obtain ⟨s', h1⟩ := chain_drop (pyLo xs.length a) h
  obtain ⟨c', h2⟩ := chain_take (pyHi xs.length b - pyLo xs.length a) h1
  exact ⟨s', c', h2⟩

/-! ### Box and layer dagger -/

@[simp] theorem Box.dag_dom (b : Box) : b.dag.dom = b.cod := by
  unfold Box.dag; cases b.kind <;> rfl
@[simp] theorem Box.dag_cod (b : Box) : b.dag.cod = b.dom := by
  unfold Box.dag; cases b.kind <;> rfl
@[simp] theorem Layer.dag_dom (l : Layer) : l.dag.dom = l.cod := by
  simp [Layer.dag, Layer.dom, Layer.cod]
@[simp] theorem Layer.dag_cod (l : Layer) : l.dag.cod = l.dom := by
  simp [Layer.dag, Layer.dom, Layer.cod]
@[simp] theorem Layer.dag_left (l : Layer) : l.dag.left = l.left := rfl
@[simp] theorem Layer.dag_box (l : Layer) : l.dag.box = l.box.dag := rfl

theorem Box.dag_dag (b : Box) : b.dag.dag = b := by
  cases b with
  | mk kind name dom cod dagger data => cases kind <;> simp [Box.dag]

theorem chain_dag {s c : Ty} {xs : List Layer} (h : Chain s xs c) :
    Chain c (xs.reverse.map Layer.dag) s := by
  induction xs generalizing s with
  | nil => simp [Chain] at h ⊢; exact h.symm
  | cons x xs ih =>
    have := ih h.2
    simp only [List.reverse_cons, List.map_append, List.map_cons, List.map_nil]
    exact chain_append.mpr ⟨x.cod, this, by simp [Chain, h.1]⟩

/-! ### Identity, boxes -/

theorem Diagram.id_wf (t : Ty) : (Diagram.id t).WF :=
  ⟨rfl, rfl, rfl, rfl, by simp [Diagram.id, LArrow.WF, LArrow.id, Chain]⟩

theorem Diagram.ofBox_wf (b : Box) : (Diagram.ofBox b).WF :=
  ⟨rfl, rfl, rfl, rfl, by simp [Diagram.ofBox, LArrow.WF, Chain, Layer.dom, Layer.cod]⟩

/-! ### LArrow.then -/

theorem LArrow.then_ok {a b r : LArrow} (h : a.then b = .ok r) :
    a.cod = b.dom ∧ r = ⟨a.dom, b.cod, a.boxes ++ b.boxes⟩ := by
  unfold LArrow.then at h
  split at h
  · cases h
  · rename_i hne
    simp only [ne_eq, Decidable.not_not] at hne
    exact ⟨hne, by cases h; rfl⟩

theorem LArrow.then_eq_ok {a b : LArrow} (h : a.cod = b.dom) :
    a.then b = .ok ⟨a.dom, b.cod, a.boxes ++ b.boxes⟩ := by
  simp [LArrow.then, h]

theorem LArrow.then_err {a b : LArrow} (h : a.cod ≠ b.dom) : a.then b = .error .axiom := by
  simp [LArrow.then, h]

theorem LArrow.then_wf {a b r : LArrow} (ha : a.WF) (hb : b.WF) (h : a.then b = .ok r) : r.WF := by
  obtain ⟨hc, rfl⟩ := LArrow.then_ok h
  exact chain_append.mpr ⟨a.cod, ha, by rw [hc]; exact hb⟩

theorem Layer.arrow_wf (l : Layer) : l.arrow.WF := by
  simp [Layer.arrow, LArrow.WF, Chain]

theorem LArrow.id_wf (t : Ty) : (LArrow.id t).WF := by simp [LArrow.id, LArrow.WF, Chain]

/-! ### then -/

theorem Diagram.then_ok {a b d : Diagram} (h : a.then b = .ok d) :
    ∃ ls, a.layers.then b.layers = .ok ls ∧
      d = ⟨a.dom, b.cod, a.boxes ++ b.boxes, a.offsets ++ b.offsets, ls⟩ := by
  unfold Diagram.then at h
  split at h
  · cases h
  · rename_i ls hls; exact ⟨ls, hls, by cases h; rfl⟩

theorem Diagram.then_wf {a b d : Diagram} (ha : a.WF) (hb : b.WF) (h : a.then b = .ok d) :
    d.WF := by
  obtain ⟨ls, hls, rfl⟩ := Diagram.then_ok h
  have hw := LArrow.then_wf ha.chain hb.chain hls
  obtain ⟨_, rfl⟩ := LArrow.then_ok hls
  exact ⟨ha.ldom, hb.lcod, by simp [ha.boxes, hb.boxes], by simp [ha.offsets, hb.offsets], hw⟩

/-- On well-typed operands `>>` succeeds exactly when the types match, and is refused
    with an axiom error otherwise. -/
theorem Diagram.then_ok_iff {a b : Diagram} (ha : a.WF) (hb : b.WF) :
    (∃ d, a.then b = .ok d) ↔ a.cod = b.dom := by
  rw [← ha.lcod, ← hb.ldom]
  constructor
  · rintro ⟨d, h⟩
    obtain ⟨ls, hls, _⟩ := Diagram.then_ok h
    exact (LArrow.then_ok hls).1
  · intro h
    exact ⟨⟨a.dom, b.cod, a.boxes ++ b.boxes, a.offsets ++ b.offsets,
      ⟨a.layers.dom, b.layers.cod, a.layers.boxes ++ b.layers.boxes⟩⟩,
      by simp [Diagram.then, LArrow.then_eq_ok h]⟩

theorem Diagram.then_err {a b : Diagram} (ha : a.WF) (hb : b.WF) (h : a.cod ≠ b.dom) :
    a.then b = .error .axiom := by
  rw [← ha.lcod, ← hb.ldom] at h
  simp [Diagram.then, LArrow.then_err h]

end DV

namespace DV

/-! ### tensor -/

def whiskR (t : Ty) (l : Layer) : Layer := ⟨l.left, l.box, l.right ++ t⟩
def whiskL (t : Ty) (l : Layer) : Layer := ⟨t ++ l.left, l.box, l.right⟩

theorem chain_whiskR {s c : Ty} {ls : List Layer} (t : Ty) (h : Chain s ls c) :
    Chain (s ++ t) (ls.map (whiskR t)) (c ++ t) := by
  induction ls generalizing s with
  | nil => simp [Chain] at h ⊢; rw [h]
  | cons x xs ih =>
    refine ⟨?_, ?_⟩
    · rw [h.1]; simp [whiskR, Layer.dom]
    · have := ih h.2
      simpa [whiskR, Layer.cod] using this

theorem chain_whiskL {s c : Ty} {ls : List Layer} (t : Ty) (h : Chain s ls c) :
    Chain (t ++ s) (ls.map (whiskL t)) (t ++ c) := by
  induction ls generalizing s with
  | nil => simp [Chain] at h ⊢; rw [h]
  | cons x xs ih =>
    refine ⟨?_, ?_⟩
    · rw [h.1]; simp [whiskL, Layer.dom]
    · have := ih h.2
      simpa [whiskL, Layer.cod] using this

theorem foldLayers_ok {f : Layer → Layer} {acc : LArrow} {ls : List Layer} {c : Ty}
    (h : Chain acc.cod (ls.map f) c) :
    foldLayers f acc ls = .ok ⟨acc.dom, c, acc.boxes ++ ls.map f⟩ := by
  induction ls generalizing acc with
  | nil =>
    simp [Chain] at h
    cases acc; simp_all [foldLayers]
  | cons x xs ih =>
    obtain ⟨h1, h2⟩ := h
    have : acc.thenLayer (f x) = .ok ⟨acc.dom, (f x).cod, acc.boxes ++ [f x]⟩ := by
      simp [LArrow.thenLayer, LArrow.then, Layer.arrow, h1]
    simp only [foldLayers, this]
    have := ih (acc := ⟨acc.dom, (f x).cod, acc.boxes ++ [f x]⟩) h2
    simpa using this

/-- Closed form of `a @ b` on well-typed operands: it always succeeds. -/
theorem Diagram.tensor_spec {a b : Diagram} (ha : a.WF) (hb : b.WF) :
    a.tensor b = .ok ⟨a.dom ++ b.dom, a.cod ++ b.cod, a.boxes ++ b.boxes,
      a.offsets ++ b.offsets.map (· + (a.cod.length : Int)),
      ⟨a.dom ++ b.dom, a.cod ++ b.cod,
        a.layers.boxes.map (whiskR b.dom) ++ b.layers.boxes.map (whiskL a.cod)⟩⟩ := by
  have h1 : Chain (a.dom ++ b.dom) (a.layers.boxes.map (whiskR b.dom)) (a.cod ++ b.dom) := by
    have := chain_whiskR b.dom ha.chain
    rwa [ha.ldom, ha.lcod] at this
  have h2 : Chain (a.cod ++ b.dom) (b.layers.boxes.map (whiskL a.cod)) (a.cod ++ b.cod) := by
    have := chain_whiskL a.cod hb.chain
    rwa [hb.ldom, hb.lcod] at this
  have e1 := foldLayers_ok (f := whiskR b.dom) (acc := LArrow.id (a.dom ++ b.dom)) h1
  unfold Diagram.tensor
  have e1' : foldLayers (fun l => ⟨l.left, l.box, l.right ++ b.dom⟩) (LArrow.id (a.dom ++ b.dom))
      a.layers.boxes = _ := e1
  simp only [e1']
  have e2 := foldLayers_ok (f := whiskL a.cod)
    (acc := ⟨(LArrow.id (a.dom ++ b.dom)).dom, a.cod ++ b.dom,
      (LArrow.id (a.dom ++ b.dom)).boxes ++ a.layers.boxes.map (whiskR b.dom)⟩) h2
  have e2' : foldLayers (fun l => ⟨a.cod ++ l.left, l.box, l.right⟩) _ b.layers.boxes = _ := e2
  simp only [e2']
  simp [LArrow.id]

theorem Diagram.tensor_wf {a b d : Diagram} (ha : a.WF) (hb : b.WF) (h : a.tensor b = .ok d) :
    d.WF := by
  rw [Diagram.tensor_spec ha hb] at h
  cases h
  refine ⟨rfl, rfl, ?_, ?_, ?_⟩
  · simp [ha.boxes, hb.boxes, whiskR, whiskL, Function.comp_def]
  · simp [ha.offsets, hb.offsets, whiskR, whiskL, Function.comp_def, Int.add_comm]
  · have h1 := chain_whiskR b.dom ha.chain
    have h2 := chain_whiskL a.cod hb.chain
    rw [ha.ldom, ha.lcod] at h1
    rw [hb.ldom, hb.lcod] at h2
    exact chain_append.mpr ⟨_, h1, h2⟩

theorem Diagram.tensor_total {a b : Diagram} (ha : a.WF) (hb : b.WF) : ∃ d, a.tensor b = .ok d :=
  ⟨_, Diagram.tensor_spec ha hb⟩

/-! ### dagger, slicing -/

theorem Diagram.ofLayers_wf {ls : LArrow} (h : ls.WF) : (Diagram.ofLayers ls).WF :=
  ⟨rfl, rfl, rfl, rfl, h⟩

theorem LArrow.dag_wf {a : LArrow} (h : a.WF) : a.dag.WF := chain_dag h

theorem Diagram.dagger_wf {d : Diagram} (h : d.WF) : d.dagger.WF :=
  Diagram.ofLayers_wf (LArrow.dag_wf h.chain)

theorem LArrow.sliceEmpty_wf {a r : LArrow} (s : Option Int) (h : a.sliceEmpty s = .ok r) :
    r.WF := by
  unfold LArrow.sliceEmpty at h
  split at h
  · cases h; exact LArrow.id_wf _
  · split at h
    · cases h; exact LArrow.id_wf _
    · split at h
      · cases h; exact LArrow.id_wf _
      · cases h

theorem LArrow.slice_wf {a r : LArrow} (s t : Option Int) (ha : a.WF) (h : a.slice s t = .ok r) :
    r.WF := by
  unfold LArrow.slice at h
  split at h
  · exact LArrow.sliceEmpty_wf s h
  · rename_i b bs hb
    cases h
    obtain ⟨s', c', hc⟩ := chain_pySlice s t ha
    rw [hb] at hc
    obtain ⟨h1, h2⟩ := chain_cons_last hc
    show Chain b.dom (b :: bs) _
    rw [← h1, h2]; exact hc

theorem chain_sub {s c : Ty} {xs : List Layer} (m k : Nat) (h : Chain s xs c) :
    ∃ s' c', Chain s' ((xs.drop m).take k) c' := by
  obtain ⟨s', h1⟩ := chain_drop m h
  obtain ⟨c', h2⟩ := chain_take k h1
  exact ⟨s', c', h2⟩

theorem LArrow.sliceRevEmpty_wf {a r : LArrow} (s : Option Int) (h : a.sliceRevEmpty s = .ok r) :
    r.WF := by
  unfold LArrow.sliceRevEmpty LArrow.idAfter at h
  split at h
  · cases h; simp [LArrow.WF, Chain]
  · split at h
    · cases h; simp [LArrow.WF, Chain]
    · cases h

theorem LArrow.sliceRev_wf {a r : LArrow} (s t : Option Int) (ha : a.WF)
    (h : a.sliceRev s t = .ok r) : r.WF := by
  unfold LArrow.sliceRev at h
  split at h
  · exact LArrow.sliceRevEmpty_wf s h
  · rename_i b bs hb
    cases h
    unfold pySliceRev at hb
    obtain ⟨s', c', hc⟩ := chain_sub _ _ ha
    have hd := chain_dag hc
    rw [hb] at hd
    obtain ⟨h1, h2⟩ := chain_cons_last hd
    show Chain b.dom (b :: bs) _
    rw [← h1, h2]; exact hd

theorem Diagram.sliceRev_wf {d d' : Diagram} (s t : Option Int) (hd : d.WF)
    (h : d.sliceRev s t = .ok d') : d'.WF := by
  unfold Diagram.sliceRev at h
  split at h
  · cases h
  · rename_i ls hls; cases h
    exact Diagram.ofLayers_wf (LArrow.sliceRev_wf s t hd.chain hls)

theorem Diagram.slice_wf {d d' : Diagram} (s t : Option Int) (hd : d.WF)
    (h : d.slice s t = .ok d') : d'.WF := by
  unfold Diagram.slice at h
  split at h
  · cases h
  · rename_i ls hls; cases h
    exact Diagram.ofLayers_wf (LArrow.slice_wf s t hd.chain hls)

theorem Diagram.getItem_wf {d d' : Diagram} (i : Int) (h : d.getItem i = .ok d') : d'.WF := by
  unfold Diagram.getItem at h
  split at h
  · cases h
  · rename_i l _
    split at h
    · cases h
    · rename_i x hx
      have hxw := Diagram.tensor_wf (Diagram.id_wf _) (Diagram.ofBox_wf _) hx
      exact Diagram.tensor_wf hxw (Diagram.id_wf _) h

end DV
