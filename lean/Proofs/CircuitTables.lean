/-
  Proofs/CircuitTables.lean — the per-gate hypotheses of the whole-circuit theorems of
  Proofs/CircuitCyc8.lean hold on the gate set of the model, by kernel evaluation (`decide`) of the
  exact arithmetic, and for rotations at EVERY integer phase index by periodicity (`ζ⁸ = 1`).

  Gate set (`unitaryGates`, closed under `Gate.dagger`):
    * the table `GATES` = SWAP, CZ, CX, H, S, T, X, Y, Z;
    * Rx, Ry, Rz, CRz, CRx at the phases `n/8`, `n` even, and CU1 at all `n/8` (`0 ≤ n < 16`; `rotOK_all`
      extends to all `n : ℤ`);
    * `Controlled(g)` for the one-qubit table gates and for Rx, Ry, Rz at the even phases;
    * the daggers of all of these (flagged `S†`, `T†`, `Y†`, negated phases, rebuilt controlled gates).
  Kets and bras (≤ 4 bits), scalars (all normalised values) and square-root scalars `sqrt(z)` (all normalised
  values of the root; `z` non-real or non-negative) for the dagger statement; scalars for the ZX statements.
  The rebuilt-controlled dagger of `Controlled(S)`, `Controlled(T)` is correct only with F2 repaired
  (`f2Fixed`), so `dagOK` for these four gates is stated under that switch.
-/
import Proofs.CircuitCyc8

namespace DV.Gates
open DV

def tableGates : List Gate := named.map (·.2)

def rotGates : List Gate :=
  rotKinds.flatMap fun k => (if k = .CU1 then allPhases else evenPhases).map (Gate.rot k)

/-- Controlled gates whose rebuilt dagger does not depend on F2 (un-flagged Hermitian or rotation targets). -/
def ctrlGates : List Gate :=
  [gH, gX, gY, gZ].map (fun g => Gate.ctrl (.q g)) ++
  [RotKind.Rx, .Ry, .Rz].flatMap fun k => evenPhases.map fun n => Gate.ctrl (.rot k n)

/-- `Controlled(S)`, `Controlled(T)`: their daggers evaluate correctly only with F2 repaired. -/
def ctrlGatesF2 : List Gate := [gS, gT].map fun g => Gate.ctrl (.q g)

def unitaryBase : List Gate := tableGates ++ rotGates ++ ctrlGates
/-- The unitary gate set, closed under dagger. -/
def unitaryGates : List Gate := unitaryBase ++ unitaryBase.map Gate.dagger
def unitaryGatesF2 : List Gate := ctrlGatesF2 ++ ctrlGatesF2.map Gate.dagger

/-- All bitstrings of length ≤ 4. -/
def bitstringsUpTo4 : List (List Bool) := bitstringsUpTo3 ++ bits 4
def ketGates : List Gate := bitstringsUpTo4.map Gate.ket
def braGates : List Gate := bitstringsUpTo4.map Gate.bra

/-! ### C11 -/

theorem tableGates_ok : ∀ g ∈ tableGates ++ tableGates.map Gate.dagger,
    g.isoOK = true ∧ g.coisoOK = true ∧ g.dagOK = true := by decide +kernel

theorem rotGates_ok : ∀ g ∈ rotGates ++ rotGates.map Gate.dagger,
    g.isoOK = true ∧ g.coisoOK = true ∧ g.dagOK = true := by decide +kernel

theorem ctrlGates_ok : ∀ g ∈ ctrlGates ++ ctrlGates.map Gate.dagger,
    g.isoOK = true ∧ g.coisoOK = true ∧ g.dagOK = true := by decide +kernel

/-- Every gate of the set is unitary (both sides) and its dagger evaluates to the adjoint. -/
theorem unitaryGates_ok : ∀ g ∈ unitaryGates, g.isoOK = true ∧ g.coisoOK = true ∧ g.dagOK = true := by
  intro g hg
  simp only [unitaryGates, unitaryBase, List.mem_append, List.map_append] at hg
  rcases hg with ((h | h) | h) | ((h | h) | h)
  · exact tableGates_ok g (List.mem_append_left _ h)
  · exact rotGates_ok g (List.mem_append_left _ h)
  · exact ctrlGates_ok g (List.mem_append_left _ h)
  · exact tableGates_ok g (List.mem_append_right _ h)
  · exact rotGates_ok g (List.mem_append_right _ h)
  · exact ctrlGates_ok g (List.mem_append_right _ h)

/-- `Controlled(S)`, `Controlled(T)` and their daggers: unitary in both positions of the switch; the
    dagger evaluates to the adjoint with F2 repaired (as it is: `F2_witness`). -/
theorem unitaryGatesF2_ok : ∀ g ∈ unitaryGatesF2,
    g.isoOK = true ∧ g.coisoOK = true ∧ (f2Fixed = true → g.dagOK = true) := by decide +kernel

/-- Kets are isometries, bras co-isometries, Ket ↔ Bra is the adjoint (≤ 4 bits). -/
theorem ketBra_ok :
    (∀ g ∈ ketGates, g.isoOK = true ∧ g.dagOK = true) ∧
    (∀ g ∈ braGates, g.coisoOK = true ∧ g.dagOK = true) := by decide +kernel

/-- Scalars: `⟦s†⟧ = ⟦s⟧†` for every normalised value. -/
theorem scalar_dagOK (z : Cyc8) (hz : z.isNormal = true) : (Gate.scalar z).dagOK = true := by
  simp [Gate.dagOK, Gate.shapeOK, isMatB, allNormalB, Gate.eval, Gate.evalW, Gate.isDagger, Gate.arrayW,
    Gate.dagger, Gate.dom, Gate.cod, pow2, hz, dagger, transpose, Conj.conj]

/-- A user-defined `QuantumGate` on ZERO qubits (a global phase `QuantumGate(name, 0, [z])`, gates.py:21-46)
    that carries a dagger flag (`_dagger = False`, the default of the constructor, or `True` after
    `.dagger()`): `⟦g†⟧ = ⟦g⟧†` for every name, flag and normalised entry.  (With `_dagger = None` the gate
    is declared self-adjoint and the statement holds only for a real entry.) -/
theorem phase0_dagOK (name : String) (z : Cyc8) (b : Bool) (hz : z.isNormal = true) :
    (Gate.q ⟨name, 0, [[z]], some b⟩).dagOK = true := by
  have hc : z.conj.isNormal = true := Cyc8.isNormal_conj hz
  cases b <;>
    simp [Gate.dagOK, Gate.shapeOK, isMatB, allNormalB, Gate.eval, Gate.evalW, Gate.isDagger, Gate.arrayW,
      Gate.dagger, QGate.dagger, Gate.dom, Gate.cod, pow2, hz, hc, dagger, transpose, Conj.conj, Cyc8.conj_conj]

/-- Square-root scalars `sqrt(z)` with value `r`: `⟦s†⟧ = ⟦s⟧†` whenever the box is not taken for self-adjoint
    (every non-real `z`) or its value is real (`z ≥ 0`) — i.e. everywhere but at negative real `z` (F4k). -/
theorem sqrt_dagOK (z r : Cyc8) (hr : r.isNormal = true) (h : sqrtSelfAdjoint z r = false ∨ r.conj = r) :
    (Gate.sqrt z r).dagOK = true := by
  have hs : (Gate.sqrt z r).shapeOK = true := by
    simp [Gate.shapeOK, isMatB, allNormalB, Gate.eval, Gate.evalW, Gate.isDagger, Gate.arrayW, Gate.dom, Gate.cod,
      pow2, hr]
  have he : (Gate.sqrt z r).dagger.eval = dagger (Gate.sqrt z r).eval := (sqrt_dagger_iff z r f2Fixed).2 h
  simp [Gate.dagOK, hs, he]

/-! ### rotations at every integer phase index -/

theorem Cyc8.zetaPow_congr {a b : Int} (h : a % 8 = b % 8) : Cyc8.zetaPow a = Cyc8.zetaPow b := by
  unfold Cyc8.zetaPow; rw [h]

theorem rotArr_mod16 (k : RotKind) (n : Int) : rotArr k n = rotArr k (n % 16) := by
  have e1 : Cyc8.zetaPow (n / 2) = Cyc8.zetaPow (n % 16 / 2) := Cyc8.zetaPow_congr (by omega)
  have e2 : Cyc8.zetaPow (-(n / 2)) = Cyc8.zetaPow (-(n % 16 / 2)) := Cyc8.zetaPow_congr (by omega)
  have e3 : Cyc8.zetaPow n = Cyc8.zetaPow (n % 16) := Cyc8.zetaPow_congr (by omega)
  cases k <;> simp only [rotArr, cosQ, sinQ, e1, e2, e3]

theorem mem_phases {k : RotKind} {n : Int} (h : k = .CU1 ∨ n % 2 = 0) :
    n % 16 ∈ (if k = .CU1 then allPhases else evenPhases) := by
  have h16 : n % 16 = 0 ∨ n % 16 = 1 ∨ n % 16 = 2 ∨ n % 16 = 3 ∨ n % 16 = 4 ∨ n % 16 = 5 ∨ n % 16 = 6 ∨
      n % 16 = 7 ∨ n % 16 = 8 ∨ n % 16 = 9 ∨ n % 16 = 10 ∨ n % 16 = 11 ∨ n % 16 = 12 ∨ n % 16 = 13 ∨
      n % 16 = 14 ∨ n % 16 = 15 := by omega
  by_cases hk : k = .CU1
  · rw [if_pos hk]
    rcases h16 with e | e | e | e | e | e | e | e | e | e | e | e | e | e | e | e <;> rw [e] <;> decide
  · rw [if_neg hk]
    have h2 : n % 2 = 0 := h.resolve_left hk
    have : n % 16 = 0 ∨ n % 16 = 2 ∨ n % 16 = 4 ∨ n % 16 = 6 ∨ n % 16 = 8 ∨ n % 16 = 10 ∨ n % 16 = 12 ∨
        n % 16 = 14 := by omega
    rcases this with e | e | e | e | e | e | e | e <;> rw [e] <;> decide

theorem rot_mem_rotGates {k : RotKind} {n : Int} (h : n ∈ (if k = .CU1 then allPhases else evenPhases)) :
    Gate.rot k n ∈ rotGates := by
  simp only [rotGates, List.mem_flatMap, List.mem_map]
  exact ⟨k, by cases k <;> decide, n, h, rfl⟩

/-- **Rotations at every phase `n/8`, `n : ℤ`** (`n` even unless CU1): unitary, and the negated phase
    evaluates to the adjoint. -/
theorem rotOK_all (k : RotKind) (n : Int) (h : k = .CU1 ∨ n % 2 = 0) :
    (Gate.rot k n).isoOK = true ∧ (Gate.rot k n).coisoOK = true ∧ (Gate.rot k n).dagOK = true := by
  have hm := rotGates_ok _ (List.mem_append_left _ (rot_mem_rotGates (mem_phases h)))
  have hm' := rotGates_ok _ (List.mem_append_left _
    (rot_mem_rotGates (mem_phases (k := k) (n := -(n % 16)) (by rcases h with h | h; exact .inl h; right; omega))))
  have e : (Gate.rot k n).eval = (Gate.rot k (n % 16)).eval := by
    simp only [Gate.eval, Gate.evalW, Gate.isDagger, Gate.arrayW]; exact rotArr_mod16 k n
  have ed : (Gate.rot k n).dagger.eval = (Gate.rot k (n % 16)).dagger.eval := by
    simp only [Gate.dagger, Gate.eval, Gate.evalW, Gate.isDagger, Gate.arrayW, Bool.false_eq_true,
      if_false]
    have e16 : (-n) % 16 = (-(n % 16)) % 16 := by omega
    rw [rotArr_mod16 k (-n), rotArr_mod16 k (-(n % 16)), e16]
  simp only [Gate.isoOK, Gate.coisoOK, Gate.dagOK, Gate.shapeOK, Gate.dom, Gate.cod, e, ed] at hm ⊢
  exact hm

end DV.Gates
