/-
  Proofs/Diagramize.lean — `diagramize` on a body that uses its wires in planar order: the graph
  `apply` builds has the canonical edge list of Proofs/NxEdges.lean (up to the repetitions that
  `networkx` drops), hence `nx2diagram` returns the diagram the body describes.
-/
import Proofs.NxEdges

namespace DV.Dz
open DV

/-! ### Repeated dict insertion -/

def insertAll {α} [DecidableEq α] (xs ys : List α) : List α := ys.foldl insertNew xs

section
variable {α : Type} [DecidableEq α]

@[simp] theorem insertAll_nil (xs : List α) : insertAll xs [] = xs := rfl

theorem insertAll_cons (xs : List α) (y : α) (ys : List α) :
    insertAll xs (y :: ys) = insertAll (insertNew xs y) ys := rfl

theorem insertAll_append (xs ys zs : List α) :
    insertAll xs (ys ++ zs) = insertAll (insertAll xs ys) zs := by
  simp [insertAll, List.foldl_append]

theorem mem_insertNew {xs : List α} {x v : α} : v ∈ insertNew xs x ↔ v ∈ xs ∨ v = x := by
  unfold insertNew
  split
  · constructor
    · exact Or.inl
    · rintro (h | rfl) <;> assumption
  · simp

theorem mem_insertAll {xs ys : List α} {v : α} : v ∈ insertAll xs ys ↔ v ∈ xs ∨ v ∈ ys := by
  induction ys generalizing xs with
  | nil => simp
  | cons y ys ih =>
    rw [insertAll_cons, ih, mem_insertNew]
    simp only [List.mem_cons]
    constructor
    · rintro ((h | h) | h)
      · exact Or.inl h
      · exact Or.inr (Or.inl h)
      · exact Or.inr (Or.inr h)
    · rintro (h | h | h)
      · exact Or.inl (Or.inl h)
      · exact Or.inl (Or.inr h)
      · exact Or.inr h

theorem filter_insertNew (p : α → Bool) (xs : List α) (x : α) :
    (insertNew xs x).filter p = if p x then insertNew (xs.filter p) x else xs.filter p := by
  unfold insertNew
  by_cases hx : x ∈ xs
  · by_cases hp : p x = true
    · have : x ∈ xs.filter p := List.mem_filter.mpr ⟨hx, hp⟩
      simp [hx, hp, this]
    · simp [hx, hp]
  · by_cases hp : p x = true
    · have : x ∉ xs.filter p := fun h => hx (List.mem_filter.mp h).1
      simp [hx, hp, this, List.filter_append]
    · simp [hx, hp, List.filter_append]

theorem filter_insertAll (p : α → Bool) (xs ys : List α) :
    (insertAll xs ys).filter p = insertAll (xs.filter p) (ys.filter p) := by
  induction ys generalizing xs with
  | nil => simp
  | cons y ys ih =>
    rw [insertAll_cons, ih, filter_insertNew]
    by_cases hp : p y = true
    · simp [hp, insertAll_cons]
    · simp [hp]

theorem insertAll_subset {xs ys : List α} (h : ∀ y ∈ ys, y ∈ xs) : insertAll xs ys = xs := by
  induction ys with
  | nil => rfl
  | cons y ys ih =>
    rw [insertAll_cons]
    have : insertNew xs y = xs := by simp [insertNew, h y (by simp)]
    rw [this]
    exact ih (fun z hz => h z (by simp [hz]))

theorem insertAll_fresh {xs ys : List α} (hn : ys.Nodup) (h : ∀ y ∈ ys, y ∉ xs) :
    insertAll xs ys = xs ++ ys := by
  induction ys generalizing xs with
  | nil => simp
  | cons y ys ih =>
    rw [List.nodup_cons] at hn
    rw [insertAll_cons]
    have : insertNew xs y = xs ++ [y] := by simp [insertNew, h y (by simp)]
    rw [this, ih hn.2]
    · simp
    · intro z hz hz'
      rcases List.mem_append.mp hz' with hz' | hz'
      · exact h z (by simp [hz]) hz'
      · simp only [List.mem_singleton] at hz'; subst hz'; exact hn.1 hz

theorem insertAll_nil_nodup {ys : List α} (hn : ys.Nodup) : insertAll [] ys = ys := by
  simpa using insertAll_fresh (xs := []) hn (by simp)

end

/-! ### Adding a list of edges -/

def ends (E : List (GNode × GNode)) : List GNode := E.flatMap (fun e => [e.1, e.2])

def addEdges (g : NxGraph) (E : List (GNode × GNode)) : NxGraph :=
  ⟨insertAll g.nodes (ends E), insertAll g.edges E⟩

theorem addEdges_nil (g : NxGraph) : addEdges g [] = g := rfl

theorem addEdges_cons (g : NxGraph) (u v : GNode) (E : List (GNode × GNode)) :
    addEdges g ((u, v) :: E) = addEdges (g.addEdge u v) E := rfl

theorem addEdges_append (g : NxGraph) (E F : List (GNode × GNode)) :
    addEdges g (E ++ F) = addEdges (addEdges g E) F := by
  simp [addEdges, ends, insertAll_append]

theorem applyDom_ok (bn : GNode) (k : Nat) : ∀ (os : List Ob) (ws : List GNode) (i : Nat)
    (g : NxGraph), ws.map GNode.obj? = os.map some →
    applyDom bn k i os ws g = .ok (addEdges g (domEdges bn k i os ws)) := by
  intro os
  induction os with
  | nil => intro ws i g _; cases ws <;> rfl
  | cons o os ih =>
    intro ws i g h
    cases ws with
    | nil => simp at h
    | cons w ws =>
      simp only [List.map_cons, List.cons.injEq] at h
      simp only [applyDom, h.1, ne_eq, not_true_eq_false, if_false, domEdges]
      rw [ih ws (i + 1) _ h.2]
      rfl

/-- `codNodes` from index `i`. -/
def codEdgesFrom (bn : GNode) (k : Nat) : Nat → Ty → List (GNode × GNode)
  | _, [] => []
  | i, o :: os => (bn, .cod o i k) :: codEdgesFrom bn k (i + 1) os

theorem codEdgesFrom_eq (bn : GNode) (k : Nat) (cod : Ty) (i : Nat) :
    codEdgesFrom bn k i cod = (cod.mapIdx (fun j o => GNode.cod o (i + j) k)).map (fun v => (bn, v)) := by
  induction cod generalizing i with
  | nil => rfl
  | cons o os ih =>
    simp only [codEdgesFrom, List.mapIdx_cons, List.map_cons, Nat.add_zero, ih (i + 1)]
    congr 2
    have : (fun j (o : Ob) => GNode.cod o (i + 1 + j) k) = (fun j o => GNode.cod o (i + (j + 1)) k) := by
      funext j o'
      congr 1
      omega
    rw [this]

theorem codEdgesFrom_zero (bn : GNode) (k : Nat) (cod : Ty) :
    codEdgesFrom bn k 0 cod = codEdges bn k cod := by
  rw [codEdgesFrom_eq]; simp [codEdges, codNodes]

theorem applyCod_eq (bn : GNode) (k : Nat) : ∀ (os : Ty) (i : Nat) (g : NxGraph),
    applyCod bn k i os g = addEdges g (codEdgesFrom bn k i os) := by
  intro os
  induction os with
  | nil => intro i g; rfl
  | cons o os ih => intro i g; simp only [applyCod, codEdgesFrom, ih]; rfl

/-- The edges of the output nodes, drawing.py:887-892. -/
def outEdgesFrom : Nat → List Ob → List GNode → List (GNode × GNode)
  | i, o :: os, w :: ws => (w, .output o i) :: outEdgesFrom (i + 1) os ws
  | _, _, _ => []

theorem addOutputs_ok : ∀ (os : List Ob) (ws : List GNode) (i : Nat) (g : NxGraph),
    ws.map GNode.obj? = os.map some →
    addOutputs i os ws g = .ok (addEdges g (outEdgesFrom i os ws)) := by
  intro os
  induction os with
  | nil => intro ws i g _; cases ws <;> rfl
  | cons o os ih =>
    intro ws i g h
    cases ws with
    | nil => simp at h
    | cons w ws =>
      simp only [List.map_cons, List.cons.injEq] at h
      simp only [addOutputs, h.1, ne_eq, not_true_eq_false, if_false, outEdgesFrom]
      rw [ih ws (i + 1) _ h.2]
      rfl

theorem mem_outEdgesFrom {os : List Ob} {ws : List GNode} {i : Nat} {e : GNode × GNode}
    (h : e ∈ outEdgesFrom i os ws) : ∃ o j w, w ∈ ws ∧ e = (w, .output o j) := by
  induction os generalizing ws i with
  | nil => simp [outEdgesFrom] at h
  | cons o os ih =>
    cases ws with
    | nil => simp [outEdgesFrom] at h
    | cons w ws =>
      simp only [outEdgesFrom, List.mem_cons] at h
      rcases h with rfl | h
      · exact ⟨o, i, w, by simp, rfl⟩
      · obtain ⟨o', j, w', hw, rfl⟩ := ih h
        exact ⟨o', j, w', by simp [hw], rfl⟩

/-! ### One call -/

/-- The edges of the calls `k, k+1, …`. -/
def callsEdges : Nat → List Call → List (GNode × GNode)
  | _, [] => []
  | k, c :: cs => stepEdges k c.box (OffAttr.ofKw c.offset) c.inputs ++ callsEdges (k + 1) cs

def stepsOf (calls : List Call) : List (Box × OffAttr) :=
  calls.map (fun c => (c.box, OffAttr.ofKw c.offset))

theorem apply_ok {sig : List Box} {scan : List GNode} {c : Call} {off : Nat} (g : NxGraph) (k : Nat)
    (h : c.Takes sig scan off) :
    apply sig g k c
      = .ok (addEdges (g.addNode (c.node k)) (stepEdges k c.box (OffAttr.ofKw c.offset) c.inputs)) := by
  obtain ⟨hsig, hty, -, -, -⟩ := h
  have hlen : c.inputs.length = c.box.dom.length := by
    have := congrArg List.length hty; simpa using this
  unfold apply
  rw [if_neg (by simpa using hsig), if_neg (by simpa using hlen)]
  rw [applyDom_ok _ _ _ _ _ _ hty]
  simp only [applyCod_eq, codEdgesFrom_zero, stepEdges, addEdges_append, Call.node]

theorem mem_ends {E : List (GNode × GNode)} {v : GNode} :
    v ∈ ends E ↔ ∃ e ∈ E, v = e.1 ∨ v = e.2 := by
  simp [ends, List.mem_flatMap]

theorem mem_ends_stepEdges {k : Nat} {b : Box} {a : OffAttr} {ws : List GNode} {v : GNode}
    (h : v ∈ ends (stepEdges k b a ws)) :
    v ∈ ws ∨ (∃ o i, v = .dom o i k) ∨ v = .box b k a ∨ (∃ o i, v = .cod o i k) := by
  obtain ⟨e, he, hv⟩ := mem_ends.mp h
  simp only [stepEdges, List.mem_append] at he
  rcases he with he | he
  · rcases mem_domEdges he with ⟨o, j, w, -, hw, rfl⟩ | ⟨o, j, -, rfl⟩
    · rcases hv with rfl | rfl
      · exact Or.inl hw
      · exact Or.inr (Or.inl ⟨o, j, rfl⟩)
    · rcases hv with rfl | rfl
      · exact Or.inr (Or.inl ⟨o, j, rfl⟩)
      · exact Or.inr (Or.inr (Or.inl rfl))
  · simp only [codEdges, List.mem_map] at he
    obtain ⟨w, hw, rfl⟩ := he
    obtain ⟨o, i, rfl, -⟩ := mem_codNodes hw
    rcases hv with rfl | rfl
    · exact Or.inr (Or.inr (Or.inl rfl))
    · exact Or.inr (Or.inr (Or.inr ⟨o, i, rfl⟩))

/-- Box nodes of `g` are older than `k`. -/
def BoxesBelow (g : NxGraph) (k : Nat) : Prop := ∀ b d a, GNode.box b d a ∈ g.nodes → d < k

structure CallStep (g g' : NxGraph) (k : Nat) (c : Call) : Prop where
  edges : g'.edges = insertAll g.edges (stepEdges k c.box (OffAttr.ofKw c.offset) c.inputs)
  inputs : g'.inputs = g.inputs
  boxNodes : g'.boxNodes = g.boxNodes ++ [c.node k]
  below : BoxesBelow g' (k + 1)
  mono : ∀ v ∈ g.nodes, v ∈ g'.nodes
  targets : ∀ e ∈ stepEdges k c.box (OffAttr.ofKw c.offset) c.inputs, e.2 ∈ g'.nodes

theorem filter_isInput_of_subset {ns seq : List GNode}
    (h : ∀ v ∈ seq, v.isInput = true → v ∈ ns) :
    (insertAll ns seq).filter GNode.isInput = ns.filter GNode.isInput := by
  rw [filter_insertAll]
  apply insertAll_subset
  intro y hy
  obtain ⟨h1, h2⟩ := List.mem_filter.mp hy
  exact List.mem_filter.mpr ⟨h y h1 h2, h2⟩

theorem filter_isBox_of_subset {ns seq : List GNode}
    (h : ∀ v ∈ seq, v.isBox = true → v ∈ ns) :
    (insertAll ns seq).filter GNode.isBox = ns.filter GNode.isBox := by
  rw [filter_insertAll]
  apply insertAll_subset
  intro y hy
  obtain ⟨h1, h2⟩ := List.mem_filter.mp hy
  exact List.mem_filter.mpr ⟨h y h1 h2, h2⟩

theorem callStep {g : NxGraph} {k : Nat} {c : Call}
    (hws : ∀ w ∈ c.inputs, w.isBox = false ∧ (w.isInput = true → w ∈ g.nodes))
    (hb : BoxesBelow g k) :
    CallStep g (addEdges (g.addNode (c.node k)) (stepEdges k c.box (OffAttr.ofKw c.offset) c.inputs))
      k c := by
  have hfresh : c.node k ∉ g.nodes := fun h => Nat.lt_irrefl k (hb _ _ _ h)
  have hmemE : ∀ v ∈ ends (stepEdges k c.box (OffAttr.ofKw c.offset) c.inputs),
      v ∈ c.inputs ∨ (∃ o i, v = .dom o i k) ∨ v = c.node k ∨ (∃ o i, v = .cod o i k) :=
    fun v hv => mem_ends_stepEdges hv
  refine ⟨rfl, ?_, ?_, ?_, ?_, ?_⟩
  · show (insertAll (insertNew g.nodes (c.node k)) _).filter GNode.isInput = _
    rw [filter_isInput_of_subset]
    · rw [filter_insertNew]; simp [Call.node, GNode.isInput, NxGraph.inputs]
    · intro v hv hi
      rcases hmemE v hv with h | ⟨o, i, rfl⟩ | rfl | ⟨o, i, rfl⟩
      · exact mem_insertNew.mpr (Or.inl ((hws v h).2 hi))
      · simp [GNode.isInput] at hi
      · simp [Call.node, GNode.isInput] at hi
      · simp [GNode.isInput] at hi
  · show (insertAll (insertNew g.nodes (c.node k)) _).filter GNode.isBox = _
    rw [filter_isBox_of_subset]
    · rw [filter_insertNew]
      have : c.node k ∉ g.nodes.filter GNode.isBox := fun h => hfresh (List.mem_filter.mp h).1
      simp [Call.node, GNode.isBox, insertNew, NxGraph.boxNodes] at this ⊢
      simp [this]
    · intro v hv hi
      rcases hmemE v hv with h | ⟨o, i, rfl⟩ | rfl | ⟨o, i, rfl⟩
      · rw [(hws v h).1] at hi; cases hi
      · simp [GNode.isBox] at hi
      · exact mem_insertNew.mpr (Or.inr rfl)
      · simp [GNode.isBox] at hi
  · intro b d a h
    have h' : GNode.box b d a ∈ insertAll (insertNew g.nodes (c.node k)) _ := h
    rcases mem_insertAll.mp h' with h' | h'
    · rcases mem_insertNew.mp h' with h' | h'
      · exact Nat.lt_succ_of_lt (hb _ _ _ h')
      · simp only [Call.node] at h'; injection h' with _ h2 _; omega
    · rcases hmemE _ h' with h'' | ⟨o, i, e⟩ | e | ⟨o, i, e⟩
      · have := (hws _ h'').1; simp [GNode.isBox] at this
      · cases e
      · simp only [Call.node] at e; injection e with _ h2 _; omega
      · cases e
  · intro v hv
    exact mem_insertAll.mpr (Or.inl (mem_insertNew.mpr (Or.inl hv)))
  · intro e he
    refine mem_insertAll.mpr (Or.inr (mem_ends.mpr ⟨e, he, Or.inr rfl⟩))

/-! ### All calls -/

/-- What is known about the graph after the calls `k, k+1, …` of a planar body. -/
structure CallsRun (g g' : NxGraph) (k : Nat) (calls : List Call) : Prop where
  edges : g'.edges = insertAll g.edges (callsEdges k calls)
  inputs : g'.inputs = g.inputs
  boxNodes : g'.boxNodes = g.boxNodes ++ boxNodesFrom k (stepsOf calls)
  mono : ∀ v ∈ g.nodes, v ∈ g'.nodes
  targets : ∀ e ∈ callsEdges k calls, e.2 ∈ g'.nodes

theorem runCalls_planar (sig : List Box) :
    ∀ (calls : List Call) (scan : List GNode) (k : Nat) (offs : List Nat) (fin : List GNode)
      (g : NxGraph), PlanarFrom sig scan k calls offs fin →
      (∀ v ∈ scan, v.isBox = false ∧ (v.isInput = true → v ∈ g.nodes)) → BoxesBelow g k →
      ∃ g', runCalls sig g k calls = .ok g' ∧ CallsRun g g' k calls
        ∧ (∀ v ∈ fin, v.isBox = false ∧ (v.isInput = true → v ∈ g'.nodes)) := by
  intro calls
  induction calls with
  | nil =>
    intro scan k offs fin g hp hs hb
    cases offs with
    | nil =>
      simp only [PlanarFrom] at hp
      subst hp
      exact ⟨g, rfl, ⟨rfl, rfl, by simp [stepsOf, boxNodesFrom], fun v h => h,
        fun e he => by simp [callsEdges] at he⟩, hs⟩
    | cons o offs => simp [PlanarFrom] at hp
  | cons c cs ih =>
    intro scan k offs fin g hp hs hb
    cases offs with
    | nil => simp [PlanarFrom] at hp
    | cons off offs =>
      obtain ⟨ht, hrest⟩ := hp
      have hblock := ht.2.2.2.1
      have hws : ∀ w ∈ c.inputs, w.isBox = false ∧ (w.isInput = true → w ∈ g.nodes) := by
        intro w hw
        rw [← hblock] at hw
        exact hs w (List.mem_of_mem_drop (List.mem_of_mem_take hw))
      have hstep := callStep hws hb
      have hs1 : ∀ v ∈ nextOpen scan off c.inputs.length c.box.cod k, v.isBox = false ∧
          (v.isInput = true → v ∈ (addEdges (g.addNode (c.node k))
            (stepEdges k c.box (OffAttr.ofKw c.offset) c.inputs)).nodes) := by
        intro v hv
        unfold nextOpen at hv
        rcases List.mem_append.mp hv with hv | hv
        · rcases List.mem_append.mp hv with hv | hv
          · have := hs v (List.mem_of_mem_take hv)
            exact ⟨this.1, fun hi => hstep.mono v (this.2 hi)⟩
          · obtain ⟨o, i, rfl, -⟩ := mem_codNodes hv
            exact ⟨rfl, fun hi => by simp [GNode.isInput] at hi⟩
        · have := hs v (List.mem_of_mem_drop hv)
          exact ⟨this.1, fun hi => hstep.mono v (this.2 hi)⟩
      obtain ⟨g', hrun, hcr, hfin⟩ := ih _ (k + 1) offs fin _ hrest hs1 hstep.below
      refine ⟨g', ?_, ⟨?_, ?_, ?_, ?_, ?_⟩, hfin⟩
      · simp only [runCalls, apply_ok g k ht]; exact hrun
      · rw [hcr.edges, hstep.edges, callsEdges, insertAll_append]
      · rw [hcr.inputs, hstep.inputs]
      · rw [hcr.boxNodes, hstep.boxNodes]
        simp [stepsOf, boxNodesFrom, Call.node]
      · exact fun v hv => hcr.mono v (hstep.mono v hv)
      · intro e he
        simp only [callsEdges, List.mem_append] at he
        rcases he with he | he
        · exact hcr.mono _ (hstep.targets e he)
        · exact hcr.targets e he

/-! ### From `PlanarFrom` to the vocabulary of Proofs/NxEdges.lean -/

theorem takes_length {sig : List Box} {scan : List GNode} {c : Call} {off : Nat}
    (h : c.Takes sig scan off) : c.inputs.length = c.box.dom.length := by
  have := congrArg List.length h.2.1; simpa using this

theorem planarSteps_of_planarFrom (sig : List Box) :
    ∀ (calls : List Call) (scan : List GNode) (k : Nat) (offs : List Nat) (fin : List GNode),
      PlanarFrom sig scan k calls offs fin →
      PlanarSteps scan k (stepsOf calls) offs fin
        ∧ stepsEdges scan k (stepsOf calls) offs = callsEdges k calls := by
  intro calls
  induction calls with
  | nil =>
    intro scan k offs fin hp
    cases offs with
    | nil => exact ⟨hp, rfl⟩
    | cons o offs => exact hp.elim
  | cons c cs ih =>
    intro scan k offs fin hp
    cases offs with
    | nil => exact hp.elim
    | cons off offs =>
      obtain ⟨ht, hrest⟩ := hp
      have hlen := takes_length ht
      obtain ⟨-, hty, hrange, hblock, hoff⟩ := ht
      rw [hlen] at hrest hrange hblock
      obtain ⟨h1, h2⟩ := ih _ (k + 1) offs fin hrest
      refine ⟨⟨hrange, by rw [hblock]; exact hty, ?_, h1⟩, ?_⟩
      · intro hd
        have : c.inputs = [] := by
          have : c.inputs.length = 0 := by rw [hlen]; simp [show c.box.dom = [] from hd]
          exact List.length_eq_zero_iff.mp this
        rw [show (c.box, OffAttr.ofKw c.offset).2 = OffAttr.ofKw c.offset from rfl, hoff this]
        rfl
      · simp only [stepsOf, List.map_cons, stepsEdges, callsEdges]
        rw [hblock]
        exact congrArg _ h2

/-! ### The theorem -/

theorem diagramize_planar {sig : List Box} {hasId : Bool} {dom cod : Ty} {body : Body}
    {offs : List Nat} (hid : hasId = true ∨ sig ≠ [])
    (hp : PlanarFrom sig (inputNodes dom) 0 body.calls offs body.ret)
    (hcod : body.ret.map GNode.obj? = cod.map some) :
    ∃ d, diagramize sig hasId dom cod body = .ok d ∧ d.WF ∧ d.dom = dom ∧ d.cod = cod
      ∧ d.boxes = body.calls.map (·.box) ∧ d.offsets = offs.map (fun (o : Nat) => (o : Int)) := by
  have hs0 : ∀ v ∈ inputNodes dom, v.isBox = false ∧ (v.isInput = true → v ∈ (initGraph dom).nodes) :=
    fun v hv => ⟨(inputNodes_open dom v hv).notBox, fun _ => hv⟩
  have hb0 : BoxesBelow (initGraph dom) 0 := by
    intro b d a h
    have := (inputNodes_open dom _ h)
    simp [GNode.OpenAt] at this
  obtain ⟨g, hrun, hcr, hfin⟩ :=
    runCalls_planar sig body.calls (inputNodes dom) 0 offs body.ret (initGraph dom) hp hs0 hb0
  obtain ⟨hps, hse⟩ := planarSteps_of_planarFrom sig body.calls (inputNodes dom) 0 offs body.ret hp
  -- the graph handed to `nx2diagram`
  have hbg : bodyGraph sig dom cod body = .ok (addEdges g (outEdgesFrom 0 cod body.ret)) := by
    unfold bodyGraph
    rw [hrun]
    exact addOutputs_ok cod body.ret 0 g hcod
  have hin0 : (initGraph dom).inputs = inputNodes dom := by
    show (inputNodes dom).filter GNode.isInput = inputNodes dom
    rw [List.filter_eq_self]
    intro v hv
    obtain ⟨i, hi, e⟩ := List.mem_mapIdx.mp hv
    subst e; rfl
  have hbx0 : (initGraph dom).boxNodes = [] := by
    show (inputNodes dom).filter GNode.isBox = []
    rw [List.filter_eq_nil_iff]
    intro v hv
    rw [(inputNodes_open dom v hv).notBox]; simp
  have houtE : ∀ v ∈ ends (outEdgesFrom 0 cod body.ret),
      v ∈ body.ret ∨ ∃ o j, v = .output o j := by
    intro v hv
    obtain ⟨e, he, hv⟩ := mem_ends.mp hv
    obtain ⟨o, j, w, hw, rfl⟩ := mem_outEdgesFrom he
    rcases hv with rfl | rfl
    · exact Or.inl hw
    · exact Or.inr ⟨o, j, rfl⟩
  have hin : (addEdges g (outEdgesFrom 0 cod body.ret)).inputs = inputNodes dom := by
    show (insertAll g.nodes _).filter GNode.isInput = _
    rw [filter_isInput_of_subset]
    · exact hcr.inputs.trans hin0
    · intro v hv hi
      rcases houtE v hv with h | ⟨o, j, rfl⟩
      · exact (hfin v h).2 hi
      · simp [GNode.isInput] at hi
  have hbx : (addEdges g (outEdgesFrom 0 cod body.ret)).boxNodes
      = boxNodesFrom 0 (stepsOf body.calls) := by
    show (insertAll g.nodes _).filter GNode.isBox = _
    rw [filter_isBox_of_subset]
    · have := hcr.boxNodes; rw [hbx0] at this; simpa [NxGraph.boxNodes] using this
    · intro v hv hi
      rcases houtE v hv with h | ⟨o, j, rfl⟩
      · rw [(hfin v h).1] at hi; cases hi
      · simp [GNode.isBox] at hi
  have hview : EdgeView (addEdges g (outEdgesFrom 0 cod body.ret))
      ([] ++ stepsEdges (inputNodes dom) 0 (stepsOf body.calls) offs
        ++ outEdgesFrom 0 cod body.ret) := by
    rw [hse]
    constructor
    · intro p hn
      show (insertAll g.edges _).filter p = _
      rw [hcr.edges, ← insertAll_append, filter_insertAll]
      show insertAll [] _ = _
      simp only [List.nil_append] at hn ⊢
      exact insertAll_nil_nodup hn
    · intro e he
      simp only [List.nil_append, List.mem_append] at he
      rcases he with he | he
      · exact mem_insertAll.mpr (Or.inl (hcr.targets e he))
      · exact mem_insertAll.mpr (Or.inr (mem_ends.mpr ⟨e, he, Or.inr rfl⟩))
  have hra := readsAll_of_view _ (stepsOf body.calls) (inputNodes dom) 0 offs body.ret []
    (outEdgesFrom 0 cod body.ret) hview (by simp)
    (by
      intro e he j
      obtain ⟨o, i, w, hw, rfl⟩ := mem_outEdgesFrom he
      refine ⟨fun o' j' e => (by cases e), fun b a e => ?_⟩
      have := (hfin w hw).1
      simp only at e; rw [e] at this; simp [GNode.isBox] at this)
    hps (fun v hv => (hs0 v hv).1)
  obtain ⟨d, hd, hwf, hdom, hdc, hboxes, hoffs⟩ := nx2diagram_spec hin hbx hra
  have hdcod : d.cod = cod := by
    rw [hcod] at hdc
    exact (map_some_inj hdc).symm
  refine ⟨d, ?_, hwf, hdom, hdcod, ?_, hoffs⟩
  · unfold diagramize
    have hne : (!hasId && sig.isEmpty) = false := by
      rcases hid with h | h
      · simp [h]
      · cases sig with
        | nil => exact absurd rfl h
        | cons b bs => simp
    rw [hne]
    simp only [Bool.false_eq_true, if_false, hbg, hd, checkCod, hdcod, ne_eq, not_true_eq_false]
  · rw [hboxes]; simp [stepsOf]

/-! ### The decision procedure and the open wires before each call -/

theorem planarOffsets_sound (sig : List Box) :
    ∀ (calls : List Call) (scan : List GNode) (k : Nat) (ret : List GNode) (offs : List Nat),
      planarOffsets sig scan k calls ret = some offs → PlanarFrom sig scan k calls offs ret := by
  intro calls
  induction calls with
  | nil =>
    intro scan k ret offs h
    simp only [planarOffsets] at h
    split at h
    · rename_i e; cases h; exact e
    · cases h
  | cons c cs ih =>
    intro scan k ret offs h
    simp only [planarOffsets] at h
    split at h
    · cases h
    · rename_i off _
      split at h
      · rename_i ht
        cases hr : planarOffsets sig (nextOpen scan off c.inputs.length c.box.cod k) (k + 1) cs ret with
        | none => rw [hr] at h; cases h
        | some offs' =>
          rw [hr] at h
          simp only [Option.map_some, Option.some.injEq] at h
          subst h
          exact ⟨ht, ih _ _ _ _ hr⟩
      · cases h

theorem planarFrom_openBefore (sig : List Box) :
    ∀ (calls : List Call) (scan : List GNode) (depth : Nat) (offs : List Nat) (fin : List GNode),
      PlanarFrom sig scan depth calls offs fin →
      (∀ (k : Nat) (c : Call) (off : Nat), calls[k]? = some c → offs[k]? = some off →
          c.Takes sig (openBefore scan depth calls offs k) off)
        ∧ openBefore scan depth calls offs calls.length = fin := by
  intro calls
  induction calls with
  | nil =>
    intro scan depth offs fin hp
    cases offs with
    | nil => exact ⟨fun k c off h => by simp at h, hp⟩
    | cons o offs => exact hp.elim
  | cons c cs ih =>
    intro scan depth offs fin hp
    cases offs with
    | nil => exact hp.elim
    | cons off offs =>
      obtain ⟨ht, hrest⟩ := hp
      obtain ⟨h1, h2⟩ := ih _ (depth + 1) offs fin hrest
      refine ⟨?_, by simpa [openBefore] using h2⟩
      intro k c' off' hc ho
      cases k with
      | zero =>
        simp only [List.getElem?_cons_zero, Option.some.injEq] at hc ho
        subst hc; subst ho
        exact ht
      | succ k =>
        simp only [List.getElem?_cons_succ] at hc ho
        exact h1 k c' off' hc ho

theorem openBefore_nodup :
    ∀ (calls : List Call) (scan : List GNode) (depth : Nat) (offs : List Nat) (k : Nat),
      scan.Nodup → (∀ v ∈ scan, GNode.OpenAt depth v) →
      (openBefore scan depth calls offs k).Nodup := by
  intro calls
  induction calls with
  | nil => intro scan depth offs k hn _; cases k <;> simpa [openBefore] using hn
  | cons c cs ih =>
    intro scan depth offs k hn ho
    cases k with
    | zero => simpa [openBefore] using hn
    | succ k =>
      cases offs with
      | nil => simpa [openBefore] using hn
      | cons off offs =>
        simp only [openBefore]
        exact ih _ (depth + 1) offs k (nextOpen_nodup hn ho _ _ _) (nextOpen_open ho _ _ _)

/-- The offset of a call with arguments is the position of its first argument among the wires
    that are open when it is made. -/
theorem planar_first_arg_index {sig : List Box} {dom : Ty} {calls : List Call} {offs : List Nat}
    {fin : List GNode} (hp : PlanarFrom sig (inputNodes dom) 0 calls offs fin) {k : Nat} {c : Call}
    {off : Nat} {w : GNode} (hc : calls[k]? = some c) (ho : offs[k]? = some off)
    (hw : c.inputs[0]? = some w) :
    (openBefore (inputNodes dom) 0 calls offs k).idxOf w = off := by
  have ht := (planarFrom_openBefore sig calls _ 0 offs fin hp).1 k c off hc ho
  have hn := openBefore_nodup calls (inputNodes dom) 0 offs k (inputNodes_nodup dom)
    (inputNodes_open dom)
  obtain ⟨-, -, hrange, hblock, -⟩ := ht
  generalize openBefore (inputNodes dom) 0 calls offs k = sc at hn hrange hblock
  have hpos : 0 < c.inputs.length := by
    rcases Nat.lt_or_ge 0 c.inputs.length with h | h
    · exact h
    · rw [List.getElem?_eq_none h] at hw; cases hw
  have hl : off < sc.length := by omega
  have : sc[off]? = some w := by
    have := congrArg (fun l => l[0]?) hblock
    simp only [List.getElem?_take_of_lt hpos, List.getElem?_drop, Nat.add_zero] at this
    rw [this, hw]
  rw [List.getElem?_eq_getElem hl] at this
  injection this with this
  rw [← this]
  exact hn.idxOf_getElem off hl

end DV.Dz
