/-
  Proofs/TensorExchange.lean — the layer exchange law for tensors: two layers whose boxes act
  on disjoint wires commute,
    (L ⊗ f ⊗ M ⊗ C ⊗ R) ≫ (L ⊗ B ⊗ M ⊗ g ⊗ R) = (L ⊗ A ⊗ M ⊗ g ⊗ R) ≫ (L ⊗ f ⊗ M ⊗ D ⊗ R)
  for `f : A → B`, `g : C → D`, as an equality of tensors (both sides computed entrywise).
-/
import Proofs.TensorLayer

namespace DV
namespace Tensor
open NDArray

section
variable {R : Type} [CommSemiring R]

theorem append3_inj {m c r m' c' r' : List Nat} (hm : m.length = m'.length)
    (hc : c.length = c'.length) :
    (m ++ c) ++ r = (m' ++ c') ++ r' ↔ m = m' ∧ c = c' ∧ r = r' := by
  constructor
  · intro h
    obtain ⟨h1, h2⟩ := List.append_inj h (by simp [hm, hc])
    obtain ⟨h3, h4⟩ := List.append_inj h1 hm
    exact ⟨h3, h4, h2⟩
  · rintro ⟨rfl, rfl, rfl⟩; rfl

theorem ite_and3 (p q r : Prop) [Decidable p] [Decidable q] [Decidable r] :
    (if p ∧ q ∧ r then (1 : R) else 0)
      = (if p then 1 else 0) * ((if q then 1 else 0) * (if r then 1 else 0)) := by
  by_cases hp : p <;> by_cases hq : q <;> by_cases hr : r <;> simp [hp, hq, hr]

/-- Entries of `(L ⊗ f ⊗ (M ⊗ C ⊗ Rr)) ≫ ((L ⊗ B ⊗ M) ⊗ g ⊗ Rr)`. -/
theorem exchange_left_entry (L M Rr : List Nat) (f g : Tensor R) (hf : f.WF) (hg : g.WF)
    {l a m c r l' b m' d r' : List Nat}
    (hl : InRange L l) (ha : InRange f.dom a) (hm : InRange M m) (hc : InRange g.dom c)
    (hr : InRange Rr r) (hl' : InRange L l') (hb : InRange f.cod b) (hm' : InRange M m')
    (hd : InRange g.cod d) (hr' : InRange Rr r')
    (hcomp : (layerT L ((M ++ g.dom) ++ Rr) f).cod
      = (((L ++ f.cod) ++ M) ++ g.dom) ++ Rr) :
    (thenCore (layerT L ((M ++ g.dom) ++ Rr) f) (layerT ((L ++ f.cod) ++ M) Rr g)).entry
        (((l ++ a) ++ ((m ++ c) ++ r)) ++ ((((l' ++ b) ++ m') ++ d) ++ r'))
      = (if l = l' then 1 else 0) * f.entry (a ++ b) * (if m = m' then 1 else 0)
          * g.entry (c ++ d) * (if r = r' then 1 else 0) := by
  have hX := layerT_wf L ((M ++ g.dom) ++ Rr) f hf
  have hxdom : InRange (layerT L ((M ++ g.dom) ++ Rr) f).dom ((l ++ a) ++ ((m ++ c) ++ r)) :=
    inRange_append (inRange_append hl ha) (inRange_append (inRange_append hm hc) hr)
  rw [then_layer_entry _ g _ _ hX hg hcomp hxdom
    (inRange_append (inRange_append hl' hb) hm') hd hr']
  rw [sumOver_congr (g := fun c' => (if c = c' then 1 else 0) *
      ((if l = l' then 1 else 0) * f.entry (a ++ b) * (if m = m' then 1 else 0)
        * (if r = r' then 1 else 0) * g.entry (c' ++ d))) (fun c' hc' => ?_)]
  · rw [sumOver_delta hc]; ring
  · have e : (((l' ++ b) ++ m') ++ c') ++ r' = (l' ++ b) ++ ((m' ++ c') ++ r') := by
      simp [List.append_assoc]
    rw [e, layerT_entry L _ f hf hl ha (inRange_append (inRange_append hm hc) hr) hl' hb
      (inRange_append (inRange_append hm' hc') hr')]
    have hi := append3_inj (r := r) (r' := r') (by rw [hm.length_eq, hm'.length_eq] : m.length = m'.length)
      (by rw [hc.length_eq, hc'.length_eq] : c.length = c'.length)
    simp only [hi]
    rw [ite_and3]
    ring

/-- Entries of `((L ⊗ A ⊗ M) ⊗ g ⊗ Rr) ≫ (L ⊗ f ⊗ (M ⊗ D ⊗ Rr))`. -/
theorem exchange_right_entry (L M Rr : List Nat) (f g : Tensor R) (hf : f.WF) (hg : g.WF)
    {l a m c r l' b m' d r' : List Nat}
    (hl : InRange L l) (ha : InRange f.dom a) (hm : InRange M m) (hc : InRange g.dom c)
    (hr : InRange Rr r) (hl' : InRange L l') (hb : InRange f.cod b) (hm' : InRange M m')
    (hd : InRange g.cod d) (hr' : InRange Rr r')
    (hcomp : (layerT ((L ++ f.dom) ++ M) Rr g).cod
      = (L ++ f.dom) ++ ((M ++ g.cod) ++ Rr)) :
    (thenCore (layerT ((L ++ f.dom) ++ M) Rr g) (layerT L ((M ++ g.cod) ++ Rr) f)).entry
        (((((l ++ a) ++ m) ++ c) ++ r) ++ ((l' ++ b) ++ ((m' ++ d) ++ r')))
      = (if l = l' then 1 else 0) * f.entry (a ++ b) * (if m = m' then 1 else 0)
          * g.entry (c ++ d) * (if r = r' then 1 else 0) := by
  have hX := layerT_wf ((L ++ f.dom) ++ M) Rr g hg
  have hxdom : InRange (layerT ((L ++ f.dom) ++ M) Rr g).dom ((((l ++ a) ++ m) ++ c) ++ r) :=
    inRange_append (inRange_append (inRange_append (inRange_append hl ha) hm) hc) hr
  rw [then_layer_entry _ f _ _ hX hf hcomp hxdom hl' hb
    (inRange_append (inRange_append hm' hd) hr')]
  rw [sumOver_congr (g := fun a' => (if a = a' then 1 else 0) *
      ((if l = l' then 1 else 0) * (if m = m' then 1 else 0) * g.entry (c ++ d)
        * (if r = r' then 1 else 0) * f.entry (a' ++ b))) (fun a' ha' => ?_)]
  · rw [sumOver_delta ha]; ring
  · have e : (l' ++ a') ++ ((m' ++ d) ++ r') = (((l' ++ a') ++ m') ++ d) ++ r' := by
      simp [List.append_assoc]
    rw [e, layerT_entry _ Rr g hg (inRange_append (inRange_append hl ha) hm) hc hr
      (inRange_append (inRange_append hl' ha') hm') hd hr']
    have hi := append3_inj (r := m) (r' := m') (by rw [hl.length_eq, hl'.length_eq] : l.length = l'.length)
      (by rw [ha.length_eq, ha'.length_eq] : a.length = a'.length)
    simp only [hi]
    rw [ite_and3]
    ring

/-- **Layer exchange law for tensors**: layers acting on disjoint wires commute. -/
theorem layer_exchange (L M Rr : List Nat) (f g : Tensor R) (hf : f.WF) (hg : g.WF) :
    thenCore (layerT L ((M ++ g.dom) ++ Rr) f) (layerT ((L ++ f.cod) ++ M) Rr g)
      = thenCore (layerT ((L ++ f.dom) ++ M) Rr g) (layerT L ((M ++ g.cod) ++ Rr) f) := by
  have h1 : (layerT L ((M ++ g.dom) ++ Rr) f).cod = (((L ++ f.cod) ++ M) ++ g.dom) ++ Rr := by
    simp [List.append_assoc]
  have h2 : (layerT ((L ++ f.dom) ++ M) Rr g).cod = (L ++ f.dom) ++ ((M ++ g.cod) ++ Rr) := by
    simp [List.append_assoc]
  apply ext_entry
    (s := thenCore (layerT L ((M ++ g.dom) ++ Rr) f) (layerT ((L ++ f.cod) ++ M) Rr g))
    (t := thenCore (layerT ((L ++ f.dom) ++ M) Rr g) (layerT L ((M ++ g.cod) ++ Rr) f))
    (thenCore_wf _ _ (layerT_wf _ _ f hf) (layerT_wf _ _ g hg) h1)
    (thenCore_wf _ _ (layerT_wf _ _ g hg) (layerT_wf _ _ f hf) h2)
    (by simp [List.append_assoc]) (by simp [List.append_assoc])
  intro x hx
  have hx' : InRange (((L ++ f.dom) ++ ((M ++ g.dom) ++ Rr))
      ++ ((((L ++ f.cod) ++ M) ++ g.cod) ++ Rr)) x := hx
  obtain ⟨xd, xc, rfl, hxd, hxc⟩ := split2 hx'
  obtain ⟨la, mcr, rfl, hla, hmcr⟩ := split2 hxd
  obtain ⟨l, a, rfl, hl, ha⟩ := split2 hla
  obtain ⟨mc, r, rfl, hmc, hr⟩ := split2 hmcr
  obtain ⟨m, c, rfl, hm, hc⟩ := split2 hmc
  obtain ⟨lbmd, r', rfl, hlbmd, hr'⟩ := split2 hxc
  obtain ⟨lbm, d, rfl, hlbm, hd⟩ := split2 hlbmd
  obtain ⟨lb, m', rfl, hlb, hm'⟩ := split2 hlbm
  obtain ⟨l', b, rfl, hl', hb⟩ := split2 hlb
  rw [exchange_left_entry L M Rr f g hf hg hl ha hm hc hr hl' hb hm' hd hr' h1]
  have e : ((l ++ a) ++ ((m ++ c) ++ r)) ++ ((((l' ++ b) ++ m') ++ d) ++ r')
      = ((((l ++ a) ++ m) ++ c) ++ r) ++ ((l' ++ b) ++ ((m' ++ d) ++ r')) := by
    simp [List.append_assoc]
  rw [e, exchange_right_entry L M Rr f g hf hg hl ha hm hc hr hl' hb hm' hd hr' h2]

end
end Tensor
end DV
