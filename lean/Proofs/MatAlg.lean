/-
  Proofs/MatAlg.lean — linear algebra of the LIST matrices of Model/Gates.lean (`mul`, `kron`,
  `dagger`, `identity`, `msmul`: the very functions the driver runs) over an arbitrary commutative
  (star) ring, with explicit dimension side conditions.

  A matrix `A : Mat R` is well formed of size `m × n` (`IsMat m n A`) when it has `m` rows of length `n`.
  Every well-formed matrix is the table `tab m n f = [[f i j | j < n] | i < m]` of its entries; every
  operation of the model maps tables to tables (`mul_tab`, `kron_tab`, `dagger_tab`, `identity_eq_tab`,
  `msmul_tab`), with the textbook entry formulas
      (A·B)[i][j] = Σ_{t<k} A[i][t]·B[t][j],   (A⊗B)[i][j] = A[i/p][j/q]·B[i%p][j%q],   A†[j][i] = star A[i][j].
  The laws then are identities between finite sums:
      associativity and identity laws of `mul`, the mixed-product law
      `kron (mul A B) (mul C D) = mul (kron A C) (kron B D)`, associativity of `kron`,
      `identity a ⊗ identity b = identity (a·b)`, `dagger (mul A B) = mul (dagger B) (dagger A)`,
      `dagger (kron A B) = kron (dagger A) (dagger B)`, `dagger (identity n) = identity n`,
      `dagger (dagger A) = A`, and compatibility of all of them with scalar multiples.
  Inner dimensions must be positive where stated: `rowMul [] _ = []`, so a product through dimension 0
  is not the zero matrix but a list of empty rows (the model only multiplies through `2^n ≥ 1`).
-/
import Mathlib.Algebra.BigOperators.Ring.Finset
import Mathlib.Algebra.Star.BigOperators
import Mathlib.Tactic.Ring
import Proofs.Gates

namespace DV.Gates
open Finset

variable {R : Type}

/-- `A` has `m` rows, each of length `n`. -/
def IsMat (m n : Nat) (A : Mat R) : Prop := A.length = m ∧ ∀ r ∈ A, r.length = n

instance (m n : Nat) (A : Mat R) : Decidable (IsMat m n A) := inferInstanceAs (Decidable (_ ∧ _))

/-- Entry `A[i][j]` (zero outside). -/
def ent [Zero R] (A : Mat R) (i j : Nat) : R := (A.getD i []).getD j 0

/-- The `m × n` table of a function of the two indices. -/
def tab (m n : Nat) (f : Nat → Nat → R) : Mat R :=
  (List.range m).map fun i => (List.range n).map fun j => f i j

theorem isMat_tab (m n : Nat) (f : Nat → Nat → R) : IsMat m n (tab m n f) := by
  constructor
  · simp [tab]
  · intro r hr
    simp only [tab, List.mem_map] at hr
    obtain ⟨i, _, rfl⟩ := hr
    simp

theorem tab_congr {m n : Nat} {f g : Nat → Nat → R} (h : ∀ i, i < m → ∀ j, j < n → f i j = g i j) :
    tab m n f = tab m n g := by
  unfold tab
  apply List.map_congr_left
  intro i hi
  apply List.map_congr_left
  intro j hj
  exact h i (List.mem_range.1 hi) j (List.mem_range.1 hj)

theorem ent_tab [Zero R] {m n : Nat} (f : Nat → Nat → R) {i j : Nat} (hi : i < m) (hj : j < n) :
    ent (tab m n f) i j = f i j := by
  simp [ent, tab, List.getD_eq_getElem?_getD, hi, hj]

/-- A well-formed matrix is the table of its entries. -/
theorem IsMat.eq_tab [Zero R] {m n : Nat} {A : Mat R} (h : IsMat m n A) : A = tab m n (ent A) := by
  obtain ⟨h1, h2⟩ := h
  apply List.ext_getElem
  · simp [tab, h1]
  · intro i hi _
    have hr : (A[i]).length = n := h2 _ (List.getElem_mem hi)
    apply List.ext_getElem
    · simp [tab, hr]
    · intro j hj _
      simp [tab, ent, List.getD_eq_getElem?_getD, hi, hj]

theorem isMat_iff [Zero R] {m n : Nat} {A : Mat R} : IsMat m n A ↔ ∃ f, A = tab m n f :=
  ⟨fun h => ⟨_, h.eq_tab⟩, fun ⟨f, h⟩ => h ▸ isMat_tab m n f⟩

/-- Two well-formed matrices with the same entries are equal. -/
theorem IsMat.ext [Zero R] {m n : Nat} {A B : Mat R} (hA : IsMat m n A) (hB : IsMat m n B)
    (h : ∀ i, i < m → ∀ j, j < n → ent A i j = ent B i j) : A = B := by
  rw [hA.eq_tab, hB.eq_tab]
  exact tab_congr h

/-! ### the operations on tables -/

theorem vadd_map_map [Add R] {α : Type} (u v : α → R) (l : List α) :
    vadd (l.map u) (l.map v) = l.map fun x => u x + v x := by
  induction l with
  | nil => simp [vadd]
  | cons x xs ih => simp [vadd, ih]

theorem vadd_nil [Add R] (u : List R) : vadd u [] = u := by
  cases u <;> simp [vadd]

section Ring
variable [CommRing R]

/-- One row of a product, on tables (inner dimension `k + 1 > 0`). -/
theorem rowMul_tab (n : Nat) : ∀ (k : Nat) (a : Nat → R) (g : Nat → Nat → R),
    rowMul ((List.range (k + 1)).map a) (tab (k + 1) n g) =
      (List.range n).map fun j => ∑ t ∈ range (k + 1), a t * g t j
  | 0, a, g => by
    simp [tab, rowMul, vadd_nil, smul]
  | k + 1, a, g => by
    have ih := rowMul_tab n k (fun t => a (t + 1)) (fun t j => g (t + 1) j)
    have e1 : (List.range (k + 1 + 1)).map a = a 0 :: (List.range (k + 1)).map fun t => a (t + 1) := by
      rw [List.range_succ_eq_map]; simp [Function.comp_def]
    have e2 : tab (k + 1 + 1) n g =
        ((List.range n).map fun j => g 0 j) :: tab (k + 1) n (fun t j => g (t + 1) j) := by
      unfold tab; rw [List.range_succ_eq_map]; simp [Function.comp_def]
    rw [e1, e2, rowMul, ih]
    simp only [smul, List.map_map, Function.comp_def]
    rw [vadd_map_map]
    apply List.map_congr_left
    intro j _
    rw [Finset.sum_range_succ' _ (k + 1)]
    rw [add_comm]

/-- **Product of tables** (inner dimension positive). -/
theorem mul_tab {m k n : Nat} (hk : 0 < k) (f g : Nat → Nat → R) :
    mul (tab m k f) (tab k n g) = tab m n fun i j => ∑ t ∈ range k, f i t * g t j := by
  obtain ⟨k, rfl⟩ := Nat.exists_eq_succ_of_ne_zero (Nat.pos_iff_ne_zero.1 hk)
  unfold mul
  conv_lhs => unfold tab
  rw [List.map_map]
  unfold tab
  apply List.map_congr_left
  intro i _
  simp only [Function.comp_def]
  exact rowMul_tab n k (f i) g

/-- Blocks of equal length: `flatMap` over a range is a map over the product range. -/
theorem flatMap_range_map {α : Type} (p : Nat) (F : Nat → Nat → α) : ∀ m : Nat,
    ((List.range m).flatMap fun i => (List.range p).map fun i' => F i i') =
      (List.range (m * p)).map fun u => F (u / p) (u % p)
  | 0 => by simp
  | m + 1 => by
    rw [List.range_succ, List.flatMap_append, flatMap_range_map p F m, Nat.succ_mul, List.range_add,
      List.map_append]
    congr 1
    simp only [List.flatMap_cons, List.flatMap_nil, List.append_nil, List.map_map]
    apply List.map_congr_left
    intro i' hi'
    have hi' : i' < p := List.mem_range.1 hi'
    have hp : 0 < p := by omega
    simp only [Function.comp_def]
    rw [Nat.mul_comm m p, Nat.mul_add_div hp, Nat.mul_add_mod, Nat.div_eq_of_lt hi', Nat.mod_eq_of_lt hi']
    simp

/-- **Kronecker product of tables.** -/
theorem kron_tab (m n p q : Nat) (f g : Nat → Nat → R) :
    kron (tab m n f) (tab p q g) =
      tab (m * p) (n * q) fun i j => f (i / p) (j / q) * g (i % p) (j % q) := by
  unfold kron
  conv_lhs => unfold tab
  rw [List.flatMap_map]
  simp only [List.map_map, Function.comp_def, List.flatMap_map, smul]
  have := flatMap_range_map p
    (fun i i' => (List.range (n * q)).map fun j => f i (j / q) * g i' (j % q)) m
  unfold tab
  rw [← this]
  apply List.flatMap_congr
  intro i _
  apply List.map_congr_left
  intro i' _
  exact flatMap_range_map q (fun j j' => f i j * g i' j') n

/-- **Conjugate transpose of a table** (at least one row). -/
theorem dagger_tab [StarRing R] {m : Nat} (hm : 0 < m) (n : Nat) (f : Nat → Nat → R) :
    dagger (tab m n f) = tab n m fun j i => star (f i j) := by
  unfold dagger tab
  rw [transpose_table f (List.range n) (List.range m) (by simp; omega)]
  simp [Function.comp_def, Conj.conj]

theorem msmul_tab (k : R) (m n : Nat) (f : Nat → Nat → R) :
    msmul k (tab m n f) = tab m n fun i j => k * f i j := by
  simp [msmul, tab, smul, Function.comp_def]

/-- **The identity matrix is the Kronecker-delta table.** -/
theorem identity_eq_tab : ∀ n : Nat, identity (R := R) n = tab n n fun i j => if i = j then 1 else 0
  | 0 => by simp [identity, tab]
  | n + 1 => by
    rw [identity, identity_eq_tab n]
    unfold tab
    rw [List.range_succ_eq_map]
    simp only [List.map_cons, List.map_map, Function.comp_def]
    congr 1
    · congr 1
      symm
      rw [List.eq_replicate_iff]
      simp
    · apply List.map_congr_left
      intro i _
      simp

theorem isMat_identity (n : Nat) : IsMat n n (identity (R := R) n) := by
  rw [identity_eq_tab]; exact isMat_tab _ _ _

end Ring

/-! ### well-formedness is preserved -/

section Laws
variable [CommRing R]

theorem IsMat.mul {m k n : Nat} {A B : Mat R} (hk : 0 < k) (hA : IsMat m k A) (hB : IsMat k n B) :
    IsMat m n (mul A B) := by
  obtain ⟨f, rfl⟩ := isMat_iff.1 hA
  obtain ⟨g, rfl⟩ := isMat_iff.1 hB
  rw [mul_tab hk]; exact isMat_tab _ _ _

theorem IsMat.kron {m n p q : Nat} {A B : Mat R} (hA : IsMat m n A) (hB : IsMat p q B) :
    IsMat (m * p) (n * q) (kron A B) := by
  obtain ⟨f, rfl⟩ := isMat_iff.1 hA
  obtain ⟨g, rfl⟩ := isMat_iff.1 hB
  rw [kron_tab]; exact isMat_tab _ _ _

theorem IsMat.msmul {m n : Nat} {A : Mat R} (c : R) (hA : IsMat m n A) : IsMat m n (msmul c A) := by
  obtain ⟨f, rfl⟩ := isMat_iff.1 hA
  rw [msmul_tab]; exact isMat_tab _ _ _

theorem IsMat.dagger [StarRing R] {m n : Nat} {A : Mat R} (hm : 0 < m) (hA : IsMat m n A) :
    IsMat n m (dagger A) := by
  obtain ⟨f, rfl⟩ := isMat_iff.1 hA
  rw [dagger_tab hm]; exact isMat_tab _ _ _

/-! ### laws of the product -/

/-- **Associativity of `mul`** (inner dimensions positive). -/
theorem mul_assoc_of_isMat {m k l n : Nat} {A B C : Mat R} (hk : 0 < k) (hl : 0 < l)
    (hA : IsMat m k A) (hB : IsMat k l B) (hC : IsMat l n C) :
    mul (mul A B) C = mul A (mul B C) := by
  obtain ⟨f, rfl⟩ := isMat_iff.1 hA
  obtain ⟨g, rfl⟩ := isMat_iff.1 hB
  obtain ⟨h, rfl⟩ := isMat_iff.1 hC
  rw [mul_tab hk, mul_tab hl, mul_tab hl, mul_tab hk]
  apply tab_congr
  intro i _ j _
  simp only [Finset.sum_mul, Finset.mul_sum]
  rw [Finset.sum_comm]
  refine Finset.sum_congr rfl fun s _ => Finset.sum_congr rfl fun t _ => ?_
  ring

theorem mul_identity {m n : Nat} {A : Mat R} (hn : 0 < n) (hA : IsMat m n A) :
    mul A (identity n) = A := by
  obtain ⟨f, rfl⟩ := isMat_iff.1 hA
  rw [identity_eq_tab, mul_tab hn]
  apply tab_congr
  intro i _ j hj
  simp [Finset.sum_ite_eq', hj]

theorem identity_mul {m n : Nat} {A : Mat R} (hm : 0 < m) (hA : IsMat m n A) :
    mul (identity m) A = A := by
  obtain ⟨f, rfl⟩ := isMat_iff.1 hA
  rw [identity_eq_tab, mul_tab hm]
  apply tab_congr
  intro i hi j _
  simp [Finset.sum_ite_eq, hi]

theorem mul_msmul_left {m k n : Nat} {A B : Mat R} (c : R) (hk : 0 < k) (hA : IsMat m k A)
    (hB : IsMat k n B) : mul (msmul c A) B = msmul c (mul A B) := by
  obtain ⟨f, rfl⟩ := isMat_iff.1 hA
  obtain ⟨g, rfl⟩ := isMat_iff.1 hB
  rw [msmul_tab, mul_tab hk, mul_tab hk, msmul_tab]
  apply tab_congr
  intro i _ j _
  rw [Finset.mul_sum]
  exact Finset.sum_congr rfl fun t _ => by ring

theorem mul_msmul_right {m k n : Nat} {A B : Mat R} (c : R) (hk : 0 < k) (hA : IsMat m k A)
    (hB : IsMat k n B) : mul A (msmul c B) = msmul c (mul A B) := by
  obtain ⟨f, rfl⟩ := isMat_iff.1 hA
  obtain ⟨g, rfl⟩ := isMat_iff.1 hB
  rw [msmul_tab, mul_tab hk, mul_tab hk, msmul_tab]
  apply tab_congr
  intro i _ j _
  rw [Finset.mul_sum]
  exact Finset.sum_congr rfl fun t _ => by ring

theorem msmul_msmul {m n : Nat} {A : Mat R} (c c' : R) (hA : IsMat m n A) :
    msmul c (msmul c' A) = msmul (c * c') A := by
  obtain ⟨f, rfl⟩ := isMat_iff.1 hA
  rw [msmul_tab, msmul_tab, msmul_tab]
  exact tab_congr fun i _ j _ => by ring

theorem msmul_one {m n : Nat} {A : Mat R} (hA : IsMat m n A) : msmul 1 A = A := by
  obtain ⟨f, rfl⟩ := isMat_iff.1 hA
  rw [msmul_tab]
  exact tab_congr fun i _ j _ => by ring

/-! ### laws of the Kronecker product -/

/-- A sum over `range (k * l)` is the double sum over quotient and remainder. -/
theorem sum_range_mul (l : Nat) (F : Nat → Nat → R) : ∀ k : Nat,
    ∑ u ∈ range (k * l), F (u / l) (u % l) = ∑ a ∈ range k, ∑ b ∈ range l, F a b
  | 0 => by simp
  | k + 1 => by
    rw [Nat.succ_mul, Finset.sum_range_add, sum_range_mul l F k, Finset.sum_range_succ]
    congr 1
    apply Finset.sum_congr rfl
    intro b hb
    have hb : b < l := Finset.mem_range.1 hb
    have hl : 0 < l := by omega
    rw [Nat.mul_comm k l, Nat.mul_add_div hl, Nat.mul_add_mod, Nat.div_eq_of_lt hb, Nat.mod_eq_of_lt hb]
    simp

/-- **Mixed-product law**: `(A·B) ⊗ (C·D) = (A⊗C)·(B⊗D)` (inner dimensions positive). -/
theorem kron_mul_kron {m k n p l q : Nat} {A B C D : Mat R} (hk : 0 < k) (hl : 0 < l)
    (hA : IsMat m k A) (hB : IsMat k n B) (hC : IsMat p l C) (hD : IsMat l q D) :
    kron (mul A B) (mul C D) = mul (kron A C) (kron B D) := by
  obtain ⟨f, rfl⟩ := isMat_iff.1 hA
  obtain ⟨g, rfl⟩ := isMat_iff.1 hB
  obtain ⟨h, rfl⟩ := isMat_iff.1 hC
  obtain ⟨e, rfl⟩ := isMat_iff.1 hD
  rw [mul_tab hk, mul_tab hl, kron_tab, kron_tab, kron_tab, mul_tab (Nat.mul_pos hk hl)]
  apply tab_congr
  intro i _ j _
  rw [sum_range_mul l (fun a b => f (i / p) a * h (i % p) b * (g a (j / q) * e b (j % q))) k,
    Finset.sum_mul_sum]
  refine Finset.sum_congr rfl fun s _ => Finset.sum_congr rfl fun t _ => ?_
  ring

/-- **Associativity of `kron`.** -/
theorem kron_assoc_of_isMat {m n p q s t : Nat} {A B C : Mat R}
    (hA : IsMat m n A) (hB : IsMat p q B) (hC : IsMat s t C) :
    kron (kron A B) C = kron A (kron B C) := by
  obtain ⟨f, rfl⟩ := isMat_iff.1 hA
  obtain ⟨g, rfl⟩ := isMat_iff.1 hB
  obtain ⟨h, rfl⟩ := isMat_iff.1 hC
  rw [kron_tab, kron_tab, kron_tab, kron_tab, Nat.mul_assoc, Nat.mul_assoc]
  apply tab_congr
  intro i _ j _
  rw [Nat.div_div_eq_div_mul, Nat.div_div_eq_div_mul, Nat.mul_comm s p, Nat.mul_comm t q,
    Nat.mod_mul_left_div_self, Nat.mod_mul_left_div_self, Nat.mod_mul_left_mod, Nat.mod_mul_left_mod]
  ring

theorem kron_identity (a b : Nat) :
    kron (identity (R := R) a) (identity b) = identity (a * b) := by
  rw [identity_eq_tab, identity_eq_tab, identity_eq_tab, kron_tab]
  apply tab_congr
  intro i _ j _
  by_cases h : i = j
  · subst h; simp
  · have : ¬ (i / b = j / b ∧ i % b = j % b) := by
      rintro ⟨h1, h2⟩
      apply h
      rw [← Nat.div_add_mod i b, ← Nat.div_add_mod j b, h1, h2]
    by_cases h1 : i / b = j / b
    · have h2 : ¬ i % b = j % b := fun h2 => this ⟨h1, h2⟩
      simp [h, h2]
    · simp [h, h1]

theorem kron_msmul_left {m n p q : Nat} {A B : Mat R} (c : R) (hA : IsMat m n A) (hB : IsMat p q B) :
    kron (msmul c A) B = msmul c (kron A B) := by
  obtain ⟨f, rfl⟩ := isMat_iff.1 hA
  obtain ⟨g, rfl⟩ := isMat_iff.1 hB
  rw [msmul_tab, kron_tab, kron_tab, msmul_tab]
  exact tab_congr fun i _ j _ => by ring

theorem kron_msmul_right {m n p q : Nat} {A B : Mat R} (c : R) (hA : IsMat m n A) (hB : IsMat p q B) :
    kron A (msmul c B) = msmul c (kron A B) := by
  obtain ⟨f, rfl⟩ := isMat_iff.1 hA
  obtain ⟨g, rfl⟩ := isMat_iff.1 hB
  rw [msmul_tab, kron_tab, kron_tab, msmul_tab]
  exact tab_congr fun i _ j _ => by ring

/-! ### laws of the conjugate transpose -/

section Star
variable [StarRing R]

/-- **`(A·B)† = B†·A†`.** -/
theorem dagger_mul {m k n : Nat} {A B : Mat R} (hm : 0 < m) (hk : 0 < k)
    (hA : IsMat m k A) (hB : IsMat k n B) : dagger (mul A B) = mul (dagger B) (dagger A) := by
  obtain ⟨f, rfl⟩ := isMat_iff.1 hA
  obtain ⟨g, rfl⟩ := isMat_iff.1 hB
  rw [mul_tab hk, dagger_tab hm, dagger_tab hk, dagger_tab hm, mul_tab hk]
  apply tab_congr
  intro j _ i _
  rw [star_sum]
  exact Finset.sum_congr rfl fun t _ => by rw [star_mul']; ring

/-- **`(A⊗B)† = A†⊗B†`.** -/
theorem dagger_kron {m n p q : Nat} {A B : Mat R} (hm : 0 < m) (hp : 0 < p)
    (hA : IsMat m n A) (hB : IsMat p q B) : dagger (kron A B) = kron (dagger A) (dagger B) := by
  obtain ⟨f, rfl⟩ := isMat_iff.1 hA
  obtain ⟨g, rfl⟩ := isMat_iff.1 hB
  rw [kron_tab, dagger_tab (Nat.mul_pos hm hp), dagger_tab hm, dagger_tab hp, kron_tab]
  exact tab_congr fun j _ i _ => by rw [star_mul']

theorem dagger_identity (n : Nat) : dagger (identity (R := R) n) = identity n := by
  rcases Nat.eq_zero_or_pos n with rfl | hn
  · simp [identity, dagger, transpose]
  · rw [identity_eq_tab, dagger_tab hn]
    apply tab_congr
    intro j _ i _
    by_cases h : i = j
    · subst h; simp
    · have h' : ¬ j = i := fun e => h e.symm
      simp [h, h']

theorem dagger_dagger {m n : Nat} {A : Mat R} (hm : 0 < m) (hn : 0 < n) (hA : IsMat m n A) :
    dagger (dagger A) = A := by
  obtain ⟨f, rfl⟩ := isMat_iff.1 hA
  rw [dagger_tab hm, dagger_tab hn]
  exact tab_congr fun i _ j _ => by simp

theorem dagger_msmul {m n : Nat} {A : Mat R} (c : R) (hm : 0 < m) (hA : IsMat m n A) :
    dagger (msmul c A) = msmul (star c) (dagger A) := by
  obtain ⟨f, rfl⟩ := isMat_iff.1 hA
  rw [msmul_tab, dagger_tab hm, dagger_tab hm, msmul_tab]
  exact tab_congr fun j _ i _ => by rw [star_mul']

end Star

/-! ### qubit identities -/

theorem pow2_pos : ∀ n, 0 < pow2 n
  | 0 => by simp [pow2]
  | n + 1 => by have := pow2_pos n; simp [pow2]; omega

theorem pow2_add (a : Nat) : ∀ b, pow2 (a + b) = pow2 a * pow2 b
  | 0 => by simp [pow2]
  | b + 1 => by rw [← Nat.add_assoc, pow2, pow2, pow2_add a b]; ring

theorem isMat_idQ (n : Nat) : IsMat (pow2 n) (pow2 n) (idQ (R := R) n) := isMat_identity _

theorem kron_idQ (a b : Nat) : kron (idQ (R := R) a) (idQ b) = idQ (a + b) := by
  unfold idQ; rw [kron_identity, pow2_add]

theorem dagger_idQ [StarRing R] (n : Nat) : dagger (idQ (R := R) n) = idQ n := dagger_identity _

end Laws

end DV.Gates
