/-
  Proofs/TkBits.lean — preservation of the simulation invariant by the layers that touch the
  bit side: Measure, Bra, override Measure, classical boxes, Swap(bit, bit), Bits.
-/
import Proofs.TkInv

namespace DV.Tk
open DV

/-! ### helpers -/

theorem PS.get_none_of_not_has {ps : PS} {k : Nat} (h : ps.has k = false) : ps.get k = none := by
  rw [PS.has_eq_isSome] at h
  cases hg : ps.get k <;> simp_all

theorem PS.not_has_ge {ps : PS} {n k : Nat} (hlt : ∀ r, ps.has r = true → r < n) (hk : n ≤ k) :
    ps.has k = false := by
  cases h : ps.has k
  · rfl
  · have := hlt k h; omega

theorem outs_map (f : Nat → Nat) (g n : Nat) : (outs g n).map (BV.map f) = outs g n := by
  simp [outs, List.map_map, Function.comp, BV.map]

theorem applyCG_map (f : Nat → Nat) (cg : List CG) (bw : List BV) (name : String) (i o off : Nat) :
    applyCG (cg.map (CG.map f)) (bw.map (BV.map f)) name i o off =
      ((applyCG cg bw name i o off).1.map (CG.map f), (applyCG cg bw name i o off).2.map (BV.map f)) := by
  simp [applyCG, CG.map, List.map_take, List.map_drop, outs_map]

theorem stepRun_map (f : Nat → Nat) (s : List CG × List BV) (l : PBox × Nat) :
    PP.stepRun (s.1.map (CG.map f), s.2.map (BV.map f)) l =
      ((PP.stepRun s l).1.map (CG.map f), (PP.stepRun s l).2.map (BV.map f)) := by
  obtain ⟨b, off⟩ := l
  cases b with
  | swap => simp [PP.stepRun, swapAt_map]
  | gate name i o => simp only [PP.stepRun]; exact applyCG_map f s.1 s.2 name i o off

/-- Register values in the result of a run come from its inputs. -/
def RegsIn (s : List CG × List BV) (ws : List BV) : Prop :=
  (∀ r, BV.reg r ∈ s.2 → BV.reg r ∈ ws) ∧ (∀ c ∈ s.1, ∀ r, BV.reg r ∈ c.2 → BV.reg r ∈ ws)

theorem stepRun_regsIn {s : List CG × List BV} {ws : List BV} (l : PBox × Nat) (h : RegsIn s ws) :
    RegsIn (PP.stepRun s l) ws := by
  obtain ⟨b, off⟩ := l
  cases b with
  | swap => exact ⟨fun r hr => h.1 r (mem_swapAt hr), h.2⟩
  | gate name i o =>
    constructor
    · intro r hr
      simp only [PP.stepRun, applyCG, List.mem_append] at hr
      rcases hr with (hr | hr) | hr
      · exact h.1 r (List.mem_of_mem_take hr)
      · simp [outs] at hr
      · exact h.1 r (List.mem_of_mem_drop hr)
    · intro c hc r hr
      simp only [PP.stepRun, applyCG, List.mem_append, List.mem_singleton] at hc
      rcases hc with hc | hc
      · exact h.2 c hc r hr
      · subst hc
        exact h.1 r (List.mem_of_mem_drop (List.mem_of_mem_take hr))

theorem run_regsIn (pp : PP) (ws : List BV) : RegsIn (pp.run ws) ws := by
  unfold PP.run
  have : ∀ (layers : List (PBox × Nat)) (s : List CG × List BV), RegsIn s ws →
      RegsIn (layers.foldl PP.stepRun s) ws := by
    intro layers
    induction layers with
    | nil => intro s h; exact h
    | cons l t ih => intro s h; exact ih _ (stepRun_regsIn l h)
  exact this pp.layers ([], ws) ⟨fun r hr => hr, fun c hc => by cases hc⟩

/-- Registers named by live bit wires or consumed by classical boxes are read-out registers. -/
theorem Inv.bw_in_dreg {sp st ρq ρb dreg} (h : Inv sp st ρq ρb dreg) :
    (∀ β, BV.reg β ∈ sp.bw → ρb β ∈ dreg) ∧ (∀ c ∈ sp.cg, ∀ β, BV.reg β ∈ c.2 → ρb β ∈ dreg) := by
  have hr := run_regsIn st.pp (dreg.map .reg)
  rw [h.ref.pp] at hr
  constructor
  · intro β hβ
    have : BV.reg (ρb β) ∈ sp.bw.map (BV.map ρb) := List.mem_map.mpr ⟨_, hβ, rfl⟩
    have := hr.1 _ this
    simpa using this
  · intro c hc β hβ
    have hc' : CG.map ρb c ∈ sp.cg.map (CG.map ρb) := List.mem_map_of_mem hc
    have : BV.reg (ρb β) ∈ (CG.map ρb c).2 := List.mem_map.mpr ⟨_, hβ, rfl⟩
    have := hr.2 _ hc' _ this
    simpa using this

theorem IsReadout.lt {st : St} {dreg : List Nat} (h : IsReadout st dreg) {r : Nat} (hr : r ∈ dreg) :
    r < st.nb ∧ st.ps.has r = false := (h.2 r).mp hr

theorem insertAt_length {α} (xs : List α) (k : Nat) (new : List α) :
    (insertAt xs k new).length = xs.length + new.length := by
  simp only [insertAt, List.length_append, List.length_take, List.length_drop]; omega

/-- New id `old ↦ r`, all others unchanged. -/
def extend1 (ρ : Nat → Nat) (old r : Nat) (β : Nat) : Nat := if β < old then ρ β else r

theorem extend1_inj {ρ : Nat → Nat} {old total : Nat} (h : InjBelow ρ old total) :
    InjBelow (extend1 ρ old total) (old + 1) (total + 1) := by
  constructor
  · intro a _
    unfold extend1; split
    · rename_i hlt; have := h.1 a hlt; omega
    · omega
  · intro a b ha hb hab
    unfold extend1 at hab
    split at hab <;> split at hab
    · rename_i h1 h2; exact h.2 a b h1 h2 hab
    · rename_i h1 h2; have := h.1 a h1; omega
    · rename_i h1 h2; have := h.1 b h2; omega
    · omega

/-! ### Measure -/

theorem measureOne_inv {sp : Sp} {st st' : St} {ρq ρb dreg} {lq lb j : Nat}
    (h : Inv sp st ρq ρb dreg) (hs : measureOne st lq lb j = .ok st') :
    ∃ sp' ρb' dreg', Sp.measureOne sp lq lb j = .ok sp' ∧ Inv sp' st' ρq ρb' dreg' := by
  unfold measureOne at hs
  split at hs
  · cases hs
  · rename_i q hq
    split at hs
    · cases hs
    · rename_i pp' hadd
      cases hs
      rw [h.ref.qubits, List.getElem?_map] at hq
      cases ha : sp.qw[lq + j]? with
      | none => simp [ha] at hq
      | some a =>
        simp only [ha, Option.map_some, Option.some.injEq] at hq
        have hws : (dreg.map BV.reg).length = st.pp.dom := by simp [h.ref.ppdom]
        obtain ⟨hrun, hwf', hdom', hcod', hlen, _, hlay⟩ := PP.addWire_run h.ppwf hadd (dreg.map .reg) (.reg st.nb) hws
        have hnb := h.ref.nb
        have hold : ∀ β, β < sp.nb → extend1 ρb sp.nb st.nb β = ρb β := by
          intro β hβ; simp [extend1, hβ]
        have hnew : extend1 ρb sp.nb st.nb sp.nb = st.nb := by simp [extend1]
        refine ⟨_, extend1 ρb sp.nb st.nb, dreg ++ [st.nb], by simp only [Sp.measureOne, ha]; rfl, ?_⟩
        · refine { ref := { nq := h.ref.nq, nb := ?_, injq := h.ref.injq, injb := ?_, cmds := ?_,
                            qubits := h.ref.qubits, ps := ?_, scal := h.ref.scal, readout := ?_,
                            ppdom := ?_, pp := ?_ },
                   qw_lt := h.qw_lt, qsorted := h.qsorted, cmd_ids := ?_, bw_lt := ?_, cg_lt := ?_,
                   ps_lt := ?_, sps_lt := ?_, bits_lt := ?_, raw := ?_, ppcod := ?_, ppwf := hwf' }
          · simp [hnb]
          · exact extend1_inj h.ref.injb
          · simp only [List.map_append, List.map_cons, List.map_nil]
            rw [h.ref.cmds, cmds_congr h.cmd_ids (fun a _ => rfl) (fun β hβ => (hold β hβ).symm)]
            simp [Cmd.map, hq, hnew]
          · intro β hβ
            simp only at hβ ⊢
            by_cases hlt : β < sp.nb
            · rw [hold β hlt]; exact h.ref.ps β hlt
            · have : β = sp.nb := by omega
              subst this
              rw [hnew, PS.get_none_of_not_has (PS.not_has_ge h.ps_lt (Nat.le_refl _)),
                  PS.get_none_of_not_has (PS.not_has_ge h.sps_lt (Nat.le_refl _))]
          · obtain ⟨hp, hm⟩ := h.ref.readout
            constructor
            · rw [List.pairwise_append]
              refine ⟨hp, by simp, ?_⟩
              intro x hx y hy
              simp only [List.mem_singleton] at hy; subst hy
              exact ((hm x).mp hx).1
            · intro r
              simp only [List.mem_append, List.mem_singleton, hm r]
              constructor
              · rintro (⟨h1, h2⟩ | rfl)
                · exact ⟨by omega, h2⟩
                · exact ⟨by omega, PS.not_has_ge h.ps_lt (Nat.le_refl _)⟩
              · rintro ⟨h1, h2⟩
                by_cases hr : r = st.nb
                · exact .inr hr
                · exact .inl ⟨by omega, h2⟩
          · simp [hdom', h.ref.ppdom]
          · simp only [List.map_append, List.map_cons, List.map_nil]
            rw [hrun, h.ref.pp]
            congr 1
            · exact cg_congr h.cg_lt (fun β hβ => (hold β hβ).symm)
            · rw [insertAt_map, bw_congr h.bw_lt (fun β hβ => (hold β hβ).symm)]
              simp [BV.map, hnew]
          · exact (h.cmd_ids.mono (Nat.le_refl _) (Nat.le_succ _)).snoc
              (by intro x hx; simp only [List.mem_singleton] at hx; subst hx
                  exact h.qw_lt _ (List.mem_of_getElem? ha))
              (by intro x hx; simp only [List.mem_singleton] at hx; subst hx; simp)
          · intro β hβ
            rcases mem_insertAt hβ with hβ | hβ
            · have := h.bw_lt β hβ; simp only; omega
            · simp only [List.mem_singleton, BV.reg.injEq] at hβ; subst hβ; simp
          · intro c hc β hβ; have := h.cg_lt c hc β hβ; simp only; omega
          · intro r hr; have := h.ps_lt r hr; simp only; omega
          · intro r hr; have := h.sps_lt r hr; simp only; omega
          · intro r hr
            simp only [List.mem_append, List.mem_singleton] at hr
            rcases hr with (hr | hr) | hr
            · have := h.bits_lt r (List.mem_of_mem_take hr); simp only; omega
            · subst hr; simp
            · have := h.bits_lt r (List.mem_of_mem_drop hr); simp only; omega
          · intro hl
            obtain ⟨hl0, hcodle⟩ := hlay hl
            have hbits := h.raw hl0
            -- before any classical box there are as many bit wires as read-out registers
            have hpp := h.ref.pp
            simp only [PP.run, hl0, List.foldl_nil, Prod.mk.injEq] at hpp
            have hlen' : dreg.length = sp.bw.length := by
              have := congrArg List.length hpp.2; simpa using this
            have hbl : st.bits.length ≤ lb + j := by
              rw [hbits, hlen', ← h.ppcod]; exact hcodle
            simp only
            rw [List.take_of_length_le hbl, List.drop_of_length_le hbl, hbits]
            simp
          · simp [hcod', h.ppcod, insertAt_length]

theorem measureLoop_inv {sp : Sp} {st st' : St} {ρq ρb dreg} {lq lb : Nat} (m j0 : Nat)
    (h : Inv sp st ρq ρb dreg)
    (hs : measureLoop st lq lb (List.range' j0 m) = .ok st') :
    ∃ sp' ρb' dreg', Sp.measureLoop sp lq lb (List.range' j0 m) = .ok sp' ∧ Inv sp' st' ρq ρb' dreg' := by
  induction m generalizing sp st ρb dreg j0 with
  | zero =>
    simp only [List.range'_zero, measureLoop] at hs
    cases hs
    exact ⟨sp, ρb, dreg, rfl, h⟩
  | succ m ih =>
    simp only [List.range'_succ, measureLoop] at hs
    split at hs
    · cases hs
    · rename_i st1 h1
      obtain ⟨sp1, ρb1, dreg1, e1, inv1⟩ := measureOne_inv h h1
      obtain ⟨sp2, ρb2, dreg2, e2, inv2⟩ := ih (j0 + 1) inv1 hs
      exact ⟨sp2, ρb2, dreg2, by simp only [List.range'_succ, Sp.measureLoop, e1]; exact e2, inv2⟩

/-! ### Bra -/

theorem braOne_inv {sp : Sp} {st st' : St} {ρq ρb dreg} {lq : Nat} {jv : Nat × Nat}
    (h : Inv sp st ρq ρb dreg) (hs : braOne st lq jv = .ok st') :
    ∃ sp' ρb', Sp.braOne sp lq jv = .ok sp' ∧ Inv sp' st' ρq ρb' dreg := by
  unfold braOne at hs
  split at hs
  · cases hs
  · rename_i q hq
    cases hs
    rw [h.ref.qubits, List.getElem?_map] at hq
    cases ha : sp.qw[lq + jv.1]? with
    | none => simp [ha] at hq
    | some a =>
      simp only [ha, Option.map_some, Option.some.injEq] at hq
      have hnb := h.ref.nb
      have hold : ∀ β, β < sp.nb → extend1 ρb sp.nb st.nb β = ρb β := by
        intro β hβ; simp [extend1, hβ]
      have hnew : extend1 ρb sp.nb st.nb sp.nb = st.nb := by simp [extend1]
      refine ⟨_, extend1 ρb sp.nb st.nb, by simp only [Sp.braOne, ha]; rfl, ?_⟩
      refine { ref := { nq := h.ref.nq, nb := ?_, injq := h.ref.injq, injb := ?_, cmds := ?_,
                        qubits := h.ref.qubits, ps := ?_, scal := h.ref.scal, readout := ?_,
                        ppdom := h.ref.ppdom, pp := ?_ },
               qw_lt := h.qw_lt, qsorted := h.qsorted, cmd_ids := ?_, bw_lt := ?_, cg_lt := ?_,
               ps_lt := ?_, sps_lt := ?_, bits_lt := ?_, raw := h.raw, ppcod := h.ppcod, ppwf := h.ppwf }
      · simp [hnb]
      · exact extend1_inj h.ref.injb
      · simp only [List.map_append, List.map_cons, List.map_nil]
        rw [h.ref.cmds, cmds_congr h.cmd_ids (fun a _ => rfl) (fun β hβ => (hold β hβ).symm)]
        simp [Cmd.map, hq, hnew]
      · intro β hβ
        simp only at hβ ⊢
        rw [PS.get_set, PS.get_set]
        by_cases hlt : β < sp.nb
        · rw [hold β hlt]
          have h1 := h.ref.injb.1 β hlt
          have e1 : ¬ (ρb β = st.nb) := by omega
          have e2 : ¬ (β = sp.nb) := by omega
          simp only [e1, e2, ↓reduceIte]
          exact h.ref.ps β hlt
        · have : β = sp.nb := by omega
          subst this
          simp [hnew]
      · obtain ⟨hp, hm⟩ := h.ref.readout
        refine ⟨hp, ?_⟩
        intro r
        simp only [hm r, PS.has_set]
        constructor
        · rintro ⟨h1, h2⟩
          refine ⟨by omega, ?_⟩
          have : ¬ (r = st.nb) := by omega
          simp [this, h2]
        · rintro ⟨h1, h2⟩
          simp only [Bool.or_eq_false_iff, decide_eq_false_iff_not] at h2
          exact ⟨by omega, h2.2⟩
      · rw [h.ref.pp]
        congr 1
        · exact cg_congr h.cg_lt (fun β hβ => (hold β hβ).symm)
        · exact bw_congr h.bw_lt (fun β hβ => (hold β hβ).symm)
      · exact (h.cmd_ids.mono (Nat.le_refl _) (Nat.le_succ _)).snoc
          (by intro x hx; simp only [List.mem_singleton] at hx; subst hx
              exact h.qw_lt _ (List.mem_of_getElem? ha))
          (by intro x hx; simp only [List.mem_singleton] at hx; subst hx; simp)
      · intro β hβ; have := h.bw_lt β hβ; simp only; omega
      · intro c hc β hβ; have := h.cg_lt c hc β hβ; simp only; omega
      · intro r hr
        simp only [PS.has_set, Bool.or_eq_true, decide_eq_true_eq] at hr
        rcases hr with hr | hr
        · simp only; omega
        · have := h.ps_lt r hr; simp only; omega
      · intro r hr
        simp only [PS.has_set, Bool.or_eq_true, decide_eq_true_eq] at hr
        rcases hr with hr | hr
        · simp only; omega
        · have := h.sps_lt r hr; simp only; omega
      · intro r hr; have := h.bits_lt r hr; simp only; omega

theorem braLoop_inv {sp : Sp} {st st' : St} {ρq ρb dreg} {lq : Nat} (js : List (Nat × Nat))
    (h : Inv sp st ρq ρb dreg) (hs : braLoop st lq js = .ok st') :
    ∃ sp' ρb', Sp.braLoop sp lq js = .ok sp' ∧ Inv sp' st' ρq ρb' dreg := by
  induction js generalizing sp st ρb with
  | nil => simp only [braLoop] at hs; cases hs; exact ⟨sp, ρb, rfl, h⟩
  | cons jv js ih =>
    simp only [braLoop] at hs
    split at hs
    · cases hs
    · rename_i st1 h1
      obtain ⟨sp1, ρb1, e1, inv1⟩ := braOne_inv h h1
      obtain ⟨sp2, ρb2, e2, inv2⟩ := ih inv1 hs
      exact ⟨sp2, ρb2, by simp only [Sp.braLoop, e1]; exact e2, inv2⟩

/-! ### Measure(override_bits=True), non-destructive, before any classical post-processing -/

theorem overrideLoop_inv {sp : Sp} {st st' : St} {ρq ρb dreg} {lq lb : Nat} (js : List Nat)
    (h : Inv sp st ρq ρb dreg) (hraw : st.pp.layers = [])
    (hs : overrideLoop st lq lb js = .ok st') :
    ∃ sp', Sp.overrideLoop sp lq lb js = .ok sp' ∧ Inv sp' st' ρq ρb dreg := by
  induction js generalizing sp st with
  | nil => simp only [overrideLoop] at hs; cases hs; exact ⟨sp, rfl, h⟩
  | cons j js ih =>
    simp only [overrideLoop] at hs
    split at hs
    · rename_i b q hb hq
      rw [h.ref.qubits, List.getElem?_map] at hq
      cases ha : sp.qw[lq + j]? with
      | none => simp [ha] at hq
      | some a =>
        simp only [ha, Option.map_some, Option.some.injEq] at hq
        -- the bit wire is a register: before any classical box the wires are the read-out registers
        have hpp := h.ref.pp
        simp only [PP.run, hraw, List.foldl_nil, Prod.mk.injEq] at hpp
        have hbits := h.raw hraw
        rw [hbits] at hb
        have hbw : (sp.bw.map (BV.map ρb))[lb + j]? = some (.reg b) := by
          rw [← hpp.2, List.getElem?_map, hb]; rfl
        rw [List.getElem?_map] at hbw
        cases hv : sp.bw[lb + j]? with
        | none => simp [hv] at hbw
        | some v =>
          simp only [hv, Option.map_some, Option.some.injEq] at hbw
          cases v with
          | out g p => simp [BV.map] at hbw
          | reg β =>
            simp only [BV.map, BV.reg.injEq] at hbw
            have hβ := h.bw_lt β (List.mem_of_getElem? hv)
            have inv1 : Inv { sp with cmds := sp.cmds ++ [⟨"Measure", none, [a], [β]⟩] }
                { st with cmds := st.cmds ++ [⟨"Measure", none, [q], [b]⟩] } ρq ρb dreg := by
              refine { h with ref := { h.ref with cmds := ?_ }, cmd_ids := ?_ }
              · simp [h.ref.cmds, Cmd.map, hq, hbw]
              · exact h.cmd_ids.snoc
                  (by intro x hx; simp only [List.mem_singleton] at hx; subst hx
                      exact h.qw_lt _ (List.mem_of_getElem? ha))
                  (by intro x hx; simp only [List.mem_singleton] at hx; subst hx; exact hβ)
            obtain ⟨sp2, e2, inv2⟩ := ih inv1 hraw hs
            exact ⟨sp2, by simp only [Sp.overrideLoop, hv, ha]; exact e2, inv2⟩
    · cases hs

/-! ### classical boxes and Swap(bit, bit) through the post-processing -/

theorem classical_inv {sp : Sp} {st st' : St} {ρq ρb dreg} {name : String} {i o lb : Nat}
    (h : Inv sp st ρq ρb dreg) (hs : classical st (.gate name i o) lb = .ok st') :
    ∃ sp', Sp.classical sp name i o lb = .ok sp' ∧ Inv sp' st' ρq ρb dreg := by
  unfold classical at hs
  split at hs
  · cases hs
  · rename_i pp' hpost
    cases hs
    have hws : (dreg.map BV.reg).length = st.pp.dom := by simp [h.ref.ppdom]
    obtain ⟨hrun, hwf', hdom', hcod', hfit, hlen⟩ := PP.post_run h.ppwf hpost (dreg.map .reg) hws
    simp only [PBox.nin, PBox.nout] at hcod' hfit
    have hfit' : lb + i ≤ sp.bw.length := by rw [← h.ppcod]; exact hfit
    have hnot : ¬ (sp.bw.length < lb + i) := by omega
    refine ⟨_, by simp only [Sp.classical, hnot, ↓reduceIte]; rfl, ?_⟩
    refine { h with ref := { h.ref with ppdom := ?_, pp := ?_ }, bw_lt := ?_, cg_lt := ?_, raw := ?_,
                    ppcod := ?_, ppwf := hwf' }
    · simp [hdom', h.ref.ppdom]
    · simp only
      rw [hrun, h.ref.pp]
      simp only [PP.stepRun]
      exact applyCG_map ρb sp.cg sp.bw name i o lb
    · intro β hβ
      simp only [applyCG, List.mem_append] at hβ
      rcases hβ with (hβ | hβ) | hβ
      · exact h.bw_lt β (List.mem_of_mem_take hβ)
      · simp [outs] at hβ
      · exact h.bw_lt β (List.mem_of_mem_drop hβ)
    · intro c hc β hβ
      simp only [applyCG, List.mem_append, List.mem_singleton] at hc
      rcases hc with hc | hc
      · exact h.cg_lt c hc β hβ
      · subst hc
        exact h.bw_lt β (List.mem_of_mem_drop (List.mem_of_mem_take hβ))
    · intro hl
      unfold PP.post at hpost
      split at hpost
      · cases hpost
      · cases hpost; simp at hl
    · simp only
      rw [hcod', h.ppcod, applyCG_snd_length _ _ _ _ _ _ hfit']

theorem swapBits_pp_inv {sp : Sp} {st st' : St} {ρq ρb dreg} {lb : Nat}
    (h : Inv sp st ρq ρb dreg) (hne : st.pp.layers.isEmpty = false) (hs : swapBits st lb = .ok st') :
    sp.bw.length ≥ lb + 2 ∧ Inv { sp with bw := swapAt sp.bw lb } st' ρq ρb dreg := by
  unfold swapBits at hs
  simp only [hne, Bool.false_eq_true, ↓reduceIte] at hs
  split at hs
  · cases hs
  · rename_i pp' hpost
    cases hs
    have hws : (dreg.map BV.reg).length = st.pp.dom := by simp [h.ref.ppdom]
    obtain ⟨hrun, hwf', hdom', hcod', hfit, hlen⟩ := PP.post_run h.ppwf hpost (dreg.map .reg) hws
    simp only [PBox.nin, PBox.nout] at hcod' hfit
    have hfit' : lb + 2 ≤ sp.bw.length := by rw [← h.ppcod]; exact hfit
    refine ⟨hfit', ?_⟩
    refine { h with ref := { h.ref with ppdom := ?_, pp := ?_ }, bw_lt := ?_, raw := ?_,
                    ppcod := ?_, ppwf := hwf' }
    · simp [hdom', h.ref.ppdom]
    · simp only
      rw [hrun, h.ref.pp]
      simp [PP.stepRun, swapAt_map]
    · intro β hβ; exact h.bw_lt β (mem_swapAt hβ)
    · intro hl
      unfold PP.post at hpost
      split at hpost
      · cases hpost
      · cases hpost; simp at hl
    · simp only
      rw [hcod', h.ppcod, swapAt_length]; omega

/-! ### Swap(bit, bit) by renaming registers -/

theorem swapBits_raw_inv {sp : Sp} {st st' : St} {ρq ρb dreg} {lb : Nat}
    (h : Inv sp st ρq ρb dreg) (he : st.pp.layers.isEmpty = true)
    (hs : swapBits st lb = .ok st') :
    ∃ ρb', sp.bw.length ≥ lb + 2 ∧ Inv { sp with bw := swapAt sp.bw lb } st' ρq ρb' dreg := by
  unfold swapBits at hs
  simp only [he, ↓reduceIte] at hs
  have hraw : st.pp.layers = [] := by simpa using he
  split at hs
  · rename_i a b ha hb
    cases hs
    have hbits := h.raw hraw
    rw [hbits] at ha hb
    have hsplit := split_two ha hb
    have hlen : lb + 1 < dreg.length := by
      rcases Nat.lt_or_ge (lb + 1) dreg.length with h' | h'
      · exact h'
      · rw [List.getElem?_eq_none h'] at hb; cases hb
    have hpp := h.ref.pp
    simp only [PP.run, hraw, List.foldl_nil, Prod.mk.injEq] at hpp
    have hbwlen : sp.bw.length = dreg.length := by
      have := congrArg List.length hpp.2; simpa using this.symm
    have hcg : sp.cg = [] := by
      have := hpp.1; simpa using this.symm
    have hma : a ∈ dreg := List.mem_of_getElem? ha
    have hmb : b ∈ dreg := List.mem_of_getElem? hb
    obtain ⟨ha1, ha2⟩ := h.ref.readout.lt hma
    obtain ⟨hb1, hb2⟩ := h.ref.readout.lt hmb
    -- neither unit is post-selected: the renaming does not touch the post-selection
    have hps : st.ps.rename [(a, b), (b, a)] = st.ps :=
      PS.rename_of_not_has st.ps _ (by simp [ha2, hb2])
    -- sortedness of the read-out registers: every other register differs from a and b
    have hs' := h.ref.readout.1
    rw [hsplit, List.pairwise_append, List.pairwise_append] at hs'
    obtain ⟨⟨_, hab, hpre⟩, _, hpost⟩ := hs'
    have hab' : a < b := by simpa using hab
    have hlt : (dreg.take lb).length = lb := take_length_le (by omega)
    have hfix : (swapAt dreg lb).map (transp a b) = dreg := by
      conv => lhs; rw [hsplit]
      have := swapAt_split (dreg.take lb) (dreg.drop (lb + 2)) a b
      rw [hlt] at this
      rw [this]
      simp only [List.map_append, List.map_cons, List.map_nil]
      have e1 : (dreg.take lb).map (transp a b) = dreg.take lb := by
        conv => rhs; rw [← List.map_id (dreg.take lb)]
        apply List.map_congr_left
        intro c hc
        have h1 := hpre c hc a (by simp)
        have h2 := hpre c hc b (by simp)
        exact transp_fix (by omega) (by omega)
      have e2 : (dreg.drop (lb + 2)).map (transp a b) = dreg.drop (lb + 2) := by
        conv => rhs; rw [← List.map_id (dreg.drop (lb + 2))]
        apply List.map_congr_left
        intro c hc
        have h1 := hpost a (by simp) c hc
        have h2 := hpost b (by simp) c hc
        exact transp_fix (by omega) (by omega)
      rw [e1, e2]
      conv => rhs; rw [hsplit]
      simp [transp]
    refine ⟨transp a b ∘ ρb, by omega, ?_⟩
    refine { h with ref := { h.ref with injb := ?_, cmds := ?_, ps := ?_, readout := ?_, pp := ?_ },
                    bw_lt := ?_, ps_lt := ?_, ppcod := ?_ }
    · constructor
      · intro c hc
        have := h.ref.injb.1 c hc
        simp only [Function.comp, transp]
        split
        · exact hb1
        · split
          · exact ha1
          · exact this
      · intro c d hc hd hcd
        exact h.ref.injb.2 c d hc hd (transp_inj hcd)
    · simp only
      rw [h.ref.cmds, List.map_map]
      apply List.map_congr_left
      intro c _
      simp [Function.comp, Cmd.map]
    · intro β hβ
      simp only [hps, Function.comp]
      rw [← h.ref.ps β hβ]
      unfold transp
      split
      · rename_i e; rw [e, PS.get_none_of_not_has ha2, PS.get_none_of_not_has hb2]
      · split
        · rename_i _ e; rw [e, PS.get_none_of_not_has ha2, PS.get_none_of_not_has hb2]
        · rfl
    · simp only [hps]; exact h.ref.readout
    · simp only [PP.run, hraw, List.foldl_nil, hcg, List.map_nil, Prod.mk.injEq, true_and]
      have : (swapAt sp.bw lb).map (BV.map (transp a b ∘ ρb)) =
          ((swapAt (sp.bw.map (BV.map ρb)) lb).map (BV.map (transp a b))) := by
        rw [← swapAt_map, List.map_map]
        apply List.map_congr_left
        intro v _
        exact (BV.map_comp _ _ v).symm
      rw [this, ← hpp.2, ← swapAt_map, List.map_map]
      have : (BV.map (transp a b) ∘ BV.reg) = BV.reg ∘ transp a b := by
        funext r; rfl
      rw [this, ← List.map_map, hfix]
    · intro β hβ; exact h.bw_lt β (mem_swapAt hβ)
    · simp only [hps]; exact h.ps_lt
    · simp only [swapAt_length]; exact h.ppcod
  · cases hs

end DV.Tk
