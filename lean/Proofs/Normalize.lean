/-
  Proofs/Normalize.lean — C06: every step of `normalize` is a legal single interchange
  (sound, type-preserving), the model's transcription yields such a trace, and a returned
  normal form is terminal and a fixed point.
-/
import Proofs.Interchange
import Model.Rewrite

namespace DV

theorem Diagram.interchange_succ {d x : Diagram} {i : Nat} {left : Bool}
    (h : d.interchange (i : Int) ((i : Int) + 1) left = .ok x) : d.interchangeAdj i left = .ok x := by
  unfold Diagram.interchange at h
  split at h
  · cases h
  · split at h
    · omega
    · split at h
      · omega
      · have e1 : ((i : Int) + 1 - (i : Int)).toNat = 1 := by omega
        have e2 : (i : Int).toNat = i := by omega
        rw [e1, e2] at h
        simp only [interchangeDown] at h
        split at h
        · cases h
        · rename_i d1 hd1; cases h; exact hd1

/-- What one accepted step guarantees. -/
structure StepOK (d d' : Diagram) : Prop where
  wf : d'.WF
  dom : d'.dom = d.dom
  cod : d'.cod = d.cod
  exch : Exch d d'
  perm : d'.boxes.Perm d.boxes

theorem rstepAt_ok {left : Bool} {d d' : Diagram} {i : Nat} (hd : d.WF)
    (h : rstepAt left d d' i = true) : StepOK d d' := by
  unfold rstepAt at h
  simp only [Bool.and_eq_true] at h
  obtain ⟨_, h2⟩ := h
  split at h2
  · rename_i x hx
    have : x = d' := by simpa using h2
    subst this
    have hadj := Diagram.interchange_succ hx
    obtain ⟨w, a, b⟩ := Diagram.interchangeAdj_wf hd hadj
    exact ⟨w, a, b, Diagram.interchangeAdj_refines hd hadj, Diagram.interchangeAdj_perm hd hadj⟩
  · cases h2

theorem rstep_ok {left : Bool} {d d' : Diagram} (hd : d.WF) (h : rstep left d d' = true) :
    StepOK d d' := by
  unfold rstep at h
  obtain ⟨i, _, hi⟩ := List.any_eq_true.mp h
  exact rstepAt_ok hd hi

/-- Every diagram of an accepted trace is well-typed, has the input's type and boxes, and is
    related to its predecessor by one exchange. -/
theorem checkTrace_ok {left : Bool} {d : Diagram} {steps : List Diagram} {k : Nat} (hd : d.WF)
    (h : checkTrace left d steps k = none) :
    ∀ s ∈ steps, s.WF ∧ s.dom = d.dom ∧ s.cod = d.cod ∧ s.boxes.Perm d.boxes := by
  induction steps generalizing d k with
  | nil => simp
  | cons s ss ih =>
    simp only [checkTrace] at h
    split at h
    · rename_i hs
      have ok := rstep_ok hd hs
      intro t ht
      rcases List.mem_cons.mp ht with rfl | ht
      · exact ⟨ok.wf, ok.dom, ok.cod, ok.perm⟩
      · obtain ⟨a, b, c, e⟩ := ih ok.wf h t ht
        exact ⟨a, b.trans ok.dom, c.trans ok.cod, e.trans ok.perm⟩
    · cases h

section
variable {O M : Type} {C : SMC O M} (F : MFunctor C)

/-- … and denotes the same morphism under every monoidal functor. -/
theorem checkTrace_sound {left : Bool} {d : Diagram} {steps : List Diagram} {k : Nat} (hd : d.WF)
    (h : checkTrace left d steps k = none) : ∀ s ∈ steps, F.eval s = F.eval d := by
  induction steps generalizing d k with
  | nil => simp
  | cons s ss ih =>
    simp only [checkTrace] at h
    split at h
    · rename_i hs
      have ok := rstep_ok hd hs
      have e0 : F.eval s = F.eval d := ok.exch.sound F hd
      intro t ht
      rcases List.mem_cons.mp ht with rfl | ht
      · exact e0
      · exact (ih ok.wf h t ht).trans e0
    · cases h

end

/-! ### The model's transcription of `normalize` yields an accepted trace -/

theorem redex_lt {d : Diagram} {left : Bool} {i : Nat} (h : d.redex left i = true) :
    i + 1 < d.boxes.length := by
  unfold Diagram.redex at h
  split at h
  · rename_i e1 _ _
    exact (List.getElem?_eq_some_iff.mp e1).1
  · cases h

theorem checkTrace_append {left : Bool} {d : Diagram} {xs ys : List Diagram} {k : Nat}
    (h1 : checkTrace left d xs k = none) (h2 : checkTrace left (lastOr d xs) ys (k + xs.length) = none) :
    checkTrace left d (xs ++ ys) k = none := by
  induction xs generalizing d k with
  | nil => simpa [lastOr] using h2
  | cons x xs ih =>
    simp only [checkTrace] at h1
    split at h1
    · rename_i hx
      simp only [List.cons_append, checkTrace, hx, if_true]
      apply ih h1
      simpa [lastOr, Nat.add_assoc, Nat.add_comm 1] using h2
    · cases h1

theorem lastOr_append (d : Diagram) (xs : List Diagram) (y : Diagram) :
    lastOr d (xs ++ [y]) = y := by
  induction xs generalizing d with
  | nil => rfl
  | cons x xs ih => simpa [lastOr] using ih x

/-- One pass of the model's `normalize` from `d0` (steps so far `acc`, current diagram
    `lastOr d0 acc = d`) extends the accepted trace. -/
theorem normalizePass_trace {left : Bool} {n i : Nat} {d0 d d' : Diagram} {acc steps : List Diagram}
    (hacc : checkTrace left d0 acc 0 = none) (hlast : lastOr d0 acc = d)
    (h : normalizePass left n i d acc = .ok (d', steps)) :
    checkTrace left d0 steps 0 = none ∧ lastOr d0 steps = d' ∧ acc.length ≤ steps.length := by
  induction n generalizing i d acc with
  | zero =>
    simp only [normalizePass, Except.ok.injEq, Prod.mk.injEq] at h
    obtain ⟨rfl, rfl⟩ := h
    exact ⟨hacc, hlast, Nat.le_refl _⟩
  | succ n ih =>
    simp only [normalizePass] at h
    split at h
    · rename_i hr
      split at h
      · cases h
      · rename_i d1 hd1
        have hstep : rstep left d d1 = true := by
          unfold rstep
          refine List.any_eq_true.mpr ⟨i, ?_, ?_⟩
          · have := redex_lt hr; simp; omega
          · unfold rstepAt; simp [hr, hd1]
        have hacc' : checkTrace left d0 (acc ++ [d1]) 0 = none := by
          apply checkTrace_append hacc
          rw [hlast]; simp [checkTrace, hstep]
        obtain ⟨a, b, c⟩ := ih hacc' (lastOr_append _ _ _) h
        exact ⟨a, b, by simp at c; omega⟩
    · exact ih hacc hlast h

/-! ### Terminal diagrams and fixed points -/

theorem normalizePass_steps {left : Bool} {n i : Nat} {d d' : Diagram} {acc steps : List Diagram}
    (h : normalizePass left n i d acc = .ok (d', steps)) :
    acc.length ≤ steps.length ∧
      (steps.length = acc.length → d' = d ∧ ∀ k, i ≤ k → k < i + n → d.redex left k = false) := by
  induction n generalizing i d acc with
  | zero =>
    simp only [normalizePass, Except.ok.injEq, Prod.mk.injEq] at h
    obtain ⟨rfl, rfl⟩ := h
    exact ⟨Nat.le_refl _, fun _ => ⟨rfl, fun k h1 h2 => by omega⟩⟩
  | succ n ih =>
    simp only [normalizePass] at h
    split at h
    · split at h
      · cases h
      · obtain ⟨a, _⟩ := ih h
        simp at a
        exact ⟨by omega, fun e => by omega⟩
    · rename_i hr
      obtain ⟨a, b⟩ := ih h
      refine ⟨a, fun e => ?_⟩
      obtain ⟨b1, b2⟩ := b e
      refine ⟨b1, fun k h1 h2 => ?_⟩
      by_cases hk : k = i
      · subst hk; simpa using hr
      · exact b2 k (by omega) (by omega)

theorem normalizePass_of_no_redex {left : Bool} {n i : Nat} {d : Diagram} {acc : List Diagram}
    (h : ∀ k, i ≤ k → k < i + n → d.redex left k = false) :
    normalizePass left n i d acc = .ok (d, acc) := by
  induction n generalizing i with
  | zero => rfl
  | succ n ih =>
    simp only [normalizePass]
    rw [h i (Nat.le_refl _) (by omega)]
    simp only [Bool.false_eq_true, if_false]
    exact ih (fun k h1 h2 => h k (by omega) (by omega))

theorem terminal_iff {left : Bool} {d : Diagram} :
    terminal left d = true ↔ ∀ k, k < d.boxes.length - 1 → d.redex left k = false := by
  unfold terminal
  simp [List.all_eq_true]

/-- A returned normal form has no redex left, and normalising it again returns it unchanged
    (for any positive fuel and any cache). -/
theorem normalFormLoop_fixed {left : Bool} {fuel : Nat} {d n : Diagram} {cache : List Diagram}
    (h : normalFormLoop left fuel d cache = .ok n) :
    terminal left n = true ∧
      ∀ fuel' cache', normalFormLoop left (fuel' + 1) n cache' = .ok n := by
  induction fuel generalizing d cache with
  | zero => simp [normalFormLoop] at h
  | succ fuel ih =>
    simp only [normalFormLoop] at h
    split at h
    · cases h
    · rename_i d1 steps hpass
      split at h
      · rename_i hempty
        injection h with h
        subst h
        have hs : steps = [] := by simpa using hempty
        subst hs
        obtain ⟨_, b⟩ := normalizePass_steps hpass
        obtain ⟨_, b2⟩ := b rfl
        have hnr : ∀ k, k < d.boxes.length - 1 → d.redex left k = false :=
          fun k hk => b2 k (Nat.zero_le _) (by omega)
        refine ⟨terminal_iff.mpr hnr, fun fuel' cache' => ?_⟩
        simp only [normalFormLoop]
        rw [normalizePass_of_no_redex (fun k _ h2 => hnr k (by omega))]
        simp
      · split at h
        · cases h
        · exact ih h

end DV
