/-
  Proofs/NormalizeCycle.lean — C07/C06: `normalize` (rewriting.py:87-124) never undoes its own
  step.  The `(box, offset)` view of `interchange(i, i+1, left)` for BOTH preferences, and: if the
  redex at position `i` is interchanged with the preference `left` the redex test was made with,
  and position `i` is a redex again and is interchanged again, the offsets of the two boxes are
  back where they started only if both boxes are scalars (empty domain and codomain).
  (Testing with one preference and moving with the other does produce such two-cycles on
  an effect directly above a state at the same offset.)
-/
import Proofs.UnsnakeItems
import Proofs.Normalize

namespace DV

/-- Result of `interchange(i, i+1, left)` on the adjacent items `x` (upper) and `y` (lower),
    rewriting.py:57-73. -/
def swapItemsPref (left : Bool) (x y : Box × Int) : Option ((Box × Int) × (Box × Int)) :=
  if left && decide (y.2 ≥ x.2 + x.1.cod.length) then
    some ((y.1, y.2 - x.1.cod.length + x.1.dom.length), x)
  else if x.2 ≥ y.2 + y.1.dom.length then
    some (y, (x.1, x.2 - y.1.dom.length + y.1.cod.length))
  else if y.2 ≥ x.2 + x.1.cod.length then
    some ((y.1, y.2 - x.1.cod.length + x.1.dom.length), x)
  else none

/-- One adjacent interchange in the item view, either preference. -/
theorem Diagram.interchangeAdj_items_pref {d : Diagram} (hd : d.WF) {left : Bool}
    {P S : List (Box × Int)} {x y y' x' : Box × Int} (h : d.items = P ++ x :: y :: S)
    (hs : swapItemsPref left x y = some (y', x')) :
    ∃ d', d.interchangeAdj P.length left = .ok d' ∧ d'.WF ∧ d'.dom = d.dom ∧ d'.cod = d.cod ∧
      d'.items = P ++ y' :: x' :: S := by
  have hit := Diagram.items_wf hd
  have hx : d.items[P.length]? = some x := by rw [h]; exact getElem?_mid P x (y :: S)
  have hy : d.items[P.length + 1]? = some y := by rw [h]; exact getElem?_mid1 P x y S
  rw [hit] at hx hy
  simp only [List.getElem?_map] at hx hy
  cases e2 : d.layers.boxes[P.length]? with
  | none => simp [e2] at hx
  | some l0 =>
  cases e3 : d.layers.boxes[P.length + 1]? with
  | none => simp [e3] at hy
  | some l1 =>
  simp only [e2, e3, Option.map_some, Option.some.injEq] at hx hy
  have e0 : d.offsets[P.length]? = some (l0.left.length : Int) := by rw [hd.offsets]; simp [e2]
  have e1 : d.offsets[P.length + 1]? = some (l1.left.length : Int) := by rw [hd.offsets]; simp [e3]
  have hadj := chain_adjacent hd.chain e2 e3
  have hlen : P.length + 1 < d.layers.boxes.length := (List.getElem?_eq_some_iff.mp e3).1
  have hch : ∃ o0 o1 y0 y1, interchangeChoice left (l0.left.length : Int) l1.left.length l0 l1
      = .ok (o0, o1, y0, y1) ∧ y' = (l1.box, o1) ∧ x' = (l0.box, o0) := by
    subst hx hy
    unfold swapItemsPref at hs
    unfold interchangeChoice
    split at hs
    · rename_i hc
      rw [if_pos hc]
      simp only [Option.some.injEq, Prod.mk.injEq] at hs
      exact ⟨_, _, _, _, rfl, hs.1.symm, hs.2.symm⟩
    · rename_i hc
      rw [if_neg hc]
      split at hs
      · rename_i hc1
        rw [if_pos hc1]
        simp only [Option.some.injEq, Prod.mk.injEq] at hs
        exact ⟨_, _, _, _, rfl, hs.1.symm, hs.2.symm⟩
      · rename_i hc1
        rw [if_neg hc1]
        split at hs
        · rename_i hc2
          rw [if_pos hc2]
          simp only [Option.some.injEq, Prod.mk.injEq] at hs
          exact ⟨_, _, _, _, rfl, hs.1.symm, hs.2.symm⟩
        · cases hs
  obtain ⟨o0, o1, y0, y1, hch, hy', hx'⟩ := hch
  obtain ⟨q0, q1, hb0, hb1⟩ := interchangeChoice_offsets rfl rfl hch
  obtain ⟨t1, t2, t3, t4⟩ := (interchangeChoice_exch hadj rfl rfl hch).typing
  obtain ⟨d', hd'⟩ := Diagram.splice_total (o0 := o0) (o1 := o1) hd e2 e3 t3 t2 t4
  obtain ⟨w, hdom, hcod, hboxes⟩ := Diagram.splice_wf hd hlen q0 q1 hd'
  refine ⟨d', ?_, w, hdom, hcod, ?_⟩
  · unfold Diagram.interchangeAdj
    simp only [e0, e1, e2, e3, hch, hd']
  · rw [Diagram.items_wf w, hboxes]
    have hsplit := list_split_pair e2 e3
    have h' := h
    rw [hit, hsplit] at h'
    simp only [List.map_append, List.map_cons, List.append_assoc,
      List.cons_append, List.nil_append] at h' ⊢
    have hl : (List.map (fun l : Layer => (l.box, (l.left.length : Int)))
        (List.take P.length d.layers.boxes)).length = P.length := by
      simp; omega
    obtain ⟨hP, hrest⟩ := List.append_inj h' hl
    simp only [List.cons.injEq] at hrest
    rw [hP, hrest.2.2, hy', hx', hb0, hb1, q0, q1]

/-- The redex test of `normalize` (rewriting.py:118-119) in the item view. -/
def redexItems (left : Bool) (x y : Box × Int) : Bool :=
  (left && decide (y.2 ≥ x.2 + x.1.cod.length)) || (!left && decide (x.2 ≥ y.2 + y.1.dom.length))

/-- A redex can always be interchanged, and with the preference it was tested with the move is
    the one the test looked at. -/
theorem swapItemsPref_of_redex {left : Bool} {x y : Box × Int} (h : redexItems left x y = true) :
    swapItemsPref left x y = some (if left then ((y.1, y.2 - x.1.cod.length + x.1.dom.length), x)
      else (y, (x.1, x.2 - y.1.dom.length + y.1.cod.length))) := by
  unfold redexItems at h
  unfold swapItemsPref
  cases left
  · simp only [Bool.false_and, Bool.not_false, Bool.true_and, Bool.false_or,
      decide_eq_true_eq] at h
    simp [h]
  · simp only [Bool.true_and, Bool.not_true, Bool.false_and, Bool.or_false,
      decide_eq_true_eq] at h
    simp [h]

/-- The arithmetic core: two consecutive redex moves at one position restore both offsets only
    for two scalars. -/
theorem two_cycle_scalars {left : Bool} {x y y' x' x'' y'' : Box × Int}
    (h1 : redexItems left x y = true) (s1 : swapItemsPref left x y = some (y', x'))
    (h2 : redexItems left y' x' = true) (s2 : swapItemsPref left y' x' = some (x'', y''))
    (hx : x''.2 = x.2) (hy : y''.2 = y.2) :
    x.1.dom.length = 0 ∧ x.1.cod.length = 0 ∧ y.1.dom.length = 0 ∧ y.1.cod.length = 0 := by
  rw [swapItemsPref_of_redex h1] at s1
  rw [swapItemsPref_of_redex h2] at s2
  unfold redexItems at h1 h2
  cases left
  · simp only [Bool.false_eq_true, if_false, Option.some.injEq, Prod.mk.injEq] at s1 s2
    obtain ⟨e1, e2⟩ := s1
    obtain ⟨e3, e4⟩ := s2
    subst e1 e2
    subst e3 e4
    simp only [Bool.false_and, Bool.not_false, Bool.true_and, Bool.false_or,
      decide_eq_true_eq] at h1 h2
    simp only at hx hy h2
    omega
  · simp only [if_true, Option.some.injEq, Prod.mk.injEq] at s1 s2
    obtain ⟨e1, e2⟩ := s1
    obtain ⟨e3, e4⟩ := s2
    subst e1 e2
    subst e3 e4
    simp only [Bool.true_and, Bool.not_true, Bool.false_and, Bool.or_false,
      decide_eq_true_eq] at h1 h2
    simp only at hx hy h2
    omega

/-- The redex test on a well-typed diagram, read off the item list. -/
theorem Diagram.redex_items {d : Diagram} (hd : d.WF) {left : Bool} {P S : List (Box × Int)}
    {x y : Box × Int} (h : d.items = P ++ x :: y :: S) :
    d.redex left P.length = redexItems left x y := by
  have hx : d.items[P.length]? = some x := by rw [h]; exact getElem?_mid P x (y :: S)
  have hy : d.items[P.length + 1]? = some y := by rw [h]; exact getElem?_mid1 P x y S
  obtain ⟨bx, ox⟩ := Diagram.items_get hd hx
  obtain ⟨by_, oy⟩ := Diagram.items_get hd hy
  unfold Diagram.redex redexItems
  simp only [bx, ox, by_, oy]

/-- One `normalize` step at position `P.length` in the item view. -/
theorem Diagram.redex_step_items {d d1 : Diagram} (hd : d.WF) {left : Bool}
    {P S : List (Box × Int)} {x y : Box × Int} (h : d.items = P ++ x :: y :: S)
    (hr : d.redex left P.length = true)
    (hs : d.interchange (P.length : Int) ((P.length : Int) + 1) left = .ok d1) :
    ∃ y' x', swapItemsPref left x y = some (y', x') ∧ d1.WF ∧ d1.items = P ++ y' :: x' :: S := by
  rw [Diagram.redex_items hd h] at hr
  have hsw := swapItemsPref_of_redex hr
  obtain ⟨d', hd', w, _, _, hit⟩ := Diagram.interchangeAdj_items_pref hd h hsw
  have := Diagram.interchange_succ hs
  rw [this] at hd'
  cases hd'
  exact ⟨_, _, hsw, w, hit⟩

/-- `normalize` never undoes its own step: if position `i` is a redex, is interchanged with the
    preference `left` of the test, is a redex again and is interchanged again, then the offsets are
    back where they were only if both boxes are scalars (empty domain AND codomain). -/
theorem Diagram.normalize_no_two_cycle {d d1 d2 : Diagram} {left : Bool} {i : Nat} (hd : d.WF)
    (h1 : d.redex left i = true) (s1 : d.interchange (i : Int) ((i : Int) + 1) left = .ok d1)
    (h2 : d1.redex left i = true) (s2 : d1.interchange (i : Int) ((i : Int) + 1) left = .ok d2)
    (hc : d2.offsets = d.offsets) :
    ∃ b0 b1, d.boxes[i]? = some b0 ∧ d.boxes[i+1]? = some b1 ∧
      b0.dom = [] ∧ b0.cod = [] ∧ b1.dom = [] ∧ b1.cod = [] := by
  -- the two boxes and their offsets
  have hsome : ∃ b0 b1 o0 o1, d.boxes[i]? = some b0 ∧ d.boxes[i+1]? = some b1 ∧
      d.offsets[i]? = some o0 ∧ d.offsets[i+1]? = some o1 := by
    unfold Diagram.redex at h1
    split at h1
    · rename_i b0 b1 o0 o1 e0 e1 e2 e3; exact ⟨b0, b1, o0, o1, e0, e1, e2, e3⟩
    · cases h1
  obtain ⟨b0, b1, o0, o1, e0, e1, e2, e3⟩ := hsome
  have hx := Diagram.items_of_get hd e0 e2
  have hy := Diagram.items_of_get hd e1 e3
  have hsplit := list_split_pair hx hy
  have hi : i < d.items.length := (List.getElem?_eq_some_iff.mp hx).1
  have hP : (d.items.take i).length = i := by simp; omega
  have hitems : d.items = d.items.take i ++ (b0, o0) :: (b1, o1) :: d.items.drop (i + 2) := by
    conv => lhs; rw [hsplit]
    simp
  generalize d.items.take i = P at hP hitems
  generalize d.items.drop (i + 2) = S at hitems
  subst hP
  obtain ⟨y', x', sw1, w1, it1⟩ := Diagram.redex_step_items hd hitems h1 s1
  obtain ⟨x'', y'', sw2, w2, it2⟩ := Diagram.redex_step_items w1 it1 h2 s2
  have r1 : redexItems left (b0, o0) (b1, o1) = true := by rw [← Diagram.redex_items hd hitems]; exact h1
  have r2 : redexItems left y' x' = true := by rw [← Diagram.redex_items w1 it1]; exact h2
  have hoff : d2.items.map (·.2) = d.items.map (·.2) := by
    rw [← Diagram.items_offsets w2, ← Diagram.items_offsets hd, hc]
  rw [it2, hitems] at hoff
  simp only [List.map_append, List.map_cons] at hoff
  have := List.append_cancel_left hoff
  simp only [List.cons.injEq] at this
  obtain ⟨z0, z1, z2, z3⟩ := two_cycle_scalars r1 sw1 r2 sw2 this.1 this.2.1
  exact ⟨b0, b1, e0, e1, List.eq_nil_of_length_eq_zero z0, List.eq_nil_of_length_eq_zero z1,
    List.eq_nil_of_length_eq_zero z2, List.eq_nil_of_length_eq_zero z3⟩

end DV
