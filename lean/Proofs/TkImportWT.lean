/-
  Proofs/TkImportWT.lean — the circuit description built by the model of `from_tk` is well-typed
  (C13): chain reasoning on `D` — every operation of the little diagram algebra preserves
  "every box finds its domain at its offset, and the scan ends in the recorded codomain".
-/
import Proofs.TkFrom
import Model.TkImport

namespace DV.Tk
open DV

/-- The description is a well-typed chain from its domain to its codomain. -/
def D.WT (d : D) : Prop := wellTyped d.dom d.layers = true ∧ scanCod d.dom d.layers = d.cod

/-! ### chains -/

theorem wellTyped_append (t : List W) (l1 l2 : Layers) :
    wellTyped t (l1 ++ l2) = (wellTyped t l1 && wellTyped (scanCod t l1) l2) := by
  induction l1 generalizing t with
  | nil => simp [wellTyped, scanCod]
  | cons l ls ih =>
    obtain ⟨b, off⟩ := l
    simp only [List.cons_append, wellTyped, scanCod, ih, Bool.and_assoc]

theorem scanCod_append (t : List W) (l1 l2 : Layers) :
    scanCod t (l1 ++ l2) = scanCod (scanCod t l1) l2 := by
  induction l1 generalizing t with
  | nil => rfl
  | cons l ls ih => obtain ⟨b, off⟩ := l; simp only [List.cons_append, scanCod, ih]

/-- A box boxFits at `off` in `cur`. -/
def boxFits (cur : List W) (b : TBox) (off : Nat) : Bool :=
  (cur.drop off).take b.dom.length == b.dom && off + b.dom.length ≤ cur.length

theorem boxFits_iff {cur : List W} {b : TBox} {off : Nat} :
    boxFits cur b off = true ↔ ∃ A C, cur = A ++ b.dom ++ C ∧ A.length = off := by
  constructor
  · intro h
    simp only [boxFits, Bool.and_eq_true, beq_iff_eq, decide_eq_true_eq] at h
    refine ⟨cur.take off, cur.drop (off + b.dom.length), ?_, by simp; omega⟩
    conv => lhs; rw [← List.take_append_drop off cur, ← List.take_append_drop b.dom.length (cur.drop off)]
    rw [h.1, List.drop_drop, List.append_assoc]
  · rintro ⟨A, C, rfl, rfl⟩
    simp [boxFits, List.drop_append, List.take_append]

theorem applyBox_frame (A C : List W) (b : TBox) :
    applyBox (A ++ b.dom ++ C) b A.length = A ++ b.cod ++ C := by
  simp [applyBox, List.take_append, List.drop_append]

theorem shiftLayers_cons (k : Nat) (b : TBox) (off : Nat) (ls : Layers) :
    shiftLayers k ((b, off) :: ls) = (b, off + k) :: shiftLayers k ls := rfl

/-- Framing a chain on the left moves the offsets; on the right it changes nothing. -/
theorem wellTyped_frame (A C t : List W) (ls : Layers) (h : wellTyped t ls = true) :
    wellTyped (A ++ t ++ C) (shiftLayers A.length ls) = true ∧
      scanCod (A ++ t ++ C) (shiftLayers A.length ls) = A ++ scanCod t ls ++ C := by
  induction ls generalizing t with
  | nil => simp [shiftLayers, wellTyped, scanCod]
  | cons l ls ih =>
    obtain ⟨b, off⟩ := l
    simp only [wellTyped, Bool.and_eq_true] at h
    have hf : boxFits t b off = true := by simp only [boxFits, Bool.and_eq_true]; exact h.1
    obtain ⟨A', C', rfl, rfl⟩ := boxFits_iff.mp hf
    have e : A ++ (A' ++ b.dom ++ C') ++ C = (A ++ A') ++ b.dom ++ (C' ++ C) := by simp [List.append_assoc]
    have hl : A'.length + A.length = (A ++ A').length := by simp; omega
    have ih' := ih (A' ++ b.cod ++ C') (by rw [← applyBox_frame]; exact h.2)
    have e2 : A ++ (A' ++ b.cod ++ C') ++ C = (A ++ A') ++ b.cod ++ (C' ++ C) := by simp [List.append_assoc]
    simp only [shiftLayers_cons, wellTyped, scanCod, Bool.and_eq_true]
    rw [e, hl, applyBox_frame, ← e2]
    refine ⟨⟨?_, ih'.1⟩, ?_⟩
    · have : boxFits ((A ++ A') ++ b.dom ++ (C' ++ C)) b (A ++ A').length = true :=
        boxFits_iff.mpr ⟨_, _, rfl, rfl⟩
      simpa only [boxFits, Bool.and_eq_true] using this
    · rw [ih'.2, applyBox_frame]

theorem shiftLayers_zero (ls : Layers) : shiftLayers 0 ls = ls := by
  simp [shiftLayers]

theorem shiftLayers_append (k : Nat) (l1 l2 : Layers) :
    shiftLayers k (l1 ++ l2) = shiftLayers k l1 ++ shiftLayers k l2 := by
  simp [shiftLayers]

theorem shiftLayers_shiftLayers (j k : Nat) (ls : Layers) :
    shiftLayers j (shiftLayers k ls) = shiftLayers (k + j) ls := by
  simp [shiftLayers, Nat.add_assoc]

theorem wellTyped_frame_right (C t : List W) (ls : Layers) (h : wellTyped t ls = true) :
    wellTyped (t ++ C) ls = true ∧ scanCod (t ++ C) ls = scanCod t ls ++ C := by
  have := wellTyped_frame [] C t ls h
  simpa [shiftLayers_zero] using this

theorem wellTyped_frame_left (A t : List W) (ls : Layers) (h : wellTyped t ls = true) :
    wellTyped (A ++ t) (shiftLayers A.length ls) = true ∧
      scanCod (A ++ t) (shiftLayers A.length ls) = A ++ scanCod t ls := by
  have := wellTyped_frame A [] t ls h
  simpa using this

/-! ### the operations -/

theorem D.WT_id (t : List W) : (D.id t).WT := by simp [D.WT, D.id, wellTyped, scanCod]

theorem D.WT_box (b : TBox) : (D.box b).WT := by
  have hf : boxFits b.dom b 0 = true := boxFits_iff.mpr ⟨[], [], by simp, rfl⟩
  simp only [boxFits, Bool.and_eq_true] at hf
  have := applyBox_frame [] [] b
  simp only [List.nil_append, List.append_nil, List.length_nil] at this
  simp [D.WT, D.box, wellTyped, scanCod, this]

theorem D.WT_tensor {a b : D} (ha : a.WT) (hb : b.WT) : (a.tensor b).WT := by
  have h1 := wellTyped_frame_right b.dom a.dom a.layers ha.1
  have h2 := wellTyped_frame_left a.cod b.dom b.layers hb.1
  simp only [D.WT, D.tensor, wellTyped_append, scanCod_append, Bool.and_eq_true]
  rw [h1.2, ha.2]
  exact ⟨⟨h1.1, h2.1⟩, by rw [h2.2, hb.2]⟩

theorem D.WT_then {a b c : D} (ha : a.WT) (hb : b.WT) (h : a.then b = .ok c) : c.WT := by
  unfold D.then at h
  split at h
  · rename_i e
    cases h
    simp only [D.WT, wellTyped_append, scanCod_append, Bool.and_eq_true]
    rw [ha.2, e]
    exact ⟨⟨ha.1, hb.1⟩, hb.2⟩
  · cases h

theorem D.then_dom {a b c : D} (h : a.then b = .ok c) : c.dom = a.dom ∧ c.cod = b.cod ∧ a.cod = b.dom := by
  unfold D.then at h
  split at h
  · rename_i e; cases h; exact ⟨rfl, rfl, e⟩
  · cases h

theorem D.WT_tensorAll (ds : List D) (h : ∀ d ∈ ds, d.WT) : (D.tensorAll ds).WT := by
  unfold D.tensorAll
  suffices ∀ acc : D, acc.WT → (ds.foldl D.tensor acc).WT from this _ (D.WT_id [])
  induction ds with
  | nil => intro acc h; exact h
  | cons d ds ih =>
    intro acc hacc
    exact ih (fun d' hd' => h d' (by simp [hd'])) _ (D.WT_tensor hacc (h d (by simp)))

/-! ### swaps -/

def isSwapBox : TBox → Bool
  | .swap _ _ => true
  | _ => false

def allSwaps (ls : Layers) : Bool := ls.all fun l => isSwapBox l.1

theorem allSwaps_append (l1 l2 : Layers) : allSwaps (l1 ++ l2) = (allSwaps l1 && allSwaps l2) := by
  simp [allSwaps]

theorem allSwaps_shift (k : Nat) (ls : Layers) : allSwaps (shiftLayers k ls) = allSwaps ls := by
  simp [allSwaps, shiftLayers, List.all_map, Function.comp_def]

/-- One wire past a block. -/
theorem oneSwap_chain (l : W) (right pre : List W) (k : Nat) (hk : k = pre.length) :
    wellTyped (pre ++ l :: right) ((right.zipIdx k).map fun p => (TBox.swap l p.1, p.2)) = true ∧
      scanCod (pre ++ l :: right) ((right.zipIdx k).map fun p => (TBox.swap l p.1, p.2)) = pre ++ right ++ [l] := by
  induction right generalizing pre k with
  | nil => simp [wellTyped, scanCod]
  | cons r rs ih =>
    subst hk
    have hf : boxFits (pre ++ (TBox.swap l r).dom ++ rs) (TBox.swap l r) pre.length = true :=
      boxFits_iff.mpr ⟨_, _, rfl, rfl⟩
    have ha := applyBox_frame pre rs (TBox.swap l r)
    have e : pre ++ l :: r :: rs = pre ++ (TBox.swap l r).dom ++ rs := by simp [TBox.dom]
    have e2 : pre ++ (TBox.swap l r).cod ++ rs = (pre ++ [r]) ++ l :: rs := by simp [TBox.cod]
    have ih' := ih (pre ++ [r]) (pre.length + 1) (by simp)
    simp only [List.zipIdx_cons, List.map_cons, wellTyped, scanCod, Bool.and_eq_true]
    rw [e, ha, e2]
    simp only [boxFits, Bool.and_eq_true] at hf
    exact ⟨⟨hf, ih'.1⟩, by rw [ih'.2]; simp⟩

theorem oneSwap_WT (l : W) (right : List W) : (⟨l :: right, right ++ [l], oneSwap l right⟩ : D).WT := by
  have := oneSwap_chain l right [] 0 rfl
  simpa [D.WT, oneSwap] using this

theorem oneSwap_allSwaps (l : W) (right : List W) : allSwaps (oneSwap l right) = true := by
  simp [allSwaps, oneSwap, isSwapBox]

/-- `Id.swap(left, right)` is a chain of swaps from `left @ right` to `right @ left`. -/
theorem D.WT_swap (left right : List W) : (D.swap left right).WT ∧ allSwaps (D.swap left right).layers = true := by
  induction left with
  | nil => simp [D.swap, swapBoxes, D.WT, wellTyped, scanCod, allSwaps]
  | cons l tl ih =>
    obtain ⟨⟨ih1, ih2⟩, ih3⟩ := ih
    simp only [D.swap] at ih1 ih2 ih3
    have h1 := wellTyped_frame_left [l] (tl ++ right) (swapBoxes tl right) ih1
    have h2 := oneSwap_WT l right
    have h3 := wellTyped_frame_right tl (l :: right) (oneSwap l right) h2.1
    simp only [D.WT, D.swap, swapBoxes, wellTyped_append, scanCod_append, Bool.and_eq_true,
      allSwaps_append, allSwaps_shift, oneSwap_allSwaps, ih3]
    simp only [List.length_singleton, List.singleton_append] at h1
    have e : l :: tl ++ right = l :: (tl ++ right) := rfl
    rw [e, h1.2, ih2]
    have e2 : l :: (right ++ tl) = (l :: right) ++ tl := rfl
    rw [e2, h3.2, h2.2]
    exact ⟨⟨⟨h1.1, h3.1⟩, by simp⟩, trivial, trivial⟩

/-- `swaps[::-1]`: a chain of swaps read backwards, every swap daggered, leads back. -/
theorem daggerSwaps_chain (t : List W) (ls : Layers) (h : wellTyped t ls = true) (hs : allSwaps ls = true) :
    wellTyped (scanCod t ls) ((ls.map fun l => (daggerSwapBox l.1, l.2)).reverse) = true ∧
      scanCod (scanCod t ls) ((ls.map fun l => (daggerSwapBox l.1, l.2)).reverse) = t := by
  induction ls generalizing t with
  | nil => simp [wellTyped, scanCod]
  | cons l ls ih =>
    obtain ⟨b, off⟩ := l
    simp only [allSwaps, List.all_cons, Bool.and_eq_true] at hs
    obtain ⟨hb, hs⟩ := hs
    cases b <;> simp only [isSwapBox] at hb <;> try cases hb
    rename_i x y
    simp only [wellTyped, Bool.and_eq_true] at h
    have hf : boxFits t (.swap x y) off = true := by simp only [boxFits, Bool.and_eq_true]; exact h.1
    obtain ⟨A, C, rfl, rfl⟩ := boxFits_iff.mp hf
    have ha := applyBox_frame A C (.swap x y)
    rw [ha] at h
    have ih' := ih (A ++ (TBox.swap x y).cod ++ C) h.2 hs
    have ed : daggerSwapBox (.swap x y) = .swap y x := rfl
    have e : (TBox.swap x y).cod = (TBox.swap y x).dom := rfl
    have e' : (TBox.swap x y).dom = (TBox.swap y x).cod := rfl
    have hfit : boxFits (A ++ (TBox.swap y x).dom ++ C) (.swap y x) A.length = true :=
      boxFits_iff.mpr ⟨_, _, rfl, rfl⟩
    simp only [boxFits, Bool.and_eq_true] at hfit
    rw [List.map_cons, List.reverse_cons, wellTyped_append, scanCod_append]
    simp only [scanCod, ha]
    rw [ih'.1, ih'.2, ed, e]
    simp only [wellTyped, scanCod, Bool.and_eq_true, true_and, and_true]
    rw [applyBox_frame, e']
    exact ⟨hfit, rfl⟩

theorem D.WT_daggerSwaps {a : D} (ha : a.WT) (hs : allSwaps a.layers = true) : a.daggerSwaps.WT := by
  have := daggerSwaps_chain a.dom a.layers ha.1 hs
  rw [ha.2] at this
  exact this

/-! ### the pieces of `from_tk` -/

theorem slice_split (cod : List W) (a b : Nat) (h : a ≤ b) :
    cod.take a ++ slice cod a b ++ cod.drop b = cod := by
  unfold slice
  have : cod.take a = (cod.take b).take a := by rw [List.take_take, Nat.min_eq_left h]
  rw [this, List.take_append_drop, List.take_append_drop]

theorem allSwaps_framed (A C : List W) (d : D) (h : allSwaps d.layers = true) :
    allSwaps (((D.id A).tensor d).tensor (D.id C)).layers = true := by
  have e : (((D.id A).tensor d).tensor (D.id C)).layers = shiftLayers A.length d.layers := by
    simp [D.tensor, D.id, shiftLayers]
  rw [e, allSwaps_shift]; exact h

theorem moveRight_WT (cod : List W) (s t : Nat) :
    (moveRight cod s t).WT ∧ allSwaps (moveRight cod s t).layers = true := by
  obtain ⟨h1, h2⟩ := D.WT_swap (slice cod s (s + 1)) (slice cod (s + 1) t)
  refine ⟨D.WT_tensor (D.WT_tensor (D.WT_id _) h1) (D.WT_id _), ?_⟩
  exact allSwaps_framed _ _ _ h2

theorem moveLeft_WT (cod : List W) (s t : Nat) :
    (moveLeft cod s t).WT ∧ allSwaps (moveLeft cod s t).layers = true := by
  obtain ⟨h1, h2⟩ := D.WT_swap (slice cod t s) (slice cod s (s + 1))
  refine ⟨D.WT_tensor (D.WT_tensor (D.WT_id _) h1) (D.WT_id _), ?_⟩
  exact allSwaps_framed _ _ _ h2

theorem measureSwaps_WT (cod : List W) (nq off bi : Nat) :
    (measureSwaps cod nq off bi).WT ∧ allSwaps (measureSwaps cod nq off bi).layers = true := by
  obtain ⟨h1, h2⟩ := D.WT_swap (slice cod (off + 1) (nq + bi)) (slice (cod.drop nq) bi (bi + 1))
  refine ⟨D.WT_tensor (D.WT_tensor (D.WT_id _) h1) (D.WT_id _), ?_⟩
  exact allSwaps_framed _ _ _ h2

theorem D.then_allSwaps {a b c : D} (h : a.then b = .ok c) (ha : allSwaps a.layers = true)
    (hb : allSwaps b.layers = true) : allSwaps c.layers = true := by
  unfold D.then at h
  split at h
  · cases h; simp [allSwaps_append, ha, hb]
  · cases h

theorem muaLoopT_WT (offset i : Nat) (rest : List Nat) (swaps : D) (r : Nat × D)
    (hw : swaps.WT) (hs : allSwaps swaps.layers = true) (h : muaLoopT offset i rest swaps = .ok r) :
    r.2.WT ∧ allSwaps r.2.layers = true ∧ r.2.dom = swaps.dom := by
  induction rest generalizing offset i swaps with
  | nil => simp only [muaLoopT] at h; cases h; exact ⟨hw, hs, rfl⟩
  | cons source rest ih =>
    simp only [muaLoopT] at h
    split at h
    · split at h
      · cases h
      · rename_i s hs'
        obtain ⟨m1, m2⟩ := moveRight_WT swaps.cod source (offset + i + 1)
        have := ih _ _ s (D.WT_then hw m1 hs') (D.then_allSwaps hs' hs m2) h
        exact ⟨this.1, this.2.1, by rw [this.2.2, (D.then_dom hs').1]⟩
    · split at h
      · split at h
        · cases h
        · rename_i s hs'
          obtain ⟨m1, m2⟩ := moveLeft_WT swaps.cod source (offset + i + 1)
          have := ih _ _ s (D.WT_then hw m1 hs') (D.then_allSwaps hs' hs m2) h
          exact ⟨this.1, this.2.1, by rw [this.2.2, (D.then_dom hs').1]⟩
      · exact ih _ _ swaps hw hs h

theorem boxLayer_WT (cod : List W) (box : TBox) (off : Nat) : (boxLayer cod box off).WT :=
  D.WT_tensor (D.WT_tensor (D.WT_id _) (D.WT_box _)) (D.WT_id _)

theorem place_WT {circuit swaps : D} {box : TBox} {off : Nat} {d : D} (hc : circuit.WT) (hw : swaps.WT)
    (hs : allSwaps swaps.layers = true) (h : place circuit swaps box off = .ok d) :
    d.WT ∧ d.dom = circuit.dom ∧ d.cod = circuit.cod := by
  unfold place at h
  split at h
  · cases h
  · rename_i c1 h1
    split at h
    · cases h
    · rename_i c2 h2
      have w1 := D.WT_then hc hw h1
      have w2 := D.WT_then w1 (boxLayer_WT _ _ _) h2
      have w3 := D.WT_then w2 (D.WT_daggerSwaps hw hs) h
      obtain ⟨d1, _, e1⟩ := D.then_dom h1
      obtain ⟨d2, _, _⟩ := D.then_dom h2
      obtain ⟨d3, c3, _⟩ := D.then_dom h
      exact ⟨w3, by rw [d3, d2, d1], by rw [c3]; simp [D.daggerSwaps, e1]⟩

theorem stepCmd_WT {inp : TkIn} {acc acc' : Acc} {c : Cmd} (hc : acc.circuit.WT)
    (h : stepCmd inp acc c = .ok acc') :
    acc'.circuit.WT ∧ acc'.circuit.dom = acc.circuit.dom ∧ acc'.circuit.cod = acc.circuit.cod := by
  unfold stepCmd at h
  split at h
  · split at h
    · rename_i offset b _ _
      unfold stepMeasure at h
      split at h
      · cases h; exact ⟨hc, rfl, rfl⟩
      · split at h
        · cases h
        · rename_i d hd
          cases h
          obtain ⟨m1, m2⟩ := measureSwaps_WT acc.circuit.cod inp.nq offset (b - psBelow inp.ps b)
          exact place_WT hc m1 m2 hd
    · cases h
  · unfold stepGate at h
    split at h
    · cases h
    · rename_i box _
      split at h
      · cases h
      · rename_i r hr
        split at h
        · cases h
        · rename_i d hd
          cases h
          unfold makeUnitsAdjacentT at hr
          split at hr
          · cases hr
          · obtain ⟨m1, m2, _⟩ := muaLoopT_WT _ 0 _ (D.id inp.units) r (D.WT_id _) (by simp [D.id, allSwaps]) hr
            exact place_WT hc m1 m2 hd

theorem loopCmds_WT {inp : TkIn} (cmds : List Cmd) {acc acc' : Acc} (hc : acc.circuit.WT)
    (h : loopCmds inp acc cmds = .ok acc') :
    acc'.circuit.WT ∧ acc'.circuit.dom = acc.circuit.dom ∧ acc'.circuit.cod = acc.circuit.cod := by
  induction cmds generalizing acc with
  | nil => simp only [loopCmds] at h; cases h; exact ⟨hc, rfl, rfl⟩
  | cons c rest ih =>
    simp only [loopCmds] at h
    split at h
    · cases h
    · rename_i a1 h1
      obtain ⟨w, d, c'⟩ := stepCmd_WT hc h1
      obtain ⟨w2, d2, c2⟩ := ih w h
      exact ⟨w2, by rw [d2, d], by rw [c2, c']⟩

theorem initCircuit_WT (inp : TkIn) : (initCircuit inp).WT := by
  apply D.WT_tensorAll
  intro d hd
  simp only [List.mem_append, List.mem_replicate] at hd
  rcases hd with ⟨_, rfl⟩ | ⟨_, rfl⟩ <;> exact D.WT_box _

theorem finalLayer_WT (bras : PS) (cod : List W) : (finalLayer bras cod).WT := by
  apply D.WT_tensorAll
  intro d hd
  simp only [List.mem_map] at hd
  obtain ⟨p, _, rfl⟩ := hd
  unfold finalBox
  split
  · exact D.WT_box _
  · split
    · exact D.WT_box _
    · exact D.WT_id _

/-- The post-processing handed in is a well-typed classical circuit. -/
def PP.WT (pp : PP) : Prop := pp.toD.WT

theorem addScalar_WT {c : D} (b : Bool) (h : c.WT) : (addScalar b c).WT := by
  unfold addScalar
  split
  · exact D.WT_tensor h (D.WT_box _)
  · exact h

/-- **The imported circuit is well-typed**: whenever the model of `from_tk` returns a circuit,
    every box of it finds its domain at its offset, the scan ends in the recorded codomain, and the
    domain is empty. -/
theorem fromTk_WT {inp : TkIn} {d : D} (hpp : inp.pp.WT) (h : fromTk inp = .ok d) :
    d.WT ∧ d.dom = [] ∧ d.cod = List.replicate inp.pp.cod .b := by
  unfold fromTk at h
  split at h
  · cases h
  · rename_i c hbody
    unfold fromTkBody at hbody
    split at hbody
    · cases hbody
    · rename_i acc hacc
      have hc := hbody
      obtain ⟨w, hd, _⟩ := loopCmds_WT inp.cmds (initCircuit_WT inp) hacc
      have w1 := D.WT_then w (finalLayer_WT _ _) hc
      have w2 := D.WT_then (addScalar_WT inp.scaled w1) hpp h
      obtain ⟨d1, _, _⟩ := D.then_dom hc
      obtain ⟨d2, c2, _⟩ := D.then_dom h
      refine ⟨w2, ?_, by rw [c2]; rfl⟩
      rw [d2]
      have hi : (initCircuit inp).dom = [] := by
        unfold initCircuit D.tensorAll
        suffices ∀ (ds : List D) (acc : D), acc.dom = [] → (∀ x ∈ ds, x.dom = []) →
            (ds.foldl D.tensor acc).dom = [] from
          this _ _ rfl (by
            intro x hx
            simp only [List.mem_append, List.mem_replicate] at hx
            rcases hx with ⟨_, rfl⟩ | ⟨_, rfl⟩ <;> rfl)
        intro ds
        induction ds with
        | nil => intro acc h _; exact h
        | cons x xs ih =>
          intro acc h hx
          exact ih _ (by simp [D.tensor, h, hx x (by simp)]) (fun y hy => hx y (by simp [hy]))
      unfold addScalar
      split
      · simp [D.tensor, d1, hd, hi, D.box, TBox.dom]
      · rw [d1, hd, hi]

end DV.Tk
