/-
  Proofs/TensorSum.lean — the image of a formal sum under a tensor functor is a tensor of the image
  types (whatever the number of terms); for no term it is the zero tensor.
-/
import Model.TensorSum
import Proofs.TensorFunctor

namespace DV
namespace TFunctor
variable {R : Type} [Add R] [Mul R] [Zero R] [One R] [Conj R] [DecidableEq R]

omit [Mul R] [One R] [Conj R] in
/-- `Tensor.__add__` keeps the type of its left operand. -/
theorem add_type {f g t : Tensor R} (h : f.add g = .ok t) : t.dom = f.dom ∧ t.cod = f.cod := by
  unfold Tensor.add at h
  split at h
  · cases h; exact ⟨rfl, rfl⟩
  · split at h
    · cases h
    · cases h; exact ⟨rfl, rfl⟩

theorem sumLoop_type (F : TFunctor R) (terms : List Diagram) :
    ∀ (acc t : Tensor R), F.sumLoop acc terms = .ok t → t.dom = acc.dom ∧ t.cod = acc.cod := by
  induction terms with
  | nil => intro acc t h; simp only [sumLoop] at h; cases h; exact ⟨rfl, rfl⟩
  | cons d ds ih =>
    intro acc t h
    simp only [sumLoop] at h
    split at h
    · cases h
    · split at h
      · cases h
      · rename_i acc' hadd
        have h1 := ih acc' t h
        have h2 := add_type hadd
        exact ⟨h1.1.trans h2.1, h1.2.trans h2.2⟩

/-- The empty sum: no term is evaluated, the start value is the answer. -/
theorem callSum_nil (F : TFunctor R) (dom cod : Ty) :
    F.callSum dom cod [] = .ok (Tensor.zeros (F.ty dom) (F.ty cod)) := rfl

theorem callSum_type (F : TFunctor R) (dom cod : Ty) (terms : List Diagram) (t : Tensor R)
    (h : F.callSum dom cod terms = .ok t) : t.dom = F.ty dom ∧ t.cod = F.ty cod := by
  have := sumLoop_type F terms _ t h
  simpa [Tensor.zeros] using this

end TFunctor

namespace Tensor
variable {R : Type} [Zero R]

/-- `Tensor.zeros(dom, cod)` is a well-formed tensor `dom → cod`. -/
theorem zeros_wf (dom cod : List Nat) : (Tensor.zeros (R := R) dom cod).WF :=
  mk'_wf dom cod _ (ofFn_wf _ _) rfl

/-- Every entry of `Tensor.zeros(dom, cod)` is zero. -/
theorem zeros_data (dom cod : List Nat) :
    ∀ x ∈ (Tensor.zeros (R := R) dom cod).arr.data.toList, x = 0 := by
  intro x hx
  simp only [Tensor.zeros, mk', NDArray.reshape, NDArray.zeros, NDArray.ofFn, List.toList_toArray,
    List.mem_map] at hx
  obtain ⟨_, _, rfl⟩ := hx
  rfl

end Tensor
end DV
