/-
  Proofs/PolyOrder.lean — the monomial order of Model/Param.lean (`Mono.cmp`) is a strict total
  order on exponent vectors read up to trailing zeros, and `Mono.trim` picks the canonical
  representative.  Core Lean only (no Mathlib needed).

  `Mono.get m i` = exponent of x_i (0 beyond the end).  Everything is phrased through it:
    cmp m n = .lt  ↔  LexLt (get m) (get n)       cmp m n = .eq ↔ get m = get n
    cmp m n = .gt  ↔  LexLt (get n) (get m)
-/
import Model.Param

namespace DV.Param

/-- Exponent of `x_i` in a monomial. -/
def Mono.get (m : Mono) (i : Nat) : Nat := m.getD i 0

@[simp] theorem Mono.get_nil (i : Nat) : Mono.get [] i = 0 := by simp [Mono.get]
@[simp] theorem Mono.get_cons_zero (a : Nat) (m : Mono) : Mono.get (a :: m) 0 = a := by
  simp [Mono.get]
@[simp] theorem Mono.get_cons_succ (a : Nat) (m : Mono) (i : Nat) :
    Mono.get (a :: m) (i + 1) = Mono.get m i := by
  simp [Mono.get]

/-- Lexicographic "first difference is smaller". -/
def LexLt (f g : Nat → Nat) : Prop := ∃ i, (∀ j, j < i → f j = g j) ∧ f i < g i

theorem LexLt.irrefl_of_eq {f g : Nat → Nat} (h : LexLt f g) (e : ∀ i, f i = g i) : False := by
  obtain ⟨i, _, hi⟩ := h
  rw [e i] at hi
  exact Nat.lt_irrefl _ hi

theorem LexLt.asymm {f g : Nat → Nat} (h : LexLt f g) (h' : LexLt g f) : False := by
  obtain ⟨i, hi, hlt⟩ := h
  obtain ⟨k, hk, hlt'⟩ := h'
  rcases Nat.lt_trichotomy i k with c | c | c
  · have := hk i c; omega
  · subst c; omega
  · have := hi k c; omega

theorem LexLt.trans {f g h : Nat → Nat} (h1 : LexLt f g) (h2 : LexLt g h) : LexLt f h := by
  obtain ⟨i, hi, hlt⟩ := h1
  obtain ⟨k, hk, hlt'⟩ := h2
  rcases Nat.lt_trichotomy i k with c | c | c
  · refine ⟨i, fun j hj => ?_, ?_⟩
    · rw [hi j hj, hk j (Nat.lt_trans hj c)]
    · rw [← hk i c]; exact hlt
  · subst c
    exact ⟨i, fun j hj => by rw [hi j hj, hk j hj], Nat.lt_trans hlt hlt'⟩
  · refine ⟨k, fun j hj => ?_, ?_⟩
    · rw [hi j (Nat.lt_trans hj c), hk j hj]
    · rw [hi k c]; exact hlt'

theorem LexLt.congr_left {f f' g : Nat → Nat} (e : ∀ i, f i = f' i) (h : LexLt f g) : LexLt f' g := by
  obtain ⟨i, hi, hlt⟩ := h
  exact ⟨i, fun j hj => by rw [← e j, hi j hj], by rw [← e i]; exact hlt⟩

theorem LexLt.congr_right {f g g' : Nat → Nat} (e : ∀ i, g i = g' i) (h : LexLt f g) : LexLt f g' := by
  obtain ⟨i, hi, hlt⟩ := h
  exact ⟨i, fun j hj => by rw [← e j, hi j hj], by rw [← e i]; exact hlt⟩

theorem LexLt.cons {a : Nat} {m n : Mono} (h : LexLt (Mono.get m) (Mono.get n)) :
    LexLt (Mono.get (a :: m)) (Mono.get (a :: n)) := by
  obtain ⟨i, hi, hlt⟩ := h
  refine ⟨i + 1, fun j hj => ?_, by simpa using hlt⟩
  cases j with
  | zero => simp
  | succ j => simpa using hi j (by omega)

/-! ### `isZero` -/

theorem Mono.isZero_iff (m : Mono) : Mono.isZero m = true ↔ ∀ i, Mono.get m i = 0 := by
  induction m with
  | nil => simp [Mono.isZero]
  | cons a m ih =>
    simp only [Mono.isZero, Bool.and_eq_true, beq_iff_eq, ih]
    constructor
    · rintro ⟨ha, h⟩ i
      cases i with
      | zero => simpa using ha
      | succ i => simpa using h i
    · intro h
      exact ⟨by simpa using h 0, fun i => by simpa using h (i + 1)⟩

theorem Mono.first_nonzero (m : Mono) (h : Mono.isZero m = false) :
    LexLt (fun _ => 0) (Mono.get m) := by
  induction m with
  | nil => simp [Mono.isZero] at h
  | cons a m ih =>
    by_cases ha : a = 0
    · subst ha
      have hm : Mono.isZero m = false := by simpa [Mono.isZero] using h
      obtain ⟨i, hi, hlt⟩ := ih hm
      refine ⟨i + 1, fun j hj => ?_, by simpa using hlt⟩
      cases j with
      | zero => simp
      | succ j => simpa using hi j (by omega)
    · exact ⟨0, fun j hj => absurd hj (Nat.not_lt_zero _), by simpa using Nat.pos_of_ne_zero ha⟩

/-! ### specification of `cmp` -/

/-- What each outcome of `Mono.cmp` means. -/
def CmpSpec (m n : Mono) : Ordering → Prop
  | .lt => LexLt (Mono.get m) (Mono.get n)
  | .eq => ∀ i, Mono.get m i = Mono.get n i
  | .gt => LexLt (Mono.get n) (Mono.get m)

theorem Mono.cmp_spec (m n : Mono) : CmpSpec m n (Mono.cmp m n) := by
  induction m generalizing n with
  | nil =>
    unfold Mono.cmp
    by_cases h : Mono.isZero n = true
    · rw [if_pos h]
      intro i
      rw [(Mono.isZero_iff n).mp h i]; simp
    · rw [if_neg h]
      have h' : Mono.isZero n = false := by simpa using h
      exact LexLt.congr_left (fun i => by simp) (Mono.first_nonzero n h')
  | cons a m ih =>
    cases n with
    | nil =>
      unfold Mono.cmp
      by_cases h : Mono.isZero (a :: m) = true
      · rw [if_pos h]
        intro i
        rw [(Mono.isZero_iff _).mp h i]; simp
      · rw [if_neg h]
        have h' : Mono.isZero (a :: m) = false := by simpa using h
        exact LexLt.congr_left (fun i => by simp) (Mono.first_nonzero _ h')
    | cons b n =>
      unfold Mono.cmp
      by_cases h1 : a < b
      · rw [if_pos h1]
        exact ⟨0, fun j hj => absurd hj (Nat.not_lt_zero _), by simpa using h1⟩
      · rw [if_neg h1]
        by_cases h2 : b < a
        · rw [if_pos h2]
          exact ⟨0, fun j hj => absurd hj (Nat.not_lt_zero _), by simpa using h2⟩
        · rw [if_neg h2]
          have hab : a = b := by omega
          subst hab
          have := ih n
          cases hc : Mono.cmp m n with
          | lt => rw [hc] at this; exact LexLt.cons this
          | gt => rw [hc] at this; exact LexLt.cons this
          | eq =>
            rw [hc] at this
            intro i
            cases i with
            | zero => simp
            | succ i => simpa using this i

theorem Mono.cmp_lt_iff (m n : Mono) : Mono.cmp m n = .lt ↔ LexLt (Mono.get m) (Mono.get n) := by
  have h := Mono.cmp_spec m n
  constructor
  · intro e; rw [e] at h; exact h
  · intro hl
    cases hc : Mono.cmp m n with
    | lt => rfl
    | eq => rw [hc] at h; exact (hl.irrefl_of_eq h).elim
    | gt => rw [hc] at h; exact (hl.asymm h).elim

theorem Mono.cmp_gt_iff (m n : Mono) : Mono.cmp m n = .gt ↔ LexLt (Mono.get n) (Mono.get m) := by
  have h := Mono.cmp_spec m n
  constructor
  · intro e; rw [e] at h; exact h
  · intro hl
    cases hc : Mono.cmp m n with
    | gt => rfl
    | eq => rw [hc] at h; exact (hl.irrefl_of_eq (fun i => (h i).symm)).elim
    | lt => rw [hc] at h; exact (hl.asymm h).elim

theorem Mono.cmp_eq_iff (m n : Mono) : Mono.cmp m n = .eq ↔ ∀ i, Mono.get m i = Mono.get n i := by
  have h := Mono.cmp_spec m n
  constructor
  · intro e; rw [e] at h; exact h
  · intro he
    cases hc : Mono.cmp m n with
    | eq => rfl
    | lt => rw [hc] at h; exact (h.irrefl_of_eq he).elim
    | gt => rw [hc] at h; exact (h.irrefl_of_eq (fun i => (he i).symm)).elim

theorem Mono.cmp_lt_trans {a b c : Mono} (h1 : Mono.cmp a b = .lt) (h2 : Mono.cmp b c = .lt) :
    Mono.cmp a c = .lt :=
  (Mono.cmp_lt_iff a c).mpr (((Mono.cmp_lt_iff a b).mp h1).trans ((Mono.cmp_lt_iff b c).mp h2))

theorem Mono.cmp_gt_swap {a b : Mono} (h : Mono.cmp a b = .gt) : Mono.cmp b a = .lt :=
  (Mono.cmp_lt_iff b a).mpr ((Mono.cmp_gt_iff a b).mp h)

/-- `cmp` only looks at the exponents. -/
theorem Mono.cmp_congr_right {a b b' : Mono} (e : ∀ i, Mono.get b i = Mono.get b' i)
    (h : Mono.cmp a b = .lt) : Mono.cmp a b' = .lt :=
  (Mono.cmp_lt_iff a b').mpr (((Mono.cmp_lt_iff a b).mp h).congr_right e)

theorem Mono.cmp_congr_left {a a' b : Mono} (e : ∀ i, Mono.get a i = Mono.get a' i)
    (h : Mono.cmp a b = .lt) : Mono.cmp a' b = .lt :=
  (Mono.cmp_lt_iff a' b).mpr (((Mono.cmp_lt_iff a b).mp h).congr_left e)

/-! ### trimmed monomials -/

/-- Normal form of a monomial: no trailing zero. -/
def Mono.Trimmed : Mono → Prop
  | [] => True
  | a :: m => (m = [] → a ≠ 0) ∧ Mono.Trimmed m

theorem Mono.trimmed_zero {m : Mono} (ht : Mono.Trimmed m) (h : ∀ i, Mono.get m i = 0) : m = [] := by
  induction m with
  | nil => rfl
  | cons a m ih =>
    obtain ⟨h1, h2⟩ := ht
    have hm : m = [] := ih h2 (fun i => by simpa using h (i + 1))
    exact absurd (by simpa using h 0) (h1 hm)

/-- Trimmed monomials with the same exponents are equal. -/
theorem Mono.trimmed_ext {m n : Mono} (hm : Mono.Trimmed m) (hn : Mono.Trimmed n)
    (h : ∀ i, Mono.get m i = Mono.get n i) : m = n := by
  induction m generalizing n with
  | nil => exact (Mono.trimmed_zero hn (fun i => by rw [← h i]; simp)).symm
  | cons a m ih =>
    cases n with
    | nil => exact Mono.trimmed_zero hm (fun i => by rw [h i]; simp)
    | cons b n =>
      have hab : a = b := by simpa using h 0
      have : m = n := ih hm.2 hn.2 (fun i => by simpa using h (i + 1))
      rw [hab, this]

theorem Mono.trim_cons (a : Nat) (m : Mono) :
    Mono.trim (a :: m) = if Mono.trim m = [] then (if a = 0 then [] else [a]) else a :: Mono.trim m := by
  unfold Mono.trim
  rw [List.reverse_cons, List.dropWhile_append]
  by_cases h : (List.dropWhile (fun x => x == 0) m.reverse).isEmpty = true
  · have h' : List.dropWhile (fun x => x == 0) m.reverse = [] := List.isEmpty_iff.mp h
    rw [if_pos h, h']
    by_cases ha : a = 0
    · simp [ha]
    · simp [ha]
  · have h' : List.dropWhile (fun x => x == 0) m.reverse ≠ [] := fun e => h (List.isEmpty_iff.mpr e)
    rw [if_neg h]
    have : (List.dropWhile (fun x => x == 0) m.reverse).reverse ≠ [] := by
      simpa using h'
    rw [if_neg this]
    simp

theorem Mono.trim_trimmed (m : Mono) : Mono.Trimmed (Mono.trim m) := by
  induction m with
  | nil => simp [Mono.trim, Mono.Trimmed]
  | cons a m ih =>
    rw [Mono.trim_cons]
    by_cases h : Mono.trim m = []
    · rw [if_pos h]
      by_cases ha : a = 0
      · rw [if_pos ha]; trivial
      · rw [if_neg ha]; exact ⟨fun _ => ha, trivial⟩
    · rw [if_neg h]
      exact ⟨fun e => absurd e h, ih⟩

theorem Mono.get_trim (m : Mono) (i : Nat) : Mono.get (Mono.trim m) i = Mono.get m i := by
  induction m generalizing i with
  | nil => simp [Mono.trim]
  | cons a m ih =>
    rw [Mono.trim_cons]
    by_cases h : Mono.trim m = []
    · rw [if_pos h]
      have hz : ∀ k, Mono.get m k = 0 := fun k => by rw [← ih k, h]; simp
      by_cases ha : a = 0
      · rw [if_pos ha]
        cases i with
        | zero => simp [ha]
        | succ i => simp [hz i]
      · rw [if_neg ha]
        cases i with
        | zero => simp
        | succ i => simp [hz i]
    · rw [if_neg h]
      cases i with
      | zero => simp
      | succ i => simpa using ih i

theorem Mono.get_mul (m n : Mono) (i : Nat) :
    Mono.get (Mono.mul m n) i = Mono.get m i + Mono.get n i := by
  induction m generalizing n i with
  | nil => simp [Mono.mul]
  | cons a m ih =>
    cases n with
    | nil => simp [Mono.mul]
    | cons b n =>
      simp only [Mono.mul]
      cases i with
      | zero => simp
      | succ i => simpa using ih n i

/-! ### well-formed term lists -/

/-- Normal form of a term list: strictly increasing monomials (`Mono.cmp`), trimmed, no zero
    coefficient.  This is the invariant stated in the doc-comment of `Poly`. -/
def TermsWF (l : List (Mono × Int)) : Prop :=
  l.Pairwise (fun s t => Mono.cmp s.1 t.1 = .lt) ∧ ∀ t ∈ l, Mono.Trimmed t.1 ∧ t.2 ≠ 0

def Poly.WF (p : Poly) : Prop := TermsWF p.terms

theorem TermsWF.nil : TermsWF [] := ⟨List.Pairwise.nil, fun _ h => absurd h List.not_mem_nil⟩

theorem TermsWF.tail {t : Mono × Int} {l : List (Mono × Int)} (h : TermsWF (t :: l)) : TermsWF l :=
  ⟨(List.pairwise_cons.mp h.1).2, fun x hx => h.2 x (List.mem_cons_of_mem _ hx)⟩

theorem TermsWF.cons {t : Mono × Int} {l : List (Mono × Int)} (hl : TermsWF l)
    (ht : Mono.Trimmed t.1) (hc : t.2 ≠ 0) (hlt : ∀ x ∈ l, Mono.cmp t.1 x.1 = .lt) :
    TermsWF (t :: l) :=
  ⟨List.pairwise_cons.mpr ⟨hlt, hl.1⟩, fun x hx => by
    rcases List.mem_cons.mp hx with e | e
    · subst e; exact ⟨ht, hc⟩
    · exact hl.2 x e⟩

namespace Poly

/-- The monomials of `addTerm m c l` are `m` or monomials of `l`. -/
theorem mem_addTerm {m : Mono} {c : Int} {l : List (Mono × Int)} {t : Mono × Int}
    (h : t ∈ addTerm m c l) : t.1 = m ∨ ∃ t' ∈ l, t'.1 = t.1 := by
  induction l with
  | nil =>
    unfold addTerm at h
    split at h
    · exact absurd h List.not_mem_nil
    · left; rw [List.mem_singleton.mp h]
  | cons x p ih =>
    obtain ⟨n, d⟩ := x
    unfold addTerm at h
    split at h
    · split at h
      · exact Or.inr ⟨t, h, rfl⟩
      · rcases List.mem_cons.mp h with e | e
        · left; rw [e]
        · exact Or.inr ⟨t, e, rfl⟩
    · split at h
      · exact Or.inr ⟨t, List.mem_cons_of_mem _ h, rfl⟩
      · rcases List.mem_cons.mp h with e | e
        · exact Or.inr ⟨(n, d), List.mem_cons_self, by rw [e]⟩
        · exact Or.inr ⟨t, List.mem_cons_of_mem _ e, rfl⟩
    · rcases List.mem_cons.mp h with e | e
      · exact Or.inr ⟨(n, d), List.mem_cons_self, by rw [e]⟩
      · rcases ih e with r | ⟨t', ht', e'⟩
        · exact Or.inl r
        · exact Or.inr ⟨t', List.mem_cons_of_mem _ ht', e'⟩

theorem addTerm_wf {m : Mono} (c : Int) {l : List (Mono × Int)} (hm : Mono.Trimmed m)
    (hl : TermsWF l) : TermsWF (addTerm m c l) := by
  induction l with
  | nil =>
    unfold addTerm
    split
    · exact TermsWF.nil
    · rename_i hc
      exact TermsWF.nil.cons hm (by simpa using hc) (fun _ h => absurd h List.not_mem_nil)
  | cons x p ih =>
    obtain ⟨n, d⟩ := x
    have hp : TermsWF p := hl.tail
    have hnp : ∀ x ∈ p, Mono.cmp n x.1 = .lt := (List.pairwise_cons.mp hl.1).1
    have hn := hl.2 (n, d) List.mem_cons_self
    unfold addTerm
    split
    · rename_i hlt
      split
      · exact hl
      · rename_i hc
        refine hl.cons hm (by simpa using hc) (fun x hx => ?_)
        rcases List.mem_cons.mp hx with e | e
        · rw [e]; exact hlt
        · exact Mono.cmp_lt_trans hlt (hnp x e)
    · split
      · exact hp
      · rename_i hc
        exact hp.cons hn.1 (by simpa using hc) hnp
    · rename_i hgt
      refine (ih hp).cons hn.1 hn.2 (fun x hx => ?_)
      rcases mem_addTerm hx with e | ⟨t', ht', e⟩
      · rw [e]; exact Mono.cmp_gt_swap hgt
      · rw [← e]; exact hnp t' ht'

theorem addL_wf {p q : List (Mono × Int)} (hp : ∀ t ∈ p, Mono.Trimmed t.1) (hq : TermsWF q) :
    TermsWF (addL p q) := by
  induction p with
  | nil => exact hq
  | cons t p ih =>
    exact addTerm_wf _ (hp t List.mem_cons_self) (ih (fun x hx => hp x (List.mem_cons_of_mem _ hx)))

theorem smulMono_wf (m : Mono) (c : Int) (q : List (Mono × Int)) : TermsWF (smulMono m c q) := by
  induction q with
  | nil => exact TermsWF.nil
  | cons t q ih => exact addTerm_wf _ (Mono.trim_trimmed _) ih

theorem mulL_wf (p q : List (Mono × Int)) : TermsWF (mulL p q) := by
  induction p with
  | nil => exact TermsWF.nil
  | cons t p ih => exact addL_wf (fun x hx => ((smulMono_wf t.1 t.2 q).2 x hx).1) ih

theorem ofTerms_wf (ts : List (Mono × Int)) : (ofTerms ts).WF := by
  unfold ofTerms Poly.WF
  induction ts with
  | nil => exact TermsWF.nil
  | cons t ts ih => exact addTerm_wf _ (Mono.trim_trimmed _) ih

theorem const_wf (c : Int) : (const c).WF := by
  unfold const Poly.WF
  split
  · exact TermsWF.nil
  · rename_i hc
    exact TermsWF.nil.cons trivial (by simpa using hc) (fun _ h => absurd h List.not_mem_nil)

theorem zero_wf : (0 : Poly).WF := const_wf 0
theorem one_wf : (1 : Poly).WF := const_wf 1

theorem trimmed_replicate_one (i : Nat) : Mono.Trimmed (List.replicate i 0 ++ [1]) := by
  induction i with
  | zero => exact ⟨fun _ => by decide, trivial⟩
  | succ i ih =>
    rw [List.replicate_succ, List.cons_append]
    exact ⟨fun e => by simp at e, ih⟩

theorem var_wf (i : Nat) : (var i).WF :=
  TermsWF.nil.cons (trimmed_replicate_one i) (by show (1 : Int) ≠ 0; decide) (fun _ h => absurd h List.not_mem_nil)

theorem add_wf {p q : Poly} (hp : p.WF) (hq : q.WF) : (p + q).WF :=
  addL_wf (fun t ht => (hp.2 t ht).1) hq

theorem mul_wf (p q : Poly) : (p * q).WF := mulL_wf p.terms q.terms

theorem neg_wf {p : Poly} (hp : p.WF) : (-p).WF := by
  show TermsWF (p.terms.map (fun t => (t.1, -t.2)))
  refine ⟨List.Pairwise.map _ (fun a b h => h) hp.1, fun t ht => ?_⟩
  obtain ⟨t0, h0, rfl⟩ := List.mem_map.mp ht
  exact ⟨(hp.2 t0 h0).1, by have := (hp.2 t0 h0).2; simpa using this⟩

theorem pow_wf {p : Poly} (n : Nat) : (pow p n).WF := by
  cases n with
  | zero => exact one_wf
  | succ n => exact mul_wf _ _

theorem subst_wf (σ : Nat → Poly) (p : Poly) : (subst σ p).WF := by
  unfold subst
  induction p.terms with
  | nil => exact zero_wf
  | cons t ts ih => exact add_wf (mul_wf _ _) ih

theorem deriv_wf (i : Nat) (p : Poly) : (deriv i p).WF := by
  unfold deriv Poly.WF
  induction p.terms with
  | nil => exact TermsWF.nil
  | cons t ts ih =>
    simp only [List.foldr_cons]
    split
    · exact addTerm_wf _ (Mono.trim_trimmed _) ih
    · exact ih

end Poly

end DV.Param
