/-
  Proofs/TensorLayer.lean — one layer `id(L) ⊗ t ⊗ id(Rr)`: its entries, and the effect of
  composing with it (only the wires the box eats are contracted).  Used by the loop of
  `Tensor.cups` (Proofs/TensorCups.lean) and by the functor (Proofs/TensorFunctor.lean).
-/
import Proofs.TensorSnake

namespace DV
namespace Tensor
open NDArray

section
variable {R : Type} [CommSemiring R]

/-! ### one layer `id(L) ⊗ t ⊗ id(Rr)` -/

/-- The layer tensor of the reference semantics. -/
def layerT (L Rr : List Nat) (t : Tensor R) : Tensor R :=
  ((Tensor.id L).tensor t).tensor (Tensor.id Rr)

theorem layerT_wf (L Rr : List Nat) (t : Tensor R) (ht : t.WF) : (layerT L Rr t).WF :=
  tensor_wf _ _ (tensor_wf _ _ (id_wf L) ht) (id_wf Rr)

@[simp] theorem layerT_dom (L Rr : List Nat) (t : Tensor R) :
    (layerT L Rr t).dom = (L ++ t.dom) ++ Rr := rfl
@[simp] theorem layerT_cod (L Rr : List Nat) (t : Tensor R) :
    (layerT L Rr t).cod = (L ++ t.cod) ++ Rr := rfl

theorem layerT_entry (L Rr : List Nat) (t : Tensor R) (ht : t.WF) {l' bd rr' l bc rr : List Nat}
    (hl' : InRange L l') (hbd : InRange t.dom bd) (hrr' : InRange Rr rr')
    (hl : InRange L l) (hbc : InRange t.cod bc) (hrr : InRange Rr rr) :
    (layerT L Rr t).entry (((l' ++ bd) ++ rr') ++ ((l ++ bc) ++ rr))
      = (if l' = l then 1 else 0) * t.entry (bd ++ bc) * (if rr' = rr then 1 else 0) := by
  unfold layerT
  rw [tensor_entry _ _ (tensor_wf _ _ (id_wf L) ht) (id_wf Rr)
      (a := l' ++ bd) (b := l ++ bc) (c := rr') (d := rr)
      (inRange_append hl' hbd) (inRange_append hl hbc) hrr' hrr,
    tensor_entry _ _ (id_wf L) ht hl' hl hbd hbc, id_entry L hl' hl, id_entry Rr hrr' hrr]

/-- Composing with a layer contracts only the wires the box eats. -/
theorem then_layer_entry (acc t : Tensor R) (L Rr : List Nat) (hacc : acc.WF) (ht : t.WF)
    (hc : acc.cod = (L ++ t.dom) ++ Rr) {i l bc rr : List Nat}
    (hi : InRange acc.dom i) (hl : InRange L l) (hbc : InRange t.cod bc) (hrr : InRange Rr rr) :
    (thenCore acc (layerT L Rr t)).entry (i ++ ((l ++ bc) ++ rr))
      = sumOver t.dom (fun bd => acc.entry (i ++ ((l ++ bd) ++ rr)) * t.entry (bd ++ bc)) := by
  rw [then_entry acc _ hacc (layerT_wf L Rr t ht) hc hi
    (inRange_append (inRange_append hl hbc) hrr), hc, sumOver_append, sumOver_append]
  -- Σ_{l'} Σ_{bd} Σ_{rr'} acc(i, l' bd rr') δ(l', l) t(bd, bc) δ(rr', rr)
  rw [sumOver_congr (g := fun l' => (if l = l' then 1 else 0) *
      sumOver t.dom (fun bd => acc.entry (i ++ ((l' ++ bd) ++ rr)) * t.entry (bd ++ bc)))
    (fun l' hl' => ?_)]
  · rw [sumOver_delta hl]
  · rw [← sumOver_mul_left]
    apply sumOver_congr
    intro bd hbd
    rw [sumOver_congr (g := fun rr' => (acc.entry (i ++ ((l' ++ bd) ++ rr'))
        * ((if l' = l then 1 else 0) * t.entry (bd ++ bc))) * (if rr' = rr then 1 else 0))
      (fun rr' hrr' => ?_)]
    · rw [sumOver_delta' hrr, ite_comm' l' l]; ring
    · rw [layerT_entry L Rr t ht hl' hbd hrr' hl hbc hrr]; ring

end
end Tensor
end DV
