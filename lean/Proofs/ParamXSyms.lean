/-
  Proofs/ParamXSyms.lean — free symbols, substitution and evaluation of tensor diagrams with
  bubbles (Model/ParamXSyms.lean):

   * `mem_xfreeSymbolsL`           the symbols reported are exactly those of the parameters of the
                                   boxes, bubbles opened;
   * `xfreeSymbols_mapData_closed` substituting closed values everywhere leaves none;
   * `xparams_mapData`             substitution maps the parameters in place (inside bubbles too);
   * `xevalLayers_natural`         evaluation (a bubble applies an integer polynomial entrywise to
                                   the evaluation of its inside) commutes with every ring
                                   homomorphism that commutes with conjugation.
-/
import Proofs.ParamBubble
import Model.ParamXSyms

set_option linter.unusedSectionVars false

namespace DV.Param

section Symbols
variable {R S : Type}

theorem mem_flatMap_data (fs : R → List Nat) (ls : List (PLayer R)) (v : Nat) :
    v ∈ freeSymbolsL fs ls ↔ ∃ e ∈ ls.flatMap (fun l => l.box.data), v ∈ fs e := by
  rw [mem_freeSymbolsL]
  constructor
  · rintro ⟨l, hl, e, he, hv⟩
    exact ⟨e, List.mem_flatMap.mpr ⟨l, hl, he⟩, hv⟩
  · rintro ⟨e, he, hv⟩
    obtain ⟨l, hl, he'⟩ := List.mem_flatMap.mp he
    exact ⟨l, hl, e, he', hv⟩

theorem mem_xbox_freeSymbols (fs : R → List Nat) (b : XBox R) (v : Nat) :
    v ∈ b.freeSymbols fs ↔ ∃ e ∈ b.params, v ∈ fs e := by
  cases b with
  | plain b => exact mem_box_freeSymbols fs b v
  | bubble dom cod func inside => exact mem_flatMap_data fs inside v
  | chain dom cod func inside term =>
    simp only [XBox.freeSymbols, XBox.params, mem_unionNat, mem_flatMap_data, List.mem_append]
    constructor
    · rintro (⟨e, he, hv⟩ | ⟨e, he, hv⟩)
      · exact ⟨e, Or.inl he, hv⟩
      · exact ⟨e, Or.inr he, hv⟩
    · rintro ⟨e, he | he, hv⟩
      · exact Or.inl ⟨e, he, hv⟩
      · exact Or.inr ⟨e, he, hv⟩

/-- The free symbols reported for a diagram with bubbles are exactly the symbols occurring in
    the parameters of its boxes, the boxes inside the bubbles included. -/
theorem mem_xfreeSymbolsL (fs : R → List Nat) (ls : List (XLayer R)) (v : Nat) :
    v ∈ xfreeSymbolsL fs ls ↔ ∃ e ∈ xparams ls, v ∈ fs e := by
  unfold xfreeSymbolsL xparams
  induction ls with
  | nil => simp
  | cons l ls ih =>
    simp only [List.foldr_cons, mem_unionNat, ih, mem_xbox_freeSymbols, List.flatMap_cons,
      List.mem_append]
    constructor
    · rintro (⟨e, he, hv⟩ | ⟨e, he, hv⟩)
      · exact ⟨e, Or.inl he, hv⟩
      · exact ⟨e, Or.inr he, hv⟩
    · rintro ⟨e, he | he, hv⟩
      · exact Or.inl ⟨e, he, hv⟩
      · exact Or.inr ⟨e, he, hv⟩

theorem flatMap_data_mapData (f : R → S) (ls : List (PLayer R)) :
    (ls.map (PLayer.mapData f)).flatMap (fun l => l.box.data)
      = (ls.flatMap (fun l => l.box.data)).map f := by
  induction ls with
  | nil => rfl
  | cons l ls ih =>
    simp only [List.map_cons, List.flatMap_cons, List.map_append, ih]
    rfl

theorem xbox_params_mapData (f : R → S) (b : XBox R) : (b.mapData f).params = b.params.map f := by
  cases b with
  | plain b => rfl
  | bubble dom cod func inside => exact flatMap_data_mapData f inside
  | chain dom cod func inside term =>
    simp only [XBox.mapData, XBox.params, flatMap_data_mapData, List.map_append]

/-- Substitution acts on the parameters in place, inside the bubbles too. -/
theorem xparams_mapData (f : R → S) (ls : List (XLayer R)) :
    xparams (ls.map (XLayer.mapData f)) = (xparams ls).map f := by
  unfold xparams
  induction ls with
  | nil => rfl
  | cons l ls ih =>
    simp only [List.map_cons, List.flatMap_cons, List.map_append, ih]
    have : (XLayer.mapData f l).box = l.box.mapData f := rfl
    rw [this, xbox_params_mapData]

/-- Substituting closed values for every parameter leaves no free symbol. -/
theorem xfreeSymbols_mapData_closed (fs : S → List Nat) (f : R → S)
    (hclosed : ∀ e, fs (f e) = []) (ls : List (XLayer R)) :
    xfreeSymbolsL fs (ls.map (XLayer.mapData f)) = [] := by
  apply List.eq_nil_iff_forall_not_mem.mpr
  intro v hv
  rw [mem_xfreeSymbolsL, xparams_mapData] at hv
  obtain ⟨e, he, hve⟩ := hv
  obtain ⟨e0, _, rfl⟩ := List.mem_map.mp he
  rw [hclosed] at hve
  exact absurd hve List.not_mem_nil

end Symbols

/-! ### evaluation with bubbles is natural in ring homomorphisms -/

section Natural
variable {R S : Type} [CommRing R] [CommRing S] [HasConj R] [HasConj S]

theorem polyApply_hom (σ : R →+* S) (cs : List Int) (x : R) :
    σ (polyApply (fun n : Int => (n : R)) cs x) = polyApply (fun n : Int => (n : S)) cs (σ x) := by
  induction cs with
  | nil => simp [polyApply]
  | cons c cs ih => simp only [polyApply, map_add, map_mul, map_intCast, ih]

theorem bubbleArr_hom (σ : R →+* S) (hc : ∀ x, σ (HasConj.conj x) = HasConj.conj (σ x))
    (a b : Nat) (func : List Int) (inside : List (PLayer R)) (i j : Nat) :
    bubbleArr (fun n : Int => (n : S)) a b func (inside.map (PLayer.mapData σ)) i j
      = σ (bubbleArr (fun n : Int => (n : R)) a b func inside i j) := by
  unfold bubbleArr
  split
  · rw [polyApply_hom, evalLayers_natural σ hc]
  · exact (map_zero σ).symm

theorem xbox_dom_mapData {R S : Type} (f : R → S) (b : XBox R) : (b.mapData f).dom = b.dom := by
  cases b <;> rfl

theorem xbox_cod_mapData {R S : Type} (f : R → S) (b : XBox R) : (b.mapData f).cod = b.cod := by
  cases b <;> rfl

theorem xarr_mapData (σ : R →+* S) (hc : ∀ x, σ (HasConj.conj x) = HasConj.conj (σ x))
    (b : XBox R) (hb : b.isInput) (i j : Nat) :
    (b.mapData σ).arr (fun n : Int => (n : S)) i j = σ (b.arr (fun n : Int => (n : R)) i j) := by
  cases b with
  | plain b => exact arr_mapData σ (map_zero σ) hc b i j
  | bubble dom cod func inside => exact bubbleArr_hom σ hc _ _ func inside i j
  | chain dom cod func inside term => exact absurd hb (by simp [XBox.isInput])

theorem xmat_mapData (σ : R →+* S) (hc : ∀ x, σ (HasConj.conj x) = HasConj.conj (σ x))
    (l : XLayer R) (hl : l.box.isInput) (i j : Nat) :
    (l.mapData σ).mat (fun n : Int => (n : S)) i j = σ (l.mat (fun n : Int => (n : R)) i j) := by
  unfold XLayer.mat
  have e1 : (l.mapData σ).box = l.box.mapData σ := rfl
  have e2 : (l.mapData σ).right = l.right := rfl
  rw [e1, e2, xbox_dom_mapData, xbox_cod_mapData]
  split
  · exact xarr_mapData σ hc _ hl _ _
  · exact (map_zero σ).symm

/-- `eval (d.subs σ) = σ ∘ eval d` for diagrams of plain boxes and bubbles: the polynomial of a
    bubble commutes with the homomorphism, its inside is natural by `evalLayers_natural`. -/
theorem xevalLayers_natural (σ : R →+* S) (hc : ∀ x, σ (HasConj.conj x) = HasConj.conj (σ x))
    (ls : List (XLayer R)) (hls : ∀ l ∈ ls, l.box.isInput) :
    xevalLayers (fun n : Int => (n : S)) (ls.map (XLayer.mapData σ))
      = fun i k => σ (xevalLayers (fun n : Int => (n : R)) ls i k) := by
  induction ls with
  | nil =>
    funext i k
    simp only [List.map_nil, xevalLayers]
    exact (idMat_hom σ i k).symm
  | cons l ls ih =>
    funext i k
    have ih' := ih (fun x hx => hls x (List.mem_cons_of_mem _ hx))
    simp only [List.map_cons, xevalLayers, ih']
    rw [matMul_hom]
    have hm : (l.mapData σ).mat (fun n : Int => (n : S))
        = fun i j => σ (l.mat (fun n : Int => (n : R)) i j) := by
      funext a b
      exact xmat_mapData σ hc l (hls l List.mem_cons_self) a b
    have ho : (XLayer.mapData (⇑σ) l).outDim = l.outDim := by
      obtain ⟨left, box, right⟩ := l
      cases box <;> rfl
    rw [hm, ho]

end Natural

end DV.Param
