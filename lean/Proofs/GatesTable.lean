/-
  Proofs/GatesTable.lean — finite-table facts about Model/Gates.lean, closed by `decide`
  (kernel evaluation of exact ℤ[ζ₈][1/2] arithmetic; the table IS the finite quantifier).
  Core Lean only.
-/
import Model.Gates

namespace DV.Gates

/-! ### C11: the named table -/

/-- Every gate of `GATES` is unitary: `U U† = 1 = U† U`. -/
theorem named_unitary :
    ∀ p ∈ named, mul p.2.eval (dagger p.2.eval) = idQ p.2.dom ∧
                 mul (dagger p.2.eval) p.2.eval = idQ p.2.dom := by decide

/-- The repaired table equals the transcribed tket matrices (in `[input, output]` order). -/
theorem namedRepaired_eq_tket : ∀ p ∈ namedRepaired, some p.2.eval = tketIO p.1 := by decide

/-- The table the model currently transcribes (switch `f17Fixed`) equals the tket matrices, except
    for `Y` while the switch is off. -/
theorem named_eq_tket :
    ∀ p ∈ named, (f17Fixed = true ∨ p.1 ≠ "Y") → some p.2.eval = tketIO p.1 := by decide

/-- F17: `Y` as gates.py:561 has it is the tket matrix NOT transposed into `[input, output]` order,
    i.e. as a linear map it is `Yᵀ = −Y`. -/
theorem arrYAsIs_is_transpose :
    some arrYAsIs = tketU "Y" ∧ some arrYAsIs ≠ tketIO "Y" ∧ arrYAsIs = msmul (-1) arrYFixed := by decide

/-- The daggers of the table are the identically named tket ops `Sdg`, `Tdg`; `Controlled(Y|S)` are
    `CY`, `CS` (for `CY` with the repaired `Y`). -/
theorem dagger_names_eq_tket :
    some (Gate.q gS).dagger.eval = tketIO "Sdg" ∧ some (Gate.q gT).dagger.eval = tketIO "Tdg" ∧
    some (Gate.ctrl (.q gS)).eval = tketIO "CS" ∧
    some (Gate.ctrl (.q ⟨"Y", 1, arrYFixed, some false⟩)).eval = tketIO "CY" ∧
    some (Gate.ctrl (.q gZ)).eval = tketIO "CZ" := by decide

/-! ### C11: dagger mechanisms on the table -/

/-- Flag mechanism (gates.py:43 + tensor.py:358) and rebuilt `CX`, `SWAP`: the dagger of every table
    gate evaluates to the conjugate transpose; and twice daggered is the gate again. -/
theorem named_dagger_eval :
    ∀ p ∈ named, p.2.dagger.eval = dagger p.2.eval ∧ p.2.dagger.dagger.eval = p.2.eval := by decide

theorem Cyc8.conj_conj (x : Cyc8) : x.conj.conj = x := by
  cases x; simp [Cyc8.conj]

/-- Flag mechanism in general (ANY stored array): the dagger of an un-flagged `QuantumGate`
    evaluates to the conjugate transpose of its evaluation (gates.py:43-46 + tensor.py:358-359). -/
theorem flag_dagger_of_unflagged (g : QGate) (h : g.dg = some false) (f : Bool) :
    (Gate.q g).dagger.evalW f = dagger ((Gate.q g).evalW f) := by
  simp [Gate.dagger, QGate.dagger, Gate.evalW, Gate.isDagger, Gate.arrayW, h]

/-- … of a flagged one-qubit gate: back to the stored array, which is the adjoint of the adjoint. -/
theorem flag_dagger_of_flagged (name : String) (a b c d : Cyc8) (f : Bool) :
    (Gate.q ⟨name, 1, [[a, b], [c, d]], some true⟩).dagger.evalW f =
      dagger ((Gate.q ⟨name, 1, [[a, b], [c, d]], some true⟩).evalW f) := by
  simp [Gate.dagger, QGate.dagger, Gate.evalW, Gate.isDagger, Gate.arrayW, dagger, transpose, Conj.conj,
    Cyc8.conj_conj]

/-- … of a gate DECLARED self-adjoint (`_dagger=None`): correct iff the stored array is Hermitian
    (true for H, X, Z, CZ by `named_dagger_eval`). -/
theorem flag_dagger_of_selfadjoint (g : QGate) (h : g.dg = none) (f : Bool) :
    ((Gate.q g).dagger.evalW f = dagger ((Gate.q g).evalW f)) ↔ g.arr = dagger g.arr := by
  simp [Gate.dagger, QGate.dagger, Gate.evalW, Gate.isDagger, Gate.arrayW, h]

/-- Scalars (gates.py:556-558) for every value: conjugation. -/
theorem scalar_dagger (z : Cyc8) (f : Bool) :
    (Gate.scalar z).dagger.evalW f = dagger ((Gate.scalar z).evalW f) := by
  simp [Gate.dagger, Gate.evalW, Gate.isDagger, Gate.arrayW, dagger, transpose, Conj.conj]

/-! ### square-root scalars `sqrt(z)` (gates.py:567-575; dagger inherited from `Scalar`, 556-558) -/

/-- The dagger of `sqrt(z)` (value `r`) evaluates to the conjugate of its evaluation exactly when the
    box is NOT taken for self-adjoint, or its value is real — in both positions of the switch F4k. -/
theorem sqrt_dagger_iffW (fix : Bool) (z r : Cyc8) (f : Bool) :
    ((sqrtDaggerW fix z r).evalW f = dagger ((Gate.sqrt z r).evalW f)) ↔
      (sqrtSelfAdjointW fix z r = false ∨ r.conj = r) := by
  unfold sqrtDaggerW
  cases h : sqrtSelfAdjointW fix z r <;>
    simp [Gate.evalW, Gate.isDagger, Gate.arrayW, dagger, transpose, Conj.conj, eq_comm]

/-- **`sqrt_dagger`**: for `z` that is not its own conjugate (every non-real `z`) the dagger of `sqrt(z)`
    evaluates to the conjugate of the evaluation of `sqrt(z)` — `Scalar(conj(z ** .5))`, the conjugate of the
    ROOT, not of the data. -/
theorem sqrt_dagger_nonreal (z r : Cyc8) (f : Bool) (h : z.conj ≠ z) :
    (Gate.sqrt z r).dagger.evalW f = dagger ((Gate.sqrt z r).evalW f) := by
  cases hf : f4kFixed
  · have : sqrtSelfAdjointW false z r = false := by simp [sqrtSelfAdjointW, h]
    simp only [Gate.dagger, hf]; exact (sqrt_dagger_iffW false z r f).2 (.inl this)
  · by_cases hr : r.conj = r
    · simp only [Gate.dagger, hf]; exact (sqrt_dagger_iffW true z r f).2 (.inr hr)
    · have : sqrtSelfAdjointW true z r = false := by simp [sqrtSelfAdjointW, hr]
      simp only [Gate.dagger, hf]; exact (sqrt_dagger_iffW true z r f).2 (.inl this)

/-- … and for a real value of the root (`z ≥ 0`): the box is its own dagger, rightly. -/
theorem sqrt_dagger_real_root (z r : Cyc8) (f : Bool) (h : r.conj = r) :
    (Gate.sqrt z r).dagger.evalW f = dagger ((Gate.sqrt z r).evalW f) :=
  (sqrt_dagger_iffW f4kFixed z r f).2 (.inr h)

/-- The criterion for the code the switch selects. -/
theorem sqrt_dagger_iff (z r : Cyc8) (f : Bool) :
    ((Gate.sqrt z r).dagger.evalW f = dagger ((Gate.sqrt z r).evalW f)) ↔
      (sqrtSelfAdjoint z r = false ∨ r.conj = r) := sqrt_dagger_iffW f4kFixed z r f

/-- With the proposed repair of F4k (self-adjointness decided on the value) it holds for EVERY `z`. -/
theorem sqrt_dagger_fixed (z r : Cyc8) (f : Bool) :
    (sqrtDaggerW true z r).evalW f = dagger ((Gate.sqrt z r).evalW f) := by
  by_cases hr : r.conj = r
  · exact (sqrt_dagger_iffW true z r f).2 (.inr hr)
  · exact (sqrt_dagger_iffW true z r f).2 (.inl (by simp [sqrtSelfAdjointW, hr]))

/-- F4k witness: `sqrt(-4)` (value `2i`, an exact root) AS IT IS is its own dagger, so the dagger evaluates to
    `2i`, not to `conj(2i) = -2i`. -/
theorem F4k_sqrt_negative :
    Gate.sqrtExact (.sqrt (Cyc8.ofInt (-4)) ⟨0, 0, 2, 0, 0⟩) = true ∧
    sqrtSelfAdjointW false (Cyc8.ofInt (-4)) ⟨0, 0, 2, 0, 0⟩ = true ∧
    (sqrtDaggerW false (Cyc8.ofInt (-4)) ⟨0, 0, 2, 0, 0⟩).evalW true ≠
      dagger ((Gate.sqrt (Cyc8.ofInt (-4)) ⟨0, 0, 2, 0, 0⟩).evalW true) ∧
    (sqrtDaggerW true (Cyc8.ofInt (-4)) ⟨0, 0, 2, 0, 0⟩).evalW true =
      dagger ((Gate.sqrt (Cyc8.ofInt (-4)) ⟨0, 0, 2, 0, 0⟩).evalW true) := by decide

/-- Sanity of the root convention on the cases the harness pins: `sqrt(2)` has the value `√2 = ζ − ζ³`,
    `sqrt(2i)` the value `1 + i`, `sqrt(i)` the value `ζ`, `sqrt(-3+4i)` the value `1 + 2i`. -/
theorem sqrt_exact_examples :
    Gate.sqrtExact (.sqrt (Cyc8.ofInt 2) Cyc8.sqrt2) = true ∧
    Gate.sqrtExact (.sqrt ⟨0, 0, 2, 0, 0⟩ ⟨1, 0, 1, 0, 0⟩) = true ∧
    Gate.sqrtExact (.sqrt Cyc8.I Cyc8.zeta) = true ∧
    Gate.sqrtExact (.sqrt ⟨-3, 0, 4, 0, 0⟩ ⟨1, 0, 2, 0, 0⟩) = true := by decide

/-! ### calling conventions of `Circuit.eval` (circuit.py:244-253, 657-664) -/

theorem getElem?_map_some {α β : Type} (f : α → β) (l : List α) (i : Nat) (a : α) (h : l[i]? = some a) :
    (l.map f)[i]? = some (f a) := by simp [h]

/-- **A pure circuit evaluated without `mixed=True` is evaluated by the tensor functor whatever it is
    batched with**: in `first.eval(c₁, …, cₖ)` the `i`-th circuit of `(first, c₁, …, cₖ)` gets the mode
    `is_mixed` of ITSELF. -/
theorem evalModes_own (selfMixed : Bool) (others : List Bool) (i : Nat) (m : Bool)
    (h : (selfMixed :: others)[i]? = some m) : (evalModes false selfMixed others)[i]? = some m := by
  unfold evalModes
  split
  · rename_i he
    have : others = [] := by simpa using he
    subst this
    cases i with
    | zero => simpa [evalMode1] using h
    | succ i => simp at h
  · have := getElem?_map_some (evalMode1 false) (selfMixed :: others) i m h
    simpa [evalMode1] using this

/-- … and with `mixed=True` every circuit of the call is evaluated by the CQ functor. -/
theorem evalModes_flag (selfMixed : Bool) (others : List Bool) :
    ∀ m ∈ evalModes true selfMixed others, m = true := by
  unfold evalModes
  split <;> simp [evalMode1]

/-- The number of results is the number of circuits. -/
theorem evalModes_length (flag selfMixed : Bool) (others : List Bool) :
    (evalModes flag selfMixed others).length = others.length + 1 := by
  unfold evalModes
  split
  · rename_i he
    have : others = [] := by simpa using he
    subst this; rfl
  · simp

/-- `Sum.eval`: a sum of pure circuits evaluated without `mixed=True` adds up TENSORS (one mode for all
    terms, and it is the pure one iff no term is mixed and the flag is off). -/
theorem sumModes_uniform (flag : Bool) (terms : List Bool) (ms : List Bool) (h : sumModes flag terms = some ms) :
    ms.length = terms.length ∧ ∀ m ∈ ms, m = (flag || terms.any id) := by
  match terms, h with
  | [t], h =>
    simp only [sumModes, Option.some.injEq] at h
    subst h
    cases t <;> cases flag <;> simp [evalMode1]
  | t :: t' :: rest, h =>
    simp only [sumModes, Option.some.injEq] at h
    subst h
    refine ⟨by simp [evalModes_length], ?_⟩
    intro m hm
    simp only [evalModes, List.isEmpty_cons, Bool.false_eq_true, if_false, List.mem_map] at hm
    obtain ⟨x, hx, rfl⟩ := hm
    have hx' : x = true → (t :: t' :: rest).any id = true := fun e => by
      subst e; exact List.any_eq_true.2 ⟨true, hx, rfl⟩
    cases x <;> cases flag <;> simp_all [evalMode1]

def oneQubitNamed : List QGate := [gH, gS, gT, gX, gY, gZ]

/-- Rebuilt-controlled mechanism (gates.py:286) AS IT IS: `Controlled(g).dagger()` evaluates to the
    adjoint exactly when the target's stored array is Hermitian — it fails for `S` and `T` (F2). -/
theorem controlled_dagger_table :
    ∀ g ∈ oneQubitNamed,
      ((Gate.ctrl (.q g)).dagger.evalAsIs = dagger (Gate.ctrl (.q g)).evalAsIs ↔ g.arr = dagger g.arr) := by
  decide

/-- F2 witnesses. -/
theorem F2_controlled_S :
    (Gate.ctrl (.q gS)).dagger.evalAsIs ≠ dagger (Gate.ctrl (.q gS)).evalAsIs ∧
    (Gate.ctrl (.q gS)).dagger.evalAsIs = (Gate.ctrl (.q gS)).evalAsIs := by decide
theorem F2_controlled_T :
    (Gate.ctrl (.q gT)).dagger.evalAsIs ≠ dagger (Gate.ctrl (.q gT)).evalAsIs ∧
    (Gate.ctrl (.q gT)).dagger.evalAsIs = (Gate.ctrl (.q gT)).evalAsIs := by decide

/-- With the proposed repair (`evalFixed`: the block is the target's flag-aware matrix) the dagger of
    every controlled table gate, flagged or not, evaluates to the adjoint, a controlled gate is the
    controlled version of its target's evaluation, and nothing changes for un-flagged targets. -/
theorem controlled_dagger_fixed_table :
    ∀ g ∈ oneQubitNamed,
      (Gate.ctrl (.q g)).dagger.evalFixed = dagger (Gate.ctrl (.q g)).evalFixed ∧
      (Gate.ctrl (.q g.dagger)).evalFixed = ctrlSpec (Gate.q g.dagger).evalFixed ∧
      (Gate.ctrl (.q g)).evalFixed = (Gate.ctrl (.q g)).evalAsIs := by decide

/-- `Controlled(U) = |0⟩⟨0| ⊗ 1 + |1⟩⟨1| ⊗ U` on the table. -/
theorem controlled_spec_table :
    ∀ g ∈ oneQubitNamed, (Gate.ctrl (.q g)).eval = ctrlSpec (Gate.q g).eval := by decide

/-! ### C11: rotations at the representable phases (all of them: `ζ^(n/2)` has period 16 in `n`) -/

def rotKinds : List RotKind := [.Rx, .Ry, .Rz, .CU1, .CRz, .CRx]
def evenPhases : List Int := [0, 2, 4, 6, 8, 10, 12, 14]
def allPhases : List Int := [0, 1, 2, 3, 4, 5, 6, 7, 8, 9, 10, 11, 12, 13, 14, 15]

/-- Negated-phase mechanism (gates.py:361) and unitarity at every representable phase. -/
theorem rot_table :
    ∀ k ∈ rotKinds, ∀ n ∈ (if k = .CU1 then allPhases else evenPhases),
      (Gate.rot k n).dagger.eval = dagger (Gate.rot k n).eval ∧
      mul (Gate.rot k n).eval (dagger (Gate.rot k n).eval) = idQ k.nq := by decide +kernel

/-- The controlled rotations are the controlled versions of the one-qubit rotations, and CU1(φ) is
    the controlled `diag(1, e^{2πiφ})`. -/
theorem controlled_rot_table :
    ∀ n ∈ evenPhases,
      (Gate.rot .CRz n).eval = ctrlSpec (Gate.rot .Rz n).eval ∧
      (Gate.rot .CRx n).eval = ctrlSpec (Gate.rot .Rx n).eval ∧
      (Gate.ctrl (.rot .Rz n)).eval = (Gate.rot .CRz n).eval ∧
      (Gate.ctrl (.rot .Rx n)).eval = (Gate.rot .CRx n).eval ∧
      (Gate.ctrl (.rot .Ry n)).dagger.eval = dagger (Gate.ctrl (.rot .Ry n)).eval := by
  decide +kernel

/-! ### C11: kets and bras -/

def bitstringsUpTo3 : List (List Bool) := bits 0 ++ bits 1 ++ bits 2 ++ bits 3

/-- `Ket(bs)` is the basis row vector `⟨bs|`-indexed (1 at index `bs`, leftmost bit most significant),
    `Bra(bs)` the column; Ket ↔ Bra is the adjoint; `⟨bs|bs⟩ = 1`. -/
theorem ket_bra_table :
    ∀ bs ∈ bitstringsUpTo3,
      (Gate.ket bs).eval = [(bits bs.length).map fun x => if x = bs then 1 else 0] ∧
      (Gate.ket bs).dagger.eval = dagger (Gate.ket bs).eval ∧
      (Gate.bra bs).dagger.eval = dagger (Gate.bra bs).eval ∧
      mul (Gate.ket bs).eval (Gate.bra bs).eval = [[1]] := by decide

/-! ### C11: rewire (gates.py:568-603) -/

/-- A 4 × 4 integer matrix with 16 distinct entries: every entry of `rewireMat` is either `0` or one
    entry of `op`, so agreement on it pins down which entry lands where. -/
def genericOp : Mat Int :=
  [[2, 3, 5, 7], [11, 13, 17, 19], [23, 29, 31, 37], [41, 43, 47, 53]]

def pairs (n : Nat) : List (Nat × Nat) :=
  (List.range n).flatMap fun a => (List.range n).map fun b => (a, b)

/-- For all `(a, b)` with `a, b < 4`: `rewire(op, a, b)` is refused iff `a = b` and otherwise
    evaluates to "op acting on qubits a and b" of `max(a, b) + 1` qubits. -/
theorem rewire_table :
    ∀ p ∈ pairs 4, rewireMat genericOp p.1 p.2 =
      if p.1 = p.2 then .error .value
      else .ok (actsOn genericOp (max p.1 p.2 + 1) p.1 p.2) := by decide +kernel

end DV.Gates
