/-
  Proofs/GatesTable.lean — finite-table facts about Model/Gates.lean, closed by `decide`
  (kernel evaluation of exact ℤ[ζ₈][1/2] arithmetic; the table IS the finite quantifier).
  Core Lean only.
-/
import Model.Gates

namespace DV.Gates

/-! ### C11: the named table -/

/-- Every gate of `GATES` is unitary: `U U† = 1 = U† U`. -/
theorem named_unitary :
    ∀ p ∈ named, mul p.2.eval (dagger p.2.eval) = idQ p.2.dom ∧
                 mul (dagger p.2.eval) p.2.eval = idQ p.2.dom := by decide

/-- The repaired table equals the transcribed tket matrices (in `[input, output]` order). -/
theorem namedRepaired_eq_tket : ∀ p ∈ namedRepaired, some p.2.eval = tketIO p.1 := by decide

/-- The table the model currently transcribes (switch `f17Fixed`) equals the tket matrices, except
    for `Y` while the switch is off. -/
theorem named_eq_tket :
    ∀ p ∈ named, (f17Fixed = true ∨ p.1 ≠ "Y") → some p.2.eval = tketIO p.1 := by decide

/-- F17: `Y` as gates.py:561 has it is the tket matrix NOT transposed into `[input, output]` order,
    i.e. as a linear map it is `Yᵀ = −Y`. -/
theorem arrYAsIs_is_transpose :
    some arrYAsIs = tketU "Y" ∧ some arrYAsIs ≠ tketIO "Y" ∧ arrYAsIs = msmul (-1) arrYFixed := by decide

/-- The daggers of the table are the identically named tket ops `Sdg`, `Tdg`; `Controlled(Y|S)` are
    `CY`, `CS` (for `CY` with the repaired `Y`). -/
theorem dagger_names_eq_tket :
    some (Gate.q gS).dagger.eval = tketIO "Sdg" ∧ some (Gate.q gT).dagger.eval = tketIO "Tdg" ∧
    some (Gate.ctrl (.q gS)).eval = tketIO "CS" ∧
    some (Gate.ctrl (.q ⟨"Y", 1, arrYFixed, some false⟩)).eval = tketIO "CY" ∧
    some (Gate.ctrl (.q gZ)).eval = tketIO "CZ" := by decide

/-! ### C11: dagger mechanisms on the table -/

/-- Flag mechanism (gates.py:43 + tensor.py:358) and rebuilt `CX`, `SWAP`: the dagger of every table
    gate evaluates to the conjugate transpose; and twice daggered is the gate again. -/
theorem named_dagger_eval :
    ∀ p ∈ named, p.2.dagger.eval = dagger p.2.eval ∧ p.2.dagger.dagger.eval = p.2.eval := by decide

theorem Cyc8.conj_conj (x : Cyc8) : x.conj.conj = x := by
  cases x; simp [Cyc8.conj]

/-- Flag mechanism in general (ANY stored array): the dagger of an un-flagged `QuantumGate`
    evaluates to the conjugate transpose of its evaluation (gates.py:43-46 + tensor.py:358-359). -/
theorem flag_dagger_of_unflagged (g : QGate) (h : g.dg = some false) (f : Bool) :
    (Gate.q g).dagger.evalW f = dagger ((Gate.q g).evalW f) := by
  simp [Gate.dagger, QGate.dagger, Gate.evalW, Gate.isDagger, Gate.arrayW, h]

/-- … of a flagged one-qubit gate: back to the stored array, which is the adjoint of the adjoint. -/
theorem flag_dagger_of_flagged (name : String) (a b c d : Cyc8) (f : Bool) :
    (Gate.q ⟨name, 1, [[a, b], [c, d]], some true⟩).dagger.evalW f =
      dagger ((Gate.q ⟨name, 1, [[a, b], [c, d]], some true⟩).evalW f) := by
  simp [Gate.dagger, QGate.dagger, Gate.evalW, Gate.isDagger, Gate.arrayW, dagger, transpose, Conj.conj,
    Cyc8.conj_conj]

/-- … of a gate DECLARED self-adjoint (`_dagger=None`): correct iff the stored array is Hermitian
    (true for H, X, Z, CZ by `named_dagger_eval`). -/
theorem flag_dagger_of_selfadjoint (g : QGate) (h : g.dg = none) (f : Bool) :
    ((Gate.q g).dagger.evalW f = dagger ((Gate.q g).evalW f)) ↔ g.arr = dagger g.arr := by
  simp [Gate.dagger, QGate.dagger, Gate.evalW, Gate.isDagger, Gate.arrayW, h]

/-- Scalars (gates.py:529-531) for every value: conjugation. -/
theorem scalar_dagger (z : Cyc8) (f : Bool) :
    (Gate.scalar z).dagger.evalW f = dagger ((Gate.scalar z).evalW f) := by
  simp [Gate.dagger, Gate.evalW, Gate.isDagger, Gate.arrayW, dagger, transpose, Conj.conj]

def oneQubitNamed : List QGate := [gH, gS, gT, gX, gY, gZ]

/-- Rebuilt-controlled mechanism (gates.py:286) AS IT IS: `Controlled(g).dagger()` evaluates to the
    adjoint exactly when the target's stored array is Hermitian — it fails for `S` and `T` (F2). -/
theorem controlled_dagger_table :
    ∀ g ∈ oneQubitNamed,
      ((Gate.ctrl (.q g)).dagger.evalAsIs = dagger (Gate.ctrl (.q g)).evalAsIs ↔ g.arr = dagger g.arr) := by
  decide

/-- F2 witnesses. -/
theorem F2_controlled_S :
    (Gate.ctrl (.q gS)).dagger.evalAsIs ≠ dagger (Gate.ctrl (.q gS)).evalAsIs ∧
    (Gate.ctrl (.q gS)).dagger.evalAsIs = (Gate.ctrl (.q gS)).evalAsIs := by decide
theorem F2_controlled_T :
    (Gate.ctrl (.q gT)).dagger.evalAsIs ≠ dagger (Gate.ctrl (.q gT)).evalAsIs ∧
    (Gate.ctrl (.q gT)).dagger.evalAsIs = (Gate.ctrl (.q gT)).evalAsIs := by decide

/-- With the proposed repair (`evalFixed`: the block is the target's flag-aware matrix) the dagger of
    every controlled table gate, flagged or not, evaluates to the adjoint, a controlled gate is the
    controlled version of its target's evaluation, and nothing changes for un-flagged targets. -/
theorem controlled_dagger_fixed_table :
    ∀ g ∈ oneQubitNamed,
      (Gate.ctrl (.q g)).dagger.evalFixed = dagger (Gate.ctrl (.q g)).evalFixed ∧
      (Gate.ctrl (.q g.dagger)).evalFixed = ctrlSpec (Gate.q g.dagger).evalFixed ∧
      (Gate.ctrl (.q g)).evalFixed = (Gate.ctrl (.q g)).evalAsIs := by decide

/-- `Controlled(U) = |0⟩⟨0| ⊗ 1 + |1⟩⟨1| ⊗ U` on the table. -/
theorem controlled_spec_table :
    ∀ g ∈ oneQubitNamed, (Gate.ctrl (.q g)).eval = ctrlSpec (Gate.q g).eval := by decide

/-! ### C11: rotations at the representable phases (all of them: `ζ^(n/2)` has period 16 in `n`) -/

def rotKinds : List RotKind := [.Rx, .Ry, .Rz, .CU1, .CRz, .CRx]
def evenPhases : List Int := [0, 2, 4, 6, 8, 10, 12, 14]
def allPhases : List Int := [0, 1, 2, 3, 4, 5, 6, 7, 8, 9, 10, 11, 12, 13, 14, 15]

/-- Negated-phase mechanism (gates.py:361) and unitarity at every representable phase. -/
theorem rot_table :
    ∀ k ∈ rotKinds, ∀ n ∈ (if k = .CU1 then allPhases else evenPhases),
      (Gate.rot k n).dagger.eval = dagger (Gate.rot k n).eval ∧
      mul (Gate.rot k n).eval (dagger (Gate.rot k n).eval) = idQ k.nq := by decide +kernel

/-- The controlled rotations are the controlled versions of the one-qubit rotations, and CU1(φ) is
    the controlled `diag(1, e^{2πiφ})`. -/
theorem controlled_rot_table :
    ∀ n ∈ evenPhases,
      (Gate.rot .CRz n).eval = ctrlSpec (Gate.rot .Rz n).eval ∧
      (Gate.rot .CRx n).eval = ctrlSpec (Gate.rot .Rx n).eval ∧
      (Gate.ctrl (.rot .Rz n)).eval = (Gate.rot .CRz n).eval ∧
      (Gate.ctrl (.rot .Rx n)).eval = (Gate.rot .CRx n).eval ∧
      (Gate.ctrl (.rot .Ry n)).dagger.eval = dagger (Gate.ctrl (.rot .Ry n)).eval := by
  decide +kernel

/-! ### C11: kets and bras -/

def bitstringsUpTo3 : List (List Bool) := bits 0 ++ bits 1 ++ bits 2 ++ bits 3

/-- `Ket(bs)` is the basis row vector `⟨bs|`-indexed (1 at index `bs`, leftmost bit most significant),
    `Bra(bs)` the column; Ket ↔ Bra is the adjoint; `⟨bs|bs⟩ = 1`. -/
theorem ket_bra_table :
    ∀ bs ∈ bitstringsUpTo3,
      (Gate.ket bs).eval = [(bits bs.length).map fun x => if x = bs then 1 else 0] ∧
      (Gate.ket bs).dagger.eval = dagger (Gate.ket bs).eval ∧
      (Gate.bra bs).dagger.eval = dagger (Gate.bra bs).eval ∧
      mul (Gate.ket bs).eval (Gate.bra bs).eval = [[1]] := by decide

/-! ### C11: rewire (gates.py:568-603) -/

/-- A 4 × 4 integer matrix with 16 distinct entries: every entry of `rewireMat` is either `0` or one
    entry of `op`, so agreement on it pins down which entry lands where. -/
def genericOp : Mat Int :=
  [[2, 3, 5, 7], [11, 13, 17, 19], [23, 29, 31, 37], [41, 43, 47, 53]]

def pairs (n : Nat) : List (Nat × Nat) :=
  (List.range n).flatMap fun a => (List.range n).map fun b => (a, b)

/-- For all `(a, b)` with `a, b < 4`: `rewire(op, a, b)` is refused iff `a = b` and otherwise
    evaluates to "op acting on qubits a and b" of `max(a, b) + 1` qubits. -/
theorem rewire_table :
    ∀ p ∈ pairs 4, rewireMat genericOp p.1 p.2 =
      if p.1 = p.2 then .error .value
      else .ok (actsOn genericOp (max p.1 p.2 + 1) p.1 p.2) := by decide +kernel

end DV.Gates
