/-
  Proofs/TensorSnake.lean — cups and caps: `Tensor.cups [n] [n]` is the cup of tensor.py:223-224
  (one pass of the loop of rigid.cups), its entries are a Kronecker delta, and both snake
  equations hold for it (for every dimension `n`).  The equations are proved for
  `cupFactory d d` with an arbitrary dimension tuple `d`; the code nests single-wire cups for
  multi-wire types (rigid.py:449-454), and that nesting is NOT covered here.
-/
import Proofs.TensorLaws

namespace DV
namespace Tensor
open NDArray

section
variable {R : Type} [CommSemiring R]

theorem ite_comm' {α : Type} [DecidableEq α] (x y : α) :
    (if x = y then (1 : R) else 0) = if y = x then 1 else 0 := by
  by_cases h : x = y
  · subst h; simp
  · have : ¬ y = x := fun e => h e.symm
    simp [h, this]

theorem cupFactory_wf (d : List Nat) : (cupFactory (R := R) d d).WF := by
  apply mk'_wf
  · exact (id_wf (R := R) d).arr_wf
  · rw [(id_wf (R := R) d).1, prod_ashape]
    simp

/-- The cup is a Kronecker delta. -/
theorem cupFactory_entry (d : List Nat) {i j : List Nat} (hi : InRange d i) (hj : InRange d j) :
    (cupFactory (R := R) d d).entry ((i ++ j) ++ []) = if i = j then 1 else 0 := by
  rw [← id_entry (R := R) d hi hj]
  simp [Tensor.entry, cupFactory, mk', NDArray.reshape, Tensor.id]

/-- One pass of the loop of rigid.cups: for a single wire, `Tensor.cups` is the cup of
    tensor.py:223-224. -/
theorem cups_single (n : Nat) : Tensor.cups (R := R) [n] [n] = .ok (cupFactory [n] [n]) := by
  have hcup := cupFactory_wf (R := R) [n]
  have h1 : pySlice [n] none (some ((([n] : List Nat).length - 0 - 1 : Nat) : Int)) = [] := by
    simp [pySlice, pyLo, pyHi, pyIdx]
  have h2 : pySlice [n] (some ((([n] : List Nat).length - 0 - 1 : Nat) : Int))
      (some ((([n] : List Nat).length - 0 - 1 + 1 : Nat) : Int)) = [n] := by
    simp [pySlice, pyLo, pyHi, pyIdx]
  have h3 : pySlice [n] (some ((0 : Nat) : Int)) (some ((0 + 1 : Nat) : Int)) = [n] := by
    simp [pySlice, pyLo, pyHi, pyIdx]
  have h4 : pySlice [n] (some ((0 + 1 : Nat) : Int)) none = [] := by
    simp [pySlice, pyLo, pyHi, pyIdx]
  unfold Tensor.cups
  simp only [List.reverse_singleton, ne_eq, not_true_eq_false, and_self, if_false,
    List.length_singleton]
  unfold cupsLoop
  rw [h1, h2, h3, h4, id_nil_tensor _ hcup, tensor_id_nil _ hcup]
  rw [then_ok (by rfl)]
  have := id_then _ hcup
  simp only [cupFactory, mk'_dom] at this ⊢
  rw [this]
  rfl

/-- `Σ_a Σ_b Σ_c δ(i,c) δ(b,c) δ(a,b) δ(a,k) = δ(i,k)`. -/
theorem delta_chain (d : List Nat) {i k : List Nat} (hi : InRange d i) :
    sumOver d (fun a => sumOver d (fun b => sumOver d (fun c =>
      (if i = c then (1 : R) else 0) * ((if b = c then 1 else 0) * ((if a = b then 1 else 0)
        * (if a = k then 1 else 0))))))
      = if i = k then 1 else 0 := by
  rw [sumOver_congr (g := fun a => (if i = a then (1 : R) else 0) * (if a = k then 1 else 0))
    (fun a _ => ?_)]
  · rw [sumOver_delta hi]
  · rw [sumOver_congr (g := fun b => (if i = b then (1 : R) else 0) * ((if a = b then 1 else 0)
        * (if a = k then 1 else 0))) (fun b _ => ?_)]
    · rw [sumOver_delta hi, ite_comm' a i]
    · rw [sumOver_delta hi, ite_comm' b i]

end

section
variable {R : Type} [CommSemiring R] [StarRing R]

/-- The cap (dagger of the cup) is a Kronecker delta. -/
theorem capFactory_entry (d : List Nat) {i j : List Nat} (hi : InRange d i) (hj : InRange d j) :
    (cupFactory (R := R) d d).dagger.entry ([] ++ (i ++ j)) = if i = j then 1 else 0 := by
  rw [dagger_entry _ (cupFactory_wf d) (i := i ++ j) (k := []) (inRange_append hi hj) trivial,
    cupFactory_entry d hi hj]
  split <;> simp

theorem caps_single (n : Nat) :
    Tensor.caps (R := R) [n] [n] = .ok (cupFactory [n] [n]).dagger := by
  unfold Tensor.caps
  rw [cups_single]

/-- First snake equation: `(cap ⊗ id) ≫ (id ⊗ cup) = id`. -/
theorem snake_l (d : List Nat) :
    thenCore ((cupFactory (R := R) d d).dagger.tensor (Tensor.id d))
      ((Tensor.id d).tensor (cupFactory d d)) = Tensor.id d := by
  have hcup := cupFactory_wf (R := R) d
  have hcap := dagger_wf _ hcup
  have hA := tensor_wf _ _ hcap (id_wf (R := R) d)
  have hB := tensor_wf _ _ (id_wf (R := R) d) hcup
  have hAB : ((cupFactory (R := R) d d).dagger.tensor (Tensor.id d)).cod
      = ((Tensor.id (R := R) d).tensor (cupFactory d d)).dom := by
    simp [cupFactory, List.append_assoc]
  apply ext_entry (thenCore_wf _ _ hA hB hAB) (id_wf d) (by simp [cupFactory])
    (by simp [cupFactory])
  intro x hx
  obtain ⟨i, k, rfl, hi, hk⟩ := split2 hx
  have hi' : InRange d i := by simpa [cupFactory] using hi
  have hk' : InRange d k := by simpa [cupFactory] using hk
  rw [then_entry _ _ hA hB hAB hi hk, id_entry d hi' hk']
  have hcod : ((cupFactory (R := R) d d).dagger.tensor (Tensor.id d)).cod = (d ++ d) ++ d := by
    simp [cupFactory]
  rw [hcod, sumOver_append, sumOver_append, ← delta_chain d hi']
  apply sumOver_congr; intro a ha
  apply sumOver_congr; intro b hb
  apply sumOver_congr; intro c hc
  have e1 := tensor_entry _ _ hcap (id_wf (R := R) d) (a := []) (b := a ++ b) (c := i) (d := c)
    trivial (by simpa [cupFactory] using inRange_append ha hb) hi' hc
  have e2 := tensor_entry _ _ (id_wf (R := R) d) hcup (a := a) (b := k) (c := b ++ c) (d := [])
    ha hk' (by simpa [cupFactory] using inRange_append hb hc) trivial
  have c1 := capFactory_entry (R := R) d ha hb
  have c2 := cupFactory_entry (R := R) d hb hc
  simp only [List.nil_append, List.append_nil, List.append_assoc] at e1 e2 c1 c2 ⊢
  rw [e1, e2, c1, c2, id_entry d hi' hc, id_entry d ha hk']
  ring

/-- `Σ_a Σ_b Σ_c δ(i,a) δ(a,b) δ(b,c) δ(c,k) = δ(i,k)`. -/
theorem delta_chain' (d : List Nat) {i k : List Nat} (hi : InRange d i) :
    sumOver d (fun a => sumOver d (fun b => sumOver d (fun c =>
      (if i = a then (1 : R) else 0) * ((if a = b then 1 else 0) * ((if b = c then 1 else 0)
        * (if c = k then 1 else 0))))))
      = if i = k then 1 else 0 := by
  rw [sumOver_congr (g := fun a => (if i = a then (1 : R) else 0) * (if a = k then 1 else 0))
    (fun a ha => ?_)]
  · rw [sumOver_delta hi]
  · rw [sumOver_congr (g := fun b => (if a = b then (1 : R) else 0) * ((if i = a then 1 else 0)
        * (if b = k then 1 else 0))) (fun b hb => ?_)]
    · rw [sumOver_delta ha]
    · rw [sumOver_congr (g := fun c => (if b = c then (1 : R) else 0) * ((if i = a then 1 else 0)
        * ((if a = b then 1 else 0) * (if c = k then 1 else 0)))) (fun c _ => by ring)]
      rw [sumOver_delta hb]
      ring

/-- Second snake equation: `(id ⊗ cap) ≫ (cup ⊗ id) = id`. -/
theorem snake_r (d : List Nat) :
    thenCore ((Tensor.id d).tensor (cupFactory (R := R) d d).dagger)
      ((cupFactory d d).tensor (Tensor.id d)) = Tensor.id d := by
  have hcup := cupFactory_wf (R := R) d
  have hcap := dagger_wf _ hcup
  have hA := tensor_wf _ _ (id_wf (R := R) d) hcap
  have hB := tensor_wf _ _ hcup (id_wf (R := R) d)
  have hAB : ((Tensor.id d).tensor (cupFactory (R := R) d d).dagger).cod
      = ((cupFactory (R := R) d d).tensor (Tensor.id d)).dom := by
    simp [cupFactory, List.append_assoc]
  apply ext_entry (thenCore_wf _ _ hA hB hAB) (id_wf d) (by simp [cupFactory])
    (by simp [cupFactory])
  intro x hx
  obtain ⟨i, k, rfl, hi, hk⟩ := split2 hx
  have hi' : InRange d i := by simpa [cupFactory] using hi
  have hk' : InRange d k := by simpa [cupFactory] using hk
  rw [then_entry _ _ hA hB hAB hi hk, id_entry d hi' hk']
  have hcod : ((Tensor.id d).tensor (cupFactory (R := R) d d).dagger).cod = d ++ (d ++ d) := by
    simp [cupFactory]
  rw [hcod, sumOver_append, ← delta_chain' d hi']
  apply sumOver_congr; intro a ha
  rw [sumOver_append]
  apply sumOver_congr; intro b hb
  apply sumOver_congr; intro c hc
  have e1 := tensor_entry _ _ (id_wf (R := R) d) hcap (a := i) (b := a) (c := []) (d := b ++ c)
    hi' ha trivial (by simpa [cupFactory] using inRange_append hb hc)
  have e2 := tensor_entry _ _ hcup (id_wf (R := R) d) (a := a ++ b) (b := []) (c := c) (d := k)
    (by simpa [cupFactory] using inRange_append ha hb) trivial hc hk'
  have c1 := capFactory_entry (R := R) d hb hc
  have c2 := cupFactory_entry (R := R) d ha hb
  simp only [List.nil_append, List.append_nil, List.append_assoc] at e1 e2 c1 c2 ⊢
  rw [e1, e2, c1, c2, id_entry d hi' ha, id_entry d hc hk']
  ring

end

end Tensor
end DV
