/-
  Proofs/TkPrepBits.lean — preservation of the invariant by `prepare_bits` (tk.py:166-178)
  inside the fragment: every register the renaming moves is post-selected.
-/
import Proofs.TkBits

namespace DV.Tk
open DV

/-! ### the renamed post-selection -/

theorem find?_key_of_mem {kvs : List (Nat × Nat)} (hs : (kvs.map (·.1)).Pairwise (· ≠ ·))
    {e : Nat × Nat} (he : e ∈ kvs) : kvs.find? (·.1 == e.1) = some e := by
  induction kvs with
  | nil => cases he
  | cons x t ih =>
    simp only [List.map_cons, List.pairwise_cons] at hs
    rcases List.mem_cons.mp he with rfl | he'
    · simp
    · have hne : x.1 ≠ e.1 := hs.1 e.1 (List.mem_map_of_mem he')
      have : (x.1 == e.1) = false := by simpa using hne
      simp only [List.find?_cons, this]
      exact ih hs.2 he'

theorem mem_shiftPairs {start n nb : Nat} {r : Nat × Nat} :
    r ∈ shiftPairs start n nb ↔ start ≤ r.1 ∧ r.1 < nb ∧ r.2 = r.1 + n := by
  simp only [shiftPairs, List.mem_map, List.mem_range'_1]
  constructor
  · rintro ⟨i, ⟨h1, h2⟩, rfl⟩
    exact ⟨h1, by omega, rfl⟩
  · rintro ⟨h1, h2, h3⟩
    exact ⟨r.1, ⟨h1, by omega⟩, by rw [← h3]⟩

/-- Look-up in the post-selection after `rename_units({Bit(i): Bit(i + n) for start ≤ i < nb})`. -/
theorem PS.get_rename_shift (ps : PS) (start n nb : Nat) (hlt : ∀ r, ps.has r = true → r < nb)
    (k : Nat) :
    (ps.rename (shiftPairs start n nb)).get k =
      if k < start then ps.get k else if k < start + n then none else ps.get (k - n) := by
  unfold PS.rename
  have hsome : ∀ i, ps.has i = true → ps.get i = some ((ps.get i).getD 0) := by
    intro i hi
    rw [PS.has_eq_isSome] at hi
    cases hg : ps.get i with
    | none => simp [hg] at hi
    | some v => rfl
  have hfalse : ∀ i, ¬ (i < nb ∧ ps.has i = true) → ps.get i = none := by
    intro i hi
    apply PS.get_none_of_not_has
    cases hh : ps.has i
    · rfl
    · exact absurd ⟨hlt i hh, hh⟩ hi
  -- membership in the two lists the code builds
  have hmem_todo : ∀ r, r ∈ (shiftPairs start n nb).filter (fun r => ps.has r.1) ↔
      start ≤ r.1 ∧ r.1 < nb ∧ r.2 = r.1 + n ∧ ps.has r.1 = true := by
    intro r
    simp only [List.mem_filter, mem_shiftPairs]
    constructor
    · rintro ⟨⟨a, b, c⟩, d⟩; exact ⟨a, b, c, d⟩
    · rintro ⟨a, b, c, d⟩; exact ⟨⟨a, b, c⟩, d⟩
  have hkeys : (((shiftPairs start n nb).filter (fun r => ps.has r.1)).map
      (fun r => (r.2, (ps.get r.1).getD 0))).map (·.1) |>.Pairwise (· ≠ ·) := by
    simp only [List.map_map, Function.comp]
    have : (List.map (fun r : Nat × Nat => r.2) ((shiftPairs start n nb).filter (fun r => ps.has r.1))).Pairwise (· < ·) := by
      rw [List.pairwise_map]
      apply List.Pairwise.filter
      simp only [shiftPairs, List.pairwise_map]
      exact List.Pairwise.imp (by intro a b h; omega) List.pairwise_lt_range'
    exact this.imp (by intro a b h; omega)
  rw [PS.get_foldl_set _ _ _ hkeys, PS.get_foldl_erase]
  by_cases h1 : k < start + n
  · -- no new key is below start + n
    have hnone : List.find? (fun e => e.1 == k) (((shiftPairs start n nb).filter (fun r => ps.has r.1)).map
        (fun r => (r.2, (ps.get r.1).getD 0))) = none := by
      apply List.find?_eq_none.mpr
      intro e he
      obtain ⟨r, hr, rfl⟩ := List.mem_map.mp he
      obtain ⟨a, b, c, d⟩ := (hmem_todo r).mp hr
      simp only [beq_iff_eq]; omega
    rw [hnone]
    simp only
    by_cases h2 : k < start
    · have : k ∉ ((shiftPairs start n nb).filter (fun r => ps.has r.1)).map (·.1) := by
        intro hk
        obtain ⟨r, hr, rfl⟩ := List.mem_map.mp hk
        obtain ⟨a, _⟩ := (hmem_todo r).mp hr
        omega
      simp [this, h2]
    · simp only [h2, h1, ↓reduceIte]
      split
      · rfl
      · rename_i hk
        apply hfalse
        rintro ⟨a, b⟩
        apply hk
        exact List.mem_map.mpr ⟨(k, k + n), (hmem_todo _).mpr ⟨by omega, a, rfl, b⟩, rfl⟩
  · have h2 : ¬ (k < start) := by omega
    simp only [h2, h1, ↓reduceIte]
    by_cases hi : (k - n) < nb ∧ ps.has (k - n) = true
    · have hmem : ((k - n) + n, (ps.get (k - n)).getD 0) ∈
          ((shiftPairs start n nb).filter (fun r => ps.has r.1)).map (fun r => (r.2, (ps.get r.1).getD 0)) :=
        List.mem_map.mpr ⟨(k - n, k - n + n), (hmem_todo _).mpr ⟨by omega, hi.1, rfl, hi.2⟩, rfl⟩
      have := find?_key_of_mem hkeys hmem
      have hk : k - n + n = k := by omega
      simp only [hk] at this
      rw [this]
      simp only
      exact (hsome _ hi.2).symm
    · have hnone : List.find? (fun e => e.1 == k) (((shiftPairs start n nb).filter (fun r => ps.has r.1)).map
          (fun r => (r.2, (ps.get r.1).getD 0))) = none := by
        apply List.find?_eq_none.mpr
        intro e he
        obtain ⟨r, hr, rfl⟩ := List.mem_map.mp he
        obtain ⟨a, b, c, d⟩ := (hmem_todo r).mp hr
        simp only [beq_iff_eq]
        intro hk
        apply hi
        have : k - n = r.1 := by omega
        rw [this]; exact ⟨b, d⟩
      rw [hnone]
      simp only
      rw [hfalse _ hi]
      split
      · rfl
      · rename_i hk
        apply hfalse
        rintro ⟨a, b⟩
        apply hk
        exact List.mem_map.mpr ⟨(k, k + n), (hmem_todo _).mpr ⟨by omega, a, rfl, b⟩, rfl⟩

theorem PS.has_rename_shift (ps : PS) (start n nb : Nat) (hlt : ∀ r, ps.has r = true → r < nb)
    (k : Nat) :
    (ps.rename (shiftPairs start n nb)).has k =
      if k < start then ps.has k else if k < start + n then false else ps.has (k - n) := by
  rw [PS.has_eq_isSome, PS.get_rename_shift ps start n nb hlt k]
  split
  · rw [PS.has_eq_isSome]
  · split
    · rfl
    · rw [PS.has_eq_isSome]

/-! ### the new post-processing wires -/

theorem insertAt_nil {α} (xs : List α) (k : Nat) : insertAt xs k [] = xs := by
  simp [insertAt]

theorem insertAt_insertAt {α} (xs : List α) (p : Nat) (x : α) (ys : List α) (hp : p ≤ xs.length) :
    insertAt (insertAt xs p [x]) (p + 1) ys = insertAt xs p (x :: ys) := by
  unfold insertAt
  have hl : (xs.take p).length = p := take_length_le hp
  have e1 : (xs.take p ++ [x] ++ xs.drop p).take (p + 1) = xs.take p ++ [x] := by
    rw [List.take_append_of_le_length (by simp [hl])]
    apply List.take_of_length_le; simp [hl]
  have e2 : (xs.take p ++ [x] ++ xs.drop p).drop (p + 1) = xs.drop p := by
    have : (xs.take p ++ [x]).length = p + 1 := by simp [hl]
    rw [List.drop_append_of_le_length (by omega), List.drop_of_length_le (by omega)]
    simp
  rw [e1, e2]; simp

theorem addWires_run {pp pp' : PP} {lb i k : Nat} (hwf : pp.WF) (h : addWires pp lb i k = .ok pp')
    (ws xs : List BV) (hws : ws.length = pp.dom) (hxs : xs.length = k) :
    pp'.run (ws ++ xs) = ((pp.run ws).1, insertAt (pp.run ws).2 (lb + i) xs) ∧ pp'.WF ∧
      pp'.dom = pp.dom + k ∧ pp'.cod = pp.cod + k ∧ (pp'.layers = [] → pp.layers = []) := by
  induction k generalizing pp ws xs i with
  | zero =>
    simp only [addWires] at h
    cases h
    have : xs = [] := List.length_eq_zero_iff.mp hxs
    subst this
    simp [insertAt_nil, hwf]
  | succ k ih =>
    simp only [addWires] at h
    split at h
    · cases h
    · rename_i pp1 hadd
      obtain ⟨x, xs', rfl⟩ : ∃ x xs', xs = x :: xs' := by
        cases xs with
        | nil => simp at hxs
        | cons x t => exact ⟨x, t, rfl⟩
      obtain ⟨hrun, hwf1, hdom1, hcod1, hlen, hle, hlay⟩ := PP.addWire_run hwf hadd ws x hws
      obtain ⟨hrun2, hwf2, hdom2, hcod2, hlay2⟩ :=
        ih hwf1 h (ws ++ [x]) xs' (by simp [hws, hdom1]) (by simpa using hxs)
      refine ⟨?_, hwf2, by omega, by omega, fun hl => (hlay (hlay2 hl)).1⟩
      have : ws ++ x :: xs' = ws ++ [x] ++ xs' := by simp
      rw [this, hrun2, hrun]
      simp only
      have e : lb + (i + 1) = lb + i + 1 := by omega
      rw [e, insertAt_insertAt _ _ _ _ (by rw [hlen]; exact hle)]

/-! ### Bits -/

theorem prepareBits_inv {sp : Sp} {st st' : St} {ρq ρb dreg} {n lb : Nat}
    (h : Inv sp st ρq ρb dreg) (hs : prepareBits st n lb = .ok st')
    (hclean : ∀ start, startOf st.bits st.nb lb = .ok start →
      ∀ r, r < st.nb → start ≤ r → st.ps.has r = true) :
    ∃ ρb' dreg', Inv { sp with nb := sp.nb + n
                               bw := insertAt sp.bw lb ((List.range' sp.nb n).map .reg) } st' ρq ρb' dreg' := by
  unfold prepareBits at hs
  split at hs
  · cases hs
  · rename_i start hst
    have hcl := hclean start hst
    unfold prepareBitsAt at hs
    split at hs
    · cases hs
    · rename_i pp' hadd
      cases hs
      have hnb := h.ref.nb
      -- `start ≤ nb`
      have hstart : start ≤ st.nb := by
        unfold startOf at hst
        split at hst
        · cases hst; exact Nat.le_refl _
        · split at hst
          · cases hst; exact Nat.zero_le _
          · split at hst
            · rename_i r hr
              cases hst
              have := h.bits_lt r (List.mem_of_getElem? hr); omega
            · cases hst
      -- read-out registers are below `start`
      have hdlt : ∀ r ∈ dreg, r < start := by
        intro r hr
        obtain ⟨h1, h2⟩ := h.ref.readout.lt hr
        rcases Nat.lt_or_ge r start with h' | h'
        · exact h'
        · have := hcl r h1 h'; rw [h2] at this; cases this
      have hws : (dreg.map BV.reg).length = st.pp.dom := by simp [h.ref.ppdom]
      obtain ⟨hrun, hwf', hdom', hcod', hlay⟩ :=
        addWires_run h.ppwf hadd (dreg.map .reg) ((List.range' start n).map .reg) hws (by simp)
      have hold : ∀ β, β < sp.nb → extend ρb sp.nb start n β = shiftFrom start n (ρb β) := by
        intro β hβ; simp [extend, hβ]
      obtain ⟨hbw_d, hcg_d⟩ := h.bw_in_dreg
      -- registers of live wires / classical inputs are not moved
      have hfixb : ∀ β, BV.reg β ∈ sp.bw → extend ρb sp.nb start n β = ρb β := by
        intro β hβ
        rw [hold β (h.bw_lt β hβ)]
        have := hdlt _ (hbw_d β hβ)
        simp only [shiftFrom]; split <;> omega
      have hps' := PS.get_rename_shift st.ps start n st.nb h.ps_lt
      have hhas' := PS.has_rename_shift st.ps start n st.nb h.ps_lt
      refine ⟨extend ρb sp.nb start n, dreg ++ List.range' start n, ?_⟩
      refine { ref := { nq := h.ref.nq, nb := ?_, injq := h.ref.injq, injb := ?_, cmds := ?_,
                        qubits := h.ref.qubits, ps := ?_, scal := h.ref.scal, readout := ?_,
                        ppdom := ?_, pp := ?_ },
               qw_lt := h.qw_lt, qsorted := h.qsorted, cmd_ids := ?_, bw_lt := ?_, cg_lt := ?_,
               ps_lt := ?_, sps_lt := ?_, bits_lt := ?_, raw := ?_, ppcod := ?_, ppwf := hwf' }
      · simp [hnb]
      · exact extend_inj h.ref.injb hstart
      · simp only
        rw [h.ref.cmds, List.map_map]
        apply List.map_congr_left
        intro c hc
        obtain ⟨_, hc2⟩ := h.cmd_ids c hc
        simp only [Function.comp, Cmd.map, List.map_map, List.map_id]
        congr 1
        apply List.map_congr_left
        intro a ha
        simp [extend, hc2 a ha]
      · intro β hβ
        simp only at hβ ⊢
        rw [hps']
        by_cases hlt : β < sp.nb
        · rw [hold β hlt, ← h.ref.ps β hlt]
          have := h.ref.injb.1 β hlt
          simp only [shiftFrom]
          split
          · rename_i hge
            have e1 : ¬ (ρb β + n < start) := by omega
            have e2 : ¬ (ρb β + n < start + n) := by omega
            simp [e1, e2]
          · rename_i hge
            have e1 : ρb β < start := by omega
            simp [e1]
        · have e : extend ρb sp.nb start n β = start + (β - sp.nb) := by simp [extend, hlt]
          rw [e]
          have e1 : ¬ (start + (β - sp.nb) < start) := by omega
          have e2 : start + (β - sp.nb) < start + n := by omega
          simp only [e1, e2, ↓reduceIte]
          exact (PS.get_none_of_not_has (PS.not_has_ge h.sps_lt (by omega))).symm
      · obtain ⟨hp, hm⟩ := h.ref.readout
        constructor
        · rw [List.pairwise_append]
          refine ⟨hp, List.pairwise_lt_range', ?_⟩
          intro x hx y hy
          have := hdlt x hx
          have := (List.mem_range'_1.mp hy).1
          omega
        · intro r
          simp only [List.mem_append, List.mem_range'_1, hhas', hm r]
          by_cases h1 : r < start
          · simp only [h1, ↓reduceIte]
            constructor
            · rintro (⟨a, b⟩ | ⟨a, b⟩)
              · exact ⟨by omega, b⟩
              · omega
            · rintro ⟨a, b⟩; exact .inl ⟨by omega, b⟩
          · by_cases h2 : r < start + n
            · simp only [h1, h2, ↓reduceIte]
              constructor
              · intro _; exact ⟨by omega, trivial⟩
              · intro _; exact .inr ⟨by omega, trivial⟩
            · simp only [h1, h2, ↓reduceIte]
              constructor
              · rintro (⟨a, b⟩ | ⟨a, b⟩)
                · have := hcl r a (by omega); rw [b] at this; cases this
                · first | omega | cases b
              · rintro ⟨a, b⟩
                have := hcl (r - n) (by omega) (by omega)
                rw [b] at this; cases this
      · simp [hdom', h.ref.ppdom]
      · simp only [List.map_append]
        rw [hrun, h.ref.pp]
        simp only [Nat.add_zero]
        congr 1
        · apply List.map_congr_left
          intro c hc
          simp only [CG.map]
          congr 1
          apply List.map_congr_left
          intro v hv
          cases v with
          | reg β =>
            simp only [BV.map]
            have hlt := h.cg_lt c hc β hv
            rw [hold β hlt]
            have := hdlt _ (hcg_d c hc β hv)
            simp only [shiftFrom]; split <;> first | rfl | omega
          | out g p => rfl
        · rw [insertAt_map]
          congr 1
          · apply List.map_congr_left
            intro v hv
            cases v with
            | reg β => simp only [BV.map]; rw [hfixb β hv]
            | out g p => rfl
          · have : (BV.map (extend ρb sp.nb start n) ∘ BV.reg) = BV.reg ∘ (extend ρb sp.nb start n) := by
              funext r; rfl
            rw [List.map_map, this, ← List.map_map]
            congr 1
            symm
            apply map_range'
            intro i hi
            have : ¬ (sp.nb + i < sp.nb) := by omega
            simp only [extend, this, ↓reduceIte]; omega
      · exact h.cmd_ids.mono (Nat.le_refl _) (by simp)
      · intro β hβ
        rcases mem_insertAt hβ with hβ | hβ
        · have := h.bw_lt β hβ; simp only; omega
        · obtain ⟨i, hi, e⟩ := List.mem_map.mp hβ
          cases e
          have := (List.mem_range'_1.mp hi).2; simp only; omega
      · intro c hc β hβ; have := h.cg_lt c hc β hβ; simp only; omega
      · intro r hr
        simp only [hhas'] at hr
        split at hr
        · have := h.ps_lt r hr; simp only; omega
        · split at hr
          · cases hr
          · have := h.ps_lt _ hr; simp only; omega
      · intro r hr; have := h.sps_lt r hr; simp only; omega
      · simp only
        exact insertRegs_lt h.bits_lt hstart
      · intro hl
        have hb := h.raw (hlay hl)
        simp only
        -- nothing lies to the right of the new bits: every read-out register is below `start`
        have hdrop : dreg.drop lb = [] := by
          rcases hd : dreg.drop lb with _ | ⟨y, t⟩
          · rfl
          · exfalso
            have hy : y ∈ dreg.drop lb := by rw [hd]; simp
            have hy1 := hdlt y (List.mem_of_mem_drop hy)
            unfold startOf at hst
            rw [hb] at hst
            split at hst
            · rename_i he
              have : dreg = [] := by simpa using he
              rw [this] at hy; simp at hy
            · split at hst
              · cases hst; omega
              · split at hst
                · rename_i r hr
                  cases hst
                  obtain ⟨_, h2⟩ := sorted_at h.ref.readout.1 hr
                  have : lb - 1 + 1 = lb := by omega
                  rw [this] at h2
                  have := h2 y hy; omega
                · cases hst
        have htake : dreg.take lb = dreg := by
          have := List.take_append_drop lb dreg
          rw [hdrop, List.append_nil] at this; exact this
        rw [hb]; simp [insertRegs, hdrop, htake]
      · simp [hcod', h.ppcod, insertAt_length]

end DV.Tk
