/-
  Proofs/Move.lean — C05: closed form of the box list after a general (non-adjacent) move:
  box `i` lands at position `j`, all other boxes keep their relative order.
-/
import Proofs.Interchange

namespace DV

theorem list_at_split {α} {xs : List α} {i : Nat} {a : α} (h : xs[i]? = some a) :
    xs = xs.take i ++ a :: xs.drop (i + 1) ∧ (xs.take i).length = i := by
  have hl := (List.getElem?_eq_some_iff.mp h).1
  refine ⟨?_, by simp; omega⟩
  induction xs generalizing i with
  | nil => simp at h
  | cons x xs ih =>
    cases i with
    | zero => simp at h; subst h; simp
    | succ i =>
      have := ih (i := i) (by simpa using h) (by simpa using hl)
      simp only [List.take_succ_cons, List.drop_succ_cons, List.cons_append]
      congr 1

/-- Moving down: `A ++ [a] ++ M ++ R ↦ A ++ M ++ [a] ++ R` with `|A| = i`, `|M| = n`. -/
theorem interchangeDown_boxes {left : Bool} {n i : Nat} {d d' : Diagram} (hd : d.WF)
    (h : interchangeDown left n i d = .ok d') :
    n = 0 ∨ ∃ A M R a, d.boxes = A ++ a :: (M ++ R) ∧ A.length = i ∧ M.length = n ∧
      d'.boxes = A ++ M ++ a :: R := by
  induction n generalizing i d with
  | zero => exact Or.inl rfl
  | succ n ih =>
    right
    simp only [interchangeDown] at h
    split at h
    · cases h
    · rename_i d1 hd1
      obtain ⟨w1, _, _⟩ := Diagram.interchangeAdj_wf hd hd1
      obtain ⟨b0, b1, e0, e1, hb1⟩ := Diagram.interchangeAdj_boxes hd hd1
      have hsplit := list_split_pair e0 e1
      have hlen : (d.boxes.take i).length = i := by
        have := (List.getElem?_eq_some_iff.mp e0).1; simp; omega
      rcases ih w1 h with hn | ⟨A, M, R, a, hA, hAl, hMl, hres⟩
      · subst hn
        simp only [interchangeDown, Except.ok.injEq] at h; subst h
        exact ⟨d.boxes.take i, [b1], d.boxes.drop (i+2), b0, by simpa using hsplit, hlen, rfl,
          by simpa using hb1⟩
      · -- d1.boxes = take i ++ [b1, b0] ++ drop (i+2) = A ++ a :: (M ++ R) with |A| = i + 1
        have e : (d.boxes.take i ++ [b1]) ++ (b0 :: d.boxes.drop (i+2)) = A ++ a :: (M ++ R) := by
          rw [← hA, hb1]; simp
        have hinj := List.append_inj e (by simp [hlen, hAl])
        obtain ⟨hA', hrest⟩ := hinj
        simp only [List.cons.injEq] at hrest
        obtain ⟨rfl, hMR⟩ := hrest
        refine ⟨d.boxes.take i, b1 :: M, R, b0, ?_, hlen, by simp [hMl], ?_⟩
        · conv => lhs; rw [hsplit]
          simp [hMR]
        · rw [hres, ← hA']; simp

/-- Moving up: `L ++ M ++ [a] ++ R ↦ L ++ [a] ++ M ++ R` with `|L ++ M| = i`, `|M| = n`. -/
theorem interchangeUp_boxes {left : Bool} {n i : Nat} {d d' : Diagram} (hd : d.WF)
    (h : interchangeUp left n i d = .ok d') :
    n = 0 ∨ ∃ L M R a, d.boxes = L ++ M ++ a :: R ∧ (L ++ M).length = i ∧ M.length = n ∧
      d'.boxes = L ++ a :: (M ++ R) := by
  induction n generalizing i d with
  | zero => exact Or.inl rfl
  | succ n ih =>
    right
    simp only [interchangeUp] at h
    split at h
    · cases h
    · rename_i hi0
      split at h
      · cases h
      · rename_i d1 hd1
        obtain ⟨w1, _, _⟩ := Diagram.interchangeAdj_wf hd hd1
        obtain ⟨b0, b1, e0, e1, hb1⟩ := Diagram.interchangeAdj_boxes hd hd1
        have hi : i - 1 + 1 = i := by omega
        rw [hi] at e1
        have hsplit := list_split_pair e0 (by rw [hi]; exact e1)
        have hlen : (d.boxes.take (i-1)).length = i - 1 := by
          have := (List.getElem?_eq_some_iff.mp e0).1; simp; omega
        rcases ih w1 h with hn | ⟨L, M, R, a, hA, hAl, hMl, hres⟩
        · subst hn
          simp only [interchangeUp, Except.ok.injEq] at h; subst h
          refine ⟨d.boxes.take (i-1), [b0], d.boxes.drop (i-1+2), b1, by simpa using hsplit,
            by rw [List.length_append, hlen]; simp; omega, rfl, by simpa using hb1⟩
        · -- d1.boxes = take (i-1) ++ [b1, b0] ++ drop (i+1) = L ++ M ++ a :: R with |L ++ M| = i - 1
          have e : d.boxes.take (i-1) ++ (b1 :: b0 :: d.boxes.drop (i-1+2)) = (L ++ M) ++ a :: R := by
            rw [← hA, hb1]; simp
          have hinj := List.append_inj e (by rw [hlen, hAl])
          obtain ⟨hLM, hrest⟩ := hinj
          simp only [List.cons.injEq] at hrest
          obtain ⟨rfl, hR⟩ := hrest
          refine ⟨L, M ++ [b0], d.boxes.drop (i-1+2), b1, ?_, ?_, by simp [hMl], ?_⟩
          · conv => lhs; rw [hsplit, hLM]
            simp
          · simp only [List.length_append, List.length_cons, List.length_nil] at hAl ⊢; omega
          · rw [hres, ← hR]; simp

/-- C05, closed form: after `d.interchange(i, j)` box `i` sits at position `j` and all other
    boxes are in their original relative order. -/
theorem Diagram.interchange_boxes {d d' : Diagram} {i j : Int} {left : Bool} (hd : d.WF)
    (h : d.interchange i j left = .ok d') :
    (i = j ∧ d' = d) ∨
    (i < j ∧ ∃ A M R a, d.boxes = A ++ a :: (M ++ R) ∧ (A.length : Int) = i ∧
        (M.length : Int) = j - i ∧ d'.boxes = A ++ M ++ a :: R) ∨
    (j < i ∧ ∃ L M R a, d.boxes = L ++ M ++ a :: R ∧ (L.length : Int) = j ∧
        (M.length : Int) = i - j ∧ d'.boxes = L ++ a :: (M ++ R)) := by
  unfold Diagram.interchange at h
  split at h
  · cases h
  · rename_i hr
    split at h
    · rename_i hij; cases h; exact Or.inl ⟨hij, rfl⟩
    · rename_i hij
      split at h
      · rename_i hlt
        right; right
        refine ⟨hlt, ?_⟩
        rcases interchangeUp_boxes hd h with hn | ⟨L, M, R, a, h1, h2, h3, h4⟩
        · omega
        · refine ⟨L, M, R, a, h1, ?_, by omega, h4⟩
          simp at h2; omega
      · rename_i hnlt
        right; left
        have hlt : i < j := by omega
        refine ⟨hlt, ?_⟩
        rcases interchangeDown_boxes hd h with hn | ⟨A, M, R, a, h1, h2, h3, h4⟩
        · omega
        · exact ⟨A, M, R, a, h1, by omega, by omega, h4⟩

end DV
