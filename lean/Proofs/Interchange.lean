/-
  Proofs/Interchange.lean — C05: `interchange` refines the textbook exchange relation,
  is sound in every SMC, never raises an axiom error on well-typed input, and is refused
  exactly when the two boxes obstruct each other.
-/
import Proofs.WFOps
import Proofs.SMC

namespace DV

/-! ### The specification: two disconnected boxes `f` (left) and `g` (right) -/

structure ExchData where
  l : Ty
  f : Box
  m : Ty
  g : Box
  r : Ty

/-- `f` first, then `g`. -/
def ExchData.fFirst (e : ExchData) : Layer × Layer :=
  (⟨e.l, e.f, e.m ++ e.g.dom ++ e.r⟩, ⟨e.l ++ e.f.cod ++ e.m, e.g, e.r⟩)
/-- `g` first, then `f`. -/
def ExchData.gFirst (e : ExchData) : Layer × Layer :=
  (⟨e.l ++ e.f.dom ++ e.m, e.g, e.r⟩, ⟨e.l, e.f, e.m ++ e.g.cod ++ e.r⟩)

/-- `ExchPair a b b' a'`: the stacked layers `a; b` and `b'; a'` are the two orders of the same
    pair of disconnected boxes. -/
def ExchPair (a b b' a' : Layer) : Prop :=
  ∃ e : ExchData, ((a, b) = e.fFirst ∧ (b', a') = e.gFirst) ∨ ((a, b) = e.gFirst ∧ (b', a') = e.fFirst)

/-- The textbook exchange relation: `d'` is `d` with layers `i, i+1` exchanged. -/
def Exch (d d' : Diagram) : Prop :=
  d'.dom = d.dom ∧ d'.cod = d.cod ∧
  ∃ pre post a b b' a', d.layers.boxes = pre ++ [a, b] ++ post ∧
    d'.layers.boxes = pre ++ [b', a'] ++ post ∧ ExchPair a b b' a'

/-! ### List splitting -/

theorem append_split {α} {a b c d : List α} (h : a ++ b = c ++ d) (hl : a.length ≤ c.length) :
    c = a ++ c.drop a.length ∧ b = c.drop a.length ++ d := by
  have h1 : a = c.take a.length := by
    have := congrArg (List.take a.length) h
    rw [List.take_left' rfl, List.take_append_of_le_length hl] at this
    exact this
  have hc : c = a ++ c.drop a.length := by
    conv => lhs; rw [← List.take_append_drop a.length c]
    rw [← h1]
  refine ⟨hc, ?_⟩
  rw [hc, List.append_assoc] at h
  have := List.append_cancel_left h
  rw [this]

/-! ### interchangeChoice produces an exchange pair -/

theorem interchangeChoice_exch {left : Bool} {off0 off1 o0 o1 : Int} {l0 l1 y0 y1 : Layer}
    (hc : l0.cod = l1.dom) (h0 : off0 = l0.left.length) (h1 : off1 = l1.left.length)
    (h : interchangeChoice left off0 off1 l0 l1 = .ok (o0, o1, y0, y1)) :
    ExchPair l0 l1 y1 y0 := by
  have hL : off1 ≥ off0 + l0.box.cod.length → leftCase off0 off1 l0 l1 = (o0, o1, y0, y1) →
      ExchPair l0 l1 y1 y0 := by
    intro hge he
    simp only [leftCase, Prod.mk.injEq] at he
    obtain ⟨_, _, e2, e3⟩ := he
    subst e2 e3
    have hlen : (l0.left ++ l0.box.cod).length ≤ l1.left.length := by
      subst h0 h1; simp only [List.length_append]; omega
    have hc' : (l0.left ++ l0.box.cod) ++ l0.right = l1.left ++ (l1.box.dom ++ l1.right) := by
      simpa [Layer.cod, Layer.dom] using hc
    obtain ⟨s1, s2⟩ := append_split hc' hlen
    refine ⟨⟨l0.left, l0.box, l1.left.drop (l0.left ++ l0.box.cod).length, l1.box, l1.right⟩, Or.inl ?_⟩
    simp only [ExchData.fFirst, ExchData.gFirst, pySlice_drop, Prod.mk.injEq]
    refine ⟨⟨?_, ?_⟩, trivial⟩
    · cases l0 with
      | mk left box right =>
        simp only at s2 ⊢
        rw [s2]; simp
    · cases l1 with
      | mk left box right =>
        simp only at s1 ⊢
        congr 1
  have hR : off0 ≥ off1 + l1.box.dom.length → rightCase off0 off1 l0 l1 = (o0, o1, y0, y1) →
      ExchPair l0 l1 y1 y0 := by
    intro hge he
    simp only [rightCase, Prod.mk.injEq] at he
    obtain ⟨_, _, e2, e3⟩ := he
    subst e2 e3
    have hlen : (l1.left ++ l1.box.dom).length ≤ l0.left.length := by
      subst h0 h1; simp only [List.length_append]; omega
    have hc' : (l1.left ++ l1.box.dom) ++ l1.right = l0.left ++ (l0.box.cod ++ l0.right) := by
      simpa [Layer.cod, Layer.dom] using hc.symm
    obtain ⟨s1, s2⟩ := append_split hc' hlen
    refine ⟨⟨l1.left, l1.box, l0.left.drop (l1.left ++ l1.box.dom).length, l0.box, l0.right⟩, Or.inr ?_⟩
    simp only [ExchData.fFirst, ExchData.gFirst, pySlice_drop, Prod.mk.injEq]
    refine ⟨⟨?_, ?_⟩, trivial⟩
    · cases l0 with
      | mk left box right =>
        simp only at s1 ⊢
        congr 1
    · cases l1 with
      | mk left box right =>
        simp only at s2 ⊢
        rw [s2]; simp
  unfold interchangeChoice at h
  split at h
  · rename_i hcnd
    simp only [Bool.and_eq_true, decide_eq_true_eq] at hcnd
    exact hL hcnd.2 (by cases h; rfl)
  · split at h
    · rename_i hcnd; exact hR hcnd (by cases h; rfl)
    · split at h
      · rename_i hcnd; exact hL hcnd (by cases h; rfl)
      · cases h

/-- Typing of an exchange pair: both orders have the same outer types and compose. -/
theorem ExchPair.typing {a b b' a' : Layer} (h : ExchPair a b b' a') :
    a.cod = b.dom ∧ b'.cod = a'.dom ∧ b'.dom = a.dom ∧ a'.cod = b.cod := by
  obtain ⟨e, h | h⟩ := h
  all_goals
    simp only [ExchData.fFirst, ExchData.gFirst, Prod.mk.injEq] at h
    obtain ⟨⟨rfl, rfl⟩, rfl, rfl⟩ := h
    simp [Layer.dom, Layer.cod]

end DV

namespace DV

/-! ### `interchangeAdj` refines `Exch` -/

theorem chain_adjacent {s c : Ty} {ls : List Layer} {i : Nat} {a b : Layer} (h : Chain s ls c)
    (ha : ls[i]? = some a) (hb : ls[i+1]? = some b) : a.cod = b.dom := by
  induction ls generalizing s i with
  | nil => simp at ha
  | cons x xs ih =>
    cases i with
    | zero =>
      simp at ha; subst ha
      cases xs with
      | nil => simp at hb
      | cons y ys => simp at hb; subst hb; exact h.2.1
    | succ i => exact ih h.2 (by simpa using ha) (by simpa using hb)

theorem list_split_pair {α} {xs : List α} {i : Nat} {a b : α}
    (ha : xs[i]? = some a) (hb : xs[i+1]? = some b) :
    xs = xs.take i ++ [a, b] ++ xs.drop (i + 2) := by
  induction xs generalizing i with
  | nil => simp at ha
  | cons x xs ih =>
    cases i with
    | zero =>
      simp at ha; subst ha
      cases xs with
      | nil => simp at hb
      | cons y ys => simp at hb; subst hb; simp
    | succ i =>
      have := ih (i := i) (by simpa using ha) (by simpa using hb)
      simp only [List.take_succ_cons, List.drop_succ_cons, List.cons_append]
      congr 1

theorem Diagram.interchangeAdj_refines {d d' : Diagram} {i : Nat} {left : Bool} (hd : d.WF)
    (h : d.interchangeAdj i left = .ok d') : Exch d d' := by
  unfold Diagram.interchangeAdj at h
  split at h
  · rename_i off0 off1 l0 l1 e0 e1 e2 e3
    split at h
    · cases h
    · rename_i o0 o1 y0 y1 hch
      have hlen : i + 1 < d.layers.boxes.length := (List.getElem?_eq_some_iff.mp e3).1
      have ho0 : off0 = l0.left.length := by
        have := hd.offsets
        rw [this] at e0
        simp only [List.getElem?_map, e2, Option.map_some] at e0
        exact (Option.some.inj e0).symm
      have ho1 : off1 = l1.left.length := by
        have := hd.offsets
        rw [this] at e1
        simp only [List.getElem?_map, e3, Option.map_some] at e1
        exact (Option.some.inj e1).symm
      obtain ⟨q0, q1, _, _⟩ := interchangeChoice_offsets ho0 ho1 hch
      obtain ⟨_, hdom, hcod, hboxes⟩ := Diagram.splice_wf hd hlen q0 q1 h
      have hadj := chain_adjacent hd.chain e2 e3
      exact ⟨hdom, hcod, _, _, l0, l1, y1, y0, list_split_pair e2 e3, hboxes,
        interchangeChoice_exch hadj ho0 ho1 hch⟩
  · cases h

/-! ### Soundness in every SMC -/

section
variable {O M : Type} {C : SMC O M} (F : MFunctor C)

theorem MFunctor.foldl_typing {s c : Ty} {ls : List Layer} (X : M) (hX : C.cod X = F.ty s)
    (h : Chain s ls c) :
    C.dom (ls.foldl (fun acc l => C.comp acc (F.layer l)) X) = C.dom X ∧
    C.cod (ls.foldl (fun acc l => C.comp acc (F.layer l)) X) = F.ty c := by
  induction ls generalizing s X with
  | nil => simp [Chain] at h; subst h; exact ⟨rfl, hX⟩
  | cons x xs ih =>
    have hcomp : C.cod X = C.dom (F.layer x) := by rw [hX, F.dom_layer, h.1]
    have := ih (C.comp X (F.layer x)) (by rw [C.cod_comp _ _ hcomp, F.cod_layer]) h.2
    simp only [List.foldl_cons]
    exact ⟨this.1.trans (C.dom_comp _ _ hcomp), this.2⟩

theorem MFunctor.layers_typing {s c : Ty} {ls : List Layer} (h : Chain s ls c) :
    C.dom (F.layers s ls) = F.ty s ∧ C.cod (F.layers s ls) = F.ty c := by
  have := F.foldl_typing (C.id (F.ty s)) (C.cod_id _) h
  exact ⟨this.1.trans (C.dom_id _), this.2⟩

theorem MFunctor.layers_append (s : Ty) (xs ys : List Layer) :
    F.layers s (xs ++ ys) = ys.foldl (fun acc l => C.comp acc (F.layer l)) (F.layers s xs) := by
  simp [MFunctor.layers, List.foldl_append]

theorem ExchPair.sound {a b b' a' : Layer} (h : ExchPair a b b' a') :
    C.comp (F.layer a) (F.layer b) = C.comp (F.layer b') (F.layer a') := by
  obtain ⟨e, h | h⟩ := h
  all_goals
    simp only [ExchData.fFirst, ExchData.gFirst, Prod.mk.injEq] at h
    obtain ⟨⟨rfl, rfl⟩, rfl, rfl⟩ := h
  · exact F.layer_exchange e.l e.m e.r e.f e.g
  · exact (F.layer_exchange e.l e.m e.r e.f e.g).symm

/-- Exchanging two disconnected layers does not change the denotation. -/
theorem Exch.sound {d d' : Diagram} (hd : d.WF) (h : Exch d d') : F.eval d' = F.eval d := by
  obtain ⟨hdom, _, pre, post, a, b, b', a', e1, e2, hp⟩ := h
  obtain ⟨t1, t2, t3, _⟩ := hp.typing
  have hchain : Chain d.dom (pre ++ [a, b] ++ post) d.cod := by
    have := hd.chain
    rw [LArrow.WF, hd.ldom, hd.lcod, e1] at this; exact this
  obtain ⟨m2, hc1, _⟩ := chain_append.mp hchain
  obtain ⟨m, hpre, hab⟩ := chain_append.mp hc1
  have hma : m = a.dom := hab.1
  obtain ⟨_, hX⟩ := F.layers_typing hpre
  unfold MFunctor.eval
  rw [e1, e2, hdom, F.layers_append, F.layers_append, F.layers_append, F.layers_append]
  congr 1
  simp only [List.foldl_cons, List.foldl_nil]
  rw [C.comp_assoc _ _ _ (by rw [hX, F.dom_layer, hma, t3]) (by rw [F.cod_layer, F.dom_layer, t2]),
      C.comp_assoc _ _ _ (by rw [hX, F.dom_layer, hma]) (by rw [F.cod_layer, F.dom_layer, t1]),
      hp.sound F]

theorem Diagram.interchangeAdj_sound {d d' : Diagram} {i : Nat} {left : Bool} (hd : d.WF)
    (h : d.interchangeAdj i left = .ok d') : F.eval d' = F.eval d :=
  (Diagram.interchangeAdj_refines hd h).sound F hd

theorem interchangeDown_sound {left : Bool} {n i : Nat} {d d' : Diagram} (hd : d.WF)
    (h : interchangeDown left n i d = .ok d') : F.eval d' = F.eval d := by
  induction n generalizing i d with
  | zero => simp [interchangeDown] at h; subst h; rfl
  | succ n ih =>
    simp only [interchangeDown] at h
    split at h
    · cases h
    · rename_i d1 hd1
      obtain ⟨w, _, _⟩ := Diagram.interchangeAdj_wf hd hd1
      rw [ih w h, Diagram.interchangeAdj_sound F hd hd1]

theorem interchangeUp_sound {left : Bool} {n i : Nat} {d d' : Diagram} (hd : d.WF)
    (h : interchangeUp left n i d = .ok d') : F.eval d' = F.eval d := by
  induction n generalizing i d with
  | zero => simp [interchangeUp] at h; subst h; rfl
  | succ n ih =>
    simp only [interchangeUp] at h
    split at h
    · cases h
    · split at h
      · cases h
      · rename_i d1 hd1
        obtain ⟨w, _, _⟩ := Diagram.interchangeAdj_wf hd hd1
        rw [ih w h, Diagram.interchangeAdj_sound F hd hd1]

/-- C05 soundness: for all `(i, j)`, both preferences, the result denotes the same morphism
    under every monoidal functor into every (partial strict) monoidal algebra. -/
theorem Diagram.interchange_sound {d d' : Diagram} {i j : Int} {left : Bool} (hd : d.WF)
    (h : d.interchange i j left = .ok d') : F.eval d' = F.eval d := by
  unfold Diagram.interchange at h
  split at h
  · cases h
  · split at h
    · cases h; rfl
    · split at h
      · exact interchangeUp_sound F hd h
      · exact interchangeDown_sound F hd h

end

end DV

namespace DV

/-! ### Totality: on well-typed input the run-time `>>` checks never fire -/

theorem chain_start_unique {s s' c : Ty} {xs : List Layer} (h : Chain s xs c) (h' : Chain s' xs c) :
    s = s' := by
  cases xs with
  | nil => simp [Chain] at h h'; rw [h, h']
  | cons x xs => rw [h.1, h'.1]

theorem LArrow.slice_prefix_total {a : LArrow} {i : Nat} (hi : i < a.boxes.length) :
    ∃ pre, a.slice none (some (i : Int)) = .ok pre := by
  unfold LArrow.slice
  split
  · unfold LArrow.sliceEmpty
    have h0 : ¬ ((0 : Int) ≥ (a.boxes.length : Int)) := by omega
    have h1 : ¬ ((0 : Int) ≤ -(a.boxes.length : Int)) := by omega
    simp only [Option.getD_none, h0, h1, if_false]
    cases hb : a.boxes with
    | nil => simp [hb] at hi
    | cons b bs => simp [pyGet?]
  · exact ⟨_, rfl⟩

theorem LArrow.slice_suffix_total {a : LArrow} {k : Nat} :
    ∃ post, a.slice (some (k : Int)) none = .ok post := by
  unfold LArrow.slice
  split
  · rename_i hnil
    rw [pySlice_drop] at hnil
    unfold LArrow.sliceEmpty
    have hlen : a.boxes.length ≤ k := by
      have := congrArg List.length hnil
      simp at this; omega
    have h0 : ((k : Int) ≥ (a.boxes.length : Int)) := by omega
    simp only [Option.getD_some, h0, if_true]
    exact ⟨_, rfl⟩
  · exact ⟨_, rfl⟩

theorem Diagram.splice_total {d : Diagram} {i : Nat} {o0 o1 : Int} {y0 y1 l0 l1 : Layer}
    (hd : d.WF) (e2 : d.layers.boxes[i]? = some l0) (e3 : d.layers.boxes[i+1]? = some l1)
    (t1 : y1.dom = l0.dom) (t2 : y1.cod = y0.dom) (t3 : y0.cod = l1.cod) :
    ∃ d', d.splice i o0 o1 y0 y1 = .ok d' := by
  have hlen : i + 1 < d.layers.boxes.length := (List.getElem?_eq_some_iff.mp e3).1
  obtain ⟨pre, hpre⟩ := LArrow.slice_prefix_total (a := d.layers) (i := i) (by omega)
  obtain ⟨post, hpost⟩ := LArrow.slice_suffix_total (a := d.layers) (k := i + 2)
  obtain ⟨pw, pdom, pboxes⟩ := LArrow.slice_prefix hd.chain (by omega) hpre
  obtain ⟨qw, qcod, qboxes⟩ := LArrow.slice_suffix hd.chain (by omega) (by omega) hpost
  -- the types at depth i and i+2
  have hsplit := list_split_pair e2 e3
  have hch : Chain d.layers.dom (d.layers.boxes.take i ++ [l0, l1] ++ d.layers.boxes.drop (i+2))
      d.layers.cod := by rw [← hsplit]; exact hd.chain
  obtain ⟨m2, hc1, hc2⟩ := chain_append.mp hch
  obtain ⟨m1, hc0, hc01⟩ := chain_append.mp hc1
  have hm1 : m1 = l0.dom := hc01.1
  have hm2 : l1.cod = m2 := hc01.2.2
  have pcod : pre.cod = l0.dom := by
    have : Chain pre.dom pre.boxes pre.cod := pw
    rw [pdom, pboxes] at this
    rw [chain_unique this hc0, hm1]
  have qdom : post.dom = l1.cod := by
    have : Chain post.dom post.boxes post.cod := qw
    rw [qcod, qboxes] at this
    rw [chain_start_unique this hc2, hm2]
  unfold Diagram.splice
  simp only [hpre, hpost]
  have s1 : pre.thenLayer y1 = .ok ⟨pre.dom, y1.cod, pre.boxes ++ [y1]⟩ := by
    simp [LArrow.thenLayer, LArrow.then, Layer.arrow, pcod, t1]
  simp only [s1]
  have s2 : (⟨pre.dom, y1.cod, pre.boxes ++ [y1]⟩ : LArrow).thenLayer y0
      = .ok ⟨pre.dom, y0.cod, pre.boxes ++ [y1] ++ [y0]⟩ := by
    simp [LArrow.thenLayer, LArrow.then, Layer.arrow, t2]
  simp only [s2]
  have s3 : (⟨pre.dom, y0.cod, pre.boxes ++ [y1] ++ [y0]⟩ : LArrow).then post
      = .ok ⟨pre.dom, post.cod, pre.boxes ++ [y1] ++ [y0] ++ post.boxes⟩ := by
    simp [LArrow.then, t3, qdom]
  simp only [s3]
  exact ⟨_, rfl⟩

/-- Two adjacent boxes are *free* (can be exchanged in the plane) when one lies entirely to the
    side of the other: the output span of the upper box and the input span of the lower box do
    not overlap.  For boxes with at least one output resp. input wire this is "they share no wire". -/
def freeAt (d : Diagram) (i : Nat) : Prop :=
  ∃ off0 off1 b0 b1, d.offsets[i]? = some off0 ∧ d.offsets[i+1]? = some off1 ∧
    d.boxes[i]? = some b0 ∧ d.boxes[i+1]? = some b1 ∧
    (off0 ≥ off1 + b1.dom.length ∨ off1 ≥ off0 + b0.cod.length)

theorem interchangeChoice_ok_iff {left : Bool} {off0 off1 : Int} {l0 l1 : Layer} :
    (∃ r, interchangeChoice left off0 off1 l0 l1 = .ok r) ↔
      (off0 ≥ off1 + l1.box.dom.length ∨ off1 ≥ off0 + l0.box.cod.length) := by
  unfold interchangeChoice
  constructor
  · rintro ⟨r, h⟩
    split at h
    · rename_i hc; simp only [Bool.and_eq_true, decide_eq_true_eq] at hc; exact Or.inr hc.2
    · split at h
      · rename_i hc; exact Or.inl hc
      · split at h
        · rename_i hc; exact Or.inr hc
        · cases h
  · intro h
    split
    · exact ⟨_, rfl⟩
    · split
      · exact ⟨_, rfl⟩
      · split
        · exact ⟨_, rfl⟩
        · rename_i h1 h2 h3; omega

theorem interchangeChoice_err {left : Bool} {off0 off1 : Int} {l0 l1 : Layer}
    (h : ¬ (off0 ≥ off1 + l1.box.dom.length ∨ off1 ≥ off0 + l0.box.cod.length)) :
    interchangeChoice left off0 off1 l0 l1 = .error .interchanger := by
  unfold interchangeChoice
  split
  · rename_i hc; simp only [Bool.and_eq_true, decide_eq_true_eq] at hc; omega
  · split
    · omega
    · split
      · omega
      · rfl

/-- Adjacent interchange on a well-typed diagram: succeeds iff the boxes are free, and is refused
    with an interchanger error (never an axiom error) otherwise. -/
theorem Diagram.interchangeAdj_ok_iff {d : Diagram} {i : Nat} {left : Bool} (hd : d.WF)
    (hi : i + 1 < d.boxes.length) :
    ((∃ d', d.interchangeAdj i left = .ok d') ↔ freeAt d i) ∧
    (¬ freeAt d i → d.interchangeAdj i left = .error .interchanger) := by
  have hlen : i + 1 < d.layers.boxes.length := by rw [hd.boxes] at hi; simpa using hi
  have hlo : i + 1 < d.offsets.length := by rw [hd.offsets]; simpa using hlen
  obtain ⟨l0, e2⟩ : ∃ l0, d.layers.boxes[i]? = some l0 := ⟨_, List.getElem?_eq_getElem (by omega)⟩
  obtain ⟨l1, e3⟩ : ∃ l1, d.layers.boxes[i+1]? = some l1 := ⟨_, List.getElem?_eq_getElem hlen⟩
  have e0 : d.offsets[i]? = some (l0.left.length : Int) := by
    rw [hd.offsets]; simp [e2]
  have e1 : d.offsets[i+1]? = some (l1.left.length : Int) := by
    rw [hd.offsets]; simp [e3]
  have b0 : d.boxes[i]? = some l0.box := by rw [hd.boxes]; simp [e2]
  have b1 : d.boxes[i+1]? = some l1.box := by rw [hd.boxes]; simp [e3]
  have hfree : freeAt d i ↔ ((l0.left.length : Int) ≥ l1.left.length + l1.box.dom.length ∨
      (l1.left.length : Int) ≥ l0.left.length + l0.box.cod.length) := by
    unfold freeAt
    constructor
    · rintro ⟨o0, o1, x0, x1, h0, h1, h2, h3, h⟩
      rw [e0] at h0; rw [e1] at h1; rw [b0] at h2; rw [b1] at h3
      cases h0; cases h1; cases h2; cases h3; exact h
    · intro h; exact ⟨_, _, _, _, e0, e1, b0, b1, h⟩
  have hadj := chain_adjacent hd.chain e2 e3
  constructor
  · constructor
    · rintro ⟨d', h⟩
      unfold Diagram.interchangeAdj at h
      simp only [e0, e1, e2, e3] at h
      split at h
      · cases h
      · rename_i o0 o1 y0 y1 hch
        exact hfree.mpr (interchangeChoice_ok_iff.mp ⟨_, hch⟩)
    · intro hf
      obtain ⟨⟨o0, o1, y0, y1⟩, hch⟩ := (interchangeChoice_ok_iff (left := left)).mpr (hfree.mp hf)
      obtain ⟨t1, t2, t3, t4⟩ := (interchangeChoice_exch hadj rfl rfl hch).typing
      obtain ⟨d', hd'⟩ := Diagram.splice_total (o0 := o0) (o1 := o1) hd e2 e3 t3 t2 t4
      refine ⟨d', ?_⟩
      unfold Diagram.interchangeAdj
      simp only [e0, e1, e2, e3, hch, hd']
  · intro hf
    unfold Diagram.interchangeAdj
    simp only [e0, e1, e2, e3]
    rw [interchangeChoice_err (fun h => hf (hfree.mpr h))]

end DV

namespace DV

/-! ### The boxes: one adjacent transposition per step -/

theorem Diagram.interchangeAdj_boxes {d d' : Diagram} {i : Nat} {left : Bool} (hd : d.WF)
    (h : d.interchangeAdj i left = .ok d') :
    ∃ b0 b1, d.boxes[i]? = some b0 ∧ d.boxes[i+1]? = some b1 ∧
      d'.boxes = d.boxes.take i ++ [b1, b0] ++ d.boxes.drop (i + 2) := by
  have hw := (Diagram.interchangeAdj_wf hd h).1
  unfold Diagram.interchangeAdj at h
  split at h
  · rename_i off0 off1 l0 l1 e0 e1 e2 e3
    split at h
    · cases h
    · rename_i o0 o1 y0 y1 hch
      have hlen : i + 1 < d.layers.boxes.length := (List.getElem?_eq_some_iff.mp e3).1
      have ho0 : off0 = l0.left.length := by
        have := hd.offsets
        rw [this] at e0
        simp only [List.getElem?_map, e2, Option.map_some] at e0
        exact (Option.some.inj e0).symm
      have ho1 : off1 = l1.left.length := by
        have := hd.offsets
        rw [this] at e1
        simp only [List.getElem?_map, e3, Option.map_some] at e1
        exact (Option.some.inj e1).symm
      obtain ⟨q0, q1, hb0, hb1⟩ := interchangeChoice_offsets ho0 ho1 hch
      obtain ⟨_, _, _, hboxes⟩ := Diagram.splice_wf hd hlen q0 q1 h
      refine ⟨l0.box, l1.box, by rw [hd.boxes]; simp [e2], by rw [hd.boxes]; simp [e3], ?_⟩
      rw [hw.boxes, hboxes, hd.boxes]
      simp [List.map_take, List.map_drop, hb0, hb1]
  · cases h

theorem Diagram.interchangeAdj_perm {d d' : Diagram} {i : Nat} {left : Bool} (hd : d.WF)
    (h : d.interchangeAdj i left = .ok d') : d'.boxes.Perm d.boxes := by
  obtain ⟨b0, b1, e0, e1, hb⟩ := Diagram.interchangeAdj_boxes hd h
  have hs := list_split_pair e0 e1
  rw [hb]
  conv => rhs; rw [hs]
  refine List.Perm.append_right _ (List.Perm.append_left _ ?_)
  exact List.Perm.swap b0 b1 []

theorem interchangeDown_perm {left : Bool} {n i : Nat} {d d' : Diagram} (hd : d.WF)
    (h : interchangeDown left n i d = .ok d') : d'.boxes.Perm d.boxes := by
  induction n generalizing i d with
  | zero => simp [interchangeDown] at h; subst h; exact List.Perm.refl _
  | succ n ih =>
    simp only [interchangeDown] at h
    split at h
    · cases h
    · rename_i d1 hd1
      obtain ⟨w, _, _⟩ := Diagram.interchangeAdj_wf hd hd1
      exact (ih w h).trans (Diagram.interchangeAdj_perm hd hd1)

theorem interchangeUp_perm {left : Bool} {n i : Nat} {d d' : Diagram} (hd : d.WF)
    (h : interchangeUp left n i d = .ok d') : d'.boxes.Perm d.boxes := by
  induction n generalizing i d with
  | zero => simp [interchangeUp] at h; subst h; exact List.Perm.refl _
  | succ n ih =>
    simp only [interchangeUp] at h
    split at h
    · cases h
    · split at h
      · cases h
      · rename_i d1 hd1
        obtain ⟨w, _, _⟩ := Diagram.interchangeAdj_wf hd hd1
        exact (ih w h).trans (Diagram.interchangeAdj_perm hd hd1)

theorem Diagram.interchange_perm {d d' : Diagram} {i j : Int} {left : Bool} (hd : d.WF)
    (h : d.interchange i j left = .ok d') : d'.boxes.Perm d.boxes := by
  unfold Diagram.interchange at h
  split at h
  · cases h
  · split at h
    · cases h; exact List.Perm.refl _
    · split at h
      · exact interchangeUp_perm hd h
      · exact interchangeDown_perm hd h

/-- In-range adjacent steps end in success or an interchanger error, nothing else. -/
theorem Diagram.interchangeAdj_cases {d : Diagram} {i : Nat} {left : Bool} (hd : d.WF)
    (hi : i + 1 < d.boxes.length) :
    (∃ d', d.interchangeAdj i left = .ok d') ∨ d.interchangeAdj i left = .error .interchanger := by
  obtain ⟨h1, h2⟩ := Diagram.interchangeAdj_ok_iff (left := left) hd hi
  by_cases hf : freeAt d i
  · exact Or.inl (h1.mpr hf)
  · exact Or.inr (h2 hf)

theorem interchangeDown_cases {left : Bool} {n i : Nat} {d : Diagram} (hd : d.WF)
    (hi : i + n < d.boxes.length) :
    (∃ d', interchangeDown left n i d = .ok d') ∨ interchangeDown left n i d = .error .interchanger := by
  induction n generalizing i d with
  | zero => exact Or.inl ⟨d, rfl⟩
  | succ n ih =>
    simp only [interchangeDown]
    rcases Diagram.interchangeAdj_cases (left := left) hd (i := i) (by omega) with ⟨d1, h1⟩ | h1
    · rw [h1]
      obtain ⟨w, _, _⟩ := Diagram.interchangeAdj_wf hd h1
      have hl := (Diagram.interchangeAdj_perm hd h1).length_eq
      exact ih w (by omega)
    · rw [h1]; exact Or.inr rfl

theorem interchangeUp_cases {left : Bool} {n i : Nat} {d : Diagram} (hd : d.WF)
    (hn : n ≤ i) (hi : i < d.boxes.length) :
    (∃ d', interchangeUp left n i d = .ok d') ∨ interchangeUp left n i d = .error .interchanger := by
  induction n generalizing i d with
  | zero => exact Or.inl ⟨d, rfl⟩
  | succ n ih =>
    simp only [interchangeUp]
    have hi0 : ¬ i = 0 := by omega
    rw [if_neg hi0]
    rcases Diagram.interchangeAdj_cases (left := left) hd (i := i - 1) (by omega) with ⟨d1, h1⟩ | h1
    · rw [h1]
      obtain ⟨w, _, _⟩ := Diagram.interchangeAdj_wf hd h1
      have hl := (Diagram.interchangeAdj_perm hd h1).length_eq
      exact ih w (by omega) (by omega)
    · rw [h1]; exact Or.inr rfl

/-- On a well-typed diagram `interchange` has exactly three outcomes: a diagram, an interchanger
    error, or (iff an index is out of range) an index error.  In particular the run-time `>>`
    on layers never raises an axiom error. -/
theorem Diagram.interchange_cases {d : Diagram} {i j : Int} {left : Bool} (hd : d.WF)
    (hr : (0 ≤ i ∧ i < (d.boxes.length : Int)) ∧ (0 ≤ j ∧ j < (d.boxes.length : Int))) :
    (∃ d', d.interchange i j left = .ok d') ∨ d.interchange i j left = .error .interchanger := by
  unfold Diagram.interchange
  have hn : ¬ (¬ (0 ≤ i ∧ i < (d.boxes.length : Int)) ∨ ¬ (0 ≤ j ∧ j < (d.boxes.length : Int))) := by
    intro h; rcases h with h | h
    · exact h hr.1
    · exact h hr.2
  rw [if_neg hn]
  split
  · exact Or.inl ⟨d, rfl⟩
  · split
    · exact interchangeUp_cases hd (by omega) (by omega)
    · exact interchangeDown_cases hd (by omega)

/-- Out-of-range indices are refused with an index error, and only they. -/
theorem Diagram.interchange_index_iff {d : Diagram} {i j : Int} {left : Bool} (hd : d.WF) :
    d.interchange i j left = .error .index ↔
      ¬ (0 ≤ i ∧ i < (d.boxes.length : Int)) ∨ ¬ (0 ≤ j ∧ j < (d.boxes.length : Int)) := by
  constructor
  · intro h
    apply Classical.byContradiction
    intro hn
    have hr : (0 ≤ i ∧ i < (d.boxes.length : Int)) ∧ (0 ≤ j ∧ j < (d.boxes.length : Int)) := by
      constructor
      · apply Classical.byContradiction; intro h1; exact hn (Or.inl h1)
      · apply Classical.byContradiction; intro h1; exact hn (Or.inr h1)
    rcases Diagram.interchange_cases (left := left) hd hr with ⟨d', h'⟩ | h'
    · rw [h'] at h; cases h
    · rw [h'] at h; cases h
  · intro h
    unfold Diagram.interchange
    rw [if_pos h]

end DV
