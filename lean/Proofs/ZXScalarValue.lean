/-
  Proofs/ZXScalarValue.lean — the dagger of a ZX scalar box in the executable model, for EVERY scalar
  value (C16).  The numeric TYPE of the Python datum is not modelled: a datum enters the model as its
  exact value; a Gaussian dyadic rational `(a + c·i)/2^e` is the `Cyc8` element `⟨a, 0, c, 0, e⟩`
  (`ζ² = i`).  zx.py:365 `Scalar(self.data.conjugate())`.
-/
import Model.Gates

namespace DV.Gates
open DV

/-- The Gaussian dyadic rational `(a + c·i)/2^e` as an element of ℤ[ζ₈]/2^e. -/
def gaussian (a c : Int) (e : Nat) : Cyc8 := ⟨a, 0, c, 0, e⟩

/-- The dagger of a scalar box conjugates its value: `(a + c·i)/2^e ↦ (a − c·i)/2^e`. -/
theorem scalar_dagger_gaussian (a c : Int) (e : Nat) :
    (ZXBox.scalar (gaussian a c e)).dagger = .scalar (gaussian a (-c) e) := by
  simp [ZXBox.dagger, Cyc8.conj, gaussian]

/-- … and returns the same box exactly for the real values. -/
theorem scalar_dagger_gaussian_fixed_iff (a c : Int) (e : Nat) :
    (ZXBox.scalar (gaussian a c e)).dagger = .scalar (gaussian a c e) ↔ c = 0 := by
  simp [ZXBox.dagger, Cyc8.conj, gaussian]
  omega

/-- `⟦scalar(s)†⟧ = ⟦scalar(s)⟧ᴴ` for every scalar value `s` of the model (normalised or not). -/
theorem scalar_dagger_sem (s : Cyc8) :
    (ZXBox.scalar s).dagger.sem.mat Cyc8.invSqrt2 = dagger ((ZXBox.scalar s).sem.mat Cyc8.invSqrt2) := by
  rfl

end DV.Gates
