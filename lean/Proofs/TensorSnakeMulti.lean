/-
  Proofs/TensorSnakeMulti.lean — the nested cups of `Tensor.cups(l, l[::-1])` are the Kronecker
  delta `a = reversed(b)` for EVERY dimension tuple `l` (closed form of the loop of rigid.cups),
  and both snake equations hold for multi-wire cups and caps.
-/
import Proofs.TensorCups

namespace DV
namespace Tensor
open NDArray

theorem inRange_reverse {s a : List Nat} (h : InRange s a) : InRange s.reverse a.reverse := by
  rw [inRange_iff_getD] at h ⊢
  obtain ⟨hl, hp⟩ := h
  refine ⟨by simp [hl], fun p hp' => ?_⟩
  have hp1 : p < s.length := by simpa using hp'
  have hp2 : p < a.length := by omega
  rw [getD_of_lt _ (by simpa using hp2), getD_of_lt _ hp', List.getElem_reverse,
    List.getElem_reverse]
  have := hp (s.length - 1 - p) (by omega)
  rw [getD_of_lt _ (by omega), getD_of_lt _ (by omega)] at this
  simp only [hl]
  exact this

section
variable {R : Type} [CommSemiring R]

/-- **Closed form of the nested cups**: `Tensor.cups(l, l[::-1])[a, b] = [a = reversed(b)]`. -/
theorem cups_entry (l : List Nat) :
    ∃ t, Tensor.cups (R := R) l l.reverse = .ok t ∧ t.WF ∧ t.dom = l ++ l.reverse ∧ t.cod = [] ∧
      ∀ a b, InRange l a → InRange l.reverse b →
        t.entry ((a ++ b) ++ []) = if a = b.reverse then 1 else 0 := by
  unfold Tensor.cups
  simp only [ne_eq, not_true_eq_false, false_and, if_false]
  apply cupsLoop_entry (R := R) l l.length 0 (Tensor.id (l ++ l.reverse)) (by omega) (id_wf _) rfl
    (by simp)
  intro a b a' b' ha hb ha' hb'
  have ha'' : InRange l a' := by simpa using ha'
  have hb'' : InRange l.reverse b' := by simpa using hb'
  rw [id_entry _ (inRange_append ha hb) (inRange_append ha'' hb'')]
  have hal : a.length = l.length := ha.length_eq
  have e1 : a.take l.length = a := by rw [← hal]; exact List.take_length
  have : a ++ b = a' ++ b' ↔ a = a' ∧ b = b' := by
    constructor
    · intro h; exact List.append_inj h (by rw [hal, ha''.length_eq])
    · rintro ⟨rfl, rfl⟩; rfl
  simp [e1, this, hal]

end

section
variable {R : Type} [CommSemiring R] [StarRing R]

theorem star_ite (p : Prop) [Decidable p] : star (if p then (1 : R) else 0) = if p then 1 else 0 := by
  split <;> simp

/-- Snake equation from the closed forms of a cup `C : A ⊗ B → 1` and a cup `C' : B ⊗ A → 1`
    with `B = A[::-1]`: `(id_A ⊗ C'†) ≫ (C ⊗ id_A) = id_A`. -/
theorem snake_of_closed (A B : List Nat) (hB : B = A.reverse) (C C' : Tensor R)
    (hC : C.WF) (hCd : C.dom = A ++ B) (hCc : C.cod = [])
    (hCe : ∀ a b, InRange A a → InRange B b → C.entry ((a ++ b) ++ []) = if a = b.reverse then 1 else 0)
    (hC' : C'.WF) (hCd' : C'.dom = B ++ A) (hCc' : C'.cod = [])
    (hCe' : ∀ b a, InRange B b → InRange A a →
      C'.entry ((b ++ a) ++ []) = if b = a.reverse then 1 else 0) :
    thenCore ((Tensor.id A).tensor C'.dagger) (C.tensor (Tensor.id A)) = Tensor.id A := by
  have hcap := dagger_wf _ hC'
  have hX := tensor_wf _ _ (id_wf (R := R) A) hcap
  have hY := tensor_wf _ _ hC (id_wf (R := R) A)
  have hXY : ((Tensor.id A).tensor C'.dagger).cod = (C.tensor (Tensor.id A)).dom := by
    simp [hCd, hCd', List.append_assoc]
  apply ext_entry (s := thenCore ((Tensor.id A).tensor C'.dagger) (C.tensor (Tensor.id A)))
    (t := Tensor.id A) (thenCore_wf _ _ hX hY hXY) (id_wf A) (by simp [hCc'])
    (by simp [hCc])
  intro w hw
  obtain ⟨x, z, rfl, hx, hz⟩ := split2 hw
  have hx' : InRange A x := by simpa [hCc'] using hx
  have hz' : InRange A z := by simpa [hCc] using hz
  rw [then_entry _ _ hX hY hXY hx hz, id_entry A hx' hz']
  have hcod : ((Tensor.id A).tensor C'.dagger).cod = A ++ (B ++ A) := by simp [hCd']
  rw [hcod, sumOver_append]
  -- Σ_a Σ_b Σ_c δ(x,a) [b = c.rev] [a = b.rev] δ(c,z)
  have key : ∀ a, InRange A a → ∀ b, InRange B b → ∀ c, InRange A c →
      ((Tensor.id A).tensor C'.dagger).entry (x ++ (a ++ (b ++ c)))
        * (C.tensor (Tensor.id A)).entry ((a ++ (b ++ c)) ++ z)
      = (if c = z then 1 else 0) * ((if x = a then 1 else 0)
          * ((if b = c.reverse then 1 else 0) * (if a = b.reverse then 1 else 0))) := by
    intro a ha b hb c hc
    have e1 := tensor_entry _ _ (id_wf (R := R) A) hcap (a := x) (b := a) (c := []) (d := b ++ c)
      hx' ha (by rw [dagger_dom, hCc']; trivial) (by rw [dagger_cod, hCd']; exact inRange_append hb hc)
    have e2 := tensor_entry _ _ hC (id_wf (R := R) A) (a := a ++ b) (b := []) (c := c) (d := z)
      (by rw [hCd]; exact inRange_append ha hb) (by rw [hCc]; trivial) hc hz'
    have d1 := dagger_entry C' hC' (i := b ++ c) (k := [])
      (by rw [hCd']; exact inRange_append hb hc) (by rw [hCc']; trivial)
    simp only [List.nil_append, List.append_nil, List.append_assoc] at e1 e2 d1 ⊢
    have c1 := hCe' b c hb hc
    have c2 := hCe a b ha hb
    simp only [List.append_nil] at c1 c2
    rw [e1, e2, d1, c1, c2, star_ite, id_entry A hx' ha, id_entry A hc hz']
    ring
  rw [sumOver_congr (g := fun a => (if x = a then 1 else 0) * (if a = z then 1 else 0))
    (fun a ha => ?_)]
  · rw [sumOver_delta hx']
  · rw [sumOver_append]
    rw [sumOver_congr (g := fun b => (if z.reverse = b then 1 else 0)
        * ((if x = a then 1 else 0) * (if a = b.reverse then 1 else 0))) (fun b hb => ?_)]
    · have hzr : InRange B z.reverse := by rw [hB]; exact inRange_reverse hz'
      rw [sumOver_delta hzr, List.reverse_reverse]
    · rw [sumOver_congr (g := fun c => (if z = c then 1 else 0) * ((if x = a then 1 else 0)
          * ((if b = c.reverse then 1 else 0) * (if a = b.reverse then 1 else 0))))
        (fun c hc => by rw [key a ha b hb c hc, ite_comm' c z])]
      rw [sumOver_delta hz', ite_comm' b z.reverse]
      ring

/-- **Both snake equations for multi-wire cups and caps** (every dimension tuple `l`):
    with `cup = cups(l, l[::-1])`, `cap = caps(l[::-1], l)`, `cup' = cups(l[::-1], l)`,
    `cap' = caps(l, l[::-1])`:
    `(id ⊗ cap) ≫ (cup ⊗ id) = id_l` and `(id ⊗ cap') ≫ (cup' ⊗ id) = id_{l[::-1]}`. -/
theorem snake_multi (l : List Nat) :
    ∃ cup cap : Tensor R, Tensor.cups l l.reverse = .ok cup ∧ Tensor.caps l.reverse l = .ok cap ∧
      thenCore ((Tensor.id l).tensor cap) (cup.tensor (Tensor.id l)) = Tensor.id l := by
  obtain ⟨cup, h1, hw, hd, hc, he⟩ := cups_entry (R := R) l
  obtain ⟨cup', h1', hw', hd', hc', he'⟩ := cups_entry (R := R) l.reverse
  rw [List.reverse_reverse] at h1' hd' he'
  refine ⟨cup, cup'.dagger, h1, ?_, ?_⟩
  · unfold Tensor.caps; rw [h1']
  · exact snake_of_closed l l.reverse rfl cup cup' hw hd hc he hw' hd' hc'
      (fun b a hb ha => he' b a hb (by simpa using ha))

/-- The mirrored snake equation from the closed forms: `(C† ⊗ id_A) ≫ (id_A ⊗ C') = id_A`. -/
theorem snake_of_closed' (A B : List Nat) (hB : B = A.reverse) (C C' : Tensor R)
    (hC : C.WF) (hCd : C.dom = A ++ B) (hCc : C.cod = [])
    (hCe : ∀ a b, InRange A a → InRange B b → C.entry ((a ++ b) ++ []) = if a = b.reverse then 1 else 0)
    (hC' : C'.WF) (hCd' : C'.dom = B ++ A) (hCc' : C'.cod = [])
    (hCe' : ∀ b a, InRange B b → InRange A a →
      C'.entry ((b ++ a) ++ []) = if b = a.reverse then 1 else 0) :
    thenCore (C.dagger.tensor (Tensor.id A)) ((Tensor.id A).tensor C') = Tensor.id A := by
  have hcap := dagger_wf _ hC
  have hX := tensor_wf _ _ hcap (id_wf (R := R) A)
  have hY := tensor_wf _ _ (id_wf (R := R) A) hC'
  have hXY : (C.dagger.tensor (Tensor.id A)).cod = ((Tensor.id A).tensor C').dom := by
    simp [hCd, hCd', List.append_assoc]
  apply ext_entry (s := thenCore (C.dagger.tensor (Tensor.id A)) ((Tensor.id A).tensor C'))
    (t := Tensor.id A) (thenCore_wf _ _ hX hY hXY) (id_wf A) (by simp [hCc])
    (by simp [hCc'])
  intro w hw
  obtain ⟨x, z, rfl, hx, hz⟩ := split2 hw
  have hx' : InRange A x := by simpa [hCc] using hx
  have hz' : InRange A z := by simpa [hCc'] using hz
  rw [then_entry _ _ hX hY hXY hx hz, id_entry A hx' hz']
  have hcod : (C.dagger.tensor (Tensor.id A)).cod = (A ++ B) ++ A := by simp [hCd]
  rw [hcod, sumOver_append, sumOver_append]
  have key : ∀ a, InRange A a → ∀ b, InRange B b → ∀ c, InRange A c →
      (C.dagger.tensor (Tensor.id A)).entry (x ++ ((a ++ b) ++ c))
        * ((Tensor.id A).tensor C').entry (((a ++ b) ++ c) ++ z)
      = (if x = c then 1 else 0) * ((if a = z then 1 else 0)
          * ((if a = b.reverse then 1 else 0) * (if b = c.reverse then 1 else 0))) := by
    intro a ha b hb c hc
    have e1 := tensor_entry _ _ hcap (id_wf (R := R) A) (a := []) (b := a ++ b) (c := x) (d := c)
      (by rw [dagger_dom, hCc]; trivial) (by rw [dagger_cod, hCd]; exact inRange_append ha hb) hx' hc
    have e2 := tensor_entry _ _ (id_wf (R := R) A) hC' (a := a) (b := z) (c := b ++ c) (d := [])
      ha hz' (by rw [hCd']; exact inRange_append hb hc) (by rw [hCc']; trivial)
    have d1 := dagger_entry C hC (i := a ++ b) (k := [])
      (by rw [hCd]; exact inRange_append ha hb) (by rw [hCc]; trivial)
    simp only [List.nil_append, List.append_nil, List.append_assoc] at e1 e2 d1 ⊢
    have c1 := hCe a b ha hb
    have c2 := hCe' b c hb hc
    simp only [List.append_nil] at c1 c2
    rw [e1, e2, d1, c1, c2, star_ite, id_entry A hx' hc, id_entry A ha hz']
    ring
  rw [sumOver_congr (g := fun a => (if z = a then 1 else 0) * (if x = a then 1 else 0))
    (fun a ha => ?_)]
  · rw [sumOver_delta hz', ite_comm' x z]
  · rw [sumOver_congr (g := fun b => (if x.reverse = b then 1 else 0)
        * ((if a = z then 1 else 0) * (if a = b.reverse then 1 else 0))) (fun b hb => ?_)]
    · have hxr : InRange B x.reverse := by rw [hB]; exact inRange_reverse hx'
      rw [sumOver_delta hxr, List.reverse_reverse, ite_comm' a z, ite_comm' a x]
    · rw [sumOver_congr (g := fun c => (if x = c then 1 else 0) * ((if a = z then 1 else 0)
          * ((if a = b.reverse then 1 else 0) * (if b = c.reverse then 1 else 0))))
        (fun c hc => key a ha b hb c hc)]
      rw [sumOver_delta hx', ite_comm' b x.reverse]
      ring

/-- The mirrored snake equation for multi-wire cups and caps:
    `(caps(l, l[::-1]) ⊗ id) ≫ (id ⊗ cups(l[::-1], l)) = id_l`. -/
theorem snake_multi' (l : List Nat) :
    ∃ cap' cup' : Tensor R, Tensor.caps l l.reverse = .ok cap' ∧
      Tensor.cups l.reverse l = .ok cup' ∧
      thenCore (cap'.tensor (Tensor.id l)) ((Tensor.id l).tensor cup') = Tensor.id l := by
  obtain ⟨cup, h1, hw, hd, hc, he⟩ := cups_entry (R := R) l
  obtain ⟨cup', h1', hw', hd', hc', he'⟩ := cups_entry (R := R) l.reverse
  rw [List.reverse_reverse] at h1' hd' he'
  refine ⟨cup.dagger, cup', ?_, h1', ?_⟩
  · unfold Tensor.caps; rw [h1]
  · exact snake_of_closed' l l.reverse rfl cup cup' hw hd hc he hw' hd' hc'
      (fun b a hb ha => he' b a hb (by simpa using ha))

end
end Tensor
end DV
