/-
  Proofs/Cyc8Ring.lean — the exact arithmetic of Model/Cyc8.lean IS arithmetic in the ring ℤ[ζ₈][1/2].

  `Q8` = ℚ(ζ₈) = ℚ[ζ]/(ζ⁴ + 1) as four rational coordinates: a commutative star ring (`ring` closes the
  axioms coordinatewise).  `val : Cyc8 → Q8`, `(a + bζ + cζ² + dζ³)/2^e`, is
    * a homomorphism for the model's own `+ * − conj 0 1` (including the zero/one shortcuts and the
      normalisation `norm` inside `add` and `mul`) — on ALL values, normalised or not;
    * injective on NORMALISED values (`e = 0` or one coefficient odd) — `val_inj`;
  and every operation returns a normalised value when its arguments are (`isNormal_add`, …).
  Consequently any identity between expressions in normalised values that holds in a commutative ring
  holds for the structural equality of `Cyc8` — this is how Proofs/CircuitCyc8.lean transfers the
  whole-circuit theorems of Proofs/CircuitAlg.lean to the executable model.
-/
import Mathlib.Algebra.Ring.MinimalAxioms
import Mathlib.Algebra.Star.Basic
import Mathlib.Algebra.Order.Field.Rat
import Mathlib.Tactic.Ring
import Mathlib.Tactic.FieldSimp
import Mathlib.Tactic.Linarith
import Model.Gates

namespace DV

/-- ℚ(ζ₈): `a + bζ + cζ² + dζ³`, `ζ⁴ = −1`. -/
structure Q8 where
  a : ℚ
  b : ℚ
  c : ℚ
  d : ℚ

namespace Q8

@[ext] theorem ext {x y : Q8} (h1 : x.a = y.a) (h2 : x.b = y.b) (h3 : x.c = y.c) (h4 : x.d = y.d) :
    x = y := by
  cases x; cases y; simp_all

instance : Zero Q8 := ⟨⟨0, 0, 0, 0⟩⟩
instance : One Q8 := ⟨⟨1, 0, 0, 0⟩⟩
instance : Add Q8 := ⟨fun x y => ⟨x.a + y.a, x.b + y.b, x.c + y.c, x.d + y.d⟩⟩
instance : Neg Q8 := ⟨fun x => ⟨-x.a, -x.b, -x.c, -x.d⟩⟩
instance : Mul Q8 := ⟨fun x y =>
  ⟨x.a * y.a - x.b * y.d - x.c * y.c - x.d * y.b,
   x.a * y.b + x.b * y.a - x.c * y.d - x.d * y.c,
   x.a * y.c + x.b * y.b + x.c * y.a - x.d * y.d,
   x.a * y.d + x.b * y.c + x.c * y.b + x.d * y.a⟩⟩

@[simp] theorem zero_a : (0 : Q8).a = 0 := rfl
@[simp] theorem zero_b : (0 : Q8).b = 0 := rfl
@[simp] theorem zero_c : (0 : Q8).c = 0 := rfl
@[simp] theorem zero_d : (0 : Q8).d = 0 := rfl
@[simp] theorem one_a : (1 : Q8).a = 1 := rfl
@[simp] theorem one_b : (1 : Q8).b = 0 := rfl
@[simp] theorem one_c : (1 : Q8).c = 0 := rfl
@[simp] theorem one_d : (1 : Q8).d = 0 := rfl
@[simp] theorem add_a (x y : Q8) : (x + y).a = x.a + y.a := rfl
@[simp] theorem add_b (x y : Q8) : (x + y).b = x.b + y.b := rfl
@[simp] theorem add_c (x y : Q8) : (x + y).c = x.c + y.c := rfl
@[simp] theorem add_d (x y : Q8) : (x + y).d = x.d + y.d := rfl
@[simp] theorem neg_a (x : Q8) : (-x).a = -x.a := rfl
@[simp] theorem neg_b (x : Q8) : (-x).b = -x.b := rfl
@[simp] theorem neg_c (x : Q8) : (-x).c = -x.c := rfl
@[simp] theorem neg_d (x : Q8) : (-x).d = -x.d := rfl
@[simp] theorem mul_a (x y : Q8) : (x * y).a = x.a * y.a - x.b * y.d - x.c * y.c - x.d * y.b := rfl
@[simp] theorem mul_b (x y : Q8) : (x * y).b = x.a * y.b + x.b * y.a - x.c * y.d - x.d * y.c := rfl
@[simp] theorem mul_c (x y : Q8) : (x * y).c = x.a * y.c + x.b * y.b + x.c * y.a - x.d * y.d := rfl
@[simp] theorem mul_d (x y : Q8) : (x * y).d = x.a * y.d + x.b * y.c + x.c * y.b + x.d * y.a := rfl

instance : CommRing Q8 :=
  CommRing.ofMinimalAxioms
    (by intros; ext <;> simp <;> ring)
    (by intros; ext <;> simp)
    (by intros; ext <;> simp)
    (by intros; ext <;> simp <;> ring)
    (by intros; ext <;> simp <;> ring)
    (by intros; ext <;> simp)
    (by intros; ext <;> simp <;> ring)

/-- Complex conjugation: `ζ ↦ ζ⁻¹ = −ζ³`. -/
def conj (x : Q8) : Q8 := ⟨x.a, -x.d, -x.c, -x.b⟩

instance : StarRing Q8 where
  star := conj
  star_involutive x := by ext <;> simp [conj]
  star_mul x y := by ext <;> simp [conj] <;> ring
  star_add x y := by ext <;> simp [conj] <;> ring

theorem star_def (x : Q8) : star x = conj x := rfl

instance : Nontrivial Q8 := ⟨⟨0, 1, by intro h; have := congrArg Q8.a h; simp at this⟩⟩

end Q8

namespace Cyc8

/-- The number a value stands for. -/
def val (x : Cyc8) : Q8 :=
  ⟨(x.a : ℚ) / 2 ^ x.e, (x.b : ℚ) / 2 ^ x.e, (x.c : ℚ) / 2 ^ x.e, (x.d : ℚ) / 2 ^ x.e⟩

/-- Normalised: the exponent is minimal. -/
def isNormal (x : Cyc8) : Bool := x.e == 0 || !allEven x.a x.b x.c x.d

theorem allEven_iff (a b c d : Int) :
    allEven a b c d = true ↔ a % 2 = 0 ∧ b % 2 = 0 ∧ c % 2 = 0 ∧ d % 2 = 0 := by
  simp [allEven, and_assoc]

theorem cast_half {a : Int} (h : a % 2 = 0) : ((a / 2 : Int) : ℚ) = (a : ℚ) / 2 := by
  have : a = 2 * (a / 2) := by omega
  rw [eq_div_iff (by norm_num)]
  exact_mod_cast (by omega : a / 2 * 2 = a)

theorem val_norm (a b c d : Int) (e : Nat) :
    val (norm a b c d e) =
      ⟨(a : ℚ) / 2 ^ e, (b : ℚ) / 2 ^ e, (c : ℚ) / 2 ^ e, (d : ℚ) / 2 ^ e⟩ := by
  induction e generalizing a b c d with
  | zero => rfl
  | succ e ih =>
    unfold norm
    split
    · rename_i h
      obtain ⟨ha, hb, hc, hd⟩ := (allEven_iff a b c d).1 h
      rw [ih, cast_half ha, cast_half hb, cast_half hc, cast_half hd]
      simp only [pow_succ, div_div]
      congr 1 <;> ring
    · rfl

theorem isNormal_norm (a b c d : Int) (e : Nat) : isNormal (norm a b c d e) = true := by
  induction e generalizing a b c d with
  | zero => rfl
  | succ e ih =>
    unfold norm
    split
    · exact ih _ _ _ _
    · rename_i h; simp [isNormal, h]

theorem val_zero : val 0 = 0 := by
  show val zero = 0
  ext <;> simp [val, zero, ofInt]

theorem val_one : val 1 = 1 := by
  show val one = 1
  ext <;> simp [val, one, ofInt]

theorem val_of_isZero {x : Cyc8} (h : x.isZero = true) : val x = 0 := by
  simp only [isZero, Bool.and_eq_true, beq_iff_eq] at h
  obtain ⟨⟨⟨ha, hb⟩, hc⟩, hd⟩ := h
  ext <;> simp [val, ha, hb, hc, hd]

theorem val_of_isOne {x : Cyc8} (h : x.isOne = true) : val x = 1 := by
  simp only [isOne, Bool.and_eq_true, beq_iff_eq] at h
  obtain ⟨⟨⟨⟨ha, hb⟩, hc⟩, hd⟩, he⟩ := h
  ext <;> simp [val, ha, hb, hc, hd, he]

theorem two_pow_sub {e e' : Nat} (h : e ≤ e') : ((2 : ℚ) ^ (e' - e)) = 2 ^ e' / 2 ^ e := by
  rw [pow_sub₀ _ (by norm_num) h, div_eq_mul_inv]

theorem val_add (x y : Cyc8) : val (x + y) = val x + val y := by
  show val (add x y) = _
  unfold add
  split
  · rename_i h; rw [val_of_isZero h, zero_add]
  split
  · rename_i h; rw [val_of_isZero h, add_zero]
  have hx : (2 : ℚ) ^ x.e ≠ 0 := by positivity
  have hy : (2 : ℚ) ^ y.e ≠ 0 := by positivity
  split
  · rename_i h
    rw [val_norm]
    ext <;> simp only [val, Q8.add_a, Q8.add_b, Q8.add_c, Q8.add_d] <;> push_cast <;>
      rw [two_pow_sub h] <;> field_simp
  · rename_i h
    have h : y.e ≤ x.e := by omega
    rw [val_norm]
    ext <;> simp only [val, Q8.add_a, Q8.add_b, Q8.add_c, Q8.add_d] <;> push_cast <;>
      rw [two_pow_sub h] <;> field_simp

theorem val_neg (x : Cyc8) : val (-x) = -val x := by
  show val (neg x) = _
  ext <;> simp [val, neg] <;> ring

theorem val_sub (x y : Cyc8) : val (x - y) = val x - val y := by
  show val (add x (neg y)) = _
  rw [show add x (neg y) = x + -y from rfl, val_add, val_neg]; ring

theorem val_mul (x y : Cyc8) : val (x * y) = val x * val y := by
  show val (mul x y) = _
  unfold mul
  split
  · rename_i h
    simp only [Bool.or_eq_true] at h
    rcases h with h | h
    · rw [val_of_isZero h, zero_mul]; exact val_zero
    · rw [val_of_isZero h, mul_zero]; exact val_zero
  split
  · rename_i h; rw [val_of_isOne h, one_mul]
  split
  · rename_i h; rw [val_of_isOne h, mul_one]
  rw [val_norm]
  have hx : (2 : ℚ) ^ x.e ≠ 0 := by positivity
  have hy : (2 : ℚ) ^ y.e ≠ 0 := by positivity
  ext <;> simp only [val, Q8.mul_a, Q8.mul_b, Q8.mul_c, Q8.mul_d] <;> push_cast <;>
    rw [pow_add] <;> field_simp

theorem val_conj (x : Cyc8) : val x.conj = star (val x) := by
  ext <;> simp [val, conj, Q8.star_def, Q8.conj] <;> ring

/-! ### normal forms are preserved -/

theorem isNormal_zero : isNormal 0 = true := rfl
theorem isNormal_one : isNormal 1 = true := rfl

theorem isNormal_add {x y : Cyc8} (hx : isNormal x = true) (hy : isNormal y = true) :
    isNormal (x + y) = true := by
  show isNormal (add x y) = true
  unfold add
  split; · exact hy
  split; · exact hx
  split <;> exact isNormal_norm _ _ _ _ _

theorem isNormal_mul {x y : Cyc8} (hx : isNormal x = true) (hy : isNormal y = true) :
    isNormal (x * y) = true := by
  show isNormal (mul x y) = true
  unfold mul
  split; · rfl
  split; · exact hy
  split; · exact hx
  exact isNormal_norm _ _ _ _ _

theorem allEven_neg (a b c d : Int) : allEven (-a) (-b) (-c) (-d) = allEven a b c d := by
  simp only [allEven, Int.neg_emod_two]

theorem isNormal_neg {x : Cyc8} (hx : isNormal x = true) : isNormal (-x) = true := by
  show isNormal (neg x) = true
  simp only [isNormal, neg, allEven_neg] at hx ⊢
  exact hx

theorem isNormal_sub {x y : Cyc8} (hx : isNormal x = true) (hy : isNormal y = true) :
    isNormal (x - y) = true := isNormal_add hx (isNormal_neg hy)

theorem isNormal_conj {x : Cyc8} (hx : isNormal x = true) : isNormal x.conj = true := by
  simp only [isNormal, conj, allEven, Int.neg_emod_two] at hx ⊢
  revert hx
  cases x.e == 0 <;> cases x.a % 2 == 0 <;> cases x.b % 2 == 0 <;> cases x.c % 2 == 0 <;>
    cases x.d % 2 == 0 <;> simp

/-! ### `val` is injective on normal forms -/

theorem cast_eq_of_div_eq {a a' : Int} {e e' : Nat} (h : e ≤ e')
    (hv : (a : ℚ) / 2 ^ e = (a' : ℚ) / 2 ^ e') : a' = a * 2 ^ (e' - e) := by
  have hx : (2 : ℚ) ^ e ≠ 0 := by positivity
  have hy : (2 : ℚ) ^ e' ≠ 0 := by positivity
  have : (a' : ℚ) = (a : ℚ) * 2 ^ (e' - e) := by
    rw [two_pow_sub h]; field_simp; rw [div_eq_div_iff hx hy] at hv; linarith
  exact_mod_cast this

theorem val_inj_aux {x y : Cyc8} (hy : isNormal y = true) (h : val x = val y) (hle : x.e ≤ y.e) :
    x = y := by
  have ha := cast_eq_of_div_eq hle (congrArg Q8.a h)
  have hb := cast_eq_of_div_eq hle (congrArg Q8.b h)
  have hc := cast_eq_of_div_eq hle (congrArg Q8.c h)
  have hd := cast_eq_of_div_eq hle (congrArg Q8.d h)
  rcases Nat.eq_or_lt_of_le hle with he | hlt
  · rw [← he] at ha hb hc hd
    simp only [Nat.sub_self, pow_zero, mul_one] at ha hb hc hd
    cases x; cases y; simp_all
  · exfalso
    obtain ⟨k, hk⟩ : ∃ k, y.e - x.e = k + 1 := ⟨y.e - x.e - 1, by omega⟩
    rw [hk, pow_succ] at ha hb hc hd
    have e1 : y.a % 2 = 0 := by rw [ha, ← mul_assoc]; exact Int.mul_emod_left _ _
    have e2 : y.b % 2 = 0 := by rw [hb, ← mul_assoc]; exact Int.mul_emod_left _ _
    have e3 : y.c % 2 = 0 := by rw [hc, ← mul_assoc]; exact Int.mul_emod_left _ _
    have e4 : y.d % 2 = 0 := by rw [hd, ← mul_assoc]; exact Int.mul_emod_left _ _
    have : allEven y.a y.b y.c y.d = true := (allEven_iff _ _ _ _).2 ⟨e1, e2, e3, e4⟩
    have hne : y.e ≠ 0 := by omega
    simp [isNormal, this, hne] at hy

/-- **Two normalised values that denote the same number are equal.** -/
theorem val_inj {x y : Cyc8} (hx : isNormal x = true) (hy : isNormal y = true) (h : val x = val y) :
    x = y := by
  rcases Nat.le_total x.e y.e with hle | hle
  · exact val_inj_aux hy h hle
  · exact (val_inj_aux hx h.symm hle).symm

theorem val_ne_zero_of_unit {x y : Cyc8} (h : val x * val y = 1) : x ≠ 0 := by
  rintro rfl
  rw [val_zero, zero_mul] at h
  exact zero_ne_one h

/-! ### the constants of the gate layer are normalised -/

theorem isNormal_zetaPowNat : ∀ k, isNormal (zetaPowNat k) = true
  | 0 => rfl
  | k + 1 => isNormal_mul (x := zeta) rfl (isNormal_zetaPowNat k)

theorem isNormal_zetaPow (k : Int) : isNormal (zetaPow k) = true := isNormal_zetaPowNat _

theorem isNormal_invSqrt2Pow : ∀ k, isNormal (invSqrt2Pow k) = true
  | 0 => rfl
  | k + 1 => isNormal_mul (x := invSqrt2) rfl (isNormal_invSqrt2Pow k)

end Cyc8
end DV
