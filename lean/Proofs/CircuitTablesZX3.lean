/-
  Proofs/CircuitTablesZX3.lean — the `Gate.zxOK` table for kets and bras, and the combined statement.
  (Split to keep each file under 30 s.)
-/
import Proofs.CircuitTablesZX2

namespace DV.Gates
open DV

theorem zxTableC_ok : ∀ p ∈ zxTableC, p.1.zxOK p.2 (zxInv p.2) = true := by decide +kernel

/-- `⟦gate2zx g⟧ = k g • ⟦g⟧` with an invertible `k g`, well typed, for every gate of the translated set. -/
theorem zxTable_ok : ∀ p ∈ zxTable, p.1.zxOK p.2 (zxInv p.2) = true := by
  intro p hp
  simp only [zxTable, List.mem_append] at hp
  rcases hp with (h | h) | h
  · exact zxTableA_ok p h
  · exact zxTableB_ok p h
  · exact zxTableC_ok p h

end DV.Gates
