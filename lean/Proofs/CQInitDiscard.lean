import Proofs.CQ
import Proofs.CQCounts

/-!
# `init_and_discard()` of a well-typed circuit of listed boxes is a normalised distribution

circuit.py:175-188 puts `Bits(0)`/`Ket(0)` on every input wire and `Discard` on every output qubit.
On the model: the prepared-and-discarded circuit is again well typed (`WT`), its extra boxes are
listed (a basis state is a stochastic row / an isometry; `Discard`), so by `trace_preserving` the
mixed evaluation succeeds, is trace preserving, has no input and only bits on its output.
-/

namespace DV.CQ

variable {R : Type} [CommRing R] [StarRing R]

theorem WT_append (xs ys : List (Nat × LBox R)) : ∀ (scan : WTy),
    WT scan (xs ++ ys) ↔ WT scan xs ∧ WT (finalScan scan xs) ys := by
  induction xs with
  | nil => intro scan; simp [WT, finalScan]
  | cons x xs ih =>
    intro scan
    obtain ⟨off, b⟩ := x
    simp only [List.cons_append, WT, finalScan, ih, and_assoc]

theorem finalScan_append (xs ys : List (Nat × LBox R)) : ∀ (scan : WTy),
    finalScan scan (xs ++ ys) = finalScan (finalScan scan xs) ys := by
  induction xs with
  | nil => intro scan; rfl
  | cons x xs ih => intro scan; obtain ⟨off, b⟩ := x; simp only [List.cons_append, finalScan, ih]

/-- Every wire is a bit or a qubit of dimension 2 (what `init_and_discard` is written for). -/
def Dim2 (t : WTy) : Prop := ∀ w ∈ t, w = .bit 2 ∨ w = .qubit 2

theorem initBox_cod (w : Wire) (h : w = .bit 2 ∨ w = .qubit 2) :
    (initBox w : LBox R).cod = [w] ∧ (initBox w : LBox R).dom = [] := by
  rcases h with rfl | rfl <;> exact ⟨rfl, rfl⟩

/-- The preparation layer: on top of the wires `pre`, one basis state per wire of `t`. -/
theorem inits_WT (t : WTy) : ∀ (pre : WTy), Dim2 t →
    WT pre (inits (R := R) pre.length t) ∧ finalScan pre (inits (R := R) pre.length t) = pre ++ t := by
  induction t with
  | nil => intro pre _; simp [inits, WT, finalScan]
  | cons w ws ih =>
    intro pre h
    obtain ⟨hc, hd⟩ := initBox_cod (R := R) w (h w List.mem_cons_self)
    have hstep : scanStep pre pre.length (initBox w : LBox R) = pre ++ [w] := by
      simp [scanStep, hc, hd]
    have := ih (pre ++ [w]) (fun x hx => h x (List.mem_cons_of_mem _ hx))
    simp only [List.length_append, List.length_cons, List.length_nil, Nat.zero_add] at this
    simp only [inits, WT, finalScan, hstep, hd, List.length_nil, List.take_zero, true_and]
    exact ⟨this.1, by rw [this.2]; simp⟩

def bitsOf (t : WTy) : WTy := t.filter isBitWire

/-- The discarding layer: below the wires `pre ++ t`, one `Discard` per qubit of `t`. -/
theorem discards_WT (t : WTy) : ∀ (pre : WTy), Dim2 t →
    WT (pre ++ t) (discards (R := R) pre.length t) ∧
    finalScan (pre ++ t) (discards (R := R) pre.length t) = pre ++ bitsOf t := by
  induction t with
  | nil => intro pre _; simp [discards, WT, finalScan, bitsOf]
  | cons w ws ih =>
    intro pre h
    have hws : Dim2 ws := fun x hx => h x (List.mem_cons_of_mem _ hx)
    rcases h w List.mem_cons_self with rfl | rfl
    · have := ih (pre ++ [.bit 2]) hws
      simp only [List.length_append, List.length_cons, List.length_nil, Nat.zero_add,
        List.append_assoc, List.cons_append, List.nil_append] at this
      simp only [discards, bitsOf, List.filter_cons, isBitWire, if_true]
      exact this
    · have := ih pre hws
      have hstep : scanStep (pre ++ Wire.qubit 2 :: ws) pre.length
          (⟨false, .discard [.qubit 2]⟩ : LBox R) = pre ++ ws := by
        simp [scanStep, LBox.cod, LBox.dom, CBox.cod, CBox.dom]
      simp only [discards, WT, finalScan, hstep, bitsOf, List.filter_cons, isBitWire,
        Bool.false_eq_true, if_false]
      refine ⟨⟨?_, this.1⟩, this.2⟩
      simp [LBox.dom, CBox.dom]

theorem discards_bits (n : Nat) : ∀ k, discards (R := R) k (bits n) = [] := by
  induction n with
  | zero => intro k; rfl
  | succ n ih => intro k; show discards k (Wire.bit 2 :: bits n) = []; simp only [discards, ih]

/-- The two `if`s of circuit.py:175-188 only skip empty layers. -/
theorem initAndDiscard_boxes (c : Circuit R) :
    c.initAndDiscard = ⟨[], inits 0 c.dom ++ c.boxes ++ discards 0 c.cod⟩ := by
  unfold Circuit.initAndDiscard
  congr 2
  · congr 1
    split
    · rename_i h; rw [h]; rfl
    · rfl
  · split
    · rename_i h; rw [h]
      exact (discards_bits _ 0).symm
    · rfl

theorem basis0_isometry : (basis0 : Mat R).Isometry := by
  refine ⟨rfl, rfl, ?_⟩
  intro i j hi hj
  have hi0 : i = 0 := by simp only [Mat.comp, basis0] at hi; omega
  have hj0 : j = 0 := by simp only [Mat.comp, basis0, Mat.dagger] at hj; omega
  subst hi0 hj0
  simp [Mat.comp, Mat.dagger, Mat.id, basis0, sumN, iv]

theorem initBox_listed (w : Wire) : (initBox w : LBox R).Listed := by
  cases w with
  | bit d =>
    refine .plain _ (.stochastic [] [.bit 2] basis0 rfl ?_ ?_)
    · simp [F, CQTy.tensor, CQTy.Q, CQTy.unit, Wire.qdim, prodL]
    · intro i _
      simp [F, CQTy.tensor, CQTy.C, CQTy.unit, Wire.cdim, prodL, sumN, basis0, iv]
  | qubit d =>
    refine .plain _ (.isometry [] [.qubit 2] basis0 rfl ?_ rfl ?_ basis0_isometry)
    · simp [F, CQTy.tensor, CQTy.unit, Wire.cdim]
    · simp [F, CQTy.tensor, CQTy.Q, CQTy.unit, Wire.qdim, prodL, basis0]

theorem inits_listed (t : WTy) : ∀ k, ∀ ob ∈ inits (R := R) k t, ob.2.Listed := by
  induction t with
  | nil => intro k ob h; simp [inits] at h
  | cons w ws ih =>
    intro k ob h
    simp only [inits, List.mem_cons] at h
    rcases h with rfl | h
    · exact initBox_listed w
    · exact ih _ ob h

theorem discards_listed (t : WTy) : ∀ k, ∀ ob ∈ discards (R := R) k t, ob.2.Listed := by
  induction t with
  | nil => intro k ob h; simp [discards] at h
  | cons w ws ih =>
    intro k ob h
    cases w with
    | bit d => simp only [discards] at h; exact ih _ ob h
    | qubit d =>
      simp only [discards, List.mem_cons] at h
      rcases h with rfl | h
      · exact .plain _ (.discard _)
      · exact ih _ ob h

theorem F_bitsOf_Q (t : WTy) : (F (bitsOf t)).Q = 1 := by
  induction t with
  | nil => rfl
  | cons w ws ih =>
    cases w with
    | bit d =>
      simp only [bitsOf, List.filter_cons, isBitWire, if_true] at ih ⊢
      simp only [F, CQTy.tensor, CQTy.Q, Wire.qdim, List.nil_append] at ih ⊢
      exact ih
    | qubit d =>
      simp only [bitsOf, List.filter_cons, isBitWire, Bool.false_eq_true, if_false] at ih ⊢
      exact ih

/-- **`init_and_discard()` is a normalised distribution**: for a well-typed circuit of listed boxes
    on bits and qubits, the prepared-and-discarded circuit evaluates (mixed) to a trace-preserving
    map without input and with only the circuit's output bits as output, and its entries sum
    to one. -/
theorem Circuit.initAndDiscard_distribution (c : Circuit R) (hWT : WT c.dom c.boxes)
    (hb : ∀ ob ∈ c.boxes, ob.2.Listed) (hd : Dim2 c.dom) (hc : Dim2 c.cod) :
    ∃ m, c.initAndDiscard.evalMixed = .ok m ∧ m.TP ∧ m.dom = .unit ∧
      m.cod = F (bitsOf c.cod) ∧ sumN m.cod.C (fun x => m.f 0 0 0 x 0 0) = 1 := by
  have hi := inits_WT (R := R) c.dom [] hd
  have hdd := discards_WT (R := R) c.cod [] hc
  simp only [List.length_nil, List.nil_append] at hi hdd
  have hfin : finalScan ([] : WTy) (inits 0 c.dom ++ c.boxes) = c.cod := by
    rw [finalScan_append, hi.2]; rfl
  have hWT' : WT (R := R) [] (inits 0 c.dom ++ c.boxes ++ discards 0 c.cod) := by
    rw [WT_append, WT_append, hfin, hi.2]
    exact ⟨⟨hi.1, hWT⟩, hdd.1⟩
  have hl : ∀ ob ∈ inits 0 c.dom ++ c.boxes ++ discards 0 c.cod, ob.2.box.Typed ∧ ob.2.eval.TP := by
    intro ob h
    simp only [List.mem_append] at h
    have : ob.2.Listed := by
      rcases h with (h | h) | h
      · exact inits_listed _ _ ob h
      · exact hb ob h
      · exact discards_listed _ _ ob h
    exact ⟨this.typed, this.tp⟩
  obtain ⟨m, h1, h2, h3, h4⟩ :=
    Circuit.evalMixed_TP ⟨[], inits 0 c.dom ++ c.boxes ++ discards 0 c.cod⟩ hWT' hl
  have h3 : m.dom = CQTy.unit := h3
  have hcod : m.cod = F (bitsOf c.cod) := by
    rw [h4]
    show F (finalScan [] (inits 0 c.dom ++ c.boxes ++ discards 0 c.cod)) = _
    rw [finalScan_append, hfin, hdd.2]
  refine ⟨m, by rw [initAndDiscard_boxes]; exact h1, h2, h3, hcod, ?_⟩
  have hQ : m.cod.Q = 1 := by rw [hcod]; exact F_bitsOf_Q _
  have := (CQMap.TP_iff m).mp h2 0 0 0 (by rw [h3]; decide) (by rw [h3]; decide) (by rw [h3]; decide)
  rw [hQ] at this
  simpa [sum3, sumN_succ] using this

end DV.CQ
