/-
  Proofs/Nx2Diagram.lean — what `nx2diagram` computes on a graph whose edges are, box by box,
  "wire → dom port → box → cod port": it walks the open wires exactly as the graph was built and
  returns the diagram with these boxes at the positions of their first input wires.
  Independent of where the graph comes from (`diagramize`: Proofs/Diagramize.lean; `diagram2nx`:
  Proofs/Nx2Roundtrip.lean).
-/
import Model.Diagramize
import Proofs.WFOps

namespace DV.Dz
open DV

/-! ### Wires -/

/-- An open wire at depth `k`: a parameter or an output port of an earlier box. -/
def GNode.OpenAt (k : Nat) : GNode → Prop
  | .input _ _ => True
  | .cod _ _ d => d < k
  | _ => False

theorem GNode.OpenAt.mono {k k' : Nat} {v : GNode} (h : v.OpenAt k) (hk : k ≤ k') : v.OpenAt k' := by
  cases v <;> simp_all [GNode.OpenAt] <;> omega

theorem GNode.OpenAt.notBox {k : Nat} {v : GNode} (h : v.OpenAt k) : v.isBox = false := by
  cases v <;> simp_all [GNode.OpenAt, GNode.isBox]

theorem codNodes_length (cod : Ty) (k : Nat) : (codNodes cod k).length = cod.length := by
  simp [codNodes]

theorem codNodes_getElem? (cod : Ty) (k i : Nat) :
    (codNodes cod k)[i]? = cod[i]?.map (fun o => GNode.cod o i k) := by
  simp [codNodes, List.getElem?_mapIdx]

theorem mem_codNodes {cod : Ty} {k : Nat} {v : GNode} (h : v ∈ codNodes cod k) :
    ∃ o i, v = .cod o i k ∧ cod[i]? = some o := by
  obtain ⟨i, hi, e⟩ := List.mem_mapIdx.mp h
  exact ⟨cod[i], i, e.symm, by simp⟩

theorem codNodes_obj (cod : Ty) (k : Nat) : (codNodes cod k).map GNode.obj? = cod.map some := by
  apply List.ext_getElem?
  intro i
  simp only [List.getElem?_map, codNodes_getElem?]
  cases cod[i]? <;> simp [GNode.obj?]

theorem codNodes_nodup (cod : Ty) (k : Nat) : (codNodes cod k).Nodup := by
  rw [List.Nodup, List.pairwise_iff_getElem]
  intro i j hi hj hij e
  have h1 := codNodes_getElem? cod k i
  have h2 := codNodes_getElem? cod k j
  rw [List.getElem?_eq_getElem hi] at h1
  rw [List.getElem?_eq_getElem hj] at h2
  rw [codNodes_length] at hi hj
  rw [List.getElem?_eq_getElem hi] at h1
  rw [List.getElem?_eq_getElem hj] at h2
  simp only [Option.map_some, Option.some.injEq] at h1 h2
  rw [h1, h2] at e
  injection e with _ e2 _
  omega

theorem inputNodes_length (dom : Ty) : (inputNodes dom).length = dom.length := by
  simp [inputNodes]

theorem inputNodes_getElem? (dom : Ty) (i : Nat) :
    (inputNodes dom)[i]? = dom[i]?.map (fun o => GNode.input o i) := by
  simp [inputNodes, List.getElem?_mapIdx]

theorem inputNodes_obj (dom : Ty) : (inputNodes dom).map GNode.obj? = dom.map some := by
  apply List.ext_getElem?
  intro i
  simp only [List.getElem?_map, inputNodes_getElem?]
  cases dom[i]? <;> simp [GNode.obj?]

theorem inputNodes_nodup (dom : Ty) : (inputNodes dom).Nodup := by
  rw [List.Nodup, List.pairwise_iff_getElem]
  intro i j hi hj hij e
  have h1 := inputNodes_getElem? dom i
  have h2 := inputNodes_getElem? dom j
  rw [List.getElem?_eq_getElem hi] at h1
  rw [List.getElem?_eq_getElem hj] at h2
  rw [inputNodes_length] at hi hj
  rw [List.getElem?_eq_getElem hi] at h1
  rw [List.getElem?_eq_getElem hj] at h2
  simp only [Option.map_some, Option.some.injEq] at h1 h2
  rw [h1, h2] at e
  injection e with _ e2
  omega

theorem inputNodes_open (dom : Ty) : ∀ v ∈ inputNodes dom, GNode.OpenAt 0 v := by
  intro v hv
  obtain ⟨i, hi, e⟩ := List.mem_mapIdx.mp hv
  subst e; trivial

theorem filterMap_obj_of_map {l : List GNode} {t : Ty} (h : l.map GNode.obj? = t.map some) :
    l.filterMap GNode.obj? = t := by
  induction l generalizing t with
  | nil => cases t <;> simp_all
  | cons a l ih =>
    cases t with
    | nil => simp at h
    | cons o t =>
      simp only [List.map_cons, List.cons.injEq] at h
      simp [h.1, ih h.2]

theorem map_some_inj {l l' : List Ob} (h : l.map some = l'.map some) : l = l' :=
  (List.map_inj_right (fun _ _ h => Option.some.inj h)).mp h

/-! ### `nextOpen` keeps the open wires distinct -/

theorem nextOpen_nodup {scan : List GNode} {k : Nat} (hn : scan.Nodup)
    (ho : ∀ v ∈ scan, GNode.OpenAt k v) (off m : Nat) (cod : Ty) :
    (nextOpen scan off m cod k).Nodup := by
  unfold nextOpen
  have hsub : (scan.take off ++ scan.drop (off + m)).Nodup := by
    have : List.Sublist (scan.take off ++ scan.drop (off + m)) scan := by
      have h1 : List.Sublist (scan.drop (off + m)) (scan.drop off) := by
        rw [← List.drop_drop]; exact List.drop_sublist _ _
      have := List.Sublist.append (List.Sublist.refl (scan.take off)) h1
      rwa [List.take_append_drop] at this
    exact List.Nodup.sublist this hn
  rw [List.nodup_append] at hsub
  rw [List.append_assoc, List.nodup_append, List.nodup_append]
  refine ⟨hsub.1, ⟨codNodes_nodup _ _, hsub.2.1, ?_⟩, ?_⟩
  · intro a ha b hb e
    obtain ⟨o, i, rfl, -⟩ := mem_codNodes ha
    have := ho _ (List.mem_of_mem_drop hb)
    rw [← e] at this
    simp [GNode.OpenAt] at this
  · intro a ha b hb e
    rcases List.mem_append.mp hb with hb | hb
    · obtain ⟨o, i, rfl, -⟩ := mem_codNodes hb
      have := ho _ (List.mem_of_mem_take ha)
      rw [e] at this
      simp [GNode.OpenAt] at this
    · exact hsub.2.2 a ha b hb e

theorem nextOpen_open {scan : List GNode} {k : Nat} (ho : ∀ v ∈ scan, GNode.OpenAt k v)
    (off m : Nat) (cod : Ty) : ∀ v ∈ nextOpen scan off m cod k, GNode.OpenAt (k + 1) v := by
  intro v hv
  unfold nextOpen at hv
  rcases List.mem_append.mp hv with hv | hv
  · rcases List.mem_append.mp hv with hv | hv
    · exact (ho _ (List.mem_of_mem_take hv)).mono (by omega)
    · obtain ⟨o, i, rfl, -⟩ := mem_codNodes hv
      simp [GNode.OpenAt]
  · exact (ho _ (List.mem_of_mem_drop hv)).mono (by omega)

theorem nextOpen_obj {scan : List GNode} {t : Ty} (h : scan.map GNode.obj? = t.map some)
    (off m : Nat) (cod : Ty) (k : Nat) :
    (nextOpen scan off m cod k).map GNode.obj? = (t.take off ++ cod ++ t.drop (off + m)).map some := by
  simp only [nextOpen, List.map_append, List.map_take, List.map_drop, h, codNodes_obj]

/-! ### Sorting the outputs -/

theorem insertByKey_le (key : GNode → Nat) (a : GNode) (l : List GNode)
    (h : ∀ b ∈ l, key a ≤ key b) : insertByKey key a l = a :: l := by
  cases l with
  | nil => rfl
  | cons b l => simp [insertByKey, h b (by simp)]

theorem sortByKey_sorted (key : GNode → Nat) (l : List GNode)
    (h : l.Pairwise (fun a b => key a ≤ key b)) : sortByKey key l = l := by
  induction l with
  | nil => rfl
  | cons a l ih =>
    rw [List.pairwise_cons] at h
    rw [sortByKey, ih h.2, insertByKey_le key a l h.1]

theorem sortOutputs_codNodes (cod : Ty) (k : Nat) :
    sortOutputs (codNodes cod k) = .ok (codNodes cod k) := by
  unfold sortOutputs
  have hall : (codNodes cod k).all (fun v => v.i?.isSome) = true := by
    rw [List.all_eq_true]
    intro v hv
    obtain ⟨o, i, rfl, -⟩ := mem_codNodes hv
    rfl
  rw [if_pos hall, sortByKey_sorted]
  rw [List.pairwise_iff_getElem]
  intro i j hi hj hij
  have h1 := codNodes_getElem? cod k i
  have h2 := codNodes_getElem? cod k j
  rw [List.getElem?_eq_getElem hi] at h1
  rw [List.getElem?_eq_getElem hj] at h2
  rw [codNodes_length] at hi hj
  rw [List.getElem?_eq_getElem hi] at h1
  rw [List.getElem?_eq_getElem hj] at h2
  simp only [Option.map_some, Option.some.injEq] at h1 h2
  rw [h1, h2]
  simp [GNode.i?]; omega

/-! ### One layer -/

/-- `diagram >> Id(left) @ box @ Id(right)` as a value. -/
def addLayer (d : Diagram) (left : Ty) (b : Box) (right : Ty) : Diagram :=
  ⟨d.dom, left ++ b.cod ++ right, d.boxes ++ [b], d.offsets ++ [(left.length : Int)],
   ⟨d.layers.dom, left ++ b.cod ++ right, d.layers.boxes ++ [⟨left, b, right⟩]⟩⟩

theorem whisk_eq (left : Ty) (b : Box) (right : Ty) :
    whisk left b right = .ok ⟨left ++ b.dom ++ right, left ++ b.cod ++ right, [b],
      [(left.length : Int)],
      ⟨left ++ b.dom ++ right, left ++ b.cod ++ right, [⟨left, b, right⟩]⟩⟩ := by
  unfold whisk
  rw [Diagram.tensor_spec (Diagram.id_wf left) (Diagram.ofBox_wf b)]
  have hw : (⟨(Diagram.id left).dom ++ (Diagram.ofBox b).dom, (Diagram.id left).cod ++ (Diagram.ofBox b).cod,
      (Diagram.id left).boxes ++ (Diagram.ofBox b).boxes,
      (Diagram.id left).offsets ++ (Diagram.ofBox b).offsets.map (· + ((Diagram.id left).cod.length : Int)),
      ⟨(Diagram.id left).dom ++ (Diagram.ofBox b).dom, (Diagram.id left).cod ++ (Diagram.ofBox b).cod,
        (Diagram.id left).layers.boxes.map (whiskR (Diagram.ofBox b).dom)
          ++ (Diagram.ofBox b).layers.boxes.map (whiskL (Diagram.id left).cod)⟩⟩ : Diagram).WF := by
    have := Diagram.tensor_wf (Diagram.id_wf left) (Diagram.ofBox_wf b)
      (Diagram.tensor_spec (Diagram.id_wf left) (Diagram.ofBox_wf b))
    exact this
  simp only []
  rw [Diagram.tensor_spec hw (Diagram.id_wf right)]
  simp [Diagram.id, Diagram.ofBox, LArrow.id, whiskR, whiskL]

theorem whisk_wf (left : Ty) (b : Box) (right : Ty) :
    (⟨left ++ b.dom ++ right, left ++ b.cod ++ right, [b], [(left.length : Int)],
      ⟨left ++ b.dom ++ right, left ++ b.cod ++ right, [⟨left, b, right⟩]⟩⟩ : Diagram).WF :=
  ⟨rfl, rfl, rfl, rfl, by simp [LArrow.WF, Chain, Layer.dom, Layer.cod]⟩

theorem then_layer {d : Diagram} (hd : d.WF) (left : Ty) (b : Box) (right : Ty)
    (hc : d.cod = left ++ b.dom ++ right) :
    d.then ⟨left ++ b.dom ++ right, left ++ b.cod ++ right, [b], [(left.length : Int)],
      ⟨left ++ b.dom ++ right, left ++ b.cod ++ right, [⟨left, b, right⟩]⟩⟩
      = .ok (addLayer d left b right) := by
  unfold Diagram.then
  have : d.layers.cod = left ++ b.dom ++ right := by rw [hd.lcod, hc]
  simp only []
  rw [LArrow.then_eq_ok (by simpa using this)]
  rfl

theorem addLayer_wf {d : Diagram} (hd : d.WF) (left : Ty) (b : Box) (right : Ty)
    (hc : d.cod = left ++ b.dom ++ right) : (addLayer d left b right).WF :=
  Diagram.then_wf hd (whisk_wf left b right) (then_layer hd left b right hc)

/-! ### What `nx2diagram` reads of the graph at one box -/

/-- At box `k` (`b`, attribute `a`) with open wires `scan`, the graph says: port `i` of the box
    is fed by `scan[off + i]` and by nothing else, the box's successors are its `cod` nodes; the
    types fit; a box without inputs carries `off` as its attribute. -/
structure Reads (g : NxGraph) (scan : List GNode) (k : Nat) (b : Box) (a : OffAttr) (off : Nat) :
    Prop where
  inRange : off + b.dom.length ≤ scan.length
  types : ((scan.drop off).take b.dom.length).map GNode.obj? = b.dom.map some
  inEdges : ∀ i o w, b.dom[i]? = some o → scan[off + i]? = some w →
    g.inEdges (.dom o i k) = .ok [w]
  attr : b.dom = [] → a.get = some (off : Int)
  succ : g.succ (.box b k a) = codNodes b.cod k

theorem domLoop_tail (g : NxGraph) (scan : List GNode) (k : Nat) :
    ∀ (rest : List Ob) (i : Nat) (cur : Option Int), 1 ≤ i →
      (∀ j o, rest[j]? = some o → ∃ w, g.inEdges (.dom o (i + j) k) = .ok [w]) →
      domLoop g scan k i rest cur = .ok cur := by
  intro rest
  induction rest with
  | nil => intro i cur _ _; rfl
  | cons o rest ih =>
    intro i cur hi h
    obtain ⟨w, hw⟩ := h 0 o rfl
    simp only [Nat.add_zero] at hw
    have hi0 : i ≠ 0 := by omega
    simp only [domLoop, hw, unpack1, if_neg hi0]
    apply ih (i + 1) cur (by omega)
    intro j o' hj
    have := h (j + 1) o' (by simpa using hj)
    have e : i + (j + 1) = i + 1 + j := by omega
    rwa [e] at this

theorem indexOf?_getElem {scan : List GNode} (hn : scan.Nodup) {i : Nat} {w : GNode}
    (h : scan[i]? = some w) : indexOf? scan w = some i := by
  have hi : i < scan.length := by
    rcases Nat.lt_or_ge i scan.length with h' | h'
    · exact h'
    · rw [List.getElem?_eq_none h'] at h; cases h
  rw [List.getElem?_eq_getElem hi] at h
  injection h with h
  subst h
  unfold indexOf?
  rw [if_pos (List.getElem_mem hi), hn.idxOf_getElem i hi]

theorem domLoop_spec {g : NxGraph} {scan : List GNode} {k : Nat} {b : Box} {a : OffAttr}
    {off : Nat} (hr : Reads g scan k b a off) (hn : scan.Nodup) :
    domLoop g scan k 0 b.dom a.get = .ok (some (off : Int)) := by
  have hin := hr.inEdges
  have hrange := hr.inRange
  have hattr := hr.attr
  generalize b.dom = dom at hin hrange hattr
  cases dom with
  | nil => simp only [domLoop]; rw [hattr rfl]
  | cons o rest =>
    simp only [List.length_cons] at hrange
    have h0 : off < scan.length := by omega
    have hw := hin 0 o scan[off] rfl (by simp [List.getElem?_eq_getElem h0])
    have hidx := indexOf?_getElem hn (List.getElem?_eq_getElem h0)
    simp only [domLoop, hw, unpack1, if_true, firstOffset, hidx]
    apply domLoop_tail g scan k rest 1 _ (by omega)
    intro j o' hj
    have hj' : j < rest.length := by
      rcases Nat.lt_or_ge j rest.length with h' | h'
      · exact h'
      · rw [List.getElem?_eq_none h'] at hj; cases hj
    have hl : off + (j + 1) < scan.length := by omega
    refine ⟨scan[off + (j + 1)], ?_⟩
    have := hin (j + 1) o' scan[off + (j + 1)] (by simpa using hj)
      (List.getElem?_eq_getElem hl)
    have e : 1 + j = j + 1 := by omega
    rwa [e]

theorem codLoopErr_ok (off : Int) (n : Nat) : codLoopErr (some off) n n = none := by
  unfold codLoopErr
  split
  · rfl
  · simp

/-- One iteration of the loop of `nx2diagram` on a box the graph `Reads`. -/
theorem boxStep_spec {g : NxGraph} {scan : List GNode} {k : Nat} {b : Box} {a : OffAttr}
    {off : Nat} {d : Diagram} (hr : Reads g scan k b a off) (hn : scan.Nodup) (hd : d.WF)
    (hc : scan.map GNode.obj? = d.cod.map some) :
    boxStep g k (.box b k a) b a scan d
      = .ok (nextOpen scan off b.dom.length b.cod k,
             addLayer d (d.cod.take off) b (d.cod.drop (off + b.dom.length)))
      ∧ d.cod = d.cod.take off ++ b.dom ++ d.cod.drop (off + b.dom.length) := by
  have hcod : d.cod = d.cod.take off ++ b.dom ++ d.cod.drop (off + b.dom.length) := by
    have h1 : ((d.cod.drop off).take b.dom.length).map some = b.dom.map some := by
      have := hr.types
      rw [List.map_take, List.map_drop, hc] at this
      simpa [List.map_take, List.map_drop] using this
    have h2 := map_some_inj h1
    have e1 : d.cod = d.cod.take off
        ++ ((d.cod.drop off).take b.dom.length ++ (d.cod.drop off).drop b.dom.length) := by
      rw [List.take_append_drop, List.take_append_drop]
    rw [h2, List.drop_drop] at e1
    simpa [List.append_assoc] using e1
  refine ⟨?_, hcod⟩
  unfold boxStep
  rw [domLoop_spec hr hn]
  simp only [hr.succ, sortOutputs_codNodes]
  unfold spliceAt
  rw [codNodes_length, codLoopErr_ok]
  simp only []
  have hsp : splice scan (codNodes b.cod k) d b (off : Int)
      = .ok (nextOpen scan off b.dom.length b.cod k,
             addLayer d (d.cod.take off) b (d.cod.drop (off + b.dom.length))) := by
    unfold splice
    have e : ((off : Int) + (b.dom.length : Int)) = ((off + b.dom.length : Nat) : Int) := by simp
    rw [e, pySlice_take, pySlice_drop, pySlice_take, pySlice_drop, whisk_eq]
    simp only []
    rw [then_layer hd _ _ _ hcod]
    have hlen : (d.cod.take off).length = off := by
      have : off ≤ d.cod.length := by
        have := hr.inRange
        have hl : scan.length = d.cod.length := by
          have := congrArg List.length hc; simpa using this
        omega
      simp [List.length_take, Nat.min_eq_left this]
    simp only [nextOpen]
  exact hsp

/-! ### The whole loop -/

/-- The graph `Reads` every box of `steps` along the open wires, which end as `fin`. -/
def ReadsAll (g : NxGraph) :
    List GNode → Nat → List (Box × OffAttr) → List Nat → List GNode → Prop
  | scan, _, [], [], fin => scan = fin
  | scan, k, s :: r, off :: offs, fin =>
    Reads g scan k s.1 s.2 off
      ∧ ReadsAll g (nextOpen scan off s.1.dom.length s.1.cod k) (k + 1) r offs fin
  | _, _, _, _, _ => False

/-- The box nodes `Node("box", box, depth, offset)` for depths `k, k+1, …`. -/
def boxNodesFrom : Nat → List (Box × OffAttr) → List GNode
  | _, [] => []
  | k, s :: r => .box s.1 k s.2 :: boxNodesFrom (k + 1) r

theorem boxLoop_spec (g : NxGraph) :
    ∀ (steps : List (Box × OffAttr)) (scan : List GNode) (k : Nat) (offs : List Nat)
      (fin : List GNode) (d : Diagram),
      ReadsAll g scan k steps offs fin → scan.Nodup → (∀ v ∈ scan, GNode.OpenAt k v) →
      d.WF → scan.map GNode.obj? = d.cod.map some →
      ∃ d', boxLoop g k (boxNodesFrom k steps) scan d = .ok d' ∧ d'.WF ∧ d'.dom = d.dom
        ∧ fin.map GNode.obj? = d'.cod.map some
        ∧ d'.boxes = d.boxes ++ steps.map (·.1)
        ∧ d'.offsets = d.offsets ++ offs.map (fun (o : Nat) => (o : Int)) := by
  intro steps
  induction steps with
  | nil =>
    intro scan k offs fin d h hn ho hd hc
    cases offs with
    | nil =>
      simp only [ReadsAll] at h
      subst h
      exact ⟨d, rfl, hd, rfl, hc, by simp, by simp⟩
    | cons o offs => simp [ReadsAll] at h
  | cons s r ih =>
    intro scan k offs fin d h hn ho hd hc
    cases offs with
    | nil => simp [ReadsAll] at h
    | cons off offs =>
      obtain ⟨hr, hrest⟩ := h
      obtain ⟨hstep, hcod⟩ := boxStep_spec hr hn hd hc
      have hd1 := addLayer_wf hd (d.cod.take off) s.1 (d.cod.drop (off + s.1.dom.length)) hcod
      have hc1 := nextOpen_obj hc off s.1.dom.length s.1.cod k
      obtain ⟨d', h1, h2, h3, h4, h5, h6⟩ :=
        ih (nextOpen scan off s.1.dom.length s.1.cod k) (k + 1) offs fin _ hrest
          (nextOpen_nodup hn ho off _ _) (nextOpen_open ho off _ _) hd1 hc1
      refine ⟨d', ?_, h2, h3, h4, ?_, ?_⟩
      · simp only [boxNodesFrom, boxLoop, GNode.box?, hstep]
        exact h1
      · rw [h5]; simp [addLayer]
      · rw [h6]
        have hoff : off ≤ d.cod.length := by
          have := hr.inRange
          have hl : scan.length = d.cod.length := by
            have := congrArg List.length hc; simpa using this
          omega
        simp [addLayer, List.length_take, Nat.min_eq_left hoff]

/-- `nx2diagram` on a graph whose inputs are the parameters of `dom`, whose box nodes are those
    of `steps`, and which `ReadsAll` of them from the parameters. -/
theorem nx2diagram_spec {g : NxGraph} {dom : Ty} {steps : List (Box × OffAttr)} {offs : List Nat}
    {fin : List GNode} (hi : g.inputs = inputNodes dom) (hb : g.boxNodes = boxNodesFrom 0 steps)
    (hr : ReadsAll g (inputNodes dom) 0 steps offs fin) :
    ∃ d, nx2diagram g = .ok d ∧ d.WF ∧ d.dom = dom ∧ fin.map GNode.obj? = d.cod.map some
      ∧ d.boxes = steps.map (·.1) ∧ d.offsets = offs.map (fun (o : Nat) => (o : Int)) := by
  have hty : (inputNodes dom).filterMap GNode.obj? = dom := filterMap_obj_of_map (inputNodes_obj dom)
  obtain ⟨d, h1, h2, h3, h4, h5, h6⟩ := boxLoop_spec g steps (inputNodes dom) 0 offs fin
    (Diagram.id dom) hr (inputNodes_nodup dom) (inputNodes_open dom) (Diagram.id_wf dom)
    (inputNodes_obj dom)
  refine ⟨d, ?_, h2, h3, h4, by simpa [Diagram.id] using h5, by simpa [Diagram.id] using h6⟩
  unfold nx2diagram
  rw [hi, hb, hty]
  exact h1

end DV.Dz
