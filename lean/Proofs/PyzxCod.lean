import Proofs.Pyzx

/-!
# `from_pyzx`: the codomain is the length of the scan, and both are counted from the graph

`zx.py:149-217` keeps two things in step: the diagram under construction (whose codomain the model
carries as `Acc.cod`) and `scan`, the list of vertex labels of the open wires.  The code never
compares them — every `>>` only checks the type computed from `len(scan)` by `move` or by the
identities around a spider.  Here: on every path that does not raise, `cod = len(scan)` is an
invariant, a `move` keeps the number of open wires, a spider replaces `nIn` of them by `nOut`,
and hence the number of outputs of the imported diagram is

    len(inputs) + Σ_{inner nodes} (outputs of the node − inputs of the node)

for EVERY graph and every combination of the proposed repairs.
-/

namespace DV.Pyzx

/-- The diagram's codomain has one wire per entry of the scan. -/
def Acc.Bal (a : Acc) : Prop := a.cod = a.scan.length

theorem move_length_left (fix : Fix) (node : Nat) (scan : List Nat) (source target : Nat)
    (hlt : target < source) (h2 : source < scan.length) :
    (move fix node scan source target).1.length = scan.length := by
  simp only [move, hlt, if_true, List.length_append, List.length_take, List.length_drop,
    List.length_cons, List.length_nil]
  omega

theorem move_length_right (fix : Fix) (node : Nat) (scan : List Nat) (source target : Nat)
    (hlt : source < target) (h2 : target < scan.length) :
    (move fix node scan source target).1.length = scan.length := by
  have hn : ¬ target < source := by omega
  simp only [move, hn, hlt, if_true, if_false]
  split <;>
  · simp only [List.length_append, List.length_take, List.length_drop,
      List.length_cons, List.length_nil]
    omega

/-- `diagram >> swaps` after a `move` that is accepted: same number of open wires, still
    one per wire of the codomain. -/
theorem moved_bal {a a' : Acc} (fix : Fix) (node source target : Nat)
    (ha : a.Bal) (h : a.moved fix node source target = .ok a') :
    a'.Bal ∧ a'.cod = a.cod := by
  simp only [Acc.moved] at h
  split at h
  · cases h
  · rename_i hc
    simp only [Except.ok.injEq] at h
    subst h
    refine ⟨?_, rfl⟩
    simp only [ne_eq, Decidable.not_not] at hc
    have hb : a.cod = a.scan.length := ha
    show a.cod = (move fix node a.scan source target).1.length
    rcases Nat.lt_trichotomy target source with hlt | heq | hgt
    · have h2 : source < a.scan.length := by
        simp only [move, hlt, if_true] at hc
        omega
      rw [move_length_left fix node a.scan source target hlt h2, hb]
    · subst heq
      simp only [move, Nat.lt_irrefl, if_false]
      exact hb
    · have h2 : target < a.scan.length := by
        have hn : ¬ target < source := by omega
        simp only [move, hn, hgt, if_true, if_false] at hc
        omega
      rw [move_length_right fix node a.scan source target hgt h2, hb]

theorem adjLoop_bal (fix : Fix) (node offset : Nat) (vs : List Nat) :
    ∀ {a a' : Acc} (i : Nat), a.Bal → adjLoop fix node offset a i vs = .ok a' →
      a'.Bal ∧ a'.cod = a.cod := by
  induction vs with
  | nil => intro a a' i ha h; simp only [adjLoop, Except.ok.injEq] at h; subst h; exact ⟨ha, rfl⟩
  | cons v vs ih =>
    intro a a' i ha h
    simp only [adjLoop] at h
    split at h
    · cases h
    · split at h
      · cases h
      · rename_i a1 hm
        obtain ⟨w1, c1⟩ := moved_bal fix _ _ _ ha hm
        obtain ⟨w2, c2⟩ := ih (i + 1) w1 h
        exact ⟨w2, by rw [c2, c1]⟩

theorem makeWiresAdjacent_bal (fix : Fix) (node : Nat) {a a' : Acc} {offset : Nat}
    (inputs : List Nat) (ha : a.Bal)
    (h : makeWiresAdjacent fix node a inputs = .ok (a', offset)) :
    a'.Bal ∧ a'.cod = a.cod := by
  cases inputs with
  | nil =>
    simp only [makeWiresAdjacent, Except.ok.injEq, Prod.mk.injEq] at h
    obtain ⟨rfl, _⟩ := h; exact ⟨ha, rfl⟩
  | cons v vs =>
    simp only [makeWiresAdjacent] at h
    split at h
    · cases h
    · split at h
      · cases h
      · rename_i a1 hl
        simp only [Except.ok.injEq, Prod.mk.injEq] at h
        obtain ⟨rfl, _⟩ := h
        exact adjLoop_bal fix node _ vs 0 ha hl

/-- A spider that is accepted takes `nIn` open wires and gives `nOut`. -/
theorem placeSpider_bal {g : Graph} {node : Nat} {a a' : Acc} {offset nIn nOut : Nat}
    (ha : a.Bal) (h : placeSpider g node a offset nIn nOut = .ok a') :
    a'.Bal ∧ a'.cod + nIn = a.cod + nOut := by
  simp only [placeSpider] at h
  split at h
  · cases h
  · split at h
    · cases h
    · rename_i hc
      simp only [ne_eq, Decidable.not_not] at hc
      simp only [Except.ok.injEq] at h
      subst h
      have hb : a.cod = a.scan.length := ha
      refine ⟨?_, ?_⟩
      · show offset + nOut + (a.cod - offset - nIn) =
          (a.scan.take offset ++ List.replicate nOut node ++ a.scan.drop (offset + nIn)).length
        simp only [List.length_append, List.length_take, List.length_drop, List.length_replicate]
        omega
      · show offset + nOut + (a.cod - offset - nIn) + nIn = a.cod + nOut
        omega

theorem length_insertByKey (kv : Nat × Nat) (l : List (Nat × Nat)) :
    (insertByKey kv l).length = l.length + 1 := by
  induction l with
  | nil => rfl
  | cons x xs ih =>
    simp only [insertByKey]
    split
    · rfl
    · simp only [List.length_cons, ih]

theorem length_sortByKey (kvs : List (Nat × Nat)) : (sortByKey kvs).length = kvs.length := by
  suffices h : ∀ (acc : List (Nat × Nat)),
      (kvs.foldl (fun acc kv => insertByKey kv acc) acc).length = acc.length + kvs.length by
    simpa [sortByKey] using h []
  induction kvs with
  | nil => intro acc; rfl
  | cons kv kvs ih =>
    intro acc
    simp only [List.foldl_cons, ih, length_insertByKey, List.length_cons]
    omega

theorem length_mapM_option {α β} (f : α → Option β) :
    ∀ (l : List α) (r : List β), l.mapM f = some r → r.length = l.length := by
  intro l
  induction l with
  | nil => intro r h; simp only [List.mapM_nil, Option.pure_def, Option.some.injEq] at h; subst h; rfl
  | cons x xs ih =>
    intro r h
    simp only [List.mapM_cons, Option.pure_def, Option.bind_eq_bind] at h
    cases hfx : f x with
    | none => simp [hfx] at h
    | some y =>
      cases hxs : xs.mapM f with
      | none => simp [hfx, hxs] at h
      | some ys =>
        simp only [hfx, hxs, Option.bind_some, Option.some.injEq] at h
        subst h
        simp only [List.length_cons, ih ys hxs]

/-- `inputs.sort(key=scan.index)` neither drops nor repeats a wire. -/
theorem length_sortByScan {scan vs r : List Nat} (h : sortByScan scan vs = .ok r) :
    r.length = vs.length := by
  simp only [sortByScan] at h
  split at h
  · cases h
  · rename_i kvs hk
    simp only [Except.ok.injEq] at h
    subst h
    rw [List.length_map, length_sortByKey, length_mapM_option _ _ _ hk]

/-- One inner vertex: the open wires it is joined to from above go in, its later neighbours come out. -/
theorem importNode_bal (fix : Fix) (g : Graph) {a a' : Acc} (node : Nat)
    (ha : a.Bal) (h : importNode fix g a node = .ok a') :
    a'.Bal ∧ a'.cod + (nodeInputs g node).length = a.cod + (nodeOutputs g node).length := by
  simp only [importNode] at h
  split at h
  · cases h
  · rename_i inputs hs
    split at h
    · cases h
    · rename_i a1 offset hm
      obtain ⟨b1, c1⟩ := makeWiresAdjacent_bal fix node _ ha hm
      obtain ⟨b2, c2⟩ := placeSpider_bal b1 h
      rw [length_sortByScan hs, c1] at c2
      exact ⟨b2, c2⟩

def sumLen (f : Nat → List Nat) (vs : List Nat) : Nat := (vs.map (fun v => (f v).length)).sum

theorem importNodes_bal (fix : Fix) (g : Graph) (vs : List Nat) :
    ∀ {a a' : Acc}, a.Bal → importNodes fix g a vs = .ok a' →
      a'.Bal ∧ a'.cod + sumLen (nodeInputs g) vs = a.cod + sumLen (nodeOutputs g) vs := by
  induction vs with
  | nil =>
    intro a a' ha h
    simp only [importNodes, Except.ok.injEq] at h
    subst h
    exact ⟨ha, rfl⟩
  | cons v vs ih =>
    intro a a' ha h
    simp only [importNodes] at h
    split at h
    · cases h
    · rename_i a1 h1
      obtain ⟨b1, c1⟩ := importNode_bal fix g v ha h1
      obtain ⟨b2, c2⟩ := ih b1 h
      refine ⟨b2, ?_⟩
      simp only [sumLen, List.map_cons, List.sum_cons] at c2 ⊢
      omega

theorem importOutput_bal (fix : Fix) (g : Graph) {a a' : Acc} (target output : Nat)
    (ha : a.Bal) (h : importOutput fix g a target output = .ok a') :
    a'.Bal ∧ a'.cod = a.cod ∧ target < a'.cod := by
  simp only [importOutput] at h
  split at h
  · split at h
    · cases h
    · split at h
      · cases h
      · rename_i a1 hm
        obtain ⟨b1, c1⟩ := moved_bal fix _ _ _ ha hm
        split at h
        · cases h
        · rename_i hc
          simp only [ne_eq, Decidable.not_not] at hc
          simp only [Except.ok.injEq] at h
          subst h
          have hb : a1.cod = a1.scan.length := b1
          exact ⟨b1, c1, by show target < a1.cod; omega⟩
  · cases h

theorem importOutputs_bal (fix : Fix) (g : Graph) (os : List Nat) :
    ∀ {a a' : Acc} (target : Nat), a.Bal → importOutputs fix g a target os = .ok a' →
      a'.Bal ∧ a'.cod = a.cod ∧ (os = [] ∨ target + os.length ≤ a.cod) := by
  induction os with
  | nil =>
    intro a a' t ha h
    simp only [importOutputs, Except.ok.injEq] at h
    subst h
    exact ⟨ha, rfl, .inl rfl⟩
  | cons o os ih =>
    intro a a' t ha h
    simp only [importOutputs] at h
    split at h
    · cases h
    · rename_i a1 h1
      obtain ⟨b1, c1, t1⟩ := importOutput_bal fix g t o ha h1
      obtain ⟨b2, c2, t2⟩ := ih (t + 1) b1 h
      refine ⟨b2, by rw [c2, c1], .inr ?_⟩
      simp only [List.length_cons]
      rcases t2 with rfl | t2
      · simp only [List.length_nil]; omega
      · omega

/-- **The codomain of what `from_pyzx` returns, for every graph and every repair switch**: the
    inputs, plus what the inner vertices give, minus what they take; and there are at least as many
    wires as declared outputs. -/
theorem fromPyzxWith_cod (fix : Fix) (g : Graph) (d : ZDiagram)
    (h : fromPyzxWith fix g = .ok d) :
    d.cod + sumLen (nodeInputs g) (innerNodes g) =
      g.inputs.length + sumLen (nodeOutputs g) (innerNodes g) ∧
    g.outputs.length ≤ d.cod := by
  simp only [fromPyzxWith] at h
  split at h
  · cases h
  · split at h
    · cases h
    · split at h
      · cases h
      · rename_i a h1
        split at h
        · cases h
        · rename_i a' h2
          simp only [Except.ok.injEq] at h
          subst h
          have w0 : Acc.Bal ⟨[], g.inputs.length, g.inputs⟩ := rfl
          obtain ⟨b1, c1⟩ := importNodes_bal fix g _ w0 h1
          obtain ⟨_, c2, t2⟩ := importOutputs_bal fix g _ 0 b1 h2
          refine ⟨?_, ?_⟩
          · show a'.cod + _ = _
            rw [c2]; exact c1
          · show _ ≤ a'.cod
            rw [c2]
            rcases t2 with h0 | t2
            · simp [h0]
            · omega

end DV.Pyzx

namespace DV.Pyzx

/-! ## Counting the edges of a layered graph

A graph is *layered* when its vertices are `dom` inputs, then `n` inner vertices, then `cod`
outputs, every edge goes from a vertex that is not an output to a LATER vertex that is not an input,
and every boundary vertex has exactly one neighbour.  `to_pyzx` produces such graphs
(`specGraph_layered` below).  On a layered graph the inputs of an inner vertex (zx.py:196-197) are
the edges that end in it, its outputs (zx.py:199-200) the edges that start from it, and summing
over the inner vertices counts every edge once from each side: the number of wires `from_pyzx`
ends with is the number of outputs. -/

structure Layered (g : Graph) (dom n cod : Nat) : Prop where
  inputs : g.inputs = List.range dom
  outputs : g.outputs = (List.range cod).map (dom + n + ·)
  edges : ∀ e ∈ g.edges, e.s < e.t ∧ e.s < dom + n ∧ dom ≤ e.t ∧ e.t < dom + n + cod
  degIn : ∀ v, v < dom → g.deg v = 1
  degOut : ∀ i, i < cod → g.deg (dom + n + i) = 1
  inner : innerNodes g = (List.range n).map (dom + ·)

theorem length_filter_nbrs_in (P : Nat → Bool) (node : Nat) (es : List Edge)
    (h1 : ∀ e ∈ es, e.s = node → P e.t = false ∧ e.t ≠ node)
    (h2 : ∀ e ∈ es, e.s ≠ node → e.t = node → P e.s = true) :
    ((es.filterMap (·.other? node)).filter P).length = es.countP (fun e => e.t == node) := by
  induction es with
  | nil => rfl
  | cons e es ih =>
    have ih' := ih (fun e he => h1 e (List.mem_cons_of_mem _ he))
      (fun e he => h2 e (List.mem_cons_of_mem _ he))
    by_cases hs : e.s = node
    · obtain ⟨p, q⟩ := h1 e List.mem_cons_self hs
      have hq : (e.t == node) = false := by simpa using q
      have ho : e.other? node = some e.t := by simp [Edge.other?, hs]
      rw [List.filterMap_cons, ho, List.filter_cons, List.countP_cons]
      simp only [p, hq, Bool.false_eq_true, if_false, Nat.add_zero]
      exact ih'
    · by_cases ht : e.t = node
      · have p := h2 e List.mem_cons_self hs ht
        have hq : (e.t == node) = true := by simpa using ht
        have ho : e.other? node = some e.s := by simp [Edge.other?, hs, ht]
        rw [List.filterMap_cons, ho, List.filter_cons, List.countP_cons]
        simp only [p, hq, if_true, List.length_cons]
        rw [ih']
      · have hq : (e.t == node) = false := by simpa using ht
        have ho : e.other? node = none := by simp [Edge.other?, hs, ht]
        rw [List.filterMap_cons, ho, List.countP_cons]
        simp only [hq, Bool.false_eq_true, if_false, Nat.add_zero]
        exact ih'

theorem length_filter_nbrs_out (P : Nat → Bool) (node : Nat) (es : List Edge)
    (h1 : ∀ e ∈ es, e.s = node → P e.t = true)
    (h2 : ∀ e ∈ es, e.s ≠ node → e.t = node → P e.s = false) :
    ((es.filterMap (·.other? node)).filter P).length = es.countP (fun e => e.s == node) := by
  induction es with
  | nil => rfl
  | cons e es ih =>
    have ih' := ih (fun e he => h1 e (List.mem_cons_of_mem _ he))
      (fun e he => h2 e (List.mem_cons_of_mem _ he))
    by_cases hs : e.s = node
    · have p := h1 e List.mem_cons_self hs
      have hq : (e.s == node) = true := by simpa using hs
      have ho : e.other? node = some e.t := by simp [Edge.other?, hs]
      rw [List.filterMap_cons, ho, List.filter_cons, List.countP_cons]
      simp only [p, hq, if_true, List.length_cons]
      rw [ih']
    · have hq : (e.s == node) = false := by simpa using hs
      by_cases ht : e.t = node
      · have p := h2 e List.mem_cons_self hs ht
        have ho : e.other? node = some e.s := by simp [Edge.other?, hs, ht]
        rw [List.filterMap_cons, ho, List.filter_cons, List.countP_cons]
        simp only [p, hq, Bool.false_eq_true, if_false, Nat.add_zero]
        exact ih'
      · have ho : e.other? node = none := by simp [Edge.other?, hs, ht]
        rw [List.filterMap_cons, ho, List.countP_cons]
        simp only [hq, Bool.false_eq_true, if_false, Nat.add_zero]
        exact ih'

theorem countP_add_eq (p q r : Edge → Bool) (es : List Edge)
    (h : ∀ e ∈ es, (if p e = true then 1 else 0) + (if q e = true then 1 else 0) =
      (if r e = true then 1 else 0 : Nat)) :
    es.countP p + es.countP q = es.countP r := by
  induction es with
  | nil => rfl
  | cons e es ih =>
    have := ih (fun e he => h e (List.mem_cons_of_mem _ he))
    have := h e List.mem_cons_self
    simp only [List.countP_cons]
    omega

/-- Summing "edges whose `f`-end is `a + i`" over `i < k` counts the edges whose `f`-end lies in
    `[a, a + k)`. -/
theorem sum_count_range (f : Edge → Nat) (es : List Edge) (a k : Nat) :
    ((List.range k).map (fun i => es.countP (fun e => f e == a + i))).sum =
      es.countP (fun e => decide (a ≤ f e ∧ f e < a + k)) := by
  induction k with
  | zero =>
    simp only [List.range_zero, List.map_nil, List.sum_nil, Nat.add_zero]
    symm
    rw [List.countP_eq_zero]
    intro e _
    simp only [decide_eq_true_eq]
    omega
  | succ k ih =>
    rw [List.range_succ, List.map_append, List.sum_append, ih]
    simp only [List.map_cons, List.map_nil, List.sum_cons, List.sum_nil, Nat.add_zero]
    apply countP_add_eq
    intro e _
    by_cases h1 : f e = a + k
    · have d1 : decide (a ≤ f e ∧ f e < a + k) = false := decide_eq_false (by omega)
      have d2 : decide (a ≤ f e ∧ f e < a + (k + 1)) = true := decide_eq_true (by omega)
      have d3 : (f e == a + k) = true := by simpa using h1
      simp only [d1, d2, d3, Bool.false_eq_true, if_false, if_true]
    · have d3 : (f e == a + k) = false := by simpa using h1
      by_cases h2 : a ≤ f e ∧ f e < a + k
      · have d1 : decide (a ≤ f e ∧ f e < a + k) = true := decide_eq_true h2
        have d2 : decide (a ≤ f e ∧ f e < a + (k + 1)) = true := decide_eq_true (by omega)
        simp only [d1, d2, d3, Bool.false_eq_true, if_false, if_true]
      · have d1 : decide (a ≤ f e ∧ f e < a + k) = false := decide_eq_false h2
        have d2 : decide (a ≤ f e ∧ f e < a + (k + 1)) = false := decide_eq_false (by omega)
        simp only [d1, d2, d3, Bool.false_eq_true, if_false]

/-- Two tests of which every edge passes exactly one. -/
theorem countP_partition (p q : Edge → Bool) (es : List Edge)
    (h : ∀ e ∈ es, (p e = true ∧ q e = false) ∨ (p e = false ∧ q e = true)) :
    es.countP p + es.countP q = es.length := by
  induction es with
  | nil => rfl
  | cons e es ih =>
    have := ih (fun e he => h e (List.mem_cons_of_mem _ he))
    simp only [List.countP_cons, List.length_cons]
    rcases h e List.mem_cons_self with ⟨a, b⟩ | ⟨a, b⟩ <;> simp only [a, b, if_true,
      Bool.false_eq_true, if_false] <;> omega

theorem countP_congr_mem (p q : Edge → Bool) (es : List Edge) (h : ∀ e ∈ es, p e = q e) :
    es.countP p = es.countP q := by
  induction es with
  | nil => rfl
  | cons e es ih =>
    simp only [List.countP_cons, h e List.mem_cons_self,
      ih (fun e he => h e (List.mem_cons_of_mem _ he))]

theorem sum_map_const_one (k : Nat) (f : Nat → Nat) (h : ∀ i, i < k → f i = 1) :
    ((List.range k).map f).sum = k := by
  induction k with
  | zero => rfl
  | succ k ih =>
    rw [List.range_succ, List.map_append, List.sum_append, ih (fun i hi => h i (by omega))]
    simp [h k (by omega)]

theorem sum_map_congr (k : Nat) (f f' : Nat → Nat) (h : ∀ i, i < k → f i = f' i) :
    ((List.range k).map f).sum = ((List.range k).map f').sum := by
  congr 1
  apply List.map_congr_left
  intro i hi
  exact h i (List.mem_range.1 hi)

variable {g : Graph} {dom n cod : Nat}

theorem Layered.length_nodeInputs (L : Layered g dom n cod) (node : Nat) :
    (nodeInputs g node).length = g.edges.countP (fun e => e.t == node) := by
  apply length_filter_nbrs_in
  · intro e he hs
    obtain ⟨a, b, c, d⟩ := L.edges e he
    refine ⟨?_, by omega⟩
    have h1 : ¬ e.t < node := by omega
    have h2 : ¬ e.t < dom := by omega
    simp [L.inputs, h1, h2]
  · intro e he _ ht
    obtain ⟨a, b, c, d⟩ := L.edges e he
    have h1 : e.s < node := by omega
    have h2 : ∀ x, x < cod → ¬ dom + n + x = e.s := by intro x _; omega
    simp [L.outputs, h1]
    exact .inl h2

theorem Layered.length_nodeOutputs (L : Layered g dom n cod) (node : Nat) :
    (nodeOutputs g node).length = g.edges.countP (fun e => e.s == node) := by
  apply length_filter_nbrs_out
  · intro e he hs
    obtain ⟨a, b, c, d⟩ := L.edges e he
    have h1 : node < e.t := by omega
    have h2 : ¬ e.t < dom := by omega
    simp [L.inputs, h1, h2]
  · intro e he _ ht
    obtain ⟨a, b, c, d⟩ := L.edges e he
    have h1 : ¬ node < e.s := by omega
    have h2 : ∀ x, x < cod → ¬ dom + n + x = e.s := by intro x _; omega
    simp [L.outputs, h1]
    exact h2

theorem Layered.sum_inputs (L : Layered g dom n cod) :
    sumLen (nodeInputs g) (innerNodes g) + cod = g.edges.length := by
  have h1 : sumLen (nodeInputs g) (innerNodes g) =
      g.edges.countP (fun e => decide (dom ≤ e.t ∧ e.t < dom + n)) := by
    rw [← sum_count_range (·.t) g.edges dom n]
    simp only [sumLen, L.inner, List.map_map, Function.comp_def, L.length_nodeInputs]
  have h2 : cod = g.edges.countP (fun e => decide (dom + n ≤ e.t ∧ e.t < dom + n + cod)) := by
    rw [← sum_count_range (·.t) g.edges (dom + n) cod]
    symm
    apply sum_map_const_one
    intro i hi
    rw [← L.degOut i hi, deg_eq_incident, incident]
    apply countP_congr_mem
    intro e he
    obtain ⟨a, b, c, d⟩ := L.edges e he
    have : (e.s == dom + n + i) = false := by simp; omega
    simp [this]
  rw [h1]
  conv => lhs; rhs; rw [h2]
  apply countP_partition
  intro e he
  obtain ⟨a, b, c, d⟩ := L.edges e he
  by_cases h : e.t < dom + n
  · left; simp; omega
  · right; simp; omega

theorem Layered.sum_outputs (L : Layered g dom n cod) :
    dom + sumLen (nodeOutputs g) (innerNodes g) = g.edges.length := by
  have h1 : sumLen (nodeOutputs g) (innerNodes g) =
      g.edges.countP (fun e => decide (dom ≤ e.s ∧ e.s < dom + n)) := by
    rw [← sum_count_range (·.s) g.edges dom n]
    simp only [sumLen, L.inner, List.map_map, Function.comp_def, L.length_nodeOutputs]
  have h2 : dom = g.edges.countP (fun e => decide (0 ≤ e.s ∧ e.s < 0 + dom)) := by
    rw [← sum_count_range (·.s) g.edges 0 dom]
    symm
    apply sum_map_const_one
    intro i hi
    rw [← L.degIn i hi, deg_eq_incident, incident]
    apply countP_congr_mem
    intro e he
    obtain ⟨a, b, c, d⟩ := L.edges e he
    have : (e.t == i) = false := by simp; omega
    simp [this]
  rw [h1]
  conv => lhs; lhs; rw [h2]
  apply countP_partition
  intro e he
  obtain ⟨a, b, c, d⟩ := L.edges e he
  by_cases h : e.s < dom
  · left; simp; omega
  · right; simp; omega

/-- **On a layered graph `from_pyzx` ends with one wire per declared output** (when it does not
    raise; tree and repairs alike). -/
theorem Layered.fromPyzxWith_cod (L : Layered g dom n cod) (fix : Fix) (d : ZDiagram)
    (h : fromPyzxWith fix g = .ok d) : d.cod = cod ∧ d.dom = dom := by
  obtain ⟨h1, _⟩ := DV.Pyzx.fromPyzxWith_cod fix g d h
  have h2 := L.sum_inputs
  have h3 := L.sum_outputs
  have h4 := (fromPyzxWith_wf fix g d h).2
  rw [L.inputs, List.length_range] at h1 h4
  exact ⟨by omega, h4⟩

end DV.Pyzx

namespace DV.Pyzx

/-! ## The graphs `to_pyzx` returns are layered -/

theorem specEdges_t_ge (dom : Nat) (bs : List ZBox) :
    ∀ (prev : List ZBox), ∀ e ∈ specEdges dom prev bs, dom ≤ e.t := by
  induction bs with
  | nil => intro prev e he; simp [specEdges] at he
  | cons b bs ih =>
    intro prev e he
    simp only [specEdges, List.mem_append] at he
    rcases he with he | he
    · split at he
      · obtain ⟨j, _, rfl⟩ := List.mem_map.1 he
        simp only [mkEdge]
        omega
      · simp at he
    · exact ih _ e he

theorem legsOf_input (dom : Nat) (prev : List ZBox) (v : Nat) (h : v < dom) :
    legsOf dom prev v = 1 := by
  induction prev with
  | nil => simp [legsOf, h]
  | cons b prev ih =>
    simp only [legsOf]
    split
    · rename_i hc; omega
    · exact ih

theorem specGraph_layered (d : ZDiagram) (h : d.WF) :
    Layered (specGraph d) d.dom (nSpiders d.boxes) d.cod := by
  obtain ⟨st, h1, inv, he, hv, hs⟩ := stepBoxes_spec d.boxes 0 (expInit_inv d.dom) h
  have dinv := stepBoxes_deg d.boxes 0 (expInit_inv d.dom) (expInit_deg d.dom) h h1
  simp only [List.append_nil] at inv dinv
  have hn : st.verts.length = d.dom + nSpiders d.boxes := by
    have := inv.nverts; simpa [nSpiders_reverse] using this
  have hse : st.edges = specEdges d.dom [] d.boxes := by rw [he]; simp [expInit]
  refine ⟨rfl, rfl, ?_, ?_, ?_, innerNodes_spec d⟩
  · intro e hm
    simp only [specGraph, List.mem_append] at hm
    rcases hm with hm | hm
    · have ht := specEdges_t_ge d.dom d.boxes [] e hm
      rw [← hse] at hm
      have := dinv.ends e hm
      omega
    · obtain ⟨i, hi, rfl⟩ := List.mem_map.1 hm
      simp only [List.mem_range] at hi
      simp only [mkEdge]
      have hlt : i < st.scan.length := by rw [inv.len]; exact hi
      have hp : producer d.dom d.boxes.reverse i = some st.scan[i] := by
        rw [← inv.scan, List.getElem?_eq_getElem hlt]
      have hl := dinv.labels st.scan[i] (List.getElem_mem hlt)
      simp only [producerD, hp, Option.getD_some]
      omega
  · intro v hv
    rw [toPyzx_degree d h, vertexLegs]
    have : v < d.dom + nSpiders d.boxes := by omega
    simp only [this, if_true]
    exact legsOf_input _ _ _ hv
  · intro i hi
    rw [toPyzx_degree d h, vertexLegs]
    have a : ¬ d.dom + nSpiders d.boxes + i < d.dom + nSpiders d.boxes := by omega
    have b : d.dom + nSpiders d.boxes + i < d.dom + nSpiders d.boxes + d.cod := by omega
    simp only [a, b, if_true, if_false]

/-- **Round trip: the imported diagram has the inputs and outputs of the exported one** — in the
    tree and with every combination of the repairs, whenever the import does not raise. -/
theorem roundtrip_cod (fix : Fix) (d d' : ZDiagram) (h : d.WF)
    (hrt : fromPyzxWith fix (specGraph d) = .ok d') : d'.cod = d.cod ∧ d'.dom = d.dom :=
  (specGraph_layered d h).fromPyzxWith_cod fix d' hrt

end DV.Pyzx
