/-
  Proofs/CircuitCyc8.lean — the whole-circuit theorems of Proofs/CircuitAlg.lean for the EXECUTABLE model
  (`evalCirc`, `Circ.dagger`, `circuit2zx`, `ZXDiag.eval`, `ZXDiag.dagger` of Model/Gates.lean over `Cyc8`).

  `Cyc8` with its normalising operations is not literally a ring (un-normalised values are distinct
  representations of one number), so the theorems are transported along `Cyc8.val : Cyc8 → ℚ(ζ₈)`
  (Proofs/Cyc8Ring.lean): `val` commutes with every matrix operation (Proofs/MatHom.lean), the ring
  theorem is applied in ℚ(ζ₈), and equality is pulled back because `val` is injective on normalised
  values and every operation preserves normalisation (`eq_of_val`).

  The per-box facts enter as decidable predicates on a gate (`Gate.isoOK`, `coisoOK`, `dagOK`, `zxOK`), which
  Proofs/CircuitTables.lean establishes for the gate set by `decide`.
-/
import Proofs.MatHom
import Proofs.Cyc8Ring
import Proofs.ZXTableFixed

namespace DV.Gates
open DV

/-! ### transport along `val` -/

theorem val_isHom : IsHom Cyc8.val :=
  ⟨Cyc8.val_zero, Cyc8.val_one, Cyc8.val_add, Cyc8.val_mul, Cyc8.val_neg, Cyc8.val_conj⟩

/-- Normalised. -/
def Nrm (x : Cyc8) : Prop := x.isNormal = true

theorem nrm_closed : IsClosed Nrm :=
  ⟨Cyc8.isNormal_zero, Cyc8.isNormal_one, Cyc8.isNormal_add, Cyc8.isNormal_mul, Cyc8.isNormal_neg,
   Cyc8.isNormal_conj⟩

/-- **Pull-back of equalities**: matrices of normalised values with the same image are equal. -/
theorem eq_of_val {A B : M8} (hA : AllEnt Nrm A) (hB : AllEnt Nrm B)
    (h : mapM Cyc8.val A = mapM Cyc8.val B) : A = B :=
  mapM_inj_on (P := Nrm) (fun _ _ hx hy => Cyc8.val_inj hx hy) hA hB h

def allNormalB (A : M8) : Bool := A.all (·.all Cyc8.isNormal)
def isMatB (m n : Nat) (A : M8) : Bool := A.length == m && A.all (·.length == n)

theorem allEnt_of_allNormalB {A : M8} (h : allNormalB A = true) : AllEnt Nrm A := by
  intro r hr x hx
  simp only [allNormalB, List.all_eq_true] at h
  exact h r hr x hx

theorem isMat_of_isMatB {m n : Nat} {A : M8} (h : isMatB m n A = true) : IsMat m n A := by
  simp only [isMatB, Bool.and_eq_true, beq_iff_eq, List.all_eq_true] at h
  exact h

theorem mapL_Ldagger (L : Layers Cyc8) :
    mapL Cyc8.val (Ldagger L) = Ldagger (mapL Cyc8.val L) := by
  simp only [Ldagger, mapL, List.map_map, List.map_reverse]
  congr 1
  apply List.map_congr_left
  intro x _
  simp [mapM_dagger val_isHom]

/-! ### circuits -/

/-- Typing scan of a circuit on `w` qubits: every layer `(l, g, r)` has `l + dom g + r` wires. -/
def Circ.codFrom : Nat → Circ → Option Nat
  | w, [] => some w
  | w, (l, g, r) :: rest => if l + g.dom + r = w then Circ.codFrom (l + g.cod + r) rest else none

def Circ.layers (c : Circ) : Layers Cyc8 := c.map fun x => (x.1, x.2.1.eval, x.2.2)

theorem evalCirc_eq (n : Nat) (c : Circ) : evalCirc n c = evalLayers n c.layers :=
  evalCircFrom_eq _ c

/-- The evaluation of the gate is a `2^dom × 2^cod` matrix of normalised values. -/
def Gate.shapeOK (g : Gate) : Bool := isMatB (pow2 g.dom) (pow2 g.cod) g.eval && allNormalB g.eval
/-- `⟦g⟧·⟦g⟧† = 1`. -/
def Gate.isoOK (g : Gate) : Bool := g.shapeOK && mul g.eval (Gates.dagger g.eval) == idQ g.dom
/-- `⟦g⟧†·⟦g⟧ = 1`. -/
def Gate.coisoOK (g : Gate) : Bool := g.shapeOK && mul (Gates.dagger g.eval) g.eval == idQ g.cod
/-- `⟦g†⟧ = ⟦g⟧†`. -/
def Gate.dagOK (g : Gate) : Bool := g.shapeOK && g.dagger.eval == Gates.dagger g.eval

theorem Gate.shapeOK_spec {g : Gate} (h : g.shapeOK = true) :
    IsMat (pow2 g.dom) (pow2 g.cod) g.eval ∧ AllEnt Nrm g.eval := by
  simp only [Gate.shapeOK, Bool.and_eq_true] at h
  exact ⟨isMat_of_isMatB h.1, allEnt_of_allNormalB h.2⟩

theorem layers_typed {n m : Nat} {c : Circ} (ht : Circ.codFrom n c = some m)
    (hg : ∀ x ∈ c, x.2.1.shapeOK = true) : LTyped n (mapL Cyc8.val c.layers) m := by
  induction c generalizing n with
  | nil => simp only [Circ.codFrom, Option.some.injEq] at ht; subst ht; exact LTyped.nil _
  | cons x rest ih =>
    obtain ⟨l, g, r⟩ := x
    simp only [Circ.codFrom] at ht
    split at ht
    · rename_i hw
      subst hw
      exact LTyped.cons (Gate.shapeOK_spec (hg _ (by simp))).1.mapM
        (ih ht fun y hy => hg y (by simp [hy]))
    · cases ht

theorem layers_allEnt {c : Circ} (hg : ∀ x ∈ c, x.2.1.shapeOK = true) :
    ∀ x ∈ c.layers, AllEnt Nrm x.2.1 := by
  intro x hx
  simp only [Circ.layers, List.mem_map] at hx
  obtain ⟨y, hy, rfl⟩ := hx
  exact (Gate.shapeOK_spec (hg y hy)).2

theorem evalCirc_allEnt (n : Nat) {c : Circ} (hg : ∀ x ∈ c, x.2.1.shapeOK = true) :
    AllEnt Nrm (evalCirc n c) := by
  rw [evalCirc_eq]; exact AllEnt.evalLayers nrm_closed n (layers_allEnt hg)

theorem evalCirc_isMat {n m : Nat} {c : Circ} (ht : Circ.codFrom n c = some m)
    (hg : ∀ x ∈ c, x.2.1.shapeOK = true) : IsMat (pow2 n) (pow2 m) (evalCirc n c) := by
  have := evalLayers_isMat (layers_typed ht hg)
  rw [← mapM_evalLayers val_isHom, ← evalCirc_eq] at this
  refine ⟨by simpa [mapM] using this.1, ?_⟩
  intro r hr
  have := this.2 (r.map Cyc8.val) (by simp only [mapM, List.mem_map]; exact ⟨r, hr, rfl⟩)
  simpa using this

/-- **C11, whole circuits**: a well-typed circuit of gates with `⟦g⟧⟦g⟧† = 1` satisfies `⟦c⟧⟦c⟧† = 1`. -/
theorem evalCirc_isometry {n m : Nat} {c : Circ} (ht : Circ.codFrom n c = some m)
    (hg : ∀ x ∈ c, x.2.1.isoOK = true) :
    mul (evalCirc n c) (dagger (evalCirc n c)) = idQ n := by
  have hs : ∀ x ∈ c, x.2.1.shapeOK = true := fun x hx => by
    have := hg x hx; simp only [Gate.isoOK, Bool.and_eq_true] at this; exact this.1
  have hiso : LIsometric n (mapL Cyc8.val c.layers) m := by
    clear hs
    induction c generalizing n with
    | nil => simp only [Circ.codFrom, Option.some.injEq] at ht; subst ht; exact LIsometric.nil _
    | cons x rest ih =>
      obtain ⟨l, g, r⟩ := x
      simp only [Circ.codFrom] at ht
      split at ht
      · rename_i hw
        subst hw
        have h1 := hg (l, g, r) (by simp)
        simp only [Gate.isoOK, Bool.and_eq_true, beq_iff_eq] at h1
        refine LIsometric.cons (Gate.shapeOK_spec h1.1).1.mapM ?_ (ih ht fun y hy => hg y (by simp [hy]))
        rw [← mapM_dagger val_isHom, ← mapM_mul val_isHom, h1.2, mapM_idQ val_isHom]
      · cases ht
  have hE := evalCirc_allEnt n hs
  apply eq_of_val (hE.mul nrm_closed (hE.dagger nrm_closed)) (AllEnt.idQ nrm_closed n)
  rw [mapM_mul val_isHom, mapM_dagger val_isHom, mapM_idQ val_isHom, evalCirc_eq,
    mapM_evalLayers val_isHom]
  exact evalLayers_isometry hiso

/-- … and of gates with `⟦g⟧†⟦g⟧ = 1` satisfies `⟦c⟧†⟦c⟧ = 1`. -/
theorem evalCirc_coisometry {n m : Nat} {c : Circ} (ht : Circ.codFrom n c = some m)
    (hg : ∀ x ∈ c, x.2.1.coisoOK = true) :
    mul (dagger (evalCirc n c)) (evalCirc n c) = idQ m := by
  have hs : ∀ x ∈ c, x.2.1.shapeOK = true := fun x hx => by
    have := hg x hx; simp only [Gate.coisoOK, Bool.and_eq_true] at this; exact this.1
  have hiso : LCoisometric n (mapL Cyc8.val c.layers) m := by
    clear hs
    induction c generalizing n with
    | nil => simp only [Circ.codFrom, Option.some.injEq] at ht; subst ht; exact LCoisometric.nil _
    | cons x rest ih =>
      obtain ⟨l, g, r⟩ := x
      simp only [Circ.codFrom] at ht
      split at ht
      · rename_i hw
        subst hw
        have h1 := hg (l, g, r) (by simp)
        simp only [Gate.coisoOK, Bool.and_eq_true, beq_iff_eq] at h1
        refine LCoisometric.cons (Gate.shapeOK_spec h1.1).1.mapM ?_ (ih ht fun y hy => hg y (by simp [hy]))
        rw [← mapM_dagger val_isHom, ← mapM_mul val_isHom, h1.2, mapM_idQ val_isHom]
      · cases ht
  have hE := evalCirc_allEnt n hs
  apply eq_of_val ((hE.dagger nrm_closed).mul nrm_closed hE) (AllEnt.idQ nrm_closed m)
  rw [mapM_mul val_isHom, mapM_dagger val_isHom, mapM_idQ val_isHom, evalCirc_eq,
    mapM_evalLayers val_isHom]
  exact evalLayers_coisometry hiso

theorem Gate.dagger_dom : ∀ g : Gate, g.dagger.dom = g.cod
  | .q _ | .rot _ _ | .ket _ | .bra _ | .swap | .scalar _ => rfl
  | .sqrt z r => by simp only [Gate.dagger, sqrtDaggerW]; split <;> rfl
  | .ctrl g => by simp [Gate.dagger, Gate.dom, Gate.cod, Gate.dagger_dom g]

theorem Gate.dagger_cod : ∀ g : Gate, g.dagger.cod = g.dom
  | .q _ | .rot _ _ | .ket _ | .bra _ | .swap | .scalar _ => rfl
  | .sqrt z r => by simp only [Gate.dagger, sqrtDaggerW]; split <;> rfl
  | .ctrl g => by simp [Gate.dagger, Gate.dom, Gate.cod, Gate.dagger_cod g]

/-- The dagger of a well-typed circuit is well typed the other way round. -/
theorem Circ.dagger_codFrom {n m : Nat} {c : Circ} (ht : Circ.codFrom n c = some m) :
    Circ.codFrom m (Circ.dagger c) = some n := by
  have app : ∀ (c c' : Circ) (w : Nat),
      Circ.codFrom w (c ++ c') = (Circ.codFrom w c).bind fun k => Circ.codFrom k c' := by
    intro c
    induction c with
    | nil => intro c' w; rfl
    | cons x rest ih =>
      intro c' w
      obtain ⟨l, g, r⟩ := x
      simp only [List.cons_append, Circ.codFrom]
      split
      · exact ih _ _
      · rfl
  induction c generalizing n with
  | nil => simpa [Circ.dagger, Circ.codFrom] using ht.symm
  | cons x rest ih =>
    obtain ⟨l, g, r⟩ := x
    simp only [Circ.codFrom] at ht
    split at ht
    · rename_i hw
      have e : Circ.dagger ((l, g, r) :: rest) = Circ.dagger rest ++ [(l, g.dagger, r)] := by
        simp [Circ.dagger]
      rw [e, app, ih ht]
      simp [Circ.codFrom, Gate.dagger_dom, Gate.dagger_cod, hw]
    · cases ht

/-- **C11, whole circuits**: `⟦c†⟧ = ⟦c⟧†` for a well-typed circuit of gates with `⟦g†⟧ = ⟦g⟧†`. -/
theorem evalCirc_dagger {n m : Nat} {c : Circ} (ht : Circ.codFrom n c = some m)
    (hg : ∀ x ∈ c, x.2.1.dagOK = true) :
    evalCirc m (Circ.dagger c) = dagger (evalCirc n c) := by
  have hs : ∀ x ∈ c, x.2.1.shapeOK = true := fun x hx => by
    have := hg x hx; simp only [Gate.dagOK, Bool.and_eq_true] at this; exact this.1
  have hl : (Circ.dagger c).layers = Ldagger c.layers := by
    simp only [Circ.dagger, Circ.layers, Ldagger, List.map_map, List.map_reverse]
    congr 1
    apply List.map_congr_left
    intro x hx
    have := hg x hx
    simp only [Gate.dagOK, Bool.and_eq_true, beq_iff_eq] at this
    simp [this.2]
  have hE := evalCirc_allEnt n hs
  have hD : AllEnt Nrm (evalCirc m (Circ.dagger c)) := by
    rw [evalCirc_eq, hl]
    apply AllEnt.evalLayers nrm_closed
    intro x hx
    simp only [Ldagger, List.mem_map, List.mem_reverse] at hx
    obtain ⟨y, hy, rfl⟩ := hx
    exact (layers_allEnt hs y hy).dagger nrm_closed
  apply eq_of_val hD (hE.dagger nrm_closed)
  rw [mapM_dagger val_isHom, evalCirc_eq, evalCirc_eq, mapM_evalLayers val_isHom,
    mapM_evalLayers val_isHom, hl, mapL_Ldagger]
  exact evalLayers_dagger (layers_typed ht hs)

/-! ### ZX diagrams -/

theorem Cyc8.zetaPow_neg (p : Int) : Cyc8.zetaPow (-p) = (Cyc8.zetaPow p).conj := by
  have tab : ∀ j : Fin 8, Cyc8.zetaPowNat ((8 - j.val) % 8) = (Cyc8.zetaPowNat j.val).conj := by decide
  unfold Cyc8.zetaPow
  have hj : (p % 8).toNat < 8 := by omega
  have := tab ⟨(p % 8).toNat, hj⟩
  simp only at this
  rw [← this]
  congr 1
  omega

theorem star_val_invSqrt2 : star (Cyc8.val Cyc8.invSqrt2) = Cyc8.val Cyc8.invSqrt2 := by
  rw [← Cyc8.val_conj]; rfl

def ZXBox.normal : ZXBox → Bool
  | .scalar s => s.isNormal
  | _ => true

/-- Every scalar box of the diagram carries a normalised value (what the driver's parser produces). -/
def ZXDiag.normal (d : ZXDiag) : Bool := d.all (·.1.normal)

theorem ZXDiag.paramOK_of_normal {d : ZXDiag} (h : d.normal = true) :
    ∀ x ∈ d.sem, x.1.paramOK Nrm := by
  intro x hx
  simp only [ZXDiag.sem, List.mem_map] at hx
  obtain ⟨y, hy, rfl⟩ := hx
  obtain ⟨b, o⟩ := y
  simp only [ZXDiag.normal, List.all_eq_true] at h
  have := h (b, o) hy
  cases b with
  | z n m p => exact Cyc8.isNormal_zetaPow p
  | x n m p => exact Cyc8.isNormal_zetaPow p
  | h => trivial
  | swap => trivial
  | scalar s => exact this

theorem ZXDiag.eval_allEnt (w : Nat) {d : ZXDiag} (h : d.normal = true) :
    AllEnt Nrm (ZXDiag.eval w d) :=
  AllEnt.evalZX nrm_closed (ρ := Cyc8.invSqrt2) (by rfl) w (ZXDiag.paramOK_of_normal h)

theorem ZXDiag.dagger_normal {d : ZXDiag} (h : d.normal = true) : d.dagger.normal = true := by
  simp only [ZXDiag.normal, ZXDiag.dagger, List.all_eq_true, List.mem_map, List.mem_reverse] at h ⊢
  rintro x ⟨y, hy, rfl⟩
  have := h y hy
  obtain ⟨b, o⟩ := y
  cases b <;> simp_all [ZXBox.dagger, ZXBox.normal]
  exact Cyc8.isNormal_conj this

theorem sem_dagger_map (d : ZXDiag) :
    (d.dagger.sem).mapD Cyc8.val = ((d.sem).mapD Cyc8.val).daggerS := by
  simp only [ZXDiag.dagger, ZXDiag.sem, ZXD.mapD, ZXD.daggerS, List.map_map, List.map_reverse]
  congr 1
  apply List.map_congr_left
  intro x _
  obtain ⟨b, o⟩ := x
  cases b <;>
    simp [Function.comp_def, ZXBox.dagger, ZXBox.sem, ZXB.map, ZXB.daggerS, Cyc8.zetaPow_neg, Cyc8.val_conj]

/-- **C16, whole diagrams**: `⟦d†⟧ = ⟦d⟧ᴴ` for every well-typed ZX diagram (normalised scalars). -/
theorem ZXDiag.eval_dagger {n m : Nat} {d : ZXDiag} (ht : ZXDiag.codFrom n d = some m)
    (hn : d.normal = true) : ZXDiag.eval m d.dagger = Gates.dagger (ZXDiag.eval n d) := by
  apply eq_of_val (ZXDiag.eval_allEnt m (ZXDiag.dagger_normal hn))
    ((ZXDiag.eval_allEnt n hn).dagger nrm_closed)
  rw [mapM_dagger val_isHom]
  unfold ZXDiag.eval
  rw [mapM_evalZX val_isHom, mapM_evalZX val_isHom, sem_dagger_map]
  apply evalZX_dagger _ star_val_invSqrt2
  rw [codFrom_map, ← codFrom_sem]; exact ht

/-- The image of a gate under the corrected `gate2zx` is a well-typed diagram with normalised
    scalars denoting `k • ⟦g⟧`, and `k` has the inverse `k'`. -/
def Gate.zxOK (g : Gate) (k k' : Cyc8) : Bool :=
  match gate2zx true g with
  | .ok d => g.shapeOK && d.normal && ZXDiag.codFrom g.dom d == some g.cod &&
      ZXDiag.eval g.dom d == msmul k g.eval && k.isNormal && k'.isNormal && k * k' == 1
  | .error _ => false

theorem sem_shift_map (l : Nat) (d : ZXDiag) :
    (ZXDiag.sem (d.map fun x => (x.1, x.2 + l))).mapD Cyc8.val = zxShift l ((d.sem).mapD Cyc8.val) := by
  simp [ZXDiag.sem, ZXD.mapD, zxShift, List.map_map, Function.comp_def]

/-- **C16, whole circuits**: the image of a well-typed circuit under the corrected `circuit2zx` denotes
    `K • ⟦c⟧` for ONE scalar `K` (the product of the scalars of the gates), which is invertible, hence
    non-zero. -/
theorem circuit2zx_sound_of {n m : Nat} {c : Circ} {d : ZXDiag} (ht : Circ.codFrom n c = some m)
    (hg : ∀ x ∈ c, ∃ k k', x.2.1.zxOK k k' = true) (h : circuit2zx true c = .ok d) :
    ∃ K K' : Cyc8, K ≠ 0 ∧ Cyc8.val K * Cyc8.val K' = 1 ∧ ZXDiag.codFrom n d = some m ∧
      ZXDiag.eval n d = msmul K (evalCirc n c) := by
  have hs : ∀ x ∈ c, x.2.1.shapeOK = true := fun x hx => by
    obtain ⟨k, k', hk⟩ := hg x hx
    simp only [Gate.zxOK] at hk
    split at hk
    · simp only [Bool.and_eq_true] at hk; exact hk.1.1.1.1.1.1
    · cases hk
  have key : ∃ K K' : Cyc8, Nrm K ∧ Cyc8.val K * Cyc8.val K' = 1 ∧ d.normal = true ∧
      ∃ ks : List Q8, ks.prod = Cyc8.val K ∧
        ZXImage (Cyc8.val Cyc8.invSqrt2) n (mapL Cyc8.val c.layers) ((d.sem).mapD Cyc8.val) ks m := by
    clear hs
    induction c generalizing n d with
    | nil =>
      simp only [Circ.codFrom, Option.some.injEq] at ht; subst ht
      simp only [circuit2zx, Except.ok.injEq] at h; subst h
      exact ⟨1, 1, rfl, by rw [Cyc8.val_one, mul_one], rfl, [], by simp [Cyc8.val_one], ZXImage.nil _⟩
    | cons x rest ih =>
      obtain ⟨l, g, r⟩ := x
      simp only [Circ.codFrom] at ht
      split at ht
      · rename_i hw
        subst hw
        obtain ⟨k, k', hk⟩ := hg (l, g, r) (by simp)
        simp only [Gate.zxOK] at hk
        simp only [circuit2zx] at h
        split at h
        · rename_i dg ds hdg hds
          simp only [Except.ok.injEq] at h; subst h
          rw [hdg] at hk
          simp only [Bool.and_eq_true, beq_iff_eq] at hk
          obtain ⟨⟨⟨⟨⟨⟨hsh, hnd⟩, hcod⟩, hev⟩, hkn⟩, hkn'⟩, hkk⟩ := hk
          obtain ⟨K, K', hK, hKK, hdn, ks, hks, himg⟩ := ih ht (fun y hy => hg y (by simp [hy])) hds
          refine ⟨k * K, k' * K', Cyc8.isNormal_mul hkn hK, ?_, ?_, Cyc8.val k :: ks, ?_, ?_⟩
          · rw [Cyc8.val_mul, Cyc8.val_mul]
            have : Cyc8.val k * Cyc8.val k' = 1 := by rw [← Cyc8.val_mul, hkk, Cyc8.val_one]
            calc Cyc8.val k * Cyc8.val K * (Cyc8.val k' * Cyc8.val K')
                = (Cyc8.val k * Cyc8.val k') * (Cyc8.val K * Cyc8.val K') := by ring
              _ = 1 := by rw [this, hKK, mul_one]
          · simp only [ZXDiag.normal, List.all_append, List.all_map, Bool.and_eq_true] at hnd hdn ⊢
            exact ⟨by simpa [Function.comp_def] using hnd, hdn⟩
          · rw [List.prod_cons, hks, Cyc8.val_mul]
          · have e : ((ZXDiag.sem ((dg.map fun x => (x.1, x.2 + l)) ++ ds)).mapD Cyc8.val) =
                zxShift l ((dg.sem).mapD Cyc8.val) ++ (ds.sem).mapD Cyc8.val := by
              rw [← sem_shift_map]; simp [ZXDiag.sem, ZXD.mapD]
            simp only [Circ.layers, mapL, List.map_cons] at himg ⊢
            rw [e]
            refine ZXImage.cons (Gate.shapeOK_spec hsh).1.mapM ?_ ?_ himg
            · rw [codFrom_map, ← codFrom_sem]; exact hcod
            · rw [← mapM_evalZX val_isHom, ← mapM_msmul val_isHom]
              exact congrArg _ hev
        · cases h
        · cases h
      · cases ht
  obtain ⟨K, K', hK, hKK, hdn, ks, hks, himg⟩ := key
  obtain ⟨_, hcod, hev⟩ := evalZX_image _ himg
  refine ⟨K, K', Cyc8.val_ne_zero_of_unit hKK, hKK, ?_, ?_⟩
  · rw [codFrom_map, ← codFrom_sem] at hcod; exact hcod
  · apply eq_of_val (ZXDiag.eval_allEnt n hdn) ((evalCirc_allEnt n hs).msmul nrm_closed hK)
    rw [mapM_msmul val_isHom, evalCirc_eq, mapM_evalLayers val_isHom, ← hks, ← hev]
    unfold ZXDiag.eval
    rw [mapM_evalZX val_isHom]

end DV.Gates
