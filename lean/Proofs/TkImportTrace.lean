/-
  Proofs/TkImportTrace.lean — the import places every gate on the units tket names (C13):
  following wire identities through the description built by the model of `from_tk` gives the
  command list of the tket circuit (`ImpSpec.run`).
-/
import Proofs.TkImportWT

namespace DV.Tk
open DV

/-! ### offsets of the swap diagrams -/

def offs (ls : Layers) : List Nat := ls.map (·.2)

theorem offs_append (a b : Layers) : offs (a ++ b) = offs a ++ offs b := by simp [offs]

theorem offs_shift (k : Nat) (ls : Layers) : offs (shiftLayers k ls) = (offs ls).map (· + k) := by
  simp [offs, shiftLayers, Function.comp_def]

theorem offs_oneSwap (l : W) (right : List W) : offs (oneSwap l right) = List.range' 0 right.length := by
  simp only [offs, oneSwap, List.map_map, Function.comp_def]
  have : (List.map (fun x : W × Nat => x.2) right.zipIdx) = List.range' 0 right.length := by
    rw [List.zipIdx_eq_zip_range', List.map_snd_zip]
    simp
  exact this

theorem offs_swapBoxes_one (l : W) (right : List W) : offs (swapBoxes [l] right) = List.range' 0 right.length := by
  simp only [swapBoxes, shiftLayers, List.map_nil, List.nil_append]
  exact offs_oneSwap l right

theorem offs_swapBoxes_past_one (left : List W) (r : W) :
    offs (swapBoxes left [r]) = (List.range' 0 left.length).reverse := by
  induction left with
  | nil => simp [swapBoxes, offs]
  | cons l tl ih =>
    simp only [swapBoxes, offs_append, offs_shift, ih, offs_oneSwap, List.length_cons, List.length_nil]
    have e : List.range' 0 (tl.length + 1) = 0 :: List.range' 1 tl.length := by
      rw [List.range'_succ]
    have e2 : List.map (fun x => x + 1) (List.range' 0 tl.length) = List.range' 1 tl.length := by
      have := List.map_add_range' (a := 1) 0 tl.length 1
      simpa [Nat.add_comm] using this
    rw [e, List.reverse_cons, List.map_reverse, e2]
    simp

theorem slice_length {α} (xs : List α) (a b : Nat) (hb : b ≤ xs.length) : (slice xs a b).length = b - a := by
  simp [slice, List.length_drop, List.length_take, Nat.min_eq_left hb]

theorem take_slice {α} (xs : List α) (a b : Nat) (h : a ≤ b) : xs.take a ++ slice xs a b = xs.take b := by
  unfold slice
  have : xs.take a = (xs.take b).take a := by rw [List.take_take, Nat.min_eq_left h]
  rw [this, List.take_append_drop]

theorem slice_drop {α} (xs : List α) (n a b : Nat) : slice (xs.drop n) a b = slice xs (n + a) (n + b) := by
  unfold slice
  rw [List.take_drop, List.drop_drop]

theorem framed_layers (A C : List W) (d : D) :
    (((D.id A).tensor d).tensor (D.id C)).layers = shiftLayers A.length d.layers ∧
      (((D.id A).tensor d).tensor (D.id C)).dom = A ++ d.dom ++ C ∧
      (((D.id A).tensor d).tensor (D.id C)).cod = A ++ d.cod ++ C := by
  simp [D.tensor, D.id, shiftLayers]

theorem range'_map_add (s n k : Nat) : (List.range' s n).map (· + k) = List.range' (s + k) n := by
  have := List.map_add_range' (a := k) s n 1
  simpa [Nat.add_comm] using this

theorem offs_moveRight (cod : List W) (s t : Nat) (hst : s < t) (ht : t ≤ cod.length) :
    offs (moveRight cod s t).layers = List.range' s (t - 1 - s) ∧ (moveRight cod s t).dom = cod := by
  obtain ⟨hl, hd, _⟩ := framed_layers (cod.take s) (cod.drop t) (D.swap (slice cod s (s + 1)) (slice cod (s + 1) t))
  have h1 : (slice cod s (s + 1)).length = 1 := by rw [slice_length _ _ _ (by omega)]; omega
  obtain ⟨l, hl1⟩ := List.length_eq_one_iff.mp h1
  have h2 : (slice cod (s + 1) t).length = t - 1 - s := by rw [slice_length _ _ _ ht]; omega
  have hts : (cod.take s).length = s := by simp; omega
  unfold moveRight
  rw [hl, hd]
  constructor
  · simp only [D.swap, hl1, offs_shift, offs_swapBoxes_one, h2, hts, range'_map_add, Nat.zero_add]
  · simp only [D.swap]
    have e1 := slice_split cod s (s + 1) (by omega)
    have e2 := slice_split cod (s + 1) t (by omega)
    calc cod.take s ++ (slice cod s (s + 1) ++ slice cod (s + 1) t) ++ cod.drop t
        = (cod.take s ++ slice cod s (s + 1)) ++ slice cod (s + 1) t ++ cod.drop t := by simp [List.append_assoc]
      _ = cod.take (s + 1) ++ slice cod (s + 1) t ++ cod.drop t := by
          congr 2
          have := congrArg (List.take (s + 1)) e1
          simp only [List.append_assoc] at this
          rw [← List.append_assoc, List.take_append_of_le_length (by simp [h1, hts])] at this
          rw [List.take_of_length_le (by simp [h1, hts])] at this
          exact this
      _ = cod := e2

theorem offs_moveLeft (cod : List W) (s t : Nat) (hts : t ≤ s) (hs : s < cod.length) :
    offs (moveLeft cod s t).layers = (List.range' t (s - t)).reverse ∧ (moveLeft cod s t).dom = cod := by
  obtain ⟨hl, hd, _⟩ := framed_layers (cod.take t) (cod.drop (s + 1)) (D.swap (slice cod t s) (slice cod s (s + 1)))
  have h1 : (slice cod s (s + 1)).length = 1 := by rw [slice_length _ _ _ (by omega)]; omega
  obtain ⟨r, hr⟩ := List.length_eq_one_iff.mp h1
  have h2 : (slice cod t s).length = s - t := by rw [slice_length _ _ _ (by omega)]
  have htt : (cod.take t).length = t := by simp; omega
  unfold moveLeft
  rw [hl, hd]
  constructor
  · simp only [D.swap, hr, offs_shift, offs_swapBoxes_past_one, h2, htt, List.map_reverse, range'_map_add,
      Nat.zero_add]
  · simp only [D.swap]
    rw [← List.append_assoc, take_slice _ _ _ (by omega), take_slice _ _ _ (by omega), List.take_append_drop]

theorem offs_measureSwaps (cod : List W) (nq q bi : Nat) (hq : q < nq) (h : nq + bi < cod.length) :
    offs (measureSwaps cod nq q bi).layers = (List.range' (q + 1) (nq + bi - (q + 1))).reverse ∧
      (measureSwaps cod nq q bi).dom = cod := by
  have e : measureSwaps cod nq q bi = moveLeft cod (nq + bi) (q + 1) := by
    simp only [measureSwaps, moveLeft, slice_drop, Nat.add_assoc]
  rw [e]
  exact offs_moveLeft cod (nq + bi) (q + 1) (by omega) h

/-! ### the typed `make_units_adjacent` builds the swaps of the position model -/

theorem D.id_then (t : List W) (x : D) (h : x.dom = t) : (D.id t).then x = .ok ⟨t, x.cod, x.layers⟩ := by
  simp [D.then, D.id, h]

theorem muaT_pair (units : List W) (a b : Nat) (ha : a < units.length) (hb : b < units.length) (hab : a ≠ b) :
    ∃ sw, makeUnitsAdjacentT units [a, b] = .ok ((makeUnitsAdjacent [a, b]).1, sw) ∧ sw.dom = units ∧
      offs sw.layers = (makeUnitsAdjacent [a, b]).2 := by
  rw [makeUnitsAdjacent_pair]
  have e : (D.id units).cod = units := rfl
  simp only [makeUnitsAdjacentT, muaLoopT, Nat.add_zero, e]
  by_cases h1 : b < a + 1
  · obtain ⟨ho, hd⟩ := offs_moveRight units b (a + 1) h1 (by omega)
    simp only [h1, if_true, D.id_then _ _ hd, muaLoopT]
    exact ⟨_, rfl, rfl, ho⟩
  · by_cases h2 : b > a + 1
    · obtain ⟨ho, hd⟩ := offs_moveLeft units b (a + 1) (by omega) hb
      simp only [h1, h2, if_true, if_false, D.id_then _ _ hd, muaLoopT]
      exact ⟨_, rfl, rfl, ho⟩
    · simp only [h1, h2, if_false, muaLoopT]
      exact ⟨_, rfl, rfl, rfl⟩

theorem muaT_single (units : List W) (a : Nat) : makeUnitsAdjacentT units [a] = .ok (a, D.id units) := rfl

/-! ### following wire identities -/

def Tr.runFrom (t : Tr) (ls : Layers) : Tr := ls.foldl Tr.step t

theorem Tr.run_eq (ls : Layers) : Tr.run ls = Tr.runFrom {} ls := rfl

theorem Tr.runFrom_append (t : Tr) (a b : Layers) : t.runFrom (a ++ b) = (t.runFrom a).runFrom b := by
  simp [Tr.runFrom, List.foldl_append]

/-- Swap boxes only exchange ids. -/
theorem Tr.runFrom_swaps (t : Tr) (ls : Layers) (h : allSwaps ls = true) :
    t.runFrom ls = { t with arr := (offs ls).foldl swapAt t.arr } := by
  induction ls generalizing t with
  | nil => rfl
  | cons l ls ih =>
    obtain ⟨b, off⟩ := l
    have h1 : isSwapBox b = true ∧ allSwaps ls = true := by
      simpa only [allSwaps, List.all_cons, Bool.and_eq_true] using h
    cases b with
    | swap x y =>
      have := ih { t with arr := swapAt t.arr off } h1.2
      simp only [Tr.runFrom, List.foldl_cons, Tr.step, offs, List.map_cons] at this ⊢
      exact this
    | _ => exact absurd h1.1 (by simp [isSwapBox])

theorem offs_daggerSwaps (a : D) : offs a.daggerSwaps.layers = (offs a.layers).reverse := by
  simp [D.daggerSwaps, offs, List.map_reverse, Function.comp_def]

theorem allSwaps_daggerSwaps (a : D) (h : allSwaps a.layers = true) : allSwaps a.daggerSwaps.layers = true := by
  simp only [D.daggerSwaps, allSwaps, List.all_reverse, List.all_map] at h ⊢
  rw [List.all_eq_true] at h ⊢
  intro l hl
  have := h l hl
  obtain ⟨b, off⟩ := l
  cases b <;> simp_all [isSwapBox, daggerSwapBox]

/-- Swaps act on positions: renaming the wires commutes with them. -/
theorem foldl_swapAt_map {α β} (f : α → β) (os : List Nat) (xs : List α) :
    os.foldl swapAt (xs.map f) = (os.foldl swapAt xs).map f := by
  induction os generalizing xs with
  | nil => rfl
  | cons o os ih => simp only [List.foldl_cons, ← swapAt_map, ih]

theorem map_idAt_range (σ : List Nat) : (List.range σ.length).map (idAt σ) = σ := by
  apply List.ext_getElem?
  intro j
  simp only [List.getElem?_map]
  by_cases h : j < σ.length
  · simp [List.getElem?_eq_getElem h, h, idAt]
  · simp [List.getElem?_eq_none (Nat.le_of_not_lt h), h]

/-- The arrangement of arbitrary ids is the arrangement of positions, relabelled. -/
theorem foldl_swapAt_ids (os : List Nat) (σ : List Nat) :
    os.foldl swapAt σ = (arrangement σ.length os).map (idAt σ) := by
  unfold arrangement
  rw [← foldl_swapAt_map, map_idAt_range]

/-! ### one command -/

theorem place_layers {circuit sw : D} {box : TBox} {off : Nat} {d : D} (h : place circuit sw box off = .ok d) :
    d.layers = circuit.layers ++ sw.layers ++ (boxLayer sw.cod box off).layers ++ sw.daggerSwaps.layers ∧
      d.cod = circuit.cod ∧ circuit.cod = sw.dom := by
  unfold place at h
  split at h
  · cases h
  · rename_i c1 h1
    split at h
    · cases h
    · rename_i c2 h2
      unfold D.then at h1 h2 h
      split at h1 <;> try cases h1
      split at h2 <;> try cases h2
      split at h <;> try cases h
      rename_i e1 _ _
      exact ⟨rfl, by simp [D.daggerSwaps, e1], e1⟩

theorem boxLayer_layers (cod : List W) (box : TBox) (off : Nat) (h : off ≤ cod.length) :
    (boxLayer cod box off).layers = [(box, off)] := by
  simp [boxLayer, D.tensor, D.id, D.box, shiftLayers, Nat.min_eq_left h]

/-- A well-typed chain of swaps permutes the type as it permutes positions. -/
theorem scanCod_swaps (t : List W) (ls : Layers) (h : wellTyped t ls = true) (hs : allSwaps ls = true) :
    scanCod t ls = (offs ls).foldl swapAt t := by
  induction ls generalizing t with
  | nil => rfl
  | cons l ls ih =>
    obtain ⟨b, off⟩ := l
    have h1 : isSwapBox b = true ∧ allSwaps ls = true := by
      simpa only [allSwaps, List.all_cons, Bool.and_eq_true] using hs
    cases b with
    | swap x y =>
      simp only [wellTyped, Bool.and_eq_true] at h
      have hf : boxFits t (.swap x y) off = true := by simp only [boxFits, Bool.and_eq_true]; exact h.1
      obtain ⟨A, C, rfl, rfl⟩ := boxFits_iff.mp hf
      have ha := applyBox_frame A C (.swap x y)
      rw [ha] at h
      simp only [scanCod, offs, List.map_cons, List.foldl_cons, ha]
      rw [ih _ h.2 h1.2]
      congr 1
      exact (swapAt_split A C x y).symm
    | _ => exact absurd h1.1 (by simp [isSwapBox])

theorem D.swaps_cod {sw : D} (hw : sw.WT) (hs : allSwaps sw.layers = true) :
    sw.cod = (offs sw.layers).foldl swapAt sw.dom := by
  rw [← hw.2]; exact scanCod_swaps _ _ hw.1 hs

/-- `place` with a box that records a command: the swaps, the command on the ids found at the
    place of the box, the swaps undone. -/
theorem place_trace_emit {circuit sw : D} {box : TBox} {off : Nat} {d : D} (f : List Nat → Cmd)
    (h : place circuit sw box off = .ok d) (hs : allSwaps sw.layers = true)
    (hoff : off ≤ sw.cod.length)
    (hstep : ∀ t : Tr, Tr.step t (box, off) = { t with cmds := t.cmds ++ [f t.arr] })
    (hr : ∀ o ∈ offs sw.layers, o + 1 < (Tr.run circuit.layers).arr.length) :
    Tr.run d.layers = { Tr.run circuit.layers with
      cmds := (Tr.run circuit.layers).cmds ++ [f ((offs sw.layers).foldl swapAt (Tr.run circuit.layers).arr)] } := by
  obtain ⟨hl, _, _⟩ := place_layers h
  rw [Tr.run_eq, hl, boxLayer_layers _ _ _ hoff, Tr.runFrom_append, Tr.runFrom_append, Tr.runFrom_append,
    ← Tr.run_eq, Tr.runFrom_swaps _ _ hs]
  simp only [Tr.runFrom, List.foldl_cons, List.foldl_nil, hstep]
  have := Tr.runFrom_swaps
    { Tr.run circuit.layers with
        arr := (offs sw.layers).foldl swapAt (Tr.run circuit.layers).arr
        cmds := (Tr.run circuit.layers).cmds ++ [f ((offs sw.layers).foldl swapAt (Tr.run circuit.layers).arr)] }
    sw.daggerSwaps.layers (allSwaps_daggerSwaps _ hs)
  simp only [Tr.runFrom] at this
  rw [this, offs_daggerSwaps]
  show ({ (Tr.run circuit.layers) with
      arr := (offs sw.layers).reverse.foldl swapAt ((offs sw.layers).foldl swapAt (Tr.run circuit.layers).arr)
      cmds := _ } : Tr) = _
  rw [← List.foldl_append, foldl_swapAt_reverse _ _ hr]

/-- `place` with a swap box (a tket SWAP): conjugation of one adjacent swap by the swaps. -/
theorem place_trace_swap {circuit sw : D} {x y : W} {off : Nat} {d : D}
    (h : place circuit sw (.swap x y) off = .ok d) (hs : allSwaps sw.layers = true)
    (hoff : off ≤ sw.cod.length) :
    Tr.run d.layers = { Tr.run circuit.layers with
      arr := (offs sw.layers ++ [off] ++ (offs sw.layers).reverse).foldl swapAt (Tr.run circuit.layers).arr } := by
  obtain ⟨hl, _, _⟩ := place_layers h
  rw [Tr.run_eq, hl, boxLayer_layers _ _ _ hoff, Tr.runFrom_append, Tr.runFrom_append, Tr.runFrom_append,
    ← Tr.run_eq, Tr.runFrom_swaps _ _ hs]
  simp only [Tr.runFrom, List.foldl_cons, List.foldl_nil, Tr.step]
  have := Tr.runFrom_swaps
    { Tr.run circuit.layers with
        arr := swapAt ((offs sw.layers).foldl swapAt (Tr.run circuit.layers).arr) off }
    sw.daggerSwaps.layers (allSwaps_daggerSwaps _ hs)
  simp only [Tr.runFrom] at this
  rw [this, offs_daggerSwaps]
  simp only [List.foldl_append, List.foldl_cons, List.foldl_nil]

/-! ### a tket SWAP exchanges two ids -/

theorem range_getElem? (n i : Nat) : (List.range n)[i]? = if i < n then some i else none := by
  by_cases h : i < n <;> simp [h]

theorem exchange_range_getElem? (n a b j : Nat) (ha : a < n) (hb : b < n) :
    (exchange (List.range n) a b)[j]? = if j = b then some a else if j = a then some b else (List.range n)[j]? := by
  have ia : idAt (List.range n) a = a := by simp [idAt, ha]
  have ib : idAt (List.range n) b = b := by simp [idAt, hb]
  simp only [exchange, ia, ib, List.getElem?_set, List.length_set, List.length_range]
  grind

theorem arrangement_swap_conj (n a b : Nat) (ha : a < n) (hb : b < n) (hab : a ≠ b) :
    arrangement n ((makeUnitsAdjacent [a, b]).2 ++ [(makeUnitsAdjacent [a, b]).1] ++
      (makeUnitsAdjacent [a, b]).2.reverse) = exchange (List.range n) a b := by
  apply List.ext_getElem?
  intro j
  rw [exchange_range_getElem? n a b j ha hb, makeUnitsAdjacent_pair]
  unfold arrangement
  have hr := range_getElem? n
  by_cases h1 : b < a + 1
  · obtain ⟨d, rfl⟩ : ∃ d, a = b + 1 + d := ⟨a - b - 1, by omega⟩
    have e1 : b + 1 + d - b = d + 1 := by omega
    have e2 : b + 1 + d - 1 = b + d := by omega
    simp only [h1, if_true, show b ≤ b + 1 + d from by omega, List.foldl_append, List.foldl_cons, List.foldl_nil,
      e1, e2]
    have hX := foldl_swapAt_range' (List.range n) b (d + 1) (by simp; omega)
    have hlX : ((List.range' b (d + 1)).foldl swapAt (List.range n)).length = n := by simp [foldl_swapAt_length]
    have hY := fun i => swapAt_getElem? ((List.range' b (d + 1)).foldl swapAt (List.range n)) (b + d) i (by omega)
    have hR := foldl_swapAt_range'_reverse
      (swapAt ((List.range' b (d + 1)).foldl swapAt (List.range n)) (b + d)) b (d + 1)
      (by rw [swapAt_length, hlX]; omega)
    simp only [hR, hY, hX, hr]
    grind
  · by_cases h2 : b > a + 1
    · obtain ⟨d, rfl⟩ : ∃ d, b = a + 2 + d := ⟨b - a - 2, by omega⟩
      have e1 : a + 2 + d - (a + 1) = d + 1 := by omega
      simp only [h1, h2, if_true, if_false, List.foldl_append, List.foldl_cons, List.foldl_nil, List.reverse_reverse, e1]
      have hX := foldl_swapAt_range'_reverse (List.range n) (a + 1) (d + 1) (by simp; omega)
      have hlX : ((List.range' (a + 1) (d + 1)).reverse.foldl swapAt (List.range n)).length = n := by
        rw [foldl_swapAt_length]; simp
      have hY := fun i => swapAt_getElem? ((List.range' (a + 1) (d + 1)).reverse.foldl swapAt (List.range n)) a i
        (by omega)
      have hR := foldl_swapAt_range'
        (swapAt ((List.range' (a + 1) (d + 1)).reverse.foldl swapAt (List.range n)) a) (a + 1) (d + 1)
        (by rw [swapAt_length, hlX]; omega)
      simp only [hR, hY, hX, hr]
      grind
    · have hb' : b = a + 1 := by omega
      subst hb'
      simp only [h1, h2, if_false, List.nil_append, List.reverse_nil, List.append_nil, List.foldl_cons, List.foldl_nil]
      rw [swapAt_getElem? _ _ _ (by simp; omega)]
      grind

/-! ### the boxes `box_from_tk` returns -/

theorem lookupGate_cases (name : String) (tbl : List (String × Nat)) (box : TBox)
    (h : lookupGate name tbl = .ok box) : box = .swap .q .q ∨ ∃ n, box = .gate name n := by
  induction tbl with
  | nil => simp [lookupGate] at h
  | cons e tbl ih =>
    obtain ⟨g, n⟩ := e
    simp only [lookupGate] at h
    split at h
    · rename_i hg
      cases h
      split
      · exact .inl rfl
      · exact .inr ⟨n, by rw [hg]⟩
    · split at h
      · rename_i hg
        split at h
        · cases h
        · split at h
          · cases h; exact .inr ⟨2, by rw [hg]⟩
          · cases h
      · exact ih h

/-- What `box_from_tk` can return, and the command `Tr.step` records for it. -/
theorem boxFromTk_cases {c : Cmd} {box : TBox} (h : boxFromTk c = .ok box) :
    box = .swap .q .q ∨ (∃ n, box = .gate c.op n ∧ gatePar c = none) ∨
      (∃ p, c.par = some p ∧ box = .rot c.op (p / 2) ∧ gatePar c = some p) := by
  unfold boxFromTk at h
  have rot : ∀ cls, c.op = cls → (cls = "Rx" ∨ cls = "Rz" ∨ cls = "CRz") → rotFromTk cls c.par = .ok box →
      ∃ p, c.par = some p ∧ box = .rot c.op (p / 2) ∧ gatePar c = some p := by
    intro cls hc hcls hr
    unfold rotFromTk halfPar at hr
    cases hp : c.par with
    | none => simp [hp] at hr
    | some p =>
      simp only [hp] at hr
      cases hr
      exact ⟨p, rfl, by rw [hc], by simp [gatePar, hc, hcls, hp]⟩
  split at h
  · rename_i hc; exact .inr (.inr (rot _ hc (.inl rfl) h))
  · split at h
    · rename_i hc; exact .inr (.inr (rot _ hc (.inr (.inl rfl)) h))
    · split at h
      · rename_i hc; exact .inr (.inr (rot _ hc (.inr (.inr rfl)) h))
      · split at h
        · cases h; exact .inl rfl
        · rename_i h1 h2 h3 _
          rcases lookupGate_cases _ _ _ h with hb | ⟨n, hb⟩
          · exact .inl hb
          · exact .inr (.inl ⟨n, hb, by simp [gatePar, h1, h2, h3]⟩)

/-! ### the loop invariant -/

structure LoopInv (inp : TkIn) (acc : Acc) (s : ImpSpec) : Prop where
  wt : acc.circuit.WT
  cod : acc.circuit.cod = inp.units
  tr : Tr.run acc.circuit.layers = ⟨s.σ, inp.units.length, s.cmds, []⟩
  len : s.σ.length = inp.units.length
  bras : acc.bras = s.bras

theorem units_length (inp : TkIn) : inp.units.length = inp.nq + inp.nbits := by simp [TkIn.units]

theorem drop_take_one {α} {xs : List α} {i : Nat} {x : α} (h : xs[i]? = some x) : (xs.drop i).take 1 = [x] := by
  have hi : i < xs.length := by
    rcases Nat.lt_or_ge i xs.length with h' | h'
    · exact h'
    · rw [List.getElem?_eq_none h'] at h; cases h
  rw [List.drop_eq_getElem_cons hi]
  rw [List.getElem?_eq_getElem hi] at h
  simp only [Option.some.injEq] at h
  simp [h]

theorem idAt_getElem? (σ : List Nat) (i : Nat) (h : i < σ.length) : σ[i]? = some (idAt σ i) := by
  simp [idAt, List.getElem?_eq_getElem h]

theorem swaps_cod_length {sw : D} (hw : sw.WT) (hs : allSwaps sw.layers = true) : sw.cod.length = sw.dom.length := by
  rw [D.swaps_cod hw hs, foldl_swapAt_length]

theorem stepMeasure_inv {inp : TkIn} {acc acc' : Acc} {s : ImpSpec} {q b : Nat} (hq : q < inp.nq)
    (hb : inp.ps.has b = true ∨ b - psBelow inp.ps b < inp.nbits)
    (inv : LoopInv inp acc s) (h : stepMeasure inp acc q b = .ok acc') :
    LoopInv inp acc' (if inp.ps.has b then { s with bras := s.bras.set q ((inp.ps.get b).getD 0) }
      else { s with cmds := s.cmds ++
              [⟨"Measure", none, [idAt s.σ q], [idAt s.σ (inp.nq + (b - psBelow inp.ps b))]⟩] }) := by
  unfold stepMeasure at h
  by_cases hps : inp.ps.has b = true
  · simp only [hps, if_true] at h ⊢
    cases h
    exact ⟨inv.wt, inv.cod, inv.tr, inv.len, by simp [inv.bras]⟩
  · have hbi : b - psBelow inp.ps b < inp.nbits := by rcases hb with h' | h'; exact absurd h' hps; exact h'
    have hps' : inp.ps.has b = false := by simpa using hps
    simp only [hps', Bool.false_eq_true, if_false] at h ⊢
    split at h
    · cases h
    · rename_i d hd
      cases h
      have hlen := units_length inp
      rw [inv.cod] at hd
      obtain ⟨m1, m2⟩ := measureSwaps_WT inp.units inp.nq q (b - psBelow inp.ps b)
      obtain ⟨ho, hdom⟩ := offs_measureSwaps inp.units inp.nq q (b - psBelow inp.ps b) hq
        (by rw [hlen]; omega)
      have hcl := swaps_cod_length m1 m2
      rw [hdom] at hcl
      obtain ⟨w, _, hc⟩ := place_WT inv.wt m1 m2 hd
      have htr := place_trace_emit
        (fun arr => ⟨"Measure", none, (arr.drop q).take 1, (arr.drop (q + 1)).take 1⟩) hd m2
        (by rw [hcl, hlen]; omega) (fun t => rfl)
        (by
          rw [ho, inv.tr]
          intro o ho'
          simp only [List.mem_reverse, List.mem_range'_1] at ho'
          simp only [inv.len, hlen]; omega)
      refine ⟨w, by rw [hc, inv.cod], ?_, inv.len, inv.bras⟩
      rw [htr, inv.tr, ho]
      simp only
      have hσ : inp.nq + (b - psBelow inp.ps b) < s.σ.length := by rw [inv.len, hlen]; omega
      have hR := foldl_swapAt_range'_reverse s.σ (q + 1) (inp.nq + (b - psBelow inp.ps b) - (q + 1))
        (by omega)
      have h0 := hR q
      have h1 := hR (q + 1)
      simp only [show q < q + 1 from by omega, if_true] at h0
      simp only [show ¬ q + 1 < q + 1 from by omega, if_true, if_false] at h1
      rw [idAt_getElem? s.σ q (by omega)] at h0
      rw [show q + 1 + (inp.nq + (b - psBelow inp.ps b) - (q + 1)) = inp.nq + (b - psBelow inp.ps b) from by omega,
        idAt_getElem? s.σ _ hσ] at h1
      rw [drop_take_one h0, drop_take_one h1]

theorem exchange_ids (σ : List Nat) (a b : Nat) (ha : a < σ.length) (hb : b < σ.length) :
    (exchange (List.range σ.length) a b).map (idAt σ) = exchange σ a b := by
  have ia : idAt (List.range σ.length) a = a := by simp [idAt, ha]
  have ib : idAt (List.range σ.length) b = b := by simp [idAt, hb]
  simp only [exchange, List.map_set, map_idAt_range, ia, ib]

/-- What the swaps of `make_units_adjacent` do to arbitrary ids, for a gate on one or two units. -/
theorem mua_ids (units : List W) (qs : List Nat) (r : Nat × D)
    (hqs : (∃ a, qs = [a] ∧ a < units.length) ∨ (∃ a b, qs = [a, b] ∧ a ≠ b ∧ a < units.length ∧ b < units.length))
    (h : makeUnitsAdjacentT units qs = .ok r) :
    r.2.WT ∧ allSwaps r.2.layers = true ∧ r.2.dom = units ∧ r.1 < units.length ∧
      (∀ o ∈ offs r.2.layers, o + 1 < units.length) ∧
      (∀ σ : List Nat, σ.length = units.length →
        (((offs r.2.layers).foldl swapAt σ).drop r.1).take qs.length = qs.map (idAt σ)) ∧
      (∀ a b, qs = [a, b] → ∀ σ : List Nat, σ.length = units.length →
        (offs r.2.layers ++ [r.1] ++ (offs r.2.layers).reverse).foldl swapAt σ = exchange σ a b) := by
  have hw : r.2.WT ∧ allSwaps r.2.layers = true ∧ r.2.dom = units := by
    unfold makeUnitsAdjacentT at h
    split at h
    · cases h
    · exact muaLoopT_WT _ 0 _ (D.id units) r (D.WT_id _) (by simp [D.id, allSwaps]) h
  refine ⟨hw.1, hw.2.1, hw.2.2, ?_⟩
  rcases hqs with ⟨a, rfl, ha⟩ | ⟨a, b, rfl, hab, ha, hb⟩
  · rw [muaT_single] at h
    cases h
    refine ⟨ha, by simp [D.id, offs], ?_, by intro a' b' h'; cases h'⟩
    intro σ hσ
    simp only [D.id, offs, List.map_nil, List.foldl_nil, List.length_singleton, List.map_cons]
    exact drop_take_one (idAt_getElem? σ a (by omega))
  · obtain ⟨sw, hsw, _, ho⟩ := muaT_pair units a b ha hb hab
    rw [hsw] at h
    cases h
    have hoff : (makeUnitsAdjacent [a, b]).1 < units.length := by
      rw [makeUnitsAdjacent_pair]
      by_cases h1 : b < a + 1
      · simp only [h1, if_true]; split <;> omega
      · by_cases h2 : b > a + 1
        · simp only [h1, h2, if_true, if_false]; exact ha
        · simp only [h1, h2, if_false]; exact ha
    refine ⟨hoff, ?_, ?_, ?_⟩
    · simp only [ho]; exact makeUnitsAdjacent_inRange _ a b ha hb
    · intro σ hσ
      simp only [ho]
      rw [foldl_swapAt_ids, hσ, ← List.map_drop, ← List.map_take]
      have := makeUnitsAdjacent_adjacent units.length a b ha hb hab
      simp only [List.length_cons, List.length_nil] at this ⊢
      rw [this]
    · intro a' b' h' σ hσ
      cases h'
      simp only [ho]
      rw [foldl_swapAt_ids, hσ, arrangement_swap_conj _ a b ha hb hab, ← hσ, exchange_ids σ a b (by omega) (by omega)]

/-- What `importable` says about a command that is not a `Measure`. -/
theorem importable_gate {inp : TkIn} {c : Cmd} (hop : c.op ≠ "Measure") (h : Cmd.importable inp c = true) :
    ∃ box, boxFromTk c = .ok box ∧ box.dom.length = c.qs.length ∧
      ((∃ a, c.qs = [a] ∧ a < inp.nq) ∨ (∃ a b, c.qs = [a, b] ∧ a ≠ b ∧ a < inp.nq ∧ b < inp.nq)) ∧
      (∀ p, c.par = some p → p % 2 = 0) := by
  unfold Cmd.importable at h
  simp only [hop, if_false, Bool.and_eq_true] at h
  obtain ⟨⟨⟨h1, h2⟩, h3⟩, h4⟩ := h
  cases hb : boxFromTk c with
  | error e => simp [hb] at h1
  | ok box =>
    simp only [hb, beq_iff_eq] at h1
    refine ⟨box, rfl, h1, ?_, ?_⟩
    · rw [List.all_eq_true] at h2
      match hq : c.qs, h3 with
      | [a], _ =>
        exact .inl ⟨a, rfl, by simpa using h2 a (by simp [hq])⟩
      | [a, b], h3 =>
        exact .inr ⟨a, b, rfl, by simpa using h3, by simpa using h2 a (by simp [hq]),
          by simpa using h2 b (by simp [hq])⟩
    · intro p hp
      simpa [hp] using h4

/-- The command a non-swap box of `box_from_tk` records. -/
theorem emit_step {c : Cmd} {box : TBox} (hb : boxFromTk c = .ok box) (hns : box ≠ .swap .q .q)
    (hpar : ∀ p, c.par = some p → p % 2 = 0) (off : Nat) (t : Tr) :
    Tr.step t (box, off) =
      { t with cmds := t.cmds ++ [⟨c.op, gatePar c, (t.arr.drop off).take box.dom.length, []⟩] } := by
  rcases boxFromTk_cases hb with h | ⟨n, h, hp⟩ | ⟨p, hp, h, hg⟩
  · exact absurd h hns
  · subst h
    simp [Tr.step, Tr.emit, TBox.dom, hp]
  · subst h
    have : 2 * (p / 2) = p := by have := hpar p hp; omega
    simp [Tr.step, Tr.emit, TBox.dom, hg, this]

theorem stepGate_inv {inp : TkIn} {acc acc' : Acc} {s : ImpSpec} {c : Cmd} (hop : c.op ≠ "Measure")
    (himp : Cmd.importable inp c = true) (inv : LoopInv inp acc s) (h : stepGate inp acc c = .ok acc') :
    LoopInv inp acc' (ImpSpec.step inp s c) := by
  obtain ⟨box, hb, hk, hqs, hpar⟩ := importable_gate hop himp
  have hlen := units_length inp
  unfold stepGate at h
  simp only [hb] at h
  split at h
  · cases h
  · rename_i r hr
    split at h
    · cases h
    · rename_i d hd
      cases h
      have hqs' : (∃ a, c.qs = [a] ∧ a < inp.units.length) ∨
          (∃ a b, c.qs = [a, b] ∧ a ≠ b ∧ a < inp.units.length ∧ b < inp.units.length) := by
        rcases hqs with ⟨a, h1, h2⟩ | ⟨a, b, h1, h2, h3, h4⟩
        · exact .inl ⟨a, h1, by omega⟩
        · exact .inr ⟨a, b, h1, h2, by omega, by omega⟩
      obtain ⟨m1, m2, mdom, moff, mr, mids, mex⟩ := mua_ids inp.units c.qs r hqs' hr
      have hcl := swaps_cod_length m1 m2
      rw [mdom] at hcl
      obtain ⟨w, _, hc⟩ := place_WT inv.wt m1 m2 hd
      by_cases hsw : box = .swap .q .q
      · subst hsw
        have h2 : c.qs.length = 2 := by rw [← hk]; rfl
        obtain ⟨a, b, hab⟩ : ∃ a b, c.qs = [a, b] := by
          rcases hqs with ⟨a, h1, _⟩ | ⟨a, b, h1, _⟩
          · rw [h1] at h2; cases h2
          · exact ⟨a, b, h1⟩
        have htr := place_trace_swap hd m2 (by omega)
        have hs : ImpSpec.step inp s c = { s with σ := exchange s.σ a b } := by
          simp only [ImpSpec.step, hop, if_false, hb, hab]
        rw [hs]
        refine ⟨w, by rw [hc, inv.cod], ?_, ?_, inv.bras⟩
        · rw [htr, inv.tr]
          simp only
          rw [mex a b hab s.σ inv.len]
        · simp [exchange, inv.len]
      · have htr := place_trace_emit
          (fun arr => ⟨c.op, gatePar c, (arr.drop r.1).take box.dom.length, []⟩) hd m2 (by omega)
          (emit_step hb hsw hpar r.1)
          (by rw [inv.tr]; simpa only [inv.len] using mr)
        have hs : ImpSpec.step inp s c =
            { s with cmds := s.cmds ++ [⟨c.op, gatePar c, c.qs.map (idAt s.σ), []⟩] } := by
          simp only [ImpSpec.step, hop, if_false, hb]
          split
          · rename_i x y _ _ heq _
            simp only [Except.ok.injEq] at heq
            rcases boxFromTk_cases hb with h' | ⟨n, h', _⟩ | ⟨p, _, h', _⟩
            · exact absurd h' hsw
            · rw [h'] at heq; cases heq
            · rw [h'] at heq; cases heq
          · rfl
        rw [hs]
        refine ⟨w, by rw [hc, inv.cod], ?_, inv.len, inv.bras⟩
        rw [htr, inv.tr]
        simp only
        rw [hk, mids s.σ inv.len]

theorem stepCmd_inv {inp : TkIn} {acc acc' : Acc} {s : ImpSpec} {c : Cmd}
    (himp : Cmd.importable inp c = true) (inv : LoopInv inp acc s) (h : stepCmd inp acc c = .ok acc') :
    LoopInv inp acc' (ImpSpec.step inp s c) := by
  by_cases hop : c.op = "Measure"
  · have himp' := himp
    unfold Cmd.importable at himp'
    simp only [hop, if_true] at himp'
    unfold stepCmd at h
    simp only [hop, if_true] at h
    match hq : c.qs, hb : c.bs, himp' with
    | [q], [b], himp' =>
      simp only [hq, hb, List.head?_cons] at h
      simp only [Bool.and_eq_true, Bool.or_eq_true, decide_eq_true_eq] at himp'
      have := stepMeasure_inv himp'.1 himp'.2 inv h
      simpa only [ImpSpec.step, hop, if_true, hq, hb, List.head?_cons] using this
  · unfold stepCmd at h
    simp only [hop, if_false] at h
    exact stepGate_inv hop himp inv h

theorem loopCmds_inv {inp : TkIn} (cmds : List Cmd) {acc acc' : Acc} {s : ImpSpec}
    (himp : ∀ c ∈ cmds, Cmd.importable inp c = true) (inv : LoopInv inp acc s)
    (h : loopCmds inp acc cmds = .ok acc') : LoopInv inp acc' (cmds.foldl (ImpSpec.step inp) s) := by
  induction cmds generalizing acc s with
  | nil => simp only [loopCmds] at h; cases h; exact inv
  | cons c rest ih =>
    simp only [loopCmds] at h
    split at h
    · cases h
    · rename_i a1 h1
      exact ih (fun c' hc' => himp c' (by simp [hc'])) (stepCmd_inv (himp c (by simp)) inv h1) h

/-! ### before the loop -/

/-- The preparations give position `i` the id `i`. -/
def Fresh (d : D) : Prop := Tr.run d.layers = ⟨List.range d.cod.length, d.cod.length, [], []⟩

theorem fresh_tensor_box {acc : D} (b : TBox) (w : W) (hb : b = .ket [0] ∨ b = .bits [0] false)
    (hw : b.cod = [w]) (h : Fresh acc) :
    Fresh (acc.tensor (D.box b)) ∧ (acc.tensor (D.box b)).cod = acc.cod ++ [w] := by
  have hl : (acc.tensor (D.box b)).layers = acc.layers ++ [(b, acc.cod.length)] := by
    simp [D.tensor, D.box, shiftLayers]
  have hc : (acc.tensor (D.box b)).cod = acc.cod ++ [w] := by simp [D.tensor, D.box, hw]
  refine ⟨?_, hc⟩
  unfold Fresh at h ⊢
  rw [hl, hc, Tr.run_eq, Tr.runFrom_append, ← Tr.run_eq, h]
  have e : insertAt (List.range acc.cod.length) acc.cod.length [acc.cod.length] =
      List.range (acc.cod.length + 1) := by
    simp [insertAt, List.range_succ]
  rcases hb with rfl | rfl <;>
    simp [Tr.runFrom, Tr.step, Tr.fresh, e]

theorem fresh_replicate (b : TBox) (w : W) (hb : b = .ket [0] ∨ b = .bits [0] false) (hw : b.cod = [w])
    (m : Nat) (acc : D) (h : Fresh acc) :
    Fresh ((List.replicate m (D.box b)).foldl D.tensor acc) ∧
      ((List.replicate m (D.box b)).foldl D.tensor acc).cod = acc.cod ++ List.replicate m w := by
  induction m generalizing acc with
  | zero => simpa using h
  | succ m ih =>
    obtain ⟨h1, h2⟩ := fresh_tensor_box b w hb hw h
    obtain ⟨h3, h4⟩ := ih _ h1
    simp only [List.replicate_succ, List.foldl_cons]
    refine ⟨h3, ?_⟩
    rw [h4, h2, List.append_assoc]; rfl

theorem initCircuit_fresh (inp : TkIn) : Fresh (initCircuit inp) ∧ (initCircuit inp).cod = inp.units := by
  unfold initCircuit D.tensorAll
  rw [List.foldl_append]
  have h0 : Fresh (D.id []) := rfl
  obtain ⟨h1, h2⟩ := fresh_replicate (.ket [0]) .q (.inl rfl) rfl inp.nq _ h0
  obtain ⟨h3, h4⟩ := fresh_replicate (.bits [0] false) .b (.inr rfl) rfl inp.nbits _ h1
  refine ⟨h3, ?_⟩
  rw [h4, h2]; rfl

theorem init_inv (inp : TkIn) : LoopInv inp ⟨initCircuit inp, []⟩ ⟨List.range (inp.nq + inp.nbits), [], []⟩ := by
  obtain ⟨h1, h2⟩ := initCircuit_fresh inp
  have hl := units_length inp
  refine ⟨initCircuit_WT inp, h2, ?_, by simp [hl], rfl⟩
  unfold Fresh at h1
  rw [h1, h2, hl]

/-! ### after the loop: the final layer (tk.py:336-339) -/

def keptOf (bras : PS) (σ : List Nat) (ps : List (W × Nat)) : List Nat :=
  ps.filterMap fun p => if bras.has p.2 then none else if p.1 = .q then none else some (idAt σ p.2)

def brasOf (bras : PS) (σ : List Nat) (ps : List (W × Nat)) : List (Nat × Nat) :=
  ps.filterMap fun p => if bras.has p.2 then some (idAt σ p.2, (bras.get p.2).getD 0) else none

theorem drop_eq_cons_idAt (σ : List Nat) (k : Nat) (h : k < σ.length) : σ.drop k = idAt σ k :: σ.drop (k + 1) := by
  rw [List.drop_eq_getElem_cons h]
  simp [idAt, List.getElem?_eq_getElem h]

theorem final_fold (bras : PS) (σ : List Nat) (T : Tr) (ws : List W) :
    ∀ (k : Nat) (acc : D) (kept : List Nat) (B : List (Nat × Nat)),
      k + ws.length ≤ σ.length → acc.cod.length = kept.length →
      T.runFrom acc.layers = { T with arr := kept ++ σ.drop k, bras := B } →
      T.runFrom (((ws.zipIdx k).map (finalBox bras)).foldl D.tensor acc).layers =
        { T with arr := kept ++ keptOf bras σ (ws.zipIdx k) ++ σ.drop (k + ws.length)
                 bras := B ++ brasOf bras σ (ws.zipIdx k) } := by
  induction ws with
  | nil => intro k acc kept B _ _ h; simpa [keptOf, brasOf] using h
  | cons x ws ih =>
    intro k acc kept B hk hc h
    have hk' : k < σ.length := by simp at hk; omega
    simp only [List.zipIdx_cons, List.map_cons, List.foldl_cons]
    have hd := drop_eq_cons_idAt σ k hk'
    have hboxlayers : ∀ b : TBox, (acc.tensor (D.box b)).layers = acc.layers ++ [(b, kept.length)] := by
      intro b; simp [D.tensor, D.box, shiftLayers, hc]
    have e2 : k + 1 + ws.length = k + (x :: ws).length := by simp; omega
    by_cases hb : bras.has k = true
    · have hfb : finalBox bras (x, k) = D.box (.bra [(bras.get k).getD 0]) := by simp [finalBox, hb]
      have := ih (k + 1) (acc.tensor (D.box (.bra [(bras.get k).getD 0]))) kept
        (B ++ [(idAt σ k, (bras.get k).getD 0)]) (by simp at hk ⊢; omega)
        (by simp [D.tensor, D.box, TBox.cod, hc])
        (by
          rw [hboxlayers, Tr.runFrom_append, h]
          simp [Tr.runFrom, Tr.step, hd, removeAt, List.drop_append, List.take_append])
      rw [hfb, this, e2]
      simp [keptOf, brasOf, hb, List.append_assoc]
    · have hb' : bras.has k = false := by simpa using hb
      cases x with
      | q =>
        have hfb : finalBox bras (W.q, k) = D.box (.discard [.q]) := by simp [finalBox, hb']
        have := ih (k + 1) (acc.tensor (D.box (.discard [.q]))) kept B (by simp at hk ⊢; omega)
          (by simp [D.tensor, D.box, TBox.cod, hc])
          (by
            rw [hboxlayers, Tr.runFrom_append, h]
            simp [Tr.runFrom, Tr.step, hd, removeAt, List.drop_append, List.take_append])
        rw [hfb, this, e2]
        simp [keptOf, brasOf, hb']
      | b =>
        have hfb : finalBox bras (W.b, k) = D.id [.b] := by simp [finalBox, hb']
        have := ih (k + 1) (acc.tensor (D.id [.b])) (kept ++ [idAt σ k]) B (by simp at hk ⊢; omega)
          (by simp [D.tensor, D.id, hc])
          (by
            have : (acc.tensor (D.id [.b])).layers = acc.layers := by simp [D.tensor, D.id, shiftLayers]
            rw [this, h, hd]; simp)
        rw [hfb, this, e2]
        simp [keptOf, brasOf, hb', List.append_assoc]

/-! ### the specification keeps the bit slots in place -/

structure SpecInv (inp : TkIn) (s : ImpSpec) : Prop where
  len : s.σ.length = inp.nq + inp.nbits
  fix : ∀ i, inp.nq ≤ i → idAt s.σ i = idAt (List.range (inp.nq + inp.nbits)) i
  keys : ∀ k, s.bras.has k = true → k < inp.nq

theorem idAt_exchange_other (σ : List Nat) (a b i : Nat) (ha : i ≠ a) (hb : i ≠ b) :
    idAt (exchange σ a b) i = idAt σ i := by
  simp only [idAt, exchange, List.getElem?_set]
  have h1 : ¬ b = i := fun h => hb h.symm
  have h2 : ¬ a = i := fun h => ha h.symm
  simp [h1, h2]

theorem spec_step_inv {inp : TkIn} {s : ImpSpec} {c : Cmd} (himp : Cmd.importable inp c = true)
    (inv : SpecInv inp s) : SpecInv inp (ImpSpec.step inp s c) := by
  by_cases hop : c.op = "Measure"
  · have himp' := himp
    unfold Cmd.importable at himp'
    simp only [hop, if_true] at himp'
    match hq : c.qs, hb : c.bs, himp' with
    | [q], [b], himp' =>
      simp only [Bool.and_eq_true, decide_eq_true_eq] at himp'
      simp only [ImpSpec.step, hop, if_true, hq, hb, List.head?_cons]
      split
      · refine ⟨inv.len, inv.fix, ?_⟩
        intro k hk
        simp only [PS.has_set, Bool.or_eq_true, decide_eq_true_eq] at hk
        rcases hk with rfl | hk
        · exact himp'.1
        · exact inv.keys k hk
      · exact ⟨inv.len, inv.fix, inv.keys⟩
  · obtain ⟨box, hb, hk, hqs, _⟩ := importable_gate hop himp
    simp only [ImpSpec.step, hop, if_false, hb]
    split
    · rename_i x y a b _ hqab
      have hab : a < inp.nq ∧ b < inp.nq := by
        rcases hqs with ⟨a', h1, _⟩ | ⟨a', b', h1, _, h3, h4⟩
        · rw [h1] at hqab; cases hqab
        · rw [h1] at hqab; cases hqab; exact ⟨h3, h4⟩
      refine ⟨by simp [exchange, inv.len], ?_, inv.keys⟩
      intro i hi
      rw [idAt_exchange_other _ _ _ _ (by omega) (by omega)]
      exact inv.fix i hi
    · exact ⟨inv.len, inv.fix, inv.keys⟩

theorem spec_run_inv {inp : TkIn} (himp : inp.importable = true) : SpecInv inp (ImpSpec.run inp) := by
  unfold ImpSpec.run
  have h0 : SpecInv inp ⟨List.range (inp.nq + inp.nbits), [], []⟩ :=
    ⟨by simp, fun _ _ => rfl, by intro k hk; simp [PS.has] at hk⟩
  unfold TkIn.importable at himp
  rw [List.all_eq_true] at himp
  suffices ∀ (cmds : List Cmd) (s : ImpSpec), (∀ c ∈ cmds, Cmd.importable inp c = true) → SpecInv inp s →
      SpecInv inp (cmds.foldl (ImpSpec.step inp) s) from this _ _ himp h0
  intro cmds
  induction cmds with
  | nil => intro s _ h; exact h
  | cons c rest ih =>
    intro s hc h
    exact ih _ (fun c' hc' => hc c' (by simp [hc'])) (spec_step_inv (hc c (by simp)) h)

/-! ### the whole import -/

theorem zipIdx_replicate_mem (w : W) (m k : Nat) :
    ∀ p ∈ (List.replicate m w).zipIdx k, p.1 = w ∧ k ≤ p.2 ∧ p.2 < k + m := by
  induction m generalizing k with
  | zero => simp
  | succ m ih =>
    intro p hp
    simp only [List.replicate_succ, List.zipIdx_cons, List.mem_cons] at hp
    rcases hp with rfl | hp
    · exact ⟨rfl, by omega, by omega⟩
    · have := ih (k + 1) p hp
      exact ⟨this.1, by omega, by omega⟩

theorem filterMap_zipIdx_replicate (w : W) (f : W × Nat → Option Nat) (m k : Nat)
    (h : ∀ i, k ≤ i → i < k + m → f (w, i) = some i) :
    ((List.replicate m w).zipIdx k).filterMap f = List.range' k m := by
  induction m generalizing k with
  | zero => simp
  | succ m ih =>
    simp only [List.replicate_succ, List.zipIdx_cons, List.filterMap_cons, h k (by omega) (by omega),
      List.range'_succ]
    rw [ih (k + 1) (fun i h1 h2 => h i (by omega) (by omega))]

theorem keptOf_units (inp : TkIn) (s : ImpSpec) (inv : SpecInv inp s) :
    keptOf s.bras s.σ inp.units.zipIdx = List.range' inp.nq inp.nbits := by
  unfold keptOf TkIn.units
  rw [List.zipIdx_append, List.filterMap_append]
  have h1 : ((List.replicate inp.nq W.q).zipIdx 0).filterMap
      (fun p => if s.bras.has p.2 = true then none else if p.1 = W.q then none else some (idAt s.σ p.2)) = [] := by
    rw [List.filterMap_eq_nil_iff]
    intro p hp
    have := (zipIdx_replicate_mem _ _ _ p hp).1
    simp [this]
  rw [h1, List.nil_append]
  simp only [List.length_replicate, Nat.zero_add]
  apply filterMap_zipIdx_replicate
  intro i h1 h2
  have hk : s.bras.has i = false := by
    cases hh : s.bras.has i with
    | false => rfl
    | true => have := inv.keys i hh; omega
  have hf := inv.fix i h1
  simp only [idAt] at hf
  simp [hk, idAt, hf, List.getElem?_range h2]

theorem brasOf_units (inp : TkIn) (s : ImpSpec) :
    brasOf s.bras s.σ inp.units.zipIdx = s.braList inp := by
  unfold brasOf ImpSpec.braList
  have : inp.units.zipIdx.map (·.2) = List.range (inp.nq + inp.nbits) := by
    rw [List.zipIdx_eq_zip_range', List.map_snd_zip (by simp), units_length, List.range_eq_range']
  rw [← this, List.filterMap_map]
  rfl

/-- Following wire identities through the circuit `from_tk` builds before it attaches the scalar
    and the post-processing. -/
theorem fromTkBody_trace {inp : TkIn} {body : D} (himp : inp.importable = true) (h : fromTkBody inp = .ok body) :
    Tr.run body.layers = ⟨List.range' inp.nq inp.nbits, inp.nq + inp.nbits, (ImpSpec.run inp).cmds,
      (ImpSpec.run inp).braList inp⟩ := by
  unfold fromTkBody at h
  split at h
  · cases h
  · rename_i acc hacc
    have himp' := himp
    unfold TkIn.importable at himp'
    rw [List.all_eq_true] at himp'
    have inv := loopCmds_inv inp.cmds himp' (init_inv inp) hacc
    have sinv := spec_run_inv himp
    change LoopInv inp acc (ImpSpec.run inp) at inv
    have hl : body.layers = acc.circuit.layers ++ (finalLayer acc.bras acc.circuit.cod).layers := by
      unfold D.then at h
      split at h
      · cases h; rfl
      · cases h
    have hlen := units_length inp
    have hf := final_fold acc.bras (ImpSpec.run inp).σ (Tr.run acc.circuit.layers) inp.units 0 (D.id []) [] []
      (by simp [inv.len]) rfl (by simp [D.id, Tr.runFrom, inv.tr])
    rw [Tr.run_eq, hl, Tr.runFrom_append, ← Tr.run_eq, inv.cod]
    unfold finalLayer D.tensorAll
    rw [hf, inv.tr, inv.bras, keptOf_units inp _ sinv, brasOf_units]
    simp [inv.len, hlen]

def quiet : TBox → Bool
  | .swap _ _ => true
  | .cgate _ _ _ => true
  | .scalar _ _ => true
  | _ => false

theorem runFrom_quiet (t : Tr) (ls : Layers) (h : ∀ l ∈ ls, quiet l.1 = true) :
    (t.runFrom ls).cmds = t.cmds ∧ (t.runFrom ls).bras = t.bras := by
  induction ls generalizing t with
  | nil => exact ⟨rfl, rfl⟩
  | cons l ls ih =>
    obtain ⟨b, off⟩ := l
    have hb := h (b, off) (by simp)
    have := ih (Tr.step t (b, off)) (fun l' hl' => h l' (by simp [hl']))
    simp only [Tr.runFrom, List.foldl_cons] at this ⊢
    rw [this.1, this.2]
    cases b <;> simp [quiet] at hb <;> simp [Tr.step]

/-- **Every gate is placed on the units tket names.**  Following wire identities through the
    imported circuit gives the commands and the post-selections of the specification. -/
theorem fromTk_trace {inp : TkIn} {d : D} (himp : inp.importable = true) (h : fromTk inp = .ok d) :
    (Tr.run d.layers).cmds = (ImpSpec.run inp).cmds ∧ (Tr.run d.layers).bras = (ImpSpec.run inp).braList inp := by
  unfold fromTk at h
  split at h
  · cases h
  · rename_i body hbody
    have hb := fromTkBody_trace himp hbody
    have hl : ∃ extra, d.layers = body.layers ++ extra ∧ ∀ l ∈ extra, quiet l.1 = true := by
      unfold D.then at h
      split at h
      · cases h
        unfold addScalar
        split
        · refine ⟨shiftLayers body.cod.length [(.scalar 0 true, 0)] ++ inp.pp.toD.layers, by simp [D.tensor, D.box], ?_⟩
          intro l hl
          simp only [shiftLayers, List.map_cons, List.map_nil, List.mem_append, List.mem_singleton, PP.toD,
            List.mem_map] at hl
          rcases hl with rfl | ⟨pl, _, rfl⟩
          · rfl
          · cases pl.1 <;> rfl
        · refine ⟨inp.pp.toD.layers, rfl, ?_⟩
          intro l hl
          simp only [PP.toD, List.mem_map] at hl
          obtain ⟨pl, _, rfl⟩ := hl
          cases pl.1 <;> rfl
      · cases h
    obtain ⟨extra, he, hq⟩ := hl
    rw [Tr.run_eq, he, Tr.runFrom_append, ← Tr.run_eq]
    have := runFrom_quiet (Tr.run body.layers) extra hq
    rw [this.1, this.2, hb]
    exact ⟨rfl, rfl⟩

end DV.Tk
