/-
  Proofs/TensorArray.lean — specifications of the modelled numpy primitives on multi-indices:
  `transpose` (for any permutation of the axes), numpy's `moveaxis` order for the two patterns
  tensor.py uses (exchange two adjacent blocks of axes inside a window; the sorted case),
  `contract`, `tensordotAxes` for a contiguous block of contracted axes, `identity`, `conj`.
-/
import Proofs.TensorIndex
import Mathlib.Data.List.Sort

namespace DV
open NDArray

/-! ### permutations of axes -/

theorem getD_of_lt {α} {l : List α} {i : Nat} (d : α) (h : i < l.length) : l.getD i d = l[i] := by
  simp [List.getD_eq_getElem?_getD, h]

theorem range'_split (p a b : Nat) :
    List.range' p (a + b) = List.range' p a ++ List.range' (p + a) b :=
  List.range'_append_1.symm

theorem range'_split4 (p a b c d : Nat) :
    List.range' p (a + b + c + d) = List.range' p a ++ List.range' (p + a) b
      ++ List.range' (p + a + b) c ++ List.range' (p + a + b + c) d := by
  rw [range'_split, range'_split, range'_split]
  simp only [Nat.add_assoc]

theorem zip_append4 {α β} {a1 a2 a3 a4 : List α} {b1 b2 b3 b4 : List β}
    (h1 : a1.length = b1.length) (h2 : a2.length = b2.length) (h3 : a3.length = b3.length) :
    (a1 ++ a2 ++ a3 ++ a4).zip (b1 ++ b2 ++ b3 ++ b4)
      = a1.zip b1 ++ a2.zip b2 ++ a3.zip b3 ++ a4.zip b4 := by
  rw [List.zip_append (by simp [h1, h2, h3]), List.zip_append (by simp [h1, h2]),
    List.zip_append h1]

/-- `axes` lists every axis `< n` exactly once. -/
def IsPermOf (n : Nat) (axes : List Nat) : Prop :=
  axes.length = n ∧ (∀ p, p < n → p ∈ axes) ∧ (∀ a ∈ axes, a < n)

theorem permuteBy_append (o₁ o₂ y : List Nat) :
    permuteBy (o₁ ++ o₂) y = permuteBy o₁ y ++ permuteBy o₂ y := by
  simp [permuteBy]

@[simp] theorem permuteBy_length (o y : List Nat) : (permuteBy o y).length = o.length := by
  simp [permuteBy]

theorem permuteBy_range' (p l : Nat) (y : List Nat) (h : p + l ≤ y.length) :
    permuteBy (List.range' p l) y = (y.drop p).take l := by
  apply List.ext_getElem
  · simp only [permuteBy_length, List.length_range', List.length_take, List.length_drop]; omega
  · intro i h1 h2
    simp only [permuteBy_length, List.length_range'] at h1
    simp only [permuteBy, List.getElem_map, List.getElem_range', List.getElem_take,
      List.getElem_drop]
    rw [getD_of_lt _ (by omega)]
    simp

theorem permuteBy_range (y : List Nat) : permuteBy (List.range y.length) y = y := by
  rw [List.range_eq_range', permuteBy_range' 0 y.length y (by omega)]
  simp

/-- the block `b` of `a ++ b ++ c` -/
theorem permuteBy_block (a b c : List Nat) :
    permuteBy (List.range' a.length b.length) (a ++ b ++ c) = b := by
  rw [permuteBy_range' _ _ _ (by simp)]
  simp [List.append_assoc]

theorem permuteBy_block0 (b c : List Nat) :
    permuteBy (List.range b.length) (b ++ c) = b := by
  have := permuteBy_block [] b c
  simpa [List.range_eq_range'] using this

theorem unpermute_permuteBy {n : Nat} {axes y : List Nat} (h : IsPermOf n axes)
    (hy : y.length = n) : unpermute axes (permuteBy axes y) = y := by
  obtain ⟨h1, h2, _⟩ := h
  apply List.ext_getElem
  · simp [unpermute, h1, hy]
  · intro p hp1 hp2
    have hp : p < n := by simpa [unpermute, h1] using hp1
    have hmem : p ∈ axes := h2 p hp
    have hlt : axes.idxOf p < axes.length := List.idxOf_lt_length_iff.2 hmem
    simp only [unpermute, List.getElem_map, List.getElem_range, permuteBy]
    rw [getD_of_lt _ (by simpa using hlt)]
    simp only [List.getElem_map, List.getElem_idxOf hlt]
    rw [getD_of_lt _ hp2]

theorem inRange_permuteBy {s y axes : List Nat} (h : ∀ a ∈ axes, a < s.length)
    (hy : InRange s y) : InRange (permuteBy axes s) (permuteBy axes y) := by
  rw [inRange_iff_getD] at hy ⊢
  refine ⟨by simp, fun p hp => ?_⟩
  have hp' : p < axes.length := by simpa using hp
  simp only [permuteBy]
  rw [getD_of_lt _ (by simpa using hp'), getD_of_lt _ (by simpa using hp')]
  simp only [List.getElem_map]
  exact hy.2 _ (h _ (List.getElem_mem hp'))

section
variable {R : Type} [Zero R]

theorem transpose_shape (a : NDArray R) (axes : List Nat) :
    (a.transpose axes).shape = permuteBy axes a.shape := rfl

/-- `a.transpose(axes)[y[axes[0]], y[axes[1]], …] = a[y]`. -/
theorem transpose_get (a : NDArray R) {axes y : List Nat} (h : IsPermOf a.ndim axes)
    (hy : InRange a.shape y) :
    (a.transpose axes).get (permuteBy axes y) = a.get y := by
  unfold NDArray.transpose
  rw [ofFn_get _ _ (inRange_permuteBy h.2.2 hy), unpermute_permuteBy h hy.length_eq]

end

/-! ### exchanging two adjacent blocks of axes -/

/-- The order `[P, Y, X, Q]` of the axes `[P, X, Y, Q]`. -/
def swapOrder (p x y q : Nat) : List Nat :=
  List.range p ++ List.range' (p + x) y ++ List.range' p x ++ List.range' (p + x + y) q

theorem isPermOf_swapOrder (p x y q : Nat) : IsPermOf (p + x + y + q) (swapOrder p x y q) := by
  refine ⟨by simp [swapOrder]; omega, fun m hm => ?_, fun a ha => ?_⟩
  · simp only [swapOrder, List.mem_append, List.mem_range, List.mem_range'_1]; omega
  · simp only [swapOrder, List.mem_append, List.mem_range, List.mem_range'_1] at ha; omega

theorem permuteBy_swapOrder (P X Y Q : List Nat) :
    permuteBy (swapOrder P.length X.length Y.length Q.length) (P ++ X ++ Y ++ Q)
      = P ++ Y ++ X ++ Q := by
  simp only [swapOrder, permuteBy_append]
  have e1 : permuteBy (List.range P.length) (P ++ X ++ Y ++ Q) = P := by
    have := permuteBy_block0 P (X ++ Y ++ Q); simpa [List.append_assoc] using this
  have e2 : permuteBy (List.range' (P.length + X.length) Y.length) (P ++ X ++ Y ++ Q) = Y := by
    have := permuteBy_block (P ++ X) Y Q
    simpa [List.append_assoc, Nat.add_assoc] using this
  have e3 : permuteBy (List.range' P.length X.length) (P ++ X ++ Y ++ Q) = X := by
    have := permuteBy_block P X (Y ++ Q); simpa [List.append_assoc] using this
  have e4 : permuteBy (List.range' (P.length + X.length + Y.length) Q.length) (P ++ X ++ Y ++ Q)
      = Q := by
    have := permuteBy_block (P ++ X ++ Y) Q []
    simpa [List.append_assoc, Nat.add_assoc] using this
  rw [e1, e2, e3, e4]

section
variable {R : Type} [Zero R]

theorem transpose_swapOrder_shape (a : NDArray R) {P X Y Q : List Nat}
    (hs : a.shape = P ++ X ++ Y ++ Q) :
    (a.transpose (swapOrder P.length X.length Y.length Q.length)).shape = P ++ Y ++ X ++ Q := by
  rw [transpose_shape, hs, permuteBy_swapOrder]

/-- Transposing with `swapOrder` exchanges the index blocks. -/
theorem transpose_swapOrder_get (a : NDArray R) {P X Y Q p x y q : List Nat}
    (hs : a.shape = P ++ X ++ Y ++ Q)
    (hp : InRange P p) (hx : InRange X x) (hy : InRange Y y) (hq : InRange Q q) :
    (a.transpose (swapOrder P.length X.length Y.length Q.length)).get (p ++ y ++ x ++ q)
      = a.get (p ++ x ++ y ++ q) := by
  have hperm : IsPermOf a.ndim (swapOrder P.length X.length Y.length Q.length) := by
    have := isPermOf_swapOrder P.length X.length Y.length Q.length
    simpa [NDArray.ndim, hs, Nat.add_assoc] using this
  have hin : InRange a.shape (p ++ x ++ y ++ q) := by
    rw [hs]; exact inRange_append (inRange_append (inRange_append hp hx) hy) hq
  have := transpose_get a hperm hin
  rw [← hp.length_eq, ← hx.length_eq, ← hy.length_eq, ← hq.length_eq] at this ⊢
  rw [permuteBy_swapOrder] at this
  exact this

end

/-! ### numpy's `moveaxis`: the computation of `order` -/

theorem insertPair_eq_orderedInsert (x : Nat × Nat) :
    ∀ l, insertPair x l = List.orderedInsert (fun a b => pairLe a b = true) x l
  | [] => rfl
  | y :: l => by
    simp only [insertPair, List.orderedInsert_cons, insertPair_eq_orderedInsert x l]

theorem sortPairs_eq_insertionSort :
    ∀ l, sortPairs l = List.insertionSort (fun a b => pairLe a b = true) l
  | [] => rfl
  | x :: l => by
    simp only [sortPairs, List.insertionSort_cons, sortPairs_eq_insertionSort l,
      insertPair_eq_orderedInsert]

instance : Std.Total (fun a b : Nat × Nat => pairLe a b = true) :=
  ⟨fun a b => by
    simp only [pairLe, Bool.or_eq_true, Bool.and_eq_true, decide_eq_true_eq, beq_iff_eq]
    omega⟩

instance : IsTrans (Nat × Nat) (fun a b => pairLe a b = true) :=
  ⟨fun a b c => by
    simp only [pairLe, Bool.or_eq_true, Bool.and_eq_true, decide_eq_true_eq, beq_iff_eq]
    omega⟩

/-- Sorting is determined by any strictly increasing (in the first component) rearrangement. -/
theorem sortPairs_eq_of_perm {l L : List (Nat × Nat)} (hp : L.Perm l)
    (hs : L.Pairwise (fun a b => a.1 < b.1)) : sortPairs l = L := by
  rw [sortPairs_eq_insertionSort]
  have h1 : (List.insertionSort (fun a b => pairLe a b = true) l).Pairwise
      (fun a b => pairLe a b = true) := List.pairwise_insertionSort _ l
  have h2 : L.Pairwise (fun a b => pairLe a b = true) :=
    hs.imp (fun {a b} h => by simp [pairLe, h])
  have h3 : (List.insertionSort (fun a b => pairLe a b = true) l).Perm L :=
    (List.perm_insertionSort _ l).trans hp.symm
  refine List.Perm.eq_of_pairwise ?_ h1 h2 h3
  intro a b _ _ hab hba
  simp only [pairLe, Bool.or_eq_true, Bool.and_eq_true, decide_eq_true_eq, beq_iff_eq] at hab hba
  ext <;> omega

/-- Inserting `vals` one by one at consecutive positions `start, start+1, …`. -/
theorem foldl_pyInsert_consecutive : ∀ (vals pre post : List Nat),
    ((List.range' pre.length vals.length).zip vals).foldl (fun o ds => pyInsert o ds.1 ds.2)
      (pre ++ post) = pre ++ vals ++ post
  | [], pre, post => by simp
  | v :: vals, pre, post => by
    simp only [List.length_cons, List.range'_succ, List.zip_cons_cons, List.foldl_cons]
    have e : pyInsert (pre ++ post) pre.length v = (pre ++ [v]) ++ post := by
      simp [pyInsert]
    rw [e]
    have := foldl_pyInsert_consecutive vals (pre ++ [v]) post
    simp only [List.length_append, List.length_cons, List.length_nil, Nat.zero_add] at this
    rw [this]
    simp

theorem moveaxisOrder_eq {ndim : Nat} {source target vals pre post : List Nat}
    (hrest : (List.range ndim).filter (fun n => !source.contains n) = pre ++ post)
    (hsort : sortPairs (target.zip source) = (List.range' pre.length vals.length).zip vals) :
    moveaxisOrder ndim source target = pre ++ vals ++ post := by
  unfold moveaxisOrder
  rw [hrest, hsort, foldl_pyInsert_consecutive]

theorem filter_notin_range' (p k q : Nat) :
    (List.range (p + k + q)).filter (fun n => !(List.range' p k).contains n)
      = List.range p ++ List.range' (p + k) q := by
  have e : List.range (p + k + q) = List.range p ++ List.range' p k ++ List.range' (p + k) q := by
    simp only [List.range_eq_range']
    rw [← List.range'_append_1, ← List.range'_append_1]
    simp
  rw [e, List.filter_append, List.filter_append]
  have f1 : (List.range p).filter (fun n => !(List.range' p k).contains n) = List.range p := by
    apply List.filter_eq_self.2
    intro a ha
    simp only [List.mem_range] at ha
    simp only [List.contains_eq_mem, List.mem_range'_1, Bool.not_eq_eq_eq_not, Bool.not_true,
      decide_eq_false_iff_not]
    omega
  have f2 : (List.range' p k).filter (fun n => !(List.range' p k).contains n) = [] := by
    apply List.filter_eq_nil_iff.2
    intro a ha
    simp [ha]
  have f3 : (List.range' (p + k) q).filter (fun n => !(List.range' p k).contains n)
      = List.range' (p + k) q := by
    apply List.filter_eq_self.2
    intro a ha
    simp only [List.mem_range'_1] at ha
    simp only [List.contains_eq_mem, List.mem_range'_1, Bool.not_eq_eq_eq_not, Bool.not_true,
      decide_eq_false_iff_not]
    omega
  rw [f1, f2, f3]
  simp

theorem pairwise_zip_range' (start : Nat) (vals : List Nat) :
    ((List.range' start vals.length).zip vals).Pairwise (fun a b => a.1 < b.1) := by
  have h : (((List.range' start vals.length).zip vals).map Prod.fst).Pairwise (· < ·) := by
    rw [List.map_fst_zip (by simp)]
    exact List.pairwise_lt_range'
  exact List.pairwise_map.1 h

/-- The targets of the pattern "exchange the blocks X and Y of the window [W, X, Y, Z]". -/
def swapTargets (p w x y z : Nat) : List Nat :=
  List.range' p w ++ List.range' (p + w + y) x ++ List.range' (p + w) y
    ++ List.range' (p + w + x + y) z

/-- numpy's `order` for that pattern: `[.., W, Y, X, Z, ..]`. -/
theorem moveaxisOrder_blockswap (p w x y z q : Nat) :
    moveaxisOrder (p + w + x + y + z + q) (List.range' p (w + x + y + z)) (swapTargets p w x y z)
      = swapOrder (p + w) x y (z + q) := by
  have hrest := filter_notin_range' p (w + x + y + z) q
  have hn : p + (w + x + y + z) + q = p + w + x + y + z + q := by omega
  rw [hn] at hrest
  -- the sources in sorted-target order
  have hvals : (List.range' p w ++ List.range' (p + w + x) y ++ List.range' (p + w) x
      ++ List.range' (p + w + x + y) z).length = w + x + y + z := by
    simp only [List.length_append, List.length_range']; omega
  have hsort : sortPairs ((swapTargets p w x y z).zip (List.range' p (w + x + y + z)))
      = (List.range' (List.range p).length (List.range' p w ++ List.range' (p + w + x) y
          ++ List.range' (p + w) x ++ List.range' (p + w + x + y) z).length).zip
          (List.range' p w ++ List.range' (p + w + x) y ++ List.range' (p + w) x
            ++ List.range' (p + w + x + y) z) := by
    apply sortPairs_eq_of_perm
    · rw [hvals, List.length_range]
      have ht : List.range' p (w + x + y + z) = List.range' p w ++ List.range' (p + w) y
          ++ List.range' (p + w + y) x ++ List.range' (p + w + x + y) z := by
        have := range'_split4 p w y x z
        have e1 : w + y + x + z = w + x + y + z := by omega
        have e2 : p + w + y + x = p + w + x + y := by omega
        rw [e1, e2] at this
        exact this
      have hL : (List.range' p (w + x + y + z)).zip (List.range' p w ++ List.range' (p + w + x) y
            ++ List.range' (p + w) x ++ List.range' (p + w + x + y) z)
          = (List.range' p w).zip (List.range' p w)
            ++ (List.range' (p + w) y).zip (List.range' (p + w + x) y)
            ++ (List.range' (p + w + y) x).zip (List.range' (p + w) x)
            ++ (List.range' (p + w + x + y) z).zip (List.range' (p + w + x + y) z) := by
        rw [ht, zip_append4 (by simp) (by simp) (by simp)]
      have hl : (swapTargets p w x y z).zip (List.range' p (w + x + y + z))
          = (List.range' p w).zip (List.range' p w)
            ++ (List.range' (p + w + y) x).zip (List.range' (p + w) x)
            ++ (List.range' (p + w) y).zip (List.range' (p + w + x) y)
            ++ (List.range' (p + w + x + y) z).zip (List.range' (p + w + x + y) z) := by
        rw [range'_split4 p w x y z]
        unfold swapTargets
        rw [zip_append4 (by simp) (by simp) (by simp)]
      rw [hL, hl]
      simp only [List.append_assoc]
      apply List.Perm.append_left
      rw [← List.append_assoc, ← List.append_assoc]
      apply List.Perm.append_right
      exact List.perm_append_comm
    · exact pairwise_zip_range' _ _
  rw [moveaxisOrder_eq (ndim := p + w + x + y + z + q) hrest hsort]
  simp only [swapOrder, List.range_eq_range']
  have a1 : List.range' 0 (p + w) = List.range' 0 p ++ List.range' p w := by
    rw [range'_split]; simp
  have a2 : List.range' (p + w + x + y) (z + q)
      = List.range' (p + w + x + y) z ++ List.range' (p + (w + x + y + z)) q := by
    rw [range'_split]
    congr 2
    omega
  rw [a1, a2]
  simp [List.append_assoc]

/-- numpy's `order` when the last `k` axes move to position `p`: `[P, R, K] ↦ [P, K, R]`. -/
theorem moveaxisOrder_moveback (p r k : Nat) :
    moveaxisOrder (p + r + k) (List.range' (p + r) k) (List.range' p k) = swapOrder p r k 0 := by
  have hrest := filter_notin_range' (p + r) k 0
  simp only [Nat.add_zero, List.range'_zero, List.append_nil] at hrest
  have e : List.range (p + r) = List.range p ++ List.range' p r := by
    simp only [List.range_eq_range']
    rw [← List.range'_append_1]; simp
  rw [e] at hrest
  have hsort : sortPairs ((List.range' p k).zip (List.range' (p + r) k))
      = (List.range' (List.range p).length (List.range' (p + r) k).length).zip
          (List.range' (p + r) k) := by
    apply sortPairs_eq_of_perm
    · simp
    · exact pairwise_zip_range' _ _
  rw [moveaxisOrder_eq (ndim := p + r + k) hrest hsort]
  simp [swapOrder]

/-! ### contraction -/

section
variable {R : Type} [CommSemiring R]

theorem contract_shape (a b : NDArray R) (k : Nat) {sa c sb : List Nat}
    (ha : a.shape = sa ++ c) (hb : b.shape = c ++ sb) (hk : k = c.length) :
    (contract a b k).shape = sa ++ sb := by
  subst hk
  simp [contract, ofFn, NDArray.ndim, ha, hb]

theorem contract_get (a b : NDArray R) (k : Nat) {sa c sb i l : List Nat}
    (ha : a.shape = sa ++ c) (hb : b.shape = c ++ sb) (hk : k = c.length)
    (hi : InRange sa i) (hl : InRange sb l) :
    (contract a b k).get (i ++ l)
      = sumOver c (fun j => a.get (i ++ j) * b.get (j ++ l)) := by
  subst hk
  have h1 : a.ndim - c.length = sa.length := by simp [NDArray.ndim, ha]
  have h2 : List.take (a.ndim - c.length) a.shape ++ List.drop c.length b.shape = sa ++ sb := by
    simp [h1, ha, hb]
  unfold contract
  rw [h2, ofFn_get _ _ (inRange_append hi hl)]
  simp only [contractEntry, h1, hb, List.take_left', take_append_of_inRange l hi,
    drop_append_of_inRange l hi]
  rfl

end

end DV
