/-
  Proofs/UnsnakeSound.lean — C07: every result of `find_snake` describes a snake in the item view
  (cap, a block classified by the followed wire, cup); on such a state `unsnake` never raises,
  every diagram it yields is one legal interchange away from the previous one, the cap and cup end
  up adjacent and the final deletion is a yank; the box count drops by exactly two.
-/
import Proofs.UnsnakeMoves

namespace DV

/-! ### Typing of the two kinds of step (no functor needed) -/

theorem istep_typed {d d' : Diagram} (hd : d.WF) (h : istep d d' = true) : SStepOK d d' := by
  unfold istep at h
  obtain ⟨i, _, hi⟩ := List.any_eq_true.mp h
  obtain ⟨j, _, hj⟩ := List.any_eq_true.mp hi
  simp only [Bool.and_eq_true] at hj
  obtain ⟨_, hr⟩ := hj
  split at hr
  · rename_i x hx
    have : x = d' := by simpa using hr
    subst this
    obtain ⟨w, a, b⟩ := Diagram.interchange_wf hd hx
    have hp := Diagram.interchange_perm hd hx
    exact ⟨w, a, b, fun hv bx hbx => hv bx (hp.mem_iff.mp hbx)⟩
  · cases hr

theorem ystep_typed {d d' : Diagram} (hd : d.WF) (hv : d.boxesValid) (h : ystep d d' = true) :
    SStepOK d d' := by
  unfold ystep at h
  obtain ⟨k, _, hk⟩ := List.any_eq_true.mp h
  simp only [Bool.and_eq_true] at hk
  obtain ⟨hy, hr⟩ := hk
  split at hr
  · rename_i x hx
    have : x = d' := by simpa using hr
    subst this
    obtain ⟨a, b, ea, eb, _⟩ := yankableAt_spec hd hv hy
    have hlen : k + 1 < d.layers.boxes.length := (List.getElem?_eq_some_iff.mp eb).1
    have hx' : d.removePair (k : Int) ((k : Int) + 1) = .ok x := by simpa using hx
    obtain ⟨w, hdom, hcod, hboxes⟩ := Diagram.removePair_wf hd hlen hx'
    refine ⟨w, hdom, hcod, ?_⟩
    intro _ bx hbx
    apply hv
    rw [w.boxes, hboxes] at hbx
    rw [hd.boxes]
    simp only [List.map_append, List.mem_append, List.map_take, List.map_drop] at hbx
    rcases hbx with hbx | hbx
    · exact List.mem_of_mem_take hbx
    · exact List.mem_of_mem_drop hbx
  · cases hr

theorem StepChain.last_ok {d : Diagram} {steps : List Diagram} (hd : d.WF) (hv : d.boxesValid)
    (h : StepChain d steps) : (lastOr d steps).WF ∧ (lastOr d steps).boxesValid := by
  induction steps generalizing d with
  | nil => exact ⟨hd, hv⟩
  | cons s ss ih =>
    have hs := h.1
    simp only [Bool.or_eq_true] at hs
    have ok : SStepOK d s := by
      rcases hs with hs | hs
      · exact istep_typed hd hs
      · exact ystep_typed hd hv hs
    exact ih ok.wf (ok.valid hv) h.2

/-! ### The final deletion -/

theorem YankShape.dom_cod {a b : Layer} (s : YankShape a b) (va : a.box.dom = [])
    (vb : b.box.cod = []) : a.dom = b.cod := by
  cases s with
  | left lb ra x y ha hb h2 h3 => rw [ha, hb]; simp [Layer.dom, Layer.cod, va, vb]
  | right la rb x y ha hb h2 h3 => rw [ha, hb]; simp [Layer.dom, Layer.cod, va, vb]

/-- Deleting a yankable adjacent pair never raises. -/
theorem Diagram.removePair_total {d : Diagram} {k : Nat} (hd : d.WF) (hv : d.boxesValid)
    (hy : yankableAt d k = true) :
    ∃ d', d.removePair (k : Int) ((k : Int) + 1) = .ok d' := by
  obtain ⟨l0, l1, e2, e3, hcap, hcup, va, vb, shape⟩ := yankableAt_spec hd hv hy
  have hdc := shape.dom_cod (va.2 hcap).1 (vb.1 hcup).2
  have hlen : k + 1 < d.layers.boxes.length := (List.getElem?_eq_some_iff.mp e3).1
  obtain ⟨pre, hpre⟩ := LArrow.slice_prefix_total (a := d.layers) (i := k) (by omega)
  obtain ⟨post, hpost⟩ := LArrow.slice_suffix_total (a := d.layers) (k := k + 2)
  obtain ⟨pw, pdom, pboxes⟩ := LArrow.slice_prefix hd.chain (by omega) hpre
  obtain ⟨qw, qcod, qboxes⟩ := LArrow.slice_suffix hd.chain (by omega) (by omega) hpost
  have hsplit := list_split_pair e2 e3
  have hch : Chain d.layers.dom (d.layers.boxes.take k ++ [l0, l1] ++ d.layers.boxes.drop (k+2))
      d.layers.cod := by rw [← hsplit]; exact hd.chain
  obtain ⟨m2, hc1, hc2⟩ := chain_append.mp hch
  obtain ⟨m1, hc0, hc01⟩ := chain_append.mp hc1
  have hm1 : m1 = l0.dom := hc01.1
  have hm2 : l1.cod = m2 := hc01.2.2
  have pcod : pre.cod = l0.dom := by
    have : Chain pre.dom pre.boxes pre.cod := pw
    rw [pdom, pboxes] at this
    rw [chain_unique this hc0, hm1]
  have qdom : post.dom = l1.cod := by
    have : Chain post.dom post.boxes post.cod := qw
    rw [qcod, qboxes] at this
    rw [chain_start_unique this hc2, hm2]
  have e : ((k : Int) + 1 + 1) = ((k + 2 : Nat) : Int) := by omega
  unfold Diagram.removePair
  rw [e]
  simp only [hpre, hpost]
  have s3 : pre.then post = .ok ⟨pre.dom, post.cod, pre.boxes ++ post.boxes⟩ := by
    simp [LArrow.then, pcod, qdom, hdc]
  simp only [s3]
  exact ⟨_, rfl⟩

/-- The last step of `unsnake` on adjacent cap and cup joined straight. -/
theorem yank_final {d : Diagram} (hd : d.WF) (hv : d.boxesValid) {P S : List (Box × Int)}
    {capI cupI : Box × Int} (hit : d.items = P ++ capI :: cupI :: S)
    (hk1 : capI.1.kind = .cap) (hk2 : cupI.1.kind = .cup)
    (h : (cupI.2 + 1 = capI.2 ∧ cupI.1.dom.take 1 = capI.1.cod.drop 1) ∨
         (cupI.2 = capI.2 + 1 ∧ cupI.1.dom.drop 1 = capI.1.cod.take 1)) :
    ∃ d', d.removePair (P.length : Int) ((P.length : Int) + 1) = .ok d' ∧ ystep d d' = true ∧
      d'.boxes.length + 2 = d.boxes.length := by
  have hx : d.items[P.length]? = some capI := by rw [hit]; exact getElem?_mid P capI _
  have hy : d.items[P.length + 1]? = some cupI := by rw [hit]; exact getElem?_mid1 P capI cupI S
  obtain ⟨b0, o0⟩ := Diagram.items_get hd hx
  obtain ⟨b1, o1⟩ := Diagram.items_get hd hy
  have hlen : d.boxes.length = P.length + 2 + S.length := by
    rw [← Diagram.items_length hd, hit]; simp; omega
  have hyk : yankableAt d P.length = true := by
    unfold yankableAt
    simp only [b0, b1, o0, o1, hk1, hk2, beq_self_eq_true, Bool.true_and]
    rcases h with ⟨h1, h2⟩ | ⟨h1, h2⟩
    · simp [h1, h2]
    · simp [h1, h2]
  obtain ⟨d', hd'⟩ := Diagram.removePair_total hd hv hyk
  have hl : P.length + 1 < d.layers.boxes.length := by
    have : d.layers.boxes.length = d.boxes.length := by rw [hd.boxes]; simp
    omega
  obtain ⟨w, _, _, hboxes⟩ := Diagram.removePair_wf hd hl hd'
  refine ⟨d', hd', ?_, ?_⟩
  · unfold ystep
    refine List.any_eq_true.mpr ⟨P.length, List.mem_range.mpr (by omega), ?_⟩
    rw [hyk]
    simp only [Bool.true_and]
    have : d.removePair (P.length : Int) ((P.length : Int) + 1) = .ok d' := hd'
    simp [this]
  · have h1 : d'.boxes.length = d'.layers.boxes.length := by rw [w.boxes]; simp
    have h2 : d.boxes.length = d.layers.boxes.length := by rw [hd.boxes]; simp
    rw [h1, hboxes, h2]
    simp only [List.length_append, List.length_take, List.length_drop]
    omega

/-! ### What `find_snake` returns -/

theorem findSnakeFrom_some {d : Diagram} {fuel start : Nat} {y : Yank}
    (h : findSnakeFrom d fuel start = some y) :
    ∃ cap b off ls, d.boxes[cap]? = some b ∧ d.offsets[cap]? = some off ∧ b.kind = .cap ∧
      tryYank d cap b off ls = some y := by
  induction fuel generalizing start with
  | zero => simp [findSnakeFrom] at h
  | succ fuel ih =>
    simp only [findSnakeFrom] at h
    split at h
    · rename_i b off hb ho
      split at h
      · rename_i hk
        split at h
        · rename_i y1 h1
          cases h
          exact ⟨start, b, off, true, hb, ho, hk, h1⟩
        · split at h
          · rename_i y2 h2
            cases h
            exact ⟨start, b, off, false, hb, ho, hk, h2⟩
          · exact ih h
      · exact ih h
    · cases h

/-- The snake found by `find_snake`, in the item view. -/
structure SnakeAt (d : Diagram) (y : Yank) (P M S : List (Box × Int)) (capI cupI : Box × Int) :
    Prop where
  items : d.items = P ++ capI :: (M ++ cupI :: S)
  cap : y.cap = P.length
  cup : y.cup = P.length + 1 + M.length
  kcap : capI.1.kind = .cap
  kcup : cupI.1.kind = .cup
  left : y.leftSnake = true →
    classify (P.length + 1) capI.2 M = some (cupI.2 + 1, y.lo, y.ro) ∧
      cupI.1.dom.take 1 = capI.1.cod.drop 1
  right : y.leftSnake = false →
    classify (P.length + 1) (capI.2 + 1) M = some (cupI.2, y.lo, y.ro) ∧
      cupI.1.dom.drop 1 = capI.1.cod.take 1

theorem tryYank_snakeAt {d : Diagram} (hd : d.WF) {cap : Nat} {b : Box} {off : Int} {ls : Bool}
    {y : Yank} (hb : d.boxes[cap]? = some b) (ho : d.offsets[cap]? = some off)
    (hk : b.kind = .cap) (h : tryYank d cap b off ls = some y) :
    ∃ P M S cupI, SnakeAt d y P M S (b, off) cupI := by
  unfold tryYank at h
  simp only at h
  rcases hfw : d.followWire cap (if ls = true then off else off + 1) with ⟨cup, wire', lo, ro⟩
  rw [hfw] at h
  simp only at h
  split at h
  · rename_i cupBox cupOff hcb hco
    have hcl : cup < d.boxes.length := (List.getElem?_eq_some_iff.mp hcb).1
    obtain ⟨M, x, S, lo1, ro1, e1, e2, e3, e4, e5, e6, e7⟩ :=
      followWire_classify _ _ _ _ _ hfw hcl
    have hcapI := Diagram.items_of_get hd hb ho
    have hcupI := Diagram.items_of_get hd hcb hco
    obtain ⟨hsplit, hPl⟩ := list_at_split hcapI
    have e1' : d.items.drop (cap + 1) = M ++ x :: S := e1
    rw [e1'] at hsplit
    -- the item at `cup` is `x`
    have hx : x = (cupBox, cupOff) := by
      have : d.items[cup]? = some x := by
        rw [hsplit, e2]
        rw [List.getElem?_append_right (by omega)]
        rw [hPl]
        have : cap + 1 + M.length - cap = M.length + 1 := by omega
        rw [this]
        simp
      rw [hcupI] at this
      exact (Option.some.inj this).symm
    subst hx
    simp only [List.nil_append] at e4 e5
    subst e4 e5
    split at h
    · cases h
    · rename_i hkc
      split at h
      · cases h
      · rename_i c1
        split at h
        · cases h
        · rename_i c2
          split at h
          · cases h
          · rename_i c3
            split at h
            · cases h
            · rename_i c4
              cases h
              refine ⟨d.items.take cap, M, S, (cupBox, cupOff), hsplit, hPl.symm, by rw [hPl]; exact e2,
                hk, by simpa using hkc, ?_, ?_⟩
              · intro hl
                simp only at hl
                subst hl
                simp only [true_and, ne_eq, Decidable.not_not, if_true] at c1 c3 e3
                rw [hPl, c1]
                exact ⟨e3, c3⟩
              · intro hl
                simp only at hl
                subst hl
                simp only [Bool.false_eq_true, not_false_eq_true, true_and, ne_eq,
                  Decidable.not_not, if_false] at c2 c4 e3
                rw [hPl, c2]
                exact ⟨e3, c4⟩
  · cases h

theorem findSnake_snakeAt {d : Diagram} (hd : d.WF) {y : Yank} (h : d.findSnake = some y) :
    ∃ P M S capI cupI, SnakeAt d y P M S capI cupI := by
  obtain ⟨cap, b, off, ls, hb, ho, hk, ht⟩ := findSnakeFrom_some h
  obtain ⟨P, M, S, cupI, hs⟩ := tryYank_snakeAt hd hb ho hk ht
  exact ⟨P, M, S, (b, off), cupI, hs⟩

/-! ### `unsnake` on a snake -/

theorem mem_boxes_of_items {d : Diagram} (hd : d.WF) {x : Box × Int} (h : x ∈ d.items) :
    x.1 ∈ d.boxes := by
  rw [Diagram.items_boxes hd]; exact List.mem_map_of_mem h

theorem unsnake_left {d : Diagram} {y : Yank} {P M S : List (Box × Int)} {capI cupI : Box × Int}
    (hd : d.WF) (hv : d.boxesValid) (hs : SnakeAt d y P M S capI cupI) (hl : y.leftSnake = true) :
    ∃ moves last, d.unsnake y = .ok (moves ++ [last]) ∧ IChain d moves ∧
      ystep (lastOr d moves) last = true ∧ last.boxes.length + 2 = d.boxes.length := by
  obtain ⟨hcl, hty⟩ := hs.left hl
  have vcup : cupI.1.valid := hv _ (mem_boxes_of_items hd (by rw [hs.items]; simp))
  have hcupdom := (vcup.1 hs.kcup).1
  -- first loop
  obtain ⟨d1, P1, capI1, M1, ro1, acc1, hmv1, w1, dom1, cod1, it1, hc1, hcl1, hl1, hch1, hla1⟩ :=
    moveLeftUp y.lo (acc := []) (t := (y.cap : Int)) hd hs.items (by rw [hs.cap]) hcl
  obtain ⟨hright, hj, hro⟩ := classify_no_left hcl1
  -- second loop
  have hcond : ∀ x ∈ M1, x.2 ≥ cupI.2 + cupI.1.dom.length := by
    intro x hx; have := hright x hx; omega
  have ht2 : (y.cup : Int) = ((P1.length + 1 + M1.length : Nat) : Int) := by
    rw [hs.cup]; omega
  obtain ⟨d2, S2, ro', acc2, hmv2, w2, dom2, cod2, it2, hS2, hch2, hla2⟩ :=
    moveRightDown M1.length (acc := [] ++ acc1) rfl w1 it1 hcond ht2
  have ok1 := StepChain.last_ok hd hv hch1.stepChain
  rw [hla1] at ok1
  have ok2 := StepChain.last_ok ok1.1 ok1.2 hch2.stepChain
  rw [hla2] at ok2
  have hv2 : d2.boxesValid := ok2.2
  obtain ⟨d3, hrp, hys, hlen3⟩ := yank_final w2 hv2 it2 (by rw [hc1]; exact hs.kcap) hs.kcup
    (Or.inl ⟨by omega, by rw [hc1]; exact hty⟩)
  refine ⟨[] ++ acc1 ++ acc2, d3, ?_, ?_, ?_, ?_⟩
  · unfold Diagram.unsnake
    rw [if_pos hl, hmv1]
    dsimp only
    rw [hro, hmv2]
    dsimp only
    rw [hrp]
  · simp only [List.nil_append]
    exact IChain.append hch1 (by rw [hla1]; exact hch2)
  · simp only [List.nil_append]
    rw [lastOr_append2, hla1, hla2]
    exact hys
  · have e1 := Diagram.items_length hd
    have e2 := Diagram.items_length w2
    rw [hs.items] at e1; rw [it2] at e2
    simp only [List.length_append, List.length_cons] at e1 e2
    omega

theorem unsnake_right {d : Diagram} {y : Yank} {P M S : List (Box × Int)} {capI cupI : Box × Int}
    (hd : d.WF) (hv : d.boxesValid) (hs : SnakeAt d y P M S capI cupI) (hl : y.leftSnake = false) :
    ∃ moves last, d.unsnake y = .ok (moves ++ [last]) ∧ IChain d moves ∧
      ystep (lastOr d moves) last = true ∧ last.boxes.length + 2 = d.boxes.length := by
  obtain ⟨hcl, hty⟩ := hs.right hl
  have vcup : cupI.1.valid := hv _ (mem_boxes_of_items hd (by rw [hs.items]; simp))
  have vcap : capI.1.valid := hv _ (mem_boxes_of_items hd (by rw [hs.items]; simp))
  have hcupdom := (vcup.1 hs.kcup).1
  have hcapcod := (vcap.2 hs.kcap).2
  -- first loop
  have ht1 : (y.cup : Int) = ((P.length + 1 + M.length : Nat) : Int) := by rw [hs.cup]
  obtain ⟨d1, M1, cupI1, S1, ro1, acc1, hmv1, w1, dom1, cod1, it1, hc1, hcl1, hl1, hch1, hla1⟩ :=
    moveLeftDown y.lo.length (acc := []) rfl hd hs.items ht1 (by omega) hcl
  obtain ⟨hright, hj, hro⟩ := classify_no_left hcl1
  -- second loop
  have hcond : ∀ x ∈ M1, ¬ (capI.2 ≥ x.2 + x.1.dom.length) ∧ x.2 ≥ capI.2 + capI.1.cod.length := by
    intro x hx; have := hright x hx; omega
  have ht2 : (y.cap : Int) = (P.length : Int) := by rw [hs.cap]
  obtain ⟨d2, P2, ro', acc2, hmv2, w2, dom2, cod2, it2, hP2, hch2, hla2⟩ :=
    moveRightUp M1.length (acc := [] ++ acc1) rfl w1 it1 hcond ht2
  have ok1 := StepChain.last_ok hd hv hch1.stepChain
  rw [hla1] at ok1
  have ok2 := StepChain.last_ok ok1.1 ok1.2 hch2.stepChain
  rw [hla2] at ok2
  have hv2 : d2.boxesValid := ok2.2
  obtain ⟨d3, hrp, hys, hlen3⟩ := yank_final w2 hv2 it2 hs.kcap (by rw [hc1]; exact hs.kcup)
    (Or.inr ⟨by omega, by rw [hc1]; exact hty⟩)
  have ecup : ((P.length + 1 + M1.length : Nat) : Int) = (P2.length : Int) + 1 := by omega
  rw [ecup] at hmv1
  refine ⟨[] ++ acc1 ++ acc2, d3, ?_, ?_, ?_, ?_⟩
  · unfold Diagram.unsnake
    rw [if_neg (by simp [hl]), hmv1]
    dsimp only
    rw [hro, hmv2]
    dsimp only
    rw [hrp]
  · simp only [List.nil_append]
    exact IChain.append hch1 (by rw [hla1]; exact hch2)
  · simp only [List.nil_append]
    rw [lastOr_append2, hla1, hla2]
    exact hys
  · have e1 := Diagram.items_length hd
    have e2 := Diagram.items_length w2
    rw [hs.items] at e1; rw [it2] at e2
    simp only [List.length_append, List.length_cons] at e1 e2
    omega

/-- `unsnake` on any result of `find_snake`: it never raises; every diagram it yields but the last
    is one legal interchange away from its predecessor; the last one is the yank of an ADJACENT
    cap/cup pair joined straight (so the index updates did bring them together); two boxes go. -/
theorem unsnake_shape {d : Diagram} {y : Yank} (hd : d.WF) (hv : d.boxesValid)
    (h : d.findSnake = some y) :
    ∃ moves last, d.unsnake y = .ok (moves ++ [last]) ∧ IChain d moves ∧
      ystep (lastOr d moves) last = true ∧ last.boxes.length + 2 = d.boxes.length := by
  obtain ⟨P, M, S, capI, cupI, hs⟩ := findSnake_snakeAt hd h
  cases hl : y.leftSnake with
  | true => exact unsnake_left hd hv hs hl
  | false => exact unsnake_right hd hv hs hl

theorem unsnake_ok {d : Diagram} {y : Yank} (hd : d.WF) (hv : d.boxesValid)
    (h : d.findSnake = some y) :
    ∃ steps, d.unsnake y = .ok steps ∧ StepChain d steps ∧
      (lastOr d steps).boxes.length + 2 = d.boxes.length := by
  obtain ⟨moves, last, hu, hch, hys, hlen⟩ := unsnake_shape hd hv h
  refine ⟨moves ++ [last], hu, StepChain.append hch.stepChain ⟨by rw [hys]; simp, trivial⟩, ?_⟩
  rw [lastOr_append]; exact hlen

/-! ### The loop -/

/-- The first loop of `snake_removal` with at least `len + 1` rounds of fuel: it never raises,
    yields an accepted trace, and stops because no snake is left. -/
theorem snakeLoop_spec (fuel : Nat) : ∀ {d : Diagram} {acc : List Diagram}, d.WF → d.boxesValid →
    d.boxes.length < fuel →
    ∃ d1 steps, snakeLoop fuel d acc = .ok (d1, acc ++ steps) ∧ StepChain d steps ∧
      lastOr d steps = d1 ∧ d1.findSnake = none ∧ d1.WF ∧ d1.boxesValid ∧
      d1.boxes.length ≤ d.boxes.length := by
  induction fuel with
  | zero => intro d acc _ _ h; omega
  | succ fuel ih =>
    intro d acc hd hv hlt
    simp only [snakeLoop]
    cases hf : d.findSnake with
    | none => exact ⟨d, [], by simp, trivial, rfl, hf, hd, hv, Nat.le_refl _⟩
    | some y =>
      obtain ⟨steps, hu, hch, hlen⟩ := unsnake_ok hd hv hf
      obtain ⟨w, v⟩ := StepChain.last_ok hd hv hch
      obtain ⟨d1, steps2, hloop, hch2, hla, hnone, w1, v1, hle⟩ :=
        ih (acc := acc ++ steps) w v (by omega)
      simp only [hu]
      refine ⟨d1, steps ++ steps2, by rw [hloop]; simp, StepChain.append hch hch2, ?_, hnone, w1, v1,
        by omega⟩
      rw [lastOr_append2, hla]

end DV
