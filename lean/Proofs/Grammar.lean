/-
  Proofs/Grammar.lean — lemmas for property C18 (grammar front-ends).

  Part A  adjoints of types, Python slices of appended lists
  Part B  `Has r dom cod`: "the call returns a well-typed diagram dom → cod", closed under
          `tensorE`/`thenE`; totality of `swap`, `cups`, `caps`
  Part C  pregroup.eager_parse / brute_force
  Part D  cfg.CFG.generate
  Part E  biclosed2rigid on types, rule boxes, Curry boxes, diagrams
  Part F  ccg.tree2diagram
-/
import Proofs.WFOps
import Model.Grammar

namespace DV

/-! ## Part A — adjoints and slices -/

@[simp] theorem Ob.l_r (x : Ob) : x.l.r = x := by
  cases x; simp [Ob.l, Ob.r]
@[simp] theorem Ob.r_l (x : Ob) : x.r.l = x := by
  cases x; simp [Ob.l, Ob.r]

@[simp] theorem Ty.l_nil : Ty.l [] = [] := rfl
@[simp] theorem Ty.r_nil : Ty.r [] = [] := rfl
@[simp] theorem Ty.l_length (t : Ty) : (Ty.l t).length = t.length := by simp [Ty.l]
@[simp] theorem Ty.r_length (t : Ty) : (Ty.r t).length = t.length := by simp [Ty.r]

/-- `(a @ b).l == b.l @ a.l` -/
theorem Ty.l_append (a b : Ty) : Ty.l (a ++ b) = Ty.l b ++ Ty.l a := by simp [Ty.l]
theorem Ty.r_append (a b : Ty) : Ty.r (a ++ b) = Ty.r b ++ Ty.r a := by simp [Ty.r]

/-- `t.l.r == t` -/
@[simp] theorem Ty.l_r (t : Ty) : Ty.r (Ty.l t) = t := by
  simp [Ty.l, Ty.r, List.map_reverse, Function.comp_def]
/-- `t.r.l == t` -/
@[simp] theorem Ty.r_l (t : Ty) : Ty.l (Ty.r t) = t := by
  simp [Ty.l, Ty.r, List.map_reverse, Function.comp_def]

@[simp] theorem Ty.r_singleton (x : Ob) : Ty.r [x] = [x.r] := rfl
@[simp] theorem Ty.l_singleton (x : Ob) : Ty.l [x] = [x.l] := rfl

theorem Ty.l_eq_nil {t : Ty} : Ty.l t = [] ↔ t = [] := by
  constructor
  · intro h; have := congrArg List.length h; simp at this; exact this
  · rintro rfl; rfl
theorem Ty.r_eq_nil {t : Ty} : Ty.r t = [] ↔ t = [] := by
  constructor
  · intro h; have := congrArg List.length h; simp at this; exact this
  · rintro rfl; rfl

/-- `xs[a:b]` for natural bounds. -/
theorem pySlice_nat {α} (xs : List α) (a b : Nat) :
    pySlice xs (some (a : Int)) (some (b : Int)) = (xs.drop a).take (b - a) := by
  simp only [pySlice, pyLo, pyHi, pyIdx_nat]
  by_cases h : a ≤ xs.length
  · rw [Nat.min_eq_left h]
    rw [List.take_eq_take_iff]
    simp only [List.length_drop]
    omega
  · have h' : xs.length ≤ a := by omega
    rw [Nat.min_eq_right h', List.drop_eq_nil_of_le h', List.drop_eq_nil_of_le (Nat.le_refl _)]
    simp

/-- `xs[:i] + xs[i:] == xs` for every integer `i`. -/
theorem pySlice_split {α} (xs : List α) (i : Int) :
    pySlice xs none (some i) ++ pySlice xs (some i) none = xs := by
  simp only [pySlice, pyLo, pyHi]
  have : (xs.drop (pyIdx xs.length i)).take (xs.length - pyIdx xs.length i)
      = xs.drop (pyIdx xs.length i) := by
    apply List.take_of_length_le; simp
  rw [this]
  simp

theorem pySlice_take_append {α} (a b : List α) :
    pySlice (a ++ b) none (some (a.length : Int)) = a := by
  rw [pySlice_take]; simp
theorem pySlice_drop_append {α} (a b : List α) :
    pySlice (a ++ b) (some (a.length : Int)) none = b := by
  rw [pySlice_drop]; simp

/-- `(a + b)[:-len(b)] == a` when `b` is not empty. -/
theorem pySlice_negTake_append {α} (a b : List α) (hb : b ≠ []) :
    pySlice (a ++ b) none (some (-(b.length : Int))) = a := by
  have hpos : 0 < b.length := List.length_pos_iff.mpr hb
  have : pyIdx (a ++ b).length (-(b.length : Int)) = a.length := by
    unfold pyIdx
    simp only [List.length_append]
    split
    · split <;> omega
    · omega
  simp only [List.length_append] at this
  simp [pySlice, pyLo, pyHi, this]
/-- `(a + b)[-len(b):] == b` when `b` is not empty. -/
theorem pySlice_negDrop_append {α} (a b : List α) (hb : b ≠ []) :
    pySlice (a ++ b) (some (-(b.length : Int))) none = b := by
  have hpos : 0 < b.length := List.length_pos_iff.mpr hb
  have : pyIdx (a ++ b).length (-(b.length : Int)) = a.length := by
    unfold pyIdx
    simp only [List.length_append]
    split
    · split <;> omega
    · omega
  simp only [List.length_append] at this
  simp [pySlice, pyLo, pyHi, this]

/-! ## Part B — calls that return a well-typed diagram -/

/-- The call returned (no exception) a well-typed diagram `dom → cod`. -/
def Has (r : Except Err Diagram) (dom cod : Ty) : Prop :=
  ∃ d, r = .ok d ∧ d.WF ∧ d.dom = dom ∧ d.cod = cod

theorem Has.ok {d : Diagram} (h : d.WF) : Has (.ok d) d.dom d.cod := ⟨d, rfl, h, rfl, rfl⟩

theorem Has.id (t : Ty) : Has (.ok (Diagram.id t)) t t := ⟨_, rfl, Diagram.id_wf t, rfl, rfl⟩

theorem Has.ofBox (b : Box) : Has (.ok (Diagram.ofBox b)) b.dom b.cod :=
  ⟨_, rfl, Diagram.ofBox_wf b, rfl, rfl⟩

theorem Has.cast {r : Except Err Diagram} {d c d' c' : Ty} (h : Has r d c) (hd : d = d')
    (hc : c = c') : Has r d' c' := by subst hd; subst hc; exact h

theorem Has.tensorE {a b : Except Err Diagram} {d1 c1 d2 c2 : Ty} (ha : Has a d1 c1)
    (hb : Has b d2 c2) : Has (tensorE a b) (d1 ++ d2) (c1 ++ c2) := by
  obtain ⟨x, rfl, xw, rfl, rfl⟩ := ha
  obtain ⟨y, rfl, yw, rfl, rfl⟩ := hb
  obtain ⟨d, hd⟩ := Diagram.tensor_total xw yw
  obtain ⟨w, e1, e2⟩ := Diagram.tensor_props xw yw hd
  exact ⟨d, by simp [DV.tensorE, hd], w, e1, e2⟩

theorem Has.thenE {a b : Except Err Diagram} {d1 m m' c : Ty} (ha : Has a d1 m)
    (hb : Has b m' c) (hm : m = m') : Has (thenE a b) d1 c := by
  subst hm
  obtain ⟨x, rfl, xw, rfl, rfl⟩ := ha
  obtain ⟨y, rfl, yw, hy, rfl⟩ := hb
  obtain ⟨d, hd⟩ := (Diagram.then_ok_iff xw yw).mpr hy.symm
  obtain ⟨w, e1, e2⟩ := Diagram.then_props xw yw hd
  exact ⟨d, by simp [DV.thenE, hd], w, e1, e2⟩

/-! ### the scanning constructor accepts every chain of layers -/

theorem scanLayers_complete (ls : LArrow) (ys : List Layer) (c : Ty) (h : Chain ls.cod ys c) :
    scanLayers ls (ys.map (·.box)) (ys.map (fun l => (l.left.length : Int)))
      = .ok ⟨ls.dom, c, ls.boxes ++ ys⟩ := by
  induction ys generalizing ls with
  | nil =>
    simp only [Chain] at h
    cases ls; simp_all [scanLayers]
  | cons y ys ih =>
    obtain ⟨h1, h2⟩ := h
    simp only [List.map_cons, scanLayers]
    have hl : pySlice ls.cod none (some (y.left.length : Int)) = y.left := by
      rw [h1, Layer.dom, List.append_assoc]; exact pySlice_take_append _ _
    have hr : pySlice ls.cod (some ((y.left.length : Int) + (y.box.dom.length : Int))) none
        = y.right := by
      have : ((y.left.length : Int) + (y.box.dom.length : Int))
          = ((y.left ++ y.box.dom).length : Int) := by simp
      rw [this, h1, Layer.dom]; exact pySlice_drop_append _ _
    rw [hl, hr]
    simp only [ne_eq, not_true_eq_false, ↓reduceIte]
    have hthen : ls.thenLayer ⟨y.left, y.box, y.right⟩ = .ok ⟨ls.dom, y.cod, ls.boxes ++ [y]⟩ := by
      simp [LArrow.thenLayer, LArrow.then, Layer.arrow, h1]
    rw [hthen]
    have := ih ⟨ls.dom, y.cod, ls.boxes ++ [y]⟩ h2
    simpa using this

theorem Diagram.mk?_complete (dom cod : Ty) (ys : List Layer) (h : Chain dom ys cod) :
    Has (Diagram.mk? dom cod (ys.map (·.box)) (ys.map (fun l => (l.left.length : Int)))) dom cod := by
  have hs := scanLayers_complete (LArrow.id dom) ys cod h
  have : Diagram.mk? dom cod (ys.map (·.box)) (ys.map (fun l => (l.left.length : Int)))
      = .ok ⟨dom, cod, ys.map (·.box), ys.map (fun l => (l.left.length : Int)),
          ⟨dom, cod, ys⟩⟩ := by
    simp only [LArrow.id] at hs
    simp [Diagram.mk?, hs, LArrow.then, LArrow.id]
  refine ⟨_, this, ?_⟩
  obtain ⟨w, a, b, _, _⟩ := Diagram.mk?_ok this
  exact ⟨w, a, b⟩

/-! ### swap is total -/

/-- The layers of `swap([l], right)` once `pre` has been passed. -/
def swapLayers (l : Ob) : Ty → Ty → List Layer
  | _, [] => []
  | pre, r :: rs => ⟨pre, Box.swap l r, rs⟩ :: swapLayers l (pre ++ [r]) rs

theorem swapLayers_chain (l : Ob) (pre right : Ty) :
    Chain (pre ++ [l] ++ right) (swapLayers l pre right) (pre ++ right ++ [l]) := by
  induction right generalizing pre with
  | nil => simp [swapLayers, Chain]
  | cons r rs ih =>
    refine ⟨by simp [Layer.dom, Box.swap], ?_⟩
    have := ih (pre ++ [r])
    simpa [Layer.cod, Box.swap] using this

theorem swapLayers_boxes (l : Ob) (pre right : Ty) :
    (swapLayers l pre right).map (·.box) = right.map (fun r => Box.swap l r) := by
  induction right generalizing pre with
  | nil => rfl
  | cons r rs ih => simp [swapLayers, ih]

theorem swapLayers_offsets (l : Ob) (pre right : Ty) :
    (swapLayers l pre right).map (fun y => (y.left.length : Int))
      = (List.range' pre.length right.length).map (fun (n : Nat) => (n : Int)) := by
  induction right generalizing pre with
  | nil => rfl
  | cons r rs ih =>
    simp only [swapLayers, List.map_cons, List.length_cons, List.range'_succ]
    rw [ih]; simp

theorem swapOne_has (l : Ob) (right : Ty) : Has (swapOne l right) ([l] ++ right) (right ++ [l]) := by
  have h := Diagram.mk?_complete ([l] ++ right) (right ++ [l]) (swapLayers l [] right)
    (by simpa using swapLayers_chain l [] right)
  rw [swapLayers_boxes, swapLayers_offsets] at h
  simpa [swapOne, List.range_eq_range'] using h

theorem Has.swap (left right : Ty) : Has (Diagram.swap left right) (left ++ right) (right ++ left) := by
  induction left with
  | nil => simpa [Diagram.swap] using Has.id right
  | cons l ls ih =>
    cases ls with
    | nil => simpa [Diagram.swap] using swapOne_has l right
    | cons l2 ls =>
      have top := Has.tensorE (Has.id [l]) ih
      have bot := Has.tensorE (swapOne_has l right) (Has.id (l2 :: ls))
      have := Has.thenE top bot (by simp)
      have e : Diagram.swap (l :: l2 :: ls) right =
          DV.thenE (DV.tensorE (Except.ok (Diagram.id [l])) (Diagram.swap (l2 :: ls) right))
            (DV.tensorE (swapOne l right) (Except.ok (Diagram.id (l2 :: ls)))) := by
        simp only [Diagram.swap, DV.thenE, DV.tensorE]
        cases Diagram.swap (l2 :: ls) right with
        | error e => rfl
        | ok rest =>
          simp only
          cases (Diagram.id [l]).tensor rest with
          | error e => rfl
          | ok t =>
            simp only
            cases swapOne l right with
            | error e => rfl
            | ok s1 => rfl
      rw [e]
      exact this.cast (by simp) (by simp)

/-! ### cups and caps are total on adjoint types -/

theorem cupsLoop_has {left right : Ty} (hlen : left.length = right.length) (rev : Bool) :
    ∀ (n i : Nat) (d : Diagram), i + n = left.length → d.WF →
      (if rev then d.dom else d.cod) = left.take (left.length - i) ++ right.drop i →
      ∃ d', cupsLoop left right rev n i d = .ok d' ∧ d'.WF ∧
        (if rev then d'.cod = d.cod ∧ d'.dom = [] else d'.dom = d.dom ∧ d'.cod = []) := by
  intro n
  induction n with
  | zero =>
    intro i d hi hw hd
    have hi' : i = left.length := by omega
    subst hi'
    refine ⟨d, by simp [cupsLoop], hw, ?_⟩
    have e : right.drop left.length = [] := List.drop_eq_nil_of_le (by omega)
    cases rev <;> simp_all
  | succ n ih =>
    intro i d hi hw hd
    have hiL : i < left.length := by omega
    have hjL : left.length - i - 1 < left.length := by omega
    have hiR : i < right.length := by omega
    have hlj : left[left.length - i - 1]? = some left[left.length - i - 1] := List.getElem?_eq_getElem hjL
    have hri : right[i]? = some right[i] := List.getElem?_eq_getElem hiR
    -- the open end of the type before and after this step
    have htake : left.take (left.length - i)
        = left.take (left.length - i - 1) ++ [left[left.length - i - 1]] := by
      have e : left.length - i - 1 + 1 = left.length - i := by omega
      have := List.take_succ_eq_append_getElem hjL
      rw [e] at this
      exact this
    have hdrop : right.drop i = right[i] :: right.drop (i + 1) := List.drop_eq_getElem_cons hiR
    have hnext : left.length - (i + 1) = left.length - i - 1 := by omega
    simp only [cupsLoop, hlj, hri]
    cases rev with
    | false =>
      simp only [Bool.false_eq_true, ↓reduceIte] at hd ⊢
      obtain ⟨x, hx⟩ := Diagram.tensor_total (Diagram.id_wf (left.take (left.length - i - 1)))
        (Diagram.ofBox_wf (Box.cup left[left.length - i - 1] right[i]))
      obtain ⟨xw, xd, xc⟩ := Diagram.tensor_props (Diagram.id_wf _) (Diagram.ofBox_wf _) hx
      obtain ⟨layer, hl⟩ := Diagram.tensor_total xw (Diagram.id_wf (right.drop (i + 1)))
      obtain ⟨lw, ld, lc⟩ := Diagram.tensor_props xw (Diagram.id_wf _) hl
      rw [xd] at ld; rw [xc] at lc
      simp only [hx, hl]
      have hcomp : d.cod = layer.dom := by
        rw [hd, ld, htake, hdrop]; simp only [Diagram.id, Diagram.ofBox, Box.cup, Box.cap, List.append_assoc, List.cons_append, List.nil_append, List.append_nil]
      obtain ⟨d1, hd1⟩ := (Diagram.then_ok_iff hw lw).mpr hcomp
      obtain ⟨w1, e1, e2⟩ := Diagram.then_props hw lw hd1
      simp only [hd1]
      obtain ⟨d', h', w', hdom, hcod⟩ := ih (i + 1) d1 (by omega) w1 (by
        show d1.cod = _
        rw [e2, lc, hnext]; simp only [Diagram.id, Diagram.ofBox, Box.cup, Box.cap, List.append_assoc, List.cons_append, List.nil_append, List.append_nil])
      exact ⟨d', h', w', hdom.trans e1, hcod⟩
    | true =>
      simp only [↓reduceIte] at hd ⊢
      obtain ⟨x, hx⟩ := Diagram.tensor_total (Diagram.id_wf (left.take (left.length - i - 1)))
        (Diagram.ofBox_wf (Box.cap left[left.length - i - 1] right[i]))
      obtain ⟨xw, xd, xc⟩ := Diagram.tensor_props (Diagram.id_wf _) (Diagram.ofBox_wf _) hx
      obtain ⟨layer, hl⟩ := Diagram.tensor_total xw (Diagram.id_wf (right.drop (i + 1)))
      obtain ⟨lw, ld, lc⟩ := Diagram.tensor_props xw (Diagram.id_wf _) hl
      rw [xd] at ld; rw [xc] at lc
      simp only [hx, hl]
      have hcomp : layer.cod = d.dom := by
        rw [hd, lc, htake, hdrop]; simp only [Diagram.id, Diagram.ofBox, Box.cup, Box.cap, List.append_assoc, List.cons_append, List.nil_append, List.append_nil]
      obtain ⟨d1, hd1⟩ := (Diagram.then_ok_iff lw hw).mpr hcomp
      obtain ⟨w1, e1, e2⟩ := Diagram.then_props lw hw hd1
      simp only [hd1]
      obtain ⟨d', h', w', hcod, hdom⟩ := ih (i + 1) d1 (by omega) w1 (by
        show d1.dom = _
        rw [e1, ld, hnext]; simp only [Diagram.id, Diagram.ofBox, Box.cup, Box.cap, List.append_assoc, List.cons_append, List.nil_append, List.append_nil])
      exact ⟨d', h', w', hcod.trans e2, hdom⟩

theorem adjoint_length {left right : Ty} (h : Ty.r left = right ∨ Ty.r right = left) :
    left.length = right.length := by
  rcases h with h | h
  · rw [← h]; simp
  · rw [← h]; simp

/-- `cups(left, right)` returns a well-typed diagram `left @ right → Ty()` whenever the two
    types are adjoint one way or the other. -/
theorem Has.cups {left right : Ty} (h : Ty.r left = right ∨ Ty.r right = left) :
    Has (Diagram.cups left right) (left ++ right) [] := by
  have hlen := adjoint_length h
  have hne : ¬ (Ty.r left ≠ right ∧ Ty.r right ≠ left) := by
    rcases h with h | h <;> simp [h]
  obtain ⟨d', h', w', hdom, hcod⟩ := cupsLoop_has hlen false left.length 0 (Diagram.id (left ++ right))
    (by simp) (Diagram.id_wf _) (by simp [Diagram.id])
  exact ⟨d', by simp [Diagram.cups, hne, h'], w', hdom, hcod⟩

theorem Has.caps {left right : Ty} (h : Ty.r left = right ∨ Ty.r right = left) :
    Has (Diagram.caps left right) [] (left ++ right) := by
  have hlen := adjoint_length h
  have hne : ¬ (Ty.r left ≠ right ∧ Ty.r right ≠ left) := by
    rcases h with h | h <;> simp [h]
  obtain ⟨d', h', w', hcod, hdom⟩ := cupsLoop_has hlen true left.length 0 (Diagram.id (left ++ right))
    (by simp) (Diagram.id_wf _) (by simp [Diagram.id])
  exact ⟨d', by simp [Diagram.caps, hne, h'], w', hdom, hcod⟩

/-! ## Part C — pregroup.eager_parse, brute_force -/

/-- The box is `Cup(x, x.r)` for some basic type `x`. -/
def IsAdjCup (b : Box) : Prop := ∃ x : Ob, b = Box.cup x x.r

theorem tensorAll_spec (ws : List Box) :
    ∀ (acc : Diagram), acc.WF →
      ∃ d, tensorAll acc (ws.map Diagram.ofBox) = .ok d ∧ d.WF ∧
        d.dom = acc.dom ++ ws.flatMap (·.dom) ∧ d.cod = acc.cod ++ ws.flatMap (·.cod) ∧
        d.boxes = acc.boxes ++ ws := by
  induction ws with
  | nil => intro acc hw; exact ⟨acc, rfl, hw, by simp, by simp, by simp⟩
  | cons w ws ih =>
    intro acc hw
    have hs := Diagram.tensor_spec hw (Diagram.ofBox_wf w)
    obtain ⟨w1, e1, e2⟩ := Diagram.tensor_props hw (Diagram.ofBox_wf w) hs
    simp only [List.map_cons, tensorAll, hs]
    obtain ⟨d, hd, dw, dd, dc, db⟩ := ih _ w1
    refine ⟨d, hd, dw, ?_, ?_, ?_⟩
    · rw [dd]; simp [Diagram.ofBox]
    · rw [dc]; simp [Diagram.ofBox]
    · rw [db]; simp [Diagram.ofBox]

theorem findAdj_some : ∀ {scan : Ty} {i : Nat}, findAdj scan = some i →
    ∃ pre x post, scan = pre ++ [x, x.r] ++ post ∧ pre.length = i
  | [], _, h => by simp [findAdj] at h
  | [_], _, h => by simp [findAdj] at h
  | x :: y :: rest, i, h => by
    simp only [findAdj] at h
    split at h
    · rename_i hxy
      simp only [Ty.r_singleton, List.cons.injEq, and_true] at hxy
      cases h
      exact ⟨[], x, rest, by simp [hxy], rfl⟩
    · simp only [Option.map_eq_some_iff] at h
      obtain ⟨j, hj, rfl⟩ := h
      obtain ⟨pre, x', post, e, hl⟩ := findAdj_some hj
      exact ⟨x :: pre, x', post, by simp [e], by simp [hl]⟩

theorem findAdj_none_of_short {scan : Ty} (h : scan.length < 2) : findAdj scan = none := by
  match scan, h with
  | [], _ => rfl
  | [_], _ => rfl

theorem mkCup_adj (x : Ob) : mkCup [x] [x.r] = .ok (Box.cup x x.r) := by
  simp [mkCup]

theorem cupLayer_spec (pre post : Ty) (x : Ob) :
    ∃ d, cupLayer (pre ++ [x, x.r] ++ post) pre.length = .ok d ∧ d.WF ∧
      d.dom = pre ++ [x, x.r] ++ post ∧ d.cod = pre ++ post ∧ d.boxes = [Box.cup x x.r] := by
  have e1 : ((pre.length : Int) + 1) = ((pre.length + 1 : Nat) : Int) := by omega
  have e2 : ((pre.length : Int) + 2) = ((pre.length + 2 : Nat) : Int) := by omega
  have s1 : pySlice (pre ++ [x, x.r] ++ post) (some (pre.length : Int)) (some ((pre.length : Int) + 1))
      = [x] := by
    rw [e1, pySlice_nat]; simp
  have s2 : pySlice (pre ++ [x, x.r] ++ post) (some ((pre.length : Int) + 1))
      (some ((pre.length : Int) + 2)) = [x.r] := by
    rw [e1, e2, pySlice_nat]
    have : pre.length + 1 = (pre ++ [x]).length := by simp
    rw [this]
    have : pre ++ [x, x.r] ++ post = (pre ++ [x]) ++ (x.r :: post) := by simp
    rw [this, List.drop_left]; simp
  have s3 : pySlice (pre ++ [x, x.r] ++ post) none (some (pre.length : Int)) = pre := by
    rw [List.append_assoc]; exact pySlice_take_append _ _
  have s4 : pySlice (pre ++ [x, x.r] ++ post) (some ((pre.length : Int) + 2)) none = post := by
    have : ((pre.length : Int) + 2) = ((pre ++ [x, x.r]).length : Int) := by simp
    rw [this]; exact pySlice_drop_append _ _
  simp only [cupLayer, s1, s2, s3, s4, mkCup_adj]
  have h1 := Diagram.tensor_spec (Diagram.id_wf pre) (Diagram.ofBox_wf (Box.cup x x.r))
  obtain ⟨w1, _, _⟩ := Diagram.tensor_props (Diagram.id_wf pre) (Diagram.ofBox_wf (Box.cup x x.r)) h1
  have h2 := Diagram.tensor_spec w1 (Diagram.id_wf post)
  obtain ⟨w2, _, _⟩ := Diagram.tensor_props w1 (Diagram.id_wf post) h2
  simp only [tensorE, h1, h2]
  exact ⟨_, rfl, w2, by simp [Diagram.id, Diagram.ofBox, Box.cup],
    by simp [Diagram.id, Diagram.ofBox, Box.cup], by simp [Diagram.id, Diagram.ofBox]⟩

/-- The loop of `eager_parse`: whatever it returns is the input followed by adjacent-adjoint
    cups, has the target as codomain, and the only exception is `NotImplementedError`
    (in particular the structural bound is never reached). -/
theorem eagerLoop_spec (target : Ty) (ws : List Box) :
    ∀ (n : Nat) (r : Diagram) (cs : List Box), r.WF → r.boxes = ws ++ cs →
      (∀ c ∈ cs, IsAdjCup c) → r.cod.length < n →
      (∀ d, eagerLoop target n r = .ok d →
        d.WF ∧ d.dom = r.dom ∧ d.cod = target ∧
          ∃ cs', d.boxes = ws ++ cs' ∧ ∀ c ∈ cs', IsAdjCup c) ∧
      (∀ e, eagerLoop target n r = .error e → e = .notImpl) := by
  intro n
  induction n with
  | zero => intro r cs _ _ _ hlt; omega
  | succ n ih =>
    intro r cs rw_ rb rc hlt
    simp only [eagerLoop]
    cases hf : findAdj r.cod with
    | none =>
      simp only
      by_cases ht : r.cod = target
      · simp only [ht, ↓reduceIte]
        exact ⟨fun d hd => (by cases hd; exact ⟨rw_, rfl, ht, cs, rb, rc⟩), fun e he => (by cases he)⟩
      · simp only [ht, ↓reduceIte]
        exact ⟨fun d hd => (by cases hd), fun e he => (by cases he; rfl)⟩
    | some i =>
      obtain ⟨pre, x, post, hscan, rfl⟩ := findAdj_some hf
      obtain ⟨layer, hl, lw, ld, lc, lb⟩ := cupLayer_spec pre post x
      rw [← hscan] at hl ld
      obtain ⟨r', hr'⟩ := (Diagram.then_ok_iff rw_ lw).mpr ld.symm
      obtain ⟨w', e1, e2⟩ := Diagram.then_props rw_ lw hr'
      have hb' : r'.boxes = ws ++ (cs ++ [Box.cup x x.r]) := by
        obtain ⟨ls, _, rfl⟩ := Diagram.then_ok hr'
        simp [rb, lb]
      have hc' : ∀ c ∈ cs ++ [Box.cup x x.r], IsAdjCup c := by
        intro c hc
        rcases List.mem_append.mp hc with h | h
        · exact rc c h
        · simp only [List.mem_singleton] at h; exact ⟨x, h⟩
      simp only [thenE, hl, hr']
      by_cases ht : r'.cod = target
      · simp only [ht, ↓reduceIte]
        exact ⟨fun d hd => (by cases hd; exact ⟨w', e1, ht, _, hb', hc'⟩), fun e he => (by cases he)⟩
      · simp only [ht, ↓reduceIte]
        have hlen : r'.cod.length < n := by
          rw [e2, lc]
          have := congrArg List.length hscan
          simp at this ⊢
          omega
        obtain ⟨h1, h2⟩ := ih r' _ w' hb' hc' hlen
        refine ⟨fun d hd => ?_, h2⟩
        obtain ⟨a, b, c, d'⟩ := h1 d hd
        exact ⟨a, b.trans e1, c, d'⟩

theorem eagerParse_spec {words : List Box} {target : Ty} {d : Diagram}
    (h : eagerParse words target = .ok d) :
    d.WF ∧ d.dom = words.flatMap (·.dom) ∧ d.cod = target ∧
      ∃ cups, d.boxes = words ++ cups ∧ ∀ c ∈ cups, IsAdjCup c := by
  obtain ⟨r, hr, rw_, rd, _, rb⟩ := tensorAll_spec words (Diagram.id []) (Diagram.id_wf [])
  simp only [eagerParse, hr] at h
  obtain ⟨a, b, c, e⟩ := (eagerLoop_spec target words _ r [] rw_ (by simpa [Diagram.id] using rb)
    (by simp) (Nat.lt_succ_self _)).1 d h
  exact ⟨a, by rw [b, rd]; simp [Diagram.id], c, e⟩

/-- The only exception `eager_parse` raises is `NotImplementedError`. -/
theorem eagerParse_error {words : List Box} {target : Ty} {e : Err}
    (h : eagerParse words target = .error e) : e = .notImpl := by
  obtain ⟨r, hr, rw_, _, _, rb⟩ := tensorAll_spec words (Diagram.id []) (Diagram.id_wf [])
  simp only [eagerParse, hr] at h
  exact (eagerLoop_spec target words _ r [] rw_ (by simpa [Diagram.id] using rb)
    (by simp) (Nat.lt_succ_self _)).2 e h

theorem bruteForceStep_sound {vocab : List Box} {target : Ty} {words : List Box} {d : Diagram}
    (h : d ∈ bruteForceStep vocab target words) :
    ∃ w ∈ vocab, eagerParse (words ++ [w]) target = .ok d := by
  simp only [bruteForceStep, List.mem_filterMap] at h
  obtain ⟨w, hw, hd⟩ := h
  refine ⟨w, hw, ?_⟩
  split at hd
  · rename_i d' he; cases hd; exact he
  · cases hd

theorem bruteForceLoop_sound (vocab : List Box) (target : Ty) :
    ∀ (k : Nat) (queue : List (List Box)), (∀ ws ∈ queue, ∀ w ∈ ws, w ∈ vocab) →
      ∀ d ∈ bruteForceLoop vocab target k queue,
        ∃ ws, (∀ w ∈ ws, w ∈ vocab) ∧ eagerParse ws target = .ok d := by
  intro k
  induction k with
  | zero => intro queue _ d hd; simp [bruteForceLoop] at hd
  | succ k ih =>
    intro queue hq d hd
    cases queue with
    | nil => simp [bruteForceLoop] at hd
    | cons words queue =>
      simp only [bruteForceLoop, List.mem_append] at hd
      have hwords : ∀ w ∈ words, w ∈ vocab := hq words (by simp)
      rcases hd with hd | hd
      · obtain ⟨w, hw, he⟩ := bruteForceStep_sound hd
        refine ⟨words ++ [w], ?_, he⟩
        intro w' hw'
        rcases List.mem_append.mp hw' with h | h
        · exact hwords w' h
        · simp only [List.mem_singleton] at h; subst h; exact hw
      · refine ih _ ?_ d hd
        intro ws hws w hw
        rcases List.mem_append.mp hws with h | h
        · exact hq ws (by simp [h]) w hw
        · simp only [List.mem_map] at h
          obtain ⟨v, hv, rfl⟩ := h
          rcases List.mem_append.mp hw with h' | h'
          · exact hwords w h'
          · simp only [List.mem_singleton] at h'; subst h'; exact hv

/-! ## Part D — cfg.CFG.generate -/

/-- `s` is a (partial) derivation of `start` over `prods`: well-typed, rooted at `start`,
    every box a production, every production applied at the leftmost open symbol. -/
structure Deriv (prods : List Box) (start : Ty) (s : Diagram) : Prop where
  wf : s.WF
  cod : s.cod = start
  boxes : ∀ b ∈ s.boxes, b ∈ prods
  offsets : ∀ o ∈ s.offsets, o = 0

theorem Deriv.id (prods : List Box) (start : Ty) : Deriv prods start (Diagram.id start) :=
  ⟨Diagram.id_wf _, rfl, by simp [Diagram.id], by simp [Diagram.id]⟩

theorem shuffleBy_subset {prods : List Box} {perm : List Nat} {p : Box}
    (h : p ∈ shuffleBy prods perm) : p ∈ prods := by
  simp only [shuffleBy, List.mem_filterMap] at h
  obtain ⟨i, _, hi⟩ := h
  exact List.mem_of_getElem? hi

theorem findProd_some {nt : List Box} {s : Diagram} {tag : Ob} {ps : List Box} {p : Box}
    (h : findProd nt s tag ps = some p) : p ∈ ps ∧ [tag] = p.cod := by
  induction ps with
  | nil => simp [findProd] at h
  | cons q qs ih =>
    simp only [findProd] at h
    split at h
    · obtain ⟨a, b⟩ := ih h; exact ⟨by simp [a], b⟩
    · split at h
      · rename_i hq; cases h; exact ⟨by simp, hq⟩
      · obtain ⟨a, b⟩ := ih h; exact ⟨by simp [a], b⟩

theorem expand_spec {s : Diagram} {p : Box} {tag : Ob} {rest : Ty} (hw : s.WF)
    (hdom : s.dom = tag :: rest) (hp : [tag] = p.cod) :
    ∃ s', expand s p = .ok s' ∧ s'.WF ∧ s'.dom = p.dom ++ rest ∧ s'.cod = s.cod ∧
      s'.boxes = p :: s.boxes ∧ s'.offsets = 0 :: s.offsets := by
  have hrest : pySlice s.dom (some 1) none = rest := by
    have := pySlice_drop s.dom 1
    rw [hdom] at this ⊢
    simpa using this
  have h1 := Diagram.tensor_spec (Diagram.ofBox_wf p) (Diagram.id_wf rest)
  obtain ⟨w1, d1, c1⟩ := Diagram.tensor_props (Diagram.ofBox_wf p) (Diagram.id_wf rest) h1
  simp only [expand, hrest, tensorE, thenE, h1]
  have hc : (p.cod ++ rest) = s.dom := by rw [hdom, ← hp]; rfl
  obtain ⟨s', hs'⟩ := (Diagram.then_ok_iff w1 hw).mpr (by simpa [Diagram.ofBox, Diagram.id] using hc)
  obtain ⟨w', e1, e2⟩ := Diagram.then_props w1 hw hs'
  refine ⟨s', hs', w', ?_, e2, ?_, ?_⟩
  · rw [e1]; simp [Diagram.ofBox, Diagram.id]
  · obtain ⟨ls, _, rfl⟩ := Diagram.then_ok hs'; simp [Diagram.ofBox, Diagram.id]
  · obtain ⟨ls, _, rfl⟩ := Diagram.then_ok hs'; simp [Diagram.ofBox, Diagram.id]

/-- What the inner loop returns: the order of `prods` stays within the productions, a
    finished sentence is a closed derivation shorter than the depth limit; the only failure is
    an exhausted oracle stream. -/
theorem growLoop_spec (all nt : List Box) (start : Ty) (M : Nat) :
    ∀ (k : Nat) (prods : List Box) (orc : List (List Nat)) (s : Diagram),
      Deriv all start s → (∀ p ∈ prods, p ∈ all) → s.boxes.length + k = M →
      (∀ res, growLoop nt k prods orc s = .ok res →
        (∀ p ∈ res.2.1, p ∈ all) ∧
        ∀ s', res.1 = some s' → Deriv all start s' ∧ s'.dom = [] ∧ s'.boxes.length < M) ∧
      (∀ e, growLoop nt k prods orc s = .error e → e = .fuel) := by
  intro k
  induction k with
  | zero =>
    intro prods orc s _ hp _
    simp only [growLoop]
    exact ⟨fun res h => (by cases h; exact ⟨hp, fun s' h' => by cases h'⟩), fun e h => (by cases h)⟩
  | succ k ih =>
    intro prods orc s hs hp hM
    simp only [growLoop]
    cases hdom : s.dom with
    | nil =>
      simp only
      exact ⟨fun res h => (by
        cases h
        exact ⟨hp, fun s' h' => by cases h'; exact ⟨hs, hdom, by omega⟩⟩), fun e h => (by cases h)⟩
    | cons tag rest =>
      simp only
      cases orc with
      | nil => exact ⟨fun res h => (by cases h), fun e h => (by cases h; rfl)⟩
      | cons perm orc' =>
        simp only
        have hp' : ∀ p ∈ shuffleBy prods perm, p ∈ all := fun p h => hp p (shuffleBy_subset h)
        cases hf : findProd nt s tag (shuffleBy prods perm) with
        | none =>
          simp only
          exact ⟨fun res h => (by cases h; exact ⟨hp', fun s' h' => by cases h'⟩),
            fun e h => (by cases h)⟩
        | some p =>
          simp only
          obtain ⟨hmem, hcod⟩ := findProd_some hf
          obtain ⟨s', he, w', d', c', b', o'⟩ := expand_spec hs.wf hdom hcod
          simp only [he]
          have hs' : Deriv all start s' := by
            refine ⟨w', c'.trans hs.cod, ?_, ?_⟩
            · intro b hb
              rw [b'] at hb
              rcases List.mem_cons.mp hb with h | h
              · subst h; exact hp' _ hmem
              · exact hs.boxes b h
            · intro o ho
              rw [o'] at ho
              rcases List.mem_cons.mp ho with h | h
              · exact h
              · exact hs.offsets o h
          exact ih (shuffleBy prods perm) orc' s' hs' hp' (by rw [b']; simp; omega)

/-- A generated sentence: closed derivation of `start`, fewer boxes than `max_depth`. -/
def Generated (P : CfgParams) (s : Diagram) : Prop :=
  Deriv P.productions P.start s ∧ s.dom = [] ∧ s.boxes.length < P.maxDepth.toNat

theorem genLoop_spec (P : CfgParams) :
    ∀ (k : Nat) (n : Int) (prods : List Box) (orc : List (List Nat)) (cache acc : List Diagram),
      (∀ p ∈ prods, p ∈ P.productions) → (∀ s ∈ acc, Generated P s) →
      (∀ res, genLoop P k n prods orc cache acc = .ok res → ∀ s ∈ res, Generated P s) ∧
      (∀ e, genLoop P k n prods orc cache acc = .error e → e = .fuel) := by
  intro k
  induction k with
  | zero =>
    intro n prods orc cache acc _ hacc
    simp only [genLoop]
    exact ⟨fun res h => (by cases h; exact hacc), fun e h => (by cases h)⟩
  | succ k ih =>
    intro n prods orc cache acc hp hacc
    simp only [genLoop]
    by_cases hc : n ≤ (if P.maxSentences = 0 then n else P.maxSentences)
    · simp only [hc, not_true_eq_false, ↓reduceIte]
      obtain ⟨g1, g2⟩ := growLoop_spec P.productions P.notTwice P.start P.maxDepth.toNat
        P.maxDepth.toNat prods orc (Diagram.id P.start) (Deriv.id _ _) hp (by simp [Diagram.id])
      cases hg : growLoop P.notTwice P.maxDepth.toNat prods orc (Diagram.id P.start) with
      | error e =>
        simp only
        exact ⟨fun res h => (by cases h), fun e' h => (by cases h; exact g2 e hg)⟩
      | ok res =>
        obtain ⟨o, prods', orc'⟩ := res
        obtain ⟨hp', hs⟩ := g1 _ hg
        cases o with
        | none => simp only; exact ih n prods' orc' cache acc hp' hacc
        | some s =>
          simp only
          have hgen : Generated P s := hs s rfl
          split
          · exact ih n prods' orc' cache acc hp' hacc
          · refine ih (n + 1) prods' orc' _ (acc ++ [s]) hp' ?_
            intro s' hs'
            rcases List.mem_append.mp hs' with h | h
            · exact hacc s' h
            · simp only [List.mem_singleton] at h; subst h; exact hgen
    · simp only [hc, not_false_eq_true, ↓reduceIte]
      exact ⟨fun res h => (by cases h; exact hacc), fun e h => (by cases h)⟩

theorem cfgGenerate_sound {P : CfgParams} {oracle : List (List Nat)} {res : List Diagram}
    (h : cfgGenerate P oracle = .ok res) : ∀ s ∈ res, Generated P s :=
  (genLoop_spec P _ 1 P.productions oracle [] [] (fun _ h => h) (by simp)).1 res h

theorem cfgGenerate_error {P : CfgParams} {oracle : List (List Nat)} {e : Err}
    (h : cfgGenerate P oracle = .error e) : e = .fuel :=
  (genLoop_spec P _ 1 P.productions oracle [] [] (fun _ h => h) (by simp)).2 e h

/-! ## Part E — biclosed2rigid -/

@[simp] theorem BTy.img_nil : BTy.img [] = [] := by simp [BTy.img]
@[simp] theorem BTy.img_cons (x : BOb) (xs : BTy) : BTy.img (x :: xs) = x.img ++ BTy.img xs := by
  simp [BTy.img]

/-- The object map is monoidal. -/
theorem BTy.img_append (a b : BTy) : BTy.img (a ++ b) = BTy.img a ++ BTy.img b := by
  induction a with
  | nil => simp
  | cons x xs ih => simp [ih]

/-- `F(x << y) = F x @ (F y).l` -/
@[simp] theorem BTy.img_over (l r : BTy) :
    BTy.img (BTy.over l r) = BTy.img l ++ Ty.l (BTy.img r) := by
  simp [BTy.over, BOb.img]
/-- `F(x >> y) = (F x).r @ F y` -/
@[simp] theorem BTy.img_under (l r : BTy) :
    BTy.img (BTy.under l r) = Ty.r (BTy.img l) ++ BTy.img r := by
  simp [BTy.under, BOb.img]

/-- `|F(x << y)| = |F x| + |F y|` -/
theorem BTy.img_over_length (l r : BTy) :
    (BTy.img (BTy.over l r)).length = (BTy.img l).length + (BTy.img r).length := by simp
theorem BTy.img_under_length (l r : BTy) :
    (BTy.img (BTy.under l r)).length = (BTy.img l).length + (BTy.img r).length := by simp

@[simp] theorem BTy.first_cons (x : BOb) (xs : BTy) : BTy.first (x :: xs) = [x] := by
  have := pySlice_take (x :: xs) 1
  simpa [BTy.first] using this
@[simp] theorem BTy.rest_cons (x : BOb) (xs : BTy) : BTy.rest (x :: xs) = xs := by
  have := pySlice_drop (x :: xs) 1
  simpa [BTy.rest] using this
@[simp] theorem BTy.first_nil : BTy.first [] = [] := by simp [BTy.first, pySlice]
@[simp] theorem BTy.rest_nil : BTy.rest [] = [] := by simp [BTy.rest, pySlice]

/-! ### the rigid images -/

theorem rigidFa_has (A B : Ty) : Has (rigidFa (A ++ Ty.l B) B) (A ++ Ty.l B ++ B) A := by
  unfold rigidFa
  by_cases hB : B = []
  · subst hB
    have hoff : faOff (A ++ Ty.l []) [] = (A.length : Int) := by simp [faOff]
    rw [hoff]
    simp only [Ty.l_nil, List.append_nil]
    rw [pySlice_take, pySlice_drop]
    simp only [List.take_length, List.drop_length]
    exact (Has.tensorE (Has.id A) (Has.cups (Or.inl rfl))).cast (by simp) (by simp)
  · have hlen : 0 < B.length := List.length_pos_iff.mpr hB
    have hoff : faOff (A ++ Ty.l B) B = -((Ty.l B).length : Int) := by
      simp only [faOff, Ty.l_length]
      split
      · omega
      · rfl
    have hne : Ty.l B ≠ [] := fun h => hB (Ty.l_eq_nil.mp h)
    rw [hoff, pySlice_negTake_append _ _ hne, pySlice_negDrop_append _ _ hne]
    exact (Has.tensorE (Has.id A) (Has.cups (Or.inl (Ty.l_r B)))).cast (by simp) (by simp)

theorem rigidBa_has (A B : Ty) : Has (rigidBa A (Ty.r A ++ B)) (A ++ (Ty.r A ++ B)) B := by
  unfold rigidBa
  by_cases hA : A = []
  · subst hA
    simp only [Ty.r_nil, List.nil_append]
    by_cases hB : B = []
    · subst hB
      have hoff : baOff [] [] = 0 := by simp [baOff]
      rw [hoff]
      have h1 : pySlice ([] : Ty) none (some 0) = [] := by simp [pySlice]
      have h2 : pySlice ([] : Ty) (some 0) none = [] := by simp [pySlice]
      rw [h1, h2]
      exact (Has.tensorE (Has.cups (Or.inl rfl)) (Has.id [])).cast (by simp) (by simp)
    · have hoff : baOff [] B = -(B.length : Int) := by simp [baOff]
      rw [hoff]
      have h1 := pySlice_negTake_append [] B hB
      have h2 := pySlice_negDrop_append [] B hB
      simp only [List.nil_append] at h1 h2
      rw [h1, h2]
      exact (Has.tensorE (Has.cups (Or.inl rfl)) (Has.id B)).cast (by simp) (by simp)
  · have hlen : 0 < A.length := List.length_pos_iff.mpr hA
    have hoff : baOff A (Ty.r A ++ B) = ((Ty.r A).length : Int) := by
      simp only [baOff, Ty.r_length]
      split
      · omega
      · rfl
    rw [hoff, pySlice_take_append, pySlice_drop_append]
    exact (Has.tensorE (Has.cups (Or.inl rfl)) (Has.id B)).cast (by simp) (by simp)

theorem rigidFc_has (A B D : Ty) :
    Has (rigidFc A B D) (A ++ Ty.l B ++ (B ++ Ty.l D)) (A ++ Ty.l D) :=
  (Has.tensorE (Has.tensorE (Has.id A) (Has.cups (Or.inl (Ty.l_r B)))) (Has.id (Ty.l D))).cast
    (by simp) (by simp)

theorem rigidBc_has (A B D : Ty) :
    Has (rigidBc A B D) (Ty.r A ++ B ++ (Ty.r B ++ D)) (Ty.r A ++ D) :=
  (Has.tensorE (Has.tensorE (Has.id (Ty.r A)) (Has.cups (Or.inl rfl))) (Has.id D)).cast
    (by simp) (by simp)

theorem rigidFx_has (A B C : Ty) :
    Has (rigidFx A B C) (A ++ Ty.l B ++ (Ty.r C ++ B)) (Ty.r C ++ A) :=
  (Has.thenE
    (Has.tensorE (Has.tensorE (Has.id A) (Has.swap (Ty.l B) (Ty.r C))) (Has.id B))
    (Has.tensorE (Has.swap A (Ty.r C)) (Has.cups (Or.inl (Ty.l_r B))))
    (by simp)).cast (by simp) (by simp)

theorem rigidBx_has (L M R : Ty) :
    Has (rigidBx L M R) (M ++ Ty.l L ++ (Ty.r M ++ R)) (R ++ Ty.l L) :=
  (Has.thenE
    (Has.tensorE (Has.tensorE (Has.id M) (Has.swap (Ty.l L) (Ty.r M))) (Has.id R))
    (Has.tensorE (Has.cups (Or.inl rfl)) (Has.swap (Ty.l L) R))
    (by simp)).cast (by simp) (by simp)

/-! ### rule boxes -/

/-- Where the code as it is translates `BA` correctly: the left side of the `Under` is exactly
    one object (finding F10).  No restriction once the repair is in. -/
def Rule.okFor (v : Variant) : Rule → Prop
  | .ba l _ => v.baRepaired = true ∨ l.length = 1
  | _ => True

theorem baSplit_repaired (l : BTy) (u : BOb) : baSplit true (l ++ [u]) = (l, [u]) := by
  have h1 := pySlice_negTake_append l [u] (by simp)
  have h2 := pySlice_negDrop_append l [u] (by simp)
  simp only [List.length_singleton] at h1 h2
  simp only [baSplit, ↓reduceIte]
  rw [show ((-1 : Int)) = -((1 : Nat) : Int) by rfl, h1, h2]

theorem baSplit_asIs_single (x u : BOb) : baSplit false ([x] ++ [u]) = ([x], [u]) := by
  simp [baSplit]

theorem Rule.img_has (v : Variant) (r : Rule) (hc : r.check = true) (hok : r.okFor v) :
    Has (r.img v) (BTy.img r.dom) (BTy.img r.cod) := by
  cases r with
  | gen name dom cod =>
    simp only [Rule.img, Rule.check, ↓reduceIte, Rule.imgCore, Rule.dom, Rule.cod]
    exact Has.ofBox _
  | dgen name dom cod =>
    simp only [Rule.img, Rule.check, ↓reduceIte, Rule.imgCore, Rule.dom, Rule.cod]
    exact Has.ofBox (Box.dag { name := name, dom := BTy.img cod, cod := BTy.img dom })
  | fa l r =>
    simp only [Rule.img, Rule.check, ↓reduceIte, Rule.imgCore, Rule.dom, Rule.cod, BTy.over,
      List.singleton_append, BTy.first_cons, BTy.rest_cons]
    have := rigidFa_has (BTy.img l) (BTy.img r)
    simpa [BOb.img] using this
  | ba l r =>
    have hsplit : baSplit v.baRepaired (l ++ [BOb.under l r]) = (l, [BOb.under l r]) := by
      rcases hok with h | h
      · rw [h]; exact baSplit_repaired l _
      · match l, h with
        | [x], _ =>
          cases v.baRepaired
          · exact baSplit_asIs_single x _
          · exact baSplit_repaired [x] _
    simp only [Rule.img, Rule.check, ↓reduceIte, Rule.imgCore, Rule.dom, Rule.cod, BTy.under, hsplit]
    have := rigidBa_has (BTy.img l) (BTy.img r)
    simpa [BOb.img, BTy.img_append] using this
  | fc a b c d =>
    simp only [Rule.check, decide_eq_true_eq] at hc
    subst hc
    simp only [Rule.img, Rule.check, decide_true, ↓reduceIte, Rule.imgCore, Rule.dom, Rule.cod,
      BTy.over, List.singleton_append, fcImg, BTy.first_cons, BTy.rest_cons, BTy.left?, BTy.right?]
    have := rigidFc_has (BTy.img a) (BTy.img b) (BTy.img d)
    simpa [BOb.img] using this
  | bc a b c d =>
    simp only [Rule.check, decide_eq_true_eq] at hc
    subst hc
    simp only [Rule.img, Rule.check, decide_true, ↓reduceIte, Rule.imgCore, Rule.dom, Rule.cod,
      BTy.under, List.singleton_append, fcImg, BTy.first_cons, BTy.rest_cons, BTy.left?, BTy.right?]
    have := rigidBc_has (BTy.img a) (BTy.img b) (BTy.img d)
    simpa [BOb.img] using this
  | fx a b c d =>
    simp only [Rule.check, decide_eq_true_eq] at hc
    subst hc
    simp only [Rule.img, Rule.check, decide_true, ↓reduceIte, Rule.imgCore, Rule.dom, Rule.cod,
      BTy.over, BTy.under, List.singleton_append, fxImg, BTy.first_cons, BTy.rest_cons, BTy.left?,
      BTy.right?]
    have := rigidFx_has (BTy.img a) (BTy.img b) (BTy.img c)
    simpa [BOb.img] using this
  | bx a b c d =>
    simp only [Rule.check, decide_eq_true_eq] at hc
    subst hc
    simp only [Rule.img, Rule.check, decide_true, ↓reduceIte, Rule.imgCore, Rule.dom, Rule.cod,
      BTy.over, BTy.under, List.singleton_append, bxImg, BTy.first_cons, BTy.rest_cons, BTy.left?,
      BTy.right?]
    have := rigidBx_has (BTy.img b) (BTy.img a) (BTy.img d)
    simpa [BOb.img] using this

/-- A box the constructor refuses is a `TypeError` in the model too. -/
theorem Rule.img_refused (v : Variant) (r : Rule) (hc : r.check = false) :
    r.img v = .error .type := by simp [Rule.img, hc]

/-! ### Curry boxes -/

/-- Where the code as it is translates `Curry(d, n_wires, left)` correctly: left currying
    always; right currying when the curried wires have a non-empty image (finding F14). -/
def curryOkFor (v : Variant) (ddom : BTy) (n : Int) (left : Bool) : Prop :=
  left = true ∨ v.curryRepaired = true ∨ BTy.img (curryWires ddom n false) ≠ []

theorem negOr_zero (len : Nat) : negOr 0 len = (len : Int) := by simp [negOr]
theorem negOr_ne {n : Int} (h : n ≠ 0) (len : Nat) : negOr n len = -n := by
  simp only [negOr]; split
  · omega
  · rfl

theorem pySlice_take_length {α} (xs : List α) : pySlice xs none (some (xs.length : Int)) = xs := by
  rw [pySlice_take]; simp
theorem pySlice_drop_length' {α} (xs : List α) : pySlice xs (some (xs.length : Int)) none = [] := by
  rw [pySlice_drop]; simp
theorem pySlice_take_zero {α} (xs : List α) : pySlice xs none (some 0) = [] := by
  have := pySlice_take xs 0; simpa using this

theorem rigidCurryLeft_has {g : Diagram} (hg : g.WF) (W R : Ty) (hd : g.dom = W ++ R) :
    Has (rigidCurryLeft g (W.length : Int)) R (Ty.r W ++ g.cod) := by
  unfold rigidCurryLeft
  rw [hd, pySlice_take_append, pySlice_drop_append]
  have top := Has.tensorE (Has.caps (left := Ty.r W) (right := W) (Or.inr rfl)) (Has.id R)
  have bot := Has.tensorE (Has.id (Ty.r W)) (Has.ok hg)
  exact (Has.thenE top bot (by rw [hd]; simp)).cast (by simp) rfl

theorem rigidCurryRight_has {g : Diagram} (hg : g.WF) (rep : Bool) (C W : Ty)
    (hd : g.dom = C ++ W) (hok : rep = true ∨ W ≠ []) :
    Has (rigidCurryRight rep g (W.length : Int)) C (g.cod ++ Ty.l W) := by
  have hslices : pySlice g.dom none (some (curryCut rep (W.length : Int) g.dom.length)) = C ∧
      pySlice g.dom (some (negOr (W.length : Int) g.dom.length)) none = W := by
    by_cases hW : W = []
    · subst hW
      have hrep : rep = true := by rcases hok with h | h; exact h; exact absurd rfl h
      simp only [List.append_nil] at hd
      subst hrep
      simp only [curryCut, ↓reduceIte, List.length_nil, Int.natCast_zero, negOr_zero]
      rw [pySlice_take_length, pySlice_drop_length']
      exact ⟨hd, rfl⟩
    · have hne : (W.length : Int) ≠ 0 := by
        have := List.length_pos_iff.mpr hW; omega
      have hcut : curryCut rep (W.length : Int) g.dom.length = -(W.length : Int) := by
        cases rep <;> simp [curryCut, negOr_ne hne]
      rw [hcut, negOr_ne hne, hd]
      exact ⟨pySlice_negTake_append C W hW, pySlice_negDrop_append C W hW⟩
  unfold rigidCurryRight
  rw [hslices.1, hslices.2]
  have top := Has.tensorE (Has.id C) (Has.caps (left := W) (right := Ty.l W) (Or.inr (Ty.l_r W)))
  have bot := Has.tensorE (Has.ok hg) (Has.id (Ty.l W))
  exact (Has.thenE top bot (by rw [hd]; simp)).cast (by simp) rfl

/-- Type preservation for `Curry` boxes, given a type-preserving image `g` of the curried
    diagram: every `n_wires` (negative and out-of-range included), both sides. -/
theorem curryImg_has (v : Variant) (ddom dcod : BTy) (g : Diagram) (n : Int) (left : Bool)
    (hg : g.WF) (hd : g.dom = BTy.img ddom) (hc : g.cod = BTy.img dcod)
    (hok : curryOkFor v ddom n left) :
    Has (curryImg v ddom g n left) (BTy.img (curryDom v ddom n left))
      (BTy.img (curryCod ddom dcod n left)) := by
  cases left with
  | true =>
    simp only [curryImg, rigidCurry, ↓reduceIte, curryWires, curryDom, curryCod, BTy.img_under]
    have hsplit := pySlice_split ddom n
    have hd' : g.dom = BTy.img (pySlice ddom none (some n)) ++ BTy.img (pySlice ddom (some n) none) := by
      rw [hd, ← BTy.img_append, hsplit]
    rw [← hc]
    exact rigidCurryLeft_has hg _ _ hd'
  | false =>
    simp only [curryImg, rigidCurry, Bool.false_eq_true, ↓reduceIte, curryWires, curryDom, curryCod,
      BTy.img_over]
    rw [← hc]
    have hok' : v.curryRepaired = true ∨
        BTy.img (pySlice ddom (some (negOr n ddom.length)) none) ≠ [] := by
      rcases hok with h | h | h
      · cases h
      · exact Or.inl h
      · exact Or.inr (by simpa [curryWires] using h)
    refine rigidCurryRight_has hg _ _ _ ?_ hok'
    by_cases hn : n = 0
    · subst hn
      rw [negOr_zero, pySlice_drop_length'] at hok' ⊢
      have hrep : v.curryRepaired = true := by
        rcases hok' with h | h; exact h; exact absurd BTy.img_nil h
      simp only [hrep, curryCut, ↓reduceIte, negOr_zero, pySlice_take_length, BTy.img_nil,
        List.append_nil]
      exact hd
    · have hcut : curryCut v.curryRepaired n ddom.length = -n := by
        cases v.curryRepaired <;> simp [curryCut, negOr_ne hn]
      rw [hcut, negOr_ne hn, hd, ← BTy.img_append, pySlice_split]

/-! ### biclosed diagrams -/

/-- `bdom` sits in `scan` at offset `off`. -/
def Fits (scan : BTy) (off : Int) (bdom : BTy) : Prop :=
  ∃ pre post, scan = pre ++ bdom ++ post ∧ off = (pre.length : Int)

/-- The biclosed diagram is well-typed: every box passes its constructor test and finds its
    domain at its offset (Curry boxes: the curried diagram is well-typed too). -/
def BD.Typed (v : Variant) : BD → Prop
  | .id _ => True
  | .snoc d off r => d.Typed v ∧ r.check = true ∧ Fits (d.cod v) off r.dom
  | .snocCurry d off inner n left =>
    d.Typed v ∧ inner.Typed v ∧ Fits (d.cod v) off (curryDom v inner.dom n left)

/-- No box of the diagram (nor of a curried diagram inside) is of a shape the variant
    mistranslates (F10: `BA` whose left side is not one object; F14: right-currying wires
    with an empty image). -/
def BD.Avoids (v : Variant) : BD → Prop
  | .id _ => True
  | .snoc d _ r => d.Avoids v ∧ r.okFor v
  | .snocCurry d _ inner n left => d.Avoids v ∧ inner.Avoids v ∧ curryOkFor v inner.dom n left

theorem Rule.okFor_repaired (r : Rule) : r.okFor Variant.repaired := by
  cases r <;> simp [Rule.okFor, Variant.repaired]

theorem BD.avoids_repaired (d : BD) : d.Avoids Variant.repaired := by
  induction d with
  | id _ => trivial
  | snoc d off r ih => exact ⟨ih, Rule.okFor_repaired r⟩
  | snocCurry d off inner n left ih1 ih2 =>
    exact ⟨ih1, ih2, Or.inr (Or.inl rfl)⟩

theorem imgLayer_has {res : Diagram} {D : Ty} {scan bdom bcod : BTy} {off : Int}
    {fbox : Except Err Diagram} (hres : Has (.ok res) D (BTy.img scan)) (hfit : Fits scan off bdom)
    (hbox : Has fbox (BTy.img bdom) (BTy.img bcod)) :
    Has (imgLayer res scan off bdom fbox) D (BTy.img (scanStep scan off bdom bcod)) := by
  obtain ⟨pre, post, rfl, rfl⟩ := hfit
  have h1 : pySlice (pre ++ bdom ++ post) none (some (pre.length : Int)) = pre := by
    rw [List.append_assoc]; exact pySlice_take_append _ _
  have h2 : pySlice (pre ++ bdom ++ post) (some ((pre.length : Int) + (bdom.length : Int))) none
      = post := by
    have : ((pre.length : Int) + (bdom.length : Int)) = ((pre ++ bdom).length : Int) := by simp
    rw [this]; exact pySlice_drop_append _ _
  simp only [imgLayer, scanStep, h1, h2]
  have layer := Has.tensorE (Has.tensorE (Has.id (BTy.img pre)) hbox) (Has.id (BTy.img post))
  exact (Has.thenE hres layer (by simp [BTy.img_append])).cast rfl (by simp [BTy.img_append])

/-- Type preservation of the translation of whole biclosed diagrams. -/
theorem BD.img_has (v : Variant) (d : BD) (ht : d.Typed v) (ha : d.Avoids v) :
    Has (d.img v) (BTy.img d.dom) (BTy.img (d.cod v)) := by
  induction d with
  | id t => exact Has.id _
  | snoc d off r ih =>
    obtain ⟨ht1, hc, hfit⟩ := ht
    obtain ⟨ha1, hok⟩ := ha
    obtain ⟨res, hres, rw_, rd, rc⟩ := ih ht1 ha1
    simp only [BD.img, hres, BD.dom, BD.cod]
    exact imgLayer_has ⟨res, rfl, rw_, rd, rc⟩ hfit (Rule.img_has v r hc hok)
  | snocCurry d off inner n left ih1 ih2 =>
    obtain ⟨ht1, ht2, hfit⟩ := ht
    obtain ⟨ha1, ha2, hok⟩ := ha
    obtain ⟨res, hres, rw_, rd, rc⟩ := ih1 ht1 ha1
    obtain ⟨g, hg, gw, gd, gc⟩ := ih2 ht2 ha2
    simp only [BD.img, hres, hg, BD.dom, BD.cod]
    exact imgLayer_has ⟨res, rfl, rw_, rd, rc⟩ hfit (curryImg_has v _ _ g n left gw gd gc hok)

/-- `biclosed2rigid(Curry(inner, n, left))` on the box itself. -/
theorem BD.curryBoxImg_has (v : Variant) (inner : BD) (n : Int) (left : Bool)
    (ht : inner.Typed v) (ha : inner.Avoids v) (hok : curryOkFor v inner.dom n left) :
    Has (BD.curryBoxImg v inner n left) (BTy.img (curryDom v inner.dom n left))
      (BTy.img (curryCod inner.dom (inner.cod v) n left)) := by
  obtain ⟨g, hg, gw, gd, gc⟩ := BD.img_has v inner ht ha
  simp only [BD.curryBoxImg, hg]
  exact curryImg_has v _ _ g n left gw gd gc hok

/-! ## Part F — ccg.cat2ty / tree2diagram -/

/- A CCG category as a biclosed type: one object, and so on down every slash. -/
mutual
def BOb.Simple : BOb → Prop
  | .atom _ => True
  | .over l r => BTy.Simple1 l ∧ BTy.Simple1 r
  | .under l r => BTy.Simple1 l ∧ BTy.Simple1 r
def BTy.Simple1 : BTy → Prop
  | [] => False
  | x :: xs => x.Simple ∧ xs = []
end

theorem BTy.Simple1.length {t : BTy} (h : t.Simple1) : t.length = 1 := by
  match t, h with
  | [_], _ => rfl

theorem BTy.simple1_singleton {x : BOb} : BTy.Simple1 [x] ↔ x.Simple := by
  simp [BTy.Simple1]

/-- `cat2ty` only produces categories. -/
theorem cat2tyFuel_simple : ∀ (n : Nat) (s : List Char) (t : BTy), cat2tyFuel n s = .ok t → t.Simple1
  | 0, _, _, h => by simp [cat2tyFuel] at h
  | n + 1, s, t, h => by
    simp only [cat2tyFuel] at h
    split at h
    · cases h; simp [BTy.Simple1, BOb.Simple]
    · split at h
      · cases h
      · split at h
        · cases h
        · rename_i l' _ r' _
          split at h
          · split at h
            · cases h
            · rename_i R hR
              split at h
              · cases h
              · rename_i L hL
                cases h
                exact BTy.simple1_singleton.mpr
                  ⟨cat2tyFuel_simple n _ R hR, cat2tyFuel_simple n _ L hL⟩
          · split at h
            · cases h
            · rename_i L hL
              split at h
              · cases h
              · rename_i R hR
                cases h
                exact BTy.simple1_singleton.mpr
                  ⟨cat2tyFuel_simple n _ L hL, cat2tyFuel_simple n _ R hR⟩

theorem cat2ty_simple {s : List Char} {t : BTy} (h : cat2ty s = .ok t) : t.Simple1 :=
  cat2tyFuel_simple _ _ t h

/-! ### tensor and composition of biclosed diagrams -/

theorem scanStep_fits {pre bdom post : BTy} (bcod : BTy) :
    scanStep (pre ++ bdom ++ post) (pre.length : Int) bdom bcod = pre ++ bcod ++ post := by
  have h1 : pySlice (pre ++ bdom ++ post) none (some (pre.length : Int)) = pre := by
    rw [List.append_assoc]; exact pySlice_take_append _ _
  have h2 : pySlice (pre ++ bdom ++ post) (some ((pre.length : Int) + (bdom.length : Int))) none
      = post := by
    have : ((pre.length : Int) + (bdom.length : Int)) = ((pre ++ bdom).length : Int) := by simp
    rw [this]; exact pySlice_drop_append _ _
  simp only [scanStep, h1, h2]

theorem Fits.scanStep {scan bdom : BTy} {off : Int} (h : Fits scan off bdom) (bcod : BTy) :
    ∃ pre post, scan = pre ++ bdom ++ post ∧ off = (pre.length : Int) ∧
      DV.scanStep scan off bdom bcod = pre ++ bcod ++ post := by
  obtain ⟨pre, post, rfl, rfl⟩ := h
  exact ⟨pre, post, rfl, rfl, scanStep_fits bcod⟩

@[simp] theorem BD.mapDom_dom (f : BTy → BTy) (d : BD) : (d.mapDom f).dom = f d.dom := by
  induction d <;> simp_all [BD.mapDom, BD.dom]

theorem BD.mapDom_spec (v : Variant) (x : BTy) (d : BD) (ht : d.Typed v) (ha : d.Avoids v) :
    (d.mapDom (· ++ x)).Typed v ∧ (d.mapDom (· ++ x)).Avoids v ∧
      (d.mapDom (· ++ x)).cod v = d.cod v ++ x := by
  induction d with
  | id t => exact ⟨trivial, trivial, rfl⟩
  | snoc d off r ih =>
    obtain ⟨ht1, hc, hfit⟩ := ht
    obtain ⟨i1, i2, i3⟩ := ih ht1 ha.1
    obtain ⟨pre, post, hs, ho, hstep⟩ := hfit.scanStep r.cod
    have hfit' : Fits ((d.mapDom (· ++ x)).cod v) off r.dom := ⟨pre, post ++ x, by rw [i3, hs]; simp, ho⟩
    refine ⟨⟨i1, hc, hfit'⟩, ⟨i2, ha.2⟩, ?_⟩
    simp only [BD.mapDom, BD.cod]
    rw [hstep, i3, hs, ho]
    have := scanStep_fits (pre := pre) (bdom := r.dom) (post := post ++ x) r.cod
    simpa using this
  | snocCurry d off inner n left ih _ =>
    obtain ⟨ht1, ht2, hfit⟩ := ht
    obtain ⟨i1, i2, i3⟩ := ih ht1 ha.1
    obtain ⟨pre, post, hs, ho, hstep⟩ := hfit.scanStep (curryCod inner.dom (inner.cod v) n left)
    have hfit' : Fits ((d.mapDom (· ++ x)).cod v) off (curryDom v inner.dom n left) :=
      ⟨pre, post ++ x, by rw [i3, hs]; simp, ho⟩
    refine ⟨⟨i1, ht2, hfit'⟩, ⟨i2, ha.2.1, ha.2.2⟩, ?_⟩
    simp only [BD.mapDom, BD.cod]
    rw [hstep, i3, hs, ho]
    have := scanStep_fits (pre := pre) (bdom := curryDom v inner.dom n left) (post := post ++ x)
      (curryCod inner.dom (inner.cod v) n left)
    simpa using this

@[simp] theorem BD.appendSteps_dom (a : BD) (k : Int) (b : BD) : (a.appendSteps k b).dom = a.dom := by
  induction b <;> simp_all [BD.appendSteps, BD.dom]

/-- The boxes of a well-typed `b` on top of `a`, to the right of `A`. -/
theorem BD.appendSteps_spec (v : Variant) (a : BD) (A : BTy) (hat : a.Typed v) (haa : a.Avoids v) :
    ∀ (b : BD), b.Typed v → b.Avoids v → a.cod v = A ++ b.dom →
      (a.appendSteps (A.length : Int) b).Typed v ∧ (a.appendSteps (A.length : Int) b).Avoids v ∧
        (a.appendSteps (A.length : Int) b).cod v = A ++ b.cod v := by
  intro b
  induction b with
  | id t => intro _ _ h; exact ⟨hat, haa, h⟩
  | snoc d off r ih =>
    intro ht ha h
    obtain ⟨ht1, hc, hfit⟩ := ht
    obtain ⟨i1, i2, i3⟩ := ih ht1 ha.1 h
    obtain ⟨pre, post, hs, ho, hstep⟩ := hfit.scanStep r.cod
    have hfit' : Fits ((a.appendSteps (A.length : Int) d).cod v) (off + (A.length : Int)) r.dom :=
      ⟨A ++ pre, post, by rw [i3, hs]; simp, by rw [ho]; simp; omega⟩
    refine ⟨⟨i1, hc, hfit'⟩, ⟨i2, ha.2⟩, ?_⟩
    simp only [BD.appendSteps, BD.cod]
    rw [hstep, i3, hs, ho]
    have := scanStep_fits (pre := A ++ pre) (bdom := r.dom) (post := post) r.cod
    have e : (((A ++ pre).length : Nat) : Int) = (pre.length : Int) + (A.length : Int) := by
      simp; omega
    rw [e] at this
    simpa using this
  | snocCurry d off inner n left ih _ =>
    intro ht ha h
    obtain ⟨ht1, ht2, hfit⟩ := ht
    obtain ⟨i1, i2, i3⟩ := ih ht1 ha.1 h
    obtain ⟨pre, post, hs, ho, hstep⟩ := hfit.scanStep (curryCod inner.dom (inner.cod v) n left)
    have hfit' : Fits ((a.appendSteps (A.length : Int) d).cod v) (off + (A.length : Int))
        (curryDom v inner.dom n left) :=
      ⟨A ++ pre, post, by rw [i3, hs]; simp, by rw [ho]; simp; omega⟩
    refine ⟨⟨i1, ht2, hfit'⟩, ⟨i2, ha.2.1, ha.2.2⟩, ?_⟩
    simp only [BD.appendSteps, BD.cod]
    rw [hstep, i3, hs, ho]
    have := scanStep_fits (pre := A ++ pre) (bdom := curryDom v inner.dom n left) (post := post)
      (curryCod inner.dom (inner.cod v) n left)
    have e : (((A ++ pre).length : Nat) : Int) = (pre.length : Int) + (A.length : Int) := by
      simp; omega
    rw [e] at this
    simpa using this

theorem BD.tensor_spec (v : Variant) (a b : BD) (hat : a.Typed v) (haa : a.Avoids v)
    (hbt : b.Typed v) (hba : b.Avoids v) :
    (a.tensor v b).Typed v ∧ (a.tensor v b).Avoids v ∧ (a.tensor v b).dom = a.dom ++ b.dom ∧
      (a.tensor v b).cod v = a.cod v ++ b.cod v := by
  obtain ⟨m1, m2, m3⟩ := BD.mapDom_spec v b.dom a hat haa
  obtain ⟨s1, s2, s3⟩ := BD.appendSteps_spec v _ (a.cod v) m1 m2 b hbt hba m3
  exact ⟨s1, s2, by simp [BD.tensor], s3⟩

theorem BD.tensorAll_spec (v : Variant) (kids : List BD) :
    ∀ (acc : BD), acc.Typed v → acc.Avoids v → (∀ k ∈ kids, k.Typed v ∧ k.Avoids v) →
      (BD.tensorAll v acc kids).Typed v ∧ (BD.tensorAll v acc kids).Avoids v ∧
        (BD.tensorAll v acc kids).dom = acc.dom ++ kids.flatMap (·.dom) ∧
        (BD.tensorAll v acc kids).cod v = acc.cod v ++ kids.flatMap (fun k => k.cod v) := by
  induction kids with
  | nil => intro acc h1 h2 _; exact ⟨h1, h2, by simp [BD.tensorAll], by simp [BD.tensorAll]⟩
  | cons k ks ih =>
    intro acc h1 h2 hk
    obtain ⟨hkt, hka⟩ := hk k (by simp)
    obtain ⟨t1, t2, t3, t4⟩ := BD.tensor_spec v acc k h1 h2 hkt hka
    obtain ⟨r1, r2, r3, r4⟩ := ih _ t1 t2 (fun k' hk' => hk k' (by simp [hk']))
    refine ⟨r1, r2, ?_, ?_⟩
    · simp only [BD.tensorAll]; rw [r3, t3]; simp
    · simp only [BD.tensorAll]; rw [r4, t4]; simp

theorem BD.then_spec (v : Variant) {a b r : BD} (hat : a.Typed v) (haa : a.Avoids v)
    (hbt : b.Typed v) (hba : b.Avoids v) (h : a.then v b = .ok r) :
    r.Typed v ∧ r.Avoids v ∧ r.dom = a.dom ∧ r.cod v = b.cod v := by
  simp only [BD.then] at h
  split at h
  · cases h
  · rename_i hne
    simp only [ne_eq, Decidable.not_not] at hne
    cases h
    obtain ⟨s1, s2, s3⟩ := BD.appendSteps_spec v a [] hat haa b hbt hba (by simpa using hne)
    exact ⟨by simpa using s1, by simpa using s2, by simp, by simpa using s3⟩

/-! ### tree2diagram -/

/-- What `tree2diagram` returns: a well-typed closed biclosed diagram whose codomain is a
    category and which contains no box of the shapes of F10/F14 — for either variant. -/
structure TreeGood (v : Variant) (D : BTy) (d : BD) : Prop where
  typed : d.Typed v
  avoids : d.Avoids v
  dom : d.dom = D
  cod : (d.cod v).Simple1

/-- `dom or cod[0:0]` is `dom` (both read the empty type when `dom` is falsy). -/
theorem wordDom_eq (dom cod : BTy) : wordDom dom cod = dom := by
  unfold wordDom
  split
  · rename_i h
    subst h
    simp [pySlice, pyLo, pyHi, pyIdx]
  · rfl

theorem CTree.domOf_nil (t : CTree) : t.domOf [] = [] := by cases t <;> rfl

theorem mkWord_check (name : String) (cod dom : BTy) (dg : Bool) : (mkWord name cod dom dg).check = true := by
  cases dg <;> rfl

theorem mkWord_okFor (v : Variant) (name : String) (cod dom : BTy) (dg : Bool) :
    (mkWord name cod dom dg).okFor v := by
  cases dg <;> trivial

theorem mkWord_dom (name : String) (cod dom : BTy) (dg : Bool) : (mkWord name cod dom dg).dom = dom := by
  cases dg <;> simp [mkWord, Rule.dom, wordDom_eq]

theorem mkWord_cod (name : String) (cod dom : BTy) (dg : Bool) : (mkWord name cod dom dg).cod = cod := by
  cases dg <;> simp [mkWord, Rule.cod]

theorem BD.ofRule_spec (v : Variant) (r : Rule) (hc : r.check = true) (hok : r.okFor v) :
    (BD.ofRule r).Typed v ∧ (BD.ofRule r).Avoids v ∧ (BD.ofRule r).dom = r.dom ∧
      (BD.ofRule r).cod v = r.cod := by
  refine ⟨⟨trivial, hc, [], [], by simp [BD.cod], rfl⟩, ⟨trivial, hok⟩, rfl, ?_⟩
  have := scanStep_fits (pre := []) (bdom := r.dom) (post := []) r.cod
  simpa [BD.ofRule, BD.cod] using this

theorem nodeBox_spec (v : Variant) {type : String} {dom cod : BTy} {box : Rule}
    (hdom : ∀ x ∈ dom, x.Simple) (hcod : cod.Simple1) (h : nodeBox type dom cod = .ok box) :
    box.check = true ∧ box.okFor v ∧ box.cod.Simple1 := by
  simp only [nodeBox] at h
  split at h
  · -- 'ba'
    match dom, hdom, h with
    | _ :: [.under l r], hdom, h =>
      simp only [BTy.rest_cons, mkBA] at h
      cases h
      have hs : (BOb.under l r).Simple := hdom _ (by simp)
      simp only [BOb.Simple] at hs
      exact ⟨rfl, Or.inr hs.1.length, hs.2⟩
    | [], _, h => simp [mkBA] at h
    | [_], _, h => simp [mkBA] at h
    | _ :: .atom _ :: _, _, h => simp [mkBA] at h
    | _ :: .over _ _ :: _, _, h => simp [mkBA] at h
    | _ :: .under _ _ :: _ :: _, _, h => simp [mkBA] at h
  · split at h
    · -- 'fa'
      match dom, hdom, h with
      | .over l r :: _, hdom, h =>
        simp only [BTy.first_cons, mkFA] at h
        cases h
        have hs : (BOb.over l r).Simple := hdom _ (by simp)
        simp only [BOb.Simple] at hs
        exact ⟨rfl, trivial, hs.1⟩
      | [], _, h => simp [mkFA] at h
      | .atom _ :: _, _, h => simp [mkFA] at h
      | .under _ _ :: _, _, h => simp [mkFA] at h
    · split at h
      · -- 'fc'
        match dom, hdom, h with
        | [.over a b, .over c d], hdom, h =>
          simp only [BTy.first_cons, BTy.rest_cons, mkFC] at h
          split at h
          · rename_i hbc
            cases h
            have h1 : (BOb.over a b).Simple := hdom _ (by simp)
            have h2 : (BOb.over c d).Simple := hdom _ (by simp)
            simp only [BOb.Simple] at h1 h2
            exact ⟨by simp [Rule.check, hbc], trivial,
              BTy.simple1_singleton.mpr ⟨h1.1, h2.2⟩⟩
          · cases h
        | [], _, h => simp [mkFC] at h
        | .atom _ :: _, _, h => simp [mkFC] at h
        | .under _ _ :: _, _, h => simp [mkFC] at h
        | [.over _ _], _, h => simp [mkFC] at h
        | .over _ _ :: .atom _ :: _, _, h => simp [mkFC] at h
        | .over _ _ :: .under _ _ :: _, _, h => simp [mkFC] at h
        | .over _ _ :: .over _ _ :: _ :: _, _, h => simp [mkFC] at h
      · cases h
        exact ⟨rfl, trivial, hcod⟩

theorem nodeBD_good (v : Variant) {type : String} {cat : List Char} {kids : List BD} {d : BD}
    (hk : ∀ k ∈ kids, TreeGood v [] k) (h : nodeBD v type cat kids = .ok d) : TreeGood v [] d := by
  simp only [nodeBD] at h
  split at h
  · cases h
  · rename_i cod hcat
    split at h
    · cases h
    · rename_i box hbox
      have hdom : ∀ x ∈ kids.flatMap (fun k => k.cod v), x.Simple := by
        intro x hx
        obtain ⟨k, hk1, hk2⟩ := List.mem_flatMap.mp hx
        have hs := (hk k hk1).cod
        match hc : k.cod v, hs, hk2 with
        | [y], hs, hk2 =>
          simp only [List.mem_singleton] at hk2
          subst hk2
          exact BTy.simple1_singleton.mp hs
      obtain ⟨hc, hok, hcs⟩ := nodeBox_spec v hdom (cat2ty_simple hcat) hbox
      obtain ⟨b1, b2, _, b4⟩ := BD.ofRule_spec v box hc hok
      obtain ⟨t1, t2, t3, _⟩ := BD.tensorAll_spec v kids (.id []) trivial trivial
        (fun k hk' => ⟨(hk k hk').typed, (hk k hk').avoids⟩)
      obtain ⟨r1, r2, r3, r4⟩ := BD.then_spec v t1 t2 b1 b2 h
      refine ⟨r1, r2, ?_, by rw [r4, b4]; exact hcs⟩
      rw [r3, t3]
      simp only [BD.dom, List.nil_append, List.flatMap_eq_nil_iff]
      exact fun k hk' => (hk k hk').dom

mutual
theorem CTree.toBD_good (v : Variant) :
    ∀ (t : CTree) (dom : BTy) (d : BD), t.toBD v dom = .ok d → TreeGood v (t.domOf dom) d
  | .word w cat, dom, d, h => by
    simp only [CTree.toBD] at h
    split at h
    · cases h
    · rename_i cod hcat
      cases h
      obtain ⟨b1, b2, b3, b4⟩ := BD.ofRule_spec v (mkWord w cod dom false) (mkWord_check ..)
        (mkWord_okFor v ..)
      exact ⟨b1, b2, by rw [b3, mkWord_dom]; rfl, by rw [b4, mkWord_cod]; exact cat2ty_simple hcat⟩
  | .node type cat children, dom, d, h => by
    simp only [CTree.toBD] at h
    split at h
    · cases h
    · rename_i kids hkids
      exact nodeBD_good v (CTree.listToBD_good v children kids hkids) h
theorem CTree.listToBD_good (v : Variant) :
    ∀ (ts : List CTree) (ds : List BD), CTree.listToBD v ts = .ok ds → ∀ d ∈ ds, TreeGood v [] d
  | [], ds, h => by
    simp only [CTree.listToBD] at h
    cases h
    simp
  | t :: ts, ds, h => by
    simp only [CTree.listToBD] at h
    split at h
    · cases h
    · rename_i d hd
      split at h
      · cases h
      · rename_i ds' hds'
        cases h
        intro x hx
        rcases List.mem_cons.mp hx with hx | hx
        · subst hx; exact t.domOf_nil ▸ CTree.toBD_good v t [] _ hd
        · exact CTree.listToBD_good v ts ds' hds' x hx
end

/-- Translating a CCG derivation is type-preserving for the code as it is as well as for the
    repaired code: `tree2diagram` never builds a box of the shapes of F10/F14. -/
theorem CTree.img_has (v : Variant) {t : CTree} {dom : BTy} {d : BD} (h : t.toBD v dom = .ok d) :
    Has (d.img v) (BTy.img (t.domOf dom)) (BTy.img (d.cod v)) := by
  have g := CTree.toBD_good v t dom d h
  have := BD.img_has v d g.typed g.avoids
  rw [g.dom] at this
  exact this

/-! ## Part G — cat2ty reads back printed categories -/

/-- A CCG category: an atom (with its feature annotations, e.g. `S[dcl]`), `res/arg` or
    `res\arg`. -/
inductive Cat where
  | atom (name : List Char)
  | fwd (res arg : Cat)
  | bwd (res arg : Cat)
  deriving Repr, Inhabited

def Cat.isAtom : Cat → Bool
  | .atom _ => true
  | _ => false

/-- Parentheses around everything but an atom. -/
def Cat.wrap (c : Cat) (s : List Char) : List Char := if c.isAtom then s else '(' :: (s ++ [')'])

/-- The fully parenthesised print (depccg's format): `(S\NP)/NP`. -/
def Cat.print : Cat → List Char
  | .atom n => n
  | .fwd a b => a.wrap a.print ++ '/' :: b.wrap b.print
  | .bwd a b => a.wrap a.print ++ '\\' :: b.wrap b.print

/-- The biclosed type a category denotes: `X/Y = X << Y`, `X\Y = Y >> X`, features dropped. -/
def Cat.ty : Cat → BTy
  | .atom n => [.atom (pyRepr (removeModifier n))]
  | .fwd a b => BTy.over a.ty b.ty
  | .bwd a b => BTy.under b.ty a.ty

def PlainChar (c : Char) : Prop := c ≠ '(' ∧ c ≠ ')' ∧ c ≠ '/' ∧ c ≠ '\\'

/-- Atom names are non-empty and contain no parenthesis or slash. -/
def Cat.Plain : Cat → Prop
  | .atom n => n ≠ [] ∧ ∀ c ∈ n, PlainChar c
  | .fwd a b => a.Plain ∧ b.Plain
  | .bwd a b => a.Plain ∧ b.Plain

theorem splitCat_plain (w : List Char) (hw : ∀ c ∈ w, PlainChar c) (rest : List Char) (k : Int)
    (acc : List Char) : splitCat (w ++ rest) k acc = splitCat rest k (w.reverse ++ acc) := by
  induction w generalizing acc with
  | nil => rfl
  | cons c w ih =>
    obtain ⟨h1, h2, h3, h4⟩ := hw c (by simp)
    have := ih (fun c' hc' => hw c' (by simp [hc'])) (c :: acc)
    simp only [List.cons_append, splitCat, h1, h2, h3, h4, ↓reduceIte, false_or, false_and, this,
      List.reverse_cons, List.append_assoc, List.singleton_append, List.nil_append]

theorem splitCat_open (s : List Char) (k : Int) (acc : List Char) :
    splitCat ('(' :: s) k acc = splitCat s (k + 1) ('(' :: acc) := by simp [splitCat]
theorem splitCat_close (s : List Char) (k : Int) (acc : List Char) :
    splitCat (')' :: s) k acc = splitCat s (k - 1) (')' :: acc) := by
  simp [splitCat]
theorem splitCat_slash_deep (c : Char) (hc : c = '/' ∨ c = '\\') (s : List Char) (k : Int)
    (hk : k ≠ 0) (acc : List Char) : splitCat (c :: s) k acc = splitCat s k (c :: acc) := by
  rcases hc with rfl | rfl
  · simp only [splitCat]; rw [if_neg (by decide), if_neg (by decide), if_neg (by simp [hk])]
  · simp only [splitCat]; rw [if_neg (by decide), if_neg (by decide), if_neg (by simp [hk])]
theorem splitCat_slash_top (c : Char) (hc : c = '/' ∨ c = '\\') (s : List Char) (acc : List Char) :
    splitCat (c :: s) 0 acc = some (acc.reverse, c, s) := by
  rcases hc with rfl | rfl
  · simp only [splitCat]; rw [if_neg (by decide), if_neg (by decide), if_pos (by simp)]
  · simp only [splitCat]; rw [if_neg (by decide), if_neg (by decide), if_pos (by simp)]

/-- A wrapped category is skipped as a whole at any depth `k ≥ 0`, given that its print is
    skipped inside parentheses. -/
theorem splitCat_wrap (c : Cat) (hc : c.Plain)
    (h : ∀ (rest : List Char) (k : Int) (acc : List Char), 1 ≤ k →
      splitCat (c.print ++ rest) k acc = splitCat rest k (c.print.reverse ++ acc)) :
    ∀ (rest : List Char) (k : Int) (acc : List Char), 0 ≤ k →
      splitCat (c.wrap c.print ++ rest) k acc
        = splitCat rest k ((c.wrap c.print).reverse ++ acc) := by
  intro rest k acc hk
  cases c with
  | atom n => exact splitCat_plain n hc.2 rest k acc
  | fwd a b =>
    simp only [Cat.wrap, Cat.isAtom, Bool.false_eq_true, ↓reduceIte, List.cons_append,
      List.append_assoc, splitCat_open]
    rw [h _ _ _ (by omega), List.nil_append, splitCat_close]
    have : k + 1 - 1 = k := by omega
    rw [this]
    simp
  | bwd a b =>
    simp only [Cat.wrap, Cat.isAtom, Bool.false_eq_true, ↓reduceIte, List.cons_append,
      List.append_assoc, splitCat_open]
    rw [h _ _ _ (by omega), List.nil_append, splitCat_close]
    have : k + 1 - 1 = k := by omega
    rw [this]
    simp

/-- Inside parentheses (`k ≥ 1`) a printed category is skipped as a whole. -/
theorem splitCat_print (c : Cat) (hc : c.Plain) :
    ∀ (rest : List Char) (k : Int) (acc : List Char), 1 ≤ k →
      splitCat (c.print ++ rest) k acc = splitCat rest k (c.print.reverse ++ acc) := by
  induction c with
  | atom n => intro rest k acc _; exact splitCat_plain n hc.2 rest k acc
  | fwd a b iha ihb =>
    intro rest k acc hk
    have wa := splitCat_wrap a hc.1 (iha hc.1)
    have wb := splitCat_wrap b hc.2 (ihb hc.2)
    simp only [Cat.print, List.append_assoc, List.cons_append]
    rw [wa _ _ _ (by omega), splitCat_slash_deep _ (Or.inl rfl) _ _ (by omega), wb _ _ _ (by omega)]
    simp
  | bwd a b iha ihb =>
    intro rest k acc hk
    have wa := splitCat_wrap a hc.1 (iha hc.1)
    have wb := splitCat_wrap b hc.2 (ihb hc.2)
    simp only [Cat.print, List.append_assoc, List.cons_append]
    rw [wa _ _ _ (by omega), splitCat_slash_deep _ (Or.inr rfl) _ _ (by omega), wb _ _ _ (by omega)]
    simp

/-- The first top-level slash of `wrap a ++ slash :: wrap b` is that slash. -/
theorem splitCat_top (a b : Cat) (ha : a.Plain) (_hb : b.Plain) (sl : Char)
    (hsl : sl = '/' ∨ sl = '\\') :
    splitCat (a.wrap a.print ++ sl :: b.wrap b.print) 0 []
      = some (a.wrap a.print, sl, b.wrap b.print) := by
  rw [splitCat_wrap a ha (splitCat_print a ha) _ 0 [] (by omega), splitCat_slash_top _ hsl]
  simp

theorem splitCat_atom (n : List Char) (hn : ∀ c ∈ n, PlainChar c) : splitCat n 0 [] = none := by
  have := splitCat_plain n hn [] 0 []
  simp only [List.append_nil] at this
  rw [this]; rfl

theorem Cat.print_ne_nil (c : Cat) (hc : c.Plain) : c.print ≠ [] := by
  cases c with
  | atom n => exact hc.1
  | fwd a b => simp [Cat.print]
  | bwd a b => simp [Cat.print]

theorem pySlice_inner {α} (x y : α) (p : List α) :
    pySlice (x :: (p ++ [y])) (some 1) (some (-1)) = p := by
  have hlen : (x :: (p ++ [y])).length = p.length + 2 := by simp
  have i1 : pyIdx (p.length + 2) 1 = 1 := by
    unfold pyIdx; rw [if_neg (by omega)]; simp
  have i2 : pyIdx (p.length + 2) (-1) = p.length + 1 := by
    unfold pyIdx; rw [if_pos (by omega), if_neg (by omega)]; omega
  simp only [pySlice, pyLo, pyHi, hlen, i1, i2]
  simp

/-- `unbracket` undoes `wrap` (an atom does not start with a parenthesis). -/
theorem unbracket_wrap (c : Cat) (hc : c.Plain) : unbracket (c.wrap c.print) = .ok c.print := by
  cases c with
  | atom n =>
    obtain ⟨hne, hpl⟩ := hc
    match n, hne, hpl with
    | ch :: t, _, hpl =>
      have := (hpl ch (by simp)).1
      simp [Cat.wrap, Cat.isAtom, Cat.print, unbracket, this]
  | fwd a b =>
    simp only [Cat.wrap, Cat.isAtom, Bool.false_eq_true, ↓reduceIte, unbracket, pySlice_inner]
  | bwd a b =>
    simp only [Cat.wrap, Cat.isAtom, Bool.false_eq_true, ↓reduceIte, unbracket, pySlice_inner]

theorem Cat.wrap_length_ge (c : Cat) (s : List Char) : s.length ≤ (c.wrap s).length := by
  unfold Cat.wrap; split <;> simp <;> omega

/-- `cat2ty` reads the print of a plain category back to the type it denotes. -/
theorem cat2tyFuel_print (c : Cat) (hc : c.Plain) :
    ∀ fuel, c.print.length + 1 ≤ fuel → cat2tyFuel fuel c.print = .ok c.ty := by
  induction c with
  | atom n =>
    intro fuel hf
    match fuel, hf with
    | f + 1, _ => simp [cat2tyFuel, Cat.print, splitCat_atom n hc.2, Cat.ty]
  | fwd a b iha ihb =>
    intro fuel hf
    match fuel, hf with
    | f + 1, hf =>
      have hla := Cat.wrap_length_ge a a.print
      have hlb := Cat.wrap_length_ge b b.print
      simp only [Cat.print, List.length_append, List.length_cons] at hf
      have ea := iha hc.1 f (by omega)
      have eb := ihb hc.2 f (by omega)
      simp only [cat2tyFuel, Cat.print, splitCat_top a b hc.1 hc.2 '/' (Or.inl rfl),
        unbracket_wrap a hc.1, unbracket_wrap b hc.2, ea, eb, Cat.ty]
      rw [if_neg (by decide)]
  | bwd a b iha ihb =>
    intro fuel hf
    match fuel, hf with
    | f + 1, hf =>
      have hla := Cat.wrap_length_ge a a.print
      have hlb := Cat.wrap_length_ge b b.print
      simp only [Cat.print, List.length_append, List.length_cons] at hf
      have ea := iha hc.1 f (by omega)
      have eb := ihb hc.2 f (by omega)
      simp only [cat2tyFuel, Cat.print, splitCat_top a b hc.1 hc.2 '\\' (Or.inr rfl),
        unbracket_wrap a hc.1, unbracket_wrap b hc.2, ea, eb, Cat.ty, ↓reduceIte]

theorem cat2ty_print (c : Cat) (hc : c.Plain) : cat2ty c.print = .ok c.ty :=
  cat2tyFuel_print c hc _ (Nat.le_refl _)

end DV
