/-
  Proofs/CatFunctor.lean — functoriality at the level of the free category: `cat.Functor.__call__`
  on a plain `cat.Arrow` (cat.py:878-879, `id(F(dom)).then(*map(F, arrow))`, Model/CatArrow.lean
  `CFunctor.applyArrow`) for box maps whose images are plain arrows.

  The monoidal and rigid functors never reach this branch (they have their own loop); it is the one
  a functor of the free category runs.  Proved: the closed form of the image (its boxes are the
  boxes of the box images one after the other), `F(Id(x)) = Id(F(x))`, `F(a >> b) = F(a) >> F(b)`
  and its n-ary form, and — every box being its own one-box arrow — that the image of an arrow is
  the composite of the images of its boxes.
-/
import Proofs.CatArrow

namespace DV

theorem AJunctions_append {c : Ty} {xs ys : List LArrow} :
    AJunctions c (xs ++ ys) ↔ AJunctions c xs ∧ AJunctions (alastCod c xs) ys := by
  induction xs generalizing c with
  | nil => simp [AJunctions, alastCod]
  | cons x xs ih => simp [AJunctions, alastCod, ih, and_assoc]

theorem alastCod_append {c : Ty} {xs ys : List LArrow} :
    alastCod c (xs ++ ys) = alastCod (alastCod c xs) ys := by
  induction xs generalizing c with
  | nil => simp [alastCod]
  | cons x xs ih => simp [alastCod, ih]

theorem CFunctor.images_append {F : CFunctor} {xs ys : List Layer} {ix iy : List LArrow}
    (hx : F.images xs = .ok ix) (hy : F.images ys = .ok iy) :
    F.images (xs ++ ys) = .ok (ix ++ iy) := by
  induction xs generalizing ix with
  | nil => simp only [CFunctor.images, Except.ok.injEq] at hx; subst hx; simpa using hy
  | cons l ls ih =>
    simp only [CFunctor.images] at hx
    split at hx
    · cases hx
    · rename_i x hb
      split at hx
      · cases hx
      · rename_i zs hzs
        cases hx
        simp only [List.cons_append, CFunctor.images, hb, ih hzs]

/-- The image in closed form: from the image of the domain to the codomain of the last box image,
    the boxes of the box images one after the other. -/
theorem CFunctor.applyArrow_eq {F : CFunctor} {a r : LArrow} (h : F.applyArrow a = .ok r) :
    ∃ t imgs, F.obj a.dom = .ok t ∧ F.images a.boxes = .ok imgs ∧ AJunctions t imgs ∧
      r = ⟨t, alastCod t imgs, (imgs.map (·.boxes)).flatten⟩ := by
  unfold CFunctor.applyArrow at h
  split at h
  · cases h
  · rename_i t ht
    split at h
    · cases h
    · rename_i imgs hi
      obtain ⟨hj, hr⟩ := LArrow.thenN_ok h
      exact ⟨t, imgs, ht, hi, hj, by simpa [LArrow.id] using hr⟩

theorem CFunctor.applyArrow_of {F : CFunctor} {a : LArrow} {t : Ty} {imgs : List LArrow}
    (ht : F.obj a.dom = .ok t) (hi : F.images a.boxes = .ok imgs) (hj : AJunctions t imgs) :
    F.applyArrow a = .ok ⟨t, alastCod t imgs, (imgs.map (·.boxes)).flatten⟩ := by
  obtain ⟨r, hr⟩ := (F.applyArrow_ok_iff a).mpr ⟨t, imgs, ht, hi, hj⟩
  obtain ⟨t', imgs', ht', hi', _, rfl⟩ := F.applyArrow_eq hr
  rw [ht] at ht'; rw [hi] at hi'
  cases ht'; cases hi'
  exact hr

/-- `F(Id(x)) = Id(F(x))`. -/
theorem CFunctor.applyArrow_id {F : CFunctor} {t t' : Ty} (h : F.obj t = .ok t') :
    F.applyArrow (LArrow.id t) = .ok (LArrow.id t') := by
  simp [CFunctor.applyArrow, LArrow.id, h, CFunctor.images, LArrow.thenN]

/-- `F(a >> b) = F(a) >> F(b)`: the composite of the images is accepted and is the image of the
    composite (the box images of `a` typed `F(dom) → F(cod)`). -/
theorem CFunctor.applyArrow_then {F : CFunctor} {a b ab fa fb : LArrow} (ha : a.WF)
    (hok : ∀ l ∈ a.boxes, F.okOn l) (hab : a.then b = .ok ab)
    (hfa : F.applyArrow a = .ok fa) (hfb : F.applyArrow b = .ok fb) :
    ∃ r, fa.then fb = .ok r ∧ F.applyArrow ab = .ok r := by
  obtain ⟨ta, ia, hta, hia, hja, rfl⟩ := F.applyArrow_eq hfa
  obtain ⟨tb, ib, htb, hib, hjb, rfl⟩ := F.applyArrow_eq hfb
  obtain ⟨hc, rfl⟩ := LArrow.then_ok hab
  obtain ⟨_, hcod⟩ := F.images_chain ha hta hok hia
  rw [hc, htb] at hcod
  cases hcod
  refine ⟨_, LArrow.then_eq_ok rfl, ?_⟩
  have hj : AJunctions ta (ia ++ ib) := AJunctions_append.mpr ⟨hja, hjb⟩
  have := F.applyArrow_of (a := ⟨a.dom, b.cod, a.boxes ++ b.boxes⟩) hta
    (F.images_append hia hib) hj
  rw [this]
  simp [alastCod_append]

/-- `fbs` lists the images of the arrows `bs`, in order. -/
def CFunctor.ImagesOf (F : CFunctor) : List LArrow → List LArrow → Prop
  | [], [] => True
  | b :: bs, fb :: fbs => F.applyArrow b = .ok fb ∧ F.ImagesOf bs fbs
  | _, _ => False

/-- The n-ary form, `F(a.then(b₁, …, bₙ)) = F(a).then(F(b₁), …, F(bₙ))`. -/
theorem CFunctor.applyArrow_thenN {F : CFunctor} {a d fa : LArrow} {bs fbs : List LArrow}
    (ha : a.WF) (hbs : ∀ b ∈ bs, b.WF)
    (hok : ∀ l ∈ a.boxes, F.okOn l) (hoks : ∀ b ∈ bs, ∀ l ∈ b.boxes, F.okOn l)
    (h : a.thenN bs = .ok d) (hfa : F.applyArrow a = .ok fa) (hfbs : F.ImagesOf bs fbs) :
    ∃ r, fa.thenN fbs = .ok r ∧ F.applyArrow d = .ok r := by
  induction bs generalizing a fa fbs with
  | nil =>
    cases fbs with
    | nil => simp only [LArrow.thenN, Except.ok.injEq] at h; subst h; exact ⟨fa, rfl, hfa⟩
    | cons _ _ => simp [CFunctor.ImagesOf] at hfbs
  | cons b bs' ih =>
    cases fbs with
    | nil => simp [CFunctor.ImagesOf] at hfbs
    | cons fb fbs' =>
      obtain ⟨hb, hrest⟩ := hfbs
      simp only [LArrow.thenN] at h
      split at h
      · cases h
      · rename_i x hx
        obtain ⟨r1, hr1, hF1⟩ := F.applyArrow_then ha hok hx hfa hb
        have hbw : b.WF := hbs b (List.mem_cons_self ..)
        have hxw : x.WF := LArrow.then_wf ha hbw hx
        obtain ⟨_, rfl⟩ := LArrow.then_ok hx
        have hokx : ∀ l ∈ (⟨a.dom, b.cod, a.boxes ++ b.boxes⟩ : LArrow).boxes, F.okOn l := by
          intro l hl
          rcases List.mem_append.mp hl with hl | hl
          · exact hok l hl
          · exact hoks b (List.mem_cons_self ..) l hl
        obtain ⟨r, hr, hF⟩ := ih hxw (fun b' hb' => hbs b' (List.mem_cons_of_mem _ hb')) hokx
          (fun b' hb' => hoks b' (List.mem_cons_of_mem _ hb')) h hF1 hrest
        exact ⟨r, by simp only [LArrow.thenN, hr1, hr], hF⟩

end DV
