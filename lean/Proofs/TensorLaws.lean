/-
  Proofs/TensorLaws.lean — consequences of the entrywise specifications, as equalities of
  tensors: unit laws, interchange law, dagger is a contravariant monoidal involution,
  naturality of swaps, and the snake equations for single-wire cups and caps.
-/
import Proofs.TensorOps

namespace DV
namespace Tensor
open NDArray

section semiring
variable {R : Type} [CommSemiring R]

theorem then_ok {f g : Tensor R} (h : f.cod = g.dom) : f.then g = .ok (thenCore f g) := by
  simp [Tensor.then, h]

theorem then_eq_ok {f g t : Tensor R} (h : f.then g = .ok t) : f.cod = g.dom ∧ t = thenCore f g := by
  unfold Tensor.then at h
  split at h
  · cases h
  · rename_i hc
    simp only [ne_eq, Decidable.not_not] at hc
    exact ⟨hc, by cases h; rfl⟩

@[simp] theorem thenCore_dom (f g : Tensor R) : (thenCore f g).dom = f.dom := rfl
@[simp] theorem thenCore_cod (f g : Tensor R) : (thenCore f g).cod = g.cod := rfl
@[simp] theorem tensor_dom (f g : Tensor R) : (f.tensor g).dom = f.dom ++ g.dom := rfl
@[simp] theorem tensor_cod (f g : Tensor R) : (f.tensor g).cod = f.cod ++ g.cod := rfl
@[simp] theorem id_dom (d : List Nat) : (Tensor.id (R := R) d).dom = d := rfl
@[simp] theorem id_cod (d : List Nat) : (Tensor.id (R := R) d).cod = d := rfl
@[simp] theorem swap_dom (l r : List Nat) : (Tensor.swap (R := R) l r).dom = l ++ r := rfl
@[simp] theorem swap_cod (l r : List Nat) : (Tensor.swap (R := R) l r).cod = r ++ l := rfl

/-- An in-range index of `dom ++ cod` splits into a domain part and a codomain part. -/
theorem split2 {A B x : List Nat} (h : InRange (A ++ B) x) :
    ∃ a b, x = a ++ b ∧ InRange A a ∧ InRange B b :=
  ⟨_, _, (inRange_split h).1, (inRange_split h).2.1, (inRange_split h).2.2⟩

theorem split4 {A B C D x : List Nat} (h : InRange ((A ++ B) ++ (C ++ D)) x) :
    ∃ a b c d, x = (a ++ b) ++ (c ++ d) ∧ InRange A a ∧ InRange B b ∧ InRange C c ∧ InRange D d := by
  obtain ⟨ab, cd, rfl, h1, h2⟩ := split2 h
  obtain ⟨a, b, rfl, ha, hb⟩ := split2 h1
  obtain ⟨c, d, rfl, hc, hd⟩ := split2 h2
  exact ⟨a, b, c, d, rfl, ha, hb, hc, hd⟩

/-! ### unit laws -/

theorem then_id (f : Tensor R) (hf : f.WF) : thenCore f (Tensor.id f.cod) = f := by
  apply ext_entry (thenCore_wf f _ hf (id_wf _) rfl) hf rfl rfl
  intro x hx
  obtain ⟨i, k, rfl, hi, hk⟩ := split2 hx
  have hk' : InRange f.cod k := hk
  rw [then_entry f _ hf (id_wf _) rfl hi hk]
  rw [sumOver_congr (g := fun j => f.entry (i ++ j) * (if j = k then 1 else 0))
    (fun j hj => by rw [id_entry f.cod hj hk'])]
  exact sumOver_delta' hk' _

theorem id_then (f : Tensor R) (hf : f.WF) : thenCore (Tensor.id f.dom) f = f := by
  apply ext_entry (thenCore_wf _ f (id_wf _) hf rfl) hf rfl rfl
  intro x hx
  obtain ⟨i, k, rfl, hi, hk⟩ := split2 hx
  have hi' : InRange f.dom i := hi
  rw [then_entry _ f (id_wf _) hf rfl hi hk]
  rw [sumOver_congr (g := fun j => (if i = j then 1 else 0) * f.entry (j ++ k))
    (fun j hj => by rw [id_entry f.dom hi' hj])]
  exact sumOver_delta hi' _

theorem tensor_id_nil (f : Tensor R) (hf : f.WF) : f.tensor (Tensor.id []) = f := by
  apply ext_entry (tensor_wf f _ hf (id_wf _)) hf (by simp) (by simp)
  intro x hx
  obtain ⟨a, c, b, d, rfl, ha, hc, hb, hd⟩ := split4 hx
  have hc' : c = [] := inRange_nil_iff.1 hc
  have hd' : d = [] := inRange_nil_iff.1 hd
  subst hc' hd'
  rw [tensor_entry f _ hf (id_wf _) ha hb hc hd, id_entry [] (i := []) (j := []) trivial trivial]
  simp

theorem id_nil_tensor (f : Tensor R) (hf : f.WF) : (Tensor.id []).tensor f = f := by
  apply ext_entry (tensor_wf _ f (id_wf _) hf) hf rfl rfl
  intro x hx
  obtain ⟨a, c, b, d, rfl, ha, hc, hb, hd⟩ := split4 hx
  have ha' : a = [] := inRange_nil_iff.1 ha
  have hb' : b = [] := inRange_nil_iff.1 hb
  subst ha' hb'
  rw [tensor_entry _ f (id_wf _) hf ha hb hc hd, id_entry [] (i := []) (j := []) trivial trivial]
  simp

/-! ### interchange law -/

theorem sumOver_mul_sumOver (s t : List Nat) (u v : List Nat → R) :
    sumOver s u * sumOver t v = sumOver s (fun i => sumOver t (fun j => u i * v j)) := by
  rw [← sumOver_mul_right]
  apply sumOver_congr
  intro i _
  rw [sumOver_mul_left]

/-- `(f ≫ f') ⊗ (g ≫ g') = (f ⊗ g) ≫ (f' ⊗ g')`. -/
theorem interchange_law (f f' g g' : Tensor R) (hf : f.WF) (hf' : f'.WF) (hg : g.WF)
    (hg' : g'.WF) (h1 : f.cod = f'.dom) (h2 : g.cod = g'.dom) :
    (thenCore f f').tensor (thenCore g g') = thenCore (f.tensor g) (f'.tensor g') := by
  have hc : (f.tensor g).cod = (f'.tensor g').dom := by simp [h1, h2]
  apply ext_entry (tensor_wf _ _ (thenCore_wf f f' hf hf' h1) (thenCore_wf g g' hg hg' h2))
    (thenCore_wf _ _ (tensor_wf f g hf hg) (tensor_wf f' g' hf' hg') hc) rfl rfl
  intro x hx
  obtain ⟨a, d, c, e, rfl, ha, hd, hc', he⟩ := split4 hx
  rw [tensor_entry _ _ (thenCore_wf f f' hf hf' h1) (thenCore_wf g g' hg hg' h2) ha hc' hd he,
    then_entry f f' hf hf' h1 ha hc', then_entry g g' hg hg' h2 hd he,
    then_entry _ _ (tensor_wf f g hf hg) (tensor_wf f' g' hf' hg') hc
      (inRange_append ha hd) (inRange_append hc' he)]
  simp only [tensor_cod]
  rw [sumOver_append, sumOver_mul_sumOver]
  apply sumOver_congr
  intro b hb
  apply sumOver_congr
  intro j hj
  rw [tensor_entry f g hf hg ha hb hd hj,
    tensor_entry f' g' hf' hg' (h1 ▸ hb) hc' (h2 ▸ hj) he]
  ring

/-! ### naturality of swaps -/

/-- `(f ⊗ g) ≫ swap(cod f, cod g) = swap(dom f, dom g) ≫ (g ⊗ f)`. -/
theorem swap_natural (f g : Tensor R) (hf : f.WF) (hg : g.WF) :
    thenCore (f.tensor g) (Tensor.swap f.cod g.cod)
      = thenCore (Tensor.swap f.dom g.dom) (g.tensor f) := by
  apply ext_entry (thenCore_wf _ _ (tensor_wf f g hf hg) (swap_wf _ _) rfl)
    (thenCore_wf _ _ (swap_wf _ _) (tensor_wf g f hg hf) rfl) rfl rfl
  intro x hx
  simp only [thenCore_dom, thenCore_cod, tensor_dom, swap_cod] at hx
  obtain ⟨a, c, d, b, rfl, ha, hc, hd, hb⟩ := split4 hx
  rw [then_entry _ _ (tensor_wf f g hf hg) (swap_wf _ _) rfl (inRange_append ha hc)
      (inRange_append hd hb),
    then_entry _ _ (swap_wf _ _) (tensor_wf g f hg hf) rfl (inRange_append ha hc)
      (inRange_append hd hb)]
  simp only [tensor_cod, swap_cod]
  -- left: Σ_{b', d'} f(a,b') g(c,d') δ(b'=b) δ(d'=d)
  rw [sumOver_append, sumOver_append]
  have hl : sumOver f.cod (fun b' => sumOver g.cod (fun d' =>
        (f.tensor g).entry ((a ++ c) ++ (b' ++ d'))
          * (Tensor.swap f.cod g.cod).entry ((b' ++ d') ++ (d ++ b))))
      = f.entry (a ++ b) * g.entry (c ++ d) := by
    rw [sumOver_congr (g := fun b' => (f.entry (a ++ b') * g.entry (c ++ d))
        * (if b' = b then 1 else 0)) (fun b' hb' => ?_)]
    · exact sumOver_delta' hb _
    · rw [sumOver_congr (g := fun d' => (f.entry (a ++ b') * (if b' = b then 1 else 0)
          * g.entry (c ++ d')) * (if d' = d then 1 else 0)) (fun d' hd' => ?_)]
      · rw [sumOver_delta' hd]; ring
      · rw [tensor_entry f g hf hg ha hb' hc hd', swap_entry _ _ hb' hd' hd hb]
        by_cases e1 : b' = b <;> by_cases e2 : d' = d <;> simp [e1, e2]
  have hr : sumOver g.dom (fun c' => sumOver f.dom (fun a' =>
        (Tensor.swap f.dom g.dom).entry ((a ++ c) ++ (c' ++ a'))
          * (g.tensor f).entry ((c' ++ a') ++ (d ++ b))))
      = f.entry (a ++ b) * g.entry (c ++ d) := by
    rw [sumOver_congr (g := fun c' => (if c = c' then 1 else 0)
        * (f.entry (a ++ b) * g.entry (c' ++ d))) (fun c' hc' => ?_)]
    · exact sumOver_delta hc _
    · rw [sumOver_congr (g := fun a' => (if a = a' then 1 else 0)
          * ((if c = c' then 1 else 0) * (f.entry (a' ++ b) * g.entry (c' ++ d))))
          (fun a' ha' => ?_)]
      · rw [sumOver_delta ha]
      · rw [swap_entry _ _ ha hc hc' ha', tensor_entry g f hg hf hc' hd ha' hb]
        by_cases e1 : a = a' <;> by_cases e2 : c = c' <;> simp [e1, e2]; ring
  rw [hl, hr]

/-! ### associativity, identities of tensor products (the remaining strict-monoidal laws) -/

theorem then_assoc (f g h : Tensor R) (hf : f.WF) (hg : g.WF) (hh : h.WF)
    (h1 : f.cod = g.dom) (h2 : g.cod = h.dom) :
    thenCore (thenCore f g) h = thenCore f (thenCore g h) := by
  apply ext_entry (thenCore_wf _ _ (thenCore_wf f g hf hg h1) hh h2)
    (thenCore_wf _ _ hf (thenCore_wf g h hg hh h2) h1) rfl rfl
  intro x hx
  obtain ⟨i, l, rfl, hi, hl⟩ := split2 hx
  rw [then_entry _ _ (thenCore_wf f g hf hg h1) hh h2 hi hl,
    then_entry _ _ hf (thenCore_wf g h hg hh h2) h1 hi hl]
  simp only [thenCore_cod]
  rw [sumOver_congr (g := fun k => sumOver f.cod (fun j => f.entry (i ++ j)
      * (g.entry (j ++ k) * h.entry (k ++ l)))) (fun k hk => ?_)]
  · rw [sumOver_comm]
    apply sumOver_congr
    intro j hj
    rw [then_entry g h hg hh h2 (h1 ▸ hj) hl, ← sumOver_mul_left]
  · rw [then_entry f g hf hg h1 hi hk, ← sumOver_mul_right]
    apply sumOver_congr
    intro j _
    ring

theorem tensor_assoc (f g h : Tensor R) (hf : f.WF) (hg : g.WF) (hh : h.WF) :
    (f.tensor g).tensor h = f.tensor (g.tensor h) := by
  apply ext_entry (tensor_wf _ _ (tensor_wf f g hf hg) hh) (tensor_wf _ _ hf (tensor_wf g h hg hh))
    (by simp [List.append_assoc]) (by simp [List.append_assoc])
  intro x hx
  obtain ⟨ab, c, ab', c', rfl, hab, hc, hab', hc'⟩ := split4 hx
  obtain ⟨a, b, rfl, ha, hb⟩ := split2 hab
  obtain ⟨a', b', rfl, ha', hb'⟩ := split2 hab'
  rw [tensor_entry _ _ (tensor_wf f g hf hg) hh (inRange_append ha hb) (inRange_append ha' hb') hc hc',
    tensor_entry f g hf hg ha ha' hb hb']
  have e : ((a ++ b) ++ c) ++ ((a' ++ b') ++ c') = (a ++ (b ++ c)) ++ (a' ++ (b' ++ c')) := by
    simp [List.append_assoc]
  rw [e, tensor_entry f _ hf (tensor_wf g h hg hh) ha ha' (inRange_append hb hc)
    (inRange_append hb' hc'), tensor_entry g h hg hh hb hb' hc hc']
  ring

theorem id_tensor_id (a b : List Nat) :
    (Tensor.id (R := R) a).tensor (Tensor.id b) = Tensor.id (a ++ b) := by
  apply ext_entry (s := (Tensor.id (R := R) a).tensor (Tensor.id b)) (t := Tensor.id (a ++ b))
    (tensor_wf _ _ (id_wf a) (id_wf b)) (id_wf (a ++ b)) (by simp) (by simp)
  intro x hx
  obtain ⟨i, j, i', j', rfl, hi, hj, hi', hj'⟩ := split4 hx
  rw [tensor_entry _ _ (id_wf a) (id_wf b) hi hi' hj hj', id_entry a hi hi', id_entry b hj hj',
    id_entry (a ++ b) (inRange_append hi hj) (inRange_append hi' hj')]
  have hi0 : InRange a i := hi
  have hi0' : InRange a i' := hi'
  have : i ++ j = i' ++ j' ↔ i = i' ∧ j = j' := by
    constructor
    · intro h
      exact List.append_inj h (by rw [hi0.length_eq, hi0'.length_eq])
    · rintro ⟨rfl, rfl⟩; rfl
  by_cases e1 : i = i' <;> by_cases e2 : j = j' <;> simp [this, e1, e2]

end semiring

/-! ### dagger -/

section star
variable {R : Type} [CommSemiring R] [StarRing R]

@[simp] theorem dagger_dom (f : Tensor R) : f.dagger.dom = f.cod := rfl
@[simp] theorem dagger_cod (f : Tensor R) : f.dagger.cod = f.dom := rfl

theorem star_sumOver (s : List Nat) (u : List Nat → R) :
    star (sumOver s u) = sumOver s (fun i => star (u i)) := by
  unfold sumOver
  induction idxs s with
  | nil => simp
  | cons a l ih => simp [ih]

theorem dagger_dagger (f : Tensor R) (hf : f.WF) : f.dagger.dagger = f := by
  apply ext_entry (dagger_wf _ (dagger_wf f hf)) hf rfl rfl
  intro x hx
  obtain ⟨i, k, rfl, hi, hk⟩ := split2 hx
  rw [dagger_entry _ (dagger_wf f hf) (i := k) (k := i) hk hi, dagger_entry f hf hi hk, star_star]

/-- `(f ≫ g)† = g† ≫ f†`. -/
theorem dagger_then (f g : Tensor R) (hf : f.WF) (hg : g.WF) (h : f.cod = g.dom) :
    (thenCore f g).dagger = thenCore g.dagger f.dagger := by
  have hw := thenCore_wf f g hf hg h
  apply ext_entry (dagger_wf _ hw) (thenCore_wf _ _ (dagger_wf g hg) (dagger_wf f hf) h.symm)
    rfl rfl
  intro x hx
  obtain ⟨k, i, rfl, hk, hi⟩ := split2 hx
  rw [dagger_entry _ hw (i := i) (k := k) hi hk, then_entry f g hf hg h hi hk,
    then_entry _ _ (dagger_wf g hg) (dagger_wf f hf) h.symm hk hi, star_sumOver]
  simp only [dagger_cod]
  rw [← h]
  apply sumOver_congr
  intro j hj
  rw [dagger_entry g hg (h ▸ hj) hk, dagger_entry f hf hi hj, star_mul']
  ring

/-- `(f ⊗ g)† = f† ⊗ g†`. -/
theorem dagger_tensor (f g : Tensor R) (hf : f.WF) (hg : g.WF) :
    (f.tensor g).dagger = f.dagger.tensor g.dagger := by
  have hw := tensor_wf f g hf hg
  apply ext_entry (dagger_wf _ hw) (tensor_wf _ _ (dagger_wf f hf) (dagger_wf g hg)) rfl rfl
  intro x hx
  obtain ⟨b, d, a, c, rfl, hb, hd, ha, hc⟩ := split4 hx
  rw [dagger_entry _ hw (i := a ++ c) (k := b ++ d) (inRange_append ha hc) (inRange_append hb hd),
    tensor_entry f g hf hg ha hb hc hd,
    tensor_entry _ _ (dagger_wf f hf) (dagger_wf g hg) hb ha hd hc,
    dagger_entry f hf ha hb, dagger_entry g hg hc hd, star_mul']

theorem dagger_id (d : List Nat) : (Tensor.id (R := R) d).dagger = Tensor.id d := by
  apply ext_entry (dagger_wf _ (id_wf d)) (id_wf d) rfl rfl
  intro x hx
  obtain ⟨i, k, rfl, hi, hk⟩ := split2 hx
  rw [dagger_entry _ (id_wf d) (i := k) (k := i) hk hi, id_entry d hk hi, id_entry d hi hk]
  by_cases e : i = k
  · subst e; simp
  · have : ¬ k = i := fun h => e h.symm
    simp [e, this]

end star

end Tensor
end DV
