import Model.CQ

/-!
# `get_counts()` / `measure()` read the distribution off `init_and_discard().eval(mixed=True)`

The glue of circuit.py:309-318 and 336-346 on the model: once the prepared-and-discarded circuit
evaluates to a CQ map `m`, `measure(mixed=True)` is the list of the real parts of its entries, and
`get_counts()` lists, with their flat index, exactly the entries that are not zero (real parts).
-/

namespace DV.CQ

theorem mem_enumFrom {α} (l : List α) : ∀ (s k : Nat) (y : α),
    (k, y) ∈ enumFrom s l ↔ s ≤ k ∧ l[k - s]? = some y := by
  induction l with
  | nil => intro s k y; simp [enumFrom]
  | cons x xs ih =>
    intro s k y
    simp only [enumFrom, List.mem_cons, Prod.mk.injEq, ih]
    constructor
    · rintro (⟨rfl, rfl⟩ | ⟨h1, h2⟩)
      · simp
      · refine ⟨by omega, ?_⟩
        have : k - s = (k - (s + 1)) + 1 := by omega
        rw [this, List.getElem?_cons_succ]
        exact h2
    · rintro ⟨h1, h2⟩
      by_cases hk : k = s
      · subst hk
        simp only [Nat.sub_self, List.getElem?_cons_zero, Option.some.injEq] at h2
        exact .inl ⟨rfl, h2.symm⟩
      · right
        refine ⟨by omega, ?_⟩
        have : k - s = (k - (s + 1)) + 1 := by omega
        rw [this, List.getElem?_cons_succ] at h2
        exact h2

/-- `measure(mixed=True)`: the real parts of the entries of the evaluated CQ map. -/
theorem measure_mixed_of_eval (c : Circuit D8) (m : CQMap D8)
    (h : c.initAndDiscard.evalMixed = .ok m) :
    c.measure true = .ok (m.toList.map D8.re) := by
  simp only [Circuit.measure, Bool.true_or, if_true, h]

/-- `get_counts()`: the non-zero entries of the same map, keyed by their flat index. -/
theorem getCounts_of_eval (c : Circuit D8) (m : CQMap D8)
    (h : c.initAndDiscard.evalMixed = .ok m) :
    c.getCounts = .ok (((enumFrom 0 m.toList).filter fun p => p.2 != 0).map
      fun p => (p.1, p.2.re)) := by
  simp only [Circuit.getCounts, Circuit.eval, Bool.true_or, if_true, h, Value.entries]

/-- An outcome is listed iff its entry of the distribution is not zero, with that entry's real part. -/
theorem mem_getCounts_iff (c : Circuit D8) (m : CQMap D8) (counts : List (Nat × D8))
    (h : c.initAndDiscard.evalMixed = .ok m) (hc : c.getCounts = .ok counts) (k : Nat) (x : D8) :
    (k, x) ∈ counts ↔ ∃ y, m.toList[k]? = some y ∧ y ≠ 0 ∧ x = y.re := by
  rw [getCounts_of_eval c m h] at hc
  cases hc
  simp only [List.mem_map, List.mem_filter, Prod.mk.injEq, Prod.exists, bne_iff_ne, ne_eq,
    mem_enumFrom, Nat.zero_le, Nat.sub_zero, true_and]
  constructor
  · rintro ⟨a, y, ⟨h1, h2⟩, rfl, rfl⟩
    exact ⟨y, h1, h2, rfl⟩
  · rintro ⟨y, h1, h2, rfl⟩
    exact ⟨k, y, ⟨h1, h2⟩, rfl, rfl⟩

/-- Every index is listed at most once, in increasing order of the index. -/
theorem getCounts_keys_increasing (l : List D8) : ∀ (s : Nat),
    ((((enumFrom s l).filter fun p => p.2 != 0).map fun p => (p.1, p.2.re)).map Prod.fst).Pairwise
      (· < ·) ∧
    ∀ k ∈ ((((enumFrom s l).filter fun p => p.2 != 0).map fun p => (p.1, p.2.re)).map Prod.fst),
      s ≤ k := by
  induction l with
  | nil => intro s; simp [enumFrom]
  | cons x xs ih =>
    intro s
    obtain ⟨p1, p2⟩ := ih (s + 1)
    simp only [enumFrom, List.filter_cons]
    split
    · simp only [List.map_cons, List.pairwise_cons, List.mem_cons, forall_eq_or_imp]
      exact ⟨⟨fun k hk => by have := p2 k hk; omega, p1⟩, Nat.le_refl _,
        fun k hk => by have := p2 k hk; omega⟩
    · exact ⟨p1, fun k hk => by have := p2 k hk; omega⟩

end DV.CQ
