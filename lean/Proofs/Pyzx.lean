/-
  Proofs/Pyzx.lean — lemmas about Model/Pyzx.lean (pyzx export/import of ZX diagrams), for C17.
-/
import Model.Pyzx

namespace DV.Pyzx
open DV

/-! ## list lemmas -/

theorem getElem?_splice {α} (l : List α) (off nIn nOut : Nat) (x : α)
    (h : off + nIn ≤ l.length) (k : Nat) :
    (l.take off ++ List.replicate nOut x ++ l.drop (off + nIn))[k]? =
      if k < off then l[k]? else if k < off + nOut then some x else l[k - nOut + nIn]? := by
  have hoff : min off l.length = off := by omega
  simp only [List.getElem?_append, List.length_append, List.length_take, List.length_replicate,
    List.getElem?_take, List.getElem?_replicate, List.getElem?_drop, hoff]
  by_cases h1 : k < off
  · have : k < off + nOut := by omega
    simp [h1, this]
  · by_cases h2 : k < off + nOut
    · have : k - off < nOut := by omega
      simp [h1, h2, this]
    · simp only [h1, h2, if_false]
      congr 1; omega

theorem getElem?_swap2 {α} (l : List α) (off : Nat) (x y : α)
    (hx : l[off]? = some x) (hy : l[off + 1]? = some y) (k : Nat) :
    (l.take off ++ [y, x] ++ l.drop (off + 2))[k]? =
      if k = off then l[off + 1]? else if k = off + 1 then l[off]? else l[k]? := by
  have hlen : off + 1 < l.length := by
    rcases Nat.lt_or_ge (off + 1) l.length with h | h
    · exact h
    · rw [List.getElem?_eq_none h] at hy; cases hy
  have hoff : min off l.length = off := by omega
  simp only [List.getElem?_append, List.length_append, List.length_take, List.length_cons,
    List.length_nil, List.getElem?_take, List.getElem?_drop, hoff]
  by_cases h1 : k < off
  · have a : k < off + 2 := by omega
    have b : k ≠ off := by omega
    have c : k ≠ off + 1 := by omega
    simp [h1, a, b, c]
  · by_cases h2 : k = off
    · subst h2; simp [hy]
    · by_cases h3 : k = off + 1
      · subst h3
        have e : off + 1 - off = 1 := by omega
        have a : ¬ off + 1 < off := by omega
        simp [e, a, hx]
      · have a : ¬ k < off + (0 + 1 + 1) := by omega
        simp only [h1, h2, h3, a, if_false]
        congr 1; omega

/-! ## `to_pyzx`: the scan tracks the wires -/

def nSpiders (bs : List ZBox) : Nat := (bs.filter ZBox.isSpider).length

/-- Follow wire `k` upwards through the boxes (`b :: prev`: `b` is the LAST box applied, `prev`
    the earlier ones, latest first) to the vertex that produced it, collecting the parity of the
    Hadamard boxes met on the way.  Vertex ids: inputs `0 … dom-1`, then one per spider in order. -/
def producer (dom : Nat) : List ZBox → Nat → Option (Nat × Bool)
  | [], k => if k < dom then some (k, false) else none
  | b :: prev, k =>
    if b.isSpider then
      (if k < b.off then producer dom prev k
       else if k < b.off + b.nOut then some (dom + nSpiders prev, false)
       else producer dom prev (k - b.nOut + b.nIn))
    else if b.kind = .swap then
      (if k = b.off then producer dom prev (b.off + 1)
       else if k = b.off + 1 then producer dom prev b.off else producer dom prev k)
    else if b.kind = .H then
      (if k = b.off then (producer dom prev k).map (fun p => (p.1, !p.2)) else producer dom prev k)
    else producer dom prev k

/-- What the export loop maintains after the boxes `prev` (latest first) at width `w`. -/
structure ExpInv (dom : Nat) (st : ExpState) (prev : List ZBox) (w : Nat) : Prop where
  len : st.scan.length = w
  scan : ∀ k, st.scan[k]? = producer dom prev k
  nverts : st.verts.length = dom + nSpiders prev

theorem expInit_inv (dom : Nat) : ExpInv dom (expInit dom) [] dom := by
  refine ⟨by simp [expInit], ?_, by simp [expInit, nSpiders]⟩
  intro k
  simp only [expInit, producer, List.getElem?_map]
  by_cases h : k < dom <;> simp [h]

/-- The vertex `to_pyzx` creates for a spider in row `row` (zx.py:100-103). -/
def spiderVertex (row : Nat) (b : ZBox) : Vertex :=
  ⟨vtypeOf b.kind, b.phase.export, (b.off : Int), (row : Int) + 1⟩

theorem nSpiders_cons (b : ZBox) (bs : List ZBox) :
    nSpiders (b :: bs) = nSpiders bs + (if b.isSpider then 1 else 0) := by
  unfold nSpiders
  by_cases h : b.isSpider <;> simp [h]

/-- One box of a well-typed diagram: never an `IndexError`, and the invariant moves on. -/
theorem stepBox_inv {dom : Nat} {st : ExpState} {prev : List ZBox} {w : Nat} (row : Nat) (b : ZBox)
    (inv : ExpInv dom st prev w) (hs : b.shaped = true) (hr : b.off + b.nIn ≤ w) :
    ∃ st', stepBox st row b = .ok st' ∧ ExpInv dom st' (b :: prev) (w - b.nIn + b.nOut) ∧
      st'.edges = st.edges ++
        (if b.isSpider then spiderEdges st.scan b.off b.nIn st.verts.length else []) ∧
      st'.verts = st.verts ++ (if b.isSpider then [spiderVertex row b] else []) ∧
      st'.scalar = (if b.kind = .scalar then st.scalar.mul b.sc else st.scalar) := by
  obtain ⟨hlen, hscan, hnv⟩ := inv
  have spider : b.isSpider = true → ∃ st', stepSpider st row b = .ok st' ∧
      ExpInv dom st' (b :: prev) (w - b.nIn + b.nOut) ∧
      st'.edges = st.edges ++ spiderEdges st.scan b.off b.nIn st.verts.length ∧
      st'.verts = st.verts ++ [spiderVertex row b] ∧ st'.scalar = st.scalar := by
    intro hsp
    have hne : ¬ (b.nIn ≠ 0 ∧ st.scan.length < b.off + b.nIn) := by omega
    refine ⟨{ verts := st.verts ++ [spiderVertex row b]
              edges := st.edges ++ spiderEdges st.scan b.off b.nIn st.verts.length
              scalar := st.scalar
              scan := st.scan.take b.off ++ List.replicate b.nOut (st.verts.length, false)
                ++ st.scan.drop (b.off + b.nIn) },
      by simp only [stepSpider, hne, if_false, spiderVertex], ⟨?_, ?_, ?_⟩, rfl, rfl, rfl⟩
    · simp only [List.length_append, List.length_take, List.length_replicate, List.length_drop]
      omega
    · intro k
      rw [getElem?_splice _ _ _ _ _ (by omega)]
      simp only [producer, hsp, if_true, hnv]
      by_cases h1 : k < b.off
      · simp [h1, hscan]
      · by_cases h2 : k < b.off + b.nOut
        · simp [h1, h2]
        · simp [h1, h2, hscan]
    · simp [nSpiders_cons, hsp, hnv]; omega
  cases hk : b.kind
  case Z =>
    have hsp : b.isSpider = true := by simp [ZBox.isSpider, hk]
    obtain ⟨st', h1, h2, h3, h4, h5⟩ := spider hsp
    exact ⟨st', by simp [stepBox, hk, h1], h2, by simp [hsp, h3], by simp [hsp, h4], by simp [h5]⟩
  case X =>
    have hsp : b.isSpider = true := by simp [ZBox.isSpider, hk]
    obtain ⟨st', h1, h2, h3, h4, h5⟩ := spider hsp
    exact ⟨st', by simp [stepBox, hk, h1], h2, by simp [hsp, h3], by simp [hsp, h4], by simp [h5]⟩
  case scalar =>
    have hsp : b.isSpider = false := by simp [ZBox.isSpider, hk]
    have hio : b.nIn = 0 ∧ b.nOut = 0 := by simpa [ZBox.shaped, hk] using hs
    refine ⟨{ st with scalar := st.scalar.mul b.sc }, by simp only [stepBox, hk], ⟨?_, ?_, ?_⟩,
      by simp [hsp], by simp [hsp], by simp⟩
    · simp [hlen, hio.1, hio.2]
    · intro k; simp [producer, hsp, hk, hscan]
    · simp [nSpiders_cons, hsp, hnv]
  case H =>
    have hsp : b.isSpider = false := by simp [ZBox.isSpider, hk]
    have hio : b.nIn = 1 ∧ b.nOut = 1 := by simpa [ZBox.shaped, hk] using hs
    have hlt : b.off < st.scan.length := by omega
    have hget : st.scan[b.off]? = some st.scan[b.off] := List.getElem?_eq_getElem hlt
    refine ⟨{ st with scan := st.scan.set b.off (st.scan[b.off].1, !st.scan[b.off].2) },
      by simp only [stepBox, hk, stepH, hget], ⟨?_, ?_, ?_⟩, by simp [hsp], by simp [hsp], by simp⟩
    · simp [hlen, hio.1, hio.2]; omega
    · intro k
      simp only [producer, hsp, hk, List.getElem?_set]
      by_cases h1 : k = b.off
      · subst h1; simp [hlt, ← hscan]
      · have : ¬ b.off = k := fun h => h1 h.symm
        simp [h1, this, hscan]
    · simp [nSpiders_cons, hsp, hnv]
  case swap =>
    have hsp : b.isSpider = false := by simp [ZBox.isSpider, hk]
    have hio : b.nIn = 2 ∧ b.nOut = 2 := by simpa [ZBox.shaped, hk] using hs
    have hlt : b.off + 1 < st.scan.length := by omega
    have hx : st.scan[b.off]? = some st.scan[b.off] := List.getElem?_eq_getElem (by omega)
    have hy : st.scan[b.off + 1]? = some st.scan[b.off + 1] := List.getElem?_eq_getElem hlt
    refine ⟨{ st with scan := st.scan.take b.off ++ [st.scan[b.off + 1], st.scan[b.off]]
                ++ st.scan.drop (b.off + 2) },
      by simp only [stepBox, hk, stepSwap, hx, hy], ⟨?_, ?_, ?_⟩, by simp [hsp], by simp [hsp], by simp⟩
    · simp only [List.length_append, List.length_take, List.length_drop, List.length_cons,
        List.length_nil]
      omega
    · intro k
      rw [getElem?_swap2 _ _ _ _ hx hy]
      simp only [producer, hsp, hk, hscan]
      simp
    · simp [nSpiders_cons, hsp, hnv]

/-! ## `to_pyzx`: closed form of the exported graph -/

def producerD (dom : Nat) (prev : List ZBox) (k : Nat) : Nat × Bool :=
  (producer dom prev k).getD (0, false)

def mkEdge (p : Nat × Bool) (t : Nat) : Edge := ⟨p.1, t, etypeOf p.2⟩

/-- Spider vertices in box order; `row` is the index of the first box of the list. -/
def specVerts : Nat → List ZBox → List Vertex
  | _, [] => []
  | row, b :: bs => (if b.isSpider then [spiderVertex row b] else []) ++ specVerts (row + 1) bs

/-- One edge per spider input leg: from the producer of the wire (traced upwards, with the parity
    of the H boxes on it as the edge type) to the spider. -/
def specEdges (dom : Nat) : List ZBox → List ZBox → List Edge
  | _, [] => []
  | prev, b :: bs =>
    (if b.isSpider then
      (List.range b.nIn).map (fun j => mkEdge (producerD dom prev (b.off + j)) (dom + nSpiders prev))
     else []) ++ specEdges dom (b :: prev) bs

def specScalar : Gauss → List ZBox → Gauss
  | s, [] => s
  | s, b :: bs => specScalar (if b.kind = .scalar then s.mul b.sc else s) bs

theorem spiderEdges_eq {dom : Nat} {st : ExpState} {prev : List ZBox} {w : Nat}
    (inv : ExpInv dom st prev w) (off nIn node : Nat) (hr : off + nIn ≤ w) :
    spiderEdges st.scan off nIn node =
      (List.range nIn).map (fun j => mkEdge (producerD dom prev (off + j)) node) := by
  apply List.ext_getElem?
  intro j
  simp only [spiderEdges, List.getElem?_map, List.getElem?_take, List.getElem?_drop]
  by_cases hj : j < nIn
  · have hlt : off + j < st.scan.length := by have := inv.len; omega
    have hp : producer dom prev (off + j) = some st.scan[off + j] := by
      rw [← inv.scan, List.getElem?_eq_getElem hlt]
    simp [hj, List.getElem?_eq_getElem hlt, producerD, hp, mkEdge]
  · have : nIn ≤ j := by omega
    simp [hj]

/-- The whole box loop (zx.py:98-119) on a well-typed box list. -/
theorem stepBoxes_spec {dom : Nat} (bs : List ZBox) :
    ∀ {st : ExpState} {prev : List ZBox} {w c : Nat} (row : Nat),
      ExpInv dom st prev w → widthAfter w bs = some c →
      ∃ st', stepBoxes st row bs = .ok st' ∧ ExpInv dom st' (bs.reverse ++ prev) c ∧
        st'.edges = st.edges ++ specEdges dom prev bs ∧
        st'.verts = st.verts ++ specVerts row bs ∧
        st'.scalar = specScalar st.scalar bs := by
  induction bs with
  | nil =>
    intro st prev w c row inv hw
    simp only [widthAfter, Option.some.injEq] at hw
    subst hw
    exact ⟨st, rfl, by simpa using inv, by simp [specEdges], by simp [specVerts], rfl⟩
  | cons b bs ih =>
    intro st prev w c row inv hw
    simp only [widthAfter] at hw
    split at hw
    case isFalse => cases hw
    case isTrue hb =>
      obtain ⟨st1, h1, inv1, he1, hv1, hs1⟩ := stepBox_inv row b inv hb.1 hb.2
      obtain ⟨st2, h2, inv2, he2, hv2, hs2⟩ := ih (row + 1) inv1 hw
      refine ⟨st2, by simp only [stepBoxes, h1, h2], by simpa using inv2, ?_, ?_, ?_⟩
      · rw [he2, he1, specEdges, List.append_assoc]
        congr 2
        by_cases hsp : b.isSpider = true
        · simp only [hsp, if_true]
          rw [spiderEdges_eq inv _ _ _ hb.2, inv.nverts]
        · simp [hsp]
      · rw [hv2, hv1, specVerts, List.append_assoc]
      · rw [hs2, hs1, specScalar]

/-- The graph `to_pyzx` returns for a well-typed diagram, written with `producer` only. -/
def specGraph (d : ZDiagram) : Graph :=
  { verts := (List.range d.dom).map (fun (i : Nat) => (⟨.boundary, ⟨0, 1⟩, (i : Int), 0⟩ : Vertex))
      ++ specVerts 0 d.boxes
      ++ (List.range d.cod).map
          (fun (i : Nat) => (⟨.boundary, ⟨0, 1⟩, (i : Int), (d.boxes.length : Int) + 1⟩ : Vertex))
    edges := specEdges d.dom [] d.boxes ++ (List.range d.cod).map
      (fun i => mkEdge (producerD d.dom d.boxes.reverse i) (d.dom + nSpiders d.boxes + i))
    inputs := List.range d.dom
    outputs := (List.range d.cod).map (d.dom + nSpiders d.boxes + ·)
    scalar := specScalar Gauss.one d.boxes }

theorem nSpiders_reverse (bs : List ZBox) : nSpiders bs.reverse = nSpiders bs := by
  simp [nSpiders, List.filter_reverse]

theorem outEdges_eq {dom : Nat} {st : ExpState} {prev : List ZBox} {c : Nat}
    (inv : ExpInv dom st prev c) (base : Nat) :
    outEdges st.scan c base =
      (List.range c).map (fun i => mkEdge (producerD dom prev i) (base + i)) := by
  apply List.ext_getElem?
  intro j
  simp only [outEdges, List.getElem?_map, List.getElem?_zipIdx, List.getElem?_take]
  by_cases hj : j < c
  · have hlt : j < st.scan.length := by have := inv.len; omega
    have hp : producer dom prev j = some st.scan[j] := by
      rw [← inv.scan, List.getElem?_eq_getElem hlt]
    simp [hj, List.getElem?_eq_getElem hlt, producerD, hp, mkEdge]
  · have : c ≤ j := by omega
    simp [hj]

/-- `to_pyzx` never raises on a well-typed diagram and returns `specGraph`. -/
theorem toPyzx_spec (d : ZDiagram) (h : d.WF) : toPyzx d = .ok (specGraph d) := by
  obtain ⟨st, h1, inv, he, hv, hs⟩ := stepBoxes_spec d.boxes 0 (expInit_inv d.dom) h
  have hnl : ¬ st.scan.length < d.cod := by have := inv.len; omega
  have hn : st.verts.length = d.dom + nSpiders d.boxes := by
    have := inv.nverts
    simpa [nSpiders_reverse] using this
  simp only [toPyzx, expRun, h1, expFinish, hnl, if_false, specGraph]
  congr 2
  · rw [hv]; simp [expInit]
  · rw [he, outEdges_eq inv, hn]; simp [expInit]
  · rw [hn]

/-! ## `to_pyzx`: every vertex gets as many edges as it has legs -/

/-- Number of `add_edge` requests touching `v`. -/
def incident (es : List Edge) (v : Nat) : Nat := es.countP (fun e => e.s == v || e.t == v)

/-- Number of open wires currently produced by `v`. -/
def openLegs (scan : Scan) (v : Nat) : Nat := (scan.map Prod.fst).count v

/-- Legs of the vertex `v` after the boxes `prev` (latest first): 1 for an input boundary,
    `n_in + n_out` for a spider. -/
def legsOf (dom : Nat) : List ZBox → Nat → Nat
  | [], v => if v < dom then 1 else 0
  | b :: prev, v =>
    if b.isSpider = true ∧ v = dom + nSpiders prev then b.nIn + b.nOut else legsOf dom prev v

theorem legsOf_fresh (dom : Nat) (prev : List ZBox) (v : Nat) (h : dom + nSpiders prev ≤ v) :
    legsOf dom prev v = 0 := by
  induction prev with
  | nil => simp only [legsOf, nSpiders, List.filter_nil, List.length_nil] at *; split <;> omega
  | cons b prev ih =>
    rw [nSpiders_cons] at h
    simp only [legsOf]
    split
    · rename_i hc; have := hc.2; simp [hc.1] at h; omega
    · exact ih (by omega)

structure DegInv (dom : Nat) (st : ExpState) (prev : List ZBox) : Prop where
  labels : ∀ p ∈ st.scan, p.1 < st.verts.length
  ends : ∀ e ∈ st.edges, e.s < e.t ∧ e.t < st.verts.length
  deg : ∀ v, incident st.edges v + openLegs st.scan v = legsOf dom prev v

theorem incident_append (a b : List Edge) (v : Nat) :
    incident (a ++ b) v = incident a v + incident b v := by simp [incident, List.countP_append]

theorem openLegs_append (a b : Scan) (v : Nat) :
    openLegs (a ++ b) v = openLegs a v + openLegs b v := by simp [openLegs, List.count_append]

theorem incident_zero_of_lt (es : List Edge) (n v : Nat)
    (h : ∀ e ∈ es, e.s < e.t ∧ e.t < n) (hv : n ≤ v) : incident es v = 0 := by
  simp only [incident, List.countP_eq_zero]
  intro e he
  have := h e he
  simp; omega

theorem openLegs_zero_of_lt (scan : Scan) (n v : Nat)
    (h : ∀ p ∈ scan, p.1 < n) (hv : n ≤ v) : openLegs scan v = 0 := by
  simp only [openLegs]
  apply List.count_eq_zero_of_not_mem
  intro hm
  obtain ⟨p, hp, rfl⟩ := List.mem_map.1 hm
  have := h p hp
  omega

theorem count_range (n v : Nat) : (List.range n).count v = if v < n then 1 else 0 := by
  induction n with
  | zero => simp
  | succ n ih =>
    rw [List.range_succ, List.count_append, ih]
    by_cases h1 : v < n
    · have : ¬ n = v := by omega
      have h2 : v < n + 1 := by omega
      simp [h1, h2, this]
    · by_cases h2 : v = n
      · subst h2; simp
      · have h3 : ¬ v < n + 1 := by omega
        have : ¬ n = v := fun h => h2 h.symm
        simp [h1, h3, this]

theorem expInit_deg (dom : Nat) : DegInv dom (expInit dom) [] := by
  refine ⟨?_, by simp [expInit], ?_⟩
  · intro p hp
    simp only [expInit, List.mem_map, List.mem_range] at hp
    obtain ⟨i, hi, rfl⟩ := hp
    simpa [expInit] using hi
  · intro v
    simp only [expInit, incident, List.countP_nil, Nat.zero_add, openLegs, List.map_map, legsOf]
    have : (Prod.fst ∘ fun i => (i, false)) = (id : Nat → Nat) := rfl
    rw [this, List.map_id]
    exact count_range dom v

theorem scan_split (scan : Scan) (off nIn : Nat) :
    scan = scan.take off ++ (scan.drop off).take nIn ++ scan.drop (off + nIn) := by
  rw [← List.take_add, List.take_append_drop]

theorem stepBox_deg {dom : Nat} {st st' : ExpState} {prev : List ZBox} {w : Nat} (row : Nat)
    (b : ZBox) (inv : ExpInv dom st prev w) (dinv : DegInv dom st prev) (_hs : b.shaped = true)
    (hr : b.off + b.nIn ≤ w) (h : stepBox st row b = .ok st') : DegInv dom st' (b :: prev) := by
  obtain ⟨hlen, _, hnv⟩ := inv
  obtain ⟨hlab, hends, hdeg⟩ := dinv
  have spider : b.isSpider = true → stepSpider st row b = .ok st' → DegInv dom st' (b :: prev) := by
    intro hsp h
    have hne : ¬ (b.nIn ≠ 0 ∧ st.scan.length < b.off + b.nIn) := by omega
    simp only [stepSpider, hne, if_false, Except.ok.injEq] at h
    subst h
    have hC : ((st.scan.drop b.off).take b.nIn).length = b.nIn := by
      simp only [List.length_take, List.length_drop]; omega
    refine ⟨?_, ?_, ?_⟩
    · intro p hp
      simp only [List.mem_append, List.mem_replicate, List.length_append, List.length_cons,
        List.length_nil] at hp ⊢
      rcases hp with (hp | hp) | hp
      · have := hlab p (List.mem_of_mem_take hp); omega
      · rw [hp.2]; simp
      · have := hlab p (List.mem_of_mem_drop hp); omega
    · intro e he
      simp only [List.mem_append, spiderEdges, List.mem_map, List.length_append, List.length_cons,
        List.length_nil] at he ⊢
      rcases he with he | ⟨sh, hsh, rfl⟩
      · have := hends e he; omega
      · have := hlab sh (List.mem_of_mem_drop (List.mem_of_mem_take hsh))
        simp; omega
    · intro v
      have hsplit := scan_split st.scan b.off b.nIn
      have hopen : openLegs st.scan v = openLegs (st.scan.take b.off) v
          + openLegs ((st.scan.drop b.off).take b.nIn) v
          + openLegs (st.scan.drop (b.off + b.nIn)) v := by
        conv => lhs; rw [hsplit]
        simp only [openLegs_append]
      simp only [incident_append, openLegs_append, legsOf, hsp, true_and]
      by_cases hv : v = dom + nSpiders prev
      · subst hv
        have h0 := hdeg (dom + nSpiders prev)
        rw [legsOf_fresh dom prev _ (Nat.le_refl _)] at h0
        have hi : incident (spiderEdges st.scan b.off b.nIn st.verts.length) (dom + nSpiders prev)
            = b.nIn := by
          simp only [incident, spiderEdges, List.countP_map]
          conv => rhs; rw [← hC]
          apply List.countP_eq_length.2
          intro a _
          simp [hnv]
        have ho : openLegs (List.replicate b.nOut (st.verts.length, false)) (dom + nSpiders prev)
            = b.nOut := by simp [openLegs, hnv]
        simp only [if_true, hi, ho]
        omega
      · have hi : incident (spiderEdges st.scan b.off b.nIn st.verts.length) v
            = openLegs ((st.scan.drop b.off).take b.nIn) v := by
          simp only [incident, spiderEdges, List.countP_map, openLegs, List.count_eq_countP]
          congr 1
          funext sh
          have : (st.verts.length == v) = false := by simp [hnv]; omega
          simp [this]
        have ho : openLegs (List.replicate b.nOut (st.verts.length, false)) v = 0 := by
          simp only [openLegs]
          apply List.count_eq_zero_of_not_mem
          intro hm
          obtain ⟨q, hq, hq'⟩ := List.mem_map.1 hm
          have := (List.mem_replicate.1 hq).2
          subst this
          exact hv (by rw [← hq', hnv])
        simp only [hv, if_false, hi, ho]
        have := hdeg v
        omega
  have keep : b.isSpider = false → st'.verts = st.verts → st'.edges = st.edges →
      (st'.scan.map Prod.fst).Perm (st.scan.map Prod.fst) → DegInv dom st' (b :: prev) := by
    intro hsp hv he hp
    refine ⟨?_, by rw [he, hv]; exact hends, ?_⟩
    · intro p hp'
      have : p.1 ∈ st.scan.map Prod.fst := hp.mem_iff.1 (List.mem_map_of_mem hp')
      obtain ⟨q, hq, hq'⟩ := List.mem_map.1 this
      rw [hv, ← hq']; exact hlab q hq
    · intro v
      simp only [legsOf, hsp, Bool.false_eq_true, false_and, if_false, he, openLegs]
      rw [hp.count_eq]
      exact hdeg v
  cases hk : b.kind
  case Z => exact spider (by simp [ZBox.isSpider, hk]) (by simpa [stepBox, hk] using h)
  case X => exact spider (by simp [ZBox.isSpider, hk]) (by simpa [stepBox, hk] using h)
  case scalar =>
    simp only [stepBox, hk, Except.ok.injEq] at h
    subst h
    exact keep (by simp [ZBox.isSpider, hk]) rfl rfl (List.Perm.refl _)
  case H =>
    simp only [stepBox, hk, stepH] at h
    split at h
    case h_2 => cases h
    case h_1 x hx =>
      simp only [Except.ok.injEq] at h
      subst h
      refine keep (by simp [ZBox.isSpider, hk]) rfl rfl ?_
      have hlt : b.off < st.scan.length := by
        rcases Nat.lt_or_ge b.off st.scan.length with h | h
        · exact h
        · rw [List.getElem?_eq_none h] at hx; cases hx
      have hx' : st.scan[b.off] = x := by
        rw [List.getElem?_eq_getElem hlt] at hx; exact Option.some.inj hx
      have : (st.scan.set b.off (x.1, !x.2)).map Prod.fst = st.scan.map Prod.fst := by
        rw [List.map_set]
        have h2 : b.off < (st.scan.map Prod.fst).length := by simpa using hlt
        have h3 : (st.scan.map Prod.fst)[b.off] = x.1 := by simp [hx']
        rw [← h3, List.set_getElem_self]
      simp only [this]; exact List.Perm.refl _
  case swap =>
    simp only [stepBox, hk, stepSwap] at h
    split at h
    case h_2 => cases h
    case h_1 x y hx hy =>
      simp only [Except.ok.injEq] at h
      subst h
      refine keep (by simp [ZBox.isSpider, hk]) rfl rfl ?_
      have hlt : b.off + 1 < st.scan.length := by
        rcases Nat.lt_or_ge (b.off + 1) st.scan.length with h | h
        · exact h
        · rw [List.getElem?_eq_none h] at hy; cases hy
      have hx' : st.scan[b.off] = x := by
        rw [List.getElem?_eq_getElem (by omega)] at hx; exact Option.some.inj hx
      have hy' : st.scan[b.off + 1] = y := by
        rw [List.getElem?_eq_getElem hlt] at hy; exact Option.some.inj hy
      have hs1 : st.scan = st.scan.take b.off ++ [x, y] ++ st.scan.drop (b.off + 2) := by
        conv => lhs; rw [← List.take_append_drop b.off st.scan]
        rw [List.drop_eq_getElem_cons (by omega : b.off < st.scan.length),
          List.drop_eq_getElem_cons hlt, hx', hy']
        simp
      conv => rhs; rw [hs1]
      simp only [List.map_append, List.map_cons, List.map_nil]
      refine List.Perm.append_right _ (List.Perm.append_left _ ?_)
      exact List.Perm.swap _ _ _

theorem stepBoxes_deg {dom : Nat} (bs : List ZBox) :
    ∀ {st st' : ExpState} {prev : List ZBox} {w c : Nat} (row : Nat),
      ExpInv dom st prev w → DegInv dom st prev → widthAfter w bs = some c →
      stepBoxes st row bs = .ok st' → DegInv dom st' (bs.reverse ++ prev) := by
  induction bs with
  | nil =>
    intro st st' prev w c row _ dinv _ h
    simp only [stepBoxes, Except.ok.injEq] at h
    subst h; simpa using dinv
  | cons b bs ih =>
    intro st st' prev w c row inv dinv hw h
    simp only [widthAfter] at hw
    split at hw
    case isFalse => cases hw
    case isTrue hb =>
      obtain ⟨st1, h1, inv1, _⟩ := stepBox_inv row b inv hb.1 hb.2
      have d1 := stepBox_deg row b inv dinv hb.1 hb.2 h1
      simp only [stepBoxes, h1] at h
      have := ih (row + 1) inv1 d1 hw h
      simpa using this

theorem deg_eq_incident (g : Graph) (v : Nat) : g.deg v = incident g.edges v := by
  simp only [Graph.deg, Graph.nbrs, List.length_filterMap_eq_countP, incident]
  congr 1
  funext e
  simp only [Edge.other?]
  by_cases h1 : e.s = v
  · simp [h1]
  · by_cases h2 : e.t = v <;> simp [h1, h2]

theorem incident_out_lt (l : Scan) (base v : Nat) (hv : v < base) :
    ∀ k, incident ((l.zipIdx k).map (fun (x : (Nat × Bool) × Nat) =>
        (⟨x.1.1, base + x.2, etypeOf x.1.2⟩ : Edge))) v = openLegs l v := by
  induction l with
  | nil => intro k; simp [incident, openLegs]
  | cons a l ih =>
    intro k
    have := ih (k + 1)
    simp only [incident, openLegs] at this ⊢
    simp only [List.zipIdx_cons, List.map_cons, List.countP_cons, List.count_cons, this]
    have : (base + k == v) = false := by simp; omega
    simp [this]

theorem incident_out_ge (l : Scan) (base i0 : Nat) (hl : ∀ p ∈ l, p.1 < base) :
    ∀ k, incident ((l.zipIdx k).map (fun (x : (Nat × Bool) × Nat) =>
        (⟨x.1.1, base + x.2, etypeOf x.1.2⟩ : Edge))) (base + i0)
      = if k ≤ i0 ∧ i0 < k + l.length then 1 else 0 := by
  induction l with
  | nil => intro k; simp [incident]
  | cons a l ih =>
    intro k
    have h1 := ih (fun p hp => hl p (List.mem_cons_of_mem _ hp)) (k + 1)
    have ha := hl a (List.mem_cons_self)
    simp only [incident] at h1 ⊢
    simp only [List.zipIdx_cons, List.map_cons, List.countP_cons, h1, List.length_cons]
    have e1 : (a.1 == base + i0) = false := by simp; omega
    by_cases hk : k = i0
    · subst hk; simp [e1]; omega
    · have e2 : (base + k == base + i0) = false := by simp; omega
      simp only [e1, e2, Bool.or_self, Bool.false_eq_true, if_false, Nat.add_zero]
      congr 1
      apply propext
      constructor <;> intro h <;> omega

/-- Legs of vertex `v` of the exported graph: 1 for a boundary, `n_in + n_out` for a spider. -/
def vertexLegs (d : ZDiagram) (v : Nat) : Nat :=
  if v < d.dom + nSpiders d.boxes then legsOf d.dom d.boxes.reverse v
  else if v < d.dom + nSpiders d.boxes + d.cod then 1 else 0

theorem toPyzx_degree (d : ZDiagram) (h : d.WF) (v : Nat) :
    (specGraph d).deg v = vertexLegs d v := by
  obtain ⟨st, h1, inv, he, hv, hs⟩ := stepBoxes_spec d.boxes 0 (expInit_inv d.dom) h
  have dinv := stepBoxes_deg d.boxes 0 (expInit_inv d.dom) (expInit_deg d.dom) h h1
  simp only [List.append_nil] at inv dinv
  have hn : st.verts.length = d.dom + nSpiders d.boxes := by
    have := inv.nverts; simpa [nSpiders_reverse] using this
  have hedges : (specGraph d).edges = st.edges ++ outEdges st.scan d.cod st.verts.length := by
    rw [he, outEdges_eq inv, hn]; simp [specGraph, expInit]
  have htake : st.scan.take d.cod = st.scan := List.take_of_length_le (by rw [inv.len]; exact Nat.le_refl _)
  rw [deg_eq_incident, hedges, incident_append]
  simp only [outEdges, htake, vertexLegs, ← hn]
  by_cases hlt : v < st.verts.length
  · rw [incident_out_lt st.scan _ v hlt 0]
    simp only [hlt, if_true]
    exact dinv.deg v
  · obtain ⟨i0, rfl⟩ : ∃ i0, v = st.verts.length + i0 := ⟨v - st.verts.length, by omega⟩
    rw [incident_out_ge st.scan _ i0 dinv.labels 0,
      incident_zero_of_lt st.edges _ _ dinv.ends (by omega)]
    simp only [hlt, if_false, inv.len]
    by_cases hc : i0 < d.cod
    · have : st.verts.length + i0 < st.verts.length + d.cod := by omega
      simp [hc, this]
    · have : ¬ st.verts.length + i0 < st.verts.length + d.cod := by omega
      simp [hc, this]

/-! ## `to_pyzx`: on a simple graph the neighbours of a vertex are distinct -/

theorem mem_nbrs {es : List Edge} {v u : Nat} (h : u ∈ es.filterMap (·.other? v)) :
    ∃ f ∈ es, f.joins v u = true := by
  obtain ⟨f, hf, hfu⟩ := List.mem_filterMap.1 h
  refine ⟨f, hf, ?_⟩
  simp only [Edge.other?] at hfu
  simp only [Edge.joins]
  split at hfu
  · rename_i h1; cases hfu; simp [h1]
  · split at hfu
    · rename_i h2; cases hfu; simp [h2]
    · cases hfu

theorem nbrs_nodup_of_simple (es : List Edge) (h : simpleEdges es = true) (v : Nat) :
    (es.filterMap (·.other? v)).Nodup := by
  induction es with
  | nil => simp
  | cons e es ih =>
    simp only [simpleEdges, Bool.and_eq_true, Bool.not_eq_true', List.any_eq_false] at h
    obtain ⟨⟨_, hno⟩, hrest⟩ := h
    rw [List.filterMap_cons]
    cases ho : e.other? v with
    | none => simpa [ho] using ih hrest
    | some u =>
      simp only [List.nodup_cons]
      refine ⟨?_, ih hrest⟩
      intro hm
      obtain ⟨f, hf, hj⟩ := mem_nbrs hm
      have := hno f hf
      apply this
      simp only [Edge.other?] at ho
      simp only [Edge.joins, Bool.or_eq_true, Bool.and_eq_true, beq_iff_eq] at hj ⊢
      split at ho
      · rename_i h1; cases ho; rcases hj with ⟨a, b⟩ | ⟨a, b⟩
        · left; exact ⟨by omega, by omega⟩
        · right; exact ⟨by omega, by omega⟩
      · split at ho
        · rename_i h2; cases ho; rcases hj with ⟨a, b⟩ | ⟨a, b⟩
          · right; exact ⟨by omega, by omega⟩
          · left; exact ⟨by omega, by omega⟩
        · cases ho

/-! ## `from_pyzx`: the result is well-typed -/

theorem widthAfter_append (w : Nat) (xs ys : List ZBox) :
    widthAfter w (xs ++ ys) = (widthAfter w xs).bind (fun w' => widthAfter w' ys) := by
  induction xs generalizing w with
  | nil => simp [widthAfter]
  | cons b xs ih =>
    simp only [List.cons_append, widthAfter]
    split
    · exact ih _
    · rfl

/-- Boxes that keep the width (`SWAP`, `H`) and lie inside it. -/
theorem widthAfter_same (w : Nat) (bs : List ZBox)
    (h : ∀ b ∈ bs, b.shaped = true ∧ b.nIn = b.nOut ∧ b.off + b.nIn ≤ w) :
    widthAfter w bs = some w := by
  induction bs with
  | nil => rfl
  | cons b bs ih =>
    obtain ⟨h1, h2, h3⟩ := h b (List.mem_cons_self)
    simp only [widthAfter, h1, h3, and_self, if_true]
    have : w - b.nIn + b.nOut = w := by omega
    rw [this]
    exact ih (fun b hb => h b (List.mem_cons_of_mem _ hb))

def AccWF (dom : Nat) (a : Acc) : Prop := widthAfter dom a.boxes = some a.cod

theorem moved_wf {dom : Nat} {a a' : Acc} (fix : Fix) (node source target : Nat)
    (ha : AccWF dom a) (h : a.moved fix node source target = .ok a') :
    AccWF dom a' ∧ a'.cod = a.cod := by
  simp only [Acc.moved] at h
  split at h
  · cases h
  · rename_i hc
    simp only [Except.ok.injEq] at h
    subst h
    refine ⟨?_, rfl⟩
    have ha' : widthAfter dom a.boxes = some a.cod := ha
    simp only [AccWF, widthAfter_append, ha', Option.bind_some]
    apply widthAfter_same
    intro b hb
    obtain ⟨o, ho, rfl⟩ := List.mem_map.1 hb
    refine ⟨rfl, rfl, ?_⟩
    simp only [swapBox]
    simp only [move, ne_eq, Decidable.not_not] at hc ho
    split at ho
    · rename_i hlt
      simp only [hlt, if_true] at hc
      simp only [swapsLeft, List.mem_map, List.mem_range] at ho
      obtain ⟨k, hk, rfl⟩ := ho
      omega
    · split at ho
      · rename_i hge hlt
        simp only [hge, hlt, if_true, if_false] at hc
        simp only [swapsRight, List.mem_map, List.mem_range] at ho
        obtain ⟨k, hk, rfl⟩ := ho
        omega
      · simp at ho

theorem adjLoop_wf {dom : Nat} (fix : Fix) (node offset : Nat) (vs : List Nat) :
    ∀ {a a' : Acc} (i : Nat), AccWF dom a → adjLoop fix node offset a i vs = .ok a' →
      AccWF dom a' ∧ a'.cod = a.cod := by
  induction vs with
  | nil => intro a a' i ha h; simp only [adjLoop, Except.ok.injEq] at h; subst h; exact ⟨ha, rfl⟩
  | cons v vs ih =>
    intro a a' i ha h
    simp only [adjLoop] at h
    split at h
    · cases h
    · split at h
      · cases h
      · rename_i a1 hm
        obtain ⟨w1, c1⟩ := moved_wf fix _ _ _ ha hm
        obtain ⟨w2, c2⟩ := ih (i + 1) w1 h
        exact ⟨w2, by rw [c2, c1]⟩

theorem makeWiresAdjacent_wf {dom : Nat} (fix : Fix) (node : Nat) {a a' : Acc} {offset : Nat}
    (inputs : List Nat) (ha : AccWF dom a)
    (h : makeWiresAdjacent fix node a inputs = .ok (a', offset)) :
    AccWF dom a' ∧ a'.cod = a.cod := by
  cases inputs with
  | nil =>
    simp only [makeWiresAdjacent, Except.ok.injEq, Prod.mk.injEq] at h
    obtain ⟨rfl, _⟩ := h; exact ⟨ha, rfl⟩
  | cons v vs =>
    simp only [makeWiresAdjacent] at h
    split at h
    · cases h
    · split at h
      · cases h
      · rename_i a1 hl
        simp only [Except.ok.injEq, Prod.mk.injEq] at h
        obtain ⟨rfl, _⟩ := h
        exact adjLoop_wf fix node _ vs 0 ha hl

theorem hadamardBoxes_mem {g : Graph} {node offset : Nat} {labels : List Nat} {b : ZBox}
    (h : b ∈ hadamardBoxes g node offset labels) :
    ∃ j, j < labels.length ∧ b = hBox (offset + j) := by
  simp only [hadamardBoxes, List.mem_filterMap] at h
  obtain ⟨⟨v, j⟩, hm, hb⟩ := h
  have hj : j < labels.length := by
    have := List.mem_zipIdx hm
    simpa using this.2.1
  split at hb
  · cases hb; exact ⟨j, hj, rfl⟩
  · cases hb

theorem placeSpider_wf {dom : Nat} {g : Graph} {node : Nat} {a a' : Acc} {offset nIn nOut : Nat}
    (ha : AccWF dom a) (h : placeSpider g node a offset nIn nOut = .ok a') : AccWF dom a' := by
  simp only [placeSpider] at h
  split at h
  · cases h
  · rename_i box hbox
    split at h
    · cases h
    · rename_i hc
      simp only [ne_eq, Decidable.not_not] at hc
      simp only [Except.ok.injEq] at h
      subst h
      have hshape : box.shaped = true ∧ box.nIn = nIn ∧ box.nOut = nOut ∧ box.off = offset := by
        simp only [node2box] at hbox
        split at hbox <;> first | (simp only [Except.ok.injEq] at hbox; subst hbox; simp [ZBox.shaped]) | cases hbox
      obtain ⟨s1, s2, s3, s4⟩ := hshape
      have ha' : widthAfter dom a.boxes = some a.cod := ha
      simp only [AccWF, List.append_assoc, widthAfter_append, ha', Option.bind_some]
      rw [widthAfter_same a.cod]
      · simp only [Option.bind_some, widthAfter, s1, s2, s3, s4]
        have : offset + nIn ≤ a.cod := by omega
        simp only [this, and_self, if_true]
        congr 1; omega
      · intro b hb
        obtain ⟨j, hj, rfl⟩ := hadamardBoxes_mem hb
        refine ⟨rfl, rfl, ?_⟩
        simp only [hBox, List.length_take, List.length_drop] at hj ⊢
        omega

theorem importNode_wf {dom : Nat} (fix : Fix) (g : Graph) {a a' : Acc} (node : Nat)
    (ha : AccWF dom a) (h : importNode fix g a node = .ok a') : AccWF dom a' := by
  simp only [importNode] at h
  split at h
  · cases h
  · split at h
    · cases h
    · rename_i a1 offset hm
      exact placeSpider_wf (makeWiresAdjacent_wf fix node _ ha hm).1 h

theorem importNodes_wf {dom : Nat} (fix : Fix) (g : Graph) (vs : List Nat) :
    ∀ {a a' : Acc}, AccWF dom a → importNodes fix g a vs = .ok a' → AccWF dom a' := by
  induction vs with
  | nil => intro a a' ha h; simp only [importNodes, Except.ok.injEq] at h; subst h; exact ha
  | cons v vs ih =>
    intro a a' ha h
    simp only [importNodes] at h
    split at h
    · cases h
    · rename_i a1 h1
      exact ih (importNode_wf fix g v ha h1) h

theorem importOutput_wf {dom : Nat} (fix : Fix) (g : Graph) {a a' : Acc} (target output : Nat)
    (ha : AccWF dom a) (h : importOutput fix g a target output = .ok a') : AccWF dom a' := by
  simp only [importOutput] at h
  split at h
  · split at h
    · cases h
    · split at h
      · cases h
      · rename_i a1 hm
        obtain ⟨w1, _⟩ := moved_wf fix _ _ _ ha hm
        split at h
        · cases h
        · rename_i hc
          simp only [ne_eq, Decidable.not_not] at hc
          simp only [Except.ok.injEq] at h
          subst h
          have w1' : widthAfter dom a1.boxes = some a1.cod := w1
          simp only [AccWF, widthAfter_append, w1', Option.bind_some]
          split
          · simp only [widthAfter, hBox, ZBox.shaped, beq_self_eq_true, Bool.and_self, true_and]
            have : target + 1 ≤ a1.cod := by omega
            simp only [this, if_true]
            congr 1; omega
          · rfl
  · cases h

theorem importOutputs_wf {dom : Nat} (fix : Fix) (g : Graph) (os : List Nat) :
    ∀ {a a' : Acc} (target : Nat), AccWF dom a → importOutputs fix g a target os = .ok a' →
      AccWF dom a' := by
  induction os with
  | nil => intro a a' t ha h; simp only [importOutputs, Except.ok.injEq] at h; subst h; exact ha
  | cons o os ih =>
    intro a a' t ha h
    simp only [importOutputs] at h
    split at h
    · cases h
    · rename_i a1 h1
      exact ih (t + 1) (importOutput_wf fix g t o ha h1) h

/-- Whatever `from_pyzx` returns is a well-typed diagram on `len(graph.inputs)` wires — for the
    tree and for every combination of the proposed repairs, and for EVERY graph. -/
theorem fromPyzxWith_wf (fix : Fix) (g : Graph) (d : ZDiagram)
    (h : fromPyzxWith fix g = .ok d) : d.WF ∧ d.dom = g.inputs.length := by
  simp only [fromPyzxWith] at h
  split at h
  · cases h
  · split at h
    · cases h
    · split at h
      · cases h
      · rename_i a h1
        split at h
        · cases h
        · rename_i a' h2
          simp only [Except.ok.injEq] at h
          subst h
          have w0 : AccWF g.inputs.length ⟨[], g.inputs.length, g.inputs⟩ := rfl
          exact ⟨importOutputs_wf fix g _ 0 (importNodes_wf fix g _ w0 h1) h2, rfl⟩

/-! ## `from_pyzx`: refusal of undeclared / shared boundaries -/

theorem missingBoundary_iff (g : Graph) :
    missingBoundary g = true ↔
      ∃ v, ∃ _ : v < g.verts.length, (g.verts[v]).ty = .boundary ∧ v ∉ g.inputs ∧ v ∉ g.outputs := by
  simp only [missingBoundary, List.any_eq_true, Bool.and_eq_true, beq_iff_eq, Bool.not_eq_true',
    List.contains_eq_mem, List.mem_append, decide_eq_false_iff_not, not_or, Prod.exists]
  constructor
  · rintro ⟨a, i, hm, hty, hni⟩
    obtain ⟨_, hi, hget⟩ := List.mem_zipIdx hm
    simp only [Nat.zero_add, Nat.sub_zero] at hi hget
    exact ⟨i, hi, by rw [← hget]; exact hty, hni⟩
  · rintro ⟨v, hv, hty, hni⟩
    refine ⟨g.verts[v], v, ?_, hty, hni⟩
    have := List.mk_mem_zipIdx_iff_getElem? (l := g.verts) (i := v) (x := g.verts[v])
    simpa using this.2 (List.getElem?_eq_getElem hv)

theorem duplicateBoundary_iff (g : Graph) :
    duplicateBoundary g = true ↔ ∃ v, v ∈ g.inputs ∧ v ∈ g.outputs := by
  simp [duplicateBoundary, List.any_eq_true]

theorem fromPyzxWith_refuses (fix : Fix) (g : Graph)
    (h : missingBoundary g = true ∨ duplicateBoundary g = true) :
    fromPyzxWith fix g = .error .value := by
  simp only [fromPyzxWith]
  rcases h with h | h
  · simp [h]
  · by_cases h' : missingBoundary g = true <;> simp [h, h']

/-! ## `move`: what the swaps do to the wires, and what the bookkeeping says -/

/-- Exchange positions `o` and `o + 1` (the action of one `SWAP` box at offset `o` on the wires). -/
def swapAt {α} (o : Nat) (l : List α) : List α :=
  match l[o]?, l[o + 1]? with
  | some x, some y => (l.set o y).set (o + 1) x
  | _, _ => l

def applySwaps {α} : List Nat → List α → List α
  | [], l => l
  | o :: os, l => applySwaps os (swapAt o l)

theorem length_swapAt {α} (o : Nat) (l : List α) : (swapAt o l).length = l.length := by
  simp only [swapAt]; split <;> simp

theorem getElem?_swapAt {α} (o : Nat) (l : List α) (h : o + 1 < l.length) (k : Nat) :
    (swapAt o l)[k]? = if k = o then l[o + 1]? else if k = o + 1 then l[o]? else l[k]? := by
  have hx : l[o]? = some l[o] := List.getElem?_eq_getElem (by omega)
  have hy : l[o + 1]? = some l[o + 1] := List.getElem?_eq_getElem h
  simp only [swapAt, hx, hy, List.getElem?_set, List.length_set]
  by_cases h1 : k = o
  · subst h1
    simp; omega
  · by_cases h2 : k = o + 1
    · subst h2; simp [h]
    · have a : ¬ o + 1 = k := fun h => h2 h.symm
      have b : ¬ o = k := fun h => h1 h.symm
      simp [h1, h2, a, b]

theorem swapsLeft_succ (s t : Nat) (h : t ≤ s) : swapsLeft (s + 1) t = s :: swapsLeft s t := by
  simp only [swapsLeft]
  have : s + 1 - t = (s - t) + 1 := by omega
  rw [this, List.range_succ_eq_map]
  simp only [List.map_cons, List.map_map, Nat.add_sub_cancel, Nat.sub_zero, List.cons.injEq, true_and]
  apply List.map_congr_left
  intro k hk
  simp only [List.mem_range] at hk
  simp only [Function.comp]
  omega

theorem swapsLeft_self (t : Nat) : swapsLeft t t = [] := by simp [swapsLeft]

/-- The swaps of a left move carry the wire at `source` to `target` and shift the wires in
    between one place to the right; all other wires stay. -/
theorem applySwaps_swapsLeft {α} (t : Nat) : ∀ (s : Nat) (l : List α), t ≤ s → s < l.length →
    ∀ k, (applySwaps (swapsLeft s t) l)[k]? =
      if k < t then l[k]? else if k = t then l[s]? else if k ≤ s then l[k - 1]? else l[k]? := by
  intro s
  induction s with
  | zero =>
    intro l ht _ k
    have : t = 0 := by omega
    subst this
    simp only [swapsLeft_self, applySwaps]
    by_cases h : k = 0
    · simp [h]
    · have : ¬ k ≤ 0 := by omega
      simp [h, this]
  | succ s ih =>
    intro l ht hs k
    by_cases hts : t = s + 1
    · subst hts
      simp only [swapsLeft_self, applySwaps]
      by_cases h1 : k < s + 1
      · simp [h1]
      · by_cases h2 : k = s + 1
        · simp [h2]
        · have : ¬ k ≤ s + 1 := by omega
          simp [h1, h2, this]
    · have ht' : t ≤ s := by omega
      rw [swapsLeft_succ s t ht']
      simp only [applySwaps]
      rw [ih (swapAt s l) ht' (by rw [length_swapAt]; omega)]
      simp only [getElem?_swapAt s l hs]
      by_cases h1 : k < t
      · have a : k ≠ s := by omega
        have b : k ≠ s + 1 := by omega
        simp [h1, a, b]
      · by_cases h2 : k = t
        · subst h2; simp
        · by_cases h3 : k ≤ s
          · have a : k - 1 ≠ s := by omega
            have b : k - 1 ≠ s + 1 := by omega
            have c : k ≤ s + 1 := by omega
            simp [h1, h2, h3, a, b, c]
          · by_cases h4 : k = s + 1
            · subst h4; simp [h1, h2, h3]
            · have a : k ≠ s := by omega
              have c : ¬ k ≤ s + 1 := by omega
              simp [h1, h2, h3, h4, a, c]

/-- `move` with `source = target` does nothing (zx.py:170-171). -/
theorem move_same (fix : Fix) (node : Nat) (scan : List Nat) (p : Nat) :
    move fix node scan p p = (scan, [], scan.length) := by
  simp [move]

/-- `move` for `target < source` (the only other case `make_wires_adjacent` produces): the
    diagram `swaps` has the width of the scan, and the new scan is what the swaps do to the wires —
    except that the entry at `target` is relabelled `node` by the code in the tree. -/
theorem move_left_spec (fix : Fix) (node : Nat) (scan : List Nat) (source target : Nat)
    (hlt : target < source) (h2 : source < scan.length) :
    (move fix node scan source target).2.2 = scan.length ∧
    (move fix node scan source target).2.1 = swapsLeft source target ∧
    ∀ k, (move fix node scan source target).1[k]? =
      if k = target then some (if fix.moveLabel then scan.getD source node else node)
      else (applySwaps (swapsLeft source target) scan)[k]? := by
  refine ⟨by simp only [move, hlt, if_true]; omega, by simp only [move, hlt, if_true], ?_⟩
  intro k
  rw [applySwaps_swapsLeft target source scan (by omega) h2]
  simp only [move, hlt, if_true]
  have hmin : min target scan.length = target := by omega
  simp only [List.getElem?_append, List.length_append, List.length_take, List.length_cons,
    List.length_nil, List.length_drop, List.getElem?_take, List.getElem?_drop, hmin]
  have hmin2 : min (source - target) (scan.length - target) = source - target := by omega
  simp only [hmin2]
  by_cases c1 : k < target
  · have a : k ≠ target := by omega
    have b : k < target + (0 + 1) := by omega
    have c : k < target + (0 + 1) + (source - target) := by omega
    simp [c1, a, b, c]
  · by_cases c2 : k = target
    · subst c2
      have b : k < k + (0 + 1) := by omega
      have c : k < k + (0 + 1) + (source - k) := by omega
      simp [b, c]
    · by_cases c3 : k ≤ source
      · have b : ¬ k < target + (0 + 1) := by omega
        have c : k < target + (0 + 1) + (source - target) := by omega
        have d : k - (target + (0 + 1)) < source - target := by omega
        simp only [c1, c2, c3, b, c, d, if_true, if_false]
        congr 1; omega
      · have b : ¬ k < target + (0 + 1) := by omega
        have c : ¬ k < target + (0 + 1) + (source - target) := by omega
        simp only [c1, c2, c3, b, c, if_false]
        congr 1; omega

/-- With the repaired label the bookkeeping of a left move is exactly the action of the swaps. -/
theorem move_left_fixed (fix : Fix) (hf : fix.moveLabel = true) (node : Nat) (scan : List Nat)
    (source target : Nat) (hlt : target < source) (h2 : source < scan.length) :
    (move fix node scan source target).1 = applySwaps (swapsLeft source target) scan := by
  apply List.ext_getElem?
  intro k
  rw [(move_left_spec fix node scan source target hlt h2).2.2 k]
  by_cases c : k = target
  · subst c
    rw [applySwaps_swapsLeft k source scan (by omega) h2]
    simp [hf, List.getD_eq_getElem?_getD, List.getElem?_eq_getElem h2]
  · simp [c]

/-! ## `from_pyzx`: one spider per inner vertex, in vertex order, with its colour and phase / 2 -/

/-- Colour and phase (in full turns) of the spider box made from vertex `v` (zx.py:151-155). -/
def vertexKP (g : Graph) (v : Nat) : Option (ZKind × Phase) :=
  match g.verts[v]? with
  | some ⟨.Z, p, _, _⟩ => some (.Z, p.import)
  | some ⟨.X, p, _, _⟩ => some (.X, p.import)
  | _ => none

/-- The spiders of a box list, as (colour, phase). -/
def spidersKP (bs : List ZBox) : List (Option (ZKind × Phase)) :=
  (bs.filter ZBox.isSpider).map (fun b => some (b.kind, b.phase))

theorem spidersKP_append (xs ys : List ZBox) : spidersKP (xs ++ ys) = spidersKP xs ++ spidersKP ys := by
  simp [spidersKP, List.filter_append]

theorem spidersKP_none (bs : List ZBox) (h : ∀ b ∈ bs, b.isSpider = false) : spidersKP bs = [] := by
  simp only [spidersKP, List.map_eq_nil_iff, List.filter_eq_nil_iff]
  intro b hb; simp [h b hb]

theorem moved_spiders {a a' : Acc} (fix : Fix) (node source target : Nat)
    (h : a.moved fix node source target = .ok a') : spidersKP a'.boxes = spidersKP a.boxes := by
  simp only [Acc.moved] at h
  split at h
  · cases h
  · simp only [Except.ok.injEq] at h
    subst h
    rw [spidersKP_append, spidersKP_none (List.map swapBox _), List.append_nil]
    intro b hb
    obtain ⟨o, _, rfl⟩ := List.mem_map.1 hb
    rfl

theorem adjLoop_spiders (fix : Fix) (node offset : Nat) (vs : List Nat) :
    ∀ {a a' : Acc} (i : Nat), adjLoop fix node offset a i vs = .ok a' →
      spidersKP a'.boxes = spidersKP a.boxes := by
  induction vs with
  | nil => intro a a' i h; simp only [adjLoop, Except.ok.injEq] at h; subst h; rfl
  | cons v vs ih =>
    intro a a' i h
    simp only [adjLoop] at h
    split at h
    · cases h
    · split at h
      · cases h
      · rename_i a1 hm
        rw [ih (i + 1) h, moved_spiders fix _ _ _ hm]

theorem makeWiresAdjacent_spiders (fix : Fix) (node : Nat) {a a' : Acc} {offset : Nat}
    (inputs : List Nat) (h : makeWiresAdjacent fix node a inputs = .ok (a', offset)) :
    spidersKP a'.boxes = spidersKP a.boxes := by
  cases inputs with
  | nil =>
    simp only [makeWiresAdjacent, Except.ok.injEq, Prod.mk.injEq] at h
    obtain ⟨rfl, _⟩ := h; rfl
  | cons v vs =>
    simp only [makeWiresAdjacent] at h
    split at h
    · cases h
    · split at h
      · cases h
      · rename_i a1 hl
        simp only [Except.ok.injEq, Prod.mk.injEq] at h
        obtain ⟨rfl, _⟩ := h
        exact adjLoop_spiders fix node _ vs 0 hl

theorem placeSpider_spiders {g : Graph} {node : Nat} {a a' : Acc} {offset nIn nOut : Nat}
    (h : placeSpider g node a offset nIn nOut = .ok a') :
    spidersKP a'.boxes = spidersKP a.boxes ++ [vertexKP g node] := by
  simp only [placeSpider] at h
  split at h
  · cases h
  · rename_i box hbox
    split at h
    · cases h
    · simp only [Except.ok.injEq] at h
      subst h
      have hkp : box.isSpider = true ∧ some (box.kind, box.phase) = vertexKP g node := by
        simp only [node2box] at hbox
        simp only [vertexKP]
        split at hbox <;> first | (simp only [Except.ok.injEq] at hbox; subst hbox; simp_all [ZBox.isSpider]) | cases hbox
      rw [spidersKP_append, spidersKP_append, spidersKP_none (hadamardBoxes _ _ _ _), List.append_nil]
      · simp [spidersKP, hkp.1, hkp.2]
      · intro b hb
        obtain ⟨j, _, rfl⟩ := hadamardBoxes_mem hb
        rfl

theorem importNodes_spiders (fix : Fix) (g : Graph) (vs : List Nat) :
    ∀ {a a' : Acc}, importNodes fix g a vs = .ok a' →
      spidersKP a'.boxes = spidersKP a.boxes ++ vs.map (vertexKP g) := by
  induction vs with
  | nil => intro a a' h; simp only [importNodes, Except.ok.injEq] at h; subst h; simp
  | cons v vs ih =>
    intro a a' h
    simp only [importNodes] at h
    split at h
    · cases h
    · rename_i a1 h1
      rw [ih h]
      simp only [importNode] at h1
      split at h1
      · cases h1
      · split at h1
        · cases h1
        · rename_i a2 offset hm
          rw [placeSpider_spiders h1, makeWiresAdjacent_spiders fix v _ hm]
          simp

theorem importOutputs_spiders (fix : Fix) (g : Graph) (os : List Nat) :
    ∀ {a a' : Acc} (target : Nat), importOutputs fix g a target os = .ok a' →
      spidersKP a'.boxes = spidersKP a.boxes := by
  induction os with
  | nil => intro a a' t h; simp only [importOutputs, Except.ok.injEq] at h; subst h; rfl
  | cons o os ih =>
    intro a a' t h
    simp only [importOutputs] at h
    split at h
    · cases h
    · rename_i a1 h1
      rw [ih (t + 1) h]
      simp only [importOutput] at h1
      split at h1
      · split at h1
        · cases h1
        · split at h1
          · cases h1
          · rename_i a2 hm
            split at h1
            · cases h1
            · simp only [Except.ok.injEq] at h1
              subst h1
              rw [spidersKP_append, moved_spiders fix _ _ _ hm]
              split <;> simp [spidersKP, hBox, ZBox.isSpider]
      · cases h1

/-- The spiders of the imported diagram are the inner vertices of the graph, in vertex order,
    each with its colour and half its pyzx phase — for the tree and for the repairs alike. -/
theorem fromPyzxWith_spiders (fix : Fix) (g : Graph) (d : ZDiagram)
    (h : fromPyzxWith fix g = .ok d) : spidersKP d.boxes = (innerNodes g).map (vertexKP g) := by
  simp only [fromPyzxWith] at h
  split at h
  · cases h
  · split at h
    · cases h
    · split at h
      · cases h
      · rename_i a h1
        split at h
        · cases h
        · rename_i a' h2
          simp only [Except.ok.injEq] at h
          subst h
          rw [importOutputs_spiders fix g _ 0 h2, importNodes_spiders fix g _ h1]
          simp [spidersKP]

/-- With the repaired search the output loop never asks for a right move: the off-by-one branch
    of `move` is dead code there. -/
theorem outputSource_ge (fix : Fix) (hf : fix.outputSearch = true) (scan : List Nat)
    (node target s : Nat) (h : outputSource fix scan node target = some s) :
    target ≤ s ∧ scan[s]? = some node := by
  simp only [outputSource, hf, if_true, Option.map_eq_some_iff] at h
  obtain ⟨i, hi, rfl⟩ := h
  refine ⟨by omega, ?_⟩
  have := List.of_findIdx?_eq_some (xs := scan.drop target) (p := fun x => x == node) (i := i)
    (by simpa [List.idxOf?] using hi)
  simp only [List.getElem?_drop] at this
  cases hget : scan[target + i]? with
  | none => simp [hget] at this
  | some x => simp [hget] at this; rw [this]

/-! ## round trip: the spiders come back, with their colours and phases mod 1 -/

def kpOfVertex (v : Vertex) : Option (ZKind × Phase) :=
  match v with
  | ⟨.Z, p, _, _⟩ => some (.Z, p.import)
  | ⟨.X, p, _, _⟩ => some (.X, p.import)
  | _ => none

theorem vertexKP_eq (g : Graph) (v : Nat) : vertexKP g v = (g.verts[v]?).bind kpOfVertex := by
  simp only [vertexKP]
  cases g.verts[v]? with
  | none => rfl
  | some x => obtain ⟨ty, p, q, r⟩ := x; cases ty <;> rfl

theorem length_specVerts (row : Nat) (bs : List ZBox) : (specVerts row bs).length = nSpiders bs := by
  induction bs generalizing row with
  | nil => rfl
  | cons b bs ih =>
    simp only [specVerts, List.length_append, ih, nSpiders_cons]
    by_cases h : b.isSpider = true <;> simp [h] <;> omega

theorem specVerts_kp (row : Nat) (bs : List ZBox) :
    (specVerts row bs).map kpOfVertex =
      (bs.filter ZBox.isSpider).map (fun b => some (b.kind, b.phase.export.import)) := by
  induction bs generalizing row with
  | nil => rfl
  | cons b bs ih =>
    simp only [specVerts, List.map_append, ih, List.filter_cons]
    cases hk : b.kind <;>
      simp [ZBox.isSpider, hk, spiderVertex, vtypeOf, kpOfVertex]

theorem innerNodes_spec (d : ZDiagram) :
    innerNodes (specGraph d) = (List.range (nSpiders d.boxes)).map (d.dom + ·) := by
  have hlen : (specGraph d).verts.length = d.dom + nSpiders d.boxes + d.cod := by
    simp [specGraph, length_specVerts]; omega
  simp only [innerNodes, hlen]
  rw [List.range_add, List.range_add, List.filter_append, List.filter_append]
  have e1 : (List.range d.dom).filter
      (fun v => !((specGraph d).inputs ++ (specGraph d).outputs).contains v) = [] := by
    rw [List.filter_eq_nil_iff]
    intro a ha
    simp only [specGraph, List.contains_eq_mem, List.mem_append, Bool.not_eq_true',
      decide_eq_false_iff_not]
    exact fun hn => hn (Or.inl ha)
  have e2 : ((List.range (nSpiders d.boxes)).map (fun x => d.dom + x)).filter
      (fun v => !((specGraph d).inputs ++ (specGraph d).outputs).contains v)
      = (List.range (nSpiders d.boxes)).map (fun x => d.dom + x) := by
    rw [List.filter_eq_self]
    intro a ha
    obtain ⟨i, hi, rfl⟩ := List.mem_map.1 ha
    simp only [List.mem_range] at hi
    simp only [specGraph, List.contains_eq_mem, List.mem_append, List.mem_range, List.mem_map,
      Bool.not_eq_true', decide_eq_false_iff_not, not_or, not_exists, not_and]
    exact ⟨by omega, fun x _ => by omega⟩
  have e3 : ((List.range d.cod).map (fun x => d.dom + nSpiders d.boxes + x)).filter
      (fun v => !((specGraph d).inputs ++ (specGraph d).outputs).contains v) = [] := by
    rw [List.filter_eq_nil_iff]
    intro a ha
    simp only [specGraph, List.contains_eq_mem, List.mem_append, Bool.not_eq_true',
      decide_eq_false_iff_not]
    exact fun hn => hn (Or.inr ha)
  rw [e1, e2, e3]
  simp

/-- Importing the exported graph gives back the spiders of the diagram, in order, with their
    colours and their phases reduced mod 1 (`export` then `import`) — whether or not the
    repairs are switched on: the defects of `from_pyzx` concern the wiring only. -/
theorem roundtrip_spiders (fix : Fix) (d d' : ZDiagram)
    (hrt : fromPyzxWith fix (specGraph d) = .ok d') :
    spidersKP d'.boxes =
      (d.boxes.filter ZBox.isSpider).map (fun b => some (b.kind, b.phase.export.import)) := by
  rw [fromPyzxWith_spiders fix _ _ hrt, innerNodes_spec, ← specVerts_kp 0]
  apply List.ext_getElem?
  intro i
  simp only [List.getElem?_map]
  by_cases hi : i < nSpiders d.boxes
  · have hi' : i < (specVerts 0 d.boxes).length := by rw [length_specVerts]; exact hi
    have : (specGraph d).verts[d.dom + i]? = (specVerts 0 d.boxes)[i]? := by
      simp only [specGraph, List.append_assoc]
      rw [List.getElem?_append_right (by simp)]
      simp only [List.length_map, List.length_range, Nat.add_sub_cancel_left]
      rw [List.getElem?_append_left hi']
    simp [List.getElem?_range hi, vertexKP_eq, this, List.getElem?_eq_getElem hi']
  · have h1 : (List.range (nSpiders d.boxes))[i]? = none := by simp; omega
    have h2 : (specVerts 0 d.boxes)[i]? = none := by simp [length_specVerts]; omega
    rw [h1, h2]; rfl

end DV.Pyzx
