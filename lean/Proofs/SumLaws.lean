/-
  Proofs/SumLaws.lean — closed forms and (bi)linearity laws of formal sums (`Model/Sum.lean`).

  What holds and what does not (for the code as it is — `Sum.__eq__` compares ORDERED term lists):
  * `(a + b) >> c == (a >> c) + (b >> c)`, same for `@`            — holds for all sums;
  * `a >> (b + c) == (a >> b) + (a >> c)`, same for `@`            — holds when `a` has at most one
    term (in particular for a diagram `a`), and for all sums up to a permutation of the terms;
    it is FALSE as `==` when `a` has two terms and `b`, `c` one each (`Sum.not_thenDistribL`).
-/
import Proofs.Laws
import Model.Sum

namespace DV

/-- A sum the constructor accepts, with well-typed terms. -/
def Sum.WF (a : Sum) : Prop := ∀ t ∈ a.terms, t.WF ∧ t.dom = a.dom ∧ t.cod = a.cod

@[simp] theorem Sum.zero_dom (d c : Ty) : (Sum.zero d c).dom = d := rfl
@[simp] theorem Sum.zero_cod (d c : Ty) : (Sum.zero d c).cod = c := rfl
@[simp] theorem Sum.zero_terms (d c : Ty) : (Sum.zero d c).terms = [] := rfl

theorem Sum.zero_wf (d c : Ty) : (Sum.zero d c).WF := by intro t ht; simp [Sum.zero] at ht

theorem Sum.single_wf {d : Diagram} (h : d.WF) : (Sum.single d).WF := by
  intro t ht; simp [Sum.single] at ht; subst ht; exact ⟨h, rfl, rfl⟩

/-! ### Constructor, `+`, `sum(…, unit)` -/

theorem Sum.typesOk_iff {d c : Ty} {ts : List Diagram} :
    Sum.typesOk d c ts = true ↔ ∀ t ∈ ts, t.dom = d ∧ t.cod = c := by
  simp [Sum.typesOk]

theorem Sum.mk?_some {d c : Ty} {ts : List Diagram} (h : ∀ t ∈ ts, t.dom = d ∧ t.cod = c) :
    Sum.mk? ts (some d) (some c) = .ok ⟨ts, d, c⟩ := by
  cases ts with
  | nil => rfl
  | cons t ts => simp [Sum.mk?, Sum.typesOk_iff.mpr h]

/-- `Sum([d])` through the constructor is `Sum.single d`. -/
theorem Sum.mk?_single (d : Diagram) : Sum.mk? [d] none none = .ok (Sum.single d) := by
  simp [Sum.mk?, Sum.typesOk, Sum.single]

theorem Sum.add_spec {a b : Sum} (h : ∀ t ∈ a.terms ++ b.terms, t.dom = a.dom ∧ t.cod = a.cod) :
    a.add b = .ok ⟨a.terms ++ b.terms, a.dom, a.cod⟩ := Sum.mk?_some h

theorem Sum.add_wf_spec {a b : Sum} (ha : a.WF) (hb : b.WF) (hd : a.dom = b.dom)
    (hc : a.cod = b.cod) : a.add b = .ok ⟨a.terms ++ b.terms, a.dom, a.cod⟩ := by
  apply Sum.add_spec
  intro t ht
  rcases List.mem_append.mp ht with h | h
  · exact (ha t h).2
  · rw [hd, hc]; exact (hb t h).2

theorem Sum.addAll_spec {acc : Sum} {ts : List Diagram}
    (h : ∀ t ∈ acc.terms ++ ts, t.dom = acc.dom ∧ t.cod = acc.cod) :
    Sum.addAll acc ts = .ok ⟨acc.terms ++ ts, acc.dom, acc.cod⟩ := by
  induction ts generalizing acc with
  | nil => cases acc; simp [Sum.addAll]
  | cons t ts ih =>
    have e : acc.add (Sum.single t) = .ok ⟨acc.terms ++ [t], acc.dom, acc.cod⟩ := by
      apply Sum.add_spec
      intro u hu
      apply h
      simp only [Sum.single, List.mem_append, List.mem_singleton] at hu
      rcases hu with hu | hu
      · exact List.mem_append_left _ hu
      · subst hu; simp
    simp only [Sum.addAll, e]
    rw [ih (acc := ⟨acc.terms ++ [t], acc.dom, acc.cod⟩) (by simpa using h)]
    simp

theorem mapE_spec {f : Diagram → Except Err Diagram} {f' : Diagram → Diagram} {gs : List Diagram}
    (h : ∀ g ∈ gs, f g = .ok (f' g)) : mapE f gs = .ok (gs.map f') := by
  induction gs with
  | nil => rfl
  | cons g gs ih =>
    have h1 := h g (by simp)
    have h2 := ih (fun x hx => h x (by simp [hx]))
    simp [mapE, h1, h2]

theorem prodE_spec {op : Diagram → Diagram → Except Err Diagram} {op' : Diagram → Diagram → Diagram}
    {fs gs : List Diagram} (h : ∀ f ∈ fs, ∀ g ∈ gs, op f g = .ok (op' f g)) :
    prodE op fs gs = .ok (fs.flatMap fun f => gs.map (op' f)) := by
  induction fs with
  | nil => rfl
  | cons f fs ih =>
    have h1 := mapE_spec (f := op f) (f' := op' f) (h f (by simp))
    have h2 := ih (fun x hx => h x (by simp [hx]))
    simp [prodE, h1, h2]

theorem prodE_nil_right (op : Diagram → Diagram → Except Err Diagram) (fs : List Diagram) :
    prodE op fs [] = .ok [] := by
  induction fs with
  | nil => rfl
  | cons f fs ih => simp [prodE, mapE, ih]

/-! ### Closed forms of `>>`, `@`, dagger on sums -/

def Sum.thenD (a b : Sum) : Sum :=
  ⟨a.terms.flatMap fun f => b.terms.map (Diagram.thenD f), a.dom, b.cod⟩
def Sum.tensorD (a b : Sum) : Sum :=
  ⟨a.terms.flatMap fun f => b.terms.map (Diagram.tensorD f), a.dom ++ b.dom, a.cod ++ b.cod⟩
def Sum.daggerD (a : Sum) : Sum := ⟨a.terms.map Diagram.dagger, a.cod, a.dom⟩

@[simp] theorem Sum.thenD_dom (a b : Sum) : (a.thenD b).dom = a.dom := rfl
@[simp] theorem Sum.thenD_cod (a b : Sum) : (a.thenD b).cod = b.cod := rfl
@[simp] theorem Sum.tensorD_dom (a b : Sum) : (a.tensorD b).dom = a.dom ++ b.dom := rfl
@[simp] theorem Sum.tensorD_cod (a b : Sum) : (a.tensorD b).cod = a.cod ++ b.cod := rfl
@[simp] theorem Sum.daggerD_dom (a : Sum) : a.daggerD.dom = a.cod := rfl
@[simp] theorem Sum.daggerD_cod (a : Sum) : a.daggerD.cod = a.dom := rfl

theorem Sum.then_spec {a b : Sum} (ha : a.WF) (hb : b.WF) (h : a.cod = b.dom) :
    a.then b = .ok (a.thenD b) := by
  have e : prodE Diagram.then a.terms b.terms = .ok _ :=
    prodE_spec (op' := Diagram.thenD) (fun f hf g hg =>
      Diagram.then_spec (ha f hf).1 (hb g hg).1 (by rw [(ha f hf).2.2, (hb g hg).2.1, h]))
  simp only [Sum.then, e]
  rw [Sum.addAll_spec]
  · simp [Sum.zero, Sum.thenD]
  · intro t ht
    simp only [Sum.zero, List.nil_append, List.mem_flatMap, List.mem_map] at ht
    obtain ⟨f, hf, g, hg, rfl⟩ := ht
    exact ⟨(ha f hf).2.1, (hb g hg).2.2⟩

theorem Sum.tensor_spec {a b : Sum} (ha : a.WF) (hb : b.WF) :
    a.tensor b = .ok (a.tensorD b) := by
  have e : prodE Diagram.tensor a.terms b.terms = .ok _ :=
    prodE_spec (op' := Diagram.tensorD) (fun f hf g hg =>
      Diagram.tensor_eq_tensorD (ha f hf).1 (hb g hg).1)
  simp only [Sum.tensor, e]
  rw [Sum.addAll_spec]
  · simp [Sum.zero, Sum.tensorD]
  · intro t ht
    simp only [Sum.zero, List.nil_append, List.mem_flatMap, List.mem_map] at ht
    obtain ⟨f, hf, g, hg, rfl⟩ := ht
    simp [Diagram.tensorD, (ha f hf).2.1, (ha f hf).2.2, (hb g hg).2.1, (hb g hg).2.2]

theorem Sum.dagger_spec {a : Sum} (ha : a.WF) : a.dagger = .ok a.daggerD := by
  unfold Sum.dagger
  rw [Sum.addAll_spec]
  · simp [Sum.zero, Sum.daggerD]
  · intro t ht
    simp only [Sum.zero, List.nil_append, List.mem_map] at ht
    obtain ⟨f, hf, rfl⟩ := ht
    exact ⟨by rw [Diagram.dagger_dom (ha f hf).1, (ha f hf).2.2]; rfl,
      by rw [Diagram.dagger_cod (ha f hf).1, (ha f hf).2.1]; rfl⟩

theorem Sum.thenD_wf {a b : Sum} (ha : a.WF) (hb : b.WF) (h : a.cod = b.dom) : (a.thenD b).WF := by
  intro t ht
  simp only [Sum.thenD, List.mem_flatMap, List.mem_map] at ht
  obtain ⟨f, hf, g, hg, rfl⟩ := ht
  exact ⟨Diagram.thenD_wf (ha f hf).1 (hb g hg).1 (by rw [(ha f hf).2.2, (hb g hg).2.1, h]),
    (ha f hf).2.1, (hb g hg).2.2⟩

theorem Sum.tensorD_wf {a b : Sum} (ha : a.WF) (hb : b.WF) : (a.tensorD b).WF := by
  intro t ht
  simp only [Sum.tensorD, List.mem_flatMap, List.mem_map] at ht
  obtain ⟨f, hf, g, hg, rfl⟩ := ht
  exact ⟨Diagram.tensorD_wf (ha f hf).1 (hb g hg).1,
    by simp [Diagram.tensorD, (ha f hf).2.1, (hb g hg).2.1],
    by simp [Diagram.tensorD, (ha f hf).2.2, (hb g hg).2.2]⟩

theorem Sum.daggerD_wf {a : Sum} (ha : a.WF) : a.daggerD.WF := by
  intro t ht
  simp only [Sum.daggerD, List.mem_map] at ht
  obtain ⟨f, hf, rfl⟩ := ht
  exact ⟨Diagram.dagger_wf (ha f hf).1,
    by rw [Diagram.dagger_dom (ha f hf).1, (ha f hf).2.2]; rfl,
    by rw [Diagram.dagger_cod (ha f hf).1, (ha f hf).2.1]; rfl⟩

theorem Sum.add_wf {a b s : Sum} (ha : a.WF) (hb : b.WF) (hd : a.dom = b.dom) (hc : a.cod = b.cod)
    (h : a.add b = .ok s) : s.WF := by
  rw [Sum.add_wf_spec ha hb hd hc] at h
  cases h
  intro t ht
  rcases List.mem_append.mp ht with h | h
  · exact ha t h
  · have := hb t h
    exact ⟨this.1, by rw [hd]; exact this.2.1, by rw [hc]; exact this.2.2⟩

/-! ### The empty sum is the unit of `+`; `+` is associative -/

theorem Sum.add_unit_l {a : Sum} (ha : a.WF) : (Sum.zero a.dom a.cod).add a = .ok a := by
  rw [Sum.add_wf_spec (Sum.zero_wf _ _) ha rfl rfl]
  cases a; simp [Sum.zero]

theorem Sum.add_unit_r {a : Sum} (ha : a.WF) : a.add (Sum.zero a.dom a.cod) = .ok a := by
  rw [Sum.add_wf_spec ha (Sum.zero_wf _ _) rfl rfl]
  cases a; simp [Sum.zero]

theorem Sum.add_assoc {a b c : Sum} (ha : a.WF) (hb : b.WF) (hc : c.WF)
    (h1 : a.dom = b.dom) (h2 : a.cod = b.cod) (h3 : b.dom = c.dom) (h4 : b.cod = c.cod) :
    ∃ ab bc r, a.add b = .ok ab ∧ b.add c = .ok bc ∧ ab.add c = .ok r ∧ a.add bc = .ok r := by
  have e1 := Sum.add_wf_spec ha hb h1 h2
  have e2 := Sum.add_wf_spec hb hc h3 h4
  refine ⟨_, _, ⟨a.terms ++ b.terms ++ c.terms, a.dom, a.cod⟩, e1, e2, ?_, ?_⟩
  · rw [Sum.add_wf_spec (Sum.add_wf ha hb h1 h2 e1) hc (h1.trans h3) (h2.trans h4)]
  · rw [Sum.add_wf_spec ha (Sum.add_wf hb hc h3 h4 e2) h1 h2]
    simp [List.append_assoc]

/-! ### Composition with the empty sum (it absorbs, whatever the other operand's types) -/

theorem Sum.then_empty_l (d c : Ty) (b : Sum) :
    (Sum.zero d c).then b = .ok (Sum.zero d b.cod) := by
  simp [Sum.then, Sum.zero, prodE, Sum.addAll]

theorem Sum.then_empty_r (a : Sum) (d c : Ty) :
    a.then (Sum.zero d c) = .ok (Sum.zero a.dom c) := by
  simp [Sum.then, Sum.zero, prodE_nil_right, Sum.addAll]

theorem Sum.tensor_empty_l (d c : Ty) (b : Sum) :
    (Sum.zero d c).tensor b = .ok (Sum.zero (d ++ b.dom) (c ++ b.cod)) := by
  simp [Sum.tensor, Sum.zero, prodE, Sum.addAll]

theorem Sum.tensor_empty_r (a : Sum) (d c : Ty) :
    a.tensor (Sum.zero d c) = .ok (Sum.zero (a.dom ++ d) (a.cod ++ c)) := by
  simp [Sum.tensor, Sum.zero, prodE_nil_right, Sum.addAll]

theorem Sum.dagger_empty (d c : Ty) : (Sum.zero d c).dagger = .ok (Sum.zero c d) := by
  simp [Sum.dagger, Sum.zero, Sum.addAll]

/-! ### Distributivity: sum on the LEFT operand (holds for all sums) -/

/-- `(a + b) >> c == (a >> c) + (b >> c)`. -/
theorem Sum.then_distrib_r {a b c : Sum} (ha : a.WF) (hb : b.WF) (hc : c.WF)
    (hd : a.dom = b.dom) (hcod : a.cod = b.cod) (h : a.cod = c.dom) :
    ∃ ab ac bc r, a.add b = .ok ab ∧ a.then c = .ok ac ∧ b.then c = .ok bc ∧
      ab.then c = .ok r ∧ ac.add bc = .ok r := by
  have e1 := Sum.add_wf_spec ha hb hd hcod
  have hab := Sum.add_wf ha hb hd hcod e1
  have hbc : b.cod = c.dom := by rw [← hcod, h]
  refine ⟨_, _, _, _, e1, Sum.then_spec ha hc h, Sum.then_spec hb hc hbc,
    Sum.then_spec hab hc h, ?_⟩
  rw [Sum.add_wf_spec (Sum.thenD_wf ha hc h) (Sum.thenD_wf hb hc hbc) (by simp [Sum.thenD, hd])
    (by simp [Sum.thenD])]
  simp [Sum.thenD, List.flatMap_append]

/-- `(a + b) @ c == (a @ c) + (b @ c)`. -/
theorem Sum.tensor_distrib_r {a b c : Sum} (ha : a.WF) (hb : b.WF) (hc : c.WF)
    (hd : a.dom = b.dom) (hcod : a.cod = b.cod) :
    ∃ ab ac bc r, a.add b = .ok ab ∧ a.tensor c = .ok ac ∧ b.tensor c = .ok bc ∧
      ab.tensor c = .ok r ∧ ac.add bc = .ok r := by
  have e1 := Sum.add_wf_spec ha hb hd hcod
  have hab := Sum.add_wf ha hb hd hcod e1
  refine ⟨_, _, _, _, e1, Sum.tensor_spec ha hc, Sum.tensor_spec hb hc,
    Sum.tensor_spec hab hc, ?_⟩
  rw [Sum.add_wf_spec (Sum.tensorD_wf ha hc) (Sum.tensorD_wf hb hc) (by simp [Sum.tensorD, hd])
    (by simp [Sum.tensorD, hcod])]
  simp [Sum.tensorD, List.flatMap_append]

/-- `(a + b)[::-1] == a[::-1] + b[::-1]`. -/
theorem Sum.dagger_distrib {a b : Sum} (ha : a.WF) (hb : b.WF)
    (hd : a.dom = b.dom) (hcod : a.cod = b.cod) :
    ∃ ab a' b' r, a.add b = .ok ab ∧ a.dagger = .ok a' ∧ b.dagger = .ok b' ∧
      ab.dagger = .ok r ∧ a'.add b' = .ok r := by
  have e1 := Sum.add_wf_spec ha hb hd hcod
  have hab := Sum.add_wf ha hb hd hcod e1
  refine ⟨_, _, _, _, e1, Sum.dagger_spec ha, Sum.dagger_spec hb, Sum.dagger_spec hab, ?_⟩
  rw [Sum.add_wf_spec (Sum.daggerD_wf ha) (Sum.daggerD_wf hb) (by simp [Sum.daggerD, hcod])
    (by simp [Sum.daggerD, hd])]
  simp [Sum.daggerD]

/-- Dagger is involutive on sums. -/
theorem Sum.dagger_dagger {a : Sum} (ha : a.WF) :
    ∃ a', a.dagger = .ok a' ∧ a'.dagger = .ok a := by
  refine ⟨_, Sum.dagger_spec ha, ?_⟩
  rw [Sum.dagger_spec (Sum.daggerD_wf ha)]
  cases a with
  | mk terms dom cod =>
    simp only [Sum.daggerD, List.map_map, Except.ok.injEq, Sum.mk.injEq, and_true]
    rw [List.map_congr_left (g := _root_.id)]
    · simp
    · intro t ht; exact Diagram.dagger_dagger (ha t ht).1

/-! ### Distributivity: sum on the RIGHT operand -/

theorem flatMap_append_perm {α β} (fs : List α) (F G : α → List β) :
    (fs.flatMap fun f => F f ++ G f).Perm (fs.flatMap F ++ fs.flatMap G) := by
  induction fs with
  | nil => simp
  | cons f fs ih =>
    simp only [List.flatMap_cons, List.append_assoc]
    refine List.Perm.append_left _ ?_
    refine (List.Perm.append_left _ ih).trans ?_
    exact List.perm_append_comm_assoc _ _ _

theorem flatMap_append_of_length_le_one {α β} (fs : List α) (F G : α → List β)
    (h : fs.length ≤ 1) : (fs.flatMap fun f => F f ++ G f) = fs.flatMap F ++ fs.flatMap G := by
  match fs, h with
  | [], _ => simp
  | [f], _ => simp
  | _ :: _ :: _, h => simp at h

/-- `a >> (b + c) == (a >> b) + (a >> c)` when `a` has at most one term — in particular when `a`
    is a diagram (`Sum.single`). -/
theorem Sum.then_distrib_l_partial {a b c : Sum} (ha : a.WF) (hb : b.WF) (hc : c.WF)
    (hd : b.dom = c.dom) (hcod : b.cod = c.cod) (h : a.cod = b.dom) (hlen : a.terms.length ≤ 1) :
    ∃ bc ab ac r, b.add c = .ok bc ∧ a.then b = .ok ab ∧ a.then c = .ok ac ∧
      a.then bc = .ok r ∧ ab.add ac = .ok r := by
  have e1 := Sum.add_wf_spec hb hc hd hcod
  have hbc := Sum.add_wf hb hc hd hcod e1
  have hac : a.cod = c.dom := by rw [h, hd]
  refine ⟨_, _, _, _, e1, Sum.then_spec ha hb h, Sum.then_spec ha hc hac,
    Sum.then_spec ha hbc h, ?_⟩
  rw [Sum.add_wf_spec (Sum.thenD_wf ha hb h) (Sum.thenD_wf ha hc hac) (by simp [Sum.thenD])
    (by simp [Sum.thenD, hcod])]
  simp only [Sum.thenD, List.map_append, Except.ok.injEq, Sum.mk.injEq, and_true]
  exact (flatMap_append_of_length_le_one _ _ _ hlen).symm

/-- For all sums the two sides have the same types and the same terms up to a permutation. -/
theorem Sum.then_distrib_l_perm {a b c : Sum} (ha : a.WF) (hb : b.WF) (hc : c.WF)
    (hd : b.dom = c.dom) (hcod : b.cod = c.cod) (h : a.cod = b.dom) :
    ∃ bc ab ac l r, b.add c = .ok bc ∧ a.then b = .ok ab ∧ a.then c = .ok ac ∧
      a.then bc = .ok l ∧ ab.add ac = .ok r ∧
      l.dom = r.dom ∧ l.cod = r.cod ∧ l.terms.Perm r.terms := by
  have e1 := Sum.add_wf_spec hb hc hd hcod
  have hbc := Sum.add_wf hb hc hd hcod e1
  have hac : a.cod = c.dom := by rw [h, hd]
  refine ⟨_, _, _, _, _, e1, Sum.then_spec ha hb h, Sum.then_spec ha hc hac,
    Sum.then_spec ha hbc h,
    Sum.add_wf_spec (Sum.thenD_wf ha hb h) (Sum.thenD_wf ha hc hac) (by simp [Sum.thenD])
      (by simp [Sum.thenD, hcod]), ?_, ?_, ?_⟩
  · simp [Sum.thenD]
  · simp [Sum.thenD]
  · simp only [Sum.thenD, List.map_append]
    exact flatMap_append_perm _ _ _

theorem Sum.tensor_distrib_l_partial {a b c : Sum} (ha : a.WF) (hb : b.WF) (hc : c.WF)
    (hd : b.dom = c.dom) (hcod : b.cod = c.cod) (hlen : a.terms.length ≤ 1) :
    ∃ bc ab ac r, b.add c = .ok bc ∧ a.tensor b = .ok ab ∧ a.tensor c = .ok ac ∧
      a.tensor bc = .ok r ∧ ab.add ac = .ok r := by
  have e1 := Sum.add_wf_spec hb hc hd hcod
  have hbc := Sum.add_wf hb hc hd hcod e1
  refine ⟨_, _, _, _, e1, Sum.tensor_spec ha hb, Sum.tensor_spec ha hc,
    Sum.tensor_spec ha hbc, ?_⟩
  rw [Sum.add_wf_spec (Sum.tensorD_wf ha hb) (Sum.tensorD_wf ha hc) (by simp [Sum.tensorD, hd])
    (by simp [Sum.tensorD, hcod])]
  simp only [Sum.tensorD, List.map_append, Except.ok.injEq, Sum.mk.injEq, and_true]
  exact (flatMap_append_of_length_le_one _ _ _ hlen).symm

theorem Sum.tensor_distrib_l_perm {a b c : Sum} (ha : a.WF) (hb : b.WF) (hc : c.WF)
    (hd : b.dom = c.dom) (hcod : b.cod = c.cod) :
    ∃ bc ab ac l r, b.add c = .ok bc ∧ a.tensor b = .ok ab ∧ a.tensor c = .ok ac ∧
      a.tensor bc = .ok l ∧ ab.add ac = .ok r ∧
      l.dom = r.dom ∧ l.cod = r.cod ∧ l.terms.Perm r.terms := by
  have e1 := Sum.add_wf_spec hb hc hd hcod
  have hbc := Sum.add_wf hb hc hd hcod e1
  refine ⟨_, _, _, _, _, e1, Sum.tensor_spec ha hb, Sum.tensor_spec ha hc,
    Sum.tensor_spec ha hbc,
    Sum.add_wf_spec (Sum.tensorD_wf ha hb) (Sum.tensorD_wf ha hc) (by simp [Sum.tensorD, hd])
      (by simp [Sum.tensorD, hcod]), ?_, ?_, ?_⟩
  · simp [Sum.tensorD]
  · simp [Sum.tensorD]
  · simp only [Sum.tensorD, List.map_append]
    exact flatMap_append_perm _ _ _

/-! ### A diagram met by a sum operation is wrapped as a one-term sum -/

/-- `Sum([f]) >> Sum([g]) == Sum([f >> g])`. -/
theorem Sum.single_then {f g : Diagram} (hf : f.WF) (hg : g.WF) (h : f.cod = g.dom) :
    (Sum.single f).then (Sum.single g) = .ok (Sum.single (f.thenD g)) := by
  rw [Sum.then_spec (Sum.single_wf hf) (Sum.single_wf hg) h]
  simp [Sum.thenD, Sum.single, Diagram.thenD]

theorem Sum.single_tensor {f g : Diagram} (hf : f.WF) (hg : g.WF) :
    (Sum.single f).tensor (Sum.single g) = .ok (Sum.single (f.tensorD g)) := by
  rw [Sum.tensor_spec (Sum.single_wf hf) (Sum.single_wf hg)]
  simp [Sum.tensorD, Sum.single, Diagram.tensorD]

theorem Sum.single_dagger {f : Diagram} (hf : f.WF) :
    (Sum.single f).dagger = .ok (Sum.single f.dagger) := by
  rw [Sum.dagger_spec (Sum.single_wf hf)]
  simp [Sum.daggerD, Sum.single, Diagram.dagger_dom hf, Diagram.dagger_cod hf]

/-! ### The full-strength left distributivity law is false for the code as it is -/

/-- Full statement: `a >> (b + c) == (a >> b) + (a >> c)` for ALL sums (not proved — false). -/
def Sum.ThenDistribL : Prop :=
  ∀ a b c : Sum, a.WF → b.WF → c.WF → b.dom = c.dom → b.cod = c.cod → a.cod = b.dom →
    ∃ bc ab ac r, b.add c = .ok bc ∧ a.then b = .ok ab ∧ a.then c = .ok ac ∧
      a.then bc = .ok r ∧ ab.add ac = .ok r

/-- Full statement for `@`. -/
def Sum.TensorDistribL : Prop :=
  ∀ a b c : Sum, a.WF → b.WF → c.WF → b.dom = c.dom → b.cod = c.cod →
    ∃ bc ab ac r, b.add c = .ok bc ∧ a.tensor b = .ok ab ∧ a.tensor c = .ok ac ∧
      a.tensor bc = .ok r ∧ ab.add ac = .ok r

deriving instance DecidableEq for Except

namespace SumWitness
def x : Ob := ⟨"'x'", 0⟩
def y : Ob := ⟨"'y'", 0⟩
def z : Ob := ⟨"'z'", 0⟩
def f1 : Diagram := Diagram.ofBox { name := "'f1'", dom := [x], cod := [y] }
def f2 : Diagram := Diagram.ofBox { name := "'f2'", dom := [x], cod := [y] }
def g : Diagram := Diagram.ofBox { name := "'g'", dom := [y], cod := [z] }
def h : Diagram := Diagram.ofBox { name := "'h'", dom := [y], cod := [z] }
/-- `f1 + f2` -/
def a : Sum := ⟨[f1, f2], [x], [y]⟩
def b : Sum := Sum.single g
def c : Sum := Sum.single h

theorem a_wf : a.WF := by
  intro t ht
  simp only [a, List.mem_cons, List.not_mem_nil, or_false] at ht
  rcases ht with rfl | rfl
  · exact ⟨Diagram.ofBox_wf _, rfl, rfl⟩
  · exact ⟨Diagram.ofBox_wf _, rfl, rfl⟩

/-- `(f1 + f2) >> (g + h)` has terms `f1 g, f1 h, f2 g, f2 h` … -/
def lhs : Sum := ⟨[f1.thenD g, f1.thenD h, f2.thenD g, f2.thenD h], [x], [z]⟩
/-- … while `((f1 + f2) >> g) + ((f1 + f2) >> h)` has `f1 g, f2 g, f1 h, f2 h`. -/
def rhs : Sum := ⟨[f1.thenD g, f2.thenD g, f1.thenD h, f2.thenD h], [x], [z]⟩

theorem lhs_ne_rhs : lhs ≠ rhs := by decide
theorem lhs_not_eqv_rhs : lhs.eqv rhs = false := by decide
end SumWitness

open SumWitness in
theorem Sum.not_thenDistribL : ¬ Sum.ThenDistribL := by
  intro hall
  obtain ⟨bc, ab, ac, r, h1, h2, h3, h4, h5⟩ :=
    hall a b c a_wf (Sum.single_wf (Diagram.ofBox_wf _)) (Sum.single_wf (Diagram.ofBox_wf _))
      rfl rfl rfl
  have e1 : b.add c = .ok ⟨[g, h], [y], [z]⟩ := by decide
  rw [e1] at h1; cases h1
  have e2 : a.then b = .ok ⟨[f1.thenD g, f2.thenD g], [x], [z]⟩ := by decide
  rw [e2] at h2; cases h2
  have e3 : a.then c = .ok ⟨[f1.thenD h, f2.thenD h], [x], [z]⟩ := by decide
  rw [e3] at h3; cases h3
  have e4 : a.then ⟨[g, h], [y], [z]⟩ = .ok lhs := by decide
  rw [e4] at h4; cases h4
  have e5 : Sum.add ⟨[f1.thenD g, f2.thenD g], [x], [z]⟩ ⟨[f1.thenD h, f2.thenD h], [x], [z]⟩
      = .ok rhs := by decide
  rw [e5] at h5
  exact lhs_ne_rhs (Except.ok.inj h5).symm

open SumWitness in
theorem Sum.not_tensorDistribL : ¬ Sum.TensorDistribL := by
  intro hall
  obtain ⟨bc, ab, ac, r, h1, h2, h3, h4, h5⟩ :=
    hall a b c a_wf (Sum.single_wf (Diagram.ofBox_wf _)) (Sum.single_wf (Diagram.ofBox_wf _))
      rfl rfl
  have e1 : b.add c = .ok ⟨[g, h], [y], [z]⟩ := by decide
  rw [e1] at h1; cases h1
  have e2 : a.tensor b = .ok ⟨[f1.tensorD g, f2.tensorD g], [x, y], [y, z]⟩ := by decide
  rw [e2] at h2; cases h2
  have e3 : a.tensor c = .ok ⟨[f1.tensorD h, f2.tensorD h], [x, y], [y, z]⟩ := by decide
  rw [e3] at h3; cases h3
  have e4 : a.tensor ⟨[g, h], [y], [z]⟩ =
      .ok ⟨[f1.tensorD g, f1.tensorD h, f2.tensorD g, f2.tensorD h], [x, y], [y, z]⟩ := by decide
  rw [e4] at h4; cases h4
  have e5 : Sum.add ⟨[f1.tensorD g, f2.tensorD g], [x, y], [y, z]⟩
      ⟨[f1.tensorD h, f2.tensorD h], [x, y], [y, z]⟩
      = .ok ⟨[f1.tensorD g, f2.tensorD g, f1.tensorD h, f2.tensorD h], [x, y], [y, z]⟩ := by decide
  rw [e5] at h5
  have := Except.ok.inj h5
  revert this
  decide

end DV
