/-
  Proofs/ParamData.lean — nested box data (Model/ParamData.lean): the free symbols collected by the
  recursion of cat.Box.__init__ are exactly the symbols of the entries, whatever the containers;
  `rmap` maps the entries and keeps the containers.
-/
import Model.ParamData
import Proofs.Param

namespace DV.Param

/-- Entries visible to `recursive_free_symbols`: all of them once 0-d arrays are opened
    (`zeroDItem`), otherwise those outside 0-d arrays. -/
def PData.visible {R} (zeroDItem : Bool) (d : PData R) : List R :=
  if zeroDItem then d.entries else d.entriesOutside0d

def PForest.visible {R} (zeroDItem : Bool) (d : PForest R) : List R :=
  if zeroDItem then d.entries else d.entriesOutside0d

mutual
theorem PData.mem_freeSymbols {R : Type} (z : Bool) (fs : R → List Nat) (v : Nat) :
    ∀ d : PData R, v ∈ d.freeSymbols z fs ↔ ∃ e ∈ d.visible z, v ∈ fs e
  | .leaf e => by
    cases z <;> simp [PData.freeSymbols, PData.visible, PData.entries, PData.entriesOutside0d]
  | .zeroD e => by
    cases z <;> simp [PData.freeSymbols, PData.visible, PData.entries, PData.entriesOutside0d]
  | .node c kids => by
    have h := PForest.mem_freeSymbols z fs v kids
    cases z <;>
      simpa [PData.freeSymbols, PData.visible, PForest.visible, PData.entries,
        PData.entriesOutside0d] using h
theorem PForest.mem_freeSymbols {R : Type} (z : Bool) (fs : R → List Nat) (v : Nat) :
    ∀ d : PForest R, v ∈ d.freeSymbols z fs ↔ ∃ e ∈ d.visible z, v ∈ fs e
  | .nil => by
    cases z <;> simp [PForest.freeSymbols, PForest.visible, PForest.entries, PForest.entriesOutside0d]
  | .cons d rest => by
    have h1 := PData.mem_freeSymbols z fs v d
    have h2 := PForest.mem_freeSymbols z fs v rest
    rw [PForest.freeSymbols, mem_unionNat, h1, h2]
    cases z <;>
      simp only [PData.visible, PForest.visible, PForest.entries, PForest.entriesOutside0d,
        List.mem_append, if_true, if_false, Bool.false_eq_true] <;>
      constructor <;>
      first
        | (rintro (⟨e, he, hv⟩ | ⟨e, he, hv⟩)
           · exact ⟨e, Or.inl he, hv⟩
           · exact ⟨e, Or.inr he, hv⟩)
        | (rintro ⟨e, he | he, hv⟩
           · exact Or.inl ⟨e, he, hv⟩
           · exact Or.inr ⟨e, he, hv⟩)
end

mutual
theorem PData.entriesOutside0d_eq {R : Type} :
    ∀ d : PData R, d.noZeroD = true → d.entriesOutside0d = d.entries
  | .leaf _, _ => rfl
  | .zeroD _, h => by simp [PData.noZeroD] at h
  | .node _ kids, h => by
    simpa [PData.entriesOutside0d, PData.entries] using PForest.entriesOutside0d_eq kids h
theorem PForest.entriesOutside0d_eq {R : Type} :
    ∀ d : PForest R, d.noZeroD = true → d.entriesOutside0d = d.entries
  | .nil, _ => rfl
  | .cons d rest, h => by
    simp only [PForest.noZeroD, Bool.and_eq_true] at h
    simp [PForest.entriesOutside0d, PForest.entries, PData.entriesOutside0d_eq d h.1,
      PForest.entriesOutside0d_eq rest h.2]
end

/-- **Free symbols of nested data are exactly the symbols of its entries**, for data without 0-d
    arrays (as the code is) or with the repaired treatment of 0-d arrays (`z = true`). -/
theorem PData.mem_freeSymbols_entries {R : Type} (z : Bool) (fs : R → List Nat) (v : Nat)
    (d : PData R) (h : z = true ∨ d.noZeroD = true) :
    v ∈ d.freeSymbols z fs ↔ ∃ e ∈ d.entries, v ∈ fs e := by
  rw [PData.mem_freeSymbols]
  cases z with
  | true => simp [PData.visible]
  | false =>
    have h' : d.noZeroD = true := by simpa using h
    simp [PData.visible, PData.entriesOutside0d_eq d h']

mutual
theorem PData.entries_rmap {R S : Type} (f : R → S) :
    ∀ d : PData R, (d.rmap f).entries = d.entries.map f
  | .leaf _ => rfl
  | .zeroD _ => rfl
  | .node _ kids => by simpa [PData.rmap, PData.entries] using PForest.entries_rmap f kids
theorem PForest.entries_rmap {R S : Type} (f : R → S) :
    ∀ d : PForest R, (d.rmap f).entries = d.entries.map f
  | .nil => rfl
  | .cons d rest => by
    simp [PForest.rmap, PForest.entries, PData.entries_rmap f d, PForest.entries_rmap f rest]
end

mutual
theorem PData.noZeroD_rmap {R S : Type} (f : R → S) :
    ∀ d : PData R, (d.rmap f).noZeroD = d.noZeroD
  | .leaf _ => rfl
  | .zeroD _ => rfl
  | .node _ kids => by simpa [PData.rmap, PData.noZeroD] using PForest.noZeroD_rmap f kids
theorem PForest.noZeroD_rmap {R S : Type} (f : R → S) :
    ∀ d : PForest R, (d.rmap f).noZeroD = d.noZeroD
  | .nil => rfl
  | .cons d rest => by
    simp [PForest.rmap, PForest.noZeroD, PData.noZeroD_rmap f d, PForest.noZeroD_rmap f rest]
end

mutual
/-- `rmap` keeps every container: mapping the entries to `()` gives the same skeleton. -/
theorem PData.shape_rmap {R S : Type} (f : R → S) :
    ∀ d : PData R, (d.rmap f).rmap (fun _ => ()) = d.rmap (fun _ => ())
  | .leaf _ => rfl
  | .zeroD _ => rfl
  | .node _ kids => by simpa [PData.rmap] using PForest.shape_rmap f kids
theorem PForest.shape_rmap {R S : Type} (f : R → S) :
    ∀ d : PForest R, (d.rmap f).rmap (fun _ => ()) = d.rmap (fun _ => ())
  | .nil => rfl
  | .cons d rest => by
    simp [PForest.rmap, PData.shape_rmap f d, PForest.shape_rmap f rest]
end

mutual
theorem PData.rmap_rmap {R S T : Type} (f : R → S) (g : S → T) :
    ∀ d : PData R, (d.rmap f).rmap g = d.rmap (fun e => g (f e))
  | .leaf _ => rfl
  | .zeroD _ => rfl
  | .node _ kids => by simpa [PData.rmap] using PForest.rmap_rmap f g kids
theorem PForest.rmap_rmap {R S T : Type} (f : R → S) (g : S → T) :
    ∀ d : PForest R, (d.rmap f).rmap g = d.rmap (fun e => g (f e))
  | .nil => rfl
  | .cons d rest => by
    simp [PForest.rmap, PData.rmap_rmap f g d, PForest.rmap_rmap f g rest]
end

/-- Two ways of handing the same entries to a box (a list, a tuple, a tuple of lists, an array, a
    dict of sets …) report the same free symbols. -/
theorem PData.freeSymbols_container_irrelevant {R : Type} (z : Bool) (fs : R → List Nat)
    (d d' : PData R) (hd : z = true ∨ d.noZeroD = true) (hd' : z = true ∨ d'.noZeroD = true)
    (h : d.entries = d'.entries) (v : Nat) :
    v ∈ d.freeSymbols z fs ↔ v ∈ d'.freeSymbols z fs := by
  rw [PData.mem_freeSymbols_entries z fs v d hd, PData.mem_freeSymbols_entries z fs v d' hd', h]

/-- The flat box of Model/Param.lean built from the entries reports the same symbols. -/
theorem PData.freeSymbols_flat_box {R : Type} (z : Bool) (fs : R → List Nat) (d : PData R)
    (hd : z = true ∨ d.noZeroD = true) (dom cod : List Nat) (dg : Bool) (v : Nat) :
    v ∈ (({ dom := dom, cod := cod, dagger := dg, data := d.entries } : PBox R).freeSymbols fs)
      ↔ v ∈ d.freeSymbols z fs := by
  rw [mem_box_freeSymbols, PData.mem_freeSymbols_entries z fs v d hd]

/-- Substituting closed values for every entry leaves no free symbol, whatever the containers. -/
theorem PData.freeSymbols_rmap_closed {R S : Type} (z : Bool) (fs : S → List Nat) (f : R → S)
    (hclosed : ∀ e, fs (f e) = []) (d : PData R) :
    (d.rmap f).freeSymbols z fs = [] := by
  apply List.eq_nil_iff_forall_not_mem.mpr
  intro v hv
  rw [PData.mem_freeSymbols] at hv
  obtain ⟨e, he, hve⟩ := hv
  have hsub : ∀ e ∈ (d.rmap f).visible z, e ∈ (d.rmap f).entries := by
    intro e he
    have key : ∀ x : PData S, ∀ e ∈ x.entriesOutside0d, e ∈ x.entries := by
      intro x
      exact PData.rec (motive_1 := fun x => ∀ e ∈ x.entriesOutside0d, e ∈ x.entries)
        (motive_2 := fun x => ∀ e ∈ x.entriesOutside0d, e ∈ x.entries)
        (fun _ _ h => h) (fun _ _ h => by simp [PData.entriesOutside0d] at h)
        (fun _ _ ih e h => ih e h) (fun _ h => h)
        (fun d rest ih1 ih2 e h => by
          simp only [PForest.entriesOutside0d, PForest.entries, List.mem_append] at h ⊢
          exact h.imp (ih1 e) (ih2 e)) x
    cases z with
    | true => simpa [PData.visible] using he
    | false => exact key _ e (by simpa [PData.visible] using he)
  have he' := hsub e he
  rw [PData.entries_rmap, List.mem_map] at he'
  obtain ⟨e0, _, rfl⟩ := he'
  rw [hclosed] at hve
  exact absurd hve List.not_mem_nil

/-- `Box.subs` hits the box exactly when a substituted variable occurs in an entry: the early exit
    of cat.py:549-551 returns the box unchanged only if no entry mentions the variables. -/
theorem PData.boxSubs_hits {R : Type} (z : Bool) (fs : R → List Nat) (vars : List Nat) (f : R → R)
    (d : PData R) (hd : z = true ∨ d.noZeroD = true)
    (h : ∃ v ∈ vars, ∃ e ∈ d.entries, v ∈ fs e) :
    d.boxSubs z fs vars f = d.rmap f := by
  unfold PData.boxSubs
  rw [if_pos]
  obtain ⟨v, hv, he⟩ := h
  rw [List.any_eq_true]
  exact ⟨v, hv, by
    rw [List.contains_iff_mem]
    exact (PData.mem_freeSymbols_entries z fs v d hd).mpr he⟩

end DV.Param
