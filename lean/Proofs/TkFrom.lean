/-
  Proofs/TkFrom.lean — `from_tk.make_units_adjacent` for every width (C13): where the swaps built
  for a two-unit gate put every wire, and that the reversed swaps restore the wire order.
-/
import Proofs.TkBasic
import Model.TkFrom

namespace DV.Tk
open DV

/-! ### one adjacent swap, pointwise -/

theorem swapAt_getElem? {α} (xs : List α) (off j : Nat) (h : off + 1 < xs.length) :
    (swapAt xs off)[j]? =
      if j = off then xs[off + 1]? else if j = off + 1 then xs[off]? else xs[j]? := by
  have hx : xs[off]? = some xs[off] := List.getElem?_eq_getElem (by omega)
  have hy : xs[off + 1]? = some xs[off + 1] := List.getElem?_eq_getElem h
  have e := split_two hx hy
  have hl : (xs.take off).length = off := by simp; omega
  have e2 : swapAt xs off = xs.take off ++ [xs[off + 1], xs[off]] ++ xs.drop (off + 2) := by
    conv => lhs; rw [e]
    have := swapAt_split (xs.take off) (xs.drop (off + 2)) xs[off] xs[off + 1]
    rw [hl] at this; exact this
  rw [e2]
  by_cases h1 : j = off
  · subst h1; simp [hl, hy]
  · by_cases h2 : j = off + 1
    · subst h2; simp [hl, hx]
    · simp only [h1, h2, if_false]
      rcases Nat.lt_or_ge j off with hj | hj
      · rw [List.append_assoc, List.getElem?_append_left (by omega), List.getElem?_take_of_lt hj]
      · rw [List.getElem?_append_right (by simp [hl]; omega)]
        simp only [List.length_append, hl, List.length_cons, List.length_nil]
        rw [List.getElem?_drop]; congr 1; omega

/-- A swap is its own inverse. -/
theorem swapAt_swapAt {α} (xs : List α) (off : Nat) (h : off + 1 < xs.length) :
    swapAt (swapAt xs off) off = xs := by
  apply List.ext_getElem?
  intro j
  have hl := swapAt_length xs off
  rw [swapAt_getElem? _ _ _ (by omega), swapAt_getElem? _ _ _ h, swapAt_getElem? _ _ _ h,
    swapAt_getElem? _ _ _ h]
  by_cases h1 : j = off
  · subst h1; simp
  · by_cases h2 : j = off + 1
    · subst h2; simp
    · simp [h1, h2]

theorem foldl_swapAt_length {α} (offs : List Nat) (xs : List α) :
    (offs.foldl swapAt xs).length = xs.length := by
  induction offs generalizing xs with
  | nil => rfl
  | cons o os ih => simp [List.foldl_cons, ih, swapAt_length]

/-- Undoing a list of swaps in the reverse order restores the wire order — for any swaps whatever
    (tk.py:335 `swaps >> … >> swaps[::-1]`). -/
theorem foldl_swapAt_reverse {α} (offs : List Nat) (xs : List α) (h : ∀ o ∈ offs, o + 1 < xs.length) :
    (offs ++ offs.reverse).foldl swapAt xs = xs := by
  induction offs generalizing xs with
  | nil => rfl
  | cons o os ih =>
    have ho := h o (by simp)
    have hl := swapAt_length xs o
    rw [List.reverse_cons, ← List.append_assoc, List.foldl_append, List.cons_append, List.foldl_cons,
      List.foldl_cons, List.foldl_nil,
      ih _ (by intro o' ho'; rw [hl]; exact h o' (by simp [ho']))]
    exact swapAt_swapAt _ _ ho

/-! ### the two rotations -/

/-- Swaps at `b, b+1, …, b+k-1` carry the wire at `b` to `b + k` and move the `k` wires it
    passes one place to the left. -/
theorem foldl_swapAt_range' {α} (xs : List α) (b k : Nat) (h : b + k < xs.length) (j : Nat) :
    ((List.range' b k).foldl swapAt xs)[j]? =
      if j < b then xs[j]? else if j < b + k then xs[j + 1]? else if j = b + k then xs[b]? else xs[j]? := by
  induction k generalizing j with
  | zero => simp only [List.range'_zero, List.foldl_nil, Nat.add_zero]; grind
  | succ k ih =>
    rw [List.range'_concat, List.foldl_append, List.foldl_cons, List.foldl_nil, Nat.one_mul]
    rw [swapAt_getElem? _ _ _ (by rw [foldl_swapAt_length]; omega)]
    rw [ih (by omega), ih (by omega), ih (by omega)]
    grind

/-- Swaps at `t+k-1, …, t+1, t` carry the wire at `t + k` to `t` and move the `k` wires it
    passes one place to the right. -/
theorem foldl_swapAt_range'_reverse {α} (xs : List α) (t k : Nat) (h : t + k < xs.length) (j : Nat) :
    ((List.range' t k).reverse.foldl swapAt xs)[j]? =
      if j < t then xs[j]? else if j = t then xs[t + k]? else if j ≤ t + k then xs[j - 1]? else xs[j]? := by
  induction k generalizing xs j with
  | zero => simp only [List.range'_zero, List.reverse_nil, List.foldl_nil, Nat.add_zero]; grind
  | succ k ih =>
    rw [List.range'_concat, List.reverse_append, List.reverse_cons, List.reverse_nil, List.nil_append,
      List.singleton_append, List.foldl_cons, Nat.one_mul]
    rw [ih _ (by rw [swapAt_length]; omega)]
    rw [swapAt_getElem? _ _ _ (by omega), swapAt_getElem? _ _ _ (by omega), swapAt_getElem? _ _ _ (by omega)]
    grind

/-! ### `make_units_adjacent` on a two-unit gate, every width -/

/-- The offset and the swap offsets for a gate on the units `a`, `b`. -/
theorem makeUnitsAdjacent_pair (a b : Nat) :
    makeUnitsAdjacent [a, b] =
      if b < a + 1 then (if b ≤ a then a - 1 else a, List.range' b (a - b))
      else if b > a + 1 then (a, (List.range' (a + 1) (b - (a + 1))).reverse)
      else (a, []) := by
  simp only [makeUnitsAdjacent, muaLoop, Nat.add_zero, List.nil_append]
  split
  · rfl
  · split <;> rfl

theorem arrangement_length (n : Nat) (offs : List Nat) : (arrangement n offs).length = n := by
  simp [arrangement, foldl_swapAt_length]

/-- **make_units_adjacent, all widths.**  For a gate on two different units `a`, `b` of an
    `n`-wire circuit, after the swaps the wire `a` sits at the returned offset and the wire `b`
    right after it. -/
theorem makeUnitsAdjacent_adjacent (n a b : Nat) (ha : a < n) (hb : b < n) (hab : a ≠ b) :
    ((arrangement n (makeUnitsAdjacent [a, b]).2).drop (makeUnitsAdjacent [a, b]).1).take 2 = [a, b] := by
  have hlen : ∀ offs, (arrangement n offs).length = n := arrangement_length n
  have key : ∀ offs off, (arrangement n offs)[off]? = some a → (arrangement n offs)[off + 1]? = some b →
      ((arrangement n offs).drop off).take 2 = [a, b] := by
    intro offs off h0 h1
    have := split_two h0 h1
    rw [this]
    have hl : ((arrangement n offs).take off).length = off := by
      have : off + 1 < (arrangement n offs).length := by
        rcases Nat.lt_or_ge (off + 1) (arrangement n offs).length with h | h
        · exact h
        · rw [List.getElem?_eq_none h] at h1; cases h1
      simp; omega
    simp [List.drop_append, hl]
  have hr : ∀ j, j < n → (List.range n)[j]? = some j := by
    intro j hj; simp [hj]
  rw [makeUnitsAdjacent_pair]
  by_cases h1 : b < a + 1
  · have hba : b < a := by omega
    simp only [h1, if_true, show b ≤ a from by omega]
    apply key
    · unfold arrangement
      rw [foldl_swapAt_range' _ _ _ (by simp; omega)]
      have : ¬ (a - 1 < b) ∨ a - 1 < b := by omega
      rcases Nat.lt_or_ge (a - 1) b with h | h
      · omega
      · have h2 : ¬ a - 1 < b := by omega
        have h3 : a - 1 < b + (a - b) := by omega
        simp only [h2, h3, if_true, if_false]
        rw [hr _ (by omega)]; congr 1; omega
    · unfold arrangement
      rw [foldl_swapAt_range' _ _ _ (by simp; omega)]
      have h2 : ¬ a - 1 + 1 < b := by omega
      have h3 : ¬ a - 1 + 1 < b + (a - b) := by omega
      have h4 : a - 1 + 1 = b + (a - b) := by omega
      rw [if_neg h2, if_neg h3, if_pos h4]
      exact hr _ hb
  · by_cases h2 : b > a + 1
    · simp only [h1, h2, if_true, if_false]
      apply key
      · unfold arrangement
        rw [foldl_swapAt_range'_reverse _ _ _ (by simp; omega)]
        simp only [show a < a + 1 from by omega, if_true]
        exact hr _ ha
      · unfold arrangement
        rw [foldl_swapAt_range'_reverse _ _ _ (by simp; omega)]
        simp only [show ¬ a + 1 < a + 1 from by omega, if_true, if_false]
        rw [hr _ (by omega)]; congr 1; omega
    · have hb' : b = a + 1 := by omega
      subst hb'
      simp only [h1, h2, if_false]
      apply key
      · simpa [arrangement] using hr a ha
      · simpa [arrangement] using hr (a + 1) hb

/-- Every swap offset built lies inside the circuit. -/
theorem makeUnitsAdjacent_inRange (n a b : Nat) (ha : a < n) (hb : b < n) :
    ∀ o ∈ (makeUnitsAdjacent [a, b]).2, o + 1 < n := by
  rw [makeUnitsAdjacent_pair]
  intro o ho
  by_cases h1 : b < a + 1
  · simp only [h1, if_true, List.mem_range'_1] at ho; omega
  · by_cases h2 : b > a + 1
    · simp only [h1, h2, if_true, if_false, List.mem_reverse, List.mem_range'_1] at ho; omega
    · simp [h1, h2] at ho

/-- The reversed swaps (tk.py:335 `swaps[::-1]`) restore the wire order. -/
theorem makeUnitsAdjacent_restores (n a b : Nat) (ha : a < n) (hb : b < n) :
    arrangement n ((makeUnitsAdjacent [a, b]).2 ++ (makeUnitsAdjacent [a, b]).2.reverse) = List.range n := by
  unfold arrangement
  exact foldl_swapAt_reverse _ _ (by simpa using makeUnitsAdjacent_inRange n a b ha hb)

/-- A one-unit gate needs no swaps. -/
theorem makeUnitsAdjacent_single (a : Nat) : makeUnitsAdjacent [a] = (a, []) := rfl

/-- Not so for three units (no supported tket op has three: `box_from_tk` raises before the
    swaps are built): the loop compares tket indices with positions that earlier swaps have changed. -/
theorem makeUnitsAdjacent_three_wrong :
    ((arrangement 3 (makeUnitsAdjacent [2, 0, 1]).2).drop (makeUnitsAdjacent [2, 0, 1]).1).take 3 = [1, 0, 2] := by
  decide

end DV.Tk
