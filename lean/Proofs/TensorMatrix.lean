/-
  Proofs/TensorMatrix.lean — the statements of C08 in the words of the property: viewing a
  tensor as the matrix from its flattened domain to its flattened codomain
  (`Tensor.mat t r c = data[r * prod cod + c]`), composition is the matrix product, tensor is
  the Kronecker product, dagger is the conjugate transpose, identities are identity matrices,
  swaps are the permutation matrices exchanging the two blocks.
-/
import Proofs.TensorLaws

namespace DV
open NDArray

/-- The multi-index at flat position `r` (row-major). -/
def unflat (s : List Nat) (r : Nat) : List Nat := (idxs s).getD r []

theorem unflat_inRange {s : List Nat} {r : Nat} (h : r < prod s) : InRange s (unflat s r) := by
  have hk : r < (idxs s).length := by rw [idxs_length]; exact h
  unfold unflat
  rw [getD_of_lt _ hk]
  exact mem_idxs.1 (List.getElem_mem hk)

theorem flatIdx_unflat {s : List Nat} {r : Nat} (h : r < prod s) : flatIdx s (unflat s r) = r := by
  have hk : r < (idxs s).length := by rw [idxs_length]; exact h
  have := map_flatIdx_idxs s
  have h2 := congrArg (fun l => l[r]?) this
  simp only [List.getElem?_map, List.getElem?_eq_getElem hk, Option.map_some] at h2
  rw [List.getElem?_range h] at h2
  unfold unflat
  rw [getD_of_lt _ hk]
  exact Option.some.inj h2

theorem unflat_flatIdx {s i : List Nat} (h : InRange s i) : unflat s (flatIdx s i) = i := by
  unfold unflat
  rw [List.getD_eq_getElem?_getD, getElem?_idxs_flatIdx h]
  rfl

theorem idxs_eq_map_unflat (s : List Nat) : idxs s = (List.range (prod s)).map (unflat s) := by
  apply List.ext_getElem
  · simp [idxs_length]
  · intro k h1 h2
    simp [unflat, List.getD_eq_getElem?_getD, List.getElem?_eq_getElem h1]

theorem sumOver_eq_range {R : Type} [Add R] [Zero R] (s : List Nat) (f : List Nat → R) :
    sumOver s f = ((List.range (prod s)).map (fun k => f (unflat s k))).sum := by
  unfold sumOver
  rw [idxs_eq_map_unflat, List.map_map]
  rfl

namespace Tensor

section
variable {R : Type} [CommSemiring R]

theorem entry_eq_mat (t : Tensor R) {i k : List Nat} (hi : InRange t.dom i) :
    t.entry (i ++ k) = t.mat (flatIdx t.dom i) (flatIdx t.cod k) := by
  unfold Tensor.entry Tensor.mat
  rw [flatIdx_append _ _ hi.length_eq]

theorem mat_eq_entry (t : Tensor R) {r c : Nat} (hr : r < prod t.dom) (hc : c < prod t.cod) :
    t.mat r c = t.entry (unflat t.dom r ++ unflat t.cod c) := by
  rw [entry_eq_mat t (unflat_inRange hr), flatIdx_unflat hr, flatIdx_unflat hc]

/-- **Composition is the matrix product.** -/
theorem then_matrix (f g : Tensor R) (hf : f.WF) (hg : g.WF) (h : f.cod = g.dom) {r c : Nat}
    (hr : r < prod f.dom) (hc : c < prod g.cod) :
    (thenCore f g).mat r c
      = ((List.range (prod f.cod)).map (fun k => f.mat r k * g.mat k c)).sum := by
  rw [mat_eq_entry (thenCore f g) hr hc]
  simp only [thenCore_dom, thenCore_cod]
  rw [then_entry f g hf hg h (unflat_inRange hr) (unflat_inRange hc), sumOver_eq_range]
  congr 1
  apply List.map_congr_left
  intro k hk
  have hk' : k < prod f.cod := List.mem_range.1 hk
  rw [entry_eq_mat f (unflat_inRange hr), entry_eq_mat g (h ▸ unflat_inRange hk'),
    flatIdx_unflat hr, flatIdx_unflat hk', flatIdx_unflat hc, ← h, flatIdx_unflat hk']

/-- **Tensor is the Kronecker product.** -/
theorem tensor_kron (f g : Tensor R) (hf : f.WF) (hg : g.WF) {r1 r2 c1 c2 : Nat}
    (h1 : r1 < prod f.dom) (h2 : r2 < prod g.dom) (h3 : c1 < prod f.cod) (h4 : c2 < prod g.cod) :
    (f.tensor g).mat (r1 * prod g.dom + r2) (c1 * prod g.cod + c2) = f.mat r1 c1 * g.mat r2 c2 := by
  have := tensor_entry f g hf hg (unflat_inRange h1) (unflat_inRange h3) (unflat_inRange h2)
    (unflat_inRange h4)
  rw [entry_eq_mat _ (by exact inRange_append (unflat_inRange h1) (unflat_inRange h2)),
    entry_eq_mat f (unflat_inRange h1), entry_eq_mat g (unflat_inRange h2)] at this
  simp only [tensor_dom, tensor_cod,
    flatIdx_append _ _ (unflat_inRange h1).length_eq,
    flatIdx_append _ _ (unflat_inRange h3).length_eq,
    flatIdx_unflat h1, flatIdx_unflat h2, flatIdx_unflat h3, flatIdx_unflat h4] at this
  exact this

/-- **Identities are identity matrices.** -/
theorem id_matrix (d : List Nat) {r c : Nat} (hr : r < prod d) (hc : c < prod d) :
    (Tensor.id (R := R) d).mat r c = if r = c then 1 else 0 := by
  rw [mat_eq_entry (Tensor.id d) hr hc]
  simp only [id_dom, id_cod]
  rw [id_entry d (unflat_inRange hr) (unflat_inRange hc)]
  by_cases e : r = c
  · subst e; simp
  · have : unflat d r ≠ unflat d c := fun h => e (by
      rw [← flatIdx_unflat hr, ← flatIdx_unflat hc, h])
    simp [e, this]

/-- **Swaps are the permutation matrices exchanging the two blocks.** -/
theorem swap_matrix (l r : List Nat) {a b b' a' : Nat}
    (ha : a < prod l) (hb : b < prod r) (hb' : b' < prod r) (ha' : a' < prod l) :
    (Tensor.swap (R := R) l r).mat (a * prod r + b) (b' * prod l + a')
      = if a = a' ∧ b = b' then 1 else 0 := by
  have := swap_entry (R := R) l r (unflat_inRange ha) (unflat_inRange hb) (unflat_inRange hb')
    (unflat_inRange ha')
  rw [entry_eq_mat _ (by exact inRange_append (unflat_inRange ha) (unflat_inRange hb))] at this
  simp only [swap_dom, swap_cod,
    flatIdx_append _ _ (unflat_inRange ha).length_eq,
    flatIdx_append _ _ (unflat_inRange hb').length_eq,
    flatIdx_unflat ha, flatIdx_unflat hb, flatIdx_unflat hb', flatIdx_unflat ha'] at this
  rw [this]
  have e1 : unflat l a = unflat l a' ↔ a = a' :=
    ⟨fun h => by rw [← flatIdx_unflat ha, ← flatIdx_unflat ha', h], fun h => by rw [h]⟩
  have e2 : unflat r b = unflat r b' ↔ b = b' :=
    ⟨fun h => by rw [← flatIdx_unflat hb, ← flatIdx_unflat hb', h], fun h => by rw [h]⟩
  simp only [e1, e2]

end

section
variable {R : Type} [CommSemiring R] [StarRing R]

/-- **Dagger is the conjugate transpose.** -/
theorem dagger_matrix (f : Tensor R) (hf : f.WF) {r c : Nat} (hr : r < prod f.dom)
    (hc : c < prod f.cod) : f.dagger.mat c r = star (f.mat r c) := by
  have := dagger_entry f hf (unflat_inRange hr) (unflat_inRange hc)
  rw [entry_eq_mat _ (by exact unflat_inRange hc), entry_eq_mat f (unflat_inRange hr)] at this
  simp only [dagger_dom, dagger_cod, flatIdx_unflat hr, flatIdx_unflat hc] at this
  exact this

end
end Tensor
end DV
