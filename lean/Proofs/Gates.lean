/-
  Proofs/Gates.lean — the rotation gates and the gate2zx decompositions, SYMBOLIC IN THE PHASE.

  A rotation of phase φ (full turns) enters the arrays of gates.py:381-490 only through
      c = cos πφ,  s = sin πφ,  ν = e^{iπφ},  ν' = e^{-iπφ},  μ = e^{2πiφ} = ν²
  and a ZX spider of phase ψ only through e^{2πiψ}; Hadamard-type constants through r = 1/√2.
  Every statement below is a polynomial identity in these, proved over an ARBITRARY commutative
  (star) ring from the hypotheses
      i·i = −1,  c·c + s·s = 1,  ν·ν' = 1,  2c = ν + ν',  2is = ν − ν',  2·r·r = 1,
      star c = c,  star s = s,  star i = −i,  star ν = ν',  star r = r
  which hold in ℂ for every real φ (Euler's formula; instantiated in Proofs/GatesComplex.lean).
  The matrices are the generic definitions of Model/Gates.lean (the very functions the driver runs
  at `Cyc8`), `simp` evaluates the list products, `ring1`/`linear_combination` closes the entries.
-/
import Mathlib.Tactic.Ring
import Mathlib.Tactic.LinearCombination
import Mathlib.Algebra.Star.Basic
import Model.Gates

namespace DV.Gates

/-- Conjugation on a star ring (ℂ: complex conjugation). -/
instance instConjStar {R : Type} [CommRing R] [StarRing R] : Conj R := ⟨star⟩

macro "mat_simp" : tactic =>
  `(tactic| simp [evalZX, evalZXFrom, ZXB.mat, ZXB.dom, ZXB.cod, zMat, xMat, hMat, swapMat, bits,
      allFalse, allTrue, parity, rpow, mul, rowMul, vadd, smul, msmul, kron, dagger, transpose,
      identity, idQ, pow2, rx, ryAsIs, ryFixed, rz, cu1, crz, crx, ctrlArr, ctrlSpec, Conj.conj])

/-! ## C11 — rotations for all phases -/

section Star
variable {R : Type} [CommRing R] [StarRing R]

/-- `Rx(φ)` is unitary. -/
theorem rx_unitary (i c s : R) (hi : i * i = -1) (hcs : c * c + s * s = 1)
    (hc : star c = c) (hs : star s = s) (hsi : star i = -i) :
    mul (rx i c s) (dagger (rx i c s)) = identity 2 ∧ mul (dagger (rx i c s)) (rx i c s) = identity 2 := by
  constructor <;> mat_simp <;> simp only [hc, hs, hsi] <;> repeat' constructor
  all_goals first | ring1 | linear_combination hcs - s * s * hi

/-- `Ry(φ)` is unitary (the array as it is and the repaired one). -/
theorem ry_unitary (c s : R) (hcs : c * c + s * s = 1) (hc : star c = c) (hs : star s = s) :
    mul (ryAsIs c s) (dagger (ryAsIs c s)) = identity 2 ∧
    mul (ryFixed c s) (dagger (ryFixed c s)) = identity 2 := by
  constructor <;> mat_simp <;> simp only [hc, hs] <;> repeat' constructor
  all_goals first | ring1 | linear_combination hcs

/-- `Rz(φ)` is unitary. -/
theorem rz_unitary (ν ν' : R) (h : ν * ν' = 1) (hs : star ν = ν') (hs' : star ν' = ν) :
    mul (rz ν ν') (dagger (rz ν ν')) = identity 2 ∧ mul (dagger (rz ν ν')) (rz ν ν') = identity 2 := by
  constructor <;> mat_simp <;> simp only [hs, hs'] <;> repeat' constructor
  all_goals first | ring1 | linear_combination h

/-- `CU1(φ)` is unitary. -/
theorem cu1_unitary (μ μ' : R) (h : μ * μ' = 1) (hs : star μ = μ') :
    mul (cu1 μ) (dagger (cu1 μ)) = identity 4 := by
  mat_simp; simp only [hs]; linear_combination h

/-- `CRz(φ)` is unitary. -/
theorem crz_unitary (ν ν' : R) (h : ν * ν' = 1) (hs : star ν = ν') (hs' : star ν' = ν) :
    mul (crz ν ν') (dagger (crz ν ν')) = identity 4 := by
  mat_simp; simp only [hs, hs']; repeat' constructor
  all_goals first | ring1 | linear_combination h

/-- `CRx(φ)` is unitary. -/
theorem crx_unitary (i c s : R) (hi : i * i = -1) (hcs : c * c + s * s = 1)
    (hc : star c = c) (hs : star s = s) (hsi : star i = -i) :
    mul (crx i c s) (dagger (crx i c s)) = identity 4 := by
  mat_simp; simp only [hc, hs, hsi]; repeat' constructor
  all_goals first | ring1 | linear_combination hcs - s * s * hi

/-- Dagger by negated phase (gates.py:361-362): `U(−φ) = U(φ)ᴴ`.  `cos(−πφ) = c`, `sin(−πφ) = −s`,
    `e^{iπ(−φ)} = ν'`. -/
theorem rx_dagger (i c s : R) (hc : star c = c) (hs : star s = s) (hsi : star i = -i) :
    rx i c (-s) = dagger (rx i c s) := by
  mat_simp; simp only [hc, hs, hsi]; repeat' constructor
  all_goals ring1

theorem ry_dagger (c s : R) (hc : star c = c) (hs : star s = s) :
    ryAsIs c (-s) = dagger (ryAsIs c s) ∧ ryFixed c (-s) = dagger (ryFixed c s) := by
  constructor <;> mat_simp <;> simp only [hc, hs] <;> simp

theorem rz_dagger (ν ν' : R) (hs : star ν = ν') (hs' : star ν' = ν) :
    rz ν' ν = dagger (rz ν ν') := by
  mat_simp; simp only [hs, hs']; simp

theorem cu1_dagger (μ μ' : R) (hs : star μ = μ') : cu1 μ' = dagger (cu1 μ) := by
  mat_simp; simp only [hs]

theorem crz_dagger (ν ν' : R) (hs : star ν = ν') (hs' : star ν' = ν) :
    crz ν' ν = dagger (crz ν ν') := by
  mat_simp; simp only [hs, hs']; simp

theorem crx_dagger (i c s : R) (hc : star c = c) (hs : star s = s) (hsi : star i = -i) :
    crx i c (-s) = dagger (crx i c s) := by
  mat_simp; simp only [hc, hs, hsi]; repeat' constructor
  all_goals ring1

/-- The conjugate transpose commutes with `Controlled` (the algebra behind the repair of F2):
    `Controlled(U)ᴴ = Controlled(Uᴴ)` for every one-qubit `U`. -/
theorem ctrl_dagger (a b c d : R) :
    dagger (ctrlArr [[a, b], [c, d]]) = ctrlArr (dagger [[a, b], [c, d]]) := by
  mat_simp

/-- Hence AS IT IS (`Controlled(g).dagger() = Controlled` of the un-daggered array, F2) the dagger
    evaluates to the adjoint iff the target array is Hermitian. -/
theorem ctrl_asis_dagger_iff (a b c d : R) :
    ctrlArr [[a, b], [c, d]] = dagger (ctrlArr [[a, b], [c, d]]) ↔
      [[a, b], [c, d]] = dagger [[a, b], [c, d]] := by
  mat_simp

end Star

section Ring
variable {R : Type} [CommRing R]

/-- `Controlled(U) = |0⟩⟨0| ⊗ 1 + |1⟩⟨1| ⊗ U` for every one-qubit `U` (gates.py:276-278). -/
theorem ctrl_spec (a b c d : R) : ctrlArr [[a, b], [c, d]] = ctrlSpec [[a, b], [c, d]] := by
  mat_simp

/-- The two-qubit rotations are the controlled one-qubit rotations. -/
theorem crz_is_controlled (ν ν' : R) : crz ν ν' = ctrlArr (rz ν ν') := rfl
theorem crx_is_controlled (i c s : R) : crx i c s = ctrlArr (rx i c s) := rfl
theorem cu1_is_controlled (μ : R) : cu1 μ = ctrlArr [[1, 0], [0, μ]] := rfl

/-! ### the standard tket matrices `U[out][in]` (pytket documentation of `OpType.Rx/Ry/Rz/CU1/CRz/CRx`,
    angle `α` in half turns; discopy phase `φ` = `α/2`, so `cos(πα/2) = c`, `e^{iπα/2} = ν`, `e^{iπα} = ν²`). -/
def tketRx (i c s : R) : Mat R := [[c, -(i * s)], [-(i * s), c]]
def tketRy (c s : R) : Mat R := [[c, -s], [s, c]]
def tketRz (ν ν' : R) : Mat R := [[ν', 0], [0, ν]]
def tketCU1 (μ : R) : Mat R := [[1, 0, 0, 0], [0, 1, 0, 0], [0, 0, 1, 0], [0, 0, 0, μ]]
def tketCRz (ν ν' : R) : Mat R := [[1, 0, 0, 0], [0, 1, 0, 0], [0, 0, ν', 0], [0, 0, 0, ν]]
def tketCRx (i c s : R) : Mat R :=
  [[1, 0, 0, 0], [0, 1, 0, 0], [0, 0, c, -(i * s)], [0, 0, -(i * s), c]]

/-- Every rotation array equals the standard tket matrix in `[input, output]` order (= its
    transpose) — with the REPAIRED `Ry`. -/
theorem rot_matches_tket (i c s ν ν' μ : R) :
    rx i c s = transpose (tketRx i c s) ∧ ryFixed c s = transpose (tketRy c s) ∧
    rz ν ν' = transpose (tketRz ν ν') ∧ cu1 μ = transpose (tketCU1 μ) ∧
    crz ν ν' = transpose (tketCRz ν ν') ∧ crx i c s = transpose (tketCRx i c s) := by
  refine ⟨?_, ?_, ?_, ?_, ?_, ?_⟩ <;> simp [tketRx, tketRy, tketRz, tketCU1, tketCRz, tketCRx, transpose,
    rx, ryFixed, rz, cu1, crz, crx]

/-- F17: `Ry` as gates.py:402 has it is the tket matrix NOT transposed, i.e. the map `Ry(−φ)`. -/
theorem ryAsIs_is_transpose (c s : R) :
    ryAsIs c s = tketRy c s ∧ ryAsIs c s = transpose (tketRy c (-s)) ∧ ryAsIs c s = ryFixed c (-s) := by
  refine ⟨rfl, ?_, ?_⟩ <;> simp [tketRy, transpose, ryAsIs, ryFixed]

/-! ## C16 — gate2zx, symbolic in the phase -/

/-- zx.py:374-375: `⟦Z(1, 1, φ)⟧ = e^{iπφ} • Rz(φ)`. -/
theorem zxRz_sound (r ν ν' : R) (hν : ν * ν' = 1) :
    evalZX r 1 (zxRz ν) = msmul ν (rz ν ν') := by
  simp only [zxRz]; mat_simp; linear_combination -hν

/-- zx.py:374-375: `⟦X(1, 1, φ)⟧ = e^{iπφ} • Rx(φ)`. -/
theorem zxRx_sound (r i c s ν ν' : R) (hr : 2 * r * r = 1) (hν : ν * ν' = 1)
    (hc : 2 * c = ν + ν') (hs : 2 * i * s = ν - ν') :
    evalZX r 1 (zxRx ν) = msmul ν (rx i c s) := by
  simp only [zxRx]; mat_simp; repeat' constructor
  all_goals first
    | ring1
    | linear_combination (ν * c) * hr - (r * r) * hν - (r * r * ν) * hc
    | linear_combination (-(ν * i * s)) * hr - (r * r) * hν + (r * r * ν) * hs

/-- Corrected CRz (phases `φ/2, −φ/2`): `⟦…⟧ = (1/√2) • CRz(φ)` for every phase. -/
theorem zxCRzFixed_sound (r ν ν' : R) (hr : 2 * r * r = 1) (hν : ν * ν' = 1) :
    evalZX r 2 (zxCRzFixed ν ν') = msmul r (crz ν ν') := by
  simp only [zxCRzFixed]; mat_simp; repeat' constructor
  all_goals first
    | ring1
    | linear_combination r * hr
    | linear_combination (ν * ν' * r) * hr + r * hν
    | linear_combination (r * ν') * hr
    | linear_combination (r * ν) * hr

/-- The decomposition of CRz AS IT IS (zx.py:376-378, phases `φ, −φ`) denotes `CRz(2φ)`, not `CRz(φ)`. -/
theorem zxCRzAsIs_denotes_double (r ν ν' : R) (hr : 2 * r * r = 1) (hν : ν * ν' = 1) :
    evalZX r 2 (zxCRzAsIs ν ν') = msmul r (crz (ν * ν) (ν' * ν')) := by
  simp only [zxCRzAsIs]; mat_simp; repeat' constructor
  all_goals first
    | ring1
    | linear_combination r * hr
    | linear_combination (ν * ν * ν' * ν' * r) * hr + (r * (ν * ν' + 1)) * hν
    | linear_combination (r * ν' * ν') * hr
    | linear_combination (r * ν * ν) * hr

/-- Corrected CU1 (all three phases halved): `⟦…⟧ = (1/√2) • CU1(φ)`; `CU1(φ)` has `μ = ν·ν`. -/
theorem zxCU1Fixed_sound (r ν ν' : R) (hr : 2 * r * r = 1) (hν : ν * ν' = 1) :
    evalZX r 2 (zxCU1Fixed ν ν') = msmul r (cu1 (ν * ν)) := by
  simp only [zxCU1Fixed]; mat_simp; repeat' constructor
  all_goals first
    | ring1
    | linear_combination r * hr
    | linear_combination (ν * ν' * r) * hr + r * hν
    | linear_combination (r * ν * ν) * hr

/-- CU1 AS IT IS (zx.py:382-384) denotes `CU1(2φ)`. -/
theorem zxCU1AsIs_denotes_double (r ν ν' : R) (hr : 2 * r * r = 1) (hν : ν * ν' = 1) :
    evalZX r 2 (zxCU1AsIs ν ν') = msmul r (cu1 (ν * ν * (ν * ν))) := by
  simp only [zxCU1AsIs]; mat_simp; repeat' constructor
  all_goals first
    | ring1
    | linear_combination r * hr
    | linear_combination (ν * ν * ν' * ν' * r) * hr + (r * (ν * ν' + 1)) * hν
    | linear_combination (r * ν * ν * ν * ν) * hr

/-- Corrected CRx (Z-coloured control, Hadamard on the control leg of the gadget, phases `±φ/2`):
    `⟦…⟧ = (1/√2) • CRx(φ)` for every phase. -/
theorem zxCRxFixed_sound (r i c s ν ν' : R) (hr : 2 * r * r = 1) (hν : ν * ν' = 1)
    (hc : 2 * c = ν + ν') (hs : 2 * i * s = ν - ν') :
    evalZX r 2 (zxCRxFixed ν ν') = msmul r (crx i c s) := by
  simp only [zxCRxFixed]; mat_simp; repeat' constructor
  all_goals first
    | ring1
    | linear_combination (2 * r ^ 5) * hν + (r * (2 * r * r + 1)) * hr
    | linear_combination (-2 * r ^ 5) * hν
    | linear_combination (-2 * r ^ 5) * hc + (c * r * (2 * r * r + 1)) * hr
    | linear_combination (2 * r ^ 5) * hs - (i * s * r * (2 * r * r + 1)) * hr

set_option linter.unusedTactic false in
/-- The phase-free table entries (zx.py:389-395), symbolic in `r = 1/√2` and `i`. -/
theorem zxNamed_sound (r i : R) (hr : 2 * r * r = 1) :
    evalZX r 1 zxH = hMat r ∧
    evalZX r 1 zxZ = [[1, 0], [0, -1]] ∧
    evalZX r 1 zxX = [[0, 1], [1, 0]] ∧
    evalZX r 1 (zxY i) = [[0, i], [-i, 0]] ∧
    evalZX r 2 zxCZ = msmul r [[1, 0, 0, 0], [0, 1, 0, 0], [0, 0, 1, 0], [0, 0, 0, -1]] ∧
    evalZX r 2 zxCX = msmul r [[1, 0, 0, 0], [0, 1, 0, 0], [0, 0, 0, 1], [0, 0, 1, 0]] := by
  refine ⟨?_, ?_, ?_, ?_, ?_, ?_⟩ <;> simp only [zxH, zxZ, zxX, zxY, zxCZ, zxCX] <;> mat_simp <;>
    repeat' constructor
  all_goals first
    | ring1
    | linear_combination hr
    | linear_combination i * hr
    | linear_combination (-i) * hr
    | linear_combination r * hr

/-- If `A = k • B` entrywise then all cross products agree — so ONE failing cross product
    (`F7_asis_unsound`) refutes proportionality. -/
theorem cross_of_proportional (k a a' b b' : R) (h : a = k * b) (h' : a' = k * b') :
    a * b' = a' * b := by
  rw [h, h']; ring

end Ring


/-! ## C16 — dagger of ZX generators, for ALL arities and ALL phases -/

section ZXDagger
variable {R : Type}

/-- Transposing a table `[[f x y | y ∈ l2] | x ∈ l1]` swaps the two comprehensions. -/
theorem transpose_table {α β : Type} (f : α → β → R) (l2 : List β) :
    ∀ (l1 : List α), l1 ≠ [] →
      transpose (l1.map fun x => l2.map fun y => f x y) = l2.map fun y => l1.map fun x => f x y
  | [], h => absurd rfl h
  | [x], _ => by simp [transpose]
  | x :: x' :: xs, _ => by
    have ih := transpose_table f l2 (x' :: xs) (by simp)
    simp only [List.map_cons] at ih ⊢
    rw [transpose, ih]
    · simp [List.zipWith_map_left, List.zipWith_map_right, List.zipWith_self]
    · simp

theorem bits_ne_nil : ∀ n, bits n ≠ []
  | 0 => by simp [bits]
  | n + 1 => by simp [bits, bits_ne_nil n]

variable [CommRing R] [StarRing R]

/-- zx.py:282-283 for Z spiders: `⟦Z(m, n, −φ)⟧ = ⟦Z(n, m, φ)⟧ᴴ` — every arity, every phase
    (`star μ = e^{−2πiφ}` is the value of the negated phase). -/
theorem zMat_dagger (n m : Nat) (μ : R) : dagger (zMat n m μ) = zMat m n (star μ) := by
  unfold dagger zMat
  rw [transpose_table _ _ _ (bits_ne_nil n)]
  simp only [List.map_map]
  refine List.map_congr_left (fun y _ => ?_)
  simp only [Function.comp, List.map_map]
  refine List.map_congr_left (fun x _ => ?_)
  simp only [Function.comp, Conj.conj]
  rw [Bool.and_comm (allFalse y), Bool.and_comm (allTrue y)]
  split <;> split <;> simp

theorem star_rpow (r : R) (hr : star r = r) : ∀ k, star (rpow r k) = rpow r k
  | 0 => by simp [rpow]
  | k + 1 => by simp [rpow, hr, star_rpow r hr k]

/-- The same for X spiders (`r = 1/√2` is real). -/
theorem xMat_dagger (r : R) (hr : star r = r) (n m : Nat) (μ : R) :
    dagger (xMat r n m μ) = xMat r m n (star μ) := by
  unfold dagger xMat
  rw [transpose_table _ _ _ (bits_ne_nil n)]
  simp only [List.map_map]
  refine List.map_congr_left (fun y _ => ?_)
  simp only [Function.comp, List.map_map]
  refine List.map_congr_left (fun x _ => ?_)
  simp only [Function.comp, Conj.conj]
  rw [star_mul', star_rpow r hr, Nat.add_comm n m, Bool.xor_comm]
  split <;> simp

/-- The dagger of a ZX generator as zx.py defines it (282: legs swapped, phase negated; 330: `H`
    is its own dagger; 354: scalar conjugated; swap), on the level of the values `μ`. -/
def ZXB.daggerS : ZXB R → ZXB R
  | .z n m μ => .z m n (star μ)
  | .x n m μ => .x m n (star μ)
  | .h => .h
  | .swap => .swap
  | .scalar s => .scalar (star s)

/-- `⟦b†⟧ = ⟦b⟧ᴴ` for every generator. -/
theorem zxb_dagger (r : R) (hr : star r = r) (b : ZXB R) :
    b.daggerS.mat r = dagger (b.mat r) := by
  cases b with
  | z n m μ => exact (zMat_dagger n m μ).symm
  | x n m μ => exact (xMat_dagger r hr n m μ).symm
  | h => simp [ZXB.daggerS, ZXB.mat, hMat, dagger, transpose, Conj.conj, hr]
  | swap => simp [ZXB.daggerS, ZXB.mat, swapMat, dagger, transpose, Conj.conj]
  | scalar s => simp [ZXB.daggerS, ZXB.mat, dagger, transpose, Conj.conj]

end ZXDagger

end DV.Gates
