/-
  Proofs/TkInv.lean — the simulation invariant between `toTk` and `canon`, and its preservation
  by the layers that only touch the qubit side (Ket, gates, SWAP, Discard of qubits, scalars).
-/
import Proofs.TkBasic

namespace DV.Tk
open DV

/-! ### renaming commands -/

theorem Cmd.map_map (f g f' g' : Nat → Nat) (c : Cmd) :
    (c.map f g).map f' g' = c.map (f' ∘ f) (g' ∘ g) := by
  simp [Cmd.map, List.map_map]

def CmdIds (cmds : List Cmd) (n m : Nat) : Prop :=
  ∀ c ∈ cmds, (∀ a ∈ c.qs, a < n) ∧ (∀ β ∈ c.bs, β < m)

theorem cmds_congr {cmds : List Cmd} {n m : Nat} {f f' g g' : Nat → Nat} (hid : CmdIds cmds n m)
    (hf : ∀ a, a < n → f a = f' a) (hg : ∀ β, β < m → g β = g' β) :
    cmds.map (Cmd.map f g) = cmds.map (Cmd.map f' g') := by
  apply List.map_congr_left
  intro c hc
  obtain ⟨h1, h2⟩ := hid c hc
  simp only [Cmd.map]
  congr 1
  · exact List.map_congr_left (fun a ha => hf a (h1 a ha))
  · exact List.map_congr_left (fun a ha => hg a (h2 a ha))

theorem CmdIds.mono {cmds : List Cmd} {n m n' m' : Nat} (h : CmdIds cmds n m) (hn : n ≤ n') (hm : m ≤ m') :
    CmdIds cmds n' m' := by
  intro c hc
  obtain ⟨h1, h2⟩ := h c hc
  exact ⟨fun a ha => Nat.lt_of_lt_of_le (h1 a ha) hn, fun a ha => Nat.lt_of_lt_of_le (h2 a ha) hm⟩

theorem CmdIds.snoc {cmds : List Cmd} {n m : Nat} {c : Cmd} (h : CmdIds cmds n m)
    (h1 : ∀ a ∈ c.qs, a < n) (h2 : ∀ β ∈ c.bs, β < m) : CmdIds (cmds ++ [c]) n m := by
  intro c' hc'
  rcases List.mem_append.mp hc' with h' | h'
  · exact h c' h'
  · simp only [List.mem_singleton] at h'; subst h'; exact ⟨h1, h2⟩

theorem BV.map_comp (f g : Nat → Nat) (v : BV) : BV.map f (BV.map g v) = BV.map (f ∘ g) v := by
  cases v <;> rfl

theorem bw_congr {bw : List BV} {m : Nat} {g g' : Nat → Nat} (hlt : ∀ β, BV.reg β ∈ bw → β < m)
    (hg : ∀ β, β < m → g β = g' β) : bw.map (BV.map g) = bw.map (BV.map g') := by
  apply List.map_congr_left
  intro v hv
  cases v with
  | reg β => simp only [BV.map]; rw [hg β (hlt β hv)]
  | out g p => rfl

theorem cg_congr {cg : List CG} {m : Nat} {g g' : Nat → Nat}
    (hlt : ∀ c ∈ cg, ∀ β, BV.reg β ∈ c.2 → β < m)
    (hg : ∀ β, β < m → g β = g' β) : cg.map (CG.map g) = cg.map (CG.map g') := by
  apply List.map_congr_left
  intro c hc
  simp only [CG.map]
  congr 1
  exact bw_congr (hlt c hc) hg

/-! ### the invariant -/

structure Inv (sp : Sp) (st : St) (ρq ρb : Nat → Nat) (dreg : List Nat) : Prop where
  ref : Refines sp st ρq ρb dreg
  qw_lt : ∀ a ∈ sp.qw, a < sp.nq
  qsorted : st.qubits.Pairwise (· < ·)
  cmd_ids : CmdIds sp.cmds sp.nq sp.nb
  bw_lt : ∀ β, BV.reg β ∈ sp.bw → β < sp.nb
  cg_lt : ∀ c ∈ sp.cg, ∀ β, BV.reg β ∈ c.2 → β < sp.nb
  ps_lt : ∀ r, st.ps.has r = true → r < st.nb
  sps_lt : ∀ β, sp.ps.has β = true → β < sp.nb
  bits_lt : ∀ r ∈ st.bits, r < st.nb
  raw : st.pp.layers = [] → st.bits = dreg
  ppcod : st.pp.cod = sp.bw.length
  ppwf : st.pp.WF

theorem Inv.qubits_lt {sp st ρq ρb dreg} (h : Inv sp st ρq ρb dreg) : ∀ r ∈ st.qubits, r < st.nq := by
  intro r hr
  rw [h.ref.qubits] at hr
  obtain ⟨a, ha, rfl⟩ := List.mem_map.mp hr
  exact h.ref.injq.1 a (h.qw_lt a ha)

theorem inv_init : Inv {} {} id id [] where
  ref := {
    nq := rfl
    nb := rfl
    injq := ⟨fun a h => absurd h (Nat.not_lt_zero a), fun a b h => absurd h (Nat.not_lt_zero a)⟩
    injb := ⟨fun a h => absurd h (Nat.not_lt_zero a), fun a b h => absurd h (Nat.not_lt_zero a)⟩
    cmds := rfl
    qubits := rfl
    ps := fun β h => absurd h (Nat.not_lt_zero β)
    scal := rfl
    readout := ⟨List.Pairwise.nil, fun r => by simp [PS.has]⟩
    ppdom := rfl
    pp := rfl }
  qw_lt := fun a h => by cases h
  qsorted := List.Pairwise.nil
  cmd_ids := fun c h => by cases h
  bw_lt := fun β h => by cases h
  cg_lt := fun c h => by cases h
  ps_lt := fun r h => by simp [PS.has] at h
  sps_lt := fun r h => by simp [PS.has] at h
  bits_lt := fun r h => by cases h
  raw := fun _ => rfl
  ppcod := rfl
  ppwf := rfl

/-! ### sorted register lists -/

theorem sorted_at {xs : List Nat} {k r : Nat} (hs : xs.Pairwise (· < ·)) (hk : xs[k]? = some r) :
    (∀ x ∈ xs.take k, x < r) ∧ (∀ x ∈ xs.drop (k + 1), r < x) := by
  have hlt : k < xs.length := by
    rcases Nat.lt_or_ge k xs.length with h | h
    · exact h
    · rw [List.getElem?_eq_none h] at hk; cases hk
  have hr : xs[k] = r := by
    have := List.getElem?_eq_getElem (l := xs) (i := k) hlt
    rw [this] at hk; exact Option.some.inj hk
  have e : xs = xs.take k ++ r :: xs.drop (k + 1) := by
    conv => lhs; rw [← List.take_append_drop k xs]
    rw [List.drop_eq_getElem_cons hlt, hr]
  rw [e] at hs
  rw [List.pairwise_append] at hs
  obtain ⟨_, h2, h3⟩ := hs
  rw [List.pairwise_cons] at h2
  exact ⟨fun x hx => h3 x hx r (List.mem_cons_self), h2.1⟩

theorem shiftFrom_inj {s n x y : Nat} (h : shiftFrom s n x = shiftFrom s n y) : x = y := by
  unfold shiftFrom at h; split at h <;> split at h <;> omega

theorem map_range' (f : Nat → Nat) (s t n : Nat) (h : ∀ i, i < n → f (s + i) = t + i) :
    (List.range' s n).map f = List.range' t n := by
  induction n generalizing s t with
  | zero => rfl
  | succ n ih =>
    simp only [List.range'_succ, List.map_cons]
    congr 1
    · simpa using h 0 (by omega)
    · apply ih
      intro i hi
      have := h (i + 1) (by omega)
      simp only [Nat.add_assoc, Nat.add_comm 1 i] at *
      omega

theorem removeAt_sublist {α} (xs : List α) (off n : Nat) : (removeAt xs off n).Sublist xs := by
  unfold removeAt
  conv => rhs; rw [← List.take_append_drop off xs]
  exact List.Sublist.append (List.Sublist.refl _) (List.drop_sublist_drop_left xs (by omega))

/-- The three facts about `start` that make `insertRegs` keep a register list sorted. -/
theorem startOf_spec {regs : List Nat} {total off start : Nat} (hs : regs.Pairwise (· < ·))
    (hlt : ∀ r ∈ regs, r < total) (h : startOf regs total off = .ok start) :
    (∀ r ∈ regs.take off, r < start) ∧ (∀ r ∈ regs.drop off, start ≤ r) ∧ start ≤ total := by
  unfold startOf at h
  split at h
  · rename_i he
    have : regs = [] := by simpa using he
    subst this; cases h; simp
  · split at h
    · rename_i h0; subst h0; cases h; simp
    · rename_i hne h0
      split at h
      · rename_i r hr
        cases h
        obtain ⟨h1, h2⟩ := sorted_at hs hr
        have hoff : off - 1 + 1 = off := by omega
        rw [hoff] at h2
        refine ⟨?_, fun x hx => h2 x hx, ?_⟩
        · intro x hx
          have hlen : off - 1 < regs.length := by
            rcases Nat.lt_or_ge (off - 1) regs.length with h | h
            · exact h
            · rw [List.getElem?_eq_none h] at hr; cases hr
          have : regs.take off = regs.take (off - 1) ++ [r] := by
            have := List.take_succ (l := regs) (i := off - 1)
            rw [hoff] at this
            rw [this, hr]; rfl
          rw [this] at hx
          rcases List.mem_append.mp hx with hx | hx
          · have := h1 x hx; omega
          · simp at hx; omega
        · have := hlt r (List.mem_of_getElem? hr); omega
      · cases h

theorem insertRegs_sorted {regs : List Nat} {off start n : Nat} (hs : regs.Pairwise (· < ·))
    (h1 : ∀ r ∈ regs.take off, r < start) (h2 : ∀ r ∈ regs.drop off, start ≤ r) :
    (insertRegs regs off start n).Pairwise (· < ·) := by
  unfold insertRegs
  rw [List.pairwise_append, List.pairwise_append]
  refine ⟨⟨hs.sublist (List.take_sublist _ _), List.pairwise_lt_range', ?_⟩, ?_, ?_⟩
  · intro a ha b hb
    have := h1 a ha
    have := (List.mem_range'_1.mp hb).1
    omega
  · rw [List.pairwise_map]
    exact (hs.sublist (List.drop_sublist _ _)).imp (by intro a b h; omega)
  · intro a ha b hb
    obtain ⟨c, hc, rfl⟩ := List.mem_map.mp hb
    have := h2 c hc
    rcases List.mem_append.mp ha with ha | ha
    · have := h1 a ha; omega
    · have := (List.mem_range'_1.mp ha).2; omega

theorem insertRegs_lt {regs : List Nat} {off start n total : Nat} (hlt : ∀ r ∈ regs, r < total)
    (hst : start ≤ total) : ∀ r ∈ insertRegs regs off start n, r < total + n := by
  intro r hr
  unfold insertRegs at hr
  rcases List.mem_append.mp hr with hr | hr
  · rcases List.mem_append.mp hr with hr | hr
    · have := hlt r (List.mem_of_mem_take hr); omega
    · have := (List.mem_range'_1.mp hr).2; omega
  · obtain ⟨c, hc, rfl⟩ := List.mem_map.mp hr
    have := hlt c (List.mem_of_mem_drop hc); omega

/-- The extension of a register naming at a preparation. -/
def extend (ρ : Nat → Nat) (old start n : Nat) (a : Nat) : Nat :=
  if a < old then shiftFrom start n (ρ a) else start + (a - old)

theorem extend_inj {ρ : Nat → Nat} {old total start n : Nat} (h : InjBelow ρ old total)
    (hst : start ≤ total) : InjBelow (extend ρ old start n) (old + n) (total + n) := by
  constructor
  · intro a ha
    unfold extend
    split
    · rename_i hlt
      have := h.1 a hlt
      unfold shiftFrom; split <;> omega
    · omega
  · intro a b ha hb hab
    unfold extend at hab
    split at hab <;> split at hab
    · rename_i h1 h2; exact h.2 a b h1 h2 (shiftFrom_inj hab)
    · rename_i h1 h2
      unfold shiftFrom at hab; split at hab <;> omega
    · rename_i h1 h2
      unfold shiftFrom at hab; split at hab <;> omega
    · omega

/-- The inserted list is the image of the specified one under the extended naming. -/
theorem insertRegs_map {ρ : Nat → Nat} {ws : List Nat} {regs : List Nat} {off start n old : Nat}
    (hmap : regs = ws.map ρ) (hws : ∀ a ∈ ws, a < old)
    (h1 : ∀ r ∈ regs.take off, r < start) (h2 : ∀ r ∈ regs.drop off, start ≤ r) :
    insertRegs regs off start n = (insertAt ws off (List.range' old n)).map (extend ρ old start n) := by
  unfold insertRegs insertAt
  rw [List.map_append, List.map_append]
  congr 1
  · congr 1
    · subst hmap
      rw [← List.map_take]
      apply List.map_congr_left
      intro a ha
      have hlt := hws a (List.mem_of_mem_take ha)
      have : ρ a < start := h1 (ρ a) (by rw [← List.map_take]; exact List.mem_map_of_mem ha)
      simp only [extend, hlt, ↓reduceIte, shiftFrom]
      split <;> omega
    · symm
      apply map_range'
      intro i hi
      simp only [extend]
      have : ¬ (old + i < old) := by omega
      simp only [this, ↓reduceIte]; omega
  · subst hmap
    rw [← List.map_drop, List.map_map]
    apply List.map_congr_left
    intro a ha
    have hlt := hws a (List.mem_of_mem_drop ha)
    have : start ≤ ρ a := h2 (ρ a) (by rw [← List.map_drop]; exact List.mem_map_of_mem ha)
    simp only [Function.comp, extend, hlt, ↓reduceIte, shiftFrom, this]

/-! ### Ket -/

theorem prepareQubits_inv {sp : Sp} {st st' : St} {ρq ρb dreg} {n lq : Nat}
    (h : Inv sp st ρq ρb dreg) (hs : prepareQubits st n lq = .ok st') :
    ∃ ρq', Inv { sp with nq := sp.nq + n, qw := insertAt sp.qw lq (List.range' sp.nq n) } st' ρq' ρb dreg := by
  unfold prepareQubits at hs
  split at hs
  · cases hs
  · rename_i start hst
    cases hs
    obtain ⟨h1, h2, h3⟩ := startOf_spec h.qsorted h.qubits_lt hst
    refine ⟨extend ρq sp.nq start n, ?_⟩
    have hnq := h.ref.nq
    refine { h with ref := { h.ref with nq := ?_, injq := ?_, cmds := ?_, qubits := ?_ }, qw_lt := ?_, qsorted := ?_, cmd_ids := ?_ }
    · simp [prepareQubitsAt, hnq]
    · simp only [prepareQubitsAt]
      exact extend_inj h.ref.injq h3
    · simp only [prepareQubitsAt]
      rw [h.ref.cmds, List.map_map]
      apply List.map_congr_left
      intro c hc
      obtain ⟨hc1, _⟩ := h.cmd_ids c hc
      simp only [Function.comp, Cmd.map, List.map_map, List.map_id]
      congr 1
      apply List.map_congr_left
      intro a ha
      simp [extend, hc1 a ha]
    · simp only [prepareQubitsAt]
      exact insertRegs_map h.ref.qubits h.qw_lt h1 h2
    · intro a ha
      rcases mem_insertAt ha with ha | ha
      · have := h.qw_lt a ha; simp only; omega
      · have := (List.mem_range'_1.mp ha).2; simp only; omega
    · simp only [prepareQubitsAt]
      exact insertRegs_sorted h.qsorted h1 h2
    · exact h.cmd_ids.mono (by simp) (Nat.le_refl _)

/-! ### gates -/

theorem regsAt_map {ρ : Nat → Nat} {ws : List Nat} {off : Nat} {js qs : List Nat}
    (h : regsAt (ws.map ρ) off js = .ok qs) :
    ∃ as, regsAt ws off js = .ok as ∧ qs = as.map ρ ∧ ∀ a ∈ as, a ∈ ws := by
  induction js generalizing qs with
  | nil => simp [regsAt] at h; subst h; exact ⟨[], rfl, rfl, by simp⟩
  | cons j js ih =>
    simp only [regsAt, List.getElem?_map] at h
    cases hw : ws[off + j]? with
    | none => simp [hw] at h
    | some a =>
      simp only [hw, Option.map_some] at h
      cases hr : regsAt (ws.map ρ) off js with
      | error e => simp [hr] at h
      | ok rs =>
        simp only [hr] at h
        cases h
        obtain ⟨as, e1, e2, e3⟩ := ih hr
        refine ⟨a :: as, ?_, by simp [e2], ?_⟩
        · simp [regsAt, hw, e1]
        · intro x hx
          rcases List.mem_cons.mp hx with rfl | hx
          · exact List.mem_of_getElem? hw
          · exact e3 x hx

theorem addGate_inv {sp : Sp} {st st' : St} {ρq ρb dreg} {box : TBox} {lq : Nat}
    (h : Inv sp st ρq ρb dreg) (hs : addGate st box lq = .ok st') :
    ∃ sp', Sp.addGate sp box lq = .ok sp' ∧ Inv sp' st' ρq ρb dreg := by
  unfold addGate at hs
  split at hs
  · cases hs
  · rename_i qs hq
    split at hs
    · cases hs
    · rename_i op par hop
      cases hs
      rw [h.ref.qubits] at hq
      obtain ⟨as, e1, e2, e3⟩ := regsAt_map hq
      refine ⟨{ sp with cmds := sp.cmds ++ [⟨op, par, as, []⟩] }, by simp [Sp.addGate, e1, hop], ?_⟩
      refine { h with ref := { h.ref with cmds := ?_ }, cmd_ids := ?_ }
      · simp [h.ref.cmds, Cmd.map, e2]
      · exact h.cmd_ids.snoc (fun a ha => h.qw_lt a (e3 a ha)) (by simp)

/-! ### SWAP on qubits -/

theorem transp_fix {a b r : Nat} (h1 : r ≠ a) (h2 : r ≠ b) : transp a b r = r := by
  simp [transp, h1, h2]

theorem transp_inj {a b x y : Nat} (h : transp a b x = transp a b y) : x = y := by
  unfold transp at h
  split at h <;> split at h <;> (try split at h) <;> (try split at h) <;> omega

theorem swapQubits_inv {sp : Sp} {st st' : St} {ρq ρb dreg} {lq : Nat}
    (h : Inv sp st ρq ρb dreg) (hs : swapQubits st lq = .ok st') :
    ∃ ρq', sp.qw.length ≥ lq + 2 ∧ Inv { sp with qw := swapAt sp.qw lq } st' ρq' ρb dreg := by
  unfold swapQubits at hs
  split at hs
  · rename_i a b ha hb
    cases hs
    rw [h.ref.qubits, List.getElem?_map] at ha hb
    cases hx : sp.qw[lq]? with
    | none => simp [hx] at ha
    | some x =>
      cases hy : sp.qw[lq + 1]? with
      | none => simp [hy] at hb
      | some y =>
        simp only [hx, hy, Option.map_some, Option.some.injEq] at ha hb
        have hsplit := split_two hx hy
        have hlen : lq + 1 < sp.qw.length := by
          rcases Nat.lt_or_ge (lq + 1) sp.qw.length with h' | h'
          · exact h'
          · rw [List.getElem?_eq_none h'] at hy; cases hy
        refine ⟨transp a b ∘ ρq, by omega, ?_⟩
        have hlt : (sp.qw.take lq).length = lq := take_length_le (by omega)
        -- the sorted register list, split at the swap
        have hq : st.qubits = (sp.qw.take lq).map ρq ++ [a, b] ++ (sp.qw.drop (lq + 2)).map ρq := by
          rw [h.ref.qubits]
          conv => lhs; rw [hsplit]
          simp [ha, hb]
        have hs := h.qsorted
        rw [hq, List.pairwise_append, List.pairwise_append] at hs
        obtain ⟨⟨_, hab, hpre⟩, _, hpost⟩ := hs
        have hab' : a < b := by simpa using hab
        refine { h with ref := { h.ref with injq := ?_, cmds := ?_, qubits := ?_ }, qw_lt := ?_ }
        · constructor
          · intro c hc
            have := h.ref.injq.1 c hc
            have ha' : a < st.nq := h.qubits_lt a (by rw [hq]; simp)
            have hb' : b < st.nq := h.qubits_lt b (by rw [hq]; simp)
            simp only [Function.comp, transp]
            split
            · exact hb'
            · split
              · exact ha'
              · exact this
          · intro c d hc hd hcd
            exact h.ref.injq.2 c d hc hd (transp_inj hcd)
        · simp only
          rw [h.ref.cmds, List.map_map]
          apply List.map_congr_left
          intro c _
          simp [Function.comp, Cmd.map]
        · simp only
          rw [hq]
          conv => rhs; rw [hsplit]
          have := swapAt_split (sp.qw.take lq) (sp.qw.drop (lq + 2)) x y
          rw [hlt] at this
          rw [this]
          simp only [List.map_append, List.map_cons, List.map_nil, Function.comp]
          have e1 : (sp.qw.take lq).map (transp a b ∘ ρq) = (sp.qw.take lq).map ρq := by
            apply List.map_congr_left
            intro c hc
            have h1 := hpre (ρq c) (List.mem_map_of_mem hc) a (by simp)
            have h2 := hpre (ρq c) (List.mem_map_of_mem hc) b (by simp)
            exact transp_fix (by omega) (by omega)
          have e2 : (sp.qw.drop (lq + 2)).map (transp a b ∘ ρq) = (sp.qw.drop (lq + 2)).map ρq := by
            apply List.map_congr_left
            intro c hc
            have h1 := hpost a (by simp) (ρq c) (List.mem_map_of_mem hc)
            have h2 := hpost b (by simp) (ρq c) (List.mem_map_of_mem hc)
            exact transp_fix (by omega) (by omega)
          rw [e1, e2, ← ha, ← hb]
          simp [transp]
          intro hxy
          omega
        · intro c hc
          exact h.qw_lt c (mem_swapAt hc)
  · cases hs

/-! ### Discard of qubits, destructive measurement, post-selection: removing wires -/

theorem dropQubits_inv {sp : Sp} {st : St} {ρq ρb dreg} {lq n : Nat} (h : Inv sp st ρq ρb dreg) :
    Inv (sp.dropQubits lq n) (dropQubits st lq n) ρq ρb dreg := by
  refine { h with ref := { h.ref with qubits := ?_ }, qw_lt := ?_, qsorted := ?_ }
  · simp only [dropQubits, Sp.dropQubits, removeRegs_eq, h.ref.qubits, removeAt_map]
  · intro a ha; exact h.qw_lt a (mem_removeAt ha)
  · exact h.qsorted.sublist (removeAt_sublist _ _ _)

end DV.Tk
