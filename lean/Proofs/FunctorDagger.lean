/-
  Proofs/FunctorDagger.lean — C04: `F(d†) = F(d)†` for diagrams whose boxes satisfy the box-level
  dagger law (generator boxes do; `Swap(x, y)` with two multi-wire images does not: finding F6).
-/
import Proofs.FunctorTensor

namespace DV

/-! ### Structural laws of `thenD` and dagger -/

theorem thenD_assoc (a b c : Diagram) : (a.thenD b).thenD c = a.thenD (b.thenD c) := by
  simp [Diagram.thenD, List.append_assoc]

theorem thenD_dagger (a b : Diagram) : (a.thenD b).dagger = b.dagger.thenD a.dagger := by
  simp [Diagram.thenD, Diagram.dagger, Diagram.ofLayers, LArrow.dag]

theorem id_thenD {t : Ty} {x : Diagram} (hx : x.WF) (h : x.dom = t) : (Diagram.id t).thenD x = x := by
  cases x with | mk dom cod boxes offsets layers =>
  cases layers with | mk ld lc lb =>
  have h1 := hx.ldom
  simp only at h h1
  subst h h1
  simp [Diagram.thenD, Diagram.id, LArrow.id]

theorem thenD_id {t : Ty} {x : Diagram} (hx : x.WF) (h : x.cod = t) : x.thenD (Diagram.id t) = x := by
  cases x with | mk dom cod boxes offsets layers =>
  cases layers with | mk ld lc lb =>
  have h1 := hx.lcod
  simp only at h h1
  subst h h1
  simp [Diagram.thenD, Diagram.id, LArrow.id]

theorem whiskR_dag (t : Ty) (l : Layer) : (whiskR t l).dag = whiskR t l.dag := rfl
theorem whiskL_dag (t : Ty) (l : Layer) : (whiskL t l).dag = whiskL t l.dag := rfl

/-- `(Id(l) @ x @ Id(r))† = Id(l) @ x† @ Id(r)`. -/
theorem layerD_dagger (l r : Ty) {x : Diagram} (hx : x.WF) :
    (layerD l x r).dagger = layerD l x.dagger r := by
  have hd := hx.ldom
  have hc := hx.lcod
  simp only [layerD, Diagram.tensorD, Diagram.dagger, Diagram.ofLayers, Diagram.id, LArrow.id,
    LArrow.dag, List.map_nil, List.append_nil, List.nil_append, List.map_map, List.map_reverse,
    Diagram.mk.injEq, LArrow.mk.injEq]
  refine ⟨by simp [hc], by simp [hd], ?_, ?_, by simp [hc], by simp [hd], ?_⟩
  · simp [Function.comp_def, whiskR, whiskL, Layer.dag]
  · simp [Function.comp_def, whiskR, whiskL, Layer.dag, Int.add_comm]
  · simp [Function.comp_def, whiskR, whiskL, Layer.dag]

/-! ### The functor's loop as a fold of layer images -/

/-- `L` is the image of the layer `l`: `Id(F left) @ F(box) @ Id(F right)`. -/
def Functor.Img (F : Functor) (l : Layer) (L : Diagram) : Prop :=
  ∃ lt rt x, F.ty l.left = .ok lt ∧ F.ty l.right = .ok rt ∧ F.box l.box = .ok x ∧ x.WF ∧
    F.ty l.box.dom = .ok x.dom ∧ F.ty l.box.cod = .ok x.cod ∧ L = layerD lt x rt

inductive Functor.Imgs (F : Functor) : List Layer → List Diagram → Prop
  | nil : Functor.Imgs F [] []
  | cons {l ls L Ls} : F.Img l L → Functor.Imgs F ls Ls → Functor.Imgs F (l :: ls) (L :: Ls)

theorem Functor.Img.props {F : Functor} {l : Layer} {L : Diagram} (h : F.Img l L) :
    L.WF ∧ F.ty l.dom = .ok L.dom ∧ F.ty l.cod = .ok L.cod := by
  obtain ⟨lt, rt, x, h1, h2, _, xw, xd, xc, rfl⟩ := h
  refine ⟨layerD_wf xw, ?_, ?_⟩
  · have := F.ty_append (F.ty_append h1 xd) h2
    simpa [Layer.dom, layerD, Diagram.tensorD, Diagram.id] using this
  · have := F.ty_append (F.ty_append h1 xc) h2
    simpa [Layer.cod, layerD, Diagram.tensorD, Diagram.id] using this

def foldT (res : Diagram) (Ls : List Diagram) : Diagram := Ls.foldl Diagram.thenD res

/-- Forward: a successful loop is the fold of the layer images. -/
theorem Functor.loop_fold (F : Functor) {scan c : Ty} {res r : Diagram} {ls : List Layer}
    (hch : Chain scan ls c) (hres : res.WF)
    (hok : ∀ l ∈ ls, F.okOn l.box)
    (h : F.loop scan res (ls.map (·.box)) (ls.map (fun l => (l.left.length : Int))) = .ok r) :
    ∃ Ls, F.Imgs ls Ls ∧ r = foldT res Ls := by
  induction ls generalizing scan res with
  | nil => simp only [List.map_nil, Functor.loop, Except.ok.injEq] at h; exact ⟨[], .nil, h.symm⟩
  | cons l ls ih =>
    obtain ⟨hs, hc⟩ := hch
    subst hs
    simp only [List.map_cons, Functor.loop] at h
    split at h
    · cases h
    · rename_i scan' res' hstep
      have hokl := hok l (List.mem_cons_self ..)
      obtain ⟨L, R, x, hL, hR, hx, xw, hcod, rfl⟩ := F.stepBox_inv hres hokl hstep
      have hsc := F.stepBox_scan hstep
      have e1 := slice_left_of_layer (l := l) []
      have e2 := slice_right_of_layer (l := l) []
      simp only [List.append_nil] at e1 e2
      rw [e1] at hL; rw [e2] at hR
      have hscan' : scan' = l.cod := by rw [hsc, e1, e2]; rfl
      obtain ⟨_, xd, xc⟩ := hokl x hx
      have hw' : (res.thenD (layerD L x R)).WF :=
        Diagram.thenD_wf hres (layerD_wf xw) (by simp [hcod, layerD, Diagram.tensorD, Diagram.id])
      obtain ⟨Ls, hi, hr⟩ := ih (scan := l.cod) hc hw'
        (fun l' hl' => hok l' (List.mem_cons_of_mem _ hl')) (by rw [← hscan']; exact h)
      exact ⟨layerD L x R :: Ls, .cons ⟨L, R, x, hL, hR, hx, xw, xd, xc, rfl⟩ hi, hr⟩

/-- Backward: given the layer images and a running result of the right type, the loop succeeds
    with their fold. -/
theorem Functor.loop_of_fold (F : Functor) {scan c : Ty} {res : Diagram} {ls : List Layer}
    {Ls : List Diagram} (hch : Chain scan ls c) (hres : res.WF) (hty : F.ty scan = .ok res.cod)
    (hi : F.Imgs ls Ls) :
    F.loop scan res (ls.map (·.box)) (ls.map (fun l => (l.left.length : Int))) = .ok (foldT res Ls) := by
  induction hi generalizing scan res with
  | nil => simp [Functor.loop, foldT]
  | @cons l ls L Ls himg _ ih =>
    obtain ⟨hs, hc⟩ := hch
    subst hs
    obtain ⟨Lw, Ld, Lc⟩ := himg.props
    obtain ⟨lt, rt, x, h1, h2, hx, xw, xd, xc, rfl⟩ := himg
    have hcod : res.cod = lt ++ x.dom ++ rt := by
      have := F.ty_append (F.ty_append h1 xd) h2
      have e : l.left ++ l.box.dom ++ l.right = l.dom := rfl
      rw [e, hty] at this
      exact Except.ok.inj this
    simp only [List.map_cons, Functor.loop]
    have e1 := slice_left_of_layer (l := l) []
    have e2 := slice_right_of_layer (l := l) []
    simp only [List.append_nil] at e1 e2
    rw [F.stepBox_eq (l := lt) (r := rt) (x := x) hres xw (by rw [e1]; exact h1)
      (by rw [e2]; exact h2) hx hcod]
    simp only
    rw [e1, e2]
    have hw' : (res.thenD (layerD lt x rt)).WF :=
      Diagram.thenD_wf hres Lw (by simp [hcod, layerD, Diagram.tensorD, Diagram.id])
    have := ih (scan := l.cod) (res := res.thenD (layerD lt x rt)) hc hw'
      (by simpa [Diagram.thenD] using Lc)
    simpa [foldT, Layer.cod] using this

end DV
