/-
  Proofs/FunctorDagger.lean — C04: `F(d†) = F(d)†` for diagrams whose boxes satisfy the box-level
  dagger law (generator boxes do; `Swap(x, y)` with two multi-wire images does not: finding F6).
-/
import Proofs.FunctorTensor

namespace DV

/-! ### Structural laws of `thenD` and dagger -/

theorem thenD_assoc (a b c : Diagram) : (a.thenD b).thenD c = a.thenD (b.thenD c) := by
  simp [Diagram.thenD, List.append_assoc]

theorem thenD_dagger (a b : Diagram) : (a.thenD b).dagger = b.dagger.thenD a.dagger := by
  simp [Diagram.thenD, Diagram.dagger, Diagram.ofLayers, LArrow.dag]

theorem id_thenD {t : Ty} {x : Diagram} (hx : x.WF) (h : x.dom = t) : (Diagram.id t).thenD x = x := by
  cases x with | mk dom cod boxes offsets layers =>
  cases layers with | mk ld lc lb =>
  have h1 := hx.ldom
  simp only at h h1
  subst h h1
  simp [Diagram.thenD, Diagram.id, LArrow.id]

theorem thenD_id {t : Ty} {x : Diagram} (hx : x.WF) (h : x.cod = t) : x.thenD (Diagram.id t) = x := by
  cases x with | mk dom cod boxes offsets layers =>
  cases layers with | mk ld lc lb =>
  have h1 := hx.lcod
  simp only at h h1
  subst h h1
  simp [Diagram.thenD, Diagram.id, LArrow.id]

theorem whiskR_dag (t : Ty) (l : Layer) : (whiskR t l).dag = whiskR t l.dag := rfl
theorem whiskL_dag (t : Ty) (l : Layer) : (whiskL t l).dag = whiskL t l.dag := rfl

/-- `(Id(l) @ x @ Id(r))† = Id(l) @ x† @ Id(r)`. -/
theorem layerD_dagger (l r : Ty) {x : Diagram} (hx : x.WF) :
    (layerD l x r).dagger = layerD l x.dagger r := by
  have hd := hx.ldom
  have hc := hx.lcod
  simp only [layerD, Diagram.tensorD, Diagram.dagger, Diagram.ofLayers, Diagram.id, LArrow.id,
    LArrow.dag, List.map_nil, List.append_nil, List.nil_append, List.map_map, List.map_reverse,
    Diagram.mk.injEq, LArrow.mk.injEq]
  refine ⟨by simp [hc], by simp [hd], ?_, ?_, by simp [hc], by simp [hd], ?_⟩
  · simp [Function.comp_def, whiskR, whiskL, Layer.dag]
  · simp [Function.comp_def, whiskR, whiskL, Layer.dag, Int.add_comm]
  · simp [Function.comp_def, whiskR, whiskL, Layer.dag]

/-! ### The functor's loop as a fold of layer images -/

/-- `L` is the image of the layer `l`: `Id(F left) @ F(box) @ Id(F right)`. -/
def Functor.Img (F : Functor) (l : Layer) (L : Diagram) : Prop :=
  ∃ lt rt x, F.ty l.left = .ok lt ∧ F.ty l.right = .ok rt ∧ F.box l.box = .ok x ∧ x.WF ∧
    F.ty l.box.dom = .ok x.dom ∧ F.ty l.box.cod = .ok x.cod ∧ L = layerD lt x rt

inductive Functor.Imgs (F : Functor) : List Layer → List Diagram → Prop
  | nil : Functor.Imgs F [] []
  | cons {l ls L Ls} : F.Img l L → Functor.Imgs F ls Ls → Functor.Imgs F (l :: ls) (L :: Ls)

theorem Functor.Img.props {F : Functor} {l : Layer} {L : Diagram} (h : F.Img l L) :
    L.WF ∧ F.ty l.dom = .ok L.dom ∧ F.ty l.cod = .ok L.cod := by
  obtain ⟨lt, rt, x, h1, h2, _, xw, xd, xc, rfl⟩ := h
  refine ⟨layerD_wf xw, ?_, ?_⟩
  · have := F.ty_append (F.ty_append h1 xd) h2
    simpa [Layer.dom, layerD, Diagram.tensorD, Diagram.id] using this
  · have := F.ty_append (F.ty_append h1 xc) h2
    simpa [Layer.cod, layerD, Diagram.tensorD, Diagram.id] using this

def foldT (res : Diagram) (Ls : List Diagram) : Diagram := Ls.foldl Diagram.thenD res

/-- Forward: a successful loop is the fold of the layer images. -/
theorem Functor.loop_fold (F : Functor) {scan c : Ty} {res r : Diagram} {ls : List Layer}
    (hch : Chain scan ls c) (hres : res.WF)
    (hok : ∀ l ∈ ls, F.okOn l.box)
    (h : F.loop scan res (ls.map (·.box)) (ls.map (fun l => (l.left.length : Int))) = .ok r) :
    ∃ Ls, F.Imgs ls Ls ∧ r = foldT res Ls := by
  induction ls generalizing scan res with
  | nil => simp only [List.map_nil, Functor.loop, Except.ok.injEq] at h; exact ⟨[], .nil, h.symm⟩
  | cons l ls ih =>
    obtain ⟨hs, hc⟩ := hch
    subst hs
    simp only [List.map_cons, Functor.loop] at h
    split at h
    · cases h
    · rename_i scan' res' hstep
      have hokl := hok l (List.mem_cons_self ..)
      obtain ⟨L, R, x, hL, hR, hx, xw, hcod, rfl⟩ := F.stepBox_inv hres hokl hstep
      have hsc := F.stepBox_scan hstep
      have e1 := slice_left_of_layer (l := l) []
      have e2 := slice_right_of_layer (l := l) []
      simp only [List.append_nil] at e1 e2
      rw [e1] at hL; rw [e2] at hR
      have hscan' : scan' = l.cod := by rw [hsc, e1, e2]; rfl
      obtain ⟨_, xd, xc⟩ := hokl x hx
      have hw' : (res.thenD (layerD L x R)).WF :=
        Diagram.thenD_wf hres (layerD_wf xw) (by simp [hcod, layerD, Diagram.tensorD, Diagram.id])
      obtain ⟨Ls, hi, hr⟩ := ih (scan := l.cod) hc hw'
        (fun l' hl' => hok l' (List.mem_cons_of_mem _ hl')) (by rw [← hscan']; exact h)
      exact ⟨layerD L x R :: Ls, .cons ⟨L, R, x, hL, hR, hx, xw, xd, xc, rfl⟩ hi, hr⟩

/-- Backward: given the layer images and a running result of the right type, the loop succeeds
    with their fold. -/
theorem Functor.loop_of_fold (F : Functor) {scan c : Ty} {res : Diagram} {ls : List Layer}
    {Ls : List Diagram} (hch : Chain scan ls c) (hres : res.WF) (hty : F.ty scan = .ok res.cod)
    (hi : F.Imgs ls Ls) :
    F.loop scan res (ls.map (·.box)) (ls.map (fun l => (l.left.length : Int))) = .ok (foldT res Ls) := by
  induction hi generalizing scan res with
  | nil => simp [Functor.loop, foldT]
  | @cons l ls L Ls himg _ ih =>
    obtain ⟨hs, hc⟩ := hch
    subst hs
    obtain ⟨Lw, Ld, Lc⟩ := himg.props
    obtain ⟨lt, rt, x, h1, h2, hx, xw, xd, xc, rfl⟩ := himg
    have hcod : res.cod = lt ++ x.dom ++ rt := by
      have := F.ty_append (F.ty_append h1 xd) h2
      have e : l.left ++ l.box.dom ++ l.right = l.dom := rfl
      rw [e, hty] at this
      exact Except.ok.inj this
    simp only [List.map_cons, Functor.loop]
    have e1 := slice_left_of_layer (l := l) []
    have e2 := slice_right_of_layer (l := l) []
    simp only [List.append_nil] at e1 e2
    rw [F.stepBox_eq (l := lt) (r := rt) (x := x) hres xw (by rw [e1]; exact h1)
      (by rw [e2]; exact h2) hx hcod]
    simp only
    rw [e1, e2]
    have hw' : (res.thenD (layerD lt x rt)).WF :=
      Diagram.thenD_wf hres Lw (by simp [hcod, layerD, Diagram.tensorD, Diagram.id])
    have := ih (scan := l.cod) (res := res.thenD (layerD lt x rt)) hc hw'
      (by simpa [Diagram.thenD] using Lc)
    simpa [foldT, Layer.cod] using this

end DV

namespace DV

/-! ### Dagger of a fold -/

/-- `M₁ ≫ (M₂ ≫ … (Mₖ ≫ z))`. -/
def foldR (Ms : List Diagram) (z : Diagram) : Diagram := Ms.foldr Diagram.thenD z

theorem foldT_append (res : Diagram) (Ls : List Diagram) (L : Diagram) :
    foldT res (Ls ++ [L]) = (foldT res Ls).thenD L := by simp [foldT, List.foldl_append]

theorem foldT_dagger (res : Diagram) (Ls : List Diagram) :
    (foldT res Ls).dagger = foldR (Ls.reverse.map Diagram.dagger) res.dagger := by
  induction Ls generalizing res with
  | nil => simp [foldT, foldR]
  | cons L Ls ih =>
    have : foldT res (L :: Ls) = foldT (res.thenD L) Ls := rfl
    rw [this, ih, thenD_dagger]
    simp [foldR, List.foldr_append]

/-- `foldT a Ms = a ≫ foldR Ms (last identity)` reassociated: a left fold is the right fold when the
    seed is moved to the front. -/
theorem foldT_eq_thenD_foldR (a z : Diagram) (Ms : List Diagram) :
    (foldT a Ms).thenD z = a.thenD (foldR Ms z) := by
  induction Ms generalizing a with
  | nil => simp [foldT, foldR]
  | cons M Ms ih =>
    have : foldT a (M :: Ms) = foldT (a.thenD M) Ms := rfl
    rw [this, ih, thenD_assoc]
    simp [foldR]

/-- Typing of the images along a chain of layers. -/
theorem Functor.Imgs.chain {F : Functor} {ls : List Layer} {Ls : List Diagram} (h : F.Imgs ls Ls) :
    ∀ L ∈ Ls, L.WF := by
  induction h with
  | nil => simp
  | cons himg _ ih =>
    intro L hL
    rcases List.mem_cons.mp hL with rfl | hL
    · exact himg.props.1
    · exact ih L hL

theorem Functor.Imgs.foldT_props {F : Functor} {scan c : Ty} {ls : List Layer} {Ls : List Diagram}
    {res : Diagram} (hch : Chain scan ls c) (hres : res.WF) (hty : F.ty scan = .ok res.cod)
    (h : F.Imgs ls Ls) :
    (foldT res Ls).WF ∧ (foldT res Ls).dom = res.dom ∧ F.ty c = .ok (foldT res Ls).cod := by
  induction h generalizing scan res with
  | nil => simp [Chain] at hch; subst hch; exact ⟨hres, rfl, hty⟩
  | @cons l ls L Ls himg _ ih =>
    obtain ⟨hs, hc⟩ := hch
    subst hs
    obtain ⟨Lw, Ld, Lc⟩ := himg.props
    have hcomp : res.cod = L.dom := by rw [hty] at Ld; exact Except.ok.inj Ld
    have hw' : (res.thenD L).WF := Diagram.thenD_wf hres Lw hcomp
    have := ih (scan := l.cod) (res := res.thenD L) hc hw' (by simpa [Diagram.thenD] using Lc)
    exact this

/-- Images of the daggered layers, in reverse order, are the daggers of the images. -/
theorem Functor.Imgs.dagger {F : Functor} {ls : List Layer} {Ls : List Diagram} (h : F.Imgs ls Ls)
    (hdag : ∀ l ∈ ls, ∀ x, F.box l.box = .ok x → F.box l.box.dag = .ok x.dagger) :
    F.Imgs (ls.reverse.map Layer.dag) (Ls.reverse.map Diagram.dagger) := by
  induction h with
  | nil => exact .nil
  | @cons l ls L Ls himg _ ih =>
    have hrest := ih (fun l' hl' => hdag l' (List.mem_cons_of_mem _ hl'))
    simp only [List.reverse_cons, List.map_append, List.map_cons, List.map_nil]
    -- append one image at the end
    have happ : ∀ {as : List Layer} {As : List Diagram}, F.Imgs as As → ∀ {b B}, F.Img b B →
        F.Imgs (as ++ [b]) (As ++ [B]) := by
      intro as As has
      induction has with
      | nil => intro b B hb; exact .cons hb .nil
      | cons ha _ ih' => intro b B hb; exact .cons ha (ih' hb)
    apply happ hrest
    obtain ⟨lt, rt, x, h1, h2, hx, xw, xd, xc, rfl⟩ := himg
    refine ⟨lt, rt, x.dagger, h1, h2, hdag l (List.mem_cons_self ..) x hx, Diagram.dagger_wf xw, ?_, ?_,
      (layerD_dagger lt rt xw)⟩
    · simp only [Layer.dag_box, Box.dag_dom]; rw [Diagram.dagger_dom xw]; exact xc
    · simp only [Layer.dag_box, Box.dag_cod]; rw [Diagram.dagger_cod xw]; exact xd

/-- C04: the image of the dagger is the dagger of the image, for every diagram whose boxes satisfy
    the box-level dagger law `hdag` (generator boxes do, by `Functor.box_dagger`). -/
theorem Functor.apply_dagger (F : Functor) {d fd : Diagram} (hd : d.WF)
    (hok : ∀ b ∈ d.boxes, F.okOn b)
    (hdag : ∀ b ∈ d.boxes, ∀ x, F.box b = .ok x → F.box b.dag = .ok x.dagger)
    (hfd : F.apply d = .ok fd) : F.apply d.dagger = .ok fd.dagger := by
  obtain ⟨fdw, fddom, fdcod⟩ := F.apply_props hd hok hfd
  have hch : Chain d.dom d.layers.boxes d.cod := by
    have := hd.chain; rwa [LArrow.WF, hd.ldom, hd.lcod] at this
  unfold Functor.apply at hfd
  rw [fddom] at hfd
  simp only at hfd
  rw [hd.boxes, hd.offsets] at hfd
  obtain ⟨Ls, himgs, hfold⟩ := F.loop_fold hch (Diagram.id_wf fd.dom)
    (fun l hl => hok l.box (by rw [hd.boxes]; exact List.mem_map_of_mem hl)) hfd
  have himgs' := himgs.dagger
    (fun l hl => hdag l.box (by rw [hd.boxes]; exact List.mem_map_of_mem hl))
  -- the dagger diagram
  have hdw := Diagram.dagger_wf hd
  have hch' : Chain d.cod (d.layers.boxes.reverse.map Layer.dag) d.dom := chain_dag hch
  have hloop := F.loop_of_fold (res := Diagram.id fd.cod) hch' (Diagram.id_wf fd.cod)
    (by simpa [Diagram.id] using fdcod) himgs'
  unfold Functor.apply
  have hdom' : d.dagger.dom = d.cod := hd.lcod
  rw [hdom', fdcod]
  simp only
  have hb : d.dagger.boxes = (d.layers.boxes.reverse.map Layer.dag).map (·.box) := by
    simp [Diagram.dagger, Diagram.ofLayers, LArrow.dag]
  have ho : d.dagger.offsets = (d.layers.boxes.reverse.map Layer.dag).map
      (fun l => (l.left.length : Int)) := by
    simp [Diagram.dagger, Diagram.ofLayers, LArrow.dag]
  rw [hb, ho, hloop]
  congr 1
  -- foldT (id fd.cod) (Ls†) = fd†
  have hprops := himgs'.foldT_props hch' (Diagram.id_wf fd.cod)
    (by simpa [Diagram.id] using fdcod)
  obtain ⟨w, hdm, hcd⟩ := hprops
  have hcod_eq : (foldT (Diagram.id fd.cod) (Ls.reverse.map Diagram.dagger)).cod = fd.dom := by
    rw [fddom] at hcd; exact (Except.ok.inj hcd).symm
  have h1 := foldT_eq_thenD_foldR (Diagram.id fd.cod) (Diagram.id fd.dom)
    (Ls.reverse.map Diagram.dagger)
  rw [thenD_id w hcod_eq] at h1
  have hR : foldR (Ls.reverse.map Diagram.dagger) (Diagram.id fd.dom) = fd.dagger := by
    have e : fd.dagger = (foldT (Diagram.id fd.dom) Ls).dagger := congrArg Diagram.dagger hfold
    rw [e, foldT_dagger, Diagram.dagger_id]
  rw [h1, hR]
  exact id_thenD (Diagram.dagger_wf fdw) (Diagram.dagger_dom fdw)

end DV

namespace DV

/-- The box-level dagger law for a daggered generator box whose (undaggered) image is well-typed. -/
theorem Functor.box_dagger_flagged (F : Functor) (b : Box) (hk : b.kind = .gen) (hd : b.dagger = true)
    {y : Diagram} (hy : F.arLookup b.dag = .ok y) (hw : y.WF) {x : Diagram} (hx : F.box b = .ok x) :
    F.box b.dag = .ok x.dagger := by
  have hkd : b.dag.kind = .gen := by simp [Box.dag, hk]
  have hdd : b.dag.dagger = false := by simp [Box.dag, hk, hd]
  simp only [Functor.box, hk, hd, if_true, hy] at hx
  cases hx
  simp only [Functor.box, hkd, hdd, Bool.false_eq_true, if_false, hy]
  rw [Diagram.dagger_dagger hw]

/-! Finding F6 in the model: for `Swap(x, y)` with two-wire images the box-level dagger law fails. -/
namespace F6
def x : Ob := ⟨"x", 0⟩
def y : Ob := ⟨"y", 0⟩
def p : Ob := ⟨"p", 0⟩
def q : Ob := ⟨"q", 0⟩
def r : Ob := ⟨"r", 0⟩
def s : Ob := ⟨"s", 0⟩
def F : Functor := { ob := [("x", [p, q]), ("y", [r, s])], ar := [] }
def sw : Box := Box.swap x y

theorem swap_dagger_law_fails :
    (match F.box sw, F.box sw.dag with
     | .ok a, .ok b => a.dagger.eqv b
     | _, _ => true) = false := by decide
end F6

end DV
