/-
  Proofs/Eq.lean — equality (`__eq__`), printed form (`__repr__`) and hash of diagrams, boxes,
  types and sums in the free categories.

  * `Diagram.eqv` is the code's `Diagram.__eq__` (monoidal.py:438-442): `dom, cod, boxes, offsets`;
    `Box.eqvDiagram` (Proofs/Laws.lean) is the asymmetric `Box.__eq__` against a plain diagram
    (monoidal.py:701-707); `Val` packages "a Python value is either a `Box` instance or a plain
    `Diagram`" and `Val.eqv` dispatches exactly as Python does.
  * Every `__hash__` in scope is `hash(repr(self))`, so `repr_congr` IS hash consistency
    (`hash_congr`): equal values print alike, hence hash alike, whatever the string hash is.
  * `reprT…_inj`: the printed constructor syntax (as a syntax tree) determines the value up to
    `==`.  That the flat string determines the syntax tree is Python's parser's side and needs
    token hygiene (`Proofs/ReprString.lean` if present, else the oracle `eval(repr(v)) == v`).
-/
import Proofs.SumLaws
import Model.Repr
import Std.Data.String.ToInt

namespace DV

/-! ### `Diagram.__eq__` is an equivalence; on well-typed values it is `=` -/

theorem Diagram.eqv_symm {a b : Diagram} (h : a.eqv b = true) : b.eqv a = true := by
  rw [Diagram.eqv_iff] at h ⊢
  exact ⟨h.1.symm, h.2.1.symm, h.2.2.1.symm, h.2.2.2.symm⟩

theorem Diagram.eqv_trans {a b c : Diagram} (h1 : a.eqv b = true) (h2 : b.eqv c = true) :
    a.eqv c = true := by
  rw [Diagram.eqv_iff] at h1 h2 ⊢
  exact ⟨h1.1.trans h2.1, h1.2.1.trans h2.2.1, h1.2.2.1.trans h2.2.2.1, h1.2.2.2.trans h2.2.2.2⟩

/-- Reading the same boxes at the same offsets from the same type gives the same layers. -/
theorem chain_layers_unique {s c c' : Ty} {xs ys : List Layer} (hx : Chain s xs c)
    (hy : Chain s ys c') (hb : xs.map (·.box) = ys.map (·.box))
    (ho : xs.map (fun l => (l.left.length : Int)) = ys.map (fun l => (l.left.length : Int))) :
    xs = ys := by
  induction xs generalizing s ys with
  | nil => cases ys with
    | nil => rfl
    | cons y ys => simp at hb
  | cons x xs ih =>
    cases ys with
    | nil => simp at hb
    | cons y ys =>
      simp only [List.map_cons, List.cons.injEq] at hb ho
      obtain ⟨hb1, hb2⟩ := hb
      obtain ⟨ho1, ho2⟩ := ho
      have hlen : x.left.length = y.left.length := by omega
      have hdom : x.left ++ (x.box.dom ++ x.right) = y.left ++ (y.box.dom ++ y.right) := by
        have := hx.1.symm.trans hy.1
        simpa [Layer.dom, List.append_assoc] using this
      obtain ⟨hl, hrest⟩ := List.append_inj hdom hlen
      rw [hb1] at hrest
      have hr : x.right = y.right := List.append_cancel_left hrest
      have hxy : x = y := by
        cases x; cases y; simp_all
      subst hxy
      rw [ih hx.2 hy.2 hb2 ho2]

/-- The code's `==` ignores `layers`; on well-typed values nothing is lost: `==` is `=`. -/
theorem Diagram.eq_of_eqv {a b : Diagram} (ha : a.WF) (hb : b.WF) (h : a.eqv b = true) : a = b := by
  rw [Diagram.eqv_iff] at h
  obtain ⟨h1, h2, h3, h4⟩ := h
  apply Diagram.ext_layers ha hb
  have hl : a.layers.boxes = b.layers.boxes := by
    have ca : Chain a.dom a.layers.boxes a.layers.cod := by rw [← ha.ldom]; exact ha.chain
    have cb : Chain a.dom b.layers.boxes b.layers.cod := by rw [h1, ← hb.ldom]; exact hb.chain
    exact chain_layers_unique ca cb (by rw [← ha.boxes, ← hb.boxes, h3])
      (by rw [← ha.offsets, ← hb.offsets, h4])
  cases hla : a.layers; cases hlb : b.layers
  have e1 := ha.ldom; have e2 := ha.lcod; have e3 := hb.ldom; have e4 := hb.lcod
  simp_all

theorem Diagram.eqv_iff_eq {a b : Diagram} (ha : a.WF) (hb : b.WF) : a.eqv b = true ↔ a = b :=
  ⟨Diagram.eq_of_eqv ha hb, Diagram.eqv_of_eq⟩

/-! ### Mixed comparisons: a Python value is a `Box` instance or a plain `Diagram` -/

inductive Val where
  | box (b : Box)
  | diag (d : Diagram)
  deriving DecidableEq, Repr

/-- What the value is as a diagram (`Box.__init__`, monoidal.py:692-696). -/
def Val.toDiagram : Val → Diagram
  | .box b => Diagram.ofBox b
  | .diag d => d

def Val.WF (v : Val) : Prop := v.toDiagram.WF

/-- `u == v` as Python dispatches it:
    * box, box: `cat.Box.__eq__` (cat.py:600-604) — name, dom, cod, data, dagger flag (the class tag
      `kind` is determined by the name in Python: `Swap(x, y)`, `Cup(…)`, `Cap(…)` carry derived
      names; the model compares it directly);
    * box, diagram and diagram, box: `monoidal.Box.__eq__` (monoidal.py:701-707) both ways — `Box`
      is a subclass of `Diagram`, so for `diagram == box` Python calls the reflected
      `box.__eq__(diagram)` first;
    * diagram, diagram: `Diagram.__eq__` (monoidal.py:438-442). -/
def Val.eqv : Val → Val → Bool
  | .box a, .box b => a == b
  | .box a, .diag d => a.eqvDiagram d
  | .diag d, .box b => b.eqvDiagram d
  | .diag a, .diag b => a.eqv b

/-- A well-typed one-box diagram on the box's own domain has offset 0 and the box's codomain. -/
theorem Diagram.one_box_canonical {d : Diagram} {b : Box} (hd : d.WF) (hb : d.boxes = [b])
    (hdom : d.dom = b.dom) : d.offsets = [0] ∧ d.cod = b.cod := by
  have h3 := hd.boxes
  rw [hb] at h3
  cases hl : d.layers.boxes with
  | nil => simp [hl] at h3
  | cons l ls =>
    cases ls with
    | cons l' ls' => simp [hl] at h3
    | nil =>
      simp only [hl, List.map_cons, List.map_nil, List.cons.injEq, and_true] at h3
      have hc : Chain d.layers.dom [l] d.layers.cod := by rw [← hl]; exact hd.chain
      rw [hd.ldom, hd.lcod] at hc
      obtain ⟨h1, h2⟩ := chain_single.mp hc
      rw [hdom, h3] at h1
      have hlen := congrArg List.length h1
      simp [Layer.dom] at hlen
      have hl0 : l.left = [] := List.eq_nil_of_length_eq_zero (by omega)
      have hr0 : l.right = [] := List.eq_nil_of_length_eq_zero (by omega)
      refine ⟨?_, ?_⟩
      · rw [hd.offsets, hl]; simp [hl0]
      · rw [← h2]; simp [Layer.cod, hl0, hr0, h3]

/-- On well-typed values the asymmetric `Box.__eq__` agrees with comparing the wrapped one-box
    diagram field by field ("a box equals the one-box diagram that wraps it"). -/
theorem Box.eqvDiagram_eq_eqv {b : Box} {d : Diagram} (hd : d.WF) :
    b.eqvDiagram d = (Diagram.ofBox b).eqv d := by
  rw [Bool.eq_iff_iff, Box.eqvDiagram_iff, Diagram.eqv_iff]
  simp only [Diagram.ofBox]
  constructor
  · rintro ⟨h1, h2, h3⟩
    exact ⟨h2.symm, h3.symm, h1.symm, (Diagram.one_box_canonical hd h1 h2).1.symm⟩
  · rintro ⟨h1, h2, h3, _⟩
    exact ⟨h3.symm, h1.symm, h2.symm⟩

theorem Val.eqv_eq_toDiagram {u v : Val} (hu : u.WF) (hv : v.WF) :
    u.eqv v = u.toDiagram.eqv v.toDiagram := by
  cases u with
  | box a => cases v with
    | box b =>
      simp only [Val.eqv, Val.toDiagram]
      rw [Bool.eq_iff_iff, Diagram.eqv_iff]
      simp only [Diagram.ofBox, beq_iff_eq]
      constructor
      · intro h; subst h; simp
      · intro h; simp at h; exact h.2.2
    | diag d => exact Box.eqvDiagram_eq_eqv hv
  | diag d => cases v with
    | box b =>
      simp only [Val.eqv, Val.toDiagram]
      have hd : d.WF := hu
      rw [Box.eqvDiagram_eq_eqv hd, Bool.eq_iff_iff]
      exact ⟨Diagram.eqv_symm, Diagram.eqv_symm⟩
    | diag e => rfl

theorem Val.eqv_refl {u : Val} (hu : u.WF) : u.eqv u = true := by
  rw [Val.eqv_eq_toDiagram hu hu]; exact Diagram.eqv_refl _

theorem Val.eqv_symm {u v : Val} (hu : u.WF) (hv : v.WF) (h : u.eqv v = true) :
    v.eqv u = true := by
  rw [Val.eqv_eq_toDiagram hu hv] at h
  rw [Val.eqv_eq_toDiagram hv hu]; exact Diagram.eqv_symm h

theorem Val.eqv_trans {u v w : Val} (hu : u.WF) (hv : v.WF) (hw : w.WF)
    (h1 : u.eqv v = true) (h2 : v.eqv w = true) : u.eqv w = true := by
  rw [Val.eqv_eq_toDiagram hu hv] at h1
  rw [Val.eqv_eq_toDiagram hv hw] at h2
  rw [Val.eqv_eq_toDiagram hu hw]; exact Diagram.eqv_trans h1 h2

/-- "A box equals the one-box diagram that wraps it", both ways round. -/
theorem Val.box_eqv_wrap (b : Box) :
    (Val.box b).eqv (Val.diag (Diagram.ofBox b)) = true ∧
    (Val.diag (Diagram.ofBox b)).eqv (Val.box b) = true := by
  simp [Val.eqv, Box.eqvDiagram_iff, Diagram.ofBox]

/-! ### Sums: `Sum.__eq__` (cat.py:666-670) -/

theorem eqvList_iff {xs ys : List Diagram} :
    eqvList xs ys = true ↔ xs.length = ys.length ∧
      ∀ i (h1 : i < xs.length) (h2 : i < ys.length), (xs[i]).eqv (ys[i]) = true := by
  induction xs generalizing ys with
  | nil => cases ys <;> simp [eqvList]
  | cons x xs ih =>
    cases ys with
    | nil => simp [eqvList]
    | cons y ys =>
      simp only [eqvList, Bool.and_eq_true, ih, List.length_cons, Nat.add_right_cancel_iff]
      constructor
      · rintro ⟨h1, h2, h3⟩
        refine ⟨h2, ?_⟩
        intro i hi1 hi2
        cases i with
        | zero => simpa using h1
        | succ i => simpa using h3 i (by simpa using hi1) (by simpa using hi2)
      · rintro ⟨h1, h2⟩
        refine ⟨by simpa using h2 0 (by simp) (by simp), h1, ?_⟩
        intro i hi1 hi2
        have := h2 (i + 1) (by simpa using hi1) (by simpa using hi2)
        simp only [List.getElem_cons_succ] at this
        exact this

theorem eqvList_refl (xs : List Diagram) : eqvList xs xs = true := by
  induction xs with
  | nil => rfl
  | cons x xs ih => simp [eqvList, Diagram.eqv_refl, ih]

theorem eqvList_symm {xs ys : List Diagram} (h : eqvList xs ys = true) : eqvList ys xs = true := by
  induction xs generalizing ys with
  | nil => cases ys <;> simp_all [eqvList]
  | cons x xs ih =>
    cases ys with
    | nil => simp [eqvList] at h
    | cons y ys =>
      simp only [eqvList, Bool.and_eq_true] at h ⊢
      exact ⟨Diagram.eqv_symm h.1, ih h.2⟩

theorem eqvList_trans {xs ys zs : List Diagram} (h1 : eqvList xs ys = true)
    (h2 : eqvList ys zs = true) : eqvList xs zs = true := by
  induction xs generalizing ys zs with
  | nil => cases ys <;> cases zs <;> simp_all [eqvList]
  | cons x xs ih =>
    cases ys with
    | nil => simp [eqvList] at h1
    | cons y ys =>
      cases zs with
      | nil => simp [eqvList] at h2
      | cons z zs =>
        simp only [eqvList, Bool.and_eq_true] at h1 h2 ⊢
        exact ⟨Diagram.eqv_trans h1.1 h2.1, ih h1.2 h2.2⟩

theorem eqvList_eq {xs ys : List Diagram} (hx : ∀ t ∈ xs, t.WF) (hy : ∀ t ∈ ys, t.WF)
    (h : eqvList xs ys = true) : xs = ys := by
  induction xs generalizing ys with
  | nil => cases ys <;> simp_all [eqvList]
  | cons x xs ih =>
    cases ys with
    | nil => simp [eqvList] at h
    | cons y ys =>
      simp only [eqvList, Bool.and_eq_true] at h
      rw [Diagram.eq_of_eqv (hx x (by simp)) (hy y (by simp)) h.1,
        ih (fun t ht => hx t (by simp [ht])) (fun t ht => hy t (by simp [ht])) h.2]

theorem Sum.eqv_iff {a b : Sum} :
    a.eqv b = true ↔ a.dom = b.dom ∧ a.cod = b.cod ∧ eqvList a.terms b.terms = true := by
  simp [Sum.eqv, and_assoc]

theorem Sum.eqv_refl (a : Sum) : a.eqv a = true :=
  Sum.eqv_iff.mpr ⟨rfl, rfl, eqvList_refl _⟩

theorem Sum.eqv_symm {a b : Sum} (h : a.eqv b = true) : b.eqv a = true := by
  rw [Sum.eqv_iff] at h ⊢
  exact ⟨h.1.symm, h.2.1.symm, eqvList_symm h.2.2⟩

theorem Sum.eqv_trans {a b c : Sum} (h1 : a.eqv b = true) (h2 : b.eqv c = true) :
    a.eqv c = true := by
  rw [Sum.eqv_iff] at h1 h2 ⊢
  exact ⟨h1.1.trans h2.1, h1.2.1.trans h2.2.1, eqvList_trans h1.2.2 h2.2.2⟩

theorem Sum.eqv_iff_eq {a b : Sum} (ha : a.WF) (hb : b.WF) : a.eqv b = true ↔ a = b := by
  constructor
  · intro h
    rw [Sum.eqv_iff] at h
    have := eqvList_eq (fun t ht => (ha t ht).1) (fun t ht => (hb t ht).1) h.2.2
    cases a; cases b; simp_all
  · rintro rfl; exact Sum.eqv_refl _

/-! ### `repr` respects `==`: hash consistency -/

theorem reprTDiagram_congr {a b : Diagram} (h : a.eqv b = true) :
    reprTDiagram a = reprTDiagram b := by
  rw [Diagram.eqv_iff] at h
  obtain ⟨h1, h2, h3, h4⟩ := h
  simp [reprTDiagram, reprTFull, h1, h2, h3, h4]

/-- Equal diagrams print alike. -/
theorem repr_congr {a b : Diagram} (h : a.eqv b = true) : reprDiagram a = reprDiagram b := by
  simp [reprDiagram, reprTDiagram_congr h]

/-- `__hash__` is `hash(repr(self))` (monoidal.py:453), so equal diagrams hash alike, for any
    string hash `H`. -/
theorem hash_congr {α} (H : String → α) {a b : Diagram} (h : a.eqv b = true) :
    H (reprDiagram a) = H (reprDiagram b) := by rw [repr_congr h]

/-- `repr` of a Python value: `Box.__repr__` for box instances, `Diagram.__repr__` otherwise. -/
def Val.reprT : Val → RT
  | .box b => reprTBox b
  | .diag d => reprTDiagram d
def Val.repr (v : Val) : String := v.reprT.render

/-- The printed form of a `Box` instance is the printed form of the one-box diagram wrapping it
    (the short-cut of monoidal.py:447-448). -/
theorem Val.reprT_eq_toDiagram (v : Val) : v.reprT = reprTDiagram v.toDiagram := by
  cases v with
  | box b => simp [Val.reprT, Val.toDiagram, reprTDiagram, Diagram.ofBox]
  | diag d => rfl

theorem Val.repr_congr {u v : Val} (hu : u.WF) (hv : v.WF) (h : u.eqv v = true) :
    u.repr = v.repr := by
  rw [Val.eqv_eq_toDiagram hu hv] at h
  simp [Val.repr, Val.reprT_eq_toDiagram, reprTDiagram_congr h]

theorem Val.hash_congr {α} (H : String → α) {u v : Val} (hu : u.WF) (hv : v.WF)
    (h : u.eqv v = true) : H u.repr = H v.repr := by rw [Val.repr_congr hu hv h]

theorem reprTSum_congr_list {xs ys : List Diagram} (h : eqvList xs ys = true) :
    xs.map reprTDiagram = ys.map reprTDiagram := by
  induction xs generalizing ys with
  | nil => cases ys <;> simp_all [eqvList]
  | cons x xs ih =>
    cases ys with
    | nil => simp [eqvList] at h
    | cons y ys =>
      simp only [eqvList, Bool.and_eq_true] at h
      simp [reprTDiagram_congr h.1, ih h.2]

theorem Sum.repr_congr {a b : Sum} (h : a.eqv b = true) : reprSum a = reprSum b := by
  rw [Sum.eqv_iff] at h
  obtain ⟨h1, h2, h3⟩ := h
  have := reprTSum_congr_list h3
  unfold reprSum reprTSum
  cases ha : a.terms with
  | nil =>
    cases hb : b.terms with
    | nil => simp [h1, h2]
    | cons y ys => simp [ha, hb, eqvList] at h3
  | cons x xs =>
    cases hb : b.terms with
    | nil => simp [ha, hb, eqvList] at h3
    | cons y ys =>
      rw [ha, hb] at this
      simp only [this]

/-! ### The printed form loses nothing (syntax-tree level) -/

mutual
/-- Every opaque token (name / data repr) in the tree satisfies `ok`. -/
def RT.AllTok (ok : String → Prop) : RT → Prop
  | .tok s => ok s
  | .call _ args => RT.AllTokList ok args
  | .kw _ v => v.AllTok ok
  | .list xs => RT.AllTokList ok xs
  | .callm _ args _ => RT.AllTokList ok args
def RT.AllTokList (ok : String → Prop) : List RT → Prop
  | [] => True
  | x :: xs => x.AllTok ok ∧ RT.AllTokList ok xs
end

/-- Boxes the Python classes can produce: generators are free; `Swap`, `Cup`, `Cap` have their
    derived name, no data, no dagger flag and the shapes of monoidal.py:721-735, rigid.py:337-387. -/
def Box.Canon (b : Box) : Prop :=
  match b.kind with
  | .gen => True
  | .swap => ∃ l r, b = Box.swap l r
  | .cup => ∃ l r, b = Box.cup l r
  | .cap => ∃ l r, b = Box.cap l r

def Diagram.Canon (d : Diagram) : Prop := ∀ b ∈ d.boxes, b.Canon

theorem Box.Canon.dag {b : Box} (h : b.Canon) : b.dag.Canon := by
  cases b with
  | mk kind name dom cod dagger data =>
    cases kind
    · simp [Box.Canon, Box.dag]
    · obtain ⟨l, r, h⟩ := h
      simp only [Box.swap, Box.mk.injEq, true_and] at h
      obtain ⟨rfl, rfl, rfl, rfl, rfl⟩ := h
      exact ⟨r, l, by simp [Box.dag, Box.swap]⟩
    · obtain ⟨l, r, h⟩ := h
      simp only [Box.cup, Box.mk.injEq, true_and] at h
      obtain ⟨rfl, rfl, rfl, rfl, rfl⟩ := h
      exact ⟨l, r, by simp [Box.dag, Box.cap]⟩
    · obtain ⟨l, r, h⟩ := h
      simp only [Box.cap, Box.mk.injEq, true_and] at h
      obtain ⟨rfl, rfl, rfl, rfl, rfl⟩ := h
      exact ⟨l, r, by simp [Box.dag, Box.cup]⟩

theorem Diagram.Canon.then {a b d : Diagram} (ha : a.Canon) (hb : b.Canon) (h : a.then b = .ok d) :
    d.Canon := by
  obtain ⟨_, rfl⟩ := Diagram.then_ok' h
  intro x hx
  simp only [Diagram.thenD, List.mem_append] at hx
  exact hx.elim (ha x) (hb x)

theorem Diagram.Canon.tensor {a b d : Diagram} (ha : a.WF) (hb : b.WF) (hca : a.Canon)
    (hcb : b.Canon) (h : a.tensor b = .ok d) : d.Canon := by
  rw [Diagram.tensor_eq_tensorD ha hb] at h
  cases h
  intro x hx
  simp only [Diagram.tensorD, List.mem_append] at hx
  exact hx.elim (hca x) (hcb x)

theorem Diagram.Canon.dagger {d : Diagram} (hd : d.WF) (hc : d.Canon) : d.dagger.Canon := by
  intro x hx
  simp only [Diagram.dagger, Diagram.ofLayers, LArrow.dag, List.map_map, List.mem_map,
    List.mem_reverse, Function.comp] at hx
  obtain ⟨l, hl, rfl⟩ := hx
  apply Box.Canon.dag
  apply hc
  rw [hd.boxes]
  exact List.mem_map.mpr ⟨l, hl, rfl⟩

/-- Python int literals: distinct ints print differently. -/
theorem RT.int_inj {i j : Int} (h : RT.int i = RT.int j) : i = j := by
  simp only [RT.int, RT.tok.injEq, Int.toString_eq_repr] at h
  exact Int.repr_injective h

theorem reprTTyEntry_inj {x y : Ob} (h : reprTTyEntry x = reprTTyEntry y) : x = y := by
  cases x with
  | mk n z => cases y with
    | mk n' z' =>
      unfold reprTTyEntry reprTOb at h
      by_cases hz : z = 0 <;> by_cases hz' : z' = 0
      · simp_all
      · simp [hz, hz'] at h
      · simp [hz, hz'] at h
      · simp only [hz, hz', if_false, RT.call.injEq, List.cons.injEq, RT.tok.injEq, RT.kw.injEq,
          true_and, and_true] at h
        rw [h.1, RT.int_inj h.2]

theorem map_inj_on {α β} {f : α → β} {xs ys : List α}
    (hf : ∀ x ∈ xs, ∀ y ∈ ys, f x = f y → x = y) (h : xs.map f = ys.map f) : xs = ys := by
  induction xs generalizing ys with
  | nil => cases ys <;> simp_all
  | cons x xs ih =>
    cases ys with
    | nil => simp at h
    | cons y ys =>
      simp only [List.map_cons, List.cons.injEq] at h
      rw [hf x (by simp) y (by simp) h.1,
        ih (fun a ha b hb => hf a (by simp [ha]) b (by simp [hb])) h.2]

theorem reprTTy_inj {s t : Ty} (h : reprTTy s = reprTTy t) : s = t := by
  simp only [reprTTy, RT.call.injEq, true_and] at h
  exact map_inj_on (fun x _ y _ => reprTTyEntry_inj) h

theorem reprTData_inj {d e : String} (h : reprTData d = reprTData e) : d = e := by
  unfold reprTData at h
  by_cases hd : d = "-" <;> by_cases he : e = "-" <;> simp_all

theorem reprTGen_inj {n n' : String} {d d' c c' : Ty} {x x' : String}
    (h : reprTGenArgs n d c x = reprTGenArgs n' d' c' x') : n = n' ∧ d = d' ∧ c = c' ∧ x = x' := by
  simp only [reprTGenArgs, List.cons_append, List.nil_append, List.cons.injEq,
    RT.tok.injEq] at h
  exact ⟨h.1, reprTTy_inj h.2.1, reprTTy_inj h.2.2.1, reprTData_inj h.2.2.2⟩

theorem take_drop_one_inj {l r l' r' : Ob}
    (h1 : reprTTy ([l, r].take 1) = reprTTy ([l', r'].take 1))
    (h2 : reprTTy ([l, r].drop 1) = reprTTy ([l', r'].drop 1)) : l = l' ∧ r = r' := by
  have e1 := reprTTy_inj h1
  have e2 := reprTTy_inj h2
  simp at e1 e2
  exact ⟨e1, e2⟩

/-- `repr(box)` determines the box (among boxes the Python classes can produce). -/
theorem reprTBox_inj {a b : Box} (ha : a.Canon) (hb : b.Canon) (h : reprTBox a = reprTBox b) :
    a = b := by
  cases a with
  | mk ka na da ca ga xa =>
    cases b with
    | mk kb nb db cb gb xb =>
      cases ka <;> cases kb <;> simp only [Box.Canon] at ha hb
      all_goals try (obtain ⟨l, r, ha⟩ := ha)
      all_goals try (obtain ⟨l', r', hb⟩ := hb)
      all_goals try (simp only [Box.swap, Box.cup, Box.cap, Box.mk.injEq, true_and] at ha)
      all_goals try (simp only [Box.swap, Box.cup, Box.cap, Box.mk.injEq, true_and] at hb)
      all_goals try (obtain ⟨rfl, rfl, rfl, rfl, rfl⟩ := ha)
      all_goals try (obtain ⟨rfl, rfl, rfl, rfl, rfl⟩ := hb)
      all_goals (simp only [reprTBox] at h)
      -- gen / gen
      · by_cases h1 : ga = true <;> by_cases h2 : gb = true <;>
          simp only [h1, h2, if_true, if_false, Bool.false_eq_true] at h
        · simp only [RT.callm.injEq, and_true, true_and] at h
          obtain ⟨e1, e2, e3, e4⟩ := reprTGen_inj h
          simp_all
        · simp at h
        · simp at h
        · simp only [RT.call.injEq, true_and] at h
          obtain ⟨e1, e2, e3, e4⟩ := reprTGen_inj h
          simp_all
      all_goals try (split at h <;> simp at h)
      all_goals try (simp only [RT.call.injEq, List.cons.injEq, and_true, true_and] at h)
      all_goals try (obtain ⟨e1, e2⟩ := take_drop_one_inj h.1 h.2; subst e1 e2; rfl)
      all_goals try (simp at h)

/-- `repr(diagram)` determines the diagram up to `==`: neither short-cut of monoidal.py:444-448
    conflates distinct well-typed values. -/
theorem reprTDiagram_inj {a b : Diagram} (ha : a.WF) (hb : b.WF) (hca : a.Canon) (hcb : b.Canon)
    (h : reprTDiagram a = reprTDiagram b) : a.eqv b = true := by
  have full_inj : reprTFull a = reprTFull b → a.eqv b = true := by
    intro h
    simp only [reprTFull, RT.call.injEq, List.cons.injEq, RT.kw.injEq, RT.list.injEq, true_and,
      and_true] at h
    obtain ⟨h1, h2, h3, h4⟩ := h
    rw [Diagram.eqv_iff]
    refine ⟨reprTTy_inj h1, reprTTy_inj h2, ?_, ?_⟩
    · exact map_inj_on (fun x hx y hy => reprTBox_inj (hca x hx) (hcb y hy)) h3
    · exact map_inj_on (fun x _ y _ e => RT.int_inj e) h4
  have box_ne_full : ∀ (x : Box) (d : Diagram), reprTBox x ≠ reprTFull d := by
    intro x d e
    unfold reprTBox reprTFull at e
    split at e
    · split at e <;> simp at e
    all_goals simp at e
  have box_ne_id : ∀ (x : Box) (t : Ty), reprTBox x ≠ .call "Id" [reprTTy t] := by
    intro x t e
    unfold reprTBox at e
    split at e
    · split at e <;> simp at e
    all_goals simp at e
  -- an identity: no boxes, so `cod = dom` and no offsets
  have id_fields : ∀ {d : Diagram}, d.WF → d.boxes = [] → d.cod = d.dom ∧ d.offsets = [] := by
    intro d hd hbx
    have hl : d.layers.boxes = [] := by
      have := hd.boxes; rw [hbx] at this
      exact List.map_eq_nil_iff.mp this.symm
    have hc := hd.chain
    simp only [LArrow.WF, hl, Chain] at hc
    exact ⟨by rw [← hd.lcod, ← hd.ldom, hc], by rw [hd.offsets, hl]; rfl⟩
  unfold reprTDiagram at h
  split at h
  · rename_i ha0
    split at h
    · rename_i hb0
      simp only [RT.call.injEq, List.cons.injEq, and_true, true_and] at h
      have hd := reprTTy_inj h
      obtain ⟨c1, o1⟩ := id_fields ha ha0
      obtain ⟨c2, o2⟩ := id_fields hb hb0
      rw [Diagram.eqv_iff]
      exact ⟨hd, by rw [c1, c2, hd], by rw [ha0, hb0], by rw [o1, o2]⟩
    · split at h
      · exact absurd h.symm (box_ne_id _ _)
      · simp [reprTFull] at h
    · simp [reprTFull] at h
  · rename_i x hax
    split at h
    · rename_i hdx
      split at h
      · exact absurd h (box_ne_id _ _)
      · rename_i y hby
        split at h
        · rename_i hdy
          have hxy := reprTBox_inj (hca x (by simp [hax])) (hcb y (by simp [hby])) h
          subst hxy
          obtain ⟨o1, c1⟩ := Diagram.one_box_canonical ha hax hdx
          obtain ⟨o2, c2⟩ := Diagram.one_box_canonical hb hby hdy
          rw [Diagram.eqv_iff]
          exact ⟨hdx.trans hdy.symm, c1.trans c2.symm, hax.trans hby.symm, o1.trans o2.symm⟩
        · exact absurd h (box_ne_full _ _)
      · exact absurd h (box_ne_full _ _)
    · split at h
      · simp [reprTFull] at h
      · split at h
        · exact absurd h.symm (box_ne_full _ _)
        · exact full_inj h
      · exact full_inj h
  · split at h
    · simp [reprTFull] at h
    · split at h
      · exact absurd h.symm (box_ne_full _ _)
      · exact full_inj h
    · exact full_inj h

/-- The same for Python values (box instances and plain diagrams mixed). -/
theorem Val.reprT_inj {u v : Val} (hu : u.WF) (hv : v.WF) (hcu : u.toDiagram.Canon)
    (hcv : v.toDiagram.Canon) (h : u.reprT = v.reprT) : u.eqv v = true := by
  rw [Val.eqv_eq_toDiagram hu hv]
  rw [Val.reprT_eq_toDiagram, Val.reprT_eq_toDiagram] at h
  exact reprTDiagram_inj hu hv hcu hcv h

/-- `repr(sum)` determines the sum up to `==`. -/
theorem reprTSum_inj {a b : Sum} (ha : a.WF) (hb : b.WF) (hca : ∀ t ∈ a.terms, t.Canon)
    (hcb : ∀ t ∈ b.terms, t.Canon) (h : reprTSum a = reprTSum b) : a.eqv b = true := by
  have list_inj : ∀ {xs ys : List Diagram}, (∀ t ∈ xs, t.WF ∧ t.Canon) → (∀ t ∈ ys, t.WF ∧ t.Canon) →
      xs.map reprTDiagram = ys.map reprTDiagram → eqvList xs ys = true := by
    intro xs
    induction xs with
    | nil => intro ys _ _ h; cases ys <;> simp_all [eqvList]
    | cons x xs ih =>
      intro ys hx hy h
      cases ys with
      | nil => simp at h
      | cons y ys =>
        simp only [List.map_cons, List.cons.injEq] at h
        simp only [eqvList, Bool.and_eq_true]
        exact ⟨reprTDiagram_inj (hx x (by simp)).1 (hy y (by simp)).1 (hx x (by simp)).2
            (hy y (by simp)).2 h.1,
          ih (fun t ht => hx t (by simp [ht])) (fun t ht => hy t (by simp [ht])) h.2⟩
  unfold reprTSum at h
  rw [Sum.eqv_iff]
  split at h
  · rename_i ha0
    split at h
    · rename_i hb0
      simp only [RT.call.injEq, List.cons.injEq, RT.kw.injEq, and_true, true_and] at h
      exact ⟨reprTTy_inj h.1, reprTTy_inj h.2, by rw [ha0, hb0]; rfl⟩
    · simp at h
  · rename_i x xs hax
    split at h
    · simp at h
    · rename_i y ys hby
      simp only [RT.call.injEq, List.cons.injEq, RT.list.injEq, and_true, true_and] at h
      have hl : eqvList a.terms b.terms = true := by
        rw [hax, hby]
        apply list_inj
        · intro t ht; rw [← hax] at ht; exact ⟨(ha t ht).1, hca t ht⟩
        · intro t ht; rw [← hby] at ht; exact ⟨(hb t ht).1, hcb t ht⟩
        · simpa using h
      rw [hax, hby] at hl
      simp only [eqvList, Bool.and_eq_true] at hl
      have hx := ha x (by simp [hax])
      have hy := hb y (by simp [hby])
      have e := Diagram.eqv_iff.mp hl.1
      refine ⟨by rw [← hx.2.1, ← hy.2.1, e.1], by rw [← hx.2.2, ← hy.2.2, e.2.1], ?_⟩
      rw [hax, hby]; simp [eqvList, hl.1, hl.2]

end DV
