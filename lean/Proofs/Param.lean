/-
  Proofs/Param.lean — lemmas behind C14 (substitution is natural in the evaluator) and the
  diagram-level part of C15 (product rule for an abstract derivation), about Model/Param.lean.

  Scalars are an arbitrary commutative ring; a substitution is any ring homomorphism `σ`
  commuting with conjugation; a derivative is any additive map with the Leibniz rule commuting
  with conjugation.  Nothing here is about `Poly`: that the executable polynomials meet these
  hypotheses is Proofs/PolyOrder.lean, PolySem.lean, PolyRing.lean, PolyDiagram.lean.
-/
import Model.Param
import Mathlib.Tactic.Ring
import Mathlib.Tactic.LinearCombination

set_option linter.unusedSectionVars false

namespace DV.Param

/-! ### sums over lists -/

section Sums
variable {R : Type} [CommRing R] {α β : Type}

theorem sum_map_zero (l : List α) : (l.map (fun _ => (0 : R))).sum = 0 := by
  induction l with
  | nil => simp
  | cons a l ih => simp [ih]

theorem sum_map_add (l : List α) (f g : α → R) :
    (l.map (fun x => f x + g x)).sum = (l.map f).sum + (l.map g).sum := by
  induction l with
  | nil => simp
  | cons a l ih => simp only [List.map_cons, List.sum_cons, ih]; ring

theorem sum_map_mul_left (l : List α) (c : R) (f : α → R) :
    (l.map (fun x => c * f x)).sum = c * (l.map f).sum := by
  induction l with
  | nil => simp
  | cons a l ih => simp only [List.map_cons, List.sum_cons, ih]; ring

theorem sum_map_mul_right (l : List α) (c : R) (f : α → R) :
    (l.map (fun x => f x * c)).sum = (l.map f).sum * c := by
  induction l with
  | nil => simp
  | cons a l ih => simp only [List.map_cons, List.sum_cons, ih]; ring

theorem sum_map_comm (ts : List α) (js : List β) (f : α → β → R) :
    (ts.map (fun t => (js.map (fun j => f t j)).sum)).sum
      = (js.map (fun j => (ts.map (fun t => f t j)).sum)).sum := by
  induction ts with
  | nil => simp [sum_map_zero]
  | cons t ts ih =>
    simp only [List.map_cons, List.sum_cons, ih]
    rw [← sum_map_add]

theorem sum_map_congr (l : List α) (f g : α → R) (h : ∀ x, f x = g x) :
    (l.map f).sum = (l.map g).sum := by
  have : f = g := funext h
  rw [this]

end Sums

/-! ### data maps commute with the arrays of boxes and layers -/

section MapData
-- only `0` and conjugation are involved: no ring laws (used for `Poly` itself, which is not a ring)
variable {R S : Type} [Zero R] [Zero S] [HasConj R] [HasConj S]

theorem getD_map_zero (f : R → S) (h0 : f 0 = 0) (l : List R) (k : Nat) :
    (l.map f).getD k 0 = f (l.getD k 0) := by
  simp only [List.getD_eq_getElem?_getD, List.getElem?_map]
  cases l[k]? <;> simp [h0]

/-- The array of a box whose data went through `f` is `f` of the array, for every `f` that
    fixes 0 and commutes with conjugation (substitutions and derivations both do). -/
theorem arr_mapData (f : R → S) (h0 : f 0 = 0) (hc : ∀ x, f (HasConj.conj x) = HasConj.conj (f x))
    (b : PBox R) (i j : Nat) : (b.mapData f).arr i j = f (b.arr i j) := by
  unfold PBox.arr PBox.mapData
  by_cases hd : b.dagger = true
  · simp only [hd, if_true, getD_map_zero f h0, hc]
  · simp only [hd, getD_map_zero f h0]
    simp

theorem mat_mapData (f : R → S) (h0 : f 0 = 0) (hc : ∀ x, f (HasConj.conj x) = HasConj.conj (f x))
    (l : PLayer R) (i j : Nat) : (l.mapData f).mat i j = f (l.mat i j) := by
  unfold PLayer.mat
  have e1 : (l.mapData f).box = l.box.mapData f := rfl
  have e2 : (l.mapData f).right = l.right := rfl
  have e3 : (l.box.mapData f).dom = l.box.dom := rfl
  have e4 : (l.box.mapData f).cod = l.box.cod := rfl
  rw [e1, e2, e3, e4]
  split
  · exact arr_mapData f h0 hc _ _ _
  · exact h0.symm

theorem outDim_mapData (f : R → S) (l : PLayer R) : (l.mapData f).outDim = l.outDim := rfl

end MapData

/-! ### C14: the evaluator is natural in ring homomorphisms -/

section Natural
variable {R S : Type} [CommRing R] [CommRing S] [HasConj R] [HasConj S]

theorem hom_sum_map {α : Type} (σ : R →+* S) (l : List α) (f : α → R) :
    σ ((l.map f).sum) = (l.map (fun x => σ (f x))).sum := by
  induction l with
  | nil => simp
  | cons a l ih => simp only [List.map_cons, List.sum_cons, map_add, ih]

theorem matMul_hom (σ : R →+* S) (n : Nat) (a b : Mat R) (i k : Nat) :
    σ (matMul n a b i k) = matMul n (fun i j => σ (a i j)) (fun i j => σ (b i j)) i k := by
  unfold matMul
  rw [hom_sum_map]
  exact sum_map_congr _ _ _ (fun j => by simp only [map_mul])

theorem idMat_hom (σ : R →+* S) (i j : Nat) : σ (idMat i j) = idMat i j := by
  unfold idMat
  split <;> simp

/-- `eval (d.mapData σ) = σ ∘ eval d`, entry by entry, by induction over the layers. -/
theorem evalLayers_natural (σ : R →+* S) (hc : ∀ x, σ (HasConj.conj x) = HasConj.conj (σ x))
    (ls : List (PLayer R)) :
    evalLayers (ls.map (PLayer.mapData σ)) = fun i k => σ (evalLayers ls i k) := by
  induction ls with
  | nil =>
    funext i k
    simp only [List.map_nil, evalLayers]
    exact (idMat_hom σ i k).symm
  | cons l ls ih =>
    funext i k
    simp only [List.map_cons, evalLayers, ih, outDim_mapData]
    rw [matMul_hom]
    have hm : (l.mapData σ).mat = fun i j => σ (l.mat i j) := by
      funext a b
      exact mat_mapData σ (map_zero σ) hc l a b
    rw [hm]

end Natural

/-! ### C15: derivations -/

/-- A derivation on a commutative ring: additive and Leibniz. -/
structure Deriv (R : Type) [CommRing R] where
  D : R → R
  add : ∀ a b, D (a + b) = D a + D b
  mul : ∀ a b, D (a * b) = D a * b + a * D b

section Derivation
variable {R : Type} [CommRing R] (d : Deriv R)

theorem Deriv.zero : d.D 0 = 0 := by
  have h := d.add 0 0
  rw [add_zero] at h
  linear_combination -h

theorem Deriv.one : d.D 1 = 0 := by
  have h := d.mul 1 1
  rw [mul_one, mul_one, one_mul] at h
  linear_combination -h

theorem Deriv.neg (a : R) : d.D (-a) = - d.D a := by
  have h := d.add a (-a)
  rw [add_neg_cancel, d.zero] at h
  linear_combination -h

theorem Deriv.sub (a b : R) : d.D (a - b) = d.D a - d.D b := by
  rw [sub_eq_add_neg, d.add, d.neg]; ring

theorem Deriv.sum_map {α : Type} (l : List α) (f : α → R) :
    d.D ((l.map f).sum) = (l.map (fun x => d.D (f x))).sum := by
  induction l with
  | nil => simpa using d.zero
  | cons a l ih => simp only [List.map_cons, List.sum_cons, d.add, ih]

/-- A constant times something: the constant comes out. -/
theorem Deriv.const_mul (c a : R) (hc : d.D c = 0) : d.D (c * a) = c * d.D a := by
  rw [d.mul, hc]; ring

/-- Product rule for composition (`>>` = matrix product). -/
theorem then_leibniz (n : Nat) (a b : Mat R) (i k : Nat) :
    d.D (matMul n a b i k)
      = matMul n (fun i j => d.D (a i j)) b i k + matMul n a (fun i j => d.D (b i j)) i k := by
  unfold matMul
  rw [d.sum_map, ← sum_map_add]
  exact sum_map_congr _ _ _ (fun j => d.mul _ _)

/-- Kronecker product of a `_ × _` matrix with a `p × q` matrix. -/
def kron (p q : Nat) (a b : Mat R) : Mat R := fun i j => a (i / p) (j / q) * b (i % p) (j % q)

/-- Product rule for the tensor (`@` = Kronecker product). -/
theorem tensor_leibniz (p q : Nat) (a b : Mat R) (i j : Nat) :
    d.D (kron p q a b i j)
      = kron p q (fun i j => d.D (a i j)) b i j + kron p q a (fun i j => d.D (b i j)) i j := by
  unfold kron
  exact d.mul _ _

theorem idMat_const (i j : Nat) : d.D (idMat i j) = 0 := by
  unfold idMat
  split
  · exact d.one
  · exact d.zero

end Derivation

section Gradient
variable {R : Type} [CommRing R] [HasConj R] (d : Deriv R)

/-- Replacing the box of a layer. -/
def PLayer.withBox (l : PLayer R) (b : PBox R) : PLayer R :=
  { left := l.left, box := b, right := l.right }

/-- Whiskering is linear and its identity legs are constants: the derivative of a layer is
    the layer of the derivative of its box. -/
theorem mat_withBox_sum (l : PLayer R) (bs : List (PBox R))
    (hdims : ∀ b' ∈ bs, b'.dom = l.box.dom ∧ b'.cod = l.box.cod)
    (target : Nat → Nat → R)
    (h : ∀ i j, (bs.map (fun b' => b'.arr i j)).sum = target i j) (i j : Nat) :
    (bs.map (fun b' => (l.withBox b').mat i j)).sum
      = if i / (prod l.box.dom * prod l.right) = j / (prod l.box.cod * prod l.right)
            ∧ i % prod l.right = j % prod l.right
        then target (i / prod l.right % prod l.box.dom) (j / prod l.right % prod l.box.cod)
        else 0 := by
  have key : ∀ b' ∈ bs, (l.withBox b').mat i j
      = if i / (prod l.box.dom * prod l.right) = j / (prod l.box.cod * prod l.right)
            ∧ i % prod l.right = j % prod l.right
        then b'.arr (i / prod l.right % prod l.box.dom) (j / prod l.right % prod l.box.cod)
        else 0 := by
    intro b' hb
    obtain ⟨h1, h2⟩ := hdims b' hb
    unfold PLayer.mat PLayer.withBox
    simp only [h1, h2]
  have e : bs.map (fun b' => (l.withBox b').mat i j)
      = bs.map (fun b' =>
          if i / (prod l.box.dom * prod l.right) = j / (prod l.box.cod * prod l.right)
              ∧ i % prod l.right = j % prod l.right
          then b'.arr (i / prod l.right % prod l.box.dom) (j / prod l.right % prod l.box.cod)
          else 0) := List.map_congr_left key
  rw [e]
  split
  · exact h _ _
  · exact sum_map_zero _

theorem D_mat (l : PLayer R) (i j : Nat) :
    d.D (l.mat i j)
      = if i / (prod l.box.dom * prod l.right) = j / (prod l.box.cod * prod l.right)
            ∧ i % prod l.right = j % prod l.right
        then d.D (l.box.arr (i / prod l.right % prod l.box.dom) (j / prod l.right % prod l.box.cod))
        else 0 := by
  unfold PLayer.mat
  split
  · rfl
  · exact d.zero

/-- If no box depends on the variable, the evaluation is a constant. -/
theorem D_evalLayers_const (ls : List (PLayer R))
    (h : ∀ l ∈ ls, ∀ i j, d.D (l.box.arr i j) = 0) (i k : Nat) :
    d.D (evalLayers ls i k) = 0 := by
  induction ls generalizing i k with
  | nil => exact idMat_const d i k
  | cons l ls ih =>
    simp only [evalLayers]
    rw [then_leibniz]
    have h1 : (fun i j => d.D (l.mat i j)) = fun _ _ => 0 := by
      funext a b
      rw [D_mat]
      split
      · exact h l (List.mem_cons_self) _ _
      · rfl
    have h2 : (fun i j => d.D (evalLayers ls i j)) = fun _ _ => 0 := by
      funext a b
      exact ih (fun l' hl' => h l' (List.mem_cons_of_mem _ hl')) a b
    rw [h1, h2]
    unfold matMul
    simp [sum_map_zero]

theorem evalSum_nil (i j : Nat) : evalSum ([] : List (List (PLayer R))) i j = 0 := by
  simp [evalSum]

theorem evalSum_append (as bs : List (List (PLayer R))) (i j : Nat) :
    evalSum (as ++ bs) i j = evalSum as i j + evalSum bs i j := by
  simp [evalSum, List.sum_append]

/-- **Product rule over the layers** (tensor.py:485-492): if every box gradient evaluates to the
    derivative of the box, the gradient of the diagram evaluates to the derivative of its
    evaluation. -/
theorem grad_product_rule (dep : PBox R → Bool) (G : PBox R → List (PBox R))
    (hdims : ∀ b, ∀ b' ∈ G b, b'.dom = b.dom ∧ b'.cod = b.cod)
    (hG : ∀ b i j, ((G b).map (fun b' => b'.arr i j)).sum = d.D (b.arr i j))
    (hdep : ∀ b, dep b = false → ∀ i j, d.D (b.arr i j) = 0)
    (ls : List (PLayer R)) (i k : Nat) :
    evalSum (gradLayers dep G ls) i k = d.D (evalLayers ls i k) := by
  induction ls generalizing i k with
  | nil =>
    simp only [gradLayers, evalLayers]
    rw [evalSum_nil, idMat_const]
  | cons l tail ih =>
    unfold gradLayers
    by_cases hany : (l :: tail).any (fun x => dep x.box) = true
    · rw [if_pos hany, evalSum_append]
      simp only [evalLayers]
      rw [then_leibniz]
      congr 1
      · -- the terms in which the first box is differentiated
        unfold evalSum
        simp only [List.map_map, Function.comp_def, evalLayers]
        have hod : ∀ b' ∈ G l.box,
            (({ left := l.left, box := b', right := l.right } : PLayer R)).outDim = l.outDim := by
          intro b' hb
          obtain ⟨_, h2⟩ := hdims l.box b' hb
          unfold PLayer.outDim
          simp only [h2]
        have e : (G l.box).map (fun b' =>
              matMul (({ left := l.left, box := b', right := l.right } : PLayer R)).outDim
                (({ left := l.left, box := b', right := l.right } : PLayer R)).mat
                (evalLayers tail) i k)
            = (G l.box).map (fun b' =>
                matMul l.outDim (l.withBox b').mat (evalLayers tail) i k) :=
          List.map_congr_left (fun b' hb => by rw [hod b' hb]; rfl)
        rw [e]
        unfold matMul
        rw [sum_map_comm]
        refine sum_map_congr _ _ _ (fun j => ?_)
        rw [sum_map_mul_right]
        congr 1
        rw [mat_withBox_sum l (G l.box) (hdims l.box) (fun a b => d.D (l.box.arr a b))
              (fun a b => hG l.box a b) i j]
        exact (D_mat d l i j).symm
      · -- the terms in which the tail is differentiated
        unfold evalSum
        simp only [List.map_map, Function.comp_def, evalLayers]
        unfold matMul
        rw [sum_map_comm]
        refine sum_map_congr _ _ _ (fun j => ?_)
        rw [sum_map_mul_left]
        congr 1
        exact ih j k
    · rw [if_neg hany, evalSum_nil]
      symm
      apply D_evalLayers_const
      intro l' hl' a b
      apply hdep
      have : ¬ (∃ x ∈ l :: tail, dep x.box = true) := by
        intro hx
        exact hany (List.any_eq_true.mpr hx)
      cases hb : dep l'.box with
      | false => rfl
      | true => exact absurd ⟨l', hl', hb⟩ this

omit [CommRing R] [HasConj R] in
/-- A diagram none of whose boxes depends on the variable has the empty sum as gradient. -/
theorem grad_of_constant (dep : PBox R → Bool) (G : PBox R → List (PBox R))
    (ls : List (PLayer R)) (h : ∀ l ∈ ls, dep l.box = false) :
    gradLayers dep G ls = [] := by
  cases ls with
  | nil => rfl
  | cons l tail =>
    unfold gradLayers
    have : (l :: tail).any (fun x => dep x.box) = false := by
      rw [List.any_eq_false]
      intro x hx
      rw [h x hx]
      simp
    rw [this]
    simp

/-- tensor.Box.grad as modelled (`boxGrad`): one term, the box with differentiated data — or no
    term when the repaired code tests the free symbols first; either way the terms sum to the
    derivative of the box. -/
theorem boxGrad_spec (checksFS : Bool) (dep : PBox R → Bool)
    (hconj : ∀ x, d.D (HasConj.conj x) = HasConj.conj (d.D x))
    (hdep : ∀ b, dep b = false → ∀ i j, d.D (b.arr i j) = 0)
    (b : PBox R) (i j : Nat) :
    ((boxGrad checksFS dep d.D b).map (fun b' => b'.arr i j)).sum = d.D (b.arr i j) := by
  unfold boxGrad
  split
  · rename_i h
    have hb : dep b = false := by
      cases hdb : dep b with
      | false => rfl
      | true => simp [hdb] at h
    simp [hdep b hb i j]
  · simp [arr_mapData d.D d.zero hconj]

theorem boxGrad_dims (checksFS : Bool) (dep : PBox R → Bool) (D : R → R) (b : PBox R) :
    ∀ b' ∈ boxGrad checksFS dep D b, b'.dom = b.dom ∧ b'.cod = b.cod := by
  intro b' hb
  unfold boxGrad at hb
  split at hb
  · simp at hb
  · simp only [List.mem_singleton] at hb
    subst hb
    exact ⟨rfl, rfl⟩

end Gradient

/-! ### jacobian stacking order -/

theorem jacobianMat_entry {R : Type} [Zero R] (c : Nat) (grads : List (Mat R)) (i k j : Nat)
    (hj : j < c) (g : Mat R) (hk : grads[k]? = some g) :
    jacobianMat c grads i (k * c + j) = g i j := by
  unfold jacobianMat
  have hc : 0 < c := Nat.lt_of_le_of_lt (Nat.zero_le _) hj
  have h1 : (k * c + j) / c = k := by
    rw [Nat.add_comm, Nat.add_mul_div_right _ _ hc, Nat.div_eq_of_lt hj, Nat.zero_add]
  have h2 : (k * c + j) % c = j := by
    rw [Nat.add_comm, Nat.add_mul_mod_self_right, Nat.mod_eq_of_lt hj]
  rw [h1, h2, hk]

/-! ### free symbols -/

theorem mem_insertNat (v w : Nat) (ws : List Nat) : v ∈ insertNat w ws ↔ v = w ∨ v ∈ ws := by
  induction ws with
  | nil => simp [insertNat]
  | cons x xs ih =>
    unfold insertNat
    split
    · simp
    · split
      · rename_i h; subst h; simp
      · simp only [List.mem_cons, ih]
        constructor
        · rintro (h | h | h)
          · exact Or.inr (Or.inl h)
          · exact Or.inl h
          · exact Or.inr (Or.inr h)
        · rintro (h | h | h)
          · exact Or.inr (Or.inl h)
          · exact Or.inl h
          · exact Or.inr (Or.inr h)

theorem mem_unionNat (v : Nat) (xs ys : List Nat) : v ∈ unionNat xs ys ↔ v ∈ xs ∨ v ∈ ys := by
  induction xs with
  | nil => simp [unionNat]
  | cons x xs ih =>
    have : unionNat (x :: xs) ys = insertNat x (unionNat xs ys) := rfl
    rw [this, mem_insertNat, ih]
    simp only [List.mem_cons]
    constructor
    · rintro (h | h | h)
      · exact Or.inl (Or.inl h)
      · exact Or.inl (Or.inr h)
      · exact Or.inr h
    · rintro ((h | h) | h)
      · exact Or.inl h
      · exact Or.inr (Or.inl h)
      · exact Or.inr (Or.inr h)

theorem mem_box_freeSymbols {R : Type} (fs : R → List Nat) (b : PBox R) (v : Nat) :
    v ∈ b.freeSymbols fs ↔ ∃ e ∈ b.data, v ∈ fs e := by
  unfold PBox.freeSymbols
  induction b.data with
  | nil => simp
  | cons e es ih =>
    simp only [List.foldr_cons, mem_unionNat, ih, List.mem_cons]
    constructor
    · rintro (h | ⟨e', he', hv⟩)
      · exact ⟨e, Or.inl rfl, h⟩
      · exact ⟨e', Or.inr he', hv⟩
    · rintro ⟨e', he' | he', hv⟩
      · subst he'; exact Or.inl hv
      · exact Or.inr ⟨e', he', hv⟩

/-- The free symbols reported for a diagram are exactly the symbols occurring in the data of
    its boxes. -/
theorem mem_freeSymbolsL {R : Type} (fs : R → List Nat) (ls : List (PLayer R)) (v : Nat) :
    v ∈ freeSymbolsL fs ls ↔ ∃ l ∈ ls, ∃ e ∈ l.box.data, v ∈ fs e := by
  unfold freeSymbolsL
  induction ls with
  | nil => simp
  | cons l ls ih =>
    simp only [List.foldr_cons, mem_unionNat, ih, mem_box_freeSymbols, List.mem_cons]
    constructor
    · rintro (h | ⟨l', hl', h⟩)
      · exact ⟨l, Or.inl rfl, h⟩
      · exact ⟨l', Or.inr hl', h⟩
    · rintro ⟨l', hl' | hl', h⟩
      · subst hl'; exact Or.inl h
      · exact Or.inr ⟨l', hl', h⟩

/-- Substituting closed values for every entry leaves no free symbol. -/
theorem freeSymbols_mapData_closed {R S : Type} (fs : S → List Nat) (f : R → S)
    (hclosed : ∀ e, fs (f e) = []) (ls : List (PLayer R)) :
    freeSymbolsL fs (ls.map (PLayer.mapData f)) = [] := by
  apply List.eq_nil_iff_forall_not_mem.mpr
  intro v hv
  rw [mem_freeSymbolsL] at hv
  obtain ⟨l, hl, e, he, hve⟩ := hv
  rw [List.mem_map] at hl
  obtain ⟨l0, _, rfl⟩ := hl
  have : e ∈ l0.box.data.map f := he
  rw [List.mem_map] at this
  obtain ⟨e0, _, rfl⟩ := this
  rw [hclosed] at hve
  exact absurd hve (List.not_mem_nil)

theorem mapData_mapData {R S T : Type} (f : R → S) (g : S → T) (ls : List (PLayer R)) :
    (ls.map (PLayer.mapData f)).map (PLayer.mapData g) = ls.map (PLayer.mapData (g ∘ f)) := by
  simp only [List.map_map]
  apply List.map_congr_left
  intro l _
  simp [PLayer.mapData, PBox.mapData, Function.comp_def]

end DV.Param
